(* LINb_Cex.v — [abs_step_ok] for a Delete step does NOT follow from CIall (+ all_small_b + all_op_b) alone:
   none of these invariants says that the operation recorded in a program counter is the head of the thread's
   program, which is where [lp_step] reads the operation from.  A state satisfying all of them in which the step
   of a thread at [WantRoot (CDelete 1) 0] is classified by [lp_step] as the linearization point of an
   [OInsert 5 5] (K = V = nat, order 4).  The missing fact is [prog_ok] (LINb_Prog.v). *)
From Coq Require Import List Permutation Lia Bool PeanoNat.
From GB Require Import Frame LockProof FrameInv FrameProof CInv CIDef CInv3 NoDeadlock PCb1_Blocks PCb1_Proof
  OCCc_Blocks Lin LinDef LINb_Prog LINb_Proof.
Import ListNotations.

Definition cexP : st nat nat :=
  {| tr := ILeaf 0 None [(1, 1)]; tm := Some 0; lk := []; fresh := 1;
     ths := [(0, {| prog := [CInsert 5 5]; tpc := WantRoot (CDelete 1) 0; results := [] |})] |}.

Lemma cexP_GI : GI Nat.ltb 4 cexP.
Proof.
  unfold GI, cexP. simpl.
  split; [repeat constructor; simpl; tauto|]. split; [repeat constructor|]. repeat split; lia.
Qed.

Lemma cexP_inv2 : lock_inv2 nat nat cexP.
Proof.
  split.
  - unfold lock_inv, cexP. simpl.
    split; [constructor|].
    split; [repeat constructor; simpl; tauto|].
    split; [intros x t []|].
    split; [intros t H; inversion H; subst; eexists; reflexivity|].
    intros t th H. apply one_thread in H. destruct H as [-> ->]. simpl.
    split; [exact I|]. split; [apply Permutation_refl | tauto].
  - intros t th H. apply one_thread in H. destruct H as [-> ->]. reflexivity.
Qed.

Lemma cexP_CIall : CIall Nat.ltb 4 cexP.
Proof.
  split.
  { split; [split; [exact cexP_GI | split; [exact cexP_inv2 | vm_compute; reflexivity]] | vm_compute; reflexivity]. }
  split.
  { split; [|split; [exact cexP_inv2|]].
    - unfold ids_ok, cexP. simpl. split; repeat constructor; simpl; tauto.
    - intros t th H. apply one_thread in H. destruct H as [-> ->]. exact I. }
  split; [vm_compute; reflexivity|]. split; vm_compute; reflexivity.
Qed.

Theorem abs_step_delete_needs_prog_ok :
  exists (s : st nat nat) me th,
    Nat.even 4 = true /\ 4 <= 4 /\ CIall Nat.ltb 4 s /\ all_small_b 4 s = true /\ all_op_b s = true /\
    get_thread me (ths s) = Some th /\ is_delete_pc nat nat (tpc th) = true /\
    ~ abs_step_ok Nat.ltb 4 s me /\ ~ prog_ok nat nat s.
Proof.
  exists cexP, 0. eexists.
  split; [reflexivity|]. split; [lia|]. split; [exact cexP_CIall|].
  split; [vm_compute; reflexivity|]. split; [vm_compute; reflexivity|].
  split; [reflexivity|]. split; [reflexivity|]. split.
  - intros H.
    assert (Hs : cstep Nat.ltb 4 cexP 0 =
                 Stepped {| tr := ILeaf 0 None []; tm := None; lk := []; fresh := 1;
                            ths := [(0, {| prog := []; tpc := Idle; results := [RUnit] |})] |}
                         (Some (Some 0)) [EReturn RUnit]) by (vm_compute; reflexivity).
    specialize (H _ _ _ Hs). vm_compute in H. destruct H as [H _]. discriminate H.
  - intros H. specialize (H 0 _ eq_refl). simpl in H. destruct H as [r H]. discriminate H.
Qed.

Print Assumptions abs_step_delete_needs_prog_ok.

(* seqdriver.ml — replays sequential cases on the extracted Coq model and prints one canonical
   observation line per operation (same format as the Go harness).  Glue only: parsing and printing. *)
open Gbmodel
let rec pos_of_int n = if n = 1 then XH else if n land 1 = 0 then XO (pos_of_int (n/2)) else XI (pos_of_int (n/2))
let z_of_int n = if n = 0 then Z0 else if n > 0 then Zpos (pos_of_int n) else Zneg (pos_of_int (-n))
let rec int_of_pos = function XH -> 1 | XO p -> 2 * int_of_pos p | XI p -> 2 * int_of_pos p + 1
let int_of_z = function Z0 -> 0 | Zpos p -> int_of_pos p | Zneg p -> - (int_of_pos p)
let rec nat_of_int n = if n <= 0 then O else S (nat_of_int (n-1))

let key_of_string s = match String.split_on_char '.' s with
  | [c; t] -> (z_of_int (int_of_string c), z_of_int (int_of_string t))
  | _ -> failwith ("bad key " ^ s)
let key_str (c, t) = Printf.sprintf "%d.%d" (int_of_z c) (int_of_z t)
let val_of_string s = if s = "nil" then None else Some (z_of_int (int_of_string s))
let val_str = function None -> "nil" | Some z -> string_of_int (int_of_z z)
let optval_str = function None -> "none" | Some v -> val_str v

let rec dump b t = match t with
  | Leaf es -> Buffer.add_string b "L[";
      List.iteri (fun i (k, v) -> if i > 0 then Buffer.add_char b ' '; Buffer.add_string b (key_str k); Buffer.add_char b '='; Buffer.add_string b (val_str v)) es;
      Buffer.add_char b ']'
  | Node cs -> Buffer.add_string b "N[";
      List.iteri (fun i (k, c) -> if i > 0 then Buffer.add_char b ' '; Buffer.add_string b (key_str k); Buffer.add_char b ':'; dump b c) cs;
      Buffer.add_char b ']'

let panic_str = function
  | PFuel -> "fuel" | PIndex -> "index" | PLeafEmpty -> "leafempty" | PInternalEmpty -> "internalempty"
  | PNoSiblings -> "nosiblings" | PAdoptR -> "adoptr" | PAdoptL -> "adoptl" | PAbsorb -> "absorb"

let rec firstn n l = if n = 0 then [] else match l with [] -> [] | x :: r -> x :: firstn (n-1) r
let pairs_str l = String.concat "," (List.map (fun (k, v) -> key_str k ^ "=" ^ val_str v) l)

let rec int_of_nat = function O -> 0 | S n -> 1 + int_of_nat n
let search_mode () =
  let ic = open_in Sys.argv.(2) and oc = open_out Sys.argv.(3) in
  let n = ref 0 in
  (try while true do
    let line = input_line ic in
    if String.length line > 2 && String.sub line 0 2 = "Q " then begin
      match List.filter (fun s -> s <> "") (String.split_on_char ' ' line) with
      | _ :: k :: vs ->
        let key = key_of_string k and vs = List.map key_of_string vs in
        let pr = function Ok i -> string_of_int (int_of_nat i) | Panic p -> "panic=" ^ panic_str p in
        Printf.fprintf oc "%d ge=%s le=%s\n" !n (pr (h_search_ge key vs)) (pr (h_search_le key vs)); incr n
      | _ -> ()
    end
  done with End_of_file -> ());
  close_out oc

let () =
  if Array.length Sys.argv > 3 && Sys.argv.(1) = "search" then (search_mode (); exit 0);
  let ic = open_in Sys.argv.(1) and oc = open_out Sys.argv.(2) in
  let id = ref "" and order = ref O and invbad = ref 0 and nodump = ref false in
  (try while true do
    let line = input_line ic in
    if String.length line > 5 && String.sub line 0 5 = "CASE " then begin
      (match String.split_on_char ' ' line with
       | _ :: i :: rest -> id := i; nodump := false;
           List.iter (fun kv -> match String.split_on_char '=' kv with
             | ["order"; n] -> order := nat_of_int (int_of_string n) | ["nodump"; "1"] -> nodump := true | _ -> ()) rest
       | _ -> failwith "bad CASE")
    end else if String.length line > 4 && String.sub line 0 4 = "OPS " then begin
      let ops = String.split_on_char ';' (String.sub line 4 (String.length line - 4)) in
      let t = ref (Leaf []) and dead = ref false in
      List.iteri (fun idx op ->
        if not !dead then begin
          let toks = List.filter (fun s -> s <> "") (String.split_on_char ' ' op) in
          let res = match toks with
            | ["I"; k; v] -> (match h_upsert !order (key_of_string k) (fun _ -> val_of_string v) !t with
                              | Ok (t', _) -> t := t'; "ok" | Panic p -> dead := true; "panic=" ^ panic_str p)
            | ["U"; k; d] -> (match h_upsert !order (key_of_string k) (add_cb (z_of_int (int_of_string d))) !t with
                              | Ok (t', a) -> t := t'; "arg=" ^ optval_str a ^ " calls=1" | Panic p -> dead := true; "panic=" ^ panic_str p)
            | ["D"; k] -> (match h_delete !order (key_of_string k) !t with
                           | Ok t' -> t := t'; "ok" | Panic p -> dead := true; "panic=" ^ panic_str p)
            | ["S"; k] -> (match h_search (key_of_string k) !t with
                           | Ok r -> "found=" ^ optval_str r | Panic p -> dead := true; "panic=" ^ panic_str p)
            | ["C"; k; n; _] -> (match h_scan (key_of_string k) !t with
                           | Ok l -> let n = int_of_string n in
                                     "pairs=" ^ pairs_str (if n < 0 then l else firstn n l)
                           | Panic p -> dead := true; "panic=" ^ panic_str p)
            | _ -> failwith ("bad op " ^ op) in
          let b = Buffer.create 256 in (if !nodump then Buffer.add_string b "-" else dump b !t);
          let inv = if !dead || !nodump then true else h_inv_b !order !t in
          if not inv then incr invbad;
          Printf.fprintf oc "%s %d %s | %s chain=ok locks=0 inv=%s\n" !id idx res (Buffer.contents b) (if inv then "t" else "f")
        end) ops
    end
  done with End_of_file -> ());
  close_out oc;
  Printf.printf "model_inv_failures %d\n" !invbad

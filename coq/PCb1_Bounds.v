(* PCb1_Bounds.v — [bounds_in] / [bounds] / [in_range] of CInv.v through one-hole contexts (EraseLemmas.v):
   decomposition of a tree at a found node, bounds of the hole (they depend on the context only), find/upd/bounds
   after replacing the subtree in the hole, and order/balance facts of the subtree in the hole. *)
From Coq Require Import List Bool Lia PeanoNat Permutation.
From GB Require Import Model Inv ListLemmas SearchProof InvProof SearchScanProof TreeLemmas Conc GI CInv EraseLemmas EraseOps.
Import ListNotations.

Section B.
Variables (K V : Type) (ltb : K -> K -> bool).
Notation itree := (itree K V).
Notation cframe := (cframe K V).
Notation cfind := (@Conc.find K V).

(* ------------------------------------------------------------------------------------------------ *)
(* bounds_in, named list version                                                                      *)
(* ------------------------------------------------------------------------------------------------ *)
Definition next_hi (hi : option K) (post : list (K * itree)) : option K :=
  match post with [] => hi | (s', _) :: _ => Some s' end.

Fixpoint bounds_list (hi : option K) (x : id) (cs : list (K * itree)) : option (option K * option K) :=
  match cs with
  | [] => None
  | (s, c) :: r =>
    match bounds_in (Some s) (next_hi hi r) x c with Some b => Some b | None => bounds_list hi x r end
  end.

Lemma bounds_node lo hi x i (cs : list (K * itree)) :
  bounds_in lo hi x (INode i cs) = if i =? x then Some (lo, hi) else bounds_list hi x cs.
Proof.
  simpl. destruct (i =? x); [reflexivity|].
  induction cs as [|[s c] r IH]; simpl; [reflexivity|].
  destruct r as [|[s' c'] r']; simpl in *; destruct (bounds_in _ _ x c); auto.
Qed.

Lemma bounds_leaf lo hi x i nx (es : list (K * V)) :
  bounds_in lo hi x (ILeaf i nx es) = if i =? x then Some (lo, hi) else None.
Proof. reflexivity. Qed.

Lemma bounds_self lo hi (t : itree) : bounds_in lo hi (nid t) t = Some (lo, hi).
Proof. destruct t; simpl; rewrite Nat.eqb_refl; reflexivity. Qed.

Lemma bounds_notin x : forall (t : itree) lo hi, ~ In x (ids t) -> bounds_in lo hi x t = None.
Proof.
  induction t as [i nx es|i cs IH] using itree_ind'; intros lo hi Hn.
  - rewrite bounds_leaf. simpl in Hn. destruct (i =? x) eqn:E; [apply Nat.eqb_eq in E; tauto|reflexivity].
  - rewrite bounds_node. rewrite EraseLemmas.ids_node in Hn. simpl in Hn.
    destruct (i =? x) eqn:E; [apply Nat.eqb_eq in E; tauto|].
    assert (Hn' : ~ In x (ids_list cs)) by tauto. clear Hn E.
    induction cs as [|[s c] r IHr]; simpl; [reflexivity|].
    inversion IH as [|? ? Hc Hr]; subst. rewrite ids_list_cons in Hn'. simpl in Hc.
    rewrite Hc by (intros Hi; apply Hn'; apply in_or_app; now left).
    apply IHr; [exact Hr|]. intros Hi; apply Hn'; apply in_or_app; now right.
Qed.

Lemma bounds_list_notin hi x (cs : list (K * itree)) : ~ In x (ids_list cs) -> bounds_list hi x cs = None.
Proof.
  induction cs as [|[s c] r IH]; cbn [bounds_list]; [reflexivity|]. rewrite ids_list_cons. intros Hn.
  rewrite bounds_notin by (intros Hi; apply Hn; apply in_or_app; now left).
  apply IH. intros Hi; apply Hn; apply in_or_app; now right.
Qed.

Lemma bounds_list_app hi x (a b : list (K * itree)) :
  ~ In x (ids_list a) -> bounds_list hi x (a ++ b) = bounds_list hi x b.
Proof.
  induction a as [|[s c] a IH]; cbn [bounds_list app]; [reflexivity|]. rewrite ids_list_cons. intros Hn.
  rewrite bounds_notin by (intros Hi; apply Hn; apply in_or_app; now left).
  apply IH. intros Hi; apply Hn; apply in_or_app; now right.
Qed.

(* ------------------------------------------------------------------------------------------------ *)
(* bounds through a context                                                                            *)
(* ------------------------------------------------------------------------------------------------ *)
Lemma bounds_plug1 lo hi x (cf : cframe) (sub : itree) :
  ~ In x (cf_ids cf) ->
  bounds_in lo hi x (plug1 cf sub) = bounds_in (Some (csep cf)) (next_hi hi (cpost cf)) x sub.
Proof.
  intros Hn. unfold plug1. rewrite bounds_node. unfold cf_ids in Hn. simpl in Hn.
  destruct (cid cf =? x) eqn:E; [apply Nat.eqb_eq in E; tauto|].
  rewrite bounds_list_app by (intros H; apply Hn; right; apply in_or_app; now left).
  simpl. destruct (bounds_in (Some (csep cf)) (next_hi hi (cpost cf)) x sub); [reflexivity|].
  apply bounds_list_notin. intros H; apply Hn; right; apply in_or_app; now right.
Qed.

(* the key range of the hole: innermost frame first *)
Fixpoint ctx_bounds (lo hi : option K) (C : list cframe) : option K * option K :=
  match C with
  | [] => (lo, hi)
  | cf :: C' => (Some (csep cf), next_hi (snd (ctx_bounds lo hi C')) (cpost cf))
  end.

Lemma bounds_plug : forall (C : list cframe) lo hi x (sub : itree), ~ In x (ctx_ids C) ->
  bounds_in lo hi x (plug C sub) = bounds_in (fst (ctx_bounds lo hi C)) (snd (ctx_bounds lo hi C)) x sub.
Proof.
  induction C as [|cf C IH]; intros lo hi x sub Hn; simpl; [reflexivity|].
  rewrite ctx_ids_cons in Hn.
  rewrite IH by (intros H; apply Hn; apply in_or_app; now right).
  apply bounds_plug1. intros H; apply Hn; apply in_or_app; now left.
Qed.

(* ------------------------------------------------------------------------------------------------ *)
(* decomposition at a found node                                                                       *)
(* ------------------------------------------------------------------------------------------------ *)
Lemma plug_app (A B : list cframe) (x : itree) : plug (A ++ B) x = plug B (plug A x).
Proof. revert x. induction A as [|cf A IH]; intros x; simpl; [reflexivity|apply IH]. Qed.

Lemma ctx_ids_app (A B : list cframe) : ctx_ids (A ++ B) = ctx_ids A ++ ctx_ids B.
Proof. apply flat_map_app. Qed.

Lemma ids_plug : forall (C : list cframe) (sub : itree), Permutation (ids (plug C sub)) (ids sub ++ ctx_ids C).
Proof.
  induction C as [|cf C IH]; intros sub; cbn [plug].
  - simpl. rewrite app_nil_r. apply Permutation_refl.
  - eapply perm_trans; [apply IH|]. rewrite ctx_ids_cons. apply perm_plug1.
Qed.

Lemma find_list_some x (cs : list (K * itree)) n :
  find_list x cs = Some n -> exists pre s c post, cs = pre ++ (s, c) :: post /\ cfind x c = Some n.
Proof.
  induction cs as [|[s c] r IH]; cbn [find_list]; [discriminate|].
  destruct (cfind x c) as [y|] eqn:E.
  - intros H. inversion H; subst y. exists [], s, c, r. auto.
  - intros H. destruct (IH H) as (pre & s' & c' & post & -> & Hf).
    exists ((s, c) :: pre), s', c', post. auto.
Qed.

Lemma find_ctx x : forall (t n : itree), cfind x t = Some n -> exists C, t = plug C n.
Proof.
  induction t as [i nx es|i cs IH] using itree_ind'; intros n Hf.
  - simpl in Hf. destruct (i =? x); [|discriminate]. inversion Hf; subst. exists []. reflexivity.
  - rewrite find_node in Hf. destruct (i =? x).
    + inversion Hf; subst. exists []. reflexivity.
    + destruct (find_list_some _ _ _ Hf) as (pre & s & c & post & -> & Hc).
      rewrite Forall_forall in IH. destruct (IH (s, c) (in_elt _ _ _) n Hc) as [C HC].
      exists (C ++ [mkcf i pre s post]). rewrite plug_app. simpl. unfold plug1. simpl. rewrite <- HC. reflexivity.
Qed.

Lemma find_nid' x : forall (t n : itree), cfind x t = Some n -> nid n = x.
Proof.
  induction t as [i nx es|i cs IH] using itree_ind'; intros n Hf.
  - simpl in Hf. destruct (i =? x) eqn:Ei; [|discriminate]. inversion Hf; subst. apply Nat.eqb_eq in Ei. exact Ei.
  - rewrite find_node in Hf. destruct (i =? x) eqn:Ei.
    + inversion Hf; subst. apply Nat.eqb_eq in Ei. exact Ei.
    + destruct (find_list_some _ _ _ Hf) as (pre & s & c & post & -> & Hc).
      rewrite Forall_forall in IH. apply (IH (s, c) (in_elt _ _ _) n Hc).
Qed.

(* the working form: a found node sits in a context whose identities are disjoint from its own *)
Lemma find_ctx_nodup x (t n : itree) :
  NoDup (ids t) -> cfind x t = Some n -> exists C, t = plug C n /\ NoDup (ids n ++ ctx_ids C) /\ nid n = x.
Proof.
  intros Hnd Hf. destruct (find_ctx x t n Hf) as [C ->]. exists C. split; [reflexivity|].
  split; [|eapply find_nid'; eauto].
  eapply Permutation_NoDup; [apply ids_plug|exact Hnd].
Qed.

Lemma plug_nodup (C : list cframe) (sub : itree) : NoDup (ids (plug C sub)) -> NoDup (ids sub ++ ctx_ids C).
Proof. intros H. eapply Permutation_NoDup; [apply ids_plug|exact H]. Qed.

Lemma sub_notin_ctx (C : list cframe) (sub : itree) y :
  NoDup (ids sub ++ ctx_ids C) -> In y (ids sub) -> ~ In y (ctx_ids C).
Proof. intros H Hi. apply nodup_app_iff in H. destruct H as (_ & _ & H). now apply H. Qed.

Lemma find_plug_nid (C : list cframe) (sub : itree) :
  NoDup (ids sub ++ ctx_ids C) -> cfind (nid sub) (plug C sub) = Some sub.
Proof.
  intros H. rewrite find_plug; [apply find_self|apply EraseLemmas.nid_in_ids|].
  eapply sub_notin_ctx; [exact H|apply EraseLemmas.nid_in_ids].
Qed.

Lemma bounds_plug_nid (C : list cframe) (sub : itree) lo hi :
  NoDup (ids sub ++ ctx_ids C) -> bounds_in lo hi (nid sub) (plug C sub) = Some (ctx_bounds lo hi C).
Proof.
  intros H. rewrite bounds_plug by (eapply sub_notin_ctx; [exact H|apply EraseLemmas.nid_in_ids]).
  rewrite bounds_self. destruct (ctx_bounds lo hi C); reflexivity.
Qed.

Lemma upd_plug_nid (C : list cframe) (sub new : itree) :
  NoDup (ids sub ++ ctx_ids C) -> upd (nid sub) (fun _ => Ok new) (plug C sub) = Ok (plug C new).
Proof.
  intros H. rewrite upd_plug by (eapply sub_notin_ctx; [exact H|apply EraseLemmas.nid_in_ids]).
  rewrite upd_self. reflexivity.
Qed.

(* replacing the found node by one with the same identity: it is found again, with the same bounds *)
Lemma upd_self_facts n (t t' nd new : itree) :
  NoDup (ids t) -> cfind n t = Some nd -> nid new = n -> upd n (fun _ => Ok new) t = Ok t' ->
  cfind n t' = Some new /\ bounds n t' = bounds n t /\
  exists C, t = plug C nd /\ t' = plug C new /\ NoDup (ids nd ++ ctx_ids C).
Proof.
  intros Hnd Hf Hn Hu. destruct (find_ctx_nodup n t nd Hnd Hf) as (C & -> & HC & Hnn).
  rewrite <- Hnn in Hu. rewrite (upd_plug_nid C nd new HC) in Hu. inversion Hu; subst t'. clear Hu.
  assert (HnC : ~ In n (ctx_ids C)).
  { rewrite <- Hnn. eapply sub_notin_ctx; [exact HC|apply EraseLemmas.nid_in_ids]. }
  split; [|split].
  - rewrite find_plug; [rewrite <- Hn; apply find_self| rewrite <- Hn; apply EraseLemmas.nid_in_ids|exact HnC].
  - unfold bounds. rewrite !bounds_plug by exact HnC.
    rewrite <- Hn at 1. rewrite bounds_self. rewrite <- Hnn. rewrite bounds_self. reflexivity.
  - exists C. auto.
Qed.

(* ------------------------------------------------------------------------------------------------ *)
(* order and balance of the subtree in the hole                                                        *)
(* ------------------------------------------------------------------------------------------------ *)
Lemma erase_plug1' (cf : cframe) (x : itree) :
  erase_ids (plug1 cf x) = Node (erase_cs (cpre cf) ++ (csep cf, erase_ids x) :: erase_cs (cpost cf)).
Proof. unfold plug1. rewrite erase_node, erase_cs_app, erase_cs_cons. reflexivity. Qed.

Lemma plug_ordered : forall (C : list cframe) (n : itree),
  ordered ltb (erase_ids (plug C n)) -> ordered ltb (erase_ids n).
Proof.
  induction C as [|cf C IH]; intros n H; simpl in H; [exact H|].
  apply IH in H. rewrite erase_plug1' in H. destruct H as (_ & _ & Hk).
  eapply (all_kids_elt K V); exact Hk.
Qed.

Lemma plug_bal : forall (C : list cframe) (n : itree) d,
  bal d (erase_ids (plug C n)) -> exists d', bal d' (erase_ids n).
Proof.
  induction C as [|cf C IH]; intros n d H; simpl in H; [eauto|].
  apply IH in H. destruct H as [d1 H]. rewrite erase_plug1' in H.
  destruct d1 as [|d2]; simpl in H; [contradiction|]. destruct H as [_ Hk].
  exists d2. eapply (all_kids_elt K V); exact Hk.
Qed.

Lemma find_ordered x (t n : itree) : ordered ltb (erase_ids t) -> cfind x t = Some n -> ordered ltb (erase_ids n).
Proof. intros H Hf. destruct (find_ctx x t n Hf) as [C ->]. eapply plug_ordered; eauto. Qed.

Lemma find_node_nonempty x (t : itree) d i cs :
  bal d (erase_ids t) -> cfind x t = Some (INode i cs) -> cs <> [].
Proof.
  intros H Hf. destruct (find_ctx x t _ Hf) as [C ->]. destruct (plug_bal C _ d H) as [d' Hb].
  rewrite erase_node in Hb. destruct d'; simpl in Hb; [contradiction|]. destruct Hb as [Hne _].
  intros ->. apply Hne. reflexivity.
Qed.

(* ------------------------------------------------------------------------------------------------ *)
(* small list facts                                                                                    *)
(* ------------------------------------------------------------------------------------------------ *)
Lemma app_eq_len {A} (p p' : list A) a a' q q' :
  p ++ a :: q = p' ++ a' :: q' -> length p = length p' -> p = p' /\ a = a' /\ q = q'.
Proof.
  revert p'. induction p as [|x p IH]; intros [|x' p'] H Hl; simpl in *; try lia.
  - inversion H; auto.
  - inversion H; subst. destruct (IH p' H2) as (-> & -> & ->); [lia|auto].
Qed.

End B.

Arguments next_hi {K V}. Arguments bounds_list {K V}. Arguments ctx_bounds {K V}.

(* OCCc_Base.v — minimum occupancy with one exempt node ([iocc_b] of CInv.v): unfolding, change of the exempt
   node, replacement of a subtree by [upd]; the fold [exempt_node] over the thread table. *)
From Coq Require Import List Permutation Lia Bool PeanoNat.
From GB Require Import ListLemmas TreeLemmas Frame LockProof UpdLemmas FrameRel FrameInv CInv.
Import ListNotations.

Section OccBase.
Variables (K V : Type).
Notation itree := (itree K V).
Notation pc := (pc K V).
Notation st := (st K V).
Notation thread := (thread K V).

(* ------------------------------------------------------------------------------------------------ *)
(* unfolding                                                                                          *)
(* ------------------------------------------------------------------------------------------------ *)
Definition is_ex (e : option id) (x : id) : bool := match e with Some y => x =? y | None => false end.

Definition top_ok (order : nat) (e : option id) (b : bool) (t : itree) : bool :=
  is_ex e (nid t) ||
  (if b then match t with ILeaf _ _ _ => true | INode _ cs => root_min order <=? length cs end
   else Nat.div2 order <=? icount t).

Definition ioccl (order : nat) (e : option id) (cs : list (K * itree)) : bool :=
  forallb (fun c => iocc_b order e false (snd c)) cs.

Definition kids_occ (order : nat) (e : option id) (t : itree) : bool :=
  match t with ILeaf _ _ _ => true | INode _ cs => ioccl order e cs end.

Lemma iocc_eq order e b (t : itree) : iocc_b order e b t = top_ok order e b t && kids_occ order e t.
Proof.
  destruct t as [i nx es|i cs]; simpl; unfold top_ok; simpl.
  - destruct e; reflexivity.
  - assert (E : forall P : bool, (fix go (cs0 : list (K * itree)) : bool :=
             match cs0 with [] => true | (_, c) :: r => iocc_b order e false c && go r end) cs = ioccl order e cs).
    { intros _. induction cs as [|[k c] r IH]; simpl; [reflexivity|]. rewrite IH. reflexivity. }
    rewrite (E true). destruct e; reflexivity.
Qed.

Lemma iocc_node order e b i cs :
  iocc_b order e b (INode i cs) = top_ok order e b (INode (K:=K) (V:=V) i cs) && ioccl order e cs.
Proof. apply iocc_eq. Qed.

Lemma iocc_leaf order e b i nx (es : list (K * V)) :
  iocc_b order e b (ILeaf i nx es) = top_ok order e b (ILeaf i nx es).
Proof. rewrite iocc_eq. simpl. apply andb_true_r. Qed.

Lemma ioccl_app order e a b : ioccl order e (a ++ b) = ioccl order e a && ioccl order e b.
Proof. apply forallb_app. Qed.

Lemma ioccl_cons order e c r : ioccl order e (c :: r) = iocc_b order e false (snd c) && ioccl order e r.
Proof. reflexivity. Qed.

Lemma ioccl_firstn order e n cs : ioccl order e cs = true -> ioccl order e (firstn n cs) = true.
Proof.
  intros H. rewrite <- (firstn_skipn n cs), ioccl_app in H. apply andb_prop in H. tauto.
Qed.
Lemma ioccl_skipn order e n cs : ioccl order e cs = true -> ioccl order e (skipn n cs) = true.
Proof.
  intros H. rewrite <- (firstn_skipn n cs), ioccl_app in H. apply andb_prop in H. tauto.
Qed.
Lemma ioccl_rev order e cs : ioccl order e (rev cs) = ioccl order e cs.
Proof.
  induction cs as [|c r IH]; [reflexivity|]. simpl rev. rewrite ioccl_app, IH, !ioccl_cons. simpl.
  rewrite andb_true_r. apply andb_comm.
Qed.

(* ------------------------------------------------------------------------------------------------ *)
(* changing the exempt node                                                                           *)
(* ------------------------------------------------------------------------------------------------ *)
Lemma top_ok_none order e b (t : itree) : top_ok order None b t = true -> top_ok order e b t = true.
Proof. unfold top_ok. simpl. intros ->. apply orb_true_r. Qed.

Lemma iocc_none_any order e : forall (t : itree) b, iocc_b order None b t = true -> iocc_b order e b t = true.
Proof.
  induction t as [i nx es|i cs IH] using itree_ind2; intros b H; rewrite iocc_eq in *;
    apply andb_prop in H; destruct H as [H1 H2]; apply andb_true_intro; (split; [apply top_ok_none; exact H1|]).
  - reflexivity.
  - simpl in *. unfold ioccl in *. rewrite forallb_forall in *. rewrite Forall_forall in IH.
    intros c Hc. apply IH; auto.
Qed.

Lemma ioccl_none_any order e cs : ioccl order None cs = true -> ioccl order e cs = true.
Proof.
  unfold ioccl. rewrite !forallb_forall. intros H c Hc. apply iocc_none_any. auto.
Qed.

Lemma top_ok_clean order c b (t : itree) : top_ok order (Some c) b t = true -> nid t <> c -> top_ok order None b t = true.
Proof.
  unfold top_ok. simpl. intros H Hn. apply Nat.eqb_neq in Hn. rewrite Hn in H. exact H.
Qed.

Lemma iocc_clean order c : forall (t : itree) b,
  iocc_b order (Some c) b t = true -> ~ In c (ids t) -> iocc_b order None b t = true.
Proof.
  induction t as [i nx es|i cs IH] using itree_ind2; intros b H Hn; rewrite iocc_eq in *;
    apply andb_prop in H; destruct H as [H1 H2]; apply andb_true_intro; split.
  - eapply top_ok_clean; eauto. simpl in *. intuition.
  - reflexivity.
  - eapply top_ok_clean; eauto. simpl in *. intuition.
  - simpl in *. unfold ioccl in *. rewrite forallb_forall in *. rewrite Forall_forall in IH.
    intros x Hx. apply IH; auto. intro Hc. apply Hn. right. apply in_flat_map. exists x. auto.
Qed.

Lemma ioccl_clean order c cs : ioccl order (Some c) cs = true -> ~ In c (idsl cs) -> ioccl order None cs = true.
Proof.
  unfold ioccl. rewrite !forallb_forall. intros H Hn x Hx. apply iocc_clean with (c := c); auto.
  intro Hc. apply Hn. apply in_flat_map. exists x. auto.
Qed.

(* the exempt node is elsewhere: any other exemption does *)
Lemma iocc_change order e e' (t : itree) b :
  iocc_b order e b t = true -> (e' = e \/ forall c, e = Some c -> ~ In c (ids t)) -> iocc_b order e' b t = true.
Proof.
  intros H [->|Hn]; [exact H|]. apply iocc_none_any. destruct e as [c|]; [|exact H].
  eapply iocc_clean; eauto.
Qed.

Lemma ioccl_change order e e' cs :
  ioccl order e cs = true -> (e' = e \/ forall c, e = Some c -> ~ In c (idsl cs)) -> ioccl order e' cs = true.
Proof.
  intros H [->|Hn]; [exact H|]. apply ioccl_none_any. destruct e as [c|]; [|exact H].
  eapply ioccl_clean; eauto.
Qed.

(* the exempt node itself: its children satisfy occupancy without exemption *)
Lemma kids_clean order (t : itree) b :
  NoDup (ids t) -> iocc_b order (Some (nid t)) b t = true -> kids_occ order None t = true.
Proof.
  intros Hnd H. rewrite iocc_eq in H. apply andb_prop in H. destruct H as [_ H].
  destruct t as [i nx es|i cs]; [reflexivity|]. simpl in *.
  eapply ioccl_clean; eauto. inversion Hnd; auto.
Qed.

Lemma iocc_kids order e b (t : itree) : iocc_b order e b t = true -> kids_occ order e t = true.
Proof. rewrite iocc_eq. intros H. apply andb_prop in H. tauto. Qed.

Lemma root_min_le order : 4 <= order -> root_min order <= Nat.div2 order.
Proof.
  intros H. unfold root_min. destruct (4 <=? order) eqn:E; [|apply Nat.leb_gt in E; lia].
  destruct order as [|[|[|[|n]]]]; try lia. simpl. lia.
Qed.
Lemma root_min_le2 order : root_min order <= 2.
Proof. unfold root_min. destruct (4 <=? order); lia. Qed.

(* a node that is fine below the root is fine as the root *)
Lemma iocc_as_root order e (t : itree) : 4 <= order -> iocc_b order e false t = true -> iocc_b order e true t = true.
Proof.
  intros Ho. rewrite !iocc_eq. intros H. apply andb_prop in H. destruct H as [H1 H2]. rewrite H2, andb_true_r.
  unfold top_ok in *. apply orb_prop in H1. destruct H1 as [->|H1]; [reflexivity|]. apply orb_true_iff. right.
  destruct t as [i nx es|i cs]; [reflexivity|]. simpl in H1. apply Nat.leb_le in H1. apply Nat.leb_le.
  pose proof (root_min_le order Ho). lia.
Qed.

(* leaves: only the length matters *)
Lemma iocc_leaf_grow order e b i nx nx' (es es' : list (K * V)) :
  length es <= length es' -> iocc_b order e b (ILeaf i nx es) = true -> iocc_b order e b (ILeaf i nx' es') = true.
Proof.
  intros Hl. rewrite !iocc_leaf. unfold top_ok. simpl. intros H. apply orb_prop in H. destruct H as [->|H]; [reflexivity|].
  apply orb_true_iff. right. destruct b; [reflexivity|]. apply Nat.leb_le in H. apply Nat.leb_le. lia.
Qed.

(* internal nodes: more children of the right kind *)
Lemma iocc_node_grow order e b i (cs cs' : list (K * itree)) :
  length cs <= length cs' -> ioccl order e cs' = true ->
  iocc_b order e b (INode i cs) = true -> iocc_b order e b (INode i cs') = true.
Proof.
  intros Hl Hk. rewrite !iocc_node, Hk, andb_true_r. intros H. apply andb_prop in H. destruct H as [H _].
  unfold top_ok in *. simpl in *. apply orb_prop in H. destruct H as [->|H]; [reflexivity|].
  apply orb_true_iff. right. destruct b; apply Nat.leb_le in H; apply Nat.leb_le; lia.
Qed.

(* ------------------------------------------------------------------------------------------------ *)
(* identities of children                                                                             *)
(* ------------------------------------------------------------------------------------------------ *)
Lemma nodup_kid pi (A B : list (K * itree)) x :
  NoDup (ids (INode pi (A ++ x :: B))) ->
  NoDup (ids (snd x)) /\
  forall y, In y (ids (snd x)) -> y <> pi /\ ~ In y (idsl A) /\ ~ In y (idsl B).
Proof.
  rewrite ids_node, idsl_app, idsl_cons. intros H. split.
  - inversion H as [|? ? _ H']. apply NoDup_app_remove_l in H'. apply NoDup_app_remove_r in H'. exact H'.
  - intros y Hy. revert H. rewrite cnt_nodup. intros H. specialize (H y). simpl in H. rewrite !cnt_app in H.
    apply cnt_in in Hy. split; [|split].
    + intros ->. rewrite Nat.eqb_refl in H. lia.
    + rewrite cnt_in. lia.
    + rewrite cnt_in. lia.
Qed.

Lemma kid_in_idsl (cs : list (K * itree)) x y : In x cs -> In y (ids (snd x)) -> In y (idsl cs).
Proof. intros H1 H2. apply in_flat_map. exists x. auto. Qed.

Lemma nid_kid_notin (t : itree) : NoDup (ids t) -> match t with ILeaf _ _ _ => True | INode i cs => ~ In i (idsl cs) end.
Proof. destruct t as [|i cs]; [auto|]. rewrite ids_node. intros H. inversion H; auto. Qed.

(* ------------------------------------------------------------------------------------------------ *)
(* find after upd                                                                                     *)
(* ------------------------------------------------------------------------------------------------ *)
Lemma find_upd_same x (n n' : itree) : nid n' = nid n -> forall t t' : itree,
  NoDup (ids t) -> find x t = Some n -> upd x (fun _ => Ok n') t = Ok t' -> find x t' = Some n'.
Proof.
  intros Hnn. induction t as [i nx es|i cs IH] using itree_ind2; intros t' Hnd Hf Hu;
    pose proof (find_nid _ _ _ _ _ Hf) as Hx; rewrite find_eq in Hf; rewrite upd_eq in Hu; simpl nid in *.
  - destruct (i =? x) eqn:E; [|discriminate]. inversion Hf; inversion Hu; subst.
    rewrite find_eq, Hnn. simpl. rewrite Nat.eqb_refl. reflexivity.
  - destruct (i =? x) eqn:E.
    + inversion Hf; inversion Hu; subst. rewrite find_eq, Hnn. simpl. rewrite Nat.eqb_refl. reflexivity.
    + clear Hx. destruct (updl x (fun _ => Ok n') cs) as [cs'|] eqn:Eu; [simpl in Hu|discriminate]. inversion Hu; subst t'.
      rewrite find_eq. simpl nid. rewrite E.
      rewrite ids_node in Hnd. apply NoDup_cons_iff in Hnd. destruct Hnd as [_ Hnd']. clear Hu E.
      revert cs' Eu. induction cs as [|[s c] r IHr]; intros cs' Eu; [discriminate|].
      inversion IH as [|? ? H1 H2]; subst. rewrite findl_cons in Hf. rewrite updl_cons in Eu. simpl in H1.
      rewrite idsl_cons in Hnd'. simpl in Hnd'.
      destruct (find x c) as [y|] eqn:Ec.
      * inversion Hf; subst y.
        destruct (upd x (fun _ => Ok n') c) as [c'|] eqn:Euc; [simpl in Eu|discriminate].
        destruct (updl x (fun _ => Ok n') r) as [r'|]; [simpl in Eu|discriminate]. inversion Eu; subst cs'.
        rewrite findl_cons. rewrite (H1 c' (NoDup_app_remove_r _ _ Hnd') eq_refl eq_refl). reflexivity.
      * assert (Hxc : ~ In x (ids c)) by (rewrite find_some_iff; intro X; apply X; exact Ec).
        rewrite upd_notin in Eu by exact Hxc. simpl in Eu.
        destruct (updl x (fun _ => Ok n') r) as [r'|] eqn:Eur; [simpl in Eu|discriminate]. inversion Eu; subst cs'.
        rewrite findl_cons, Ec. apply IHr; auto. eapply NoDup_app_remove_l; eauto.
Qed.

(* ------------------------------------------------------------------------------------------------ *)
(* occupancy through upd                                                                              *)
(* ------------------------------------------------------------------------------------------------ *)
Lemma updl_length x (f : itree -> res itree) : forall cs cs', updl x f cs = Ok cs' -> length cs' = length cs.
Proof.
  induction cs as [|[s c] r IH]; intros cs' H; [inversion H; reflexivity|].
  rewrite updl_cons in H. destruct (upd x f c); [simpl in H|discriminate].
  destruct (updl x f r) eqn:E; [simpl in H|discriminate]. inversion H; subst. simpl. f_equal. apply IH. reflexivity.
Qed.

Lemma iocc_upd_false order e e' x (n n' : itree) :
  nid n' = nid n ->
  (iocc_b order e false n = true -> iocc_b order e' false n' = true) ->
  (e' = e \/ forall c, e = Some c -> In c (ids n)) ->
  forall t t' : itree, NoDup (ids t) -> find x t = Some n -> upd x (fun _ => Ok n') t = Ok t' ->
  iocc_b order e false t = true -> iocc_b order e' false t' = true.
Proof.
  intros Hnn Hloc Hex. induction t as [i nx es|i cs IH] using itree_ind2; intros t' Hnd Hf Hu Ho;
    rewrite find_eq in Hf; rewrite upd_eq in Hu; simpl nid in *.
  - destruct (i =? x) eqn:E; [|discriminate]. inversion Hf; inversion Hu; subst. auto.
  - destruct (i =? x) eqn:E; [inversion Hf; inversion Hu; subst; auto|].
    destruct (updl x (fun _ => Ok n') cs) as [cs'|] eqn:Eu; [simpl in Hu|discriminate]. inversion Hu; subst t'. clear Hu.
    rewrite iocc_node in *. apply andb_prop in Ho. destruct Ho as [Ht Hk].
    pose proof (updl_length _ _ _ _ Eu) as Hlen.
    rewrite ids_node in Hnd. apply NoDup_cons_iff in Hnd. destruct Hnd as [Hni Hnd'].
    apply andb_true_intro. split.
    + unfold top_ok in *. simpl in *. rewrite Hlen. apply orb_prop in Ht. destruct Ht as [Ht|Ht]; [|rewrite Ht; apply orb_true_r].
      destruct Hex as [->|Hex]; [rewrite Ht; reflexivity|]. exfalso.
      destruct e as [c|]; [|discriminate]. simpl in Ht. apply Nat.eqb_eq in Ht. subst c.
      apply Hni. eapply findl_sub_ids; eauto.
    + clear Ht Hni Hlen E. revert cs' Eu. induction cs as [|[s c] r IHr]; intros cs' Eu; [discriminate|].
      inversion IH as [|? ? H1 H2]; subst. rewrite findl_cons in Hf. rewrite updl_cons in Eu. simpl in H1.
      rewrite idsl_cons in Hnd'. simpl in Hnd'. rewrite ioccl_cons in Hk. simpl in Hk.
      apply andb_prop in Hk. destruct Hk as [Hk1 Hk2].
      destruct (find x c) as [y|] eqn:Ec.
      * inversion Hf; subst y.
        assert (Hxr : ~ In x (idsl r)).
        { intro Hin. apply find_in_ids in Ec. eapply NoDup_app_disj; eauto. }
        destruct (upd x (fun _ => Ok n') c) as [c'|] eqn:Euc; [simpl in Eu|discriminate].
        rewrite updl_notin in Eu by exact Hxr. simpl in Eu. inversion Eu; subst cs'.
        rewrite ioccl_cons. simpl. apply andb_true_intro. split.
        -- apply H1; auto. eapply NoDup_app_remove_r; eauto.
        -- eapply ioccl_change; eauto. destruct Hex as [->|Hex]; [left; reflexivity|right].
           intros c0 Hc0 Hin. eapply NoDup_app_disj; [exact Hnd' | | exact Hin].
           eapply find_sub_ids; eauto.
      * assert (Hxc : ~ In x (ids c)) by (rewrite find_some_iff; intro X; apply X; exact Ec).
        rewrite upd_notin in Eu by exact Hxc. simpl in Eu.
        destruct (updl x (fun _ => Ok n') r) as [r'|] eqn:Eur; [simpl in Eu|discriminate]. inversion Eu; subst cs'.
        rewrite ioccl_cons. simpl. apply andb_true_intro. split.
        -- eapply iocc_change; eauto. destruct Hex as [->|Hex]; [left; reflexivity|right].
           intros c0 Hc0 Hin. eapply NoDup_app_disj; [exact Hnd' | exact Hin |].
           eapply findl_sub_ids; eauto.
        -- apply IHr; auto. eapply NoDup_app_remove_l; eauto.
Qed.

Lemma iocc_upd_root order e e' x (n n' : itree) (t t' : itree) :
  nid n' = nid n -> NoDup (ids t) -> find x t = Some n -> upd x (fun _ => Ok n') t = Ok t' ->
  (e' = e \/ forall c, e = Some c -> In c (ids n)) ->
  (x = nid t -> iocc_b order e true n = true -> iocc_b order e' true n' = true) ->
  (x <> nid t -> iocc_b order e false n = true -> iocc_b order e' false n' = true) ->
  iocc_b order e true t = true -> iocc_b order e' true t' = true.
Proof.
  intros Hnn Hnd Hf Hu Hex Hr Hnr Ho.
  destruct (Nat.eq_dec x (nid t)) as [Hx|Hx].
  - rewrite find_eq in Hf. rewrite upd_eq in Hu. rewrite <- Hx, Nat.eqb_refl in *. inversion Hf; inversion Hu; subst. auto.
  - specialize (Hnr Hx). pose proof Hf as Hf0. pose proof Hu as Hu0.
    rewrite find_eq in Hf. rewrite upd_eq in Hu.
    assert (E : nid t =? x = false) by (apply Nat.eqb_neq; auto). rewrite E in *.
    destruct t as [i nx es|i cs]; [discriminate|].
    destruct (updl x (fun _ => Ok n') cs) as [cs'|] eqn:Eu; [simpl in Hu|discriminate]. inversion Hu; subst t'.
    (* reuse the non-root lemma on the node, then fix the top *)
    assert (Hfalse : ioccl order e' cs' = true).
    { rewrite iocc_node in Ho. apply andb_prop in Ho. destruct Ho as [_ Hk].
      (* view the children through a fake non-root parent that passes its own test *)
      assert (H0 : iocc_b order e false (INode i cs) = true -> iocc_b order e' false (INode i cs') = true).
      { intros H. eapply iocc_upd_false with (t := INode i cs); eauto. }
      clear H0.
      rewrite ids_node in Hnd. apply NoDup_cons_iff in Hnd. destruct Hnd as [Hni Hnd']. clear Hu Hu0 Hf0 E.
      revert cs' Eu. induction cs as [|[s c] r IHr]; intros cs' Eu; [discriminate|].
      rewrite findl_cons in Hf. rewrite updl_cons in Eu.
      rewrite idsl_cons in Hnd'. simpl in Hnd'. rewrite ioccl_cons in Hk. simpl in Hk.
      apply andb_prop in Hk. destruct Hk as [Hk1 Hk2].
      destruct (find x c) as [y|] eqn:Ec.
      * inversion Hf; subst y.
        assert (Hxr : ~ In x (idsl r)).
        { intro Hin. apply find_in_ids in Ec. eapply NoDup_app_disj; eauto. }
        destruct (upd x (fun _ => Ok n') c) as [c'|] eqn:Euc; [simpl in Eu|discriminate].
        rewrite updl_notin in Eu by exact Hxr. simpl in Eu. inversion Eu; subst cs'.
        rewrite ioccl_cons. simpl. apply andb_true_intro. split.
        -- eapply iocc_upd_false with (t := c); eauto. eapply NoDup_app_remove_r; eauto.
        -- eapply ioccl_change; eauto. destruct Hex as [->|Hex]; [left; reflexivity|right].
           intros c0 Hc0 Hin. eapply NoDup_app_disj; [exact Hnd' | | exact Hin].
           eapply find_sub_ids; eauto.
      * assert (Hxc : ~ In x (ids c)) by (rewrite find_some_iff; intro X; apply X; exact Ec).
        rewrite upd_notin in Eu by exact Hxc. simpl in Eu.
        destruct (updl x (fun _ => Ok n') r) as [r'|] eqn:Eur; [simpl in Eu|discriminate]. inversion Eu; subst cs'.
        rewrite ioccl_cons. simpl. apply andb_true_intro. split.
        -- eapply iocc_change; eauto. destruct Hex as [->|Hex]; [left; reflexivity|right].
           intros c0 Hc0 Hin. eapply NoDup_app_disj; [exact Hnd' | exact Hin |].
           eapply findl_sub_ids; eauto.
        -- apply IHr; auto.
           ++ intros Hin. apply Hni. rewrite idsl_cons, in_app_iff. right. exact Hin.
           ++ eapply NoDup_app_remove_l; eauto. }
    rewrite iocc_node in *. rewrite Hfalse, andb_true_r. apply andb_prop in Ho. destruct Ho as [Ht _].
    pose proof (updl_length _ _ _ _ Eu) as Hlen.
    unfold top_ok in *. simpl in Ht |- *. rewrite Hlen. apply orb_prop in Ht. destruct Ht as [Ht|Ht]; [|rewrite Ht; apply orb_true_r].
    destruct Hex as [->|Hex]; [rewrite Ht; reflexivity|]. exfalso.
    destruct e as [c|]; [|discriminate]. simpl in Ht. apply Nat.eqb_eq in Ht. subst c.
    rewrite ids_node in Hnd. inversion Hnd as [|? ? Hni _]. apply Hni. eapply findl_sub_ids; eauto.
Qed.

(* ------------------------------------------------------------------------------------------------ *)
(* the exempt node of a state                                                                         *)
(* ------------------------------------------------------------------------------------------------ *)
Definition exl (l : list (tid * thread)) : option id :=
  fold_right (fun e acc => match exempt_of (tpc (snd e)) with Some x => Some x | None => acc end) None l.

Lemma exempt_node_exl (s : st) : exempt_node s = exl (ths s).
Proof. reflexivity. Qed.

Lemma get_thread_cons u (thu : thread) l me :
  get_thread me ((u, thu) :: l) = if u =? me then Some thu else get_thread me l.
Proof. unfold get_thread. simpl. destruct (u =? me); reflexivity. Qed.

Lemma get_thread_in me (th : thread) l : get_thread me l = Some th -> In (me, th) l.
Proof.
  induction l as [|[u thu] l IH]; [discriminate|]. rewrite get_thread_cons.
  destruct (u =? me) eqn:E; intros H.
  - apply Nat.eqb_eq in E. inversion H; subst. left. reflexivity.
  - right. auto.
Qed.

Lemma in_get_thread me (th : thread) l : NoDup (map fst l) -> In (me, th) l -> get_thread me l = Some th.
Proof.
  induction l as [|[u thu] l IH]; intros Hnd Hin; [destruct Hin|]. rewrite get_thread_cons.
  simpl in Hnd. inversion Hnd as [|? ? Hni Hnd']; subst.
  destruct Hin as [E|Hin].
  - inversion E; subst. rewrite Nat.eqb_refl. reflexivity.
  - destruct (u =? me) eqn:E; [|auto]. apply Nat.eqb_eq in E. subst u. exfalso. apply Hni.
    apply in_map_iff. exists (me, th). auto.
Qed.

Lemma exl_none l : (forall u th, In (u, th) l -> exempt_of (tpc th) = None) -> exl l = None.
Proof.
  induction l as [|[u thu] l IH]; intros H; [reflexivity|]. simpl.
  rewrite (H u thu) by (left; reflexivity). apply IH. intros; eapply H; right; eauto.
Qed.

(* one thread may be exempting, all others are not *)
Lemma exl_unique me (th : thread) l :
  NoDup (map fst l) -> get_thread me l = Some th ->
  (forall u thu, u <> me -> In (u, thu) l -> exempt_of (tpc thu) = None) ->
  exl l = exempt_of (tpc th).
Proof.
  induction l as [|[u thu] l IH]; intros Hnd Hg Ho; [discriminate|]. rewrite get_thread_cons in Hg. simpl.
  simpl in Hnd. inversion Hnd as [|? ? Hni Hnd']; subst.
  destruct (u =? me) eqn:E.
  - apply Nat.eqb_eq in E. inversion Hg; subst.
    destruct (exempt_of (tpc th)) eqn:Ex; [reflexivity|].
    apply exl_none. intros w thw Hin. apply (Ho w thw); [|right; exact Hin].
    intros ->. apply Hni. apply in_map_iff. exists (me, thw). auto.
  - apply Nat.eqb_neq in E. rewrite (Ho u thu E) by (left; reflexivity).
    apply IH; auto. intros w thw Hw Hin. apply (Ho w thw Hw). right. exact Hin.
Qed.

Lemma set_thread_notin me (th' : thread) l : ~ In me (map fst l) -> set_thread me th' l = l.
Proof.
  induction l as [|[u thu] l IH]; intros Hn; [reflexivity|]. simpl in *.
  destruct (u =? me) eqn:E; [apply Nat.eqb_eq in E; tauto|]. f_equal. apply IH. tauto.
Qed.

(* a step that neither leaves nor enters [DelWantRight] keeps the exempt node *)
Lemma exl_set_same me (th th' : thread) l :
  NoDup (map fst l) -> get_thread me l = Some th -> exempt_of (tpc th') = exempt_of (tpc th) ->
  exl (set_thread me th' l) = exl l.
Proof.
  induction l as [|[u thu] l IH]; intros Hnd Hg He; [reflexivity|]. rewrite get_thread_cons in Hg.
  simpl in Hnd. inversion Hnd as [|? ? Hni Hnd']; subst. simpl.
  destruct (u =? me) eqn:E.
  - apply Nat.eqb_eq in E. inversion Hg; subst. simpl. rewrite He.
    rewrite set_thread_notin by exact Hni. reflexivity.
  - simpl. fold (set_thread me th' l). rewrite IH; auto.
Qed.

Lemma exl_set_unique me (th th' : thread) l :
  NoDup (map fst l) -> get_thread me l = Some th ->
  (forall u thu, u <> me -> In (u, thu) l -> exempt_of (tpc thu) = None) ->
  exl (set_thread me th' l) = exempt_of (tpc th').
Proof.
  intros Hnd Hg Ho. apply exl_unique with (me := me).
  - rewrite map_fst_set_thread. exact Hnd.
  - eapply get_set_same; eauto.
  - intros u thu Hu Hin.
    assert (Hnd2 : NoDup (map fst (set_thread me th' l))) by (rewrite map_fst_set_thread; exact Hnd).
    apply in_get_thread in Hin; [|exact Hnd2]. rewrite get_set_other in Hin by exact Hu.
    apply get_thread_in in Hin. eapply Ho; eauto.
Qed.

Lemma exempt_holds_T (p : pc) x : exempt_of p = Some x -> pc_holds_T p = true.
Proof. destruct p; simpl; try discriminate. reflexivity. Qed.

(* the holder of the tree mutex is the only thread that can exempt a node *)
Lemma others_none (s : st) me th :
  lock_inv s -> get_thread me (ths s) = Some th -> pc_holds_T (tpc th) = true ->
  forall u thu, u <> me -> In (u, thu) (ths s) -> exempt_of (tpc thu) = None.
Proof.
  intros (_ & Hnd & _ & _ & Hth) Hg HT u thu Hu Hin.
  destruct (exempt_of (tpc thu)) as [x|] eqn:E; [|reflexivity]. exfalso.
  apply exempt_holds_T in E. apply in_get_thread in Hin; [|exact Hnd].
  destruct (Hth me th Hg) as (_ & _ & H1). destruct (Hth u thu Hin) as (_ & _ & H2).
  apply H1 in HT. apply H2 in E. congruence.
Qed.

Lemma exempt_node_holder (s : st) me th :
  lock_inv s -> get_thread me (ths s) = Some th -> pc_holds_T (tpc th) = true ->
  exempt_node s = exempt_of (tpc th).
Proof.
  intros Hli Hg HT. rewrite exempt_node_exl. pose proof Hli as (_ & Hnd & _).
  eapply exl_unique; eauto. eapply others_none; eauto.
Qed.

Lemma exempt_node_no_holder (s : st) :
  lock_inv s -> tm s = None -> exempt_node s = None.
Proof.
  intros (_ & Hnd & _ & _ & Hth) Htm. rewrite exempt_node_exl. apply exl_none. intros u thu Hin.
  destruct (exempt_of (tpc thu)) as [x|] eqn:E; [|reflexivity]. exfalso.
  apply exempt_holds_T in E. apply in_get_thread in Hin; [|exact Hnd].
  destruct (Hth u thu Hin) as (_ & _ & H2). apply H2 in E. congruence.
Qed.

End OccBase.

Arguments top_ok {K V}. Arguments ioccl {K V}. Arguments kids_occ {K V}. Arguments exl {K V}.

(* C4_Inv.v — the cursor invariant [cur_ok] (part A of C04) and its inductiveness: it holds initially and is
   preserved by every step of every thread from a state satisfying [BigInv] (which holds in every reachable state). *)
From Coq Require Import List Bool Lia PeanoNat Sorted Permutation.
From GB Require Import Model Spec Inv ListLemmas SearchProof TreeLemmas SearchScanProof Conc GI LockInv LockProof CInv CInv3
  CIDef EraseLemmas SoloBase SoloSearch GIa1_Ctx LINa_Lists LINa_Ctx LINa_Abs PCb1_Bounds PCb1_Proof PCb2_View
  LinDef LINa_Prog LINa_Exact LINa_Proof LINc_Proof UpdLemmas PCc_Low PCc_Own PCc_Proof ASM_Proof
  C4_Lists C4_Geom C4_Blocks.
Import ListNotations.

Section I.
Variables (K V : Type) (ltb : K -> K -> bool).
Hypothesis HS : SWO ltb.
Variable order : nat.
Hypothesis Heven : Nat.even order = true.
Hypothesis H4 : 4 <= order.
Notation itree := (itree K V).
Notation pc := (pc K V).
Notation cop := (cop K V).
Notation st := (st K V).
Notation out := (out K V).
Notation thread := (thread K V).
Notation trans := (trans K ltb HS).
Notation asym := (asym K ltb HS).
Notation BigInv := (BigInv K V ltb order).

(* ------------------------------------------------------------------------------------------------ *)
(* (A) the invariant                                                                                  *)
(* ------------------------------------------------------------------------------------------------ *)

(* the position [i] in a leaf with entries [es] of a cursor started at key [k] that has yielded [acc] (most recent
   first):
   - nothing yielded yet: the position is the first entry of this leaf whose key is not below k;
   - otherwise the last pair yielded is the entry just before the position;
   - the yielded pairs are strictly descending by key (i.e. were yielded in strictly ascending order), and none of
     their keys is below k. *)
Definition pos_ok (k : K) (es : list (K * V)) (i : nat) (acc : list (K * V)) : Prop :=
  match acc with
  | [] => Forall (fun e => ltb (fst e) k = true) (firstn i es) /\ Forall (fun e => ltb (fst e) k = false) (skipn i es)
  | e0 :: _ => 0 < i /\ nth_error es (i - 1) = Some e0
  end /\ kdesc ltb acc /\ Forall (fun e => ltb (fst e) k = false) acc.

(* a cursor of a thread with program [pr] holding [leaf] at position [i] ([None]: past the end) *)
Definition cur_at (t : itree) (pr : list cop) (leaf : id) (i : option nat) (acc : list (K * V)) : Prop :=
  exists k cnt nx es,
    hd_error pr = Some (CScan k cnt) /\ Conc.find leaf t = Some (ILeaf leaf nx es) /\
    pos_ok k es (match i with Some i => i | None => length es end) acc /\
    (acc = [] -> below_hi ltb k leaf t = true).

Definition cur_pc_ok (t : itree) (pr : list cop) (p : pc) : Prop :=
  match p with
  | CurRest leaf i _ acc => cur_at t pr leaf (Some i) acc
  | CurWantNext leaf _ _ acc => cur_at t pr leaf None acc
  | _ => True
  end.

Definition cur_ok (s : st) : Prop :=
  forall t th, get_thread t (ths s) = Some th -> cur_pc_ok (tr s) (prog th) (tpc th).

(* ------------------------------------------------------------------------------------------------ *)
(* what BigInv provides                                                                              *)
(* ------------------------------------------------------------------------------------------------ *)
Lemma BI_base s : BigInv s -> PCc_Proof.Base K V ltb order s.
Proof. intros H. exact (BigInv_Base K V ltb order s H). Qed.
Lemma BI_GI s : BigInv s -> GI ltb order s.
Proof. intros (HC & _). exact (proj1 (proj1 (proj1 HC))). Qed.
Lemma BI_lock s : BigInv s -> lock_inv s.
Proof. intros (HC & _). exact (proj1 (proj1 (proj2 (proj1 (proj1 HC))))). Qed.
Lemma BI_allpc s : BigInv s -> all_pc_ok_b ltb order s = true.
Proof. intros (HC & _). exact (proj2 (proj2 (proj1 (proj1 HC)))). Qed.
Lemma BI_pcok s t th : BigInv s -> get_thread t (ths s) = Some th -> pc_ok_b ltb order (tr s) (tpc th) = true.
Proof. intros HB Hg. eapply all_pc_ok_elim; [apply BI_allpc; exact HB|exact Hg]. Qed.
Lemma BI_pcok3 s t th : BigInv s -> get_thread t (ths s) = Some th -> pc_ok3_b ltb (tr s) (tpc th) = true.
Proof.
  intros (HC & _) Hg. destruct HC as (_ & _ & _ & _ & H3).
  exact (get_all K V _ _ _ _ H3 Hg).
Qed.
Lemma BI_prog s t th : BigInv s -> get_thread t (ths s) = Some th -> LINa_Prog.pc_prog (tpc th) (prog th).
Proof. intros (_ & _ & _ & _ & (HP & _) & _) Hg. eapply LINa_Prog.prog_ok_get; eauto. Qed.
Lemma BI_nodup s : BigInv s -> NoDup (ids (tr s)).
Proof. intros HB. exact (proj1 (BI_GI s HB)). Qed.
Lemma BI_ordered s : BigInv s -> ordered ltb (erase_ids (tr s)).
Proof. intros HB. destruct (BI_GI s HB) as (_ & _ & Ho & _). exact Ho. Qed.

Lemma BI_leaf_asc s x j nx (es : list (K * V)) :
  BigInv s -> Conc.find x (tr s) = Some (ILeaf j nx es) -> asc ltb (map fst es).
Proof. intros HB Hf. exact (find_ordered K V ltb x (tr s) _ (BI_ordered s HB) Hf). Qed.

(* the thread holds the nodes its pc says *)
Lemma BI_holds s t th x : BigInv s -> get_thread t (ths s) = Some th -> In x (pc_nodes (tpc th)) -> In (x, t) (lk s).
Proof.
  intros HB Hg Hx. destruct (BI_lock s HB) as (_ & _ & _ & _ & Hth). destruct (Hth t th Hg) as (_ & HP & _).
  apply In_held_by. eapply Permutation_in; [apply Permutation_sym; exact HP|exact Hx].
Qed.

(* ------------------------------------------------------------------------------------------------ *)
(* the position after each kind of cursor step                                                       *)
(* ------------------------------------------------------------------------------------------------ *)
Lemma notbelow_up k a b : ltb a k = false -> ltb a b = true -> ltb b k = false.
Proof. intros H1 H2. destruct (ltb b k) eqn:E; [|reflexivity]. rewrite (trans _ _ _ H2 E) in H1. discriminate. Qed.

Lemma pos_ok_pair k es i acc e :
  asc ltb (map fst es) -> pos_ok k es i acc -> nth_error es i = Some e -> pos_ok k es (S i) (e :: acc).
Proof.
  intros Ha (Hp & Hd & Hk) Hn. unfold pos_ok. replace (S i - 1) with i by lia.
  split; [split; [lia|exact Hn]|]. destruct acc as [|e0 acc].
  - split; [apply kdesc_one|]. constructor; [|constructor]. destruct Hp as [_ Hp]. rewrite Forall_forall in Hp. apply Hp.
    apply (nth_error_In _ 0). rewrite nth_error_skipn, Nat.add_0_r. exact Hn.
  - destruct Hp as [Hi H0].
    assert (Hlt : ltb (fst e0) (fst e) = true) by (apply (asc_nth_lt K V ltb HS es (i - 1) i); auto; lia).
    split; [apply kdesc_cons; assumption|]. constructor; [|exact Hk].
    inversion Hk; subst. eapply notbelow_up; eauto.
Qed.

Lemma pos_ok_end k es i acc : pos_ok k es i acc -> nth_error es i = None -> pos_ok k es (length es) acc.
Proof.
  intros (Hp & Hd & Hk) Hn. split; [|split; assumption]. destruct acc as [|e0 acc].
  - destruct Hp as [Hp _]. rewrite (firstn_past _ _ Hn) in Hp. rewrite firstn_all, skipn_all. split; [exact Hp|constructor].
  - destruct Hp as [Hi H0]. destruct (split_last es i e0 Hi H0 Hn) as [_ <-]. split; assumption.
Qed.

Lemma pos_ok_land k es i :
  asc ltb (map fst es) -> leaf_scan_pos ltb k es = Ok i -> pos_ok k es i [].
Proof.
  intros Ha Hp. split; [apply (scan_pos_split K V ltb HS); assumption|]. split; [apply kdesc_nil|constructor].
Qed.

(* the hop: the first entry of the next leaf is above everything yielded and not below k *)
Lemma hop_facts (s : st) k L N esL nxN e es' acc :
  BigInv s ->
  Conc.find L (tr s) = Some (ILeaf L (Some N) esL) -> Conc.find N (tr s) = Some (ILeaf N nxN (e :: es')) ->
  pos_ok k esL (length esL) acc -> (acc = [] -> below_hi ltb k L (tr s) = true) ->
  pos_ok k (e :: es') 1 (e :: acc).
Proof.
  intros HB HfL HfN (Hp & Hd & Hk) Hhi.
  destruct (leaf_at_intro K V ltb order s L L (Some N) esL (BI_GI s HB) HfL) as (_ & C & Hl).
  destruct (ctx_next_ents K V ltb order C L N esL (tr s) (fresh s) N nxN (e :: es') Hl (BI_nodup s HB) HfN) as [Q EQ].
  assert (HinR : In e (Rents C)) by (rewrite EQ; simpl; auto).
  split; [split; [lia|reflexivity]|]. destruct acc as [|e0 acc].
  - split; [apply kdesc_one|]. constructor; [|constructor].
    pose proof (ctx_right_of K V ltb HS order C L (Some N) esL (tr s) (fresh s) k Hl (Hhi eq_refl)) as HR.
    rewrite Forall_forall in HR. apply asym. apply HR. exact HinR.
  - destruct Hp as [Hlen H0].
    assert (Hlt : ltb (fst e0) (fst e) = true).
    { apply (ctx_right_above K V ltb HS order C L (Some N) esL (tr s) (fresh s) e0 e Hl); [|exact HinR].
      eapply nth_error_In; exact H0. }
    split; [apply kdesc_cons; assumption|]. constructor; [|exact Hk]. inversion Hk; subst. eapply notbelow_up; eauto.
Qed.

(* ------------------------------------------------------------------------------------------------ *)
(* initially                                                                                          *)
(* ------------------------------------------------------------------------------------------------ *)
Theorem cur_ok_init progs : cur_ok (init_st (K:=K) (V:=V) progs).
Proof.
  intros t th Hg. apply PCb1_Proof.get_thread_in in Hg. unfold init_st in Hg. simpl in Hg.
  apply in_map_iff in Hg. destruct Hg as (p & E & _). inversion E; subst. exact I.
Qed.

(* ------------------------------------------------------------------------------------------------ *)
(* a thread that does not move                                                                       *)
(* ------------------------------------------------------------------------------------------------ *)
Lemma cur_at_frame (t t' : itree) pr leaf i acc :
  Frame.node_view leaf t' = Frame.node_view leaf t ->
  (forall k, below_hi ltb k leaf t = true -> below_hi ltb k leaf t' = true) ->
  cur_at t pr leaf i acc -> cur_at t' pr leaf i acc.
Proof.
  intros Hv Hb (k & cnt & nx & es & Hpr & Hf & Hp & Hhi).
  destruct (LINa_Exact.view_leaf K V leaf t t' leaf nx es Hf Hv) as [i' Hf'].
  pose proof (find_nid' K V _ _ _ Hf') as Hn. simpl in Hn. subst i'.
  exists k, cnt, nx, es. split; [exact Hpr|]. split; [exact Hf'|]. split; [exact Hp|]. intros X. apply Hb. apply Hhi. exact X.
Qed.

Lemma cur_other_step (s s' : st) me acq ev t th :
  BigInv s -> cstep ltb order s me = Stepped s' acq ev -> t <> me ->
  get_thread t (ths s) = Some th -> cur_pc_ok (tr s) (prog th) (tpc th) -> cur_pc_ok (tr s') (prog th) (tpc th).
Proof.
  intros HB Hc Hne Hg Hok. pose proof (BI_base s HB) as Hb.
  assert (Hfr : forall leaf i acc, In leaf (pc_nodes (tpc th)) -> cur_at (tr s) (prog th) leaf i acc ->
            cur_at (tr s') (prog th) leaf i acc).
  { intros leaf i acc Hin Hat.
    assert (Hid : In leaf (ids (tr s))).
    { destruct Hat as (k & cnt & nx & es & _ & Hf & _). eapply UpdLemmas.find_in_ids; eauto. }
    apply (cur_at_frame (tr s) (tr s')); [| |exact Hat].
    - apply (o_view K V ltb order s s' me acq ev t th Heven Hb Hc Hne Hg leaf Hin Hid).
    - intros k Hk. apply (below_hi_bm K V ltb _ k leaf (tr s) (tr s')
                            (o_bm K V ltb HS order s s' me acq ev t Heven H4 Hb Hc Hne)); [|exact Hk].
      apply (o_notin_wset K V ltb order s s' me acq ev t th H4 Hb Hc Hne Hg leaf Hin Hid). }
  destruct (tpc th); try exact I; simpl in *; apply Hfr; auto.
Qed.

(* ------------------------------------------------------------------------------------------------ *)
(* the stepping thread                                                                               *)
(* ------------------------------------------------------------------------------------------------ *)
Lemma plain_pc_ok (t : itree) pr (r : out) : plain r -> cur_pc_ok t pr (opc r).
Proof. intros [Hp _]. destruct (opc r); try exact I; discriminate Hp. Qed.

Lemma cur_own_step (s : st) me th tg (r : out) :
  BigInv s -> cur_ok s -> get_thread me (ths s) = Some th ->
  SoloBase.blk ltb order s me th tg = Ok (Some r) ->
  cur_pc_ok (otr r) (if returned (oev r) then tl (prog th) else prog th) (opc r).
Proof.
  intros HB HC Hg Hblk. pose proof (HC me th Hg) as Hme. pose proof (BI_prog s me th HB Hg) as Hpp.
  destruct (blk_class K V ltb order s me th tg r Hblk)
    as [Hpl
       |o n k cnt j nx es i Hpc Ho Hf Hi Hopc Hotr Hoev
       |leaf i n' acc j nx es e Hpc Hf Hn Hopc Hotr Hoev
       |leaf i n' acc j x es Hpc Hf Hn Hopc Hotr Hoev
       |leaf i n' acc j es Hpc Hf Hn Hopc Hotr Hoev
       |leaf nxt n acc j nx e es' Hpc Hf Hopc Hotr Hoev].
  - apply plain_pc_ok. exact Hpl.
  - (* NewScanner lands *)
    rewrite Hopc, Hotr, Hoev. cbn [returned existsb cur_pc_ok].
    pose proof (find_nid' K V _ _ _ Hf) as Hj. simpl in Hj. subst j.
    exists k, cnt, nx, es. split; [|split; [exact Hf|split]].
    + destruct Hpc as [Hpc|[p Hpc]]; rewrite Hpc in Hpp; simpl in Hpp; subst o; [exact Hpp|exact (proj1 Hpp)].
    + apply pos_ok_land; [|exact Hi]. eapply BI_leaf_asc; eauto.
    + intros _. destruct Hpc as [Hpc|[p Hpc]].
      * pose proof (BI_pcok s me th HB Hg) as Hok. rewrite Hpc in Hok. simpl in Hok. apply Nat.eqb_eq in Hok. subst n.
        apply below_hi_root.
      * pose proof (BI_pcok3 s me th HB Hg) as Hok3. rewrite Hpc in Hok3.
        replace k with (key_of o) by (subst o; reflexivity).
        apply (pc_ok3_sea K V ltb HS (tr s) o p n (BI_nodup s HB) (BI_ordered s HB) Hok3).
  - (* a pair from the held leaf *)
    rewrite Hopc, Hotr, Hoev. cbn [returned existsb orb cur_pc_ok].
    rewrite Hpc in Hme. destruct Hme as (k & cnt & nx0 & es0 & Hpr & Hf0 & Hp & Hhi).
    rewrite Hf0 in Hf. inversion Hf; subst j nx0 es0.
    exists k, cnt, nx, es. split; [exact Hpr|]. split; [exact Hf0|]. split; [|intros X; discriminate X].
    apply pos_ok_pair; auto. eapply BI_leaf_asc; eauto.
  - (* leaf exhausted, wait for the next one *)
    rewrite Hopc, Hotr, Hoev. cbn [returned existsb cur_pc_ok].
    rewrite Hpc in Hme. destruct Hme as (k & cnt & nx0 & es0 & Hpr & Hf0 & Hp & Hhi).
    rewrite Hf0 in Hf. inversion Hf; subst j nx0 es0.
    exists k, cnt, (Some x), es. split; [exact Hpr|]. split; [exact Hf0|]. split; [|exact Hhi].
    eapply pos_ok_end; eauto.
  - rewrite Hopc. exact I.
  - (* acquiring the next leaf *)
    rewrite Hopc, Hotr, Hoev. cbn [returned existsb orb cur_pc_ok].
    rewrite Hpc in Hme. destruct Hme as (k & cnt & nx0 & esL & Hpr & HfL & Hp & Hhi).
    pose proof (BI_pcok s me th HB Hg) as Hok. rewrite Hpc in Hok. simpl in Hok. rewrite HfL in Hok.
    destruct nx0 as [x|]; [|discriminate Hok]. apply Nat.eqb_eq in Hok. subst x.
    pose proof (find_nid' K V _ _ _ Hf) as Hj. simpl in Hj. subst j.
    exists k, cnt, nx, (e :: es'). split; [exact Hpr|]. split; [exact Hf|]. split; [|intros X; discriminate X].
    eapply hop_facts; eauto.
Qed.

(* ------------------------------------------------------------------------------------------------ *)
(* (A) inductiveness                                                                                  *)
(* ------------------------------------------------------------------------------------------------ *)
Theorem cur_ok_step (s s' : st) me acq ev :
  BigInv s -> cur_ok s -> cstep ltb order s me = Stepped s' acq ev -> cur_ok s'.
Proof.
  intros HB HC Hc.
  destruct (step_threads K V ltb order s s' me acq ev Hc) as (th & o & Hg & Htg & Hfree & Hblk & Es' & Hoth).
  intros t th' Hg'. destruct (Nat.eq_dec t me) as [->|Hne].
  - destruct (commit_me K V s me th o Hg) as (th2 & Hg2 & Hpc2 & Hpr2).
    rewrite Es' in Hg'. rewrite Hg2 in Hg'. inversion Hg'; subst th'. rewrite Hpc2, Hpr2, Es'.
    unfold commit. cbn [tr]. eapply cur_own_step; eauto.
  - rewrite (Hoth t Hne) in Hg'. eapply cur_other_step; eauto.
Qed.

End I.

Arguments pos_ok {K V} ltb k es i acc.
Arguments cur_at {K V} ltb t pr leaf i acc.
Arguments cur_pc_ok {K V} ltb t pr p.
Arguments cur_ok {K V} ltb s.

(* PCb2_RightFree.v — the inductive strengthening of [right_free_b]: what else must be recorded about a thread that
   awaits a fresh right half so that "nobody else holds or awaits it" is preserved by every step.  Executable
   definition [rfi_b] (validated in PCb2_Test.v). *)
From Coq Require Import List Permutation Lia Bool PeanoNat.
From GB Require Import ListLemmas TreeLemmas Inv Frame LockProof ConcProps CInv CIDef UpdLemmas FrameRel FrameInv FrameBlocks FrameProof
  PCb2_Bounds PCb2_View PCb2_Blocks PCb2_Step PCb2_Proof PCb2_Tree.
Import ListNotations.

Section RF.
Variables (K V : Type) (ltb : K -> K -> bool).
Notation itree := (itree K V).
Notation pc := (pc K V).
Notation st := (st K V).
Notation thread := (thread K V).
Notation wants := (wants K V).

Definition opt_id_eqb (a : option id) (b : id) : bool := match a with Some x => x =? b | None => false end.

(* nobody holds r, and no thread other than t awaits r *)
Definition free_b (s : st) (t : tid) (r : id) : bool :=
  (match holder r (lk s) with None => true | Some _ => false end) &&
  forallb (fun e' => (fst e' =? t) || negb (wants s (tpc (snd e')) r)) (ths s).

(* if r is a leaf, then c is the leaf whose next link is r *)
Definition link_b (t : itree) (c r : id) : bool :=
  match find r t with
  | Some (ILeaf _ _ _) => match find c t with Some (ILeaf _ nx _) => opt_id_eqb nx r | _ => false end
  | _ => true
  end.

(* the tree is the two-child root made by a root split, with halves l and r *)
Definition root_is_b (t : itree) (l r : id) : bool :=
  match t with
  | INode _ [(_, L); (_, R)] => (nid L =? l) && (nid R =? r)
  | _ => false
  end.

Definition rfi_pc_b (s : st) (t : tid) (p : pc) : bool :=
  match p with
  | InsWantSplitRight _ _ c r => free_b s t r && link_b (tr s) c r
  | InsWantRootRight _ l r =>
    free_b s t r && link_b (tr s) l r && root_is_b (tr s) l r &&
    (match holder (nid (tr s)) (lk s) with None => true | Some _ => false end) &&
    forallb (fun e' => negb (wants s (tpc (snd e')) (nid (tr s)))) (ths s)
  | _ => true
  end.

Definition rfi_b (s : st) : bool := forallb (fun e => rfi_pc_b s (fst e) (tpc (snd e))) (ths s).

Lemma rfi_right_free (s : st) : rfi_b s = true -> right_free_b K V s = true.
Proof.
  unfold rfi_b, right_free_b. rewrite !forallb_forall. intros H e He. specialize (H e He).
  destruct e as [u th]. cbn [fst snd] in *. revert H.
  destruct (tpc th); intros H; cbn [rfi_pc_b] in H; cbn [right_of]; try reflexivity.
  - apply andb_prop in H. destruct H as [H _]. apply andb_prop in H. destruct H as [H _].
    apply andb_prop in H. destruct H as [H _]. apply andb_prop in H. destruct H as [H _]. exact H.
  - apply andb_prop in H. destruct H as [H _]. exact H.
Qed.


(* ------------------------------------------------------------------------------------------------ *)
(* Prop forms                                                                                         *)
(* ------------------------------------------------------------------------------------------------ *)
Lemma in_get_thread (l : list (tid * thread)) u th : NoDup (map fst l) -> In (u, th) l -> get_thread u l = Some th.
Proof.
  unfold get_thread. induction l as [|[w thw] l IH]; simpl; intros Hnd Hin; [destruct Hin|].
  inversion Hnd as [|? ? Hni Hnd']; subst.
  destruct Hin as [E|Hin].
  - inversion E; subst. rewrite Nat.eqb_refl. reflexivity.
  - destruct (w =? u) eqn:E.
    + apply Nat.eqb_eq in E. subst w. exfalso. apply Hni. apply in_map_iff. exists (u, th). auto.
    + apply IH; auto.
Qed.

Definition free (s : st) (t : tid) (r : id) : Prop :=
  holder r (lk s) = None /\ forall u thu, get_thread u (ths s) = Some thu -> u <> t -> wants s (tpc thu) r = false.
Definition nobody_wants (s : st) (x : id) : Prop :=
  forall u thu, get_thread u (ths s) = Some thu -> wants s (tpc thu) x = false.
Definition link_ok (T : itree) (c r : id) : Prop :=
  forall i nx es, find r T = Some (ILeaf i nx es) -> exists j es', find c T = Some (ILeaf j (Some r) es').
Definition root_is (T : itree) (l r : id) : Prop :=
  exists i k1 L k2 R, T = INode i [(k1, L); (k2, R)] /\ nid L = l /\ nid R = r.

Definition rfi_pc (s : st) (t : tid) (p : pc) : Prop :=
  match p with
  | InsWantSplitRight _ _ c r => free s t r /\ link_ok (tr s) c r
  | InsWantRootRight _ l r =>
    free s t r /\ link_ok (tr s) l r /\ root_is (tr s) l r /\ holder (nid (tr s)) (lk s) = None /\ nobody_wants s (nid (tr s))
  | _ => True
  end.
Definition rfi (s : st) : Prop := forall t th, get_thread t (ths s) = Some th -> rfi_pc s t (tpc th).

Lemma holder_b (x : id) (l : list (id * tid)) : (match holder x l with None => true | Some _ => false end) = true <-> holder x l = None.
Proof. destruct (holder x l); split; intros H; congruence. Qed.

Lemma free_b_iff (s : st) t r : NoDup (map fst (ths s)) -> (free_b s t r = true <-> free s t r).
Proof.
  intros Hnd. unfold free_b, free. rewrite andb_true_iff, holder_b, forallb_forall. split; intros [H1 H2]; (split; [exact H1|]).
  - intros u thu Hg Hne. specialize (H2 (u, thu) (get_thread_in _ _ _ _ _ Hg)). simpl in H2.
    apply orb_prop in H2. destruct H2 as [H2|H2]; [apply Nat.eqb_eq in H2; congruence|].
    apply negb_true_iff in H2. exact H2.
  - intros [u thu] Hin. simpl. destruct (u =? t) eqn:E; [reflexivity|]. apply Nat.eqb_neq in E. simpl.
    apply negb_true_iff. eapply H2; eauto. apply in_get_thread; auto.
Qed.

Lemma nobody_b_iff (s : st) x : NoDup (map fst (ths s)) ->
  (forallb (fun e' => negb (wants s (tpc (snd e')) x)) (ths s) = true <-> nobody_wants s x).
Proof.
  intros Hnd. unfold nobody_wants. rewrite forallb_forall. split; intros H.
  - intros u thu Hg. specialize (H (u, thu) (get_thread_in _ _ _ _ _ Hg)). simpl in H. apply negb_true_iff in H. exact H.
  - intros [u thu] Hin. simpl. apply negb_true_iff. eapply H. apply in_get_thread; eauto.
Qed.

Lemma link_b_iff (T : itree) c r : link_b T c r = true <-> link_ok T c r.
Proof.
  unfold link_b, link_ok. split.
  - intros H i nx es Hf. rewrite Hf in H. destruct (find c T) as [[j nx' es'|?]|] eqn:Hc; try discriminate H.
    destruct nx' as [x|]; simpl in H; [|discriminate H]. apply Nat.eqb_eq in H. subst x. eauto.
  - intros H. destruct (find r T) as [[i nx es|?]|] eqn:Hf; try reflexivity.
    destruct (H i nx es eq_refl) as [j [es' Hc]]. rewrite Hc. simpl. apply Nat.eqb_refl.
Qed.

Lemma root_is_b_iff (T : itree) l r : root_is_b T l r = true <-> root_is T l r.
Proof.
  unfold root_is_b, root_is. split.
  - intros H. destruct T as [|i [|[k1 L] [|[k2 R] [|? ?]]]]; try discriminate H.
    apply andb_prop in H. destruct H as [H1 H2]. apply Nat.eqb_eq in H1, H2. do 5 eexists. eauto.
  - intros (i & k1 & L & k2 & R & -> & <- & <-). rewrite !Nat.eqb_refl. reflexivity.
Qed.

Lemma rfi_pc_b_iff (s : st) t p : NoDup (map fst (ths s)) -> (rfi_pc_b s t p = true <-> rfi_pc s t p).
Proof.
  intros Hnd. destruct p; simpl; try tauto.
  - rewrite !andb_true_iff, holder_b, (free_b_iff s t r Hnd), link_b_iff, root_is_b_iff, (nobody_b_iff s _ Hnd). tauto.
  - rewrite andb_true_iff, (free_b_iff s t r Hnd), link_b_iff. tauto.
Qed.

Lemma rfi_b_iff (s : st) : NoDup (map fst (ths s)) -> (rfi_b s = true <-> rfi s).
Proof.
  intros Hnd. unfold rfi_b, rfi. rewrite forallb_forall. split; intros H.
  - intros t th Hg. apply (rfi_pc_b_iff s t (tpc th) Hnd). apply (H (t, th)). apply get_thread_in. exact Hg.
  - intros [t th] Hin. simpl. apply (rfi_pc_b_iff s t (tpc th) Hnd). apply H. apply in_get_thread; auto.
Qed.


(* ------------------------------------------------------------------------------------------------ *)
(* S1: a step only adds the granted lock to the lock table                                            *)
(* ------------------------------------------------------------------------------------------------ *)
Notation out := (out K V).

Lemma unlock_opt_sub x (l : list (id * tid)) e : In e (unlock_opt x l) -> In e l.
Proof. destruct x; simpl; [apply In_unlock | auto]. Qed.

Lemma unlock_frame_kids_sub f right (l : list (id * tid)) e : In e (unlock_frame_kids f right l) -> In e l.
Proof. unfold unlock_frame_kids. intros H. apply unlock_opt_sub in H. apply unlock_opt_sub in H. apply unlock_opt_sub in H. exact H. Qed.

Lemma ins_descend_lk o n (t : itree) l fr tmx (o1 : out) :
  ins_descend ltb o n t l fr tmx = Ok o1 -> forall e, In e (olk o1) -> In e l.
Proof.
  intros H. unfold ins_descend, mk in H. crunch H; inversion H; subst; clear H; cbn [olk]; intros e He;
    repeat first [exact He | apply In_unlock in He].
Qed.

Lemma sea_descend_lk o n (t : itree) l fr tmx (o1 : out) :
  sea_descend ltb o n t l fr tmx = Ok o1 -> forall e, In e (olk o1) -> In e l.
Proof.
  intros H. unfold sea_descend, mk in H. crunch H; inversion H; subst; clear H; cbn [olk]; intros e He;
    repeat first [exact He | apply In_unlock in He].
Qed.

Lemma unwind_lk order fuel : forall o stk small right (t : itree) l fr tmx (o1 : out),
  unwind order fuel o stk small right t l fr tmx = Ok o1 -> forall e, In e (olk o1) -> In e l.
Proof.
  induction fuel as [|fuel IH]; intros o stk small right t l fr tmx o1 H; simpl in H; [discriminate|].
  destruct stk as [|f rest].
  - unfold mk in H. inversion H; subst. cbn [olk]. intros e He. eapply In_unlock; eauto.
  - destruct (negb small).
    + intros e He. eapply unlock_frame_kids_sub. eapply IH; eauto.
    + destruct (find (fp f) t) as [[?|pi cs]|]; try discriminate H.
      destruct ((fidx f + 1 <? length cs) && match right with None => true | Some _ => false end).
      * unfold mk in H. inversion H; subst. cbn [olk]. auto.
      * destruct (irebalance order f t) as [[t' small']|]; [cbn [bind] in H|discriminate H].
        intros e He. eapply unlock_frame_kids_sub. eapply IH; eauto.
Qed.

Ltac blk_top HB :=
  match type of HB with
  | bind ?e _ = Ok _ => let E := fresh "HE" in destruct e eqn:E; [cbn [bind] in HB; inversion HB; subst; clear HB | discriminate HB]
  end.

Ltac lk_fin :=
  let e := fresh "e" in let He := fresh "He" in
  cbn [olk]; intros e He; repeat first [exact He | apply In_unlock in He].

Opaque unwind.

Lemma cstep_lk_sub order (s s' : st) me acq ev :
  cstep ltb order s me = Stepped s' acq ev ->
  forall e, In e (lk s') -> In e (lk s) \/ exists x, e = (x, me) /\ acq = Some (Some x).
Proof.
  intros H. unfold cstep in H.
  destruct (get_thread me (ths s)) as [th|] eqn:Hme; [|discriminate H].
  destruct (target s (tpc th)) as [tg|] eqn:Htg; [|discriminate H].
  destruct (negb (is_free s tg)) eqn:Hfree; [discriminate H|].
  cbv zeta in H.
  assert (Hgen : forall o : out,
            (forall e, In e (olk o) -> In e (match tg with Some (Some x) => (x, me) :: lk s | _ => lk s end)) ->
            Stepped {| tr := otr o; tm := otm o; lk := olk o; fresh := ofresh o;
                       ths := set_thread me (if existsb (fun e => match e with EReturn _ => true | _ => false end) (oev o)
                                then {| prog := tl (prog th); tpc := opc o; results := flat_map (fun e => match e with EReturn r => [r] | _ => [] end) (oev o) ++ results th |}
                                else {| prog := prog th; tpc := opc o; results := results th |}) (ths s) |} tg (oev o) = Stepped s' acq ev ->
            forall e, In e (lk s') -> In e (lk s) \/ exists x, e = (x, me) /\ acq = Some (Some x)).
  { intros o Ho Hs. inversion Hs; subst. simpl. intros e He. apply Ho in He.
    destruct acq as [[x|]|]; simpl in He; auto. destruct He as [<-|He]; eauto. }
  destruct (tpc th) as [ |o|o r|o lft rgt|o p c index|o p c r|o leaf mode index|o p c|o stk|o stk|o stk|leaf i n acc|leaf nxt n acc] eqn:Hpc.
  all: cbv beta iota in H; simpl in Htg; crunch Htg; inversion Htg; subst tg; clear Htg.
  all: match type of H with match ?B with _ => _ end = _ => destruct B as [[o1|]|] eqn:HB; try discriminate H end.
  all: apply (Hgen o1); [clear H Hgen | exact H].
  all: try (unfold mk in HB; cbn [bind] in HB; crunch HB; inversion HB; subst; clear HB; lk_fin; fail).
  all: blk_top HB.
  all: crunch HE.
  all: try (unfold mk in HE; apply Ok_inj in HE; subst o1; lk_fin; fail).
  all: try match goal with
       | HI : ins_descend _ _ _ _ _ _ _ = Ok ?o |- forall e, In e (olk ?o) -> _ =>
         let e := fresh "e" in let He := fresh "He" in
         intros e He; apply (ins_descend_lk _ _ _ _ _ _ _ HI) in He; repeat first [exact He | apply In_unlock in He]
       | HI : sea_descend _ _ _ _ _ _ _ = Ok ?o |- forall e, In e (olk ?o) -> _ =>
         let e := fresh "e" in let He := fresh "He" in
         intros e He; apply (sea_descend_lk _ _ _ _ _ _ _ HI) in He; repeat first [exact He | apply In_unlock in He]
       | HI : unwind _ _ _ _ _ _ _ _ _ _ = Ok ?o |- forall e, In e (olk ?o) -> _ =>
         let e := fresh "e" in let He := fresh "He" in
         intros e He; apply (unwind_lk _ _ _ _ _ _ _ _ _ _ _ HI) in He; repeat first [exact He | apply In_unlock in He]
       end.
Qed.

Transparent unwind.


(* ------------------------------------------------------------------------------------------------ *)
(* S4: a thread that starts awaiting a right half awaits the node it has just allocated               *)
(* ------------------------------------------------------------------------------------------------ *)
Definition is_right (p : pc) : bool :=
  match p with InsWantSplitRight _ _ _ _ | InsWantRootRight _ _ _ => true | _ => false end.

Lemma ins_descend_noright o n (t : itree) l fr tmx (o1 : out) :
  ins_descend ltb o n t l fr tmx = Ok o1 -> is_right (opc o1) = false.
Proof. intros H. unfold ins_descend, mk in H. crunch H; inversion H; subst; reflexivity. Qed.

Lemma sea_descend_noright o n (t : itree) l fr tmx (o1 : out) :
  sea_descend ltb o n t l fr tmx = Ok o1 -> is_right (opc o1) = false.
Proof. intros H. unfold sea_descend, mk in H. crunch H; inversion H; subst; reflexivity. Qed.

Lemma del_descend_noright o stk n (t : itree) p : del_descend ltb o stk n t = Ok p -> is_right p = false.
Proof. intros H. unfold del_descend in H. crunch H; inversion H; subst. destruct (0 <? a); reflexivity. Qed.

Lemma unwind_noright order fuel : forall o stk small right (t : itree) l fr tmx (o1 : out),
  unwind order fuel o stk small right t l fr tmx = Ok o1 -> is_right (opc o1) = false.
Proof.
  induction fuel as [|fuel IH]; intros o stk small right t l fr tmx o1 H; simpl in H; [discriminate|].
  destruct stk as [|f rest].
  - unfold mk in H. inversion H; subst. reflexivity.
  - destruct (negb small); [eapply IH; eauto|].
    destruct (find (fp f) t) as [[?|pi cs]|]; try discriminate H.
    destruct ((fidx f + 1 <? length cs) && match right with None => true | Some _ => false end).
    + unfold mk in H. inversion H; subst. reflexivity.
    + destruct (irebalance order f t) as [[t' small']|]; [cbn [bind] in H|discriminate H]. eapply IH; eauto.
Qed.

Lemma isplit_link order fr (child lft rgt : itree) :
  isplit order fr child = Some (lft, rgt) ->
  nid lft = nid child /\ nid rgt = fr /\
  (forall nx es, view_of rgt = VLeaf nx es -> exists es', view_of lft = VLeaf (Some fr) es').
Proof.
  unfold isplit. destruct (icount child <? order); [discriminate|].
  destruct child as [i nx es|i cs]; intros H; inversion H; subst; simpl; repeat split; eauto. intros; discriminate.
Qed.

Lemma kid_view (t' : itree) pre post pi (cs' : list (K * itree)) k ch :
  NoDup (ids t') -> nodes t' = pre ++ nodes (INode pi cs') ++ post -> In (k, ch) cs' ->
  node_view (nid ch) t' = Some (view_of ch).
Proof.
  intros Hnd E Hin. apply nodes_view; [exact Hnd|]. rewrite E, nodes_node.
  apply in_or_app. right. apply in_or_app. left. right.
  unfold nodesl. apply in_flat_map. exists (k, ch). split; [exact Hin|]. simpl.
  destruct (nodes_hd K V ch) as [r ->]. left. reflexivity.
Qed.

Lemma view_find_leaf x (t : itree) nx es : node_view x t = Some (VLeaf nx es) -> exists i, find x t = Some (ILeaf i nx es).
Proof.
  unfold node_view. destruct (find x t) as [[i nx' es'|i cs]|]; simpl; intros H; inversion H; subst. eauto.
Qed.

Lemma split_link_ok (t' : itree) pre post pi (cs' : list (K * itree)) order fr child lft rgt k1 k2 :
  NoDup (ids t') -> nodes t' = pre ++ nodes (INode pi cs') ++ post ->
  isplit order fr child = Some (lft, rgt) -> In (k1, lft) cs' -> In (k2, rgt) cs' ->
  link_ok t' (nid child) fr.
Proof.
  intros Hnd E Hs H1 H2. destruct (isplit_link _ _ _ _ _ Hs) as (N1 & N2 & L).
  pose proof (kid_view t' pre post pi cs' k1 lft Hnd E H1) as V1. rewrite N1 in V1.
  pose proof (kid_view t' pre post pi cs' k2 rgt Hnd E H2) as V2. rewrite N2 in V2.
  intros i nx es Hf. unfold node_view in V2. rewrite Hf in V2. simpl in V2. inversion V2 as [Hv].
  destruct (L nx es (eq_sym Hv)) as [es' Hl]. rewrite Hl in V1.
  destruct (view_find_leaf _ _ _ _ V1) as [j Hj]. eauto.
Qed.

Definition right_post (s : st) (o : out) : Prop :=
  match opc o with
  | InsWantSplitRight _ _ c r => r = fresh s /\ link_ok (otr o) c r
  | InsWantRootRight _ l r => r = fresh s /\ nid (otr o) = S (fresh s) /\ root_is (otr o) l r /\ link_ok (otr o) l r
  | _ => True
  end.

Lemma right_post_noright (s : st) (o : out) : is_right (opc o) = false -> right_post s o.
Proof. unfold right_post. destruct (opc o); simpl; intros H; try discriminate H; exact I. Qed.

Lemma in_set_nth {A} i (x : A) l : In x (set_nth i x l).
Proof. unfold set_nth. apply in_or_app. right. left. reflexivity. Qed.
Lemma in_ins_nth {A} i (x : A) l : In x (ins_nth i x l).
Proof. unfold ins_nth. apply in_or_app. right. left. reflexivity. Qed.
Lemma in_ins_nth_old {A} i (x y : A) l : In y l -> In y (ins_nth i x l).
Proof.
  unfold ins_nth. intros H. rewrite <- (firstn_skipn i l) in H. apply in_app_iff in H.
  apply in_or_app. destruct H; [left; auto | right; right; auto].
Qed.

Opaque unwind.

Lemma new_right order (s s' : st) me acq ev th' :
  all_inv K V s -> cstep ltb order s me = Stepped s' acq ev -> get_thread me (ths s') = Some th' ->
  match tpc th' with
  | InsWantSplitRight _ _ c r => r = fresh s /\ link_ok (tr s') c r
  | InsWantRootRight _ l r => r = fresh s /\ nid (tr s') = S (fresh s) /\ root_is (tr s') l r /\ link_ok (tr s') l r
  | _ => True
  end.
Proof.
  intros Hall H Hg'.
  pose proof (ids_ok_step K V ltb order s s' me acq ev (proj1 Hall) (proj1 (proj2 Hall)) (proj2 (proj2 Hall)) H) as [Hnd' _].
  destruct Hall as ([Hnd Hlt] & Hinv & Hfi).
  unfold cstep in H.
  destruct (get_thread me (ths s)) as [th|] eqn:Hme; [|discriminate H].
  destruct (target s (tpc th)) as [tg|] eqn:Htg; [|discriminate H].
  destruct (negb (is_free s tg)) eqn:Hfree; [discriminate H|].
  destruct Hinv as [Hinv Hwf2].
  pose proof (Hwf2 me th Hme) as Hw2.
  cbv zeta in H.
  assert (Hgen : forall o : out,
            (NoDup (ids (otr o)) -> right_post s o) ->
            Stepped {| tr := otr o; tm := otm o; lk := olk o; fresh := ofresh o;
                       ths := set_thread me (if existsb (fun e => match e with EReturn _ => true | _ => false end) (oev o)
                                then {| prog := tl (prog th); tpc := opc o; results := flat_map (fun e => match e with EReturn r => [r] | _ => [] end) (oev o) ++ results th |}
                                else {| prog := prog th; tpc := opc o; results := results th |}) (ths s) |} tg (oev o) = Stepped s' acq ev ->
            match tpc th' with
            | InsWantSplitRight _ _ c r => r = fresh s /\ link_ok (tr s') c r
            | InsWantRootRight _ l r => r = fresh s /\ nid (tr s') = S (fresh s) /\ root_is (tr s') l r /\ link_ok (tr s') l r
            | _ => True
            end).
  { intros o Ho Hs. inversion Hs; subst. simpl in *.
    rewrite (get_set_same K V me th _ (ths s) Hme) in Hg'. inversion Hg'; subst th'. clear Hg'.
    specialize (Ho Hnd'). unfold right_post in Ho.
    destruct (existsb _ (oev o)); simpl; exact Ho. }
  destruct (tpc th) as [ |o|o r|o lft rgt|o p c index|o p c r|o leaf mode index|o p c|o stk|o stk|o stk|leaf i n acc|leaf nxt n acc] eqn:Hpc.
  all: cbv beta iota in H; simpl in Htg; crunch Htg; inversion Htg; subst tg; clear Htg.
  all: match type of H with match ?B with _ => _ end = _ => destruct B as [[o1|]|] eqn:HB; try discriminate H end.
  all: apply (Hgen o1); [clear H Hgen; intros Hndo | exact H].
  all: simpl in Hw2.
  all: try (unfold mk in HB; cbn [bind] in HB; crunch HB; inversion HB; subst; clear HB; apply right_post_noright; reflexivity).
  all: blk_top HB.
  all: try (apply right_post_noright; eapply ins_descend_noright; eauto; fail).
  all: try (apply right_post_noright; eapply sea_descend_noright; eauto; fail).
  all: try (apply right_post_noright; eapply unwind_noright; eauto; fail).
  all: try (unfold mk in HE; crunch HE; try (apply Ok_inj in HE; subst o1); apply right_post_noright;
            first [reflexivity | eapply unwind_noright; eauto; fail | cbn [opc]; eapply del_descend_noright; eauto; fail]; fail).
  - (* WantRoot *)
    destruct o as [k v|k f|k|k|k cnt].
    1,2: destruct (isplit order (fresh s) (tr s)) as [[lft rgt]|] eqn:Hsp;
         [|apply right_post_noright; eapply ins_descend_noright; eauto].
    1,2: destruct (ismallest lft) as [ls|] eqn:Els; [cbn [bind] in HE|discriminate HE].
    1,2: destruct (ismallest rgt) as [rs|] eqn:Ers; [cbn [bind] in HE|discriminate HE].
    1,2: match type of HE with (if ?c then _ else _) = _ => destruct c end;
         [apply right_post_noright; eapply ins_descend_noright; eauto|].
    1,2: unfold mk in HE; apply Ok_inj in HE; subst o1; unfold right_post; cbn [opc otr] in *.
    1,2: destruct (isplit_link _ _ _ _ _ Hsp) as (N1 & N2 & _).
    1,2: split; [reflexivity|]; split; [reflexivity|]; split;
         [do 5 eexists; split; [reflexivity|]; split; [exact N1 | exact N2]|].
    1,2: match goal with |- link_ok (INode ?i ?cs) _ _ =>
           eapply (split_link_ok (INode i cs) [] [] i cs order (fresh s) (tr s) lft rgt); [exact Hndo | rewrite app_nil_r; reflexivity | exact Hsp | left; reflexivity | right; left; reflexivity]
         end.
    + destruct (tr s) as [i nx es|i cs] eqn:Et.
      * unfold mk in HE. cbn [bind] in HE. crunch HE. apply Ok_inj in HE. subst o1. apply right_post_noright. reflexivity.
      * unfold mk in HE. cbn [bind] in HE. crunch HE. apply Ok_inj in HE. subst o1. apply right_post_noright.
        cbn [opc]. eapply del_descend_noright; eauto.
    + apply right_post_noright. eapply sea_descend_noright; eauto.
    + apply right_post_noright. eapply sea_descend_noright; eauto.
  - (* InsWantChild *)
    destruct (find p (tr s)) as [[?|pi cs]|] eqn:Hfp; try discriminate HE.
    destruct (find c (tr s)) as [child|] eqn:Hfc; [|discriminate HE].
    destruct (get_nth index cs) as [[sep ch0]|] eqn:Hg; [cbn [bind] in HE|discriminate HE].
    cbn [bind] in HE.
    remember (if index =? 0 then (if ltb (key_of o) sep then key_of o else sep) else sep) as sep' eqn:Hsep.
    assert (Hnc : nid child = c) by (eapply find_nid; eauto).
    destruct (isplit order (fresh s) child) as [[lft rgt]|] eqn:Hsp.
    + destruct (ismallest rgt) as [rs|] eqn:Ers; [cbn [bind] in HE|discriminate HE].
      match type of HE with bind ?e _ = _ => destruct e as [t'|] eqn:Hu; [cbn [bind] in HE|discriminate HE] end.
      destruct (ltb (key_of o) rs); [apply right_post_noright; eapply ins_descend_noright; eauto|].
      unfold mk in HE. apply Ok_inj in HE. subst o1. unfold right_post. cbn [opc otr] in *.
      split; [reflexivity|]. rewrite <- Hnc.
      destruct (upd_nodes K V p (INode pi cs) (INode pi (ins_nth (index + 1) (rs, rgt) (set_nth index (sep', lft) cs))) eq_refl
                  (tr s) t' Hnd Hfp Hu) as [_ [pre [post [_ P2]]]].
      eapply (split_link_ok t' pre post pi _ order (fresh s) child lft rgt sep' rs); [exact Hndo | exact P2 | exact Hsp | | ].
      * apply in_ins_nth_old. apply in_set_nth.
      * apply in_ins_nth.
    + match type of HE with bind ?e _ = _ => destruct e as [t'|] eqn:Hu; [cbn [bind] in HE|discriminate HE] end.
      apply right_post_noright. eapply ins_descend_noright; eauto.
Qed.

Transparent unwind.


(* ------------------------------------------------------------------------------------------------ *)
(* S3: the lock a thread that does not move waits for does not change                                 *)
(* ------------------------------------------------------------------------------------------------ *)
Lemma held_view_stable order (s s' : st) me acq ev u thu x :
  all_inv K V s -> lossless order (tr s) -> cstep ltb order s me = Stepped s' acq ev ->
  u <> me -> get_thread u (ths s) = Some thu -> In x (pc_nodes (tpc thu)) -> In x (ids (tr s)) ->
  node_view x (tr s') = node_view x (tr s).
Proof.
  intros (Hids & Hli2 & Hfi) Hll Hstep Hne Hg Hx Hin.
  pose proof Hli2 as [Hli _]. pose proof Hli as (_ & _ & _ & _ & Hth).
  destruct (Hth u thu Hg) as (_ & HPu & _).
  assert (Hxu : In x (held_by u (lk s))) by (eapply Permutation_in; [apply Permutation_sym; exact HPu | exact Hx]).
  eapply step_frame; eauto.
  - intro X. apply Hne. eapply (locks_exclusive K V s x u me); eauto.
  - intro X. subst acq. eapply (granted_was_free K V ltb order s s' me x ev u); eauto.
Qed.

Lemma child_id_view (t t' : itree) p j : node_view p t' = node_view p t -> child_id t' p j = child_id t p j.
Proof.
  unfold child_id, node_view. intros H.
  destruct (find p t) as [[i nx es|i cs]|]; destruct (find p t') as [[i' nx' es'|i' cs']|]; simpl in H; try discriminate H; try reflexivity.
  inversion H as [Hp]. apply (f_equal (fun l => nth_error l j)) in Hp. rewrite !nth_error_map' in Hp.
  unfold get_nth. destruct (nth_error cs' j) as [[k1 c1]|]; destruct (nth_error cs j) as [[k2 c2]|]; simpl in Hp; inversion Hp; simpl; congruence.
Qed.

Definition del_top (p : pc) : option frame :=
  match p with DelWantLeft _ (f :: _) | DelWantChild _ (f :: _) | DelWantRight _ (f :: _) => Some f | _ => None end.

Lemma target_stable (s s' : st) (p : pc) :
  (forall f, del_top p = Some f -> node_view (fp f) (tr s') = node_view (fp f) (tr s)) -> target s' p = target s p.
Proof.
  intros H. destruct p; simpl; try reflexivity; destruct st as [|f rest]; try reflexivity;
    rewrite (child_id_view (tr s) (tr s') (fp f) _ (H f eq_refl)); reflexivity.
Qed.

Lemma del_top_held order (t : itree) (p : pc) f :
  pc_ok_b ltb order t p = true -> del_top p = Some f -> In (fp f) (pc_nodes p) /\ In (fp f) (ids t).
Proof.
  intros Hok Hd.
  assert (H : exists rest, frames_ok_b t (f :: rest) = true /\ pc_nodes p = frames_nodes (f :: rest)).
  { destruct p; simpl in Hd; try discriminate Hd; destruct st as [|f0 rest]; try discriminate Hd; inversion Hd; subst f0;
      simpl pc_ok_b in Hok; try (apply andb_prop in Hok; destruct Hok as [Hok _]); exists rest; auto. }
  destruct H as (rest & Hf & ->). split.
  - eapply frames_fp_in; eauto. left. reflexivity.
  - simpl in Hf. destruct (find (fp f) t) as [[?|pi cs]|] eqn:E; try discriminate Hf. eapply find_in_ids; eauto.
Qed.

(* ------------------------------------------------------------------------------------------------ *)
(* every awaited lock is justified by the tree                                                        *)
(* ------------------------------------------------------------------------------------------------ *)
Lemma tgt_cases order (s : st) u thu x :
  lock_inv s -> get_thread u (ths s) = Some thu -> pc_ok_b ltb order (tr s) (tpc thu) = true ->
  wants s (tpc thu) x = true ->
  (x = nid (tr s) /\ tm s = Some u) \/
  right_of (tpc thu) = Some x \/
  (exists n pi cs k ch, In n (held_by u (lk s)) /\ find n (tr s) = Some (INode pi cs) /\ In (k, ch) cs /\ nid ch = x) \/
  (exists leaf i es, In leaf (held_by u (lk s)) /\ find leaf (tr s) = Some (ILeaf i (Some x) es)).
Proof.
  intros Hli Hg Hok Hw. pose proof Hli as (_ & _ & _ & _ & Hth).
  destruct (Hth u thu Hg) as (_ & HP & HT).
  assert (Hheld : forall y, In y (pc_nodes (tpc thu)) -> In y (held_by u (lk s))).
  { intros y Hy. eapply Permutation_in; [apply Permutation_sym; exact HP | exact Hy]. }
  unfold PCb2_Proof.wants in Hw.
  assert (Hdel : forall f rest j, frames_ok_b (tr s) (f :: rest) = true -> pc_nodes (tpc thu) = frames_nodes (f :: rest) ->
            forall y, child_id (tr s) (fp f) j = Ok y -> (y =? x) = true ->
            exists n pi cs k ch, In n (held_by u (lk s)) /\ find n (tr s) = Some (INode pi cs) /\ In (k, ch) cs /\ nid ch = x).
  { intros f rest j Hf Hpn y Hc Hy. apply Nat.eqb_eq in Hy. subst y.
    unfold child_id in Hc. destruct (find (fp f) (tr s)) as [[?|pi cs]|] eqn:E; try discriminate Hc.
    destruct (get_nth j cs) as [[k ch]|] eqn:Eg; [|discriminate Hc]. simpl in Hc. apply Ok_inj in Hc.
    exists (fp f), pi, cs, k, ch. split; [|split; [exact E|split; [eapply nth_error_In; apply get_nth_Ok; eauto | exact Hc]]].
    apply Hheld. rewrite Hpn. eapply frames_fp_in; eauto. left. reflexivity. }
  destruct (tpc thu) as [ |o|o r|o lft rgt|o pn c index|o pn c r|o leaf mode index|o pn c|o stk|o stk|o stk|leaf i n acc|leaf nxt n acc] eqn:Hpc;
    simpl in Hw, Hok, Hheld; try discriminate Hw.
  - (* WantRoot *) apply Nat.eqb_eq in Hw. apply Nat.eqb_eq in Hok. left. split; [congruence|]. apply HT. reflexivity.
  - (* InsWantRootRight *) apply Nat.eqb_eq in Hw. right. left. simpl. congruence.
  - (* InsWantChild *)
    apply Nat.eqb_eq in Hw. subst x. right. right. left.
    destruct (find pn (tr s)) as [[?|pi cs]|] eqn:E; try discriminate Hok.
    rewrite !andb_true_iff in Hok. destruct Hok as [[[_ _] H3] _].
    destruct (nth_error cs index) as [[k ch]|] eqn:En; [|discriminate H3]. apply Nat.eqb_eq in H3.
    exists pn, pi, cs, k, ch. split; [apply Hheld; auto|]. split; [exact E|]. split; [eapply nth_error_In; eauto | exact H3].
  - (* InsWantSplitRight *) apply Nat.eqb_eq in Hw. right. left. simpl. congruence.
  - (* SeaWantChild *)
    apply Nat.eqb_eq in Hw. subst x. right. right. left.
    destruct (find pn (tr s)) as [[?|pi cs]|] eqn:E; try discriminate Hok.
    apply existsb_exists in Hok. destruct Hok as [[k ch] [Hin Hc]]. simpl in Hc. apply Nat.eqb_eq in Hc.
    exists pn, pi, cs, k, ch. split; [apply Hheld; auto|]. auto.
  - (* DelWantLeft *)
    destruct stk as [|f rest]; [discriminate Hw|]. simpl in Hw.
    destruct (child_id (tr s) (fp f) (fidx f - 1)) as [y|] eqn:Ec; [|discriminate Hw]. simpl in Hw.
    right. right. left. eapply (Hdel f rest); eauto.
  - (* DelWantChild *)
    destruct stk as [|f rest]; [discriminate Hw|]. simpl in Hw.
    destruct (child_id (tr s) (fp f) (fidx f)) as [y|] eqn:Ec; [|discriminate Hw]. simpl in Hw.
    right. right. left. eapply (Hdel f rest); eauto.
  - (* DelWantRight *)
    destruct stk as [|f rest]; [discriminate Hw|]. simpl in Hw.
    destruct (child_id (tr s) (fp f) (fidx f + 1)) as [y|] eqn:Ec; [|discriminate Hw]. simpl in Hw.
    apply andb_prop in Hok. destruct Hok as [Hok _].
    right. right. left. eapply (Hdel f rest); eauto.
  - (* CurWantNext *)
    apply Nat.eqb_eq in Hw. subst x. right. right. right.
    destruct (find leaf (tr s)) as [[li [y|] es|?]|] eqn:E; try discriminate Hok. apply Nat.eqb_eq in Hok. subst y.
    exists leaf, li, es. split; [apply Hheld; auto | exact E].
Qed.

Lemma wants_in_tree order (s : st) u thu x :
  lock_inv s -> NoDup (ids (tr s)) -> chain_ok (leaf_links (tr s)) ->
  get_thread u (ths s) = Some thu -> pc_ok_b ltb order (tr s) (tpc thu) = true ->
  wants s (tpc thu) x = true -> In x (ids (tr s)).
Proof.
  intros Hli Hnd Hch Hg Hok Hw.
  destruct (tgt_cases order s u thu x Hli Hg Hok Hw) as [[-> _]|[Hr|[(n & pi & cs & k & ch & _ & Hf & Hin & <-)|(leaf & i & es & _ & Hf)]]].
  - apply nid_in_ids.
  - destruct (tpc thu); simpl in Hr; try discriminate Hr; inversion Hr; subst; simpl in Hok.
    + destruct (find x (tr s)) eqn:E; [eapply find_in_ids; eauto | discriminate Hok].
    + destruct (find p (tr s)) as [[?|? ?]|]; try discriminate Hok.
      destruct (find x (tr s)) eqn:E; [eapply find_in_ids; eauto | discriminate Hok].
  - eapply find_in_ids. eapply find_child; eauto.
  - destruct (next_is_leaf K V (tr s) leaf i x es Hnd Hch Hf) as [nx [es' Hx]]. eapply find_in_ids; eauto.
Qed.

(* every held lock is a node of the tree *)
Lemma frames_in_tree (t : itree) : NoDup (ids t) -> forall stk, frames_ok_b t stk = true ->
  forall f, In f stk -> In (fp f) (ids t) /\ (forall y, fl f = Some y -> In y (ids t)) /\ (forall y, fc f = Some y -> In y (ids t)).
Proof.
  intros Hnd. induction stk as [|f0 rest IH]; intros H f Hf; [destruct Hf|].
  simpl in H. destruct (find (fp f0) t) as [[?|pi cs]|] eqn:E; try discriminate H.
  rewrite !andb_true_iff in H. destruct H as [[[[H1 H2] H3] H4] H5].
  destruct Hf as [<-|Hf]; [|apply IH; auto].
  split; [eapply find_in_ids; eauto|]. split; intros y Hy; rewrite Hy in *.
  - apply andb_prop in H2. destruct H2 as [_ H2].
    destruct (nth_error cs (fidx f0 - 1)) as [[k ch]|] eqn:En; [|discriminate H2]. apply Nat.eqb_eq in H2. subst y.
    eapply find_in_ids. eapply find_child; eauto. eapply nth_error_In; eauto.
  - destruct (nth_error cs (fidx f0)) as [[k ch]|] eqn:En; [|discriminate H3]. apply Nat.eqb_eq in H3. subst y.
    eapply find_in_ids. eapply find_child; eauto. eapply nth_error_In; eauto.
Qed.

Lemma pc_nodes_in_tree order (t : itree) (p : pc) :
  NoDup (ids t) -> pc_ok_b ltb order t p = true ->
  (forall o l r, p = InsWantRootRight o l r -> root_is t l r) ->
  forall x, In x (pc_nodes p) -> In x (ids t).
Proof.
  intros Hnd Hok Hroot x Hx.
  assert (Hdel : forall stk, frames_ok_b t stk = true -> In x (frames_nodes stk) -> In x (ids t)).
  { intros stk Hf Hin. unfold frames_nodes in Hin. destruct (rev stk) as [|b tl] eqn:Er; [destruct Hin|].
    assert (Hb : In b stk) by (apply in_rev; rewrite Er; left; reflexivity).
    destruct Hin as [<-|Hin]; [exact (proj1 (frames_in_tree t Hnd stk Hf b Hb))|].
    destruct (proj1 (in_flat_map _ _ _) Hin) as [f [Hfi Hin2]]. clear Hin. apply in_app_iff in Hin2.
    destruct (frames_in_tree t Hnd stk Hf f Hfi) as (_ & F2 & F3).
    destruct Hin2 as [Hin|Hin].
    - destruct (fl f) as [y|]; simpl in Hin; [|destruct Hin]. destruct Hin as [<-|[]]. apply F2. reflexivity.
    - destruct (fc f) as [y|]; simpl in Hin; [|destruct Hin]. destruct Hin as [<-|[]]. apply F3. reflexivity. }
  destruct p as [ |o|o r|o lft rgt|o pn c index|o pn c r|o leaf mode index|o pn c|o stk|o stk|o stk|leaf i n acc|leaf nxt n acc];
    simpl in Hx, Hok; try (destruct Hx; fail).
  - destruct Hx as [<-|[]]. destruct (Hroot o lft rgt eq_refl) as (i & k1 & L & k2 & R & -> & <- & _).
    rewrite ids_node, idsl_cons. right. apply in_or_app. left. apply nid_in_ids.
  - destruct Hx as [<-|[]]. destruct (find pn t) eqn:E; [eapply find_in_ids; eauto | discriminate Hok].
  - destruct (find pn t) as [[?|pi cs]|] eqn:E; try discriminate Hok.
    destruct Hx as [<-|[<-|[]]]; [eapply find_in_ids; eauto|].
    destruct (find r t); [|discriminate Hok]. rewrite !andb_true_iff in Hok. destruct Hok as [[_ H3] _].
    apply existsb_exists in H3. destruct H3 as [[k ch] [Hin Hc]]. simpl in Hc. apply Nat.eqb_eq in Hc. subst c.
    eapply find_in_ids. eapply find_child; eauto.
  - destruct Hx as [<-|[]]. destruct (find leaf t) eqn:E; [eapply find_in_ids; eauto | discriminate Hok].
  - destruct Hx as [<-|[]]. destruct (find pn t) eqn:E; [eapply find_in_ids; eauto | discriminate Hok].
  - apply (Hdel stk); auto.
  - apply (Hdel stk); auto.
  - apply andb_prop in Hok. destruct Hok as [Hok _]. apply (Hdel stk); auto.
  - destruct Hx as [<-|[]]. destruct (find leaf t) eqn:E; [eapply find_in_ids; eauto | discriminate Hok].
  - destruct Hx as [<-|[]]. destruct (find leaf t) eqn:E; [eapply find_in_ids; eauto | discriminate Hok].
Qed.

Lemma holder_in x u (l : list (id * tid)) : holder x l = Some u -> In (x, u) l.
Proof.
  unfold holder. destruct (List.find (fun e => fst e =? x) l) as [[y w]|] eqn:E; [|discriminate].
  intros H. inversion H; subst. apply find_some in E. destruct E as [E1 E2]. simpl in E2. apply Nat.eqb_eq in E2. subst. exact E1.
Qed.

Lemma in_holder x u (l : list (id * tid)) : In (x, u) l -> holder x l <> None.
Proof. intros H Hn. apply holder_none in Hn. apply Hn. apply in_map_iff. exists (x, u). auto. Qed.


(* ------------------------------------------------------------------------------------------------ *)
(* the strengthened invariant is preserved by every step                                              *)
(* ------------------------------------------------------------------------------------------------ *)
Lemma find_self (T : itree) : find (nid T) T = Some T.
Proof. rewrite find_eq, Nat.eqb_refl. reflexivity. Qed.

Lemma link_transfer (T T' : itree) c r :
  node_view r T' = node_view r T -> node_view c T' = node_view c T -> link_ok T c r -> link_ok T' c r.
Proof.
  intros Hr Hc H i nx es Hf.
  assert (V1 : node_view r T = Some (VLeaf nx es)) by (rewrite <- Hr; unfold node_view; rewrite Hf; reflexivity).
  destruct (view_find_leaf _ _ _ _ V1) as [i0 Hf0]. destruct (H _ _ _ Hf0) as [j [es' Hc0]].
  assert (V2 : node_view c T' = Some (VLeaf (Some r) es')) by (rewrite Hc; unfold node_view; rewrite Hc0; reflexivity).
  destruct (view_find_leaf _ _ _ _ V2) as [j' Hj]. eauto.
Qed.

Lemma root_is_transfer (T T' : itree) l r :
  nid T' = nid T -> node_view (nid T) T' = node_view (nid T) T -> root_is T l r -> root_is T' l r.
Proof.
  intros Hn Hv (i & k1 & L & k2 & R & -> & <- & <-).
  unfold node_view in Hv. rewrite find_self in Hv. rewrite <- Hn, find_self in Hv. simpl in Hv. inversion Hv as [Hv'].
  destruct T' as [|i' cs']; [discriminate Hv'|]. simpl in Hv'. inversion Hv' as [Hp].
  destruct cs' as [|[a A] [|[b B] [|? ?]]]; simpl in Hp; try discriminate Hp. inversion Hp; subst.
  do 5 eexists. split; [reflexivity|]. auto.
Qed.

Lemma splitright_facts order (T : itree) o p c r :
  pc_ok_b ltb order T (InsWantSplitRight o p c r) = true ->
  exists pi cs rt, find p T = Some (INode pi cs) /\ find r T = Some rt /\
    (exists k ch, In (k, ch) cs /\ nid ch = c) /\ (exists k ch, In (k, ch) cs /\ nid ch = r).
Proof.
  simpl. destruct (find p T) as [[?|pi cs]|]; try discriminate. destruct (find r T) as [rt|]; [|discriminate].
  rewrite !andb_true_iff. intros [[_ H3] H4]. exists pi, cs, rt. split; [reflexivity|]. split; [reflexivity|].
  apply existsb_exists in H3. apply existsb_exists in H4.
  destruct H3 as [[k1 c1] [I1 E1]]. destruct H4 as [[k2 c2] [I2 E2]]. simpl in *. apply Nat.eqb_eq in E1, E2. eauto 10.
Qed.

Theorem rfi_step : forall order (s s' : st) me acq ev,
  Nat.even order = true ->
  CIfull ltb order s -> all_inv K V s -> rfi s ->
  cstep ltb order s me = Stepped s' acq ev ->
  CIfull ltb order s' -> rfi s'.
Proof.
  intros order s s' me acq ev Hev [[HGI [Hli2 Hall]] _] Hinv Hrf Hstep [[HGI' [Hli2' Hall']] _].
  pose proof (GI_lossless K V ltb order s Hev HGI) as Hll.
  destruct HGI as (Hnd & Hlt & _ & _ & _ & Hch). destruct HGI' as (Hnd' & Hlt' & _ & _ & _ & Hch').
  pose proof Hli2 as [Hli _]. pose proof Hli2' as [Hli' _].
  assert (Hpcs : forall u thu, get_thread u (ths s) = Some thu -> pc_ok_b ltb order (tr s) (tpc thu) = true).
  { intros u thu Hg. unfold all_pc_ok_b in Hall. rewrite forallb_forall in Hall. apply (Hall (u, thu)). apply get_thread_in. exact Hg. }
  assert (Hpcs' : forall u thu, get_thread u (ths s') = Some thu -> pc_ok_b ltb order (tr s') (tpc thu) = true).
  { intros u thu Hg. unfold all_pc_ok_b in Hall'. rewrite forallb_forall in Hall'. apply (Hall' (u, thu)). apply get_thread_in. exact Hg. }
  destruct (cstep_target K V ltb order s s' me acq ev Hstep) as [thm [Hgm Htg]].
  destruct (cstep_block K V ltb order s s' me acq ev Hli2 Hstep) as (th0 & thm' & tg0 & o0 & B1 & B2 & B3 & B4 & B5 & B6).
  assert (Hths : ths s' = set_thread me thm' (ths s)) by (rewrite B5; reflexivity).
  assert (Hother : forall u, u <> me -> get_thread u (ths s') = get_thread u (ths s)).
  { intros u Hu. rewrite Hths. apply get_set_other. exact Hu. }
  assert (Hgm' : get_thread me (ths s') = Some thm').
  { rewrite Hths. eapply get_set_same; eauto. }
  pose proof (cstep_lk_sub order s s' me acq ev Hstep) as Hlk.
  assert (Hhold : forall r, holder r (lk s) = None -> wants s (tpc thm) r = false -> holder r (lk s') = None).
  { intros r H1 H2. destruct (holder r (lk s')) as [u|] eqn:E; [|reflexivity]. exfalso.
    apply holder_in in E. destruct (Hlk _ E) as [X|[x [X1 X2]]].
    - eapply in_holder; eauto.
    - inversion X1; subst. unfold PCb2_Proof.wants in H2. rewrite Htg, Nat.eqb_refl in H2. discriminate. }
  assert (Hwo : forall u thu x, u <> me -> get_thread u (ths s) = Some thu -> wants s' (tpc thu) x = wants s (tpc thu) x).
  { intros u thu x Hu Hg. unfold PCb2_Proof.wants. rewrite (target_stable s s' (tpc thu)); [reflexivity|]. intros f Hf.
    destruct (del_top_held order (tr s) (tpc thu) f (Hpcs u thu Hg) Hf) as [D1 D2].
    eapply held_view_stable; eauto. }
  assert (Hin_lt : forall x, In x (ids (tr s)) -> x < fresh s).
  { intros x Hx. rewrite Forall_forall in Hlt. apply Hlt. exact Hx. }
  assert (Hrview : forall t r, t <> me -> free s t r -> In r (ids (tr s)) -> node_view r (tr s') = node_view r (tr s)).
  { intros t r Ht [F1 F2] Hin. destruct Hinv as (I1 & I2 & I3). eapply step_frame; eauto.
    - intro X. apply In_held_by in X. eapply in_holder; eauto.
    - intro X. subst acq. specialize (F2 me thm Hgm (fun E => Ht (eq_sym E))).
      unfold PCb2_Proof.wants in F2. rewrite Htg, Nat.eqb_refl in F2. discriminate. }
  assert (Hlk_tree : forall x u, In (x, u) (lk s) -> In x (ids (tr s))).
  { intros x u Hin. destruct Hli as (_ & _ & Hlkth & _ & Hth). destruct (Hlkth x u Hin) as [thu Hg].
    destruct (Hth u thu Hg) as (_ & HP & _).
    assert (Hx : In x (pc_nodes (tpc thu))) by (eapply Permutation_in; [exact HP | apply In_held_by; exact Hin]).
    eapply pc_nodes_in_tree; eauto.
    intros o l r E. specialize (Hrf u thu Hg). rewrite E in Hrf. simpl in Hrf. tauto. }
  assert (Hfresh : forall x, ~ In x (ids (tr s)) ->
            holder x (lk s') = None /\
            forall u thu', u <> me -> get_thread u (ths s') = Some thu' -> wants s' (tpc thu') x = false).
  { intros x Hx. split.
    - destruct (holder x (lk s')) as [u|] eqn:E; [|reflexivity]. exfalso.
      apply holder_in in E. destruct (Hlk _ E) as [X|[y [X1 X2]]].
      + apply Hx. eapply Hlk_tree; eauto.
      + inversion X1; subst y. apply Hx. eapply (wants_in_tree order s me thm x); eauto.
        unfold PCb2_Proof.wants. rewrite Htg, X2. apply Nat.eqb_refl.
    - intros u thu' Hu Hg. rewrite (Hother u Hu) in Hg. rewrite (Hwo u thu' x Hu Hg).
      destruct (wants s (tpc thu') x) eqn:Hw; [|reflexivity]. exfalso. apply Hx.
      eapply (wants_in_tree order s u thu' x); eauto. }
  intros t tht' Hgt'. destruct (Nat.eq_dec t me) as [->|Hne].
  - (* the thread that moved *)
    rewrite Hgm' in Hgt'. inversion Hgt'; subst tht'. clear Hgt'.
    pose proof (new_right order s s' me acq ev thm' Hinv Hstep Hgm') as Hnr.
    assert (Hf1 : ~ In (fresh s) (ids (tr s))) by (intro X; apply Hin_lt in X; lia).
    assert (Hf2 : ~ In (S (fresh s)) (ids (tr s))) by (intro X; apply Hin_lt in X; lia).
    destruct (tpc thm') eqn:Epc; simpl; try exact I.
    + destruct Hnr as (-> & Hroot & Hri & Hlink).
      destruct (Hfresh (fresh s) Hf1) as [A1 A2]. destruct (Hfresh (S (fresh s)) Hf2) as [A3 A4].
      split; [split; [exact A1 | intros u thu' Hg Hu; apply (A2 u thu'); auto]|].
      split; [exact Hlink|]. split; [exact Hri|]. rewrite Hroot. split; [exact A3|].
      intros u thu' Hg. destruct (Nat.eq_dec u me) as [->|Hu]; [|apply (A4 u thu'); auto].
      rewrite Hgm' in Hg. inversion Hg; subst thu'. rewrite Epc. unfold PCb2_Proof.wants. simpl. apply Nat.eqb_neq. lia.
    + destruct Hnr as (-> & Hlink).
      destruct (Hfresh (fresh s) Hf1) as [A1 A2].
      split; [split; [exact A1 | intros u thu' Hg Hu; apply (A2 u thu'); auto] | exact Hlink].
  - (* a thread that did not move *)
    rewrite (Hother t Hne) in Hgt'.
    pose proof (Hrf t tht' Hgt') as Hr. pose proof (Hpcs t tht' Hgt') as Hpt.
    assert (Hgt2 : get_thread t (ths s') = Some tht') by (rewrite (Hother t Hne); exact Hgt').
    pose proof (Hpcs' t tht' Hgt2) as Hpt'.
    pose proof Hli as (_ & _ & _ & _ & Hth). pose proof Hli' as (_ & _ & _ & _ & Hth').
    destruct (Hth t tht' Hgt') as (_ & HPt & HTt). destruct (Hth' t tht' Hgt2) as (_ & HPt' & HTt').
    assert (Hexcl : forall y, In y (pc_nodes (tpc tht')) -> In y (held_by me (lk s')) -> False).
    { intros y Hy Hm. apply Hne. eapply (locks_exclusive K V s' y t me); eauto.
      eapply Permutation_in; [apply Permutation_sym; exact HPt' | exact Hy]. }
    assert (Hnewfresh : forall x, right_of (tpc thm') = Some x -> x = fresh s).
    { intros x Hx. pose proof (new_right order s s' me acq ev thm' Hinv Hstep Hgm') as Hnr.
      destruct (tpc thm'); simpl in Hx; try discriminate Hx; inversion Hx; subst; tauto. }
    pose proof (Hpcs' me thm' Hgm') as Hpm'.
    destruct (tpc tht') as [ |o|o r0|o l r|o pn c index|o p c r|o leaf mode index|o pn c|o stk|o stk|o stk|leaf i n acc|leaf nxt n acc] eqn:Ept;
      simpl in Hr |- *; try exact I.
    + (* InsWantRootRight o l r *)
      destruct Hr as (Hfree & Hlink & Hroot & Hhr & Hnw).
      assert (Htm : tm s = Some t) by (apply HTt; reflexivity).
      assert (Htm' : tm s' = Some t) by (apply HTt'; reflexivity).
      assert (Hrid : nid (tr s') = nid (tr s)).
      { destruct (Nat.eq_dec (nid (tr s')) (nid (tr s))) as [E|E]; [exact E|]. exfalso.
        pose proof (root_frame_strong K V ltb order s s' me acq ev Hli2 Hstep E) as Hm. rewrite Htm in Hm. inversion Hm. auto. }
      assert (Hvroot : node_view (nid (tr s)) (tr s') = node_view (nid (tr s)) (tr s)).
      { destruct Hinv as (I1 & I2 & I3). eapply step_frame; eauto.
        - apply nid_in_ids.
        - intro X. apply In_held_by in X. eapply in_holder; eauto.
        - intro X. subst acq. specialize (Hnw me thm Hgm). unfold PCb2_Proof.wants in Hnw. rewrite Htg, Nat.eqb_refl in Hnw. discriminate. }
      pose proof (root_is_transfer (tr s) (tr s') l r Hrid Hvroot Hroot) as Hroot'.
      assert (Hl_in : In l (ids (tr s)) /\ In r (ids (tr s))).
      { destruct Hroot as (i & k1 & L & k2 & R & E & <- & <-). rewrite E, ids_node, !idsl_cons. simpl. rewrite !in_app_iff.
        split; right; [left | right; left]; apply nid_in_ids. }
      destruct Hl_in as [Hl_in Hr_in].
      assert (Hvl : node_view l (tr s') = node_view l (tr s)).
      { eapply held_view_stable; eauto. rewrite Ept. simpl. auto. }
      pose proof (Hrview t r Hne Hfree Hr_in) as Hvr.
      pose proof (link_transfer (tr s) (tr s') l r Hvr Hvl Hlink) as Hlink'.
      assert (Hhr' : holder (nid (tr s')) (lk s') = None).
      { rewrite Hrid. apply Hhold; [exact Hhr | apply (Hnw me thm Hgm)]. }
      assert (Hnw' : nobody_wants s' (nid (tr s'))).
      { intros u thu' Hg. destruct (Nat.eq_dec u me) as [->|Hu].
        - rewrite Hgm' in Hg. inversion Hg; subst thu'.
          destruct (wants s' (tpc thm') (nid (tr s'))) eqn:Hw; [exfalso|reflexivity].
          destruct (tgt_cases order s' me thm' _ Hli' Hgm' Hpm' Hw)
            as [[_ Hx]|[Hx|[(n & pi & cs1 & k & ch & Hn & Hfn & Hin & Hnch)|(leaf & i & es & Hl & Hfl)]]].
          + rewrite Htm' in Hx. inversion Hx. auto.
          + apply Hnewfresh in Hx. pose proof (Hin_lt _ (nid_in_ids K V (tr s))). lia.
          + eapply (child_not_root K V (tr s')); eauto.
          + destruct (next_is_leaf K V (tr s') leaf i _ es Hnd' Hch' Hfl) as [nx [es' Hx]]. rewrite find_self in Hx.
            destruct Hroot' as (? & ? & ? & ? & ? & E & _). rewrite E in Hx. discriminate Hx.
        - rewrite (Hother u Hu) in Hg. rewrite (Hwo u thu' _ Hu Hg), Hrid. apply (Hnw u thu' Hg). }
      split; [|split; [exact Hlink'|split; [exact Hroot'|split; [exact Hhr'|exact Hnw']]]].
      destruct Hfree as [F1 F2]. split; [apply Hhold; [exact F1 | apply (F2 me thm Hgm); auto]|].
      intros u thu' Hg Hut. destruct (Nat.eq_dec u me) as [->|Hu].
      * rewrite Hgm' in Hg. inversion Hg; subst thu'.
        destruct (wants s' (tpc thm') r) eqn:Hw; [exfalso|reflexivity].
        destruct (tgt_cases order s' me thm' _ Hli' Hgm' Hpm' Hw)
          as [[_ Hx]|[Hx|[(n & pi & cs1 & k & ch & Hn & Hfn & Hin & Hnch)|(leaf & i & es & Hl & Hfl)]]].
        -- rewrite Htm' in Hx. inversion Hx. auto.
        -- apply Hnewfresh in Hx. pose proof (Hin_lt _ Hr_in). lia.
        -- destruct Hroot' as (i' & k1 & L' & k2 & R' & E & EL & ER).
           assert (Hp : nid (tr s') = n).
           { eapply (unique_parent K V (tr s') (nid (tr s')) i' [(k1, L'); (k2, R')] k2 R' n pi cs1 k ch Hnd'); eauto.
             - rewrite find_self. rewrite E. reflexivity.
             - right. left. reflexivity.
             - congruence. }
           subst n. apply In_held_by in Hn. eapply in_holder; eauto.
        -- destruct (next_is_leaf K V (tr s') leaf i _ es Hnd' Hch' Hfl) as [nx [es' Hx]].
           destruct (Hlink' _ _ _ Hx) as [j [es'' Hc]].
           assert (E : leaf = l) by (eapply (pred_unique K V (tr s')); eauto). subst leaf.
           eapply (Hexcl l); [simpl; auto | exact Hl].
      * rewrite (Hother u Hu) in Hg. rewrite (Hwo u thu' _ Hu Hg). apply (F2 u thu'); auto.
    + (* InsWantSplitRight o p c r *)
      destruct Hr as (Hfree & Hlink).
      destruct (splitright_facts order (tr s) o p c r Hpt) as (pi & cs & rt & Hfp & Hfr & (kc & chc & Hinc & Hcc) & (kr & chr & Hinr & Hcr)).
      destruct (splitright_facts order (tr s') o p c r Hpt') as (pi' & cs' & rt' & Hfp' & Hfr' & _ & (kr' & chr' & Hinr' & Hcr')).
      assert (Hr_in : In r (ids (tr s))) by (eapply find_in_ids; eauto).
      assert (Hc_in : In c (ids (tr s))) by (subst c; eapply find_in_ids; eapply find_child; eauto).
      assert (Hvc : node_view c (tr s') = node_view c (tr s)).
      { eapply held_view_stable; eauto. rewrite Ept. simpl. auto. }
      pose proof (Hrview t r Hne Hfree Hr_in) as Hvr.
      pose proof (link_transfer (tr s) (tr s') c r Hvr Hvc Hlink) as Hlink'.
      split; [|exact Hlink'].
      destruct Hfree as [F1 F2]. split; [apply Hhold; [exact F1 | apply (F2 me thm Hgm); auto]|].
      intros u thu' Hg Hut. destruct (Nat.eq_dec u me) as [->|Hu].
      * rewrite Hgm' in Hg. inversion Hg; subst thu'.
        destruct (wants s' (tpc thm') r) eqn:Hw; [exfalso|reflexivity].
        destruct (tgt_cases order s' me thm' _ Hli' Hgm' Hpm' Hw)
          as [[Hx _]|[Hx|[(n & pi1 & cs1 & k & ch & Hn & Hfn & Hin & Hnch)|(leaf & i & es & Hl & Hfl)]]].
        -- eapply (child_not_root K V (tr s') p pi' cs' kr' chr'); eauto. congruence.
        -- apply Hnewfresh in Hx. pose proof (Hin_lt _ Hr_in). lia.
        -- assert (Hp : p = n).
           { eapply (unique_parent K V (tr s') p pi' cs' kr' chr' n pi1 cs1 k ch Hnd'); eauto. congruence. }
           subst n. eapply (Hexcl p); [simpl; auto | exact Hn].
        -- destruct (next_is_leaf K V (tr s') leaf i _ es Hnd' Hch' Hfl) as [nx [es' Hx]].
           destruct (Hlink' _ _ _ Hx) as [j [es'' Hc]].
           assert (E : leaf = c) by (eapply (pred_unique K V (tr s')); eauto). subst leaf.
           eapply (Hexcl c); [simpl; auto | exact Hl].
      * rewrite (Hother u Hu) in Hg. rewrite (Hwo u thu' _ Hu Hg). apply (F2 u thu'); auto.
Qed.

(* the invariant holds initially *)
Lemma rfi_init : forall progs, rfi (init_st (K:=K) (V:=V) progs).
Proof.
  intros progs t th Hg. unfold init_st in Hg. simpl in Hg. apply get_thread_init in Hg. rewrite Hg. exact I.
Qed.

End RF.

Section Final.
Variables (K V : Type) (ltb : K -> K -> bool).
Hypothesis HS : SWO ltb.
Notation st := (st K V).

Lemma ths_nodup (s : st) : lock_inv2 K V s -> NoDup (map fst (ths s)).
Proof. intros [(_ & H & _) _]. exact H. Qed.

(* the executable form *)
Theorem rfi_b_step : forall order (s s' : st) me acq ev,
  Nat.even order = true ->
  CIfull ltb order s -> all_inv K V s -> rfi_b K V s = true ->
  cstep ltb order s me = Stepped s' acq ev ->
  CIfull ltb order s' -> rfi_b K V s' = true.
Proof.
  intros order s s' me acq ev Hev HCI Hinv Hrf Hstep HCI'.
  pose proof (all_inv_step K V ltb order s s' me acq ev Hinv Hstep) as Hinv'.
  apply (proj2 (rfi_b_iff K V s' (ths_nodup s' (proj1 (proj2 Hinv'))))).
  apply (rfi_step K V ltb order s s' me acq ev Hev HCI Hinv); [|exact Hstep|exact HCI'].
  apply (proj1 (rfi_b_iff K V s (ths_nodup s (proj1 (proj2 Hinv))))). exact Hrf.
Qed.

Theorem rfi_b_init : forall progs, rfi_b K V (init_st (K:=K) (V:=V) progs) = true.
Proof.
  intros progs. unfold rfi_b, init_st. simpl. apply forallb_forall. intros e He.
  apply in_map_iff in He. destruct He as [p [<- _]]. reflexivity.
Qed.

(* STABILITY with the inductive invariant as hypothesis *)
Theorem other_pc_ok_step_rfi : forall order (s s' : st) me acq ev t th,
  Nat.even order = true -> 4 <= order ->
  CIfull ltb order s -> all_inv K V s -> rfi_b K V s = true ->
  cstep ltb order s me = Stepped s' acq ev ->
  t <> me -> get_thread t (ths s) = Some th ->
  pc_ok_b ltb order (tr s') (tpc th) = true.
Proof.
  intros order s s' me acq ev t th Hev H4 HCI Hinv Hrf Hstep Hne Hg.
  eapply (other_pc_ok_step K V ltb HS); eauto. apply rfi_right_free. exact Hrf.
Qed.

End Final.

Print Assumptions rfi_step.
Print Assumptions rfi_b_step.
Print Assumptions other_pc_ok_step_rfi.

(* STATUS: everything above is proved; no axioms, no open goals.

   [rfi_b s] (executable) records, for every thread t resting at
     InsWantSplitRight o p c r : nobody holds r, no thread other than t awaits r ([free_b]), and if r is a leaf then c
                                 is a leaf whose next link is r ([link_b]);
     InsWantRootRight o l r    : the same for (l, r), and the tree is the two-child root made by the root split with
                                 halves l and r ([root_is_b]), nobody holds the (new) root and nobody awaits it.
   [rfi s] is the same as a proposition ([rfi_b_iff], given distinct thread identities).

   Proved: rfi_right_free (rfi_b implies right_free_b), rfi_init / rfi_b_init,
           rfi_step / rfi_b_step : Nat.even order = true -> CIfull s -> all_inv s -> rfi s -> cstep s me = Stepped s' .. ->
                                   CIfull s' -> rfi s'
           other_pc_ok_step_rfi  : stability of the other threads' pcs under CIfull /\ all_inv /\ rfi_b.
   Reusable: cstep_lk_sub (a step adds only the granted lock to the lock table), new_right (a thread that starts
   awaiting a right half awaits the identity it has just allocated, and the shape of the tree around it),
   target_stable / held_view_stable (the lock a non-moving thread awaits does not change), tgt_cases (every awaited
   lock is the root, the thread's own fresh right half, a child of a held node, or the next leaf of a held leaf),
   pc_nodes_in_tree / wants_in_tree (held and awaited locks are nodes of the tree); PCb2_Tree.v: unique_parent,
   child_not_root, next_is_leaf, pred_unique.
   Validated executably (PCb2_Test.v): rfi_b holds in all > 7 million states visited (exhaustive interleavings of
   three configurations at order 4, random schedules at orders 4 and 6), > 670 000 of them with a thread awaiting a
   fresh right half. *)

"""Seeded generator of scheduled (concurrent) cases."""
import random
from . import gen


def gen_init(rng, U, n, allow_delete=True, ntags=1):
    ops = []
    for i in range(n):
        k = "%d.%d" % (rng.randrange(U), rng.randrange(ntags))
        if allow_delete and rng.random() < 0.25:
            ops.append("D %s" % k)
        else:
            ops.append("I %s %d" % (k, 1000 + i))
    return ops


def gen_prog(rng, U, nops, th, kinds, ntags=1, near=None):
    ops = []
    for j in range(nops):
        c = rng.randrange(U) if near is None or rng.random() < 0.3 else max(0, min(U - 1, near + rng.randint(-3, 3)))
        k = "%d.%d" % (c, rng.randrange(ntags))
        kind = rng.choice(kinds)
        if kind == "I":
            ops.append("I %s %d" % (k, th * 100 + j))
        elif kind == "U":
            ops.append("U %s %d" % (k, rng.randint(1, 9)))
        elif kind == "D":
            ops.append("D %s" % k)
        elif kind == "S":
            ops.append("S %s" % k)
        else:
            ops.append("C %s %d" % (k, rng.choice([0, 1, 2, 3, 5, 8, 30])))
    return ops


def gen_sched_cases(seed, ncases, types, orders=(4,), nsched=5, kinds="IIUDDDSCC", maxthreads=3, maxops=3, dump="steps"):
    rng = random.Random(seed * 104729 + 17)
    cases = []
    for i in range(ncases):
        typ = types[i % len(types)]
        order = orders[(i // len(types)) % len(orders)]
        ntags = 3 if typ == "comparable" else 1
        U = rng.randint(6, 48) if order <= 8 else rng.randint(order, order * 4)
        allow_delete = order != 2
        ks = kinds if allow_delete else kinds.replace("D", "")
        init = gen_init(rng, U, rng.randint(0, min(3 * U, 60)), allow_delete, ntags)
        nth = rng.randint(2, maxthreads)
        near = rng.randrange(U) if rng.random() < 0.6 else None
        progs = {th: gen_prog(rng, U, rng.randint(1, maxops), th, list(ks), ntags, near) for th in range(1, nth + 1)}
        if allow_delete and order == 4 and "D" in ks and rng.random() < 0.3:
            # deep tree (height 3) and deletes of neighbouring keys: internal nodes underflow, borrow and merge
            U = rng.randint(36, 64)
            init = ["I %d.0 %d" % (c, 1000 + c) for c in range(U)]
            if rng.random() < 0.5:
                init += ["D %d.0" % c for c in rng.sample(range(U), U // 4)]
            base = rng.randrange(U)
            progs = {1: ["D %d.0" % ((base + j) % U) for j in range(rng.randint(2, 4))]}
            for th in range(2, nth + 1):
                progs[th] = gen_prog(rng, U, rng.randint(1, maxops), th, list(ks), ntags, base)
        cases.append(dict(id="c%d" % i, type=typ, order=order, keys=gen.key_table(rng, typ, U), init=init, progs=progs,
                          sched=["rand %d %d %d" % (rng.randrange(10**9), nsched, 400),
                                 # PCT: few, randomly placed preemptions on long stretches (depth 2 or 3)
                                 "pct %d %d %d %d" % (rng.randrange(10**9), nsched, rng.choice([2, 2, 3]), 80)], dump=dump))
    return cases


def write_cases(cases, path):
    with open(path, "w") as f:
        for c in cases:
            f.write("CASE %s type=%s order=%d dump=%s\n" % (c["id"], c["type"], c["order"], c.get("dump", "steps")))
            f.write("KEYS %s\n" % " ".join(c["keys"]))
            f.write("INIT %s\n" % ";".join(c["init"]))
            for th in sorted(c["progs"]):
                f.write("PROG %d %s\n" % (th, ";".join(c["progs"][th])))
            for s in c["sched"]:
                f.write("SCHED %s\n" % s)

(* GIa1_Blocks.v — the tree-changing atomic blocks of Insert/Update preserve the shape part of GI. *)
From Coq Require Import List Bool Lia PeanoNat Permutation Sorted.
From GB Require Import Model Spec Inv ListLemmas SearchProof TreeLemmas UpsertProof Conc GI LockInv LockProof CInv
  EraseLemmas EraseOps SoloInsert GIa1_Ctx GIa1_Local.
From GB Require FrameRel.
Import ListNotations.

Ltac crunch H :=
  repeat (match type of H with
  | bind ?e _ = Ok _ => let E := fresh "E" in destruct e eqn:E; [cbn [bind] in H | discriminate H]
  | (let '(_, _) := ?p in _) = Ok _ => destruct p
  | (if ?c then _ else _) = Ok _ => let E := fresh "E" in destruct c eqn:E
  | match ?e with _ => _ end = Ok _ => let E := fresh "E" in destruct e eqn:E; try discriminate H
  end).

Section Blocks.
Variables (K V : Type) (ltb : K -> K -> bool).
Hypothesis HS : SWO ltb.
Notation itree := (itree K V).
Notation tree := (tree K V).
Notation cframe := (cframe K V).
Notation out := (out K V).
Notation cop := (cop K V).
Notation SS := (StronglySorted (fun a b => ltb a b = true)).
Notation asc_SS := (asc_SS K ltb HS).
Notation rng := (rng ltb).
Notation sub_ok := (sub_ok ltb).
Notation tshape := (tshape ltb).
Notation shape := (shape ltb).

(* ------------------------------------------------------------------------------------------------ *)
(* a leaf rewritten in place                                                                          *)
(* ------------------------------------------------------------------------------------------------ *)
Lemma leaf_write_ctx order (C : list cframe) i nx es es' :
  shape order (plug C (ILeaf i nx es)) ->
  (forall d, sub_ok order (cbounds C) d (Leaf es) -> sub_ok order (cbounds C) d (Leaf es')) ->
  shape order (plug C (ILeaf i nx es')).
Proof.
  intros Hsh Hw. destruct (shape_ctx K V ltb HS order C _ Hsh) as (d & Hok & Hrep).
  apply Hrep; [apply Hw; exact Hok|apply links_equiv_refl].
Qed.

Lemma leaf_sorted order b d (es : list (K * V)) : sub_ok order b d (Leaf es) -> SS (map fst es).
Proof. intros (Ho & _). apply asc_SS. exact Ho. Qed.

Lemma leaf_put_ctx order (C : list cframe) i nx es k f :
  shape order (plug C (ILeaf i nx es)) -> rng (cbounds C) k -> length es < order ->
  shape order (plug C (ILeaf i nx (put ltb k f es))).
Proof.
  intros Hsh Hk Hl.
  apply (leaf_write_ctx order C i nx es); [exact Hsh|]. intros d Hok. apply (leaf_put_ok K V ltb HS); auto.
Qed.

Lemma leaf_sorted_ctx order (C : list cframe) i nx es :
  shape order (plug C (ILeaf i nx es)) -> SS (map fst es).
Proof.
  intros Hsh. destruct (shape_ctx K V ltb HS order C _ Hsh) as (d & Hok & _). eapply leaf_sorted; exact Hok.
Qed.

Lemma leaf_keys_ctx order (C : list cframe) i nx es es' :
  shape order (plug C (ILeaf i nx es)) -> map fst es' = map fst es ->
  shape order (plug C (ILeaf i nx es')).
Proof.
  intros Hsh E. apply (leaf_write_ctx order C i nx es); [exact Hsh|]. intros d Hok.
  apply (leaf_keys_ok K V ltb order _ d es es' E Hok).
Qed.

(* ------------------------------------------------------------------------------------------------ *)
(* ins_descend                                                                                        *)
(* ------------------------------------------------------------------------------------------------ *)
Ltac upd_case Hupd Hss Hput Hsh H :=
  unfold mk in H; crunch H; try (inversion H; subst; clear H; cbn [otr]; exact Hsh);
  match goal with
  | E : last _ None = Some ?lk, E0 : ltb ?lk ?k = false, E1 : search_ge _ ?k _ = Ok ?a,
    E2 : get_nth ?a ?es = Ok (?k1, ?v), E3 : eqvb _ ?k ?k1 = false, E4 : upd _ _ _ = Ok ?t' |- _ =>
    rewrite Hupd in E4; inversion E4; subst; clear E4; inversion H; subst; clear H; cbn [otr];
    rewrite (ins_nth_is_put K V ltb HS es k lk a k1 v Hss E E0 E1 E2 E3); apply Hput
  end.

Lemma ins_descend_ctx order (o : cop) (C : list cframe) (nd : itree) l fr tmx (out : out) fr0 :
  shape order (plug C nd) -> wfc C nd fr0 -> icount nd < order -> rng (cbounds C) (key_of o) ->
  ins_descend ltb o (nid nd) (plug C nd) l fr tmx = Ok out ->
  shape order (otr out).
Proof.
  intros Hsh Hw Hcnt Hk H. unfold ins_descend in H. rewrite (find_plug_self K V C nd fr0 Hw) in H.
  destruct nd as [i nx es|pi cs].
  - cbn [icount nid] in *.
    pose proof (fun f => leaf_put_ctx order C i nx es (key_of o) f Hsh Hk Hcnt) as Hput.
    pose proof (leaf_sorted_ctx order C i nx es Hsh) as Hss.
    assert (Hupd : forall new, upd i (fun _ => Ok new) (plug C (ILeaf i nx es)) = Ok (plug C new)).
    { intros new. apply (upd_plug_self K V C (ILeaf i nx es) fr0 new Hw). }
    destruct o as [k v|k f|k|k|k n]; cbn [key_of] in *.
    + (* Insert *)
      rewrite (leaf_upsert_spec K V ltb HS k (fun _ => v) es Hss) in H. cbn [bind] in H.
      rewrite Hupd in H. cbn [bind] in H. unfold mk in H. inversion H; subst; clear H. cbn [otr]. apply Hput.
    + upd_case Hupd Hss Hput Hsh H.
    + upd_case Hupd Hss Hput Hsh H.
    + upd_case Hupd Hss Hput Hsh H.
    + upd_case Hupd Hss Hput Hsh H.
  - unfold mk in H. crunch H. inversion H; subst; clear H. cbn [otr]. exact Hsh.
Qed.

Lemma ins_descend_range order (o : cop) n (t nd : itree) l fr tmx (out : out) fr0 :
  shape order t -> NoDup (ids t) -> Forall (fun i => i < fr0) (ids t) ->
  Conc.find n t = Some nd -> icount nd < order -> in_range ltb (key_of o) n t = true ->
  ins_descend ltb o n t l fr tmx = Ok out -> shape order (otr out).
Proof.
  intros Hsh Hnd Hlt Hf Hc Hr H.
  destruct (find_in_range K V ltb n t nd fr0 (key_of o) Hnd Hlt Hf Hr) as (C & -> & Hw & <- & Hk).
  eapply ins_descend_ctx; eauto.
Qed.

(* ------------------------------------------------------------------------------------------------ *)
(* InsWantChild                                                                                       *)
(* ------------------------------------------------------------------------------------------------ *)
Definition ins_child_blk (order : nat) (o : cop) (p c : id) (index : nat) (t : itree) l0 fr tm0 : res out :=
  let key := key_of o in
  match Conc.find p t, Conc.find c t with
  | Some (INode pi cs), Some child =>
    '(sep, _) <- get_nth index cs ;;
    sep' <- (if index =? 0 then sm <- ismallest child ;; Ok (if ltb key sm then key else sep) else Ok sep) ;;
    match isplit order fr child with
    | None =>
      t' <- upd p (fun _ => Ok (INode pi (set_nth index (sep', child) cs))) t ;;
      ins_descend ltb o c t' (unlock p l0) fr tm0
    | Some (lft, rgt) =>
      rs <- ismallest rgt ;;
      t' <- upd p (fun _ => Ok (INode pi (ins_nth (index + 1) (rs, rgt) (set_nth index (sep', lft) cs)))) t ;;
      if ltb key rs then ins_descend ltb o c t' (unlock p l0) (S fr) tm0
      else mk t' l0 (S fr) tm0 (InsWantSplitRight o p c fr) []
    end
  | _, _ => Panic PIndex end.

Lemma app_cons_inj {A} (a a' : list A) x x' b b' :
  a ++ x :: b = a' ++ x' :: b' -> length a = length a' -> a = a' /\ x = x' /\ b = b'.
Proof.
  revert a'. induction a as [|y a IH]; intros [|y' a'] E L; simpl in *; try discriminate.
  - inversion E; auto.
  - inversion E; subst. destruct (IH a' H1) as (-> & -> & ->); [lia|]. auto.
Qed.

Lemma ins_child_shape order (o : cop) p c index (t : itree) l0 fr tm0 (out : out) :
  2 <= order -> Nat.even order = true ->
  shape order t -> NoDup (ids t) -> Forall (fun i => i < fr) (ids t) ->
  pc_ok_b ltb order t (InsWantChild o p c index) = true ->
  ins_child_blk order o p c index t l0 fr tm0 = Ok out -> shape order (otr out).
Proof.
  intros H2 Hev Hsh Hnd Hlt Hpc H. unfold ins_child_blk in H. cbn [pc_ok_b] in Hpc.
  destruct (Conc.find p t) as [[?|pi cs]|] eqn:Hfp; try discriminate Hpc.
  apply andb_true_iff in Hpc. destruct Hpc as [Hpc Hrange].
  apply andb_true_iff in Hpc. destruct Hpc as [Hpc Hnth].
  apply andb_true_iff in Hpc. destruct Hpc as [Hlen Hsearch].
  apply Nat.ltb_lt in Hlen.
  destruct (search_le ltb (key_of o) (map fst cs)) as [ix|] eqn:Hse; [|discriminate Hsearch].
  simpl in Hsearch. apply Nat.eqb_eq in Hsearch. subst ix.
  destruct (nth_error cs index) as [[s0 ch]|] eqn:Hn; [|discriminate Hnth]. apply Nat.eqb_eq in Hnth.
  destruct (nth_error_split cs index Hn) as (pre & post & -> & Hlpre).
  assert (Hfc : Conc.find c t = Some ch).
  { subst c. eapply FrameRel.find_child; eauto. apply in_or_app; right; left; reflexivity. }
  rewrite Hfc in H.
  destruct (find_in_range K V ltb p t _ fr (key_of o) Hnd Hlt Hfp Hrange) as (C & -> & Hw & Hp & Hk).
  cbn [nid] in Hp. subst pi.
  rewrite <- Hlpre in H. rewrite get_nth_app in H. cbn [bind] in H.
  match type of H with bind ?X _ = _ => destruct X as [sep'|] eqn:Esep; [|discriminate H] end. cbn [bind] in H.
  assert (Esep' : new_sep ltb (key_of o) (length (erase_cs pre)) s0 (smallest (erase_ids ch)) = Ok sep').
  { unfold new_sep. rewrite erase_cs_length, ismallest_erase. exact Esep. }
  assert (Hupd : forall cs2, upd p (fun _ => Ok (INode p cs2)) (plug C (INode p (pre ++ (s0, ch) :: post)))
                             = Ok (plug C (INode p cs2))).
  { intros cs2. apply (upd_plug_self K V C _ fr _ Hw). }
  destruct (shape_ctx K V ltb HS order C _ Hsh) as (d0 & Hok & Hrep).
  rewrite erase_node, erase_cs_app, erase_cs_cons in Hok.
  destruct (frame_down K V ltb HS order _ d0 _ _ _ _ Hok) as (d & -> & Hokc & _).
  assert (Ha : asc ltb (map fst (erase_cs pre ++ (s0, erase_ids ch) :: erase_cs post))) by apply Hok.
  assert (Hne : erase_cs pre ++ (s0, erase_ids ch) :: erase_cs post <> []) by (destruct (erase_cs pre); discriminate).
  destruct (search_le_split K ltb HS (key_of o) _ Ha Hne)
    as (ix & pre' & s' & c' & post' & Hs' & Hsplit & Hl' & _ & Hpost' & Hidx').
  rewrite <- erase_cs_cons, <- erase_cs_app, erase_cs_fst, Hse in Hs'. inversion Hs'; subst ix; clear Hs'.
  destruct (app_cons_inj _ _ _ _ _ _ Hsplit) as (<- & E1 & <-); [rewrite erase_cs_length; lia|].
  inversion E1; subst s' c'; clear E1 Hsplit.
  assert (Hidx : 0 < length (erase_cs pre) -> ltb (key_of o) s0 = false).
  { rewrite erase_cs_length. intros Hpos. apply Hidx'. lia. }
  assert (Hcapc : icap order ch) by apply Hokc.
  destruct (isplit order fr ch) as [[lft rgt]|] eqn:Hisp.
  - (* split *)
    destruct (maybe_split order (erase_ids ch)) as [[el er]|] eqn:Esp;
      [|rewrite (isplit_none K V order fr ch Esp) in Hisp; discriminate Hisp].
    destruct (isplit_some K V order fr ch el er Hev Hcapc Esp)
      as (lft' & rgt' & Hisp' & Hel & Her & Hnl & Hnr & Hperm & Hlk & Hcl & Hcr).
    rewrite Hisp in Hisp'. inversion Hisp'; subst lft' rgt'; clear Hisp'. subst el er.
    destruct (ismallest rgt) as [rs|] eqn:Ers; [|discriminate H]. cbn [bind] in H.
    rewrite set_nth_app, ins_nth_app1, Hupd in H. cbn [bind] in H.
    assert (Ers' : smallest (erase_ids rgt) = Ok rs) by (rewrite ismallest_erase; exact Ers).
    assert (Hlen' : length (erase_cs pre ++ (s0, erase_ids ch) :: erase_cs post) < order).
    { rewrite <- erase_cs_cons, <- erase_cs_app, erase_cs_length. exact Hlen. }
    destruct (child_split K V ltb HS order _ d _ _ _ _ _ Hok Hk Hidx Hpost' sep' Esep' _ _ rs H2 Hev Hlen' Esp Ers')
      as (Hok2 & Hcl2 & Hcr2 & Hrng).
    set (N2 := INode p (pre ++ (sep', lft) :: (rs, rgt) :: post)) in *.
    assert (HwN : wfc C N2 (S fr)).
    { eapply (wfc_replace K V C _ N2 fr (S fr) [fr]); [exact Hw| |repeat constructor; simpl; tauto| |lia].
      - unfold N2. rewrite !ids_node, !ids_list_app, !ids_list_cons.
        generalize (ids_list pre) (ids_list post) (ids lft) (ids rgt) (ids ch) Hperm.
        intros a b d1 d2 d3 Hp. perm_lia.
      - repeat constructor; lia. }
    assert (Hsh2 : shape order (plug C N2)).
    { apply Hrep.
      - unfold N2. rewrite erase_node, erase_cs_app, !erase_cs_cons. exact Hok2.
      - unfold N2. rewrite !links_node, !links_list_app, !links_list_cons.
        rewrite (app_assoc (leaf_links lft)). apply links_equiv_ctx. exact Hlk. }
    destruct (ltb (key_of o) rs) eqn:Elt.
    + assert (Hwl : wfc (mkcf p pre sep' ((rs, rgt) :: post) :: C) lft (S fr)) by (apply wfc_node; exact HwN).
      rewrite <- Hnth, <- Hnl in H.
      eapply (ins_descend_ctx order o (mkcf p pre sep' ((rs, rgt) :: post) :: C) lft); [| exact Hwl | | | exact H].
      * rewrite plug_mkcf. exact Hsh2.
      * rewrite <- EraseOps.icount_erase. exact Hcl2.
      * cbn [cbounds csep cpost mkcf hi_of]. exact Hrng.
    + unfold mk in H. inversion H; subst; clear H. cbn [otr]. exact Hsh2.
  - (* no split *)
    rewrite set_nth_app, Hupd in H. cbn [bind] in H.
    destruct (child_nosplit K V ltb HS order _ d _ _ _ _ _ Hok Hk Hidx Hpost' sep' Esep') as (Hok2 & Hrng).
    assert (Hsh2 : shape order (plug C (INode p (pre ++ (sep', ch) :: post)))).
    { apply Hrep.
      - rewrite erase_node, erase_cs_app, !erase_cs_cons. exact Hok2.
      - rewrite !links_node, !links_list_app, !links_list_cons. apply links_equiv_refl. }
    assert (Hwc : wfc (mkcf p pre sep' post :: C) ch fr).
    { apply wfc_node. eapply wfc_same; [exact Hw|]. apply ids_sep_irrel. }
    rewrite <- Hnth in H.
    eapply (ins_descend_ctx order o (mkcf p pre sep' post :: C) ch); [| exact Hwc | | | exact H].
    + rewrite plug_mkcf. exact Hsh2.
    + unfold isplit in Hisp. destruct (icount ch <? order) eqn:E; [apply Nat.ltb_lt in E; exact E|].
      destruct ch; discriminate Hisp.
    + cbn [cbounds csep cpost mkcf]. rewrite <- (hi_of_erase K V). exact Hrng.
Qed.

(* F6: the block and its lemma for the NEW separator choice (first separator only ever lowered: sep' is
   key if index = 0 and key < sep, else sep).  ins_child_blk2 is convertible with the InsWantChild case of blk. *)
Definition ins_child_blk2 (order : nat) (o : cop) (p c : id) (index : nat) (t : itree) l0 fr tm0 : res out :=
  let key := key_of o in
  match Conc.find p t, Conc.find c t with
  | Some (INode pi cs), Some child =>
    '(sep, _) <- get_nth index cs ;;
    sep' <- Ok (if index =? 0 then (if ltb key sep then key else sep) else sep) ;;
    match isplit order fr child with
    | None =>
      t' <- upd p (fun _ => Ok (INode pi (set_nth index (sep', child) cs))) t ;;
      ins_descend ltb o c t' (unlock p l0) fr tm0
    | Some (lft, rgt) =>
      rs <- ismallest rgt ;;
      t' <- upd p (fun _ => Ok (INode pi (ins_nth (index + 1) (rs, rgt) (set_nth index (sep', lft) cs)))) t ;;
      if ltb key rs then ins_descend ltb o c t' (unlock p l0) (S fr) tm0
      else mk t' l0 (S fr) tm0 (InsWantSplitRight o p c fr) []
    end
  | _, _ => Panic PIndex end.


Lemma ins_child_shape2 order (o : cop) p c index (t : itree) l0 fr tm0 (out : out) :
  2 <= order -> Nat.even order = true ->
  shape order t -> NoDup (ids t) -> Forall (fun i => i < fr) (ids t) ->
  pc_ok_b ltb order t (InsWantChild o p c index) = true ->
  ins_child_blk2 order o p c index t l0 fr tm0 = Ok out -> shape order (otr out).
Proof.
  intros H2 Hev Hsh Hnd Hlt Hpc H. unfold ins_child_blk2 in H. cbn [pc_ok_b] in Hpc.
  destruct (Conc.find p t) as [[?|pi cs]|] eqn:Hfp; try discriminate Hpc.
  apply andb_true_iff in Hpc. destruct Hpc as [Hpc Hrange].
  apply andb_true_iff in Hpc. destruct Hpc as [Hpc Hnth].
  apply andb_true_iff in Hpc. destruct Hpc as [Hlen Hsearch].
  apply Nat.ltb_lt in Hlen.
  destruct (search_le ltb (key_of o) (map fst cs)) as [ix|] eqn:Hse; [|discriminate Hsearch].
  simpl in Hsearch. apply Nat.eqb_eq in Hsearch. subst ix.
  destruct (nth_error cs index) as [[s0 ch]|] eqn:Hn; [|discriminate Hnth]. apply Nat.eqb_eq in Hnth.
  destruct (nth_error_split cs index Hn) as (pre & post & -> & Hlpre).
  assert (Hfc : Conc.find c t = Some ch).
  { subst c. eapply FrameRel.find_child; eauto. apply in_or_app; right; left; reflexivity. }
  rewrite Hfc in H.
  destruct (find_in_range K V ltb p t _ fr (key_of o) Hnd Hlt Hfp Hrange) as (C & -> & Hw & Hp & Hk).
  cbn [nid] in Hp. subst pi.
  rewrite <- Hlpre in H. rewrite get_nth_app in H. cbn [bind] in H.
  cbn [bind] in H.
  set (sep' := if length pre =? 0 then (if ltb (key_of o) s0 then key_of o else s0) else s0) in *.
  assert (Esep' : new_sep2 ltb (key_of o) (length (erase_cs pre)) s0 = sep').
  { unfold new_sep2. rewrite erase_cs_length. reflexivity. }
  assert (Hupd : forall cs2, upd p (fun _ => Ok (INode p cs2)) (plug C (INode p (pre ++ (s0, ch) :: post)))
                             = Ok (plug C (INode p cs2))).
  { intros cs2. apply (upd_plug_self K V C _ fr _ Hw). }
  destruct (shape_ctx K V ltb HS order C _ Hsh) as (d0 & Hok & Hrep).
  rewrite erase_node, erase_cs_app, erase_cs_cons in Hok.
  destruct (frame_down K V ltb HS order _ d0 _ _ _ _ Hok) as (d & -> & Hokc & _).
  assert (Ha : asc ltb (map fst (erase_cs pre ++ (s0, erase_ids ch) :: erase_cs post))) by apply Hok.
  assert (Hne : erase_cs pre ++ (s0, erase_ids ch) :: erase_cs post <> []) by (destruct (erase_cs pre); discriminate).
  destruct (search_le_split K ltb HS (key_of o) _ Ha Hne)
    as (ix & pre' & s' & c' & post' & Hs' & Hsplit & Hl' & _ & Hpost' & Hidx').
  rewrite <- erase_cs_cons, <- erase_cs_app, erase_cs_fst, Hse in Hs'. inversion Hs'; subst ix; clear Hs'.
  destruct (app_cons_inj _ _ _ _ _ _ Hsplit) as (<- & E1 & <-); [rewrite erase_cs_length; lia|].
  inversion E1; subst s' c'; clear E1 Hsplit.
  assert (Hidx : 0 < length (erase_cs pre) -> ltb (key_of o) s0 = false).
  { rewrite erase_cs_length. intros Hpos. apply Hidx'. lia. }
  assert (Hcapc : icap order ch) by apply Hokc.
  destruct (isplit order fr ch) as [[lft rgt]|] eqn:Hisp.
  - (* split *)
    destruct (maybe_split order (erase_ids ch)) as [[el er]|] eqn:Esp;
      [|rewrite (isplit_none K V order fr ch Esp) in Hisp; discriminate Hisp].
    destruct (isplit_some K V order fr ch el er Hev Hcapc Esp)
      as (lft' & rgt' & Hisp' & Hel & Her & Hnl & Hnr & Hperm & Hlk & Hcl & Hcr).
    rewrite Hisp in Hisp'. inversion Hisp'; subst lft' rgt'; clear Hisp'. subst el er.
    destruct (ismallest rgt) as [rs|] eqn:Ers; [|discriminate H]. cbn [bind] in H.
    rewrite set_nth_app, ins_nth_app1, Hupd in H. cbn [bind] in H.
    assert (Ers' : smallest (erase_ids rgt) = Ok rs) by (rewrite ismallest_erase; exact Ers).
    assert (Hlen' : length (erase_cs pre ++ (s0, erase_ids ch) :: erase_cs post) < order).
    { rewrite <- erase_cs_cons, <- erase_cs_app, erase_cs_length. exact Hlen. }
    destruct (child_split2 K V ltb HS order _ d _ _ _ _ _ Hok Hk Hidx Hpost' sep' Esep' _ _ rs H2 Hev Hlen' Esp Ers')
      as (Hok2 & Hcl2 & Hcr2 & Hrng).
    set (N2 := INode p (pre ++ (sep', lft) :: (rs, rgt) :: post)) in *.
    assert (HwN : wfc C N2 (S fr)).
    { eapply (wfc_replace K V C _ N2 fr (S fr) [fr]); [exact Hw| |repeat constructor; simpl; tauto| |lia].
      - unfold N2. rewrite !ids_node, !ids_list_app, !ids_list_cons.
        generalize (ids_list pre) (ids_list post) (ids lft) (ids rgt) (ids ch) Hperm.
        intros a b d1 d2 d3 Hp. perm_lia.
      - repeat constructor; lia. }
    assert (Hsh2 : shape order (plug C N2)).
    { apply Hrep.
      - unfold N2. rewrite erase_node, erase_cs_app, !erase_cs_cons. exact Hok2.
      - unfold N2. rewrite !links_node, !links_list_app, !links_list_cons.
        rewrite (app_assoc (leaf_links lft)). apply links_equiv_ctx. exact Hlk. }
    destruct (ltb (key_of o) rs) eqn:Elt.
    + assert (Hwl : wfc (mkcf p pre sep' ((rs, rgt) :: post) :: C) lft (S fr)) by (apply wfc_node; exact HwN).
      rewrite <- Hnth, <- Hnl in H.
      eapply (ins_descend_ctx order o (mkcf p pre sep' ((rs, rgt) :: post) :: C) lft); [| exact Hwl | | | exact H].
      * rewrite plug_mkcf. exact Hsh2.
      * rewrite <- EraseOps.icount_erase. exact Hcl2.
      * cbn [cbounds csep cpost mkcf hi_of]. exact Hrng.
    + unfold mk in H. inversion H; subst; clear H. cbn [otr]. exact Hsh2.
  - (* no split *)
    rewrite set_nth_app, Hupd in H. cbn [bind] in H.
    destruct (child_nosplit2 K V ltb HS order _ d _ _ _ _ _ Hok Hk Hidx Hpost' sep' Esep') as (Hok2 & Hrng).
    assert (Hsh2 : shape order (plug C (INode p (pre ++ (sep', ch) :: post)))).
    { apply Hrep.
      - rewrite erase_node, erase_cs_app, !erase_cs_cons. exact Hok2.
      - rewrite !links_node, !links_list_app, !links_list_cons. apply links_equiv_refl. }
    assert (Hwc : wfc (mkcf p pre sep' post :: C) ch fr).
    { apply wfc_node. eapply wfc_same; [exact Hw|]. apply ids_sep_irrel. }
    rewrite <- Hnth in H.
    eapply (ins_descend_ctx order o (mkcf p pre sep' post :: C) ch); [| exact Hwc | | | exact H].
    + rewrite plug_mkcf. exact Hsh2.
    + unfold isplit in Hisp. destruct (icount ch <? order) eqn:E; [apply Nat.ltb_lt in E; exact E|].
      destruct ch; discriminate Hisp.
    + cbn [cbounds csep cpost mkcf]. rewrite <- (hi_of_erase K V). exact Hrng.
Qed.

(* ------------------------------------------------------------------------------------------------ *)
(* WantRoot (Insert / Update)                                                                         *)
(* ------------------------------------------------------------------------------------------------ *)
Definition root_blk (order : nat) (o : cop) (r : id) (t : itree) l0 fr (tm0 : option tid) : res out :=
  let key := key_of o in
  match isplit order fr t with
  | None => ins_descend ltb o r t l0 fr None
  | Some (lft, rgt) =>
    ls <- ismallest lft ;; rs <- ismallest rgt ;;
    let ls' := if ltb key ls then key else ls in
    let t' := INode (S fr) [(ls', lft); (rs, rgt)] in
    if ltb key rs then ins_descend ltb o r t' l0 (S (S fr)) None
    else mk t' l0 (S (S fr)) tm0 (InsWantRootRight o r fr) []
  end.

Lemma root_shape order (o : cop) r (t : itree) l0 fr tm0 (out : out) :
  2 <= order -> Nat.even order = true ->
  shape order t -> NoDup (ids t) -> Forall (fun i => i < fr) (ids t) -> r = nid t ->
  root_blk order o r t l0 fr tm0 = Ok out -> shape order (otr out).
Proof.
  intros H2 Hev Hsh Hnd Hlt Hr H. unfold root_blk in H. subst r.
  assert (Hw : wfc [] t fr) by (apply wfc_nil; auto).
  destruct (isplit order fr t) as [[lft rgt]|] eqn:Hisp.
  - destruct Hsh as [Hts Hch].
    assert (Hcap : icap order t) by apply Hts.
    destruct (maybe_split order (erase_ids t)) as [[el er]|] eqn:Esp;
      [|rewrite (isplit_none K V order fr t Esp) in Hisp; discriminate Hisp].
    destruct (isplit_some K V order fr t el er Hev Hcap Esp)
      as (lft' & rgt' & Hisp' & Hel & Her & Hnl & Hnr & Hperm & Hlk & Hcl & Hcr).
    rewrite Hisp in Hisp'. inversion Hisp'; subst lft' rgt'; clear Hisp'. subst el er.
    destruct (ismallest lft) as [ls|] eqn:Els; [|discriminate H]. cbn [bind] in H.
    destruct (ismallest rgt) as [rs|] eqn:Ers; [|discriminate H]. cbn [bind] in H.
    assert (Els' : smallest (erase_ids lft) = Ok ls) by (rewrite ismallest_erase; exact Els).
    assert (Ers' : smallest (erase_ids rgt) = Ok rs) by (rewrite ismallest_erase; exact Ers).
    destruct (root_split_ok K V ltb HS order _ _ _ (key_of o) ls rs H2 Hev Hts Esp Els' Ers')
      as (Hts2 & Hcl2 & Hcr2 & Hrng).
    set (ls' := if ltb (key_of o) ls then key_of o else ls) in *.
    set (t' := INode (S fr) [(ls', lft); (rs, rgt)]) in *.
    assert (Hsh2 : shape order t').
    { split; [exact Hts2|]. unfold t'. rewrite links_node, !links_list_cons. cbn [links_list flat_map].
      specialize (Hlk [] []). cbn [app] in Hlk. rewrite !app_nil_r in Hlk. rewrite app_nil_r. auto. }
    destruct (ltb (key_of o) rs) eqn:Elt.
    + assert (Hw2 : wfc [] t' (S (S fr))).
      { eapply (wfc_replace K V [] t t' fr (S (S fr)) [fr; S fr]); [exact Hw| | | |lia].
        - unfold t'. rewrite ids_node, !ids_list_cons. cbn [ids_list flat_map]. rewrite app_nil_r.
          generalize (ids lft) (ids rgt) (ids t) Hperm. intros d1 d2 d3 Hp. perm_lia.
        - constructor; [simpl; intros [E|[]]; lia|]. repeat constructor. simpl. tauto.
        - repeat constructor; lia. }
      assert (Hwl : wfc [mkcf (S fr) [] ls' [(rs, rgt)]] lft (S (S fr))) by (apply wfc_node; exact Hw2).
      rewrite <- Hnl in H.
      eapply (ins_descend_ctx order o [mkcf (S fr) [] ls' [(rs, rgt)]] lft); [| exact Hwl | | | exact H].
      * exact Hsh2.
      * rewrite <- EraseOps.icount_erase. exact Hcl2.
      * cbn [cbounds csep cpost mkcf hi_of]. exact Hrng.
    + unfold mk in H. inversion H; subst; clear H. cbn [otr]. exact Hsh2.
  - eapply (ins_descend_ctx order o [] t); [exact Hsh|exact Hw| | |exact H].
    + unfold isplit in Hisp. destruct (icount t <? order) eqn:E; [apply Nat.ltb_lt in E; exact E|].
      destruct t; discriminate Hisp.
    + apply rng_top.
Qed.

(* ------------------------------------------------------------------------------------------------ *)
(* UpdCallback                                                                                        *)
(* ------------------------------------------------------------------------------------------------ *)
Definition upd_cb_blk (o : cop) (leaf : id) (mode index : nat) (t : itree) l0 fr (tm0 : option tid) : res out :=
  match o, Conc.find leaf t with
  | CUpdate k f, Some (ILeaf i nx es) =>
    match mode with
    | 0 => t' <- upd leaf (fun _ => Ok (ILeaf i nx (es ++ [(k, f None)]))) t ;;
           mk t' (unlock leaf l0) fr tm0 Idle [EReturn (RArg K None)]
    | 1 => '(k', v') <- get_nth index es ;;
           t' <- upd leaf (fun _ => Ok (ILeaf i nx (set_nth index (k', f (Some v')) es))) t ;;
           mk t' (unlock leaf l0) fr tm0 Idle [EReturn (RArg K (Some v'))]
    | _ => '(k', _) <- get_nth index es ;;
           t' <- upd leaf (fun _ => Ok (ILeaf i nx (set_nth index (k', f None) es))) t ;;
           mk t' (unlock leaf l0) fr tm0 Idle [EReturn (RArg K None)]
    end
  | _, _ => Panic PIndex end.

Lemma get_nth_some {A} (l : list A) i a : get_nth i l = Ok a -> nth_error l i = Some a.
Proof. unfold get_nth. destruct (nth_error l i); [intros H; inversion H; reflexivity|discriminate]. Qed.

Lemma upd_cb_shape order (o : cop) leaf mode index (t : itree) l0 fr tm0 (out : out) :
  shape order t -> NoDup (ids t) -> Forall (fun i => i < fr) (ids t) ->
  pc_ok_b ltb order t (UpdCallback o leaf mode index) = true ->
  upd_cb_blk o leaf mode index t l0 fr tm0 = Ok out -> shape order (otr out).
Proof.
  intros Hsh Hnd Hlt Hpc H. unfold upd_cb_blk in H. cbn [pc_ok_b] in Hpc.
  destruct o as [k v|k f|k|k|k n]; try discriminate H.
  destruct (Conc.find leaf t) as [[i nx es|]|] eqn:Hf; try discriminate Hpc.
  apply andb_true_iff in Hpc. destruct Hpc as [Hrange Hmode]. cbn [key_of] in *.
  destruct (find_in_range K V ltb leaf t _ fr k Hnd Hlt Hf Hrange) as (C & -> & Hw & Hp & Hk).
  cbn [nid] in Hp. subst i.
  assert (Hupd : forall new, upd leaf (fun _ => Ok new) (plug C (ILeaf leaf nx es)) = Ok (plug C new)).
  { intros new. apply (upd_plug_self K V C (ILeaf leaf nx es) fr new Hw). }
  pose proof (leaf_sorted_ctx order C leaf nx es Hsh) as Hss.
  destruct mode as [|[|mode]].
  - rewrite Hupd in H. cbn [bind] in H. unfold mk in H. inversion H; subst; clear H. cbn [otr].
    apply andb_true_iff in Hmode. destruct Hmode as [Hl Hlast]. apply Nat.ltb_lt in Hl.
    rewrite (app_is_put K V ltb HS es k (f None) Hss Hlast). apply leaf_put_ctx; auto.
  - destruct (get_nth index es) as [[k' v']|] eqn:Eg; [|discriminate H]. cbn [bind] in H.
    rewrite Hupd in H. cbn [bind] in H. unfold mk in H. inversion H; subst; clear H. cbn [otr].
    apply (leaf_keys_ctx order C leaf nx es); [exact Hsh|].
    eapply map_fst_set_nth. apply get_nth_some. exact Eg.
  - destruct (get_nth index es) as [[k' v']|] eqn:Eg; [|discriminate H]. cbn [bind] in H.
    rewrite Hupd in H. cbn [bind] in H. unfold mk in H. inversion H; subst; clear H. cbn [otr].
    apply (leaf_keys_ctx order C leaf nx es); [exact Hsh|].
    eapply map_fst_set_nth. apply get_nth_some. exact Eg.
Qed.

End Blocks.

(* Properties.v — the property theorems, and nothing else.  Each is closed by [exact <lemma>] and followed
   by Print Assumptions; the check driver reads the build log of this file.  coq/OBLIGATIONS.json lists
   which theorems belong to which property.  K, V and the order ltb are arbitrary: the theorems hold for
   every key type whose comparison is a strict weak order (SWO), hence for all six Go tree types (C11). *)
From Coq Require Import ZArith NArith List Bool.
From GB Require Import Model Spec Inv Order OrderProof SearchProof SpecLaws InvProof SearchScanProof
     UpsertProof DeleteProof HistoryProof KeyOrders KnownFindings Conc GI LockInv LockProof ConcProps Frame FrameInv FrameProof SoloProof CInv CIDef NoDeadlock Lin LinDef Final Footprint.
Import ListNotations.
Open Scope nat_scope.

(* ====================== C01: single-threaded use refines a map ====================== *)

(* every finite history of Insert/Update/Delete/Search from the empty tree, at every even order >= 4 (and
   at order 2 when the history has no Delete): no operation panics (Ok), every observation (Update's
   callback argument, Search's result) is the ideal map's, the contents are the ideal map's, and the shape
   invariant holds at the end (hence after every prefix) *)
Theorem C01_refines_map :
  forall (K V : Type) (ltb : K -> K -> bool), SWO ltb ->
  forall (order : nat) (ops : list (op K V)), order_ok order ops ->
  exists t, run_tree ltb order (Leaf []) ops = Ok (t, snd (run_spec ltb [] ops)) /\
            entries t = fst (run_spec ltb [] ops) /\ Inv ltb order t.
Proof. exact history_refines. Qed.
Print Assumptions C01_refines_map.

(* known finding K1, as a theorem: at order 2 a history with a Delete can panic (witness I1 I2 I5 I2 D1 ->
   "both left and right siblings have no children"), so order 2 is covered only without Delete *)
Theorem C01_order2_delete_refuted :
  exists ops : list (op Z Z), Nat.even 2 = true /\ 2 <= 2 /\ forall t x, run_tree Z.ltb 2 (Leaf []) ops <> Ok (t, x).
Proof. exact order2_delete_refuted. Qed.
Print Assumptions C01_order2_delete_refuted.

(* the hypotheses are satisfiable: a concrete three-level tree at order 4 meets the invariant *)
Theorem C01_invariant_nonvacuous : Inv Z.ltb 4 sample_tree.
Proof. exact (proj1 (inv_b_iff Z Z Z.ltb 4 sample_tree) sample_tree_inv). Qed.
Print Assumptions C01_invariant_nonvacuous.

(* the same from any tree satisfying the invariant (every reachable tree does) *)
Theorem C01_refines_map_from :
  forall (K V : Type) (ltb : K -> K -> bool), SWO ltb ->
  forall (order : nat) (ops : list (op K V)) (t : tree K V), order_ok order ops -> Inv ltb order t ->
  exists t', run_tree ltb order t ops = Ok (t', snd (run_spec ltb (entries t) ops)) /\
             entries t' = fst (run_spec ltb (entries t) ops) /\ Inv ltb order t'.
Proof. exact run_refines. Qed.
Print Assumptions C01_refines_map_from.

(* the specification is an ideal map *)
Theorem C01_spec_lookup_put_same :
  forall (K V : Type) (ltb : K -> K -> bool), SWO ltb ->
  forall k f (m : list (K * V)), asc ltb (map fst m) -> lookup ltb k (put ltb k f m) = Some (f (lookup ltb k m)).
Proof. exact lookup_put_same. Qed.
Print Assumptions C01_spec_lookup_put_same.

Theorem C01_spec_lookup_put_other :
  forall (K V : Type) (ltb : K -> K -> bool), SWO ltb ->
  forall k k' f (m : list (K * V)), asc ltb (map fst m) -> ~ eqv ltb k k' -> lookup ltb k (put ltb k' f m) = lookup ltb k m.
Proof. exact lookup_put_other. Qed.
Print Assumptions C01_spec_lookup_put_other.

Theorem C01_spec_lookup_erase_same :
  forall (K V : Type) (ltb : K -> K -> bool), SWO ltb ->
  forall k (m : list (K * V)), asc ltb (map fst m) -> lookup ltb k (erase ltb k m) = None.
Proof. exact lookup_erase_same. Qed.
Print Assumptions C01_spec_lookup_erase_same.

Theorem C01_spec_lookup_erase_other :
  forall (K V : Type) (ltb : K -> K -> bool), SWO ltb ->
  forall k k' (m : list (K * V)), asc ltb (map fst m) -> ~ eqv ltb k k' -> lookup ltb k (erase ltb k' m) = lookup ltb k m.
Proof. exact lookup_erase_other. Qed.
Print Assumptions C01_spec_lookup_erase_other.

(* ====================== C02: a scan yields exactly the pairs >= start ====================== *)

Theorem C02_scan_exact :
  forall (K V : Type) (ltb : K -> K -> bool), SWO ltb ->
  forall (order : nat) (k : K) (t : tree K V), Inv ltb order t -> scan ltb k t = Ok (from ltb k (entries t)).
Proof. exact scan_correct. Qed.
Print Assumptions C02_scan_exact.

Theorem C02_scan_after_any_history :
  forall (K V : Type) (ltb : K -> K -> bool), SWO ltb ->
  forall (order : nat) (ops : list (op K V)) (k : K), order_ok order ops ->
  exists t, run_tree ltb order (Leaf []) ops = Ok (t, snd (run_spec ltb [] ops)) /\
            scan ltb k t = Ok (from ltb k (fst (run_spec ltb [] ops))).
Proof. exact history_scan. Qed.
Print Assumptions C02_scan_after_any_history.

Theorem C02_cursor_prefix :
  forall (K V : Type) (ltb : K -> K -> bool), SWO ltb ->
  forall (order : nat) (ops : list (op K V)) (k : K) (n : nat), order_ok order ops ->
  exists t, run_tree ltb order (Leaf []) ops = Ok (t, snd (run_spec ltb [] ops)) /\
            scan_n ltb k n t = Ok (firstn n (from ltb k (fst (run_spec ltb [] ops)))).
Proof. exact history_cursor_prefix. Qed.
Print Assumptions C02_cursor_prefix.

(* what [from] is: exactly the stored pairs whose key is not below the start, in strictly ascending order *)
Theorem C02_from_exactly :
  forall (K V : Type) (ltb : K -> K -> bool), SWO ltb ->
  forall k e (m : list (K * V)), asc ltb (map fst m) -> (In e (from ltb k m) <-> In e m /\ ltb (fst e) k = false).
Proof. exact from_In. Qed.
Print Assumptions C02_from_exactly.

Theorem C02_from_ascending :
  forall (K V : Type) (ltb : K -> K -> bool),
  forall k (m : list (K * V)), asc ltb (map fst m) -> asc ltb (map fst (from ltb k m)).
Proof. exact from_asc. Qed.
Print Assumptions C02_from_ascending.

Theorem C02_start_above_everything :
  forall (K V : Type) (ltb : K -> K -> bool),
  forall k (m : list (K * V)), asc ltb (map fst m) -> Forall (fun e => ltb (fst e) k = true) m -> from ltb k m = [].
Proof. exact from_nil_above. Qed.
Print Assumptions C02_start_above_everything.

Theorem C02_contents_ascending :
  forall (K V : Type) (ltb : K -> K -> bool), SWO ltb ->
  forall t : tree K V, ordered ltb t -> asc ltb (map fst (entries t)).
Proof. exact entries_asc. Qed.
Print Assumptions C02_contents_ascending.

(* ====================== C05 (sequential half): Update is read-modify-write ====================== *)

(* Update hands the callback the value currently bound to the key (None when absent), stores the callback's
   result, leaves every other binding alone (by the C01_spec theorems), on every path (append, replace, insert in the
   middle, with or without splits) *)
Theorem C05_update_sequential :
  forall (K V : Type) (ltb : K -> K -> bool), SWO ltb ->
  forall (order : nat) (k : K) (f : option V -> V) (t : tree K V),
  2 <= order -> Nat.even order = true -> Inv ltb order t ->
  exists t', upsert ltb order k f t = Ok (t', lookup ltb k (entries t)) /\
             entries t' = put ltb k f (entries t) /\ Inv ltb order t'.
Proof. exact upsert_spec. Qed.
Print Assumptions C05_update_sequential.

(* ====================== C08 (sequential): shape invariants after every operation ====================== *)

Theorem C08_inv_after_every_history :
  forall (K V : Type) (ltb : K -> K -> bool), SWO ltb ->
  forall (order : nat) (ops : list (op K V)), order_ok order ops ->
  exists t, run_tree ltb order (Leaf []) ops = Ok (t, snd (run_spec ltb [] ops)) /\
            entries t = fst (run_spec ltb [] ops) /\ Inv ltb order t.
Proof. exact history_refines. Qed.
Print Assumptions C08_inv_after_every_history.

Theorem C08_delete_preserves :
  forall (K V : Type) (ltb : K -> K -> bool), SWO ltb ->
  forall (order : nat) (k : K) (t : tree K V), 4 <= order -> Nat.even order = true -> Inv ltb order t ->
  exists t', delete ltb order k t = Ok t' /\ entries t' = erase ltb k (entries t) /\ Inv ltb order t'.
Proof. exact delete_spec. Qed.
Print Assumptions C08_delete_preserves.

(* the executable checker run on implementation snapshots decides exactly the invariant *)
Theorem C08_checker_certified :
  forall (K V : Type) (ltb : K -> K -> bool) (order : nat) (t : tree K V), inv_b ltb order t = true <-> Inv ltb order t.
Proof. exact inv_b_iff. Qed.
Print Assumptions C08_checker_certified.

(* the literal binary search terminates within its fuel, never indexes out of range, returns the clamped
   position on every ascending slice (index lookups agree with the contents) *)
Theorem C08_binary_search_ge :
  forall (K : Type) (ltb : K -> K -> bool), SWO ltb ->
  forall key vs, asc ltb vs -> search_ge ltb key vs = Ok (ge_spec K ltb key vs).
Proof. exact search_ge_spec. Qed.
Print Assumptions C08_binary_search_ge.

Theorem C08_binary_search_le :
  forall (K : Type) (ltb : K -> K -> bool), SWO ltb ->
  forall key vs, asc ltb vs -> search_le ltb key vs = Ok (le_spec K ltb key vs).
Proof. exact search_le_spec. Qed.
Print Assumptions C08_binary_search_le.

(* ====================== C11: the whole key domain; ComparableTree uses only Less ====================== *)

(* integers of any width (extremes included): Z with < *)
Theorem C11_integer_keys :
  forall (V : Type) (order : nat) (ops : list (op Z V)), order_ok order ops ->
  exists t, run_tree Z.ltb order (Leaf []) ops = Ok (t, snd (run_spec Z.ltb [] ops)) /\
            entries t = fst (run_spec Z.ltb [] ops) /\ Inv Z.ltb order t.
Proof. exact (fun V => history_refines Z V Z.ltb Z_SWO). Qed.
Print Assumptions C11_integer_keys.

(* strings: byte sequences in lexicographic order (the empty string, prefixes of one another, 0xFF bytes) *)
Theorem C11_string_keys :
  forall (V : Type) (order : nat) (ops : list (op (list N) V)), order_ok order ops ->
  exists t, run_tree lex_ltb order (Leaf []) ops = Ok (t, snd (run_spec lex_ltb [] ops)) /\
            entries t = fst (run_spec lex_ltb [] ops) /\ Inv lex_ltb order t.
Proof. exact (fun V => history_refines (list N) V lex_ltb lex_SWO). Qed.
Print Assumptions C11_string_keys.

(* a Comparable whose equivalence is coarser than equality: two keys denote the same entry exactly when
   neither is Less than the other (the spec's put/lookup/erase are defined through ltb only) *)
Theorem C11_coarse_comparable_keys :
  forall (V : Type) (order : nat) (ops : list (op (Z * Z) V)), order_ok order ops ->
  exists t, run_tree fst_ltb order (Leaf []) ops = Ok (t, snd (run_spec fst_ltb [] ops)) /\
            entries t = fst (run_spec fst_ltb [] ops) /\ Inv fst_ltb order t.
Proof. exact (fun V => history_refines (Z * Z) V fst_ltb fst_SWO). Qed.
Print Assumptions C11_coarse_comparable_keys.

Theorem C11_lookup_respects_equivalence :
  forall (K V : Type) (ltb : K -> K -> bool), SWO ltb ->
  forall k k' (m : list (K * V)), eqv ltb k k' -> lookup ltb k m = lookup ltb k' m.
Proof. exact lookup_eqv. Qed.
Print Assumptions C11_lookup_respects_equivalence.

(* the placeholder written by  append(s, zero); copy(...)  is overwritten: never observable *)
Theorem C11_placeholder_unobservable :
  forall (A : Type) (zero : A) (i : nat) (x : A) (l : list A), i <= length l -> slice_insert zero i x l = ins_nth i x l.
Proof. exact @slice_insert_spec. Qed.
Print Assumptions C11_placeholder_unobservable.

(* ====================== C12: constructors accept exactly the powers of two >= 2 ====================== *)
Theorem C12_check_order : forall o : Z, (- 2 ^ 63 <= o < 2 ^ 63)%Z ->
  (check_order o = true <-> exists n : Z, (1 <= n <= 62)%Z /\ o = (2 ^ n)%Z).
Proof. exact check_order_int64. Qed.
Print Assumptions C12_check_order.

Theorem C12_check_order_unbounded : forall o : Z, check_order o = true <-> exists n : Z, (1 <= n)%Z /\ o = (2 ^ n)%Z.
Proof. exact check_order_spec. Qed.
Print Assumptions C12_check_order_unbounded.

Theorem C12_no_wrap : forall o : Z, (- 2 ^ 63 <= o < 2 ^ 63)%Z -> (2 <=? o)%Z = true ->
  (- 2 ^ 63 <= o - 1 < 2 ^ 63)%Z /\ (0 <= o - 1)%Z.
Proof. exact check_order_no_wrap. Qed.
Print Assumptions C12_no_wrap.

(* every accepted order is usable: an empty tree satisfies the invariant, and by C01 every history then works *)
Theorem C12_new_tree_usable :
  forall (K V : Type) (ltb : K -> K -> bool) (order : nat), Inv ltb order (Leaf (@nil (K * V))).
Proof. exact Inv_empty. Qed.
Print Assumptions C12_new_tree_usable.

(* ====================== concurrent model: lock-table theorems (C09, C10, C05, C07) ======================
   [reach ltb order progs sched] is the state of the concurrent model after the schedule [sched] (any list of
   thread ids) of the client programs [progs] started on the empty tree; one thread running first builds any
   reachable initial tree.  All statements hold for every order, every program set and every schedule. *)

(* C09: when Insert/Update/Delete/Search (or a scan that was closed or ran out) returns, the calling thread
   holds no node lock and not the tree mutex, on every code path *)
Theorem C09_returns_hold_nothing :
  forall (K V : Type) (ltb : K -> K -> bool) order progs sched me s' acq ev (r : ores K V),
  NoDup (map fst progs) ->
  cstep ltb order (reach ltb order progs sched) me = Stepped s' acq ev -> In (EReturn r) ev ->
  held_by me (lk s') = [] /\ tm s' <> Some me.
Proof. exact reach_returns_hold_nothing. Qed.
Print Assumptions C09_returns_hold_nothing.

(* C09/C10/C05: a cursor between calls, a cursor hopping to the next leaf, and a thread inside an Update
   callback each hold exactly one leaf and not the tree mutex *)
Theorem C09_cursor_and_callback_hold_one_leaf :
  forall (K V : Type) (ltb : K -> K -> bool) order progs sched t (th : thread K V),
  NoDup (map fst progs) -> get_thread t (ths (reach ltb order progs sched)) = Some th ->
  let s := reach ltb order progs sched in
  (forall leaf i n acc, tpc th = CurRest leaf i n acc -> held_by t (lk s) = [leaf] /\ tm s <> Some t) /\
  (forall leaf nxt n acc, tpc th = CurWantNext leaf nxt n acc -> held_by t (lk s) = [leaf] /\ tm s <> Some t) /\
  (forall o leaf m i, tpc th = UpdCallback o leaf m i -> held_by t (lk s) = [leaf] /\ tm s <> Some t).
Proof. exact reach_cursor_holds_one_leaf. Qed.
Print Assumptions C09_cursor_and_callback_hold_one_leaf.

Theorem C09_idle_thread_holds_nothing :
  forall (K V : Type) (ltb : K -> K -> bool) order progs sched t (th : thread K V),
  NoDup (map fst progs) -> get_thread t (ths (reach ltb order progs sched)) = Some th ->
  tpc th = Idle -> held_by t (lk (reach ltb order progs sched)) = [] /\ tm (reach ltb order progs sched) <> Some t.
Proof. exact reach_idle_holds_nothing. Qed.
Print Assumptions C09_idle_thread_holds_nothing.

(* C10: outside Delete a thread never rests on more than two node locks, and holds the tree mutex only
   with nothing else (waiting for the root) or with the old root while it locks the fresh right half *)
Theorem C10_footprint :
  forall (K V : Type) (ltb : K -> K -> bool) order progs sched t (th : thread K V),
  NoDup (map fst progs) -> get_thread t (ths (reach ltb order progs sched)) = Some th ->
  pc_is_delete (tpc th) = false ->
  let s := reach ltb order progs sched in
  length (held_by t (lk s)) <= 2 /\
  (tm s = Some t -> held_by t (lk s) = [] \/ exists o l r, tpc th = InsWantRootRight o l r /\ held_by t (lk s) = [l]).
Proof. exact reach_footprint. Qed.
Print Assumptions C10_footprint.

(* C07/C05 (model side): locks are exclusive; what a thread holds is determined by its program counter *)
Theorem C07_locks_exclusive :
  forall (K V : Type) (ltb : K -> K -> bool) order (progs : list (tid * list (cop K V))) sched x t1 t2,
  NoDup (map fst progs) ->
  In x (held_by t1 (lk (reach ltb order progs sched))) -> In x (held_by t2 (lk (reach ltb order progs sched))) -> t1 = t2.
Proof. exact reach_exclusive. Qed.
Print Assumptions C07_locks_exclusive.

Theorem C07_lock_table_invariant :
  forall (K V : Type) (ltb : K -> K -> bool) order sched (progs : list (tid * list (cop K V))),
  NoDup (map fst progs) -> lock_inv (fst (exec ltb order (init_st progs) sched)).
Proof. exact lock_inv_reachable. Qed.
Print Assumptions C07_lock_table_invariant.

(* ====================== concurrent model: write discipline (C07, C05) ====================== *)

(* a step of thread [me] never writes a node it does not hold (the lock granted in this very step counts as
   held): for every schedule of every program set, the fields of any other node that was in the tree are
   unchanged -- or the node is no longer reachable (which only happens to nodes the stepping thread holds, or
   when a split drops entries of an over-full node; excluded below by capacity) *)
Theorem C07_writes_only_under_lock :
  forall (K V : Type) (ltb : K -> K -> bool) order (progs : list (tid * list (cop K V))) sched me s' acq ev x,
  NoDup (map fst progs) ->
  let s := reach ltb order progs sched in
  cstep ltb order s me = Stepped s' acq ev ->
  In x (ids (tr s)) -> ~ In x (held_by me (lk s)) -> acq <> Some (Some x) ->
  node_view x (tr s') = node_view x (tr s) \/ node_view x (tr s') = None.
Proof. exact reach_step_frame_weak. Qed.
Print Assumptions C07_writes_only_under_lock.

(* with capacity (no node holds more than 2*(order/2) entries, a clause of the shape invariant) nothing is dropped *)
Theorem C07_writes_only_under_lock_exact :
  forall (K V : Type) (ltb : K -> K -> bool) order (progs : list (tid * list (cop K V))) sched me s' acq ev x,
  NoDup (map fst progs) ->
  let s := reach ltb order progs sched in
  lossless order (tr s) ->
  cstep ltb order s me = Stepped s' acq ev ->
  In x (ids (tr s)) -> ~ In x (held_by me (lk s)) -> acq <> Some (Some x) ->
  node_view x (tr s') = node_view x (tr s).
Proof. exact reach_step_frame. Qed.
Print Assumptions C07_writes_only_under_lock_exact.

(* the entry pointer (which node is the root) changes only in a step of the thread holding the tree mutex *)
Theorem C07_root_pointer_under_tree_mutex :
  forall (K V : Type) (ltb : K -> K -> bool) order (progs : list (tid * list (cop K V))) sched me s' acq ev,
  NoDup (map fst progs) ->
  let s := reach ltb order progs sched in
  cstep ltb order s me = Stepped s' acq ev -> nid (tr s') <> nid (tr s) -> tm s = Some me.
Proof. exact reach_root_frame. Qed.
Print Assumptions C07_root_pointer_under_tree_mutex.

(* node identities stay unique and below the allocation counter: a fresh sibling is never confused with an old node *)
Theorem C07_identities_unique :
  forall (K V : Type) (ltb : K -> K -> bool) order (progs : list (tid * list (cop K V))) sched,
  NoDup (map fst progs) -> ids_ok (reach ltb order progs sched).
Proof. exact reach_ids_ok. Qed.
Print Assumptions C07_identities_unique.

(* ====================== the concurrent model run without interference is the sequential model ====================== *)

(* from any quiescent well-formed state, a call of Insert/Update/Delete/Search executed alone by the concurrent
   model terminates, returns exactly what the sequential model's operation returns, leaves exactly the
   sequential model's tree (identities and links erased), keeps identities unique and the leaf chain in order,
   and ends quiescent: the atomic executions of the concurrent model are the operations of C01 *)
Theorem C03_atomic_execution_is_sequential :
  forall (K V : Type) (ltb : K -> K -> bool), SWO ltb ->
  forall (order : nat) (s : st K V) (t : tid) (th : thread K V) (o : cop K V) (rest : list (cop K V)) (po : op K V),
  Nat.even order = true -> (4 <= order \/ (2 <= order /\ forall k, o <> CDelete k)) ->
  wf_state K V ltb order s -> quiescent K V s ->
  get_thread t (ths s) = Some th -> prog th = o :: rest -> op_of K V o = Some po ->
  exists fuel s' evs t' x,
    run_alone K V ltb fuel order s t = Some (s', evs) /\
    step_tree ltb order (erase_ids (tr s)) po = Ok (t', x) /\
    erase_ids (tr s') = t' /\
    In (EReturn (ores_of K V x)) evs /\
    wf_state K V ltb order s' /\ quiescent K V s' /\
    (exists th', get_thread t (ths s') = Some th' /\ prog th' = rest).
Proof. exact solo_point_op. Qed.
Print Assumptions C03_atomic_execution_is_sequential.

(* the same for a cursor: NewScanner k, n Scan steps and Close, run alone, yield the first n pairs of the
   sequential scan (walking the STORED next links: this is where the leaf chain is proved to agree with the
   in-order leaves), change nothing and release everything *)
Theorem C02_cursor_walks_the_chain :
  forall (K V : Type) (ltb : K -> K -> bool), SWO ltb ->
  forall (order : nat) (s : st K V) (t : tid) (th : thread K V) (k : K) (n : nat) (rest : list (cop K V)),
  wf_state K V ltb order s -> quiescent K V s ->
  get_thread t (ths s) = Some th -> prog th = CScan k n :: rest ->
  exists fuel s' evs l,
    run_alone K V ltb fuel order s t = Some (s', evs) /\
    scan ltb k (erase_ids (tr s)) = Ok l /\
    In (EReturn (RPairs (firstn n l))) evs /\
    tr s' = tr s /\ quiescent K V s' /\
    (exists th', get_thread t (ths s') = Some th' /\ prog th' = rest).
Proof. exact solo_scan. Qed.
Print Assumptions C02_cursor_walks_the_chain.

(* ====================== C06: no deadlock ====================== *)

(* In every state satisfying the concurrent invariant CI2 (global structure GI, the lock table, every program
   counter consistent with the tree -- executable predicates that the scheduled correspondence evaluates on every
   step it replays) some thread can move whenever some thread is unfinished: locks are always requested in
   increasing pre-order position (tree mutex first; parent before child; left sibling before right; a leaf before
   its chain successor), so no wait-for cycle exists.  That CI2 holds in every reachable state is proved
   (C06_deadlock_free below instantiates this with the reachable-state invariant); this is the invariant-level form. *)
Theorem C06_no_deadlock_in_invariant_states :
  forall (K V : Type) (ltb : K -> K -> bool) (order : nat) (s : st K V),
  CI2 ltb order s -> (exists t, unfinished s t = true) -> exists t, enabled order s t = true.
Proof. exact ci2_no_deadlock. Qed.
Print Assumptions C06_no_deadlock_in_invariant_states.

(* ====================== the concurrent theorems, for every schedule ======================
   K, V, ltb arbitrary with SWO ltb; order even and >= 4; progs any finite set of client programs (point
   operations and scans) with distinct thread ids; sched ANY list of thread ids (every interleaving at
   lock-acquisition granularity).  [exec] runs the schedule on the concurrent model from the empty tree. *)

(* C08 (concurrent) / C02 (chain): in every reachable state node identities are unique, the tree is ordered with
   separator bounds, all leaves are at the same depth, no node exceeds the order, and the stored leaf chain is
   the in-order succession of the leaves ending at the last one *)
Theorem C08_shape_invariant_every_reachable_state :
  forall (K V : Type) (ltb : K -> K -> bool), SWO ltb -> forall order, Nat.even order = true -> 4 <= order ->
  forall (progs : list (tid * list (cop K V))) sched, NoDup (map fst progs) ->
  GI ltb order (fst (exec ltb order (init_st progs) sched)).
Proof. exact final_GI_reachable. Qed.
Print Assumptions C08_shape_invariant_every_reachable_state.

(* ... together with the lock table, every program counter consistent with the tree, and minimum occupancy
   everywhere except at the one node a Delete in flight is about to rebalance (so: everywhere when quiescent) *)
Theorem C08_full_invariant_every_reachable_state :
  forall (K V : Type) (ltb : K -> K -> bool), SWO ltb -> forall order, Nat.even order = true -> 4 <= order ->
  forall (progs : list (tid * list (cop K V))) sched, NoDup (map fst progs) ->
  CIall ltb order (fst (exec ltb order (init_st progs) sched)).
Proof. exact final_invariant_reachable. Qed.
Print Assumptions C08_full_invariant_every_reachable_state.

(* C01 under concurrency: no step of any thread in any reachable state panics (no index out of range, no
   "no children", no "no siblings", no fuel exhaustion) *)
Theorem C03_no_panic_under_any_schedule :
  forall (K V : Type) (ltb : K -> K -> bool), SWO ltb -> forall order, Nat.even order = true -> 4 <= order ->
  forall (progs : list (tid * list (cop K V))) sched me p, NoDup (map fst progs) ->
  cstep ltb order (fst (exec ltb order (init_st progs) sched)) me <> Crash p.
Proof. exact final_no_crash. Qed.
Print Assumptions C03_no_panic_under_any_schedule.

(* C06: no deadlock: in every reachable state, if some thread has not finished its program, some thread can move *)
Theorem C06_deadlock_free :
  forall (K V : Type) (ltb : K -> K -> bool), SWO ltb -> forall order, Nat.even order = true -> 4 <= order ->
  forall (progs : list (tid * list (cop K V))) sched, NoDup (map fst progs) ->
  let s := fst (exec ltb order (init_st progs) sched) in
  (exists t, unfinished s t = true) -> exists t, enabled order s t = true.
Proof. exact final_no_deadlock. Qed.
Print Assumptions C06_deadlock_free.

(* C03 / C05: linearizability by linearization points.  [iexec] runs the schedule on the model together with the
   specification's map and a per-thread record of the specification's answer at the linearization point of the
   call in flight.  For every reachable instrumented state and every next step: the specification's map IS the
   tree's contents; a call is linearized at most once, after its invocation; and a point operation (Insert,
   Update, Delete, Search) that returns, returns exactly the answer the specification gave at its linearization
   point -- which lies between its invocation and its return.  Update's linearization point is its store, with
   the callback argument equal to the specification's current binding: an atomic read-modify-write. *)
Theorem C03_linearizable :
  forall (K V : Type) (ltb : K -> K -> bool), SWO ltb -> forall order, Nat.even order = true -> 4 <= order ->
  forall (progs : list (tid * list (cop K V))) sched me, NoDup (map fst progs) ->
  lin_step_ok ltb order (iexec ltb order (iinit progs) sched) me.
Proof. exact final_linearizable. Qed.
Print Assumptions C03_linearizable.

(* C10: in every reachable state, a thread inside Search / NewScanner / Insert / Update holds nothing, or the tree
   mutex only, or one node, or a node and one of its children (only while it waits for the right sibling it has
   just created by splitting that child) -- never anything above; a resting cursor, a hopping cursor and a
   thread inside an Update callback hold exactly one leaf and not the tree mutex *)
Theorem C10_parent_child_footprint :
  forall (K V : Type) (ltb : K -> K -> bool), SWO ltb -> forall order, Nat.even order = true -> 4 <= order ->
  forall (progs : list (tid * list (cop K V))) sched t th, NoDup (map fst progs) ->
  let s := fst (exec ltb order (init_st progs) sched) in
  get_thread t (ths s) = Some th ->
  match tpc th with
  | InsWantSplitRight _ p c _ => Permutation.Permutation (held_by t (lk s)) [p; c] /\ is_child_of K V c p (tr s) /\ tm s <> Some t
  | InsWantChild _ p _ _ | SeaWantChild _ p _ => Permutation.Permutation (held_by t (lk s)) [p] /\ tm s <> Some t
  | UpdCallback _ l _ _ | CurRest l _ _ _ | CurWantNext l _ _ _ => Permutation.Permutation (held_by t (lk s)) [l] /\ tm s <> Some t
  | InsWantRootRight _ l _ => Permutation.Permutation (held_by t (lk s)) [l]
  | Idle | WantT _ | WantRoot _ _ => held_by t (lk s) = []
  | _ => True
  end.
Proof. exact footprint_parent_child. Qed.
Print Assumptions C10_parent_child_footprint.


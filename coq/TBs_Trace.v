(* TBs_Trace.v — the Scan steps of a trace.  Every step of the instrumented execution that emits [EPair e] or
   [EScanEnd] is annotated with the query it answers, READ OFF THE STATE (QFirst k if the cursor has yielded nothing
   yet, QNext (fst e0) if the last pair it yielded is e0), and with the answer the specification gives for that query
   on its current map ([istep_q], parallel to [istep_lp] of TB_Trace.v; [qtrace] is parallel to [itrace]).
     run_q_trace : the linearization points and the annotated queries of a trace, in trace order, are a run of the
                   extended specification (by construction, no invariant);
     istep_q_spec: in a reachable state, a step emits a Scan-step response iff it is annotated, the annotated answer
                   is the response ([EPair e] -> Some e, [EScanEnd] -> None)  -- this is where the cursor theorems
                   C04_successor / first_step_atomic / C04_end_after / C04_end_first are used --  and the step is
                   not a linearization point;
     SInv        : invariants relating the annotations to the trace (ScanLink: the last event of a scanning thread
                   is its NewScanner invocation / the pair it yielded last;  QOk: every annotated record has such a
                   start record of its thread before it with no event of the thread in between;  QAll: every record
                   with a Scan-step response is annotated), preserved by every step (SInv_step, SInv_reach). *)
From Coq Require Import List Bool PeanoNat Lia Sorted.
From GB Require Import Model Inv Spec Conc Lin LinDef SoloBase LINc_Blocks LINc_Proof LockProof Final
  C4_Lists C4_Blocks C4_Inv C4_Proof C4_Trace C4_Final C4c_Closed TB_Trace TB_Link TB_Proof TBs_Def TBs_Spec.
Import ListNotations.

#[local] Arguments istep_unfold {K V ltb order i i' me ev} _.

Ltac blk_top HB :=
  match type of HB with
  | bind ?e _ = Ok _ => let E := fresh "HE" in destruct e eqn:E; [cbn [bind] in HB; inversion HB; subst; clear HB | discriminate HB]
  end.

Section STrace.
Variables (K V : Type) (ltb : K -> K -> bool).
Hypothesis HS : SWO ltb.
Variable order : nat.
Hypothesis Heven : Nat.even order = true.
Hypothesis H4 : 4 <= order.
Variable progs : list (tid * list (cop K V)).
Hypothesis Hnd : NoDup (map fst progs).
Notation st := (st K V).
Notation thread := (thread K V).
Notation cop := (cop K V).
Notation event := (event K V).
Notation istate := (istate K V).
Notation pc := (pc K V).
Notation out := (out K V).
Notation irec := (irec K V).
Notation qa_t := (option (qry K * option (K * V))).

(* ================================================================================================ *)
(* reachable instrumented states                                                                     *)
(* ================================================================================================ *)
Definition Reach (i : istate) : Prop := exists sched0, i = iexec ltb order (iinit progs) sched0.

(* iexec stops at the first step that is not possible: the executed prefix of a schedule *)
Lemma iexec_prefix : forall sched (i : istate), exists sched',
  iexec ltb order i sched' = iexec ltb order i sched /\
  forall r, iexec ltb order i (sched' ++ r) = iexec ltb order (iexec ltb order i sched) r.
Proof.
  induction sched as [|t q IH]; intros i.
  - exists []. split; reflexivity.
  - destruct (istep ltb order i t) as [[i1 ev]|] eqn:Hi.
    + destruct (IH i1) as (q' & E1 & E2). exists (t :: q'). simpl. rewrite Hi. split; [exact E1|exact E2].
    + exists []. simpl. rewrite Hi. split; reflexivity.
Qed.

Lemma Reach_init : Reach (iinit progs).
Proof. exists []. reflexivity. Qed.

Lemma Reach_step (i i' : istate) me ev : Reach i -> istep ltb order i me = Some (i', ev) -> Reach i'.
Proof.
  intros [sched0 ->] Hi. destruct (iexec_prefix sched0 (iinit progs)) as (q & _ & E2).
  exists (q ++ [me]). rewrite E2. simpl. rewrite Hi. reflexivity.
Qed.

Lemma Reach_lin (i : istate) me : Reach i -> lin_step_ok ltb order i me.
Proof. intros [sched0 ->]. exact (reach_lin K V ltb HS order Heven H4 progs Hnd sched0 me). Qed.

Lemma Reach_abs (i : istate) : Reach i -> is_abs i = abs ltb (is_st i).
Proof.
  intros [sched0 ->]. apply iexec_abs; [|reflexivity].
  exact (reach_lin K V ltb HS order Heven H4 progs Hnd).
Qed.

Lemma Reach_st (i : istate) : Reach i -> exists sched0, is_st i = fst (exec ltb order (init_st progs) sched0).
Proof. intros [sched0 ->]. exists sched0. rewrite iexec_st. reflexivity. Qed.

(* ================================================================================================ *)
(* facts read off the definition of cstep                                                            *)
(* ================================================================================================ *)
Lemma yielded_not_cur (p : pc) : is_cur p = false -> yielded p = [].
Proof. destruct p; simpl; intros H; try reflexivity; discriminate H. Qed.

(* a block run from a cursor pc that neither rests at a cursor pc nor emits a scan event is Close: it returns *)
Lemma cur_plain_loud (s : st) me th tg (o : out) :
  is_cur (tpc th) = true -> blk ltb order s me th tg = Ok (Some o) -> plain o -> oev o <> [].
Proof.
  intros Hcur H Hpl. unfold blk in H. cbv zeta in H.
  destruct (tpc th) as [ |o0|o0 r0|o0 lft rgt|o0 p c index|o0 p c r0|o0 leaf mode index|o0 p c|o0 stk|o0 stk|o0 stk
                        |leaf i n acc|leaf nxt n acc] eqn:Epc; try discriminate Hcur.
  - blk_top H. unfold mk in HE. destruct n as [|n'].
    + inversion HE. simpl. discriminate.
    + destruct (Conc.find leaf (tr s)) as [[j nx es|]|]; try discriminate HE.
      destruct (nth_error es i) as [e|].
      * inversion HE; subst. destruct Hpl as [P1 _]. simpl in P1. discriminate P1.
      * destruct nx as [x|]; inversion HE; subst; destruct Hpl as [P1 P2]; simpl in P1, P2; discriminate.
  - blk_top H. unfold mk in HE.
    destruct (Conc.find nxt (tr s)) as [[j nx [|e es']|]|]; try discriminate HE.
    inversion HE; subst. destruct Hpl as [P1 _]. simpl in P1. discriminate P1.
Qed.

(* a step without events does not change the list of pairs the cursor has yielded *)
Lemma yielded_silent (s s' : st) me acq th th' :
  cstep ltb order s me = Stepped s' acq [] -> get_thread me (ths s) = Some th -> get_thread me (ths s') = Some th' ->
  yielded (tpc th') = yielded (tpc th).
Proof.
  intros Hc Hg Hg'. destruct (cstep_unpack K V ltb order s s' me acq [] Hc) as (th0 & o & Hg0 & HB & Es' & Eev).
  rewrite Hg in Hg0. inversion Hg0; subst th0. clear Hg0.
  destruct (commit_me K V s me th o Hg) as (th2 & Hg2 & Hpc2 & _). rewrite <- Es' in Hg2.
  rewrite Hg' in Hg2. inversion Hg2; subst th2. clear Hg2. rewrite Hpc2.
  destruct (blk_class K V ltb order s me th acq o HB)
    as [Hpl
       |o0 n k cnt j nx es i Hpc Ho Hf Hi Hopc Hotr Hoev
       |leaf i n' acc j nx es e1 Hpc Hf Hn Hopc Hotr Hoev
       |leaf i n' acc j x es Hpc Hf Hn Hopc Hotr Hoev
       |leaf i n' acc j es Hpc Hf Hn Hopc Hotr Hoev
       |leaf nxt n acc j nx e1 es' Hpc Hf Hopc Hotr Hoev].
  - rewrite (yielded_not_cur _ (proj1 Hpl)). destruct (is_cur (tpc th)) eqn:Ec.
    + exfalso. apply (cur_plain_loud s me th acq o Ec HB Hpl). symmetry. exact Eev.
    + symmetry. apply yielded_not_cur. exact Ec.
  - rewrite Hopc. destruct Hpc as [Hpc|[p Hpc]]; rewrite Hpc; reflexivity.
  - rewrite Hoev in Eev. discriminate Eev.
  - rewrite Hopc, Hpc. reflexivity.
  - rewrite Hoev in Eev. discriminate Eev.
  - rewrite Hoev in Eev. discriminate Eev.
Qed.

Lemma hd_error_cons {A} (l : list A) x : hd_error l = Some x -> exists rest, l = x :: rest.
Proof. destruct l as [|y l]; simpl; intros H; [discriminate H|]. inversion H; subst. eauto. Qed.

(* ================================================================================================ *)
(* the query a Scan step answers, read off the state, and what the cursor theorems say about it      *)
(* ================================================================================================ *)
Definition scan_q (th : thread) : option (qry K) :=
  match yielded (tpc th) with
  | e0 :: _ => Some (QNext (fst e0))
  | [] => match prog th with CScan k _ :: _ => Some (QFirst k) | _ => None end
  end.

(* the events of a step that responds to a Scan step, and the response *)
Definition resp_ev (ev : list event) (a : option (K * V)) : Prop :=
  (exists e, ev = [EPair e] /\ a = Some e) \/ (exists r, ev = [EScanEnd; EReturn r] /\ a = None).

Lemma scan_ev_cases (ev : list event) :
  existsb is_scan_ev ev = true -> (exists e, In (EPair e) ev) \/ In EScanEnd ev.
Proof.
  intros H. apply existsb_exists in H. destruct H as (x & Hin & Hx).
  destruct x as [o|r|e|]; try discriminate Hx; [left; eauto|right; exact Hin].
Qed.

(* in a reachable state, a step that emits a Scan-step response is a step of a cursor of a [CScan k cnt] call, and
   the response is the answer of the ideal map (the tree's contents at that step) to the query [scan_q] *)
Lemma scan_step_sem sched0 (s s' : st) me acq ev th :
  s = fst (exec ltb order (init_st progs) sched0) ->
  cstep ltb order s me = Stepped s' acq ev -> existsb is_scan_ev ev = true -> get_thread me (ths s) = Some th ->
  exists k cnt rest q a,
    prog th = CScan k cnt :: rest /\ is_cur (tpc th) = true /\ scan_q th = Some q /\
    qry_ans ltb (abs ltb s) q = a /\ resp_ev ev a.
Proof.
  intros Es Hc Hev Hg. subst s.
  set (s := fst (exec ltb order (init_st progs) sched0)) in *.
  assert (Hss : StronglySorted (fun a b => ltb a b = true) (map fst (abs ltb s))).
  { apply (abs_SS K V ltb HS order). exact (reach_inv K V ltb HS order Heven H4 progs Hnd sched0). }
  destruct (scan_ev_cases ev Hev) as [[e Hin]|Hin].
  - (* a pair *)
    destruct (C04_increasing K V ltb HS order Heven H4 progs Hnd sched0 s' me acq ev e Hc Hin)
      as (th0 & th' & k & cnt & Hg0 & Hg' & Hhd & Hpr' & Hcur & Hcur' & Hy' & Hd & Hk).
    fold s in Hg0. rewrite Hg in Hg0. inversion Hg0; subst th0. clear Hg0.
    destruct (hd_error_cons _ _ Hhd) as (rest & Hpr).
    destruct (pair_step_inv K V ltb order s s' me acq ev e Hc Hin) as [Eev _].
    destruct (yielded (tpc th)) as [|e0 l] eqn:Ey.
    + destruct (first_step_atomic K V ltb HS order Heven H4 progs Hnd sched0 s' me acq ev e th k cnt Hc Hin Hg Ey Hhd)
        as (Hine & _ & Hek & Hleast).
      exists k, cnt, rest, (QFirst k), (Some e). split; [exact Hpr|]. split; [exact Hcur|].
      split; [unfold scan_q; rewrite Ey, Hpr; reflexivity|].
      split; [|left; exists e; auto]. simpl. apply (first_ge_least K V ltb); assumption.
    + destruct (C04_successor K V ltb HS order Heven H4 progs Hnd sched0 s' me acq ev e th e0 l Hc Hin Hg Ey)
        as (_ & Hine & Hlt & Hleast).
      exists k, cnt, rest, (QNext (fst e0)), (Some e). split; [exact Hpr|]. split; [exact Hcur|].
      split; [unfold scan_q; rewrite Ey; reflexivity|].
      split; [|left; exists e; auto]. simpl. apply (first_gt_least K V ltb); assumption.
  - (* the end of the scan *)
    destruct (end_step_inv K V ltb order s s' me acq ev Hc Hin) as (acc & es & Hes & Eev).
    destruct Hes as [th1 leaf i n' acc j es Hg1 Hpc Hf Hn]. rewrite Hg in Hg1. inversion Hg1; subst th1. clear Hg1.
    pose proof (C04_cur_ok K V ltb HS order Heven H4 progs Hnd sched0 me th Hg) as Hok. rewrite Hpc in Hok.
    destruct Hok as (k & cnt & nx1 & es1 & Hhd & _).
    destruct (hd_error_cons _ _ Hhd) as (rest & Hpr).
    assert (Hcur : is_cur (tpc th) = true) by (rewrite Hpc; reflexivity).
    assert (Ey : yielded (tpc th) = acc) by (rewrite Hpc; reflexivity).
    destruct acc as [|e0 l].
    + destruct (C04_end_first K V ltb HS order Heven H4 progs Hnd sched0 s' me acq ev th Hc Hin Hg Ey)
        as (k1 & cnt1 & Hhd1 & Hall).
      rewrite Hhd in Hhd1. inversion Hhd1; subst k1 cnt1.
      exists k, cnt, rest, (QFirst k), None. split; [exact Hpr|]. split; [exact Hcur|].
      split; [unfold scan_q; rewrite Ey, Hpr; reflexivity|].
      split; [|right; eexists; split; [exact Eev|reflexivity]]. simpl. apply first_ge_none. exact Hall.
    + pose proof (C04_end_after K V ltb HS order Heven H4 progs Hnd sched0 s' me acq ev th e0 l Hc Hin Hg Ey) as Hall.
      exists k, cnt, rest, (QNext (fst e0)), None. split; [exact Hpr|]. split; [exact Hcur|].
      split; [unfold scan_q; rewrite Ey; reflexivity|].
      split; [|right; eexists; split; [exact Eev|reflexivity]]. simpl. apply first_gt_none. exact Hall.
Qed.

(* the step that emits a pair pushes it on the cursor's list *)
Lemma yielded_pair sched0 (s s' : st) me acq ev e th th' :
  s = fst (exec ltb order (init_st progs) sched0) ->
  cstep ltb order s me = Stepped s' acq ev -> In (EPair e) ev ->
  get_thread me (ths s) = Some th -> get_thread me (ths s') = Some th' ->
  yielded (tpc th') = e :: yielded (tpc th).
Proof.
  intros Es Hc Hin Hg Hg'. subst s.
  destruct (C04_increasing K V ltb HS order Heven H4 progs Hnd sched0 s' me acq ev e Hc Hin)
    as (th0 & th1 & k & cnt & Hg0 & Hg1 & _ & _ & _ & _ & Hy' & _).
  rewrite Hg in Hg0. inversion Hg0; subst th0. rewrite Hg' in Hg1. inversion Hg1; subst th1. exact Hy'.
Qed.

(* ================================================================================================ *)
(* the annotation of a step, the annotations of a trace, and the run of the extended specification   *)
(* ================================================================================================ *)
Definition istep_q (i : istate) (me : tid) : qa_t :=
  match istep_lp ltb order i me with
  | Some _ => None
  | None =>
    match cstep ltb order (is_st i) me with
    | Stepped s' acq ev =>
      if existsb is_scan_ev ev then
        match get_thread me (ths (is_st i)) with
        | Some th => match scan_q th with Some q => Some (q, qry_ans ltb (is_abs i) q) | None => None end
        | None => None
        end
      else None
    | _ => None
    end
  end.

(* mirrors itrace *)
Fixpoint qtrace (i : istate) (sched : list tid) : list qa_t :=
  match sched with
  | [] => []
  | t :: r =>
    match istep ltb order i t with
    | Some (i', ev) => istep_q i t :: qtrace i' r
    | None => []
    end
  end.

Lemma qtrace_length : forall sched (i : istate), length (qtrace i sched) = length (itrace ltb order i sched).
Proof.
  induction sched as [|t r IH]; intros i; simpl; [reflexivity|].
  destruct (istep ltb order i t) as [[i' ev]|]; [|reflexivity]. simpl. rewrite IH. reflexivity.
Qed.

Lemma istep_q_some (i : istate) me q a :
  istep_q i me = Some (q, a) -> istep_lp ltb order i me = None /\ a = qry_ans ltb (is_abs i) q.
Proof.
  unfold istep_q. destruct (istep_lp ltb order i me) as [p|]; [discriminate|].
  destruct (cstep ltb order (is_st i) me) as [ | | |s' acq ev|p]; try discriminate.
  destruct (existsb is_scan_ev ev); [|discriminate].
  destruct (get_thread me (ths (is_st i))) as [th|]; [|discriminate].
  destruct (scan_q th) as [q0|]; [|discriminate]. intros H. inversion H; subst. split; reflexivity.
Qed.

(* the item of the sequential witness contributed by one record *)
Definition rec_item (r : irec) (qa : qa_t) : list (act K V * ans K V) :=
  match qa with
  | Some (q, a) => [(AQry q, RQry a)]
  | None => match r_lp r with Some (po, x) => [(AOp po, ROp x)] | None => [] end
  end.
Fixpoint items_of (T : list irec) (Q : list qa_t) : list (act K V * ans K V) :=
  match T, Q with
  | r :: T', qa :: Q' => rec_item r qa ++ items_of T' Q'
  | _, _ => []
  end.

(* (c), generic part: the linearization points and annotated queries of the trace, in trace order, are a run of the
   extended specification from the map of the first state to the map of the last *)
Lemma run_q_trace : forall sched (i : istate),
  run_q ltb (is_abs i) (map fst (items_of (itrace ltb order i sched) (qtrace i sched))) =
  (is_abs (iexec ltb order i sched), map snd (items_of (itrace ltb order i sched) (qtrace i sched))).
Proof.
  induction sched as [|t r IH]; intros i; cbn [itrace qtrace iexec]; [reflexivity|].
  destruct (istep ltb order i t) as [[i' ev]|] eqn:Hi; [|reflexivity].
  pose proof (istep_abs K V ltb order _ _ _ _ Hi) as Ha. cbn [items_of]. unfold rec_item. cbn [r_lp].
  destruct (istep_q i t) as [[q a]|] eqn:Eq.
  - destruct (istep_q_some _ _ _ _ Eq) as [Elp Ea]. rewrite Elp in Ha. subst a.
    cbn [app map fst snd run_q step_q]. rewrite <- Ha. rewrite IH. reflexivity.
  - destruct (istep_lp ltb order i t) as [[po x]|].
    + cbn [app map fst snd run_q step_q]. rewrite Ha. cbn [fst snd]. rewrite IH. reflexivity.
    + cbn [app]. rewrite <- Ha. apply IH.
Qed.

(* ================================================================================================ *)
(* what an annotated step is, in a reachable state                                                   *)
(* ================================================================================================ *)
Lemma istep_q_spec (i i' : istate) me ev th :
  Reach i -> istep ltb order i me = Some (i', ev) -> get_thread me (ths (is_st i)) = Some th ->
  (existsb is_scan_ev ev = false /\ istep_q i me = None) \/
  (exists k cnt rest q a,
     prog th = CScan k cnt :: rest /\ is_cur (tpc th) = true /\ scan_q th = Some q /\
     istep_q i me = Some (q, a) /\ resp_ev ev a /\ istep_lp ltb order i me = None).
Proof.
  intros HR Hi Hg. destruct (istep_unfold Hi) as (s' & acq & Hs & _).
  destruct (existsb is_scan_ev ev) eqn:E.
  - right. destruct (Reach_st i HR) as (sched0 & Est).
    destruct (scan_step_sem sched0 (is_st i) s' me acq ev th Est Hs E Hg)
      as (k & cnt & rest & q & a & Hpr & Hcur & Hq & Ha & Hresp).
    assert (Hlp : istep_lp ltb order i me = None).
    { unfold istep_lp. rewrite Hs. rewrite (lp_scan K V ltb (is_st i) s' me acq ev th k cnt rest Hg Hpr). reflexivity. }
    exists k, cnt, rest, q, a. repeat (split; [assumption|]). split; [|split; assumption].
    unfold istep_q. rewrite Hlp, Hs, E, Hg, Hq. rewrite (Reach_abs i HR), Ha. reflexivity.
  - left. split; [reflexivity|]. unfold istep_q. destruct (istep_lp ltb order i me); [reflexivity|].
    rewrite Hs, E. reflexivity.
Qed.

(* ================================================================================================ *)
(* invariants relating the annotations to the trace                                                  *)
(* ================================================================================================ *)
(* a record of thread t with some event *)
Definition busy (t : tid) (r : irec) : Prop := r_tid r = t /\ r_ev r <> [].

(* the event at which the next Scan step of a [CScan k cnt] call whose cursor has yielded y begins *)
Definition start_ev (k : K) (cnt : nat) (y : list (K * V)) : event :=
  match y with [] => EInvoke (CScan k cnt) | e0 :: _ => EPair e0 end.

(* the query that begins at a start event *)
Definition start_qry (sev : event) (q : qry K) : Prop :=
  (exists k cnt, sev = EInvoke (CScan k cnt) /\ q = QFirst k) \/ (exists e0, sev = EPair e0 /\ q = QNext (fst e0)).

Lemma scan_q_start (th : thread) k cnt rest q :
  prog th = CScan k cnt :: rest -> scan_q th = Some q -> start_qry (start_ev k cnt (yielded (tpc th))) q.
Proof.
  unfold scan_q, start_ev. intros Hpr H. destruct (yielded (tpc th)) as [|e0 l].
  - rewrite Hpr in H. inversion H; subst. left. eauto.
  - inversion H; subst. right. eauto.
Qed.

(* the last event of a thread inside a CScan call is the call's start event for its current cursor *)
Definition scan_link (T : list irec) (t : tid) (th : thread) : Prop :=
  tpc th <> Idle -> forall k cnt rest, prog th = CScan k cnt :: rest ->
  exists b, at_ T b (fun r => r_tid r = t /\ r_ev r = [start_ev k cnt (yielded (tpc th))]) /\
            none_in T (busy t) (S b) (length T).
Definition ScanLink (T : list irec) (i : istate) : Prop :=
  forall t th, get_thread t (ths (is_st i)) = Some th -> scan_link T t th.

(* an annotated record m: it responds to the query, the query's start event is the last event of the thread before
   m, and m is not a linearization point *)
Definition q_ok_at (T : list irec) (m : nat) (q : qry K) (a : option (K * V)) : Prop :=
  exists t b sev, b < m /\ at_ T b (fun r => r_tid r = t /\ r_ev r = [sev]) /\ start_qry sev q /\
    none_in T (busy t) (S b) m /\ at_ T m (fun r => r_tid r = t /\ resp_ev (r_ev r) a /\ r_lp r = None).
Definition QOk (T : list irec) (Q : list qa_t) : Prop :=
  forall m q a, nth_error Q m = Some (Some (q, a)) -> q_ok_at T m q a.

(* every record with a Scan-step response is annotated *)
Definition QAll (T : list irec) (Q : list qa_t) : Prop :=
  length Q = length T /\
  forall m r, nth_error T m = Some r -> existsb is_scan_ev (r_ev r) = true -> exists qa, nth_error Q m = Some (Some qa).

Definition SInv (T : list irec) (Q : list qa_t) (i : istate) : Prop := ScanLink T i /\ QOk T Q /\ QAll T Q.

Lemma SInv_init : SInv [] [] (iinit progs).
Proof.
  split; [|split].
  - intros t th Ht Hp. exfalso. apply Hp. exact (get_thread_init K V progs t th Ht).
  - intros m q a H. destruct m; discriminate H.
  - split; [reflexivity|]. intros m r H. destruct m; discriminate H.
Qed.

Lemma SInv_step P0 T Q (i i' : istate) me ev :
  Reach i -> TInv P0 T i -> istep ltb order i me = Some (i', ev) -> SInv T Q i ->
  SInv (T ++ [{| r_tid := me; r_ev := ev; r_lp := istep_lp ltb order i me |}]) (Q ++ [istep_q i me]) i'.
Proof.
  intros HR HT Hi (HL & HQ & (Hlen & HA)).
  set (rc := {| r_tid := me; r_ev := ev; r_lp := istep_lp ltb order i me |}).
  pose proof (Reach_lin i me HR) as Hlin.
  destruct HT as (_ & HLk & _).
  destruct (istep_thread K V ltb order _ _ _ _ Hi) as (th & Hme).
  assert (Hfor : tpc th <> Idle -> exists o rest, prog th = o :: rest /\ pc_for (tpc th) o).
  { intros Hp. destruct (HLk _ _ Hme Hp) as (a & o & rest & Hpr & Hfor & _). eauto. }
  destruct (istep_kind K V ltb order _ _ _ _ _ Hi Hlin Hme Hfor) as (th' & Hme' & HK).
  destruct (istep_unfold Hi) as (s' & acq & Hs & Est & _).
  assert (Hlen' : length (T ++ [rc]) = S (length T)) by (rewrite app_length; simpl; lia).
  pose proof (istep_q_spec i i' me ev th HR Hi Hme) as Hsem.
  destruct (Reach_st i HR) as (sched0 & Ereach).
  split; [|split].
  - (* ScanLink *)
    intros t th1 Ht. destruct (Nat.eq_dec t me) as [->|Hne].
    + rewrite Hme' in Ht. inversion Ht; subst th1. intros Hnid k cnt rest Hpr.
      destruct HK as [o rest0 Hidle Hpr0 Eev Hpc' Hpr' Hlp Hg'
                     |o rest0 Hnidle Hpr0 Hq Hfor' Hpr' Hlp
                     |o rest0 r Hnidle Hpr0 Hr Hidle' Hpr' Hlp Hres].
      * (* invocation *)
        rewrite Hpr' in Hpr. inversion Hpr; subst o rest0. exists (length T). split.
        -- apply at_last. split; [reflexivity|]. cbn [rc r_ev]. rewrite Eev, Hpc'. reflexivity.
        -- rewrite Hlen'. apply none_in_empty. lia.
      * (* the call continues *)
        rewrite Hpr' in Hpr. inversion Hpr; subst o rest0.
        destruct (HL me th Hme Hnidle k cnt rest Hpr0) as (b & Hb & Hnone).
        assert (Hme'' : get_thread me (ths s') = Some th') by (rewrite <- Est; exact Hme').
        destruct Hq as [Eev|[e Eev]].
        -- subst ev. rewrite (yielded_silent (is_st i) s' me acq th th' Hs Hme Hme'').
           exists b. split; [apply at_app_l1; exact Hb|]. rewrite Hlen'.
           apply none_in_snoc; [exact Hnone|]. intros [_ X]. apply X. reflexivity.
        -- subst ev.
           rewrite (yielded_pair sched0 (is_st i) s' me acq [EPair e] e th th' Ereach Hs (or_introl eq_refl) Hme Hme'').
           exists (length T). split.
           ++ apply at_last. split; reflexivity.
           ++ rewrite Hlen'. apply none_in_empty. lia.
      * exfalso. apply Hnid. exact Hidle'.
    + destruct (istep_other K V ltb order _ _ _ _ _ Hi Hne) as [E1 _]. rewrite E1 in Ht.
      intros Hnid k cnt rest Hpr. destruct (HL t th1 Ht Hnid k cnt rest Hpr) as (b & Hb & Hnone).
      exists b. split; [apply at_app_l1; exact Hb|]. rewrite Hlen'.
      apply none_in_snoc; [exact Hnone|]. intros [X _]. apply Hne. symmetry. exact X.
  - (* QOk *)
    intros m q a Hm. destruct (Nat.lt_ge_cases m (length Q)) as [Hlt|Hge].
    + rewrite nth_error_app1 in Hm by exact Hlt.
      destruct (HQ m q a Hm) as (t & b & sev & Hbm & Hb & Hsq & Hnone & Hat).
      exists t, b, sev. split; [exact Hbm|]. split; [apply at_app_l1; exact Hb|]. split; [exact Hsq|].
      split; [apply none_in_app_l; [lia|exact Hnone]|apply at_app_l1; exact Hat].
    + rewrite nth_error_app2 in Hm by exact Hge.
      destruct (m - length Q) as [|d] eqn:Ed; [|destruct d; discriminate Hm]. simpl in Hm. inversion Hm as [Hq].
      assert (Em : m = length T) by lia. subst m.
      destruct Hsem as [[_ Hnone]|(k & cnt & rest & q0 & a0 & Hpr & Hcur & Hsq & Hiq & Hresp & Hlp)];
        [rewrite Hnone in Hq; discriminate Hq|].
      rewrite Hiq in Hq. inversion Hq; subst q0 a0.
      assert (Hnid : tpc th <> Idle) by (intros E; rewrite E in Hcur; discriminate Hcur).
      destruct (HL me th Hme Hnid k cnt rest Hpr) as (b & Hb & Hnone).
      exists me, b, (start_ev k cnt (yielded (tpc th))).
      split; [apply at_lt in Hb; exact Hb|]. split; [apply at_app_l1; exact Hb|].
      split; [eapply scan_q_start; eauto|].
      split; [apply none_in_app_l; [lia|exact Hnone]|].
      apply at_last. cbn [rc r_tid r_ev r_lp]. split; [reflexivity|]. split; assumption.
  - (* QAll *)
    split; [rewrite !app_length, Hlen; reflexivity|].
    intros m r Hm Hev. destruct (Nat.lt_ge_cases m (length T)) as [Hlt|Hge].
    + rewrite nth_error_app1 in Hm by exact Hlt. destruct (HA m r Hm Hev) as (qa & Hqa).
      exists qa. rewrite nth_error_app1 by lia. exact Hqa.
    + rewrite nth_error_app2 in Hm by exact Hge.
      destruct (m - length T) as [|d] eqn:Ed; [|destruct d; discriminate Hm]. simpl in Hm. inversion Hm; subst r.
      cbn [rc r_ev] in Hev.
      destruct Hsem as [[Hno _]|(k & cnt & rest & q0 & a0 & _ & _ & _ & Hiq & _)]; [congruence|].
      exists (q0, a0). rewrite nth_error_app2 by lia. replace (m - length Q) with 0 by lia. simpl. rewrite Hiq. reflexivity.
Qed.

(* ---- along an execution ---- *)
Lemma SInv_exec P0 : forall sched (i : istate) T Q,
  Reach i -> TInv P0 T i -> SInv T Q i ->
  TInv P0 (T ++ itrace ltb order i sched) (iexec ltb order i sched) /\
  SInv (T ++ itrace ltb order i sched) (Q ++ qtrace i sched) (iexec ltb order i sched).
Proof.
  induction sched as [|t r IH]; intros i T Q HR HT HSI; cbn [itrace qtrace iexec].
  - rewrite !app_nil_r. split; assumption.
  - destruct (istep ltb order i t) as [[i' ev]|] eqn:Hi.
    + change (T ++ {| r_tid := t; r_ev := ev; r_lp := istep_lp ltb order i t |} :: itrace ltb order i' r)
        with (T ++ [{| r_tid := t; r_ev := ev; r_lp := istep_lp ltb order i t |}] ++ itrace ltb order i' r).
      change (Q ++ istep_q i t :: qtrace i' r) with (Q ++ [istep_q i t] ++ qtrace i' r).
      rewrite !app_assoc. apply IH.
      * eapply Reach_step; eauto.
      * apply TInv_step; [apply Reach_lin; exact HR|exact Hi|exact HT].
      * eapply SInv_step; eauto.
    + rewrite !app_nil_r. split; assumption.
Qed.

Theorem SInv_reach sched :
  TInv (P0 K V progs) (itrace ltb order (iinit progs) sched) (iexec ltb order (iinit progs) sched) /\
  SInv (itrace ltb order (iinit progs) sched) (qtrace (iinit progs) sched) (iexec ltb order (iinit progs) sched).
Proof.
  change (itrace ltb order (iinit progs) sched) with ([] ++ itrace ltb order (iinit progs) sched).
  change (qtrace (iinit progs) sched) with ([] ++ qtrace (iinit progs) sched).
  apply SInv_exec; [exact Reach_init|exact (TInv_init K V order H4 progs)|exact SInv_init].
Qed.

(* the run of the extended specification along the whole trace starts from the empty map *)
Theorem legal_q_history sched :
  snd (run_q ltb [] (map fst (items_of (itrace ltb order (iinit progs) sched) (qtrace (iinit progs) sched)))) =
  map snd (items_of (itrace ltb order (iinit progs) sched) (qtrace (iinit progs) sched)).
Proof.
  pose proof (run_q_trace sched (iinit progs)) as H. change (is_abs (iinit progs)) with (@nil (K * V)) in H.
  rewrite H. reflexivity.
Qed.

End STrace.

Arguments Reach {K V} ltb order progs i.
Arguments scan_q {K V} th.
Arguments resp_ev {K V} ev a.
Arguments istep_q {K V} ltb order i me.
Arguments qtrace {K V} ltb order i sched.
Arguments rec_item {K V} r qa.
Arguments items_of {K V} T Q.
Arguments busy {K V} t r.
Arguments start_ev {K V} k cnt y.
Arguments start_qry {K V} sev q.
Arguments q_ok_at {K V} T m q a.
Arguments QOk {K V} T Q.
Arguments QAll {K V} T Q.
Arguments ScanLink {K V} T i.
Arguments SInv {K V} T Q i.

(* Lin.v — abstraction function and linearization points of the concurrent model (definitions only).
   [abs s] is the map the tree denotes (placeholder entries written by an Update that has not yet run its
   callback's store are not part of it); [lp_step] says whether a step is the linearization point of the
   stepping thread's call, and with which specification operation.  Validated executably on every step the
   scheduled correspondence replays; the proof obligations are stated in LinProof.v. *)
From Coq Require Import List Bool PeanoNat.
From GB Require Export Conc CInv Spec.
Import ListNotations.
Set Implicit Arguments.

Section Lin.
Variables (K V : Type) (ltb : K -> K -> bool).
Notation st := (st K V).

(* keys inserted with a foreign value by an Update whose callback is still running (Go stores the key first) *)
Definition placeholder_keys (s : st) : list K :=
  flat_map (fun e => match tpc (snd e) with
                     | UpdCallback o _ (S (S _)) _ => [key_of o]
                     | _ => [] end) (ths s).

Definition abs (s : st) : list (K * V) :=
  filter (fun e => negb (existsb (fun k => eqvb ltb k (fst e)) (placeholder_keys s))) (entries (erase_ids (tr s))).

(* the key is below the separator of node x: a Search that holds x reached it by clamping and is decided "absent" *)
Definition below_lo (k : K) (x : id) (t : itree K V) : bool :=
  match bounds x t with Some (Some l, _) => ltb k l | _ => false end.

Definition returns (ev : list (event K V)) : option (ores K V) :=
  match flat_map (fun e => match e with EReturn r => [r] | _ => [] end) ev with r :: _ => Some r | [] => None end.

Definition is_leaf_at (x : id) (t : itree K V) : bool := match Conc.find x t with Some (ILeaf _ _ _) => true | _ => false end.

(* linearization point of the step s --me--> s' (with acquired lock acq and events ev): the spec operation that
   takes effect, if any.  For Search the result promised at an early linearization point is "absent". *)
Definition lp_step (s : st) (me : tid) (acq : option (option id)) (ev : list (event K V)) (s' : st) : option (op K V) :=
  match get_thread me (ths s), get_thread me (ths s') with
  | Some th, Some th' =>
    match tpc th, prog th with
    | Idle, _ | WantT _, _ => None
    | p, o :: _ =>
      match o with
      | CInsert k v => match returns ev with Some _ => Some (OInsert k v) | None => None end
      | CUpdate k f => match returns ev with Some _ => Some (OUpdate k f) | None => None end
      | CDelete k =>
        match p, acq with
        | WantRoot _ _, _ => if is_leaf_at (nid (tr s)) (tr s) then Some (ODelete k) else None
        | DelWantChild _ _, Some (Some c) => if is_leaf_at c (tr s) then Some (ODelete k) else None
        | _, _ => None
        end
      | CSearch k =>
        let decided := match p with SeaWantChild _ pn _ => below_lo k pn (tr s) | _ => false end in
        if decided then None else
        match returns ev with
        | Some _ => Some (OSearch k)
        | None => match tpc th' with
                  | SeaWantChild _ pn' _ => if below_lo k pn' (tr s') then Some (OSearch k) else None
                  | _ => None end
        end
      | CScan _ _ => None
      end
    | _, [] => None
    end
  | _, _ => None
  end.

End Lin.

(* UpdLemmas.v — structural facts about [find], [upd], [ids] and [node_view] on identity-carrying trees.
   The tree is flattened to the list [nodes t] of (identity, own fields); under NoDup (ids t) the view of a
   node is a lookup in that list, and [upd] rewrites one contiguous segment of it. *)
From Coq Require Import List Permutation Lia Bool PeanoNat.
From GB Require Import ListLemmas TreeLemmas Frame.
Import ListNotations.

(* ---------- multiplicities in lists of identities ---------- *)
Fixpoint cnt (l : list id) (x : id) : nat :=
  match l with [] => 0 | a :: r => (if a =? x then 1 else 0) + cnt r x end.

Lemma cnt_app a b x : cnt (a ++ b) x = cnt a x + cnt b x.
Proof. induction a as [|y a IH]; simpl; [reflexivity|]. rewrite IH. lia. Qed.

Lemma cnt_in l x : In x l <-> 1 <= cnt l x.
Proof.
  induction l as [|a l IH]; simpl; [split; [tauto|lia]|].
  destruct (a =? x) eqn:E.
  - apply Nat.eqb_eq in E. split; [lia|auto].
  - apply Nat.eqb_neq in E. rewrite IH. split; [intros [H|H]; [congruence|lia] | intros H; right; lia].
Qed.

Lemma cnt_notin l x : ~ In x l <-> cnt l x = 0.
Proof. rewrite cnt_in. lia. Qed.

Lemma cnt_nodup l : NoDup l <-> forall x, cnt l x <= 1.
Proof.
  induction l as [|a l IH]; simpl.
  - split; [intros _ x; lia | constructor].
  - split.
    + intros H x. inversion H as [|? ? Hni Hnd]; subst. destruct (a =? x) eqn:E.
      * apply Nat.eqb_eq in E. subst. apply cnt_notin in Hni. lia.
      * pose proof (proj1 IH Hnd x). lia.
    + intros H. constructor.
      * apply cnt_notin. specialize (H a). rewrite Nat.eqb_refl in H. lia.
      * apply IH. intros x. specialize (H x). lia.
Qed.

Lemma NoDup_app_remove_l (a b : list id) : NoDup (a ++ b) -> NoDup b.
Proof. rewrite !cnt_nodup. intros H x. specialize (H x). rewrite cnt_app in H. lia. Qed.
Lemma NoDup_app_remove_r (a b : list id) : NoDup (a ++ b) -> NoDup a.
Proof. rewrite !cnt_nodup. intros H x. specialize (H x). rewrite cnt_app in H. lia. Qed.
Lemma NoDup_app_disj (a b : list id) x : NoDup (a ++ b) -> In x a -> In x b -> False.
Proof. rewrite cnt_nodup, !cnt_in. intros H Ha Hb. specialize (H x). rewrite cnt_app in H. lia. Qed.

Lemma cnt_firstn_skipn (A : Type) (g : A -> list id) (l : list A) n x :
  cnt (flat_map g l) x = cnt (flat_map g (firstn n l)) x + cnt (flat_map g (skipn n l)) x.
Proof. rewrite <- cnt_app, <- flat_map_app, firstn_skipn. reflexivity. Qed.

Lemma cnt_firstn_le (A : Type) (g : A -> list id) (l : list A) n x :
  cnt (flat_map g (firstn n l)) x <= cnt (flat_map g l) x.
Proof. rewrite (cnt_firstn_skipn A g l n x). lia. Qed.

(* ---------- more lists split at an index ---------- *)
Lemma nth_error_split2 {A} (l : list A) i a b :
  nth_error l i = Some a -> nth_error l (i + 1) = Some b ->
  exists l1 l2, l = l1 ++ a :: b :: l2 /\ length l1 = i.
Proof.
  intros Ha Hb. destruct (nth_error_split l i Ha) as [l1 [l2 [E L]]]. subst l.
  exists l1. rewrite <- L in Hb. rewrite nth_error_app2 in Hb by lia.
  replace (length l1 + 1 - length l1) with 1 in Hb by lia. simpl in Hb.
  destruct l2 as [|b' l2]; [discriminate|]. simpl in Hb. inversion Hb; subst. exists l2. auto.
Qed.

Lemma set_nth_app1 {A} (a : list A) x y z b : set_nth (length a + 1) z (a ++ x :: y :: b) = a ++ x :: z :: b.
Proof.
  replace (a ++ x :: y :: b) with ((a ++ [x]) ++ y :: b) by (rewrite <- app_assoc; reflexivity).
  replace (length a + 1) with (length (a ++ [x])) by (rewrite app_length; reflexivity).
  rewrite set_nth_app. rewrite <- app_assoc. reflexivity.
Qed.

Lemma del_nth_app {A} (a : list A) x b : del_nth (length a) (a ++ x :: b) = a ++ b.
Proof. unfold del_nth. now rewrite firstn_app_len, skipn_S_app_len. Qed.

Lemma del_nth_app1 {A} (a : list A) x y b : del_nth (length a + 1) (a ++ x :: y :: b) = a ++ x :: b.
Proof.
  replace (a ++ x :: y :: b) with ((a ++ [x]) ++ y :: b) by (rewrite <- app_assoc; reflexivity).
  replace (length a + 1) with (length (a ++ [x])) by (rewrite app_length; reflexivity).
  rewrite del_nth_app. rewrite <- app_assoc. reflexivity.
Qed.

Lemma ins_nth_app1 {A} (a : list A) x z b : ins_nth (length a + 1) z (a ++ x :: b) = a ++ x :: z :: b.
Proof.
  replace (a ++ x :: b) with ((a ++ [x]) ++ b) by (rewrite <- app_assoc; reflexivity).
  replace (length a + 1) with (length (a ++ [x])) by (rewrite app_length; reflexivity).
  rewrite ins_nth_app. rewrite <- app_assoc. reflexivity.
Qed.

Lemma nth_error_app_len {A} (a : list A) x b : nth_error (a ++ x :: b) (length a) = Some x.
Proof. induction a; simpl; auto. Qed.

Lemma nth_error_app_len1 {A} (a : list A) x y b : nth_error (a ++ x :: y :: b) (length a + 1) = Some y.
Proof. induction a; simpl; auto. Qed.

Lemma get_nth_Ok {A} (l : list A) i a : get_nth i l = Ok a -> nth_error l i = Some a.
Proof. unfold get_nth. destruct (nth_error l i); intros H; inversion H; reflexivity. Qed.

Section Upd.
Variables (K V : Type).
Notation itree := (itree K V).
Notation view := (view K V).

(* ---------- induction over the nested type ---------- *)
Section Ind.
Variable P : itree -> Prop.
Hypothesis HL : forall i nx es, P (ILeaf i nx es).
Hypothesis HN : forall i cs, Forall (fun c => P (snd c)) cs -> P (INode i cs).
Fixpoint itree_ind2 (t : itree) : P t :=
  match t with
  | ILeaf i nx es => HL i nx es
  | INode i cs => HN i cs ((fix go (cs : list (K * itree)) : Forall (fun c => P (snd c)) cs :=
       match cs with [] => Forall_nil _ | c :: r => Forall_cons c (itree_ind2 (snd c)) (go r) end) cs)
  end.
End Ind.

(* ---------- named versions of the local fixpoints ---------- *)
Definition findl (x : id) : list (K * itree) -> option itree :=
  fix go cs := match cs with [] => None | (_, c) :: r => match find x c with Some y => Some y | None => go r end end.
Definition updl (x : id) (f : itree -> res itree) : list (K * itree) -> res (list (K * itree)) :=
  fix go cs := match cs with [] => Ok [] | (s, c) :: r => c' <- upd x f c ;; r' <- go r ;; Ok ((s, c') :: r') end.

Lemma find_eq x (t : itree) :
  find x t = if nid t =? x then Some t else match t with ILeaf _ _ _ => None | INode _ cs => findl x cs end.
Proof. destruct t; reflexivity. Qed.

Lemma upd_eq x f (t : itree) :
  upd x f t = if nid t =? x then f t else
              match t with ILeaf _ _ _ => Ok t | INode i cs => cs' <- updl x f cs ;; Ok (INode i cs') end.
Proof. destruct t; reflexivity. Qed.

Lemma findl_cons x s (c : itree) r :
  findl x ((s, c) :: r) = match find x c with Some y => Some y | None => findl x r end.
Proof. reflexivity. Qed.

Lemma updl_cons x f s (c : itree) r :
  updl x f ((s, c) :: r) = (c' <- upd x f c ;; r' <- updl x f r ;; Ok ((s, c') :: r')).
Proof. reflexivity. Qed.

(* ---------- the flattened tree ---------- *)
Fixpoint nodes (t : itree) : list (id * view) :=
  match t with
  | ILeaf i nx es => [(i, VLeaf nx es)]
  | INode i cs => (i, VNode V (map (fun c => (fst c, nid (snd c))) cs)) :: flat_map (fun c => nodes (snd c)) cs
  end.

Definition idsl (cs : list (K * itree)) : list id := flat_map (fun c => ids (snd c)) cs.
Definition nodesl (cs : list (K * itree)) : list (id * view) := flat_map (fun c => nodes (snd c)) cs.
Definition ptrs (cs : list (K * itree)) : list (K * id) := map (fun c => (fst c, nid (snd c))) cs.

Lemma ids_node i cs : ids (INode i cs) = i :: idsl cs.
Proof. reflexivity. Qed.
Lemma nodes_node i cs : nodes (INode i cs) = (i, VNode V (ptrs cs)) :: nodesl cs.
Proof. reflexivity. Qed.
Lemma nodes_hd (t : itree) : exists r, nodes t = (nid t, view_of t) :: r.
Proof. destruct t; simpl; eauto. Qed.

Lemma idsl_app a b : idsl (a ++ b) = idsl a ++ idsl b.
Proof. apply flat_map_app. Qed.
Lemma nodesl_app a b : nodesl (a ++ b) = nodesl a ++ nodesl b.
Proof. apply flat_map_app. Qed.
Lemma idsl_cons c r : idsl (c :: r) = ids (snd c) ++ idsl r.
Proof. reflexivity. Qed.
Lemma nodesl_cons c r : nodesl (c :: r) = nodes (snd c) ++ nodesl r.
Proof. reflexivity. Qed.
Lemma ptrs_app a b : ptrs (a ++ b) = ptrs a ++ ptrs b.
Proof. apply map_app. Qed.

Lemma map_fst_nodes (t : itree) : map fst (nodes t) = ids t.
Proof.
  induction t as [i nx es|i cs IH] using itree_ind2; simpl; [reflexivity|]. f_equal.
  induction cs as [|c r IHr]; simpl; [reflexivity|].
  inversion IH as [|? ? H1 H2]; subst. rewrite map_app, H1, IHr; auto.
Qed.

Lemma map_fst_nodesl cs : map fst (nodesl cs) = idsl cs.
Proof.
  induction cs as [|c r IH]; [reflexivity|].
  rewrite nodesl_cons, idsl_cons, map_app, map_fst_nodes, IH. reflexivity.
Qed.

Lemma nid_in_ids (t : itree) : In (nid t) (ids t).
Proof. destruct t; simpl; auto. Qed.

Lemma in_nodes_ids x v (t : itree) : In (x, v) (nodes t) -> In x (ids t).
Proof. intros H. rewrite <- map_fst_nodes. apply in_map_iff. exists (x, v). auto. Qed.

(* ---------- find ---------- *)
Lemma find_none x (t : itree) : ~ In x (ids t) -> find x t = None.
Proof.
  induction t as [i nx es|i cs IH] using itree_ind2; intros Hn; rewrite find_eq; simpl nid.
  - destruct (i =? x) eqn:E; [|reflexivity]. apply Nat.eqb_eq in E. subst. exfalso. apply Hn. simpl. auto.
  - destruct (i =? x) eqn:E.
    + apply Nat.eqb_eq in E. subst. exfalso. apply Hn. simpl. auto.
    + rewrite ids_node in Hn. assert (Hn' : ~ In x (idsl cs)) by (intro; apply Hn; right; auto). clear Hn E.
      induction cs as [|[s c] r IHr]; [reflexivity|].
      inversion IH as [|? ? H1 H2]; subst. rewrite findl_cons. rewrite idsl_cons, in_app_iff in Hn'. simpl in *.
      rewrite H1 by tauto. apply IHr; tauto.
Qed.

(* the found node sits in a contiguous segment of the flattened tree *)
Lemma find_split x (t n : itree) :
  find x t = Some n ->
  nid n = x /\ exists pre post, nodes t = pre ++ nodes n ++ post.
Proof.
  revert n. induction t as [i nx es|i cs IH] using itree_ind2; intros n Hf; rewrite find_eq in Hf; simpl nid in Hf.
  - destruct (i =? x) eqn:E; [|discriminate]. inversion Hf; subst. apply Nat.eqb_eq in E.
    split; [exact E|]. exists [], []. rewrite app_nil_r. reflexivity.
  - destruct (i =? x) eqn:E.
    + inversion Hf; subst. apply Nat.eqb_eq in E. split; [exact E|]. exists [], []. rewrite app_nil_r. reflexivity.
    + clear E. rewrite nodes_node.
      assert (H : nid n = x /\ exists pre post, nodesl cs = pre ++ nodes n ++ post).
      { induction cs as [|[s c] r IHr]; [discriminate|].
        inversion IH as [|? ? H1 H2]; subst. rewrite findl_cons in Hf. simpl in H1.
        destruct (find x c) as [y|] eqn:Ec.
        - inversion Hf; subst y. destruct (H1 n eq_refl) as [Hn [pre [post Hp]]]. split; [exact Hn|].
          exists pre, (post ++ nodesl r). rewrite nodesl_cons. simpl. rewrite Hp. rewrite <- !app_assoc. reflexivity.
        - destruct (IHr H2 Hf) as [Hn [pre [post Hp]]]. split; [exact Hn|].
          exists (nodes c ++ pre), post. rewrite nodesl_cons. simpl. rewrite Hp. rewrite <- !app_assoc. reflexivity. }
      destruct H as [Hn [pre [post Hp]]]. split; [exact Hn|].
      exists ((i, VNode V (ptrs cs)) :: pre), post. rewrite Hp. reflexivity.
Qed.

Lemma find_nid x (t n : itree) : find x t = Some n -> nid n = x.
Proof. intros H. apply find_split in H. tauto. Qed.

Lemma find_ids_split x (t n : itree) :
  find x t = Some n -> exists pre post, ids t = pre ++ ids n ++ post.
Proof.
  intros H. apply find_split in H. destruct H as [_ [pre [post H]]].
  exists (map fst pre), (map fst post). rewrite <- !map_fst_nodes, H, !map_app. reflexivity.
Qed.

Lemma find_in_nodes x (t n : itree) : find x t = Some n -> In (x, view_of n) (nodes t).
Proof.
  intros H. apply find_split in H. destruct H as [Hn [pre [post H]]]. rewrite H.
  apply in_or_app. right. apply in_or_app. left. destruct (nodes_hd n) as [r ->]. rewrite Hn. left. reflexivity.
Qed.

Lemma find_in_ids x (t n : itree) : find x t = Some n -> In x (ids t).
Proof. intros H. eapply in_nodes_ids. eapply find_in_nodes. eauto. Qed.

Lemma find_sub_ids x (t n : itree) y : find x t = Some n -> In y (ids n) -> In y (ids t).
Proof. intros H Hy. destruct (find_ids_split _ _ _ H) as [pre [post ->]]. rewrite !in_app_iff. auto. Qed.

Lemma find_sub_nodup x (t n : itree) : find x t = Some n -> NoDup (ids t) -> NoDup (ids n).
Proof.
  intros H Hnd. destruct (find_ids_split _ _ _ H) as [pre [post E]]. rewrite E in Hnd.
  apply NoDup_app_remove_l in Hnd. apply NoDup_app_remove_r in Hnd. exact Hnd.
Qed.

Lemma find_some_iff x (t : itree) : In x (ids t) <-> find x t <> None.
Proof.
  split.
  - intros Hin Hf. revert Hin Hf. induction t as [i nx es|i cs IH] using itree_ind2; intros Hin Hf; rewrite find_eq in Hf; simpl nid in Hf.
    + simpl in Hin. destruct Hin as [->|[]]. rewrite Nat.eqb_refl in Hf. discriminate.
    + destruct (i =? x) eqn:E; [discriminate|]. apply Nat.eqb_neq in E.
      rewrite ids_node in Hin. destruct Hin as [Hin|Hin]; [congruence|]. clear E.
      induction cs as [|[s c] r IHr]; [destruct Hin|].
      inversion IH as [|? ? H1 H2]; subst. rewrite findl_cons in Hf. rewrite idsl_cons, in_app_iff in Hin. simpl in *.
      destruct (find x c) eqn:Ec; [discriminate|]. destruct Hin as [Hin|Hin]; [apply H1; auto | apply IHr; auto].
  - intros Hf. destruct (find x t) eqn:E; [|congruence]. eapply find_in_ids; eauto.
Qed.

(* ---------- node_view as a lookup ---------- *)
Lemma view_in_nodes x v (t : itree) : node_view x t = Some v -> In (x, v) (nodes t).
Proof.
  unfold node_view. destruct (find x t) eqn:E; simpl; [|discriminate]. intros H. inversion H; subst.
  eapply find_in_nodes; eauto.
Qed.

Lemma nodes_functional (t : itree) x v1 v2 :
  NoDup (ids t) -> In (x, v1) (nodes t) -> In (x, v2) (nodes t) -> v1 = v2.
Proof.
  rewrite <- map_fst_nodes. generalize (nodes t). induction l as [|[y w] l IH]; simpl; intros Hnd H1 H2; [tauto|].
  inversion Hnd as [|? ? Hni Hnd']; subst.
  destruct H1 as [H1|H1]; destruct H2 as [H2|H2].
  - congruence.
  - inversion H1; subst. exfalso. apply Hni. apply in_map_iff. exists (x, v2). auto.
  - inversion H2; subst. exfalso. apply Hni. apply in_map_iff. exists (x, v1). auto.
  - eauto.
Qed.

Lemma nodes_view x v (t : itree) : NoDup (ids t) -> In (x, v) (nodes t) -> node_view x t = Some v.
Proof.
  intros Hnd Hin. pose proof (in_nodes_ids _ _ _ Hin) as Hi. apply find_some_iff in Hi.
  unfold node_view. destruct (find x t) as [n|] eqn:E; [|congruence]. simpl. f_equal.
  eapply nodes_functional; eauto. eapply find_in_nodes; eauto.
Qed.

Lemma view_none x (t : itree) : node_view x t = None <-> ~ In x (ids t).
Proof.
  unfold node_view. rewrite find_some_iff. destruct (find x t); simpl; split; intros H; try congruence.
  all: try (exfalso; apply H; discriminate).
Qed.

Lemma view_some_in x v (t : itree) : node_view x t = Some v -> In x (ids t).
Proof. intros H. eapply in_nodes_ids. eapply view_in_nodes. eauto. Qed.

Lemma view_eq x (t t' : itree) :
  NoDup (ids t) -> NoDup (ids t') ->
  (forall v, In (x, v) (nodes t') <-> In (x, v) (nodes t)) -> node_view x t' = node_view x t.
Proof.
  intros H1 H2 H. destruct (node_view x t') as [v'|] eqn:E'.
  - apply view_in_nodes in E'. apply H in E'. symmetry. apply nodes_view; auto.
  - destruct (node_view x t) as [v|] eqn:E; [|reflexivity].
    apply view_in_nodes in E. apply H in E. apply nodes_view in E; auto. congruence.
Qed.

(* ---------- upd ---------- *)
Lemma upd_notin x f (t : itree) : ~ In x (ids t) -> upd x f t = Ok t.
Proof.
  induction t as [i nx es|i cs IH] using itree_ind2; intros Hn; rewrite upd_eq; simpl nid.
  - destruct (i =? x) eqn:E; [|reflexivity]. apply Nat.eqb_eq in E. subst. exfalso. apply Hn. simpl. auto.
  - destruct (i =? x) eqn:E.
    + apply Nat.eqb_eq in E. subst. exfalso. apply Hn. simpl. auto.
    + rewrite ids_node in Hn. assert (Hn' : ~ In x (idsl cs)) by (intro; apply Hn; right; auto). clear Hn E.
      assert (H : updl x f cs = Ok cs).
      { induction cs as [|[s c] r IHr]; [reflexivity|].
        inversion IH as [|? ? H1 H2]; subst. rewrite updl_cons. rewrite idsl_cons, in_app_iff in Hn'. simpl in *.
        rewrite H1 by tauto. simpl. rewrite IHr by tauto. reflexivity. }
      rewrite H. reflexivity.
Qed.

Lemma updl_notin x f cs : ~ In x (idsl cs) -> updl x f cs = Ok cs.
Proof.
  induction cs as [|[s c] r IHr]; intros Hn; [reflexivity|].
  rewrite updl_cons. rewrite idsl_cons, in_app_iff in Hn. simpl in *.
  rewrite upd_notin by tauto. simpl. rewrite IHr by tauto. reflexivity.
Qed.

(* [upd] rewrites exactly the segment of the found node; everything else, including the child pointers of the
   ancestors, is untouched *)
Lemma upd_nodes x (n n' : itree) : nid n' = nid n -> forall (t t' : itree),
  NoDup (ids t) -> find x t = Some n -> upd x (fun _ => Ok n') t = Ok t' ->
  nid t' = nid t /\ exists pre post, nodes t = pre ++ nodes n ++ post /\ nodes t' = pre ++ nodes n' ++ post.
Proof.
  intros Hnn. induction t as [i nx es|i cs IH] using itree_ind2; intros t' Hnd Hf Hu;
    rewrite find_eq in Hf; rewrite upd_eq in Hu; simpl nid in *.
  - destruct (i =? x) eqn:E; [|discriminate]. inversion Hf; inversion Hu; subst.
    split; [exact Hnn|]. exists [], []. rewrite !app_nil_r. auto.
  - destruct (i =? x) eqn:E.
    + inversion Hf; inversion Hu; subst. split; [exact Hnn|]. exists [], []. rewrite !app_nil_r. auto.
    + clear E. rewrite ids_node in Hnd. inversion Hnd as [|? ? _ Hnd']; subst. clear Hnd.
      assert (H : forall cs', updl x (fun _ => Ok n') cs = Ok cs' ->
                ptrs cs' = ptrs cs /\ exists pre post, nodesl cs = pre ++ nodes n ++ post /\ nodesl cs' = pre ++ nodes n' ++ post).
      { clear Hu t'. induction cs as [|[s c] r IHr]; intros cs' Hu; [discriminate|].
        inversion IH as [|? ? H1 H2]; subst. rewrite findl_cons in Hf. rewrite updl_cons in Hu. simpl in H1.
        rewrite idsl_cons in Hnd'. simpl in Hnd'.
        destruct (find x c) as [y|] eqn:Ec.
        - inversion Hf; subst y.
          assert (Hxr : ~ In x (idsl r)).
          { intro Hin. apply find_in_ids in Ec. eapply NoDup_app_disj; eauto. }
          destruct (upd x (fun _ => Ok n') c) as [c'|] eqn:Euc; [simpl in Hu|discriminate].
          rewrite updl_notin in Hu by exact Hxr. simpl in Hu. inversion Hu; subst cs'.
          destruct (H1 c' (NoDup_app_remove_r _ _ Hnd') eq_refl eq_refl) as [Hn [pre [post [P1 P2]]]].
          split; [unfold ptrs; simpl; rewrite Hn; reflexivity|].
          exists pre, (post ++ nodesl r). rewrite !nodesl_cons. simpl. rewrite P1, P2, <- !app_assoc. auto.
        - assert (Hxc : ~ In x (ids c)) by (rewrite find_some_iff; intro X; apply X; exact Ec).
          rewrite upd_notin in Hu by exact Hxc. simpl in Hu.
          destruct (updl x (fun _ => Ok n') r) as [r'|] eqn:Eur; [simpl in Hu|discriminate]. inversion Hu; subst cs'.
          destruct (IHr H2 Hf (NoDup_app_remove_l _ _ Hnd') r' eq_refl) as [Hp [pre [post [P1 P2]]]].
          split; [unfold ptrs in *; simpl; rewrite Hp; reflexivity|].
          exists (nodes c ++ pre), post. rewrite !nodesl_cons. simpl. rewrite P1, P2, <- !app_assoc. auto. }
      destruct (updl x (fun _ => Ok n') cs) as [cs'|] eqn:Eu; [simpl in Hu|discriminate]. inversion Hu; subst t'.
      destruct (H cs' eq_refl) as [Hp [pre [post [P1 P2]]]]. split; [reflexivity|].
      exists ((i, VNode V (ptrs cs)) :: pre), post. rewrite !nodes_node, Hp, P1, P2. auto.
Qed.

End Upd.

Arguments nodes {K V}. Arguments idsl {K V}. Arguments nodesl {K V}. Arguments ptrs {K V}.
Arguments findl {K V}. Arguments updl {K V}.

(* EraseLemmas.v — structural lemmas relating the identity-carrying tree of the concurrent model with the
   sequential tree: one-hole contexts, find/upd through a context, uniqueness of identities, the leaf chain,
   and erase_ids versus the node-level operations (split, smallest, count, adopt, absorb, rebalance). *)
From Coq Require Import List Bool Lia PeanoNat Permutation.
From GB Require Import Model Inv ListLemmas TreeLemmas Conc GI.
Import ListNotations.

(* ------------------------------------------------------------------------------------------------ *)
(* lists                                                                                              *)
(* ------------------------------------------------------------------------------------------------ *)
Lemma nodup_app_iff {A} (a b : list A) :
  NoDup (a ++ b) <-> NoDup a /\ NoDup b /\ (forall x, In x a -> ~ In x b).
Proof.
  induction a as [|x a IH]; simpl.
  - split; [intros H; split; [constructor|split; [exact H|auto]]|tauto].
  - split.
    + intros H. inversion H as [|? ? Hn Hd]; subst. apply IH in Hd. destruct Hd as (Ha & Hb & Hab).
      split; [constructor; [intros Hi; apply Hn; apply in_or_app; now left|exact Ha]|].
      split; [exact Hb|]. intros y [<-|Hy]; [intros Hi; apply Hn; apply in_or_app; now right|now apply Hab].
    + intros (Ha & Hb & Hab). inversion Ha as [|? ? Hn Hd]; subst. constructor.
      * intros Hi. apply in_app_or in Hi. destruct Hi as [Hi|Hi]; [now apply Hn|]. apply (Hab x); auto.
      * apply IH. split; [exact Hd|]. split; [exact Hb|]. intros y Hy. apply Hab. now right.
Qed.

Lemma nth_error_split2 {A} (l : list A) j a b :
  nth_error l j = Some a -> nth_error l (S j) = Some b ->
  exists pre post, l = pre ++ a :: b :: post /\ length pre = j.
Proof.
  intros Ha Hb. destruct (nth_error_split l j Ha) as (pre & post & -> & Hl).
  exists pre. subst j.
  replace (S (length pre)) with (length pre + 1) in Hb by lia.
  rewrite nth_error_app2 in Hb by lia. replace (length pre + 1 - length pre) with 1 in Hb by lia.
  destruct post as [|b' post]; simpl in Hb; [discriminate|]. inversion Hb; subst. exists post. auto.
Qed.

Lemma nth_error_app_len {A} (a : list A) x b : nth_error (a ++ x :: b) (length a) = Some x.
Proof. induction a; simpl; auto. Qed.
Lemma nth_error_app_len1 {A} (a : list A) x y b : nth_error (a ++ x :: y :: b) (S (length a)) = Some y.
Proof. induction a; simpl; auto. Qed.
Lemma set_nth_app1 {A} (a : list A) x y z b : set_nth (S (length a)) z (a ++ x :: y :: b) = a ++ x :: z :: b.
Proof.
  replace (a ++ x :: y :: b) with ((a ++ [x]) ++ y :: b) by (rewrite <- app_assoc; reflexivity).
  replace (S (length a)) with (length (a ++ [x])) by (rewrite app_length; simpl; lia).
  rewrite set_nth_app. rewrite <- app_assoc. reflexivity.
Qed.
Lemma del_nth_app {A} (a : list A) x b : del_nth (length a) (a ++ x :: b) = a ++ b.
Proof. unfold del_nth. now rewrite firstn_app_len, skipn_S_app_len. Qed.
Lemma del_nth_app1 {A} (a : list A) x y b : del_nth (S (length a)) (a ++ x :: y :: b) = a ++ x :: b.
Proof.
  replace (a ++ x :: y :: b) with ((a ++ [x]) ++ y :: b) by (rewrite <- app_assoc; reflexivity).
  replace (S (length a)) with (length (a ++ [x])) by (rewrite app_length; simpl; lia).
  rewrite del_nth_app. rewrite <- app_assoc. reflexivity.
Qed.

Section E.
Variables (K V : Type).
Notation itree := (itree K V).
Notation tree := (tree K V).
Notation cfind := (@Conc.find K V).

(* ------------------------------------------------------------------------------------------------ *)
(* induction on itree                                                                                 *)
(* ------------------------------------------------------------------------------------------------ *)
Section ItreeInd.
Variable P : itree -> Prop.
Hypothesis HL : forall i nx es, P (ILeaf i nx es).
Hypothesis HN : forall i cs, Forall (fun c => P (snd c)) cs -> P (INode i cs).
Fixpoint itree_ind' (t : itree) : P t :=
  match t with
  | ILeaf i nx es => HL i nx es
  | INode i cs => HN i cs ((fix go (cs : list (K * itree)) : Forall (fun c => P (snd c)) cs :=
                         match cs with
                         | [] => Forall_nil _
                         | (s, c) :: r => @Forall_cons _ (fun c => P (snd c)) (s, c) r (itree_ind' c) (go r)
                         end) cs)
  end.
End ItreeInd.

Definition ids_list (cs : list (K * itree)) : list id := flat_map (fun c => ids (snd c)) cs.
Definition links_list (cs : list (K * itree)) : list (id * option id) := flat_map (fun c => leaf_links (snd c)) cs.
Definition erase_cs (cs : list (K * itree)) : list (K * tree) := map (fun c => (fst c, erase_ids (snd c))) cs.

Lemma ids_node i cs : ids (INode i cs) = i :: ids_list cs.
Proof. reflexivity. Qed.
Lemma links_node i cs : leaf_links (INode i cs) = links_list cs.
Proof. reflexivity. Qed.
Lemma erase_node i cs : erase_ids (INode i cs) = Node (erase_cs cs).
Proof. reflexivity. Qed.
Lemma ids_list_app a b : ids_list (a ++ b) = ids_list a ++ ids_list b.
Proof. apply flat_map_app. Qed.
Lemma links_list_app a b : links_list (a ++ b) = links_list a ++ links_list b.
Proof. apply flat_map_app. Qed.
Lemma erase_cs_app a b : erase_cs (a ++ b) = erase_cs a ++ erase_cs b.
Proof. apply map_app. Qed.
Lemma ids_list_cons s c r : ids_list ((s, c) :: r) = ids c ++ ids_list r.
Proof. reflexivity. Qed.
Lemma links_list_cons s c r : links_list ((s, c) :: r) = leaf_links c ++ links_list r.
Proof. reflexivity. Qed.
Lemma erase_cs_cons s c r : erase_cs ((s, c) :: r) = (s, erase_ids c) :: erase_cs r.
Proof. reflexivity. Qed.
Lemma erase_cs_length cs : length (erase_cs cs) = length cs.
Proof. apply map_length. Qed.
Lemma erase_cs_fst cs : map fst (erase_cs cs) = map fst cs.
Proof. unfold erase_cs. rewrite map_map. reflexivity. Qed.
Lemma nid_in_ids (t : itree) : In (nid t) (ids t).
Proof. destruct t; simpl; auto. Qed.

(* ------------------------------------------------------------------------------------------------ *)
(* find / upd                                                                                         *)
(* ------------------------------------------------------------------------------------------------ *)
Fixpoint find_list (x : id) (cs : list (K * itree)) : option itree :=
  match cs with [] => None | (_, c) :: r => match cfind x c with Some y => Some y | None => find_list x r end end.
Fixpoint upd_list (x : id) (f : itree -> res itree) (cs : list (K * itree)) : res (list (K * itree)) :=
  match cs with [] => Ok [] | (s, c) :: r => c' <- upd x f c ;; r' <- upd_list x f r ;; Ok ((s, c') :: r') end.

Lemma find_node x i cs : cfind x (INode i cs) = if i =? x then Some (INode i cs) else find_list x cs.
Proof.
  simpl. destruct (i =? x); [reflexivity|].
  induction cs as [|[s c] r IH]; simpl; [reflexivity|]. destruct (cfind x c); [reflexivity|exact IH].
Qed.
Lemma upd_node x f i cs :
  upd x f (INode i cs) = if i =? x then f (INode i cs) else cs' <- upd_list x f cs ;; Ok (INode i cs').
Proof.
  simpl. destruct (i =? x); [reflexivity|]. f_equal.
  induction cs as [|[s c] r IH]; simpl; [reflexivity|]. destruct (upd x f c); simpl; [|reflexivity].
  rewrite IH. reflexivity.
Qed.
Lemma find_self (t : itree) : cfind (nid t) t = Some t.
Proof. destruct t; simpl; rewrite Nat.eqb_refl; reflexivity. Qed.
Lemma upd_self f (t : itree) : upd (nid t) f t = f t.
Proof. destruct t; simpl; rewrite Nat.eqb_refl; reflexivity. Qed.

Lemma find_notin x : forall t : itree, ~ In x (ids t) -> cfind x t = None.
Proof.
  induction t as [i nx es|i cs IH] using itree_ind'; intros Hn.
  - simpl in *. destruct (i =? x) eqn:E; [apply Nat.eqb_eq in E; tauto|reflexivity].
  - rewrite find_node. rewrite ids_node in Hn. simpl in Hn.
    destruct (i =? x) eqn:E; [apply Nat.eqb_eq in E; tauto|].
    assert (Hn' : ~ In x (ids_list cs)) by tauto. clear Hn E.
    induction cs as [|[s c] r IHr]; simpl; [reflexivity|].
    inversion IH as [|? ? Hc Hr]; subst. rewrite ids_list_cons in Hn'.
    simpl in Hc. rewrite Hc by (intros Hi; apply Hn'; apply in_or_app; now left).
    apply IHr; [exact Hr|]. intros Hi; apply Hn'; apply in_or_app; now right.
Qed.
Lemma find_list_notin x cs : ~ In x (ids_list cs) -> find_list x cs = None.
Proof.
  induction cs as [|[s c] r IH]; cbn [find_list]; [reflexivity|]. rewrite ids_list_cons. intros Hn.
  rewrite find_notin by (intros Hi; apply Hn; apply in_or_app; now left).
  apply IH. intros Hi; apply Hn; apply in_or_app; now right.
Qed.
Lemma find_list_app x a b :
  find_list x (a ++ b) = match find_list x a with Some y => Some y | None => find_list x b end.
Proof. induction a as [|[s c] a IH]; simpl; [reflexivity|]. destruct (cfind x c); [reflexivity|exact IH]. Qed.

Lemma upd_notin x f : forall t : itree, ~ In x (ids t) -> upd x f t = Ok t.
Proof.
  induction t as [i nx es|i cs IH] using itree_ind'; intros Hn.
  - simpl in *. destruct (i =? x) eqn:E; [apply Nat.eqb_eq in E; tauto|reflexivity].
  - rewrite upd_node. rewrite ids_node in Hn. simpl in Hn.
    destruct (i =? x) eqn:E; [apply Nat.eqb_eq in E; tauto|].
    assert (Hn' : ~ In x (ids_list cs)) by tauto. clear Hn E.
    assert (Hl : upd_list x f cs = Ok cs); [|rewrite Hl; reflexivity].
    induction cs as [|[s c] r IHr]; simpl; [reflexivity|].
    inversion IH as [|? ? Hc Hr]; subst. rewrite ids_list_cons in Hn'.
    simpl in Hc. rewrite Hc by (intros Hi; apply Hn'; apply in_or_app; now left). simpl.
    rewrite IHr; [reflexivity|exact Hr|]. intros Hi; apply Hn'; apply in_or_app; now right.
Qed.
Lemma upd_list_notin x f cs : ~ In x (ids_list cs) -> upd_list x f cs = Ok cs.
Proof.
  induction cs as [|[s c] r IH]; cbn [upd_list]; [reflexivity|]. rewrite ids_list_cons. intros Hn.
  rewrite upd_notin by (intros Hi; apply Hn; apply in_or_app; now left). simpl.
  rewrite IH; [reflexivity|]. intros Hi; apply Hn; apply in_or_app; now right.
Qed.
Lemma upd_list_app x f a b :
  upd_list x f (a ++ b) = a' <- upd_list x f a ;; b' <- upd_list x f b ;; Ok (a' ++ b').
Proof.
  induction a as [|[s c] a IH]; simpl.
  - destruct (upd_list x f b); reflexivity.
  - destruct (upd x f c); simpl; [|reflexivity]. rewrite IH.
    destruct (upd_list x f a); simpl; [|reflexivity]. destruct (upd_list x f b); reflexivity.
Qed.

(* ------------------------------------------------------------------------------------------------ *)
(* one-hole contexts, innermost frame first                                                           *)
(* ------------------------------------------------------------------------------------------------ *)
Record cframe := { cid : id; cpre : list (K * itree); csep : K; cpost : list (K * itree) }.
Definition plug1 (cf : cframe) (x : itree) : itree := INode (cid cf) (cpre cf ++ (csep cf, x) :: cpost cf).
Fixpoint plug (C : list cframe) (x : itree) : itree :=
  match C with [] => x | cf :: C' => plug C' (plug1 cf x) end.
Definition cf_ids (cf : cframe) : list id := cid cf :: ids_list (cpre cf) ++ ids_list (cpost cf).
Definition ctx_ids (C : list cframe) : list id := flat_map cf_ids C.

Lemma ctx_ids_cons cf C : ctx_ids (cf :: C) = cf_ids cf ++ ctx_ids C.
Proof. reflexivity. Qed.

Lemma ids_plug1 cf x : ids (plug1 cf x) = cid cf :: ids_list (cpre cf) ++ ids x ++ ids_list (cpost cf).
Proof. unfold plug1. rewrite ids_node, ids_list_app, ids_list_cons. reflexivity. Qed.

Lemma perm_plug1 cf x X : Permutation (ids (plug1 cf x) ++ X) (ids x ++ cf_ids cf ++ X).
Proof.
  rewrite ids_plug1. unfold cf_ids. simpl.
  apply Permutation_cons_app. rewrite <- !app_assoc.
  rewrite (app_assoc (ids_list (cpre cf)) (ids x)). rewrite (app_assoc (ids x) (ids_list (cpre cf))).
  apply Permutation_app_tail. apply Permutation_app_comm.
Qed.

(* identities unique and below the allocation counter, for a subtree in its context *)
Definition wfc (C : list cframe) (sub : itree) (fr : id) : Prop :=
  NoDup (ids sub ++ ctx_ids C) /\ Forall (fun i => i < fr) (ids sub ++ ctx_ids C).

Lemma wfc_push cf C x fr : wfc C (plug1 cf x) fr <-> wfc (cf :: C) x fr.
Proof.
  unfold wfc. rewrite ctx_ids_cons. pose proof (perm_plug1 cf x (ctx_ids C)) as Hp. split; intros [H1 H2]; split.
  - eapply Permutation_NoDup; [exact Hp|exact H1].
  - eapply Permutation_Forall; [exact Hp|exact H2].
  - eapply Permutation_NoDup; [apply Permutation_sym; exact Hp|exact H1].
  - eapply Permutation_Forall; [apply Permutation_sym; exact Hp|exact H2].
Qed.

Lemma wfc_nil x fr : wfc [] x fr <-> NoDup (ids x) /\ Forall (fun i => i < fr) (ids x).
Proof. unfold wfc. simpl. rewrite app_nil_r. tauto. Qed.

Lemma wfc_notin C sub fr x : wfc C sub fr -> In x (ids sub) -> ~ In x (ctx_ids C).
Proof. intros [H _] Hi. apply nodup_app_iff in H. destruct H as (_ & _ & H). now apply H. Qed.

(* replace the subtree: the new identities are old ones of the subtree or fresh ones *)
Lemma wfc_replace C sub sub2 fr fr2 L :
  wfc C sub fr -> Permutation (ids sub2) (L ++ ids sub) -> NoDup L ->
  Forall (fun x => fr <= x /\ x < fr2) L -> fr <= fr2 -> wfc C sub2 fr2.
Proof.
  intros [Hn Hf] Hp HL HLf Hle.
  assert (Hp2 : Permutation (ids sub2 ++ ctx_ids C) (L ++ ids sub ++ ctx_ids C)).
  { rewrite app_assoc. apply Permutation_app_tail. exact Hp. }
  split.
  - eapply Permutation_NoDup; [apply Permutation_sym; exact Hp2|].
    apply nodup_app_iff. split; [exact HL|]. split; [exact Hn|].
    intros x Hx Hx2. rewrite Forall_forall in Hf, HLf. specialize (Hf x Hx2). specialize (HLf x Hx). lia.
  - eapply Permutation_Forall; [apply Permutation_sym; exact Hp2|].
    apply Forall_app. split.
    + eapply Forall_impl; [|exact HLf]. simpl. intros; lia.
    + eapply Forall_impl; [|exact Hf]. simpl. intros; lia.
Qed.

(* drop identities *)
Lemma wfc_shrink C sub sub2 fr L :
  wfc C sub fr -> Permutation (ids sub) (L ++ ids sub2) -> wfc C sub2 fr.
Proof.
  intros [Hn Hf] Hp.
  assert (Hp2 : Permutation (ids sub ++ ctx_ids C) (L ++ ids sub2 ++ ctx_ids C)).
  { rewrite app_assoc. apply Permutation_app_tail. exact Hp. }
  split.
  - eapply Permutation_NoDup in Hn; [|exact Hp2]. apply nodup_app_iff in Hn. tauto.
  - eapply Permutation_Forall in Hf; [|exact Hp2]. apply Forall_app in Hf. tauto.
Qed.

Lemma wfc_same C sub sub2 fr : wfc C sub fr -> ids sub2 = ids sub -> wfc C sub2 fr.
Proof. unfold wfc. intros H E. rewrite E. exact H. Qed.

Lemma wfc_mono C sub fr fr2 : wfc C sub fr -> fr <= fr2 -> wfc C sub fr2.
Proof. intros [H1 H2] Hle. split; [exact H1|]. eapply Forall_impl; [|exact H2]. simpl. intros; lia. Qed.

Lemma find_in x : forall t : itree, In x (ids t) -> exists y, cfind x t = Some y.
Proof.
  induction t as [i nx es|i cs IH] using itree_ind'; intros Hi.
  - simpl in *. destruct Hi as [->|[]]. rewrite Nat.eqb_refl. eauto.
  - rewrite find_node. destruct (i =? x) eqn:E; [eauto|]. rewrite ids_node in Hi. simpl in Hi.
    destruct Hi as [->|Hi]; [rewrite Nat.eqb_refl in E; discriminate|]. clear E.
    induction cs as [|[s c] r IHr]; [simpl in Hi; tauto|]. cbn [find_list].
    inversion IH as [|? ? Hc Hr]; subst. rewrite ids_list_cons in Hi.
    destruct (cfind x c) eqn:Ef; [eauto|]. apply in_app_or in Hi. destruct Hi as [Hi|Hi].
    + simpl in Hc. destruct (Hc Hi) as [y Hy]. congruence.
    + apply IHr; assumption.
Qed.

Lemma find_plug1 cf sub x :
  In x (ids sub) -> ~ In x (cf_ids cf) -> cfind x (plug1 cf sub) = cfind x sub.
Proof.
  intros Hi Hn. unfold plug1. rewrite find_node. unfold cf_ids in Hn. simpl in Hn.
  destruct (cid cf =? x) eqn:E; [apply Nat.eqb_eq in E; tauto|].
  rewrite find_list_app. rewrite find_list_notin by (intros H; apply Hn; right; apply in_or_app; now left).
  simpl. destruct (find_in x sub Hi) as [y Hy]. rewrite Hy. reflexivity.
Qed.

Lemma find_plug C : forall sub x, In x (ids sub) -> ~ In x (ctx_ids C) -> cfind x (plug C sub) = cfind x sub.
Proof.
  induction C as [|cf C IH]; intros sub x Hi Hn; simpl; [reflexivity|].
  rewrite ctx_ids_cons in Hn. rewrite IH.
  - apply find_plug1; [exact Hi|]. intros H; apply Hn; apply in_or_app; now left.
  - rewrite ids_plug1. right. apply in_or_app. right. apply in_or_app. now left.
  - intros H; apply Hn; apply in_or_app; now right.
Qed.

Lemma find_plug_self C sub fr : wfc C sub fr -> cfind (nid sub) (plug C sub) = Some sub.
Proof.
  intros H. rewrite find_plug; [apply find_self|apply nid_in_ids|].
  eapply wfc_notin; [exact H|apply nid_in_ids].
Qed.

Lemma upd_plug1 cf sub x f :
  ~ In x (cf_ids cf) -> upd x f (plug1 cf sub) = s' <- upd x f sub ;; Ok (plug1 cf s').
Proof.
  intros Hn. unfold plug1. rewrite upd_node. unfold cf_ids in Hn. simpl in Hn.
  destruct (cid cf =? x) eqn:E; [apply Nat.eqb_eq in E; tauto|].
  rewrite upd_list_app. rewrite upd_list_notin by (intros H; apply Hn; right; apply in_or_app; now left).
  simpl. destruct (upd x f sub); simpl; [|reflexivity].
  rewrite upd_list_notin by (intros H; apply Hn; right; apply in_or_app; now right). reflexivity.
Qed.

Lemma upd_plug C : forall sub x f, ~ In x (ctx_ids C) -> upd x f (plug C sub) = s' <- upd x f sub ;; Ok (plug C s').
Proof.
  induction C as [|cf C IH]; intros sub x f Hn; simpl.
  - destruct (upd x f sub); reflexivity.
  - rewrite ctx_ids_cons in Hn. rewrite IH by (intros H; apply Hn; apply in_or_app; now right).
    rewrite upd_plug1 by (intros H; apply Hn; apply in_or_app; now left).
    destruct (upd x f sub); reflexivity.
Qed.

Lemma upd_plug_self C sub fr new :
  wfc C sub fr -> upd (nid sub) (fun _ => Ok new) (plug C sub) = Ok (plug C new).
Proof.
  intros H. rewrite upd_plug by (eapply wfc_notin; [exact H|apply nid_in_ids]).
  rewrite upd_self. reflexivity.
Qed.

Lemma nid_plug C : forall sub : itree, nid (plug C sub) = nid sub \/ In (nid (plug C sub)) (map cid C).
Proof.
  induction C as [|cf C IH]; intros sub; simpl; [now left|].
  destruct (IH (plug1 cf sub)) as [H|H]; [right; left; rewrite H; reflexivity|right; right; exact H].
Qed.

Lemma erase_plug_nil (x : itree) : plug [] x = x.
Proof. reflexivity. Qed.

(* ------------------------------------------------------------------------------------------------ *)
(* the leaf chain                                                                                     *)
(* ------------------------------------------------------------------------------------------------ *)
Lemma chain_cons a l :
  chain_ok (a :: l) <-> (match l with [] => snd a = None | h :: _ => snd a = Some (fst h) end) /\ chain_ok l.
Proof. destruct a as [i nx]. destruct l as [|[j nj] r]; simpl; tauto. Qed.

Definition links_equiv (l l' : list (id * option id)) : Prop :=
  forall A B, chain_ok (A ++ l ++ B) -> chain_ok (A ++ l' ++ B).

Lemma links_equiv_refl l : links_equiv l l.
Proof. intros A B H; exact H. Qed.
Lemma links_equiv_trans a b c : links_equiv a b -> links_equiv b c -> links_equiv a c.
Proof. intros H1 H2 A B H. apply H2, H1, H. Qed.
Lemma links_equiv_ctx X Y l l' : links_equiv l l' -> links_equiv (X ++ l ++ Y) (X ++ l' ++ Y).
Proof.
  intros H A B Hc. specialize (H (A ++ X) (Y ++ B)).
  rewrite <- !app_assoc in *. apply H. exact Hc.
Qed.

Lemma links_equiv_intro l l' :
  l <> [] -> l' <> [] -> fst (hd (0, None) l) = fst (hd (0, None) l') ->
  (forall B, chain_ok (l ++ B) -> chain_ok (l' ++ B)) -> links_equiv l l'.
Proof.
  intros Hl Hl' Hh Hb A B. induction A as [|a A IH]; cbn [app]; [apply Hb|].
  rewrite !chain_cons. intros [H1 H2]. split; [|apply IH; exact H2].
  destruct A as [|a' A']; cbn [app] in *; [|exact H1].
  destruct l as [|x l]; [congruence|]. destruct l' as [|x' l']; [congruence|]. simpl in *.
  rewrite H1. f_equal. exact Hh.
Qed.

Lemma links_split c nx s : links_equiv [(c, nx)] [(c, Some s); (s, nx)].
Proof.
  apply links_equiv_intro; try discriminate; [reflexivity|].
  intros B. cbn [app]. intros H. rewrite chain_cons. split; [reflexivity|].
  rewrite chain_cons in *. exact H.
Qed.
Lemma links_merge a na b nb : links_equiv [(a, na); (b, nb)] [(a, nb)].
Proof.
  apply links_equiv_intro; try discriminate; [reflexivity|].
  intros B. cbn [app]. rewrite !chain_cons. cbn [snd fst]. intros (_ & H1 & H2). tauto.
Qed.

Lemma links_plug1 cf x : leaf_links (plug1 cf x) = links_list (cpre cf) ++ leaf_links x ++ links_list (cpost cf).
Proof. unfold plug1. rewrite links_node, links_list_app, links_list_cons. reflexivity. Qed.

Lemma chain_plug C : forall x y,
  links_equiv (leaf_links x) (leaf_links y) -> chain_ok (leaf_links (plug C x)) -> chain_ok (leaf_links (plug C y)).
Proof.
  induction C as [|cf C IH]; intros x y He; simpl.
  - intros H. specialize (He [] []). simpl in He. rewrite !app_nil_r in He. auto.
  - apply IH. rewrite !links_plug1. apply links_equiv_ctx. exact He.
Qed.

End E.

Arguments ids_list {K V}. Arguments links_list {K V}. Arguments erase_cs {K V}.
Arguments find_list {K V}. Arguments upd_list {K V}.
Arguments cid {K V}. Arguments cpre {K V}. Arguments csep {K V}. Arguments cpost {K V}.
Arguments plug1 {K V}. Arguments plug {K V}. Arguments cf_ids {K V}. Arguments ctx_ids {K V}.
Arguments wfc {K V}.

(* C4_Final.v — property C04 (cursor semantics under concurrent modification) for every REACHABLE state of the
   concurrent model: every premise discharged as in Final.v (strict weak order, even order >= 4, distinct thread
   ids, EVERY schedule).  The theorems are those of C4_Proof.v / C4_Trace.v instantiated with CurInv_reachable. *)
From Coq Require Import List PeanoNat.
From GB Require Import Model Inv Conc GI Lin LinDef C4_Lists C4_Blocks C4_Inv C4_Proof C4_Trace.
Import ListNotations.

Section Final.
Variables (K V : Type) (ltb : K -> K -> bool).
Hypothesis HS : SWO ltb.
Variable order : nat.
Hypothesis Heven : Nat.even order = true.
Hypothesis H4 : 4 <= order.
Variable progs : list (tid * list (cop K V)).
Hypothesis Hnd : NoDup (map fst progs).

(* a reachable state *)
Variable sched : list tid.
Let s := fst (exec ltb order (init_st progs) sched).

Lemma reach_inv : CurInv ltb order s.
Proof. exact (CurInv_reachable K V ltb HS order Heven H4 progs sched Hnd). Qed.

(* (A) the cursor invariant holds *)
Theorem C04_cur_ok : cur_ok ltb s.
Proof. exact (proj2 reach_inv). Qed.

(* (B1) every pair a cursor exposes is stored in the tree at the moment it is returned *)
Theorem C04_stored : forall s' me acq ev e,
  cstep ltb order s me = Stepped s' acq ev -> In (EPair e) ev -> In e (abs ltb s') /\ abs ltb s' = abs ltb s.
Proof.
  intros s' me acq ev e Hc Hin. split.
  - exact (B1_stored K V ltb HS order s s' me acq ev e reach_inv Hc Hin).
  - exact (pair_step_abs K V ltb HS order s s' me acq ev e reach_inv Hc Hin).
Qed.

(* (B2) successive pairs have strictly increasing keys, none below the start key *)
Theorem C04_increasing : forall s' me acq ev e,
  cstep ltb order s me = Stepped s' acq ev -> In (EPair e) ev ->
  exists th th' k cnt,
    get_thread me (ths s) = Some th /\ get_thread me (ths s') = Some th' /\
    hd_error (prog th) = Some (CScan k cnt) /\ prog th' = prog th /\
    is_cur (tpc th) = true /\ is_cur (tpc th') = true /\
    yielded (tpc th') = e :: yielded (tpc th) /\
    kdesc ltb (e :: yielded (tpc th)) /\
    Forall (fun x => ltb (fst x) k = false) (e :: yielded (tpc th)).
Proof. intros s' me acq ev e Hc Hin. exact (B2_increasing K V ltb HS order Heven H4 s s' me acq ev e reach_inv Hc Hin). Qed.

(* (B3) every Scan step after the first is an atomic "smallest stored key greater than the previous one" query *)
Theorem C04_successor : forall s' me acq ev e th e0 rest,
  cstep ltb order s me = Stepped s' acq ev -> In (EPair e) ev ->
  get_thread me (ths s) = Some th -> yielded (tpc th) = e0 :: rest ->
  abs ltb s' = abs ltb s /\ successor_in ltb (abs ltb s) e0 e.
Proof.
  intros s' me acq ev e th e0 rest Hc Hin Hg Hy.
  exact (B3_successor K V ltb HS order s s' me acq ev e th e0 rest reach_inv Hc Hin Hg Hy).
Qed.

(* (B4) end of scan: nothing stored lies above the last pair / at or above the start key *)
Theorem C04_end_after : forall s' me acq ev th e0 rest,
  cstep ltb order s me = Stepped s' acq ev -> In EScanEnd ev ->
  get_thread me (ths s) = Some th -> yielded (tpc th) = e0 :: rest ->
  forall e', In e' (abs ltb s) -> ltb (fst e0) (fst e') = false.
Proof.
  intros s' me acq ev th e0 rest Hc Hin Hg Hy.
  exact (B4_end_after K V ltb HS order s s' me acq ev th e0 rest reach_inv Hc Hin Hg Hy).
Qed.

Theorem C04_end_first : forall s' me acq ev th,
  cstep ltb order s me = Stepped s' acq ev -> In EScanEnd ev ->
  get_thread me (ths s) = Some th -> yielded (tpc th) = [] ->
  exists k cnt, hd_error (prog th) = Some (CScan k cnt) /\ forall e', In e' (abs ltb s) -> ltb (fst e') k = true.
Proof.
  intros s' me acq ev th Hc Hin Hg Hy.
  exact (B4_end_first K V ltb HS order H4 s s' me acq ev th reach_inv Hc Hin Hg Hy).
Qed.

(* (B5) the first pair *)
Theorem C04_first_general : forall s' me acq ev e th leaf k cnt,
  cstep ltb order s me = Stepped s' acq ev -> In (EPair e) ev ->
  get_thread me (ths s) = Some th -> cur_leaf (tpc th) = Some leaf -> yielded (tpc th) = [] ->
  hd_error (prog th) = Some (CScan k cnt) ->
  In e (abs ltb s) /\ ltb (fst e) k = false /\
  forall e', In e' (abs ltb s) -> ltb (fst e') k = false -> below_lo ltb (fst e') leaf (tr s) = false ->
    ltb (fst e') (fst e) = false.
Proof.
  intros s' me acq ev e th leaf k cnt Hc Hin Hg Hl Hy Hpr.
  exact (B5_first_general K V ltb HS order H4 s s' me acq ev e th leaf k cnt reach_inv Hc Hin Hg Hl Hy Hpr).
Qed.

Theorem C04_first : forall s' me acq ev e th leaf k cnt,
  cstep ltb order s me = Stepped s' acq ev -> In (EPair e) ev ->
  get_thread me (ths s) = Some th -> cur_leaf (tpc th) = Some leaf -> yielded (tpc th) = [] ->
  hd_error (prog th) = Some (CScan k cnt) -> below_lo ltb k leaf (tr s) = false ->
  In e (abs ltb s) /\ ltb (fst e) k = false /\
  forall e', In e' (abs ltb s) -> ltb (fst e') k = false -> ltb (fst e') (fst e) = false.
Proof.
  intros s' me acq ev e th leaf k cnt Hc Hin Hg Hl Hy Hpr Hlo.
  exact (B5_first K V ltb HS order H4 s s' me acq ev e th leaf k cnt reach_inv Hc Hin Hg Hl Hy Hpr Hlo).
Qed.

(* completeness: a pair that stays stored while the scan runs (and is above the last pair yielded, or not below the
   start key of a scan that has not yielded anything and did not land by clamping) is among the pairs the scan
   returns when it reports its end *)
Theorem C04_complete : forall sched2 me x s2 acq ev,
  along K V ltb order (fun s1 => In x (abs ltb s1) /\ scanning K V me s1) s sched2 ->
  Cov K V ltb me x s ->
  cstep ltb order (fst (exec ltb order s sched2)) me = Stepped s2 acq ev -> In EScanEnd ev ->
  exists acc, In x acc /\ ev = [EScanEnd; EReturn (RPairs (rev acc))].
Proof.
  intros sched2 me x s2 acq ev Hal Hcov Hc Hin.
  exact (scan_complete K V ltb HS order Heven H4 sched2 s me x s2 acq ev reach_inv Hal Hcov Hc Hin).
Qed.

End Final.

Print Assumptions C04_cur_ok.
Print Assumptions C04_stored.
Print Assumptions C04_increasing.
Print Assumptions C04_successor.
Print Assumptions C04_end_after.
Print Assumptions C04_end_first.
Print Assumptions C04_first_general.
Print Assumptions C04_first.
Print Assumptions C04_complete.

(* OCCc_Cex.v — the statement of occ_step WITHOUT the strengthened DelWantRight clause is false:
   a state satisfying CIfull and all_inv whose step breaks minimum occupancy (K = V = nat, order 4). *)
From Coq Require Import List Permutation Lia Bool PeanoNat.
From GB Require Import Frame LockProof FrameInv FrameProof CInv CIDef OCCc_Blocks.
Import ListNotations.

Definition cexF : frame := {| fp := 1; fidx := 0; fl := None; fc := Some 2 |}.
(* the child (leaf 2) of the Delete in flight has 0 = minSize - 2 entries; its right sibling has 3 *)
Definition cexS : st nat nat :=
  {| tr := INode 1 [(0, ILeaf 2 (Some 3) []); (5, ILeaf 3 None [(5, 5); (6, 6); (7, 7)])];
     tm := Some 0; lk := [(1, 0); (2, 0)]; fresh := 4;
     ths := [(0, {| prog := [CDelete 1]; tpc := DelWantRight (CDelete 1) [cexF]; results := [] |})] |}.

Lemma cexS_GI : GI Nat.ltb 4 cexS.
Proof.
  unfold GI, cexS. simpl.
  split; [repeat constructor; simpl; intuition discriminate|].
  split; [repeat constructor|].
  split.
  { unfold Inv.lt, Inv.le. simpl. repeat split; repeat constructor. }
  split; [repeat split; discriminate|].
  split; [repeat split; lia|].
  split; reflexivity.
Qed.

Lemma cexS_inv2 : lock_inv2 nat nat cexS.
Proof.
  split.
  - unfold lock_inv, cexS. simpl.
    split; [repeat constructor; simpl; intuition discriminate|].
    split; [repeat constructor; simpl; tauto|].
    split; [intros x t [H|[H|[]]]; inversion H; subst; eexists; reflexivity|].
    split; [intros t H; inversion H; subst; eexists; reflexivity|].
    intros t th H. apply one_thread in H. destruct H as [-> ->]. simpl.
    split; [discriminate|]. split; [apply Permutation_refl | tauto].
  - intros t th H. apply one_thread in H. destruct H as [-> ->]. simpl. split; [reflexivity | discriminate].
Qed.

Lemma cexS_CIfull : CIfull Nat.ltb 4 cexS.
Proof.
  split; [split; [exact cexS_GI | split; [exact cexS_inv2 | vm_compute; reflexivity]] | vm_compute; reflexivity].
Qed.

Lemma cexS_all_inv : all_inv nat nat cexS.
Proof.
  split; [|split; [exact cexS_inv2|]].
  - unfold ids_ok, cexS. simpl. split; repeat constructor; simpl; intuition discriminate.
  - intros t th H. apply one_thread in H. destruct H as [-> ->]. simpl.
    split; [lia|]. split; [intros X; simpl in X; lia|]. split; [|split; exact I].
    exists 2. split; [reflexivity|]. intros vcs Hv. vm_compute in Hv. inversion Hv; subst. eexists. reflexivity.
Qed.

(* occupancy is lost: after borrowing ONE entry from the right sibling the child still has only 1 < 2 entries,
   but [irebalance] reports "not small" and the exemption ends *)
Theorem occ_step_needs_strengthening :
  exists (s s' : st nat nat) acq ev,
    Nat.even 4 = true /\ 4 <= 4 /\ CIfull Nat.ltb 4 s /\ all_inv nat nat s /\
    cstep Nat.ltb 4 s 0 = Stepped s' acq ev /\ occ_ok_b 4 s' = false /\ all_small_b 4 s = false.
Proof.
  exists cexS. eexists. eexists. eexists.
  split; [reflexivity|]. split; [lia|]. split; [exact cexS_CIfull|]. split; [exact cexS_all_inv|].
  split; [vm_compute; reflexivity|]. split; vm_compute; reflexivity.
Qed.

(* no_crash needs all_op_b: CIfull and all_inv do not say that the operation recorded in a callback pc is an Update *)
Definition cexOp : st nat nat :=
  {| tr := ILeaf 0 None []; tm := None; lk := [(0, 0)]; fresh := 1;
     ths := [(0, {| prog := [CInsert 1 1]; tpc := UpdCallback (CInsert 1 1) 0 0 0; results := [] |})] |}.

Lemma cexOp_inv2 : lock_inv2 nat nat cexOp.
Proof.
  split.
  - unfold lock_inv, cexOp. simpl.
    split; [repeat constructor; simpl; tauto|].
    split; [repeat constructor; simpl; tauto|].
    split; [intros x t [H|[]]; inversion H; subst; eexists; reflexivity|].
    split; [intros t H; discriminate H|].
    intros t th H. apply one_thread in H. destruct H as [-> ->]. simpl.
    split; [exact I|]. split; [apply Permutation_refl | split; discriminate].
  - intros t th H. apply one_thread in H. destruct H as [-> ->]. exact I.
Qed.

Theorem no_crash_needs_all_op :
  exists (s : st nat nat) p,
    CIfull Nat.ltb 4 s /\ all_inv nat nat s /\ all_small_b 4 s = true /\ all_op_b s = false /\
    cstep Nat.ltb 4 s 0 = Crash p.
Proof.
  exists cexOp. eexists.
  split.
  { split; [split; [|split; [exact cexOp_inv2 | vm_compute; reflexivity]] | vm_compute; reflexivity].
    unfold GI, cexOp. simpl. split; [repeat constructor; simpl; tauto|]. split; [repeat constructor|]. repeat split; lia. }
  split.
  { split; [|split; [exact cexOp_inv2|]].
    - unfold ids_ok, cexOp. simpl. split; repeat constructor; simpl; tauto.
    - intros t th H. apply one_thread in H. destruct H as [-> ->]. exact I. }
  split; [vm_compute; reflexivity|]. split; vm_compute; reflexivity.
Qed.

Print Assumptions occ_step_needs_strengthening.
Print Assumptions no_crash_needs_all_op.

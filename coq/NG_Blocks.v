(* NG_Blocks.v — every tree-changing atomic block of the concurrent model preserves nogap_b. *)
From Coq Require Import List Bool Lia PeanoNat Permutation.
From GB Require Import Model Inv ListLemmas SearchProof TreeLemmas Conc GI LockInv LockProof CInv
  EraseLemmas EraseOps SoloInsert SoloDelete GIa1_Ctx GIa1_Local GIa1_Blocks GIa2_Seq GIa2_Proof OCCc_Blocks OCCc_Reb NoGap
  NG_Lemmas NG_Reb.
From GB Require FrameRel UpdLemmas.
Import ListNotations.

Ltac ngcrunch H :=
  repeat (match type of H with
  | bind ?e _ = Ok _ => let E := fresh "E" in destruct e eqn:E; [cbn [bind] in H | discriminate H]
  | (let '(_, _) := ?p in _) = Ok _ => destruct p
  | (if ?c then _ else _) = Ok _ => let E := fresh "E" in destruct c eqn:E
  | match ?e with _ => _ end = Ok _ => let E := fresh "E" in destruct e eqn:E; try discriminate H
  end).

Section Blocks.
Variables (K V : Type) (ltb : K -> K -> bool).
Hypothesis HS : SWO ltb.
Notation itree := (itree K V).
Notation cframe := (cframe K V).
Notation out := (out K V).
Notation cop := (cop K V).
Notation nogap_b := (nogap_b ltb).
Notation sep_ok := (sep_ok K V ltb).
Notation entry_ok := (entry_ok K V ltb).
Notation ng_entries := (ng_entries K V ltb).
Notation hole_lm := (hole_lm K V).
Notation nonempty := (nonempty K V).
Notation rng := (rng ltb).

Lemma upd_leaf_nogap x i nx es (t t' : itree) L :
  upd x (fun _ => Ok (ILeaf i nx es)) t = Ok t' -> nogap_b L t = true -> nogap_b L t' = true.
Proof. intros H. apply (proj2 (upd_leaf_ng K V ltb x i nx es t t' H)). Qed.

(* ------------------------------------------------------------------------------------------------ *)
(* ins_descend, UpdCallback: only leaves are written                                                  *)
(* ------------------------------------------------------------------------------------------------ *)
Lemma ins_descend_ng (o : cop) n (t : itree) l fr tmx (out : out) :
  ins_descend ltb o n t l fr tmx = Ok out -> nogap_b true t = true -> nogap_b true (otr out) = true.
Proof.
  intros H Hn. unfold ins_descend, mk in H.
  ngcrunch H; inversion H; subst; clear H; cbn [otr]; try exact Hn;
    (eapply upd_leaf_nogap; [eassumption|exact Hn]).
Qed.

Lemma upd_cb_ng (o : cop) leaf mode index (t : itree) l0 fr tm0 (out : out) :
  upd_cb_blk K V o leaf mode index t l0 fr tm0 = Ok out -> nogap_b true t = true -> nogap_b true (otr out) = true.
Proof.
  intros H Hn. unfold upd_cb_blk, mk in H.
  ngcrunch H; inversion H; subst; clear H; cbn [otr]; try exact Hn;
    (eapply upd_leaf_nogap; [eassumption|exact Hn]).
Qed.

(* ------------------------------------------------------------------------------------------------ *)
(* WantRoot (Insert / Update)                                                                         *)
(* ------------------------------------------------------------------------------------------------ *)
Lemma root_ng order (o : cop) r (t : itree) l0 fr tm0 (out : out) :
  root_blk K V ltb order o r t l0 fr tm0 = Ok out -> nogap_b true t = true -> nogap_b true (otr out) = true.
Proof.
  intros H Hn. unfold root_blk in H.
  destruct (isplit order fr t) as [[lft rgt]|] eqn:Hisp; [|eapply ins_descend_ng; eauto].
  destruct (ismallest lft) as [ls|] eqn:Els; [|discriminate H]. cbn [bind] in H.
  destruct (ismallest rgt) as [rs|] eqn:Ers; [|discriminate H]. cbn [bind] in H.
  destruct (isplit_ng K V ltb HS order fr true t lft rgt Hisp Hn) as (A1 & A2 & _ & A4).
  set (ls' := if ltb (key_of o) ls then key_of o else ls) in *.
  assert (Hn2 : nogap_b true (INode (S fr) [(ls', lft); (rs, rgt)]) = true).
  { rewrite nogap_node. cbn [NG_Lemmas.ng_entries forallb]. unfold NG_Lemmas.entry_ok. cbn [fst snd].
    rewrite sep_ok_true, A1, A2, (A4 _ Ers). reflexivity. }
  destruct (ltb (key_of o) rs).
  - eapply ins_descend_ng; eauto.
  - unfold mk in H. inversion H; subst; clear H. cbn [otr]. exact Hn2.
Qed.

(* ------------------------------------------------------------------------------------------------ *)
(* InsWantChild                                                                                       *)
(* ------------------------------------------------------------------------------------------------ *)
Lemma ins_child_ng order (o : cop) p c index (t : itree) l0 fr tm0 (out : out) :
  NoDup (ids t) -> Forall (fun i => i < fr) (ids t) ->
  pc_ok_b ltb order t (InsWantChild o p c index) = true -> nogap_b true t = true ->
  ins_child_blk2 K V ltb order o p c index t l0 fr tm0 = Ok out -> nogap_b true (otr out) = true.
Proof.
  intros Hnd Hlt Hpc Hng H. unfold ins_child_blk2 in H. cbn [pc_ok_b] in Hpc.
  destruct (Conc.find p t) as [[?|pi cs]|] eqn:Hfp; try discriminate Hpc.
  apply andb_true_iff in Hpc. destruct Hpc as [Hpc Hrange].
  apply andb_true_iff in Hpc. destruct Hpc as [Hpc Hnth].
  destruct (nth_error cs index) as [[s0 ch]|] eqn:Hn; [|discriminate Hnth]. apply Nat.eqb_eq in Hnth.
  destruct (nth_error_split cs index Hn) as (pre & post & -> & Hlpre).
  assert (Hfc : Conc.find c t = Some ch).
  { subst c. eapply FrameRel.find_child; eauto. apply in_or_app; right; left; reflexivity. }
  rewrite Hfc in H.
  destruct (find_in_range K V ltb p t _ fr (key_of o) Hnd Hlt Hfp Hrange) as (C & -> & Hw & Hp & Hk).
  cbn [nid] in Hp. subst pi.
  rewrite <- Hlpre in H. rewrite get_nth_app in H. cbn [bind] in H.
  set (sep' := if length pre =? 0 then (if ltb (key_of o) s0 then key_of o else s0) else s0) in *.
  assert (Hupd : forall cs2, upd p (fun _ => Ok (INode p cs2)) (plug C (INode p (pre ++ (s0, ch) :: post)))
                             = Ok (plug C (INode p cs2))).
  { intros cs2. apply (upd_plug_self K V C _ fr _ Hw). }
  destruct (nogap_plug_inv K V ltb C _ Hng) as [HnN HsN].
  set (fl := hole_lm C && isnil pre).
  assert (Hsep : sep' = s0 \/ fl = true).
  { unfold sep', fl. destruct pre as [|e pre']; [|left; reflexivity]. cbn [length Nat.eqb isnil].
    destruct (hole_lm C) eqn:EL; [right; reflexivity|]. left.
    destruct C as [|cf C']; [discriminate EL|]. try rewrite EL in HsN.
    unfold NG_Lemmas.sep_ok in HsN. cbn [first_sep app orb] in HsN.
    destruct Hk as [Hlo _]. cbn [cbounds fst ge_lo] in Hlo. apply negb_true_iff in Hlo.
    unfold eqvb in HsN. apply andb_true_iff in HsN. destruct HsN as [_ X]. apply negb_true_iff in X.
    rewrite (swo_negtrans HS _ _ _ Hlo X). reflexivity. }
  rewrite nogap_node, ng_entries_app in HnN. fold fl in HnN.
  apply andb_true_iff in HnN. destruct HnN as [HnN P3]. apply andb_true_iff in HnN. destruct HnN as [P1 P2].
  unfold NG_Lemmas.entry_ok in P2. cbn [fst snd] in P2. apply andb_true_iff in P2. destruct P2 as [Q1 Q2].
  assert (Hrepl : forall (X : itree) post',
             (forall ex s, sep_ok ex s ch = true -> sep_ok ex s X = true) ->
             nogap_b fl X = true -> forallb (entry_ok false) post' = true ->
             nogap_b true (plug C (INode p (pre ++ (sep', X) :: post'))) = true).
  { intros X post' HX1 HX2 HX3. eapply nogap_plug_repl; [exact Hng| |].
    - intros s. destruct Hsep as [->|Hfl].
      + rewrite (sep_ok_same K V ltb _ s _ _ (first_sep_pair K V p pre s0 ch X post post')). tauto.
      + destruct pre as [|e pre'].
        * unfold fl in Hfl. apply andb_true_iff in Hfl. destruct Hfl as [-> _]. intros _. apply sep_ok_true.
        * unfold fl in Hfl. rewrite andb_false_r in Hfl. discriminate Hfl.
    - rewrite nogap_node, ng_entries_app. fold fl. rewrite P1, HX3, andb_true_r. cbn [andb].
      unfold NG_Lemmas.entry_ok. cbn [fst snd]. rewrite HX2, andb_true_r.
      destruct Hsep as [->|Hfl]; [apply HX1; exact Q1|rewrite Hfl; apply sep_ok_true]. }
  destruct (isplit order fr ch) as [[lft rgt]|] eqn:Hisp.
  - destruct (ismallest rgt) as [rs|] eqn:Ers; [|discriminate H]. cbn [bind] in H.
    rewrite set_nth_app, SoloInsert.ins_nth_app1, Hupd in H. cbn [bind] in H.
    destruct (isplit_ng K V ltb HS order fr fl ch lft rgt Hisp Q2) as (A1 & A2 & A3 & A4).
    assert (Hn2 : nogap_b true (plug C (INode p (pre ++ (sep', lft) :: (rs, rgt) :: post))) = true).
    { apply Hrepl; [exact A3|exact A1|]. cbn [forallb]. rewrite P3, andb_true_r.
      unfold NG_Lemmas.entry_ok. cbn [fst snd]. rewrite (A4 _ Ers), A2. reflexivity. }
    destruct (ltb (key_of o) rs).
    + eapply ins_descend_ng; eauto.
    + unfold mk in H. inversion H; subst; clear H. cbn [otr]. exact Hn2.
  - rewrite set_nth_app, Hupd in H. cbn [bind] in H.
    eapply ins_descend_ng; [exact H|]. apply Hrepl; [tauto|exact Q2|exact P3].
Qed.

End Blocks.

(* ------------------------------------------------------------------------------------------------ *)
(* Delete: rebalancing and the unwinding of the deleteKey activations                                 *)
(* ------------------------------------------------------------------------------------------------ *)
Section Del.
Variables (K V : Type) (ltb : K -> K -> bool).
Hypothesis HS : SWO ltb.
Variable order : nat.
Hypothesis H4 : 4 <= order.
Notation itree := (itree K V).
Notation cframe := (cframe K V).
Notation out := (out K V).
Notation cop := (cop K V).
Notation nogap_b := (nogap_b ltb).
Notation sep_ok := (sep_ok K V ltb).
Notation entry_ok := (entry_ok K V ltb).
Notation ng_entries := (ng_entries K V ltb).
Notation hole_lm := (hole_lm K V).
Notation nonempty := (nonempty K V).
Notation fmatch := (fmatch K V).
Notation m := (Nat.div2 order).

Lemma m_ge2 : 2 <= m.
Proof. destruct order as [|[|[|[|n]]]]; try lia. simpl. lia. Qed.

Lemma plug_inj (C : list cframe) : forall a b : itree, plug C a = plug C b -> a = b.
Proof.
  induction C as [|cf C IH]; intros a b H; cbn [plug] in H; [exact H|].
  apply IH in H. unfold plug1 in H. inversion H as [E]. apply app_inv_head in E. inversion E. reflexivity.
Qed.

Lemma icount_nonempty (a : itree) : 0 < icount a -> nonempty a.
Proof. destruct a as [i nx es|i [|e r]]; cbn [icount length NG_Lemmas.nonempty]; [tauto|lia|tauto]. Qed.

Lemma reb_entries_ng L p (cs cs' : list (K * itree)) index child k1 small :
  nth_error cs index = Some (k1, child) -> rebal_core order index cs child = Ok (cs', small) -> nonempty child ->
  ng_entries L cs = true ->
  ng_entries L cs' = true /\ first_sep (INode p cs') = first_sep (INode p cs) /\ cs' <> [].
Proof.
  intros Eg Er Hne Hn. pose proof m_ge2 as Hm2.
  destruct (rebal_core_cases K V order index cs child k1 cs' small ltac:(lia) Eg Er)
    as (A & B & ka & a & kb & b & -> & Hc).
  rewrite ng_entries_pair in Hn.
  apply andb_true_iff in Hn. destruct Hn as [Hn P34]. apply andb_true_iff in Hn. destruct Hn as [P1 P2].
  apply andb_true_iff in P34. destruct P34 as [P3 P4].
  destruct Hc as [(Ea & a' & b' & rs & E1 & E2 & ->) | [(Hc2 & a' & b' & sm & E1 & E2 & ->) | (Hor & ab & E1 & ->)]].
  - subst a. destruct (adoptR_ng K V ltb HS _ ka kb child b a' b' rs E1 E2 Hne P2 P3) as [Q1 Q2].
    split; [|split; [apply first_sep_pair|destruct A; discriminate]].
    rewrite ng_entries_pair, P1, Q1, Q2, P4. reflexivity.
  - destruct (adoptL_ng K V ltb HS _ ka kb a b a' b' sm E1 E2 Hc2 P2 P3) as [Q1 Q2].
    split; [|split; [apply first_sep_pair|destruct A; discriminate]].
    rewrite ng_entries_pair, P1, Q1, Q2, P4. reflexivity.
  - assert (Hna : nonempty a) by (destruct Hor as [->|Hpos]; [exact Hne|apply icount_nonempty; exact Hpos]).
    pose proof (absorb_ng K V ltb _ ka kb a b ab E1 Hna P2 P3) as Q1.
    split; [|split; [apply first_sep_pair|destruct A; discriminate]].
    rewrite ng_entries_app, P1, Q1, P4. reflexivity.
Qed.

Lemma unwind_ng fr : forall stk C (sub : itree) small right l fuel tmx o (out : out),
  fmatch stk C -> wfc C sub fr -> (small = true -> icount sub < m /\ nonempty sub) ->
  nogap_b true (plug C sub) = true ->
  unwind order fuel o stk small right (plug C sub) l fr tmx = Ok out ->
  nogap_b true (otr out) = true.
Proof.
  induction stk as [|f stk IH]; intros [|cf C] sub small right l fuel tmx o out Hm Hw Hsm Hn H;
    simpl in Hm; try tauto.
  - (* back in Delete: the root collapse *)
    destruct fuel as [|fuel]; [discriminate H|]. cbn [unwind plug] in H. unfold mk in H.
    inversion H; subst out; clear H. cbn [otr]. cbn [plug] in Hn.
    destruct (negb small || (1 <? icount sub)); [exact Hn|].
    destruct sub as [i nx es|i [|[s c] cs]]; try exact Hn.
    rewrite nogap_node in Hn. cbn [NG_Lemmas.ng_entries] in Hn. apply andb_true_iff in Hn. destruct Hn as [Hn _].
    unfold NG_Lemmas.entry_ok in Hn. cbn [fst snd] in Hn. apply andb_true_iff in Hn. tauto.
  - (* one activation of deleteKey *)
    destruct Hm as (Hfp & Hfi & Hm).
    destruct fuel as [|fuel]; [discriminate H|].
    pose proof (proj2 (wfc_push _ _ cf C sub fr) Hw) as Hw1.
    rewrite unwind_cons in H. destruct small; cbn [negb] in H.
    + assert (Hfind : Conc.find (Conc.fp f) (plug C (plug1 cf sub)) = Some (plug1 cf sub)).
      { rewrite Hfp. apply (find_plug_self K V C (plug1 cf sub) fr Hw1). }
      change (plug (cf :: C) sub) with (plug C (plug1 cf sub)) in H. rewrite Hfind in H.
      set (cs := cpre cf ++ (csep cf, sub) :: cpost cf) in *.
      assert (Hp1 : plug1 cf sub = INode (cid cf) cs) by reflexivity.
      rewrite Hp1 in H, Hfind, Hw1.
      destruct ((fidx f + 1 <? length cs) && match right with None => true | Some _ => false end).
      * unfold mk in H. inversion H; subst out; clear H. cbn [otr]. exact Hn.
      * destruct (irebalance order f (plug C (INode (cid cf) cs))) as [[t' small']|] eqn:Er; [|discriminate H].
        cbn [bind] in H. destruct (Hsm eq_refl) as [Hlt Hne].
        destruct (irebalance_gi K V ltb HS order H4 fr C cf sub f t' small' Hfp Hfi Hw Hlt Er)
          as (cs0 & Et' & Hw2 & _ & Hs').
        rewrite irebalance_eq, Hfind in Er.
        assert (Hnth : nth_error cs (fidx f) = Some (csep cf, sub)).
        { rewrite Hfi. unfold cs. apply nth_error_app_len. }
        unfold get_nth in Er. rewrite Hnth in Er. cbn [bind] in Er.
        destruct (rebal_core order (fidx f) cs sub) as [[cs' sm]|] eqn:Erc; [|discriminate Er]. cbn [bind] in Er.
        pose proof (upd_plug_self K V C (INode (cid cf) cs) fr (INode (cid cf) cs') Hw1) as Hu. cbn [nid] in Hu.
        rewrite Hfp, Hu in Er. cbn [bind] in Er. inversion Er as [[Et2 Es2]]. clear Er. subst small'.
        rewrite Et' in Et2. apply plug_inj in Et2. inversion Et2; subst cs0; clear Et2. subst t'.
        cbn [plug] in Hn. rewrite Hp1 in Hn.
        destruct (nogap_plug_inv K V ltb C _ Hn) as [HnN _]. rewrite nogap_node in HnN.
        destruct (reb_entries_ng (hole_lm C) (cid cf) cs cs' (fidx f) sub (csep cf) sm Hnth Erc Hne HnN)
          as (R1 & R2 & R3).
        apply (IH C (INode (cid cf) cs') sm None (unlock_frame_kids f right l) fuel tmx o out Hm Hw2).
        -- intros E. split; [cbn [icount]; apply Hs'; exact E|]. destruct cs'; [congruence|exact I].
        -- eapply nogap_plug_repl; [exact Hn| |rewrite nogap_node; exact R1].
           intros s. rewrite (sep_ok_same K V ltb _ s _ _ R2). tauto.
        -- exact H.
    + apply (IH C (plug1 cf sub) false None (unlock_frame_kids f right l) fuel tmx o out Hm Hw1);
        [discriminate|exact Hn|exact H].
Qed.

Lemma del_child_ng fr (t t' : itree) f rest c i nx es es' small k (o : cop) l tmx fuel (out : out) :
  wfc [] t fr -> frames_ok_b t (f :: rest) = true -> child_id t (Conc.fp f) (fidx f) = Ok c ->
  Conc.find c t = Some (ILeaf i nx es) -> leaf_delete ltb m k es = Ok (es', small) ->
  upd c (fun _ => Ok (ILeaf i nx es')) t = Ok t' ->
  nogap_b true t = true ->
  unwind order fuel o (set_fc f c :: rest) small None t' l fr tmx = Ok out ->
  nogap_b true (otr out) = true.
Proof.
  intros Hw Hfr Hcid Hfc Hld Hupd Hn Hun.
  pose proof (upd_leaf_nogap K V ltb _ _ _ _ _ _ true Hupd Hn) as Hn'.
  unfold child_id in Hcid. destruct (Conc.find (Conc.fp f) t) as [[|pi cs0]|] eqn:Hf; try discriminate Hcid.
  destruct (get_nth (fidx f) cs0) as [[s ch]|] eqn:Eg; [|discriminate Hcid]. cbn [bind] in Hcid.
  inversion Hcid; subst c; clear Hcid.
  apply UpdLemmas.get_nth_Ok in Eg.
  destruct (frames_child_ctx K V fr f rest t pi cs0 s ch Hw Hfr Hf Eg) as (cf & C & Ht & Hfp & Hfi & Hm & Hwc).
  pose proof (find_plug_self _ _ _ _ fr Hwc) as Hfind. rewrite <- Ht, Hfc in Hfind. inversion Hfind as [Hch]. clear Hfind.
  subst ch. cbn [nid] in *.
  rewrite Ht in Hupd. rewrite (upd_plug_self _ _ (cf :: C) (ILeaf i nx es) fr _ Hwc) in Hupd.
  inversion Hupd; subst t'; clear Hupd.
  apply (unwind_ng fr (set_fc f i :: rest) (cf :: C) (ILeaf i nx es') small None l fuel tmx o out).
  - cbn [GIa2_Proof.fmatch set_fc Conc.fp fidx]. auto.
  - eapply wfc_same; [exact Hwc|reflexivity].
  - intros E. split; [|exact I]. cbn [icount]. apply (leaf_delete_small K V ltb order H4 k es es' small Hld). exact E.
  - exact Hn'.
  - exact Hun.
Qed.

Lemma del_right_ng fr (t : itree) stk (o : cop) x l tmx fuel (out : out) :
  wfc [] t fr -> pc_ok_b ltb order t (DelWantRight o stk) = true ->
  pc_small_b order t (DelWantRight o stk) = true ->
  nogap_b true t = true ->
  unwind order fuel o stk true (Some x) t l fr tmx = Ok out ->
  nogap_b true (otr out) = true.
Proof.
  intros Hw Hpc Hps Hn Hun. cbn [pc_ok_b] in Hpc. apply andb_true_iff in Hpc. destruct Hpc as [Hfr Hsm].
  destruct stk as [|f rest]; [discriminate Hsm|]. cbn [pc_small_b] in Hps.
  destruct (fc f) as [c|] eqn:Efc; [|discriminate Hsm].
  destruct (Conc.find c t) as [ct|] eqn:Hfc; [|discriminate Hsm]. apply Nat.ltb_lt in Hsm.
  apply andb_true_iff in Hps. destruct Hps as [Hps _]. apply Nat.eqb_eq in Hps.
  destruct (frames_ok_cons _ _ _ _ _ Hfr) as (pi & cs0 & Hf & _ & Hkid & _ & _).
  destruct (Hkid _ Efc) as (s & ch & Hnth & Hnid).
  destruct (frames_child_ctx K V fr f rest t pi cs0 s ch Hw Hfr Hf Hnth) as (cf & C & Ht & Hfp & Hfi & Hm & Hwc).
  pose proof (find_plug_self _ _ _ _ fr Hwc) as Hfind. rewrite <- Ht, Hnid, Hfc in Hfind. inversion Hfind as [Hch]. clear Hfind.
  subst ct. rewrite Ht in Hun, Hn. pose proof m_ge2 as Hm2.
  apply (unwind_ng fr (f :: rest) (cf :: C) ch true (Some x) l fuel tmx o out).
  - cbn [GIa2_Proof.fmatch]. auto.
  - exact Hwc.
  - intros _. split; [exact Hsm|]. apply icount_nonempty. lia.
  - exact Hn.
  - exact Hun.
Qed.

End Del.

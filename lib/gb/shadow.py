"""Shadow copy of /repo's current working tree with the verification hooks injected, and the harness binary."""
import os, re, shutil, subprocess, tempfile, glob

VERIF = os.path.dirname(os.path.dirname(os.path.dirname(os.path.abspath(__file__))))
REPO = os.environ.get("VERIF_REPO", "/repo")
EXTRA_MUTEXES = {}
TYPES = [("int32", "Int32", "int32"), ("int64", "Int64", "int64"), ("uint32", "Uint32", "uint32"),
         ("uint64", "Uint64", "uint64"), ("string", "String", "string"), ("comparable", "Comparable", "Comparable")]
TYPE_NAMES = [t[0] for t in TYPES]
EXPECTED_MUTEXES = 3   # internal node, leaf node, tree header (after fix F4)


class ShadowError(Exception):
    """The code no longer has the shape the hooks rely on (correspondence cannot be established)."""


def go_env():
    e = dict(os.environ)
    e.update(GOFLAGS="-mod=mod", GOPROXY="off", GOSUMDB="off", GOTOOLCHAIN="local", GOWORK="off")
    return e


def build(scratch_parent=None, shim=True, harness="vh", race=False):
    """Returns (tmpdir, path of vh binary). Caller removes tmpdir. shim=False keeps real sync.Mutex (race builds)."""
    tmp = tempfile.mkdtemp(prefix="gbverif-", dir=scratch_parent)
    sh = os.path.join(tmp, "shadow")
    os.makedirs(sh)
    notes = {}
    for p in sorted(glob.glob(os.path.join(REPO, "*.go"))):
        b = os.path.basename(p)
        if b.endswith("_test.go"):
            continue
        s = open(p).read()
        if shim:
            n = s.count("sync.Mutex")
            if n:
                notes[b] = n
                s = s.replace("sync.Mutex", "verifMutex")
                if not re.search(r"\bsync\.", s):
                    s = re.sub(r'^\s*"sync"\s*\n', "", s, count=1, flags=re.M)
                    s = re.sub(r'^import "sync"\s*\n', "", s, count=1, flags=re.M)
        open(os.path.join(sh, b), "w").write(s)
    open(os.path.join(sh, "go.mod"), "w").write("module github.com/karrick/gobptree\n\ngo 1.18\n")
    if shim:
        has_tm = {}
        for low, cap, keyt in TYPES:
            src = open(os.path.join(sh, low + ".go")).read()
            # does the tree header carry a mutex (fix F4)?  Without it the hooks still work: the harness then sees
            # that the tree mutex is never taken and the monitors decide
            has_tm[low] = bool(re.search(r"type %sTree struct \{[^}]*\bmutex\s+verifMutex" % cap, src))
            want = EXPECTED_MUTEXES if has_tm[low] else EXPECTED_MUTEXES - 1
            if (notes.get(low + ".go") or 0) > want:
                # more mutexes than the hooks know (e.g. a lock added for a shared cache): all of them are shimmed; the
                # model knows nothing of the extra lock, so the lock traces will differ wherever it is taken
                # (reported as a correspondence mismatch), while the monitors still judge the observable behaviour
                EXTRA_MUTEXES[low] = notes.get(low + ".go") - want
            elif notes.get(low + ".go") != want:
                shutil.rmtree(tmp, ignore_errors=True)
                raise ShadowError("%s.go declares %s sync.Mutex fields, the hooks expect %d (node, leaf%s)"
                                  % (low, notes.get(low + ".go"), want, ", tree header" if has_tm[low] else ""))
        hooks = os.path.join(VERIF, "harness", "hooks")
        shutil.copy(os.path.join(hooks, "zz_verif_common.go"), sh)
        tmpl = open(os.path.join(hooks, "zz_verif_type.go.tmpl")).read()
        for low, cap, keyt in TYPES:
            tpos = '\tif m == &t.mutex {\n\t\treturn "T"\n\t}\n' if has_tm[low] else ""
            thold = "t.mutex.holder" if has_tm[low] else "0"
            open(os.path.join(sh, "zz_verif_%s.go" % low), "w").write(
                tmpl.replace("@LOW@", low).replace("@CAP@", cap).replace("@KEYT@", keyt)
                    .replace("@TMUTEX_POS@", tpos).replace("@TMUTEX_HOLDER@", thold))
    vh = os.path.join(tmp, harness)
    shutil.copytree(os.path.join(VERIF, "harness", harness), vh)
    cmd = ["go", "build"] + (["-race"] if race else []) + (["-tags", "verif"] if shim else []) + ["-o", harness, "."]
    r = subprocess.run(cmd, cwd=vh, env=go_env(), capture_output=True, text=True)
    if r.returncode != 0:
        msg = r.stderr[-3000:]
        shutil.rmtree(tmp, ignore_errors=True)
        raise ShadowError("harness does not build against the current tree:\n" + msg)
    return tmp, os.path.join(vh, harness)


def coverage_of(tmp, vh, mode, cases_path):
    """Builds a coverage-instrumented harness next to vh, runs it once on cases_path, returns statement coverage of
    the (shadow) gobptree package as a dict, or None."""
    vhd = os.path.dirname(vh)
    r = subprocess.run(["go", "build", "-cover", "-coverpkg=github.com/karrick/gobptree,vh", "-tags", "verif", "-o", "vhcov", "."],
                       cwd=vhd, env=go_env(), capture_output=True, text=True)
    if r.returncode != 0:
        return None
    cov = os.path.join(tmp, "cov-" + mode)
    os.makedirs(cov, exist_ok=True)
    subprocess.run([os.path.join(vhd, "vhcov"), mode, cases_path, os.path.join(tmp, "cov.out")], env=dict(os.environ, GOCOVERDIR=cov),
                   capture_output=True, text=True)
    r = subprocess.run(["go", "tool", "covdata", "func", "-i=" + cov], cwd=vhd, env=go_env(), capture_output=True, text=True)
    per_file, low = {}, []
    for line in r.stdout.splitlines():
        m = re.match(r"^github.com/karrick/gobptree/(\w+\.go):\d+:\s+(\S+)\s+([\d.]+)%", line)
        if m and not m.group(1).startswith("zz_verif"):
            per_file.setdefault(m.group(1), []).append(float(m.group(3)))
            if float(m.group(3)) < 100.0:
                low.append("%s:%s %s%%" % m.groups())
    r2 = subprocess.run(["go", "tool", "covdata", "percent", "-i=" + cov], cwd=vhd, env=go_env(), capture_output=True, text=True)
    m = re.search(r"karrick/gobptree\s+coverage: ([\d.]+)%", r2.stdout)
    return dict(package_statements_percent_incl_hooks=float(m.group(1)) if m else None,
                mean_function_coverage_by_file={f: round(sum(v) / len(v), 1) for f, v in per_file.items()},
                functions_below_100=low[:40])

(* LINb_Proof.v — the abstraction [abs] commutes with every step of a thread that is executing Delete
   (pcs WantRoot (CDelete _), DelWantLeft, DelWantChild, DelWantRight): unchanged at every step except the one
   that runs [leaf_delete], where it changes as [erase] says.  Ingredients about the contents of the tree in
   LINb_Ent.v. *)
From Coq Require Import List Bool Lia PeanoNat Permutation.
From GB Require Import Model Inv ListLemmas SearchProof SearchScanProof TreeLemmas UpsertProof DeleteProof
  Conc GI LockInv LockProof CInv CIDef CInv3
  Frame UpdLemmas FrameProof EraseLemmas EraseOps SoloBase SoloDelete GIa2_Seq GIa2_Proof Spec SpecLaws
  Lin LinDef LINb_Ent LINb_Prog.
Import ListNotations.

Section L.
Variables (K V : Type) (ltb : K -> K -> bool).
Hypothesis HS : SWO ltb.
Notation itree := (itree K V).
Notation tree := (tree K V).
Notation st := (st K V).
Notation out := (out K V).
Notation thread := (thread K V).
Notation ient := (ient K V).
Notation cleft := (cleft K V).
Notation cright := (cright K V).

(* ------------------------------------------------------------------------------------------------ *)
(* the placeholder keys depend on the program counters only                                           *)
(* ------------------------------------------------------------------------------------------------ *)
Definition ph_of (p : pc K V) : list K :=
  match p with UpdCallback o _ (S (S _)) _ => [key_of o] | _ => [] end.

Lemma placeholder_keys_eq (s : st) : placeholder_keys s = flat_map (fun e => ph_of (tpc (snd e))) (ths s).
Proof. reflexivity. Qed.

Lemma set_thread_notin me (th' : thread) (l : list (tid * thread)) :
  ~ In me (map fst l) -> set_thread me th' l = l.
Proof.
  induction l as [|[u thu] l IH]; intros H; [reflexivity|]. simpl in *.
  destruct (u =? me) eqn:E; [apply Nat.eqb_eq in E; tauto|]. f_equal. apply IH. tauto.
Qed.

Lemma ph_set_thread me (th th' : thread) (l : list (tid * thread)) :
  NoDup (map fst l) -> get_thread me l = Some th -> ph_of (tpc th') = ph_of (tpc th) ->
  flat_map (fun e => ph_of (tpc (snd e))) (set_thread me th' l) = flat_map (fun e => ph_of (tpc (snd e))) l.
Proof.
  induction l as [|[u thu] l IH]; intros Hnd Hg Hph; [reflexivity|].
  simpl in Hnd. inversion Hnd as [|? ? Hni Hnd']; subst.
  unfold get_thread in Hg. cbn [List.find fst] in Hg. cbn [set_thread map fst].
  destruct (u =? me) eqn:E.
  - apply Nat.eqb_eq in E. subst u. cbn [snd] in Hg. inversion Hg; subst thu.
    fold (set_thread me th' l). rewrite (set_thread_notin me th' l Hni).
    cbn [flat_map snd]. rewrite Hph. reflexivity.
  - cbn [flat_map snd]. f_equal. apply IH; auto.
Qed.

Lemma commit_tpc (s : st) me th (o : out) th' :
  get_thread me (ths s) = Some th -> get_thread me (ths (commit s me th o)) = Some th' -> tpc th' = opc o.
Proof.
  intros Hme Hg. unfold commit in Hg. cbn [ths] in Hg.
  rewrite (get_set_same K V me th _ (ths s) Hme) in Hg. inversion Hg; subst th'.
  destruct (returned (oev o)); reflexivity.
Qed.

Lemma placeholder_commit (s : st) me th (o : out) :
  NoDup (map fst (ths s)) -> get_thread me (ths s) = Some th -> ph_of (tpc th) = [] -> ph_of (opc o) = [] ->
  placeholder_keys (commit s me th o) = placeholder_keys s.
Proof.
  intros Hnd Hg H1 H2. rewrite !placeholder_keys_eq. unfold commit. cbn [ths].
  apply (ph_set_thread me th); auto. rewrite H1. destruct (returned (oev o)); exact H2.
Qed.

(* the abstraction after a step of a thread that is not (and does not become) an Update at its callback *)
Lemma abs_commit (s : st) me th (o : out) :
  NoDup (map fst (ths s)) -> get_thread me (ths s) = Some th -> ph_of (tpc th) = [] -> ph_of (opc o) = [] ->
  abs ltb (commit s me th o) =
  filter (fun e => negb (existsb (fun k => eqvb ltb k (fst e)) (placeholder_keys s))) (ient (otr o)).
Proof.
  intros Hnd Hg H1 H2. unfold abs. rewrite (placeholder_commit s me th o Hnd Hg H1 H2). reflexivity.
Qed.

(* ------------------------------------------------------------------------------------------------ *)
(* where Delete is linearized                                                                         *)
(* ------------------------------------------------------------------------------------------------ *)
Definition is_delete_pc (p : pc K V) : bool :=
  match p with
  | DelWantLeft _ _ | DelWantChild _ _ | DelWantRight _ _ => true
  | WantRoot (CDelete _) _ => true
  | _ => false end.

Definition is_lp (p : pc K V) (tg : option (option id)) (t : itree) : bool :=
  match p, tg with
  | WantRoot _ _, _ => is_leaf_at (nid t) t
  | DelWantChild _ _, Some (Some c) => is_leaf_at c t
  | _, _ => false
  end.

Lemma lp_step_delete (s s' : st) me tg ev th th' k r :
  get_thread me (ths s) = Some th -> get_thread me (ths s') = Some th' ->
  prog th = CDelete k :: r -> is_delete_pc (tpc th) = true ->
  lp_step ltb s me tg ev s' = if is_lp (tpc th) tg (tr s) then Some (ODelete k) else None.
Proof.
  intros Hg Hg' Hp Hd. unfold lp_step. rewrite Hg, Hg', Hp. unfold is_lp.
  destruct (tpc th); try discriminate Hd; try reflexivity.
  destruct tg as [[c|]|]; reflexivity.
Qed.

(* the operation recorded in a Delete pc is the call in flight (the head of the thread's program).
   NOT implied by CIall: see [prog_ok] below, which is inductive and holds initially. *)
Definition del_op_is (p : pc K V) (k : K) : Prop :=
  match p with
  | WantRoot o _ | DelWantLeft o _ | DelWantChild o _ | DelWantRight o _ => o = CDelete k
  | _ => False end.
Definition del_prog_ok (th : thread) : Prop :=
  exists k r, del_op_is (tpc th) k /\ prog th = CDelete k :: r.

(* ------------------------------------------------------------------------------------------------ *)
(* the blocks                                                                                         *)
(* ------------------------------------------------------------------------------------------------ *)
Variable order : nat.
Hypothesis H4 : 4 <= order.
Notation m := (Nat.div2 order).

Lemma unwind_opc : forall fuel o stk small right (t : itree) l fr tmx (out : out),
  unwind order fuel o stk small right t l fr tmx = Ok out -> ph_of (opc out) = [].
Proof.
  induction fuel as [|fuel IH]; intros o stk small right t l fr tmx out H; [discriminate H|].
  destruct stk as [|f rest].
  - cbn [unwind] in H. unfold mk in H. inversion H; subst; reflexivity.
  - rewrite unwind_cons in H. destruct (negb small); [eapply IH; exact H|].
    destruct (Conc.find (Conc.fp f) t) as [[|pi cs]|]; try discriminate H.
    destruct ((fidx f + 1 <? length cs) && match right with None => true | Some _ => false end).
    + unfold mk in H. inversion H; subst; reflexivity.
    + destruct (irebalance order f t) as [[t' small']|]; [|discriminate H]. cbn [bind] in H. eapply IH; exact H.
Qed.

Lemma del_descend_opc o stk n (t : itree) p : del_descend ltb o stk n t = Ok p -> ph_of p = [].
Proof.
  unfold del_descend. destruct (Conc.find n t) as [[|pi cs]|]; try discriminate.
  destruct (search_le ltb (key_of o) (map fst cs)) as [i|]; [|discriminate]. cbn [bind].
  intros H. inversion H; subst. destruct (0 <? i); reflexivity.
Qed.

(* the leaf step under a path of frames *)
Lemma del_child_ent fr (t t' : itree) f rest c i nx es es' small k o l tmx fuel (out : out) :
  wfc [] t fr -> ordered ltb (erase_ids t) ->
  frames_ok_b t (f :: rest) = true -> frames_idx_b ltb k t (f :: rest) = true ->
  child_id t (Conc.fp f) (fidx f) = Ok c ->
  Conc.find c t = Some (ILeaf i nx es) -> leaf_delete ltb m k es = Ok (es', small) ->
  upd c (fun _ => Ok (ILeaf i nx es')) t = Ok t' ->
  unwind order fuel o (set_fc f c :: rest) small None t' l fr tmx = Ok out ->
  ient (otr out) = erase ltb k (ient t).
Proof.
  intros Hw HO Hfr Hidx Hcid Hfc Hld Hupd Hun.
  unfold child_id in Hcid. destruct (Conc.find (Conc.fp f) t) as [[|pi cs0]|] eqn:Hf; try discriminate Hcid.
  destruct (get_nth (fidx f) cs0) as [[s ch]|] eqn:Eg; [|discriminate Hcid]. cbn [bind] in Hcid.
  inversion Hcid; subst c; clear Hcid.
  apply UpdLemmas.get_nth_Ok in Eg.
  destruct (frames_child_ctx K V fr f rest t pi cs0 s ch Hw Hfr Hf Eg) as (cf & C & Ht & Hfp & Hfi & Hm & Hwc).
  pose proof (find_plug_self _ _ _ _ fr Hwc) as Hfind. rewrite <- Ht, Hfc in Hfind. inversion Hfind as [Hch]. clear Hfind.
  subst ch. cbn [nid] in *.
  rewrite Ht in Hupd. rewrite (upd_plug_self _ _ (cf :: C) (ILeaf i nx es) fr _ Hwc) in Hupd.
  inversion Hupd; subst t'; clear Hupd.
  assert (Hm' : fmatch K V (set_fc f i :: rest) (cf :: C)) by (cbn [fmatch set_fc Conc.fp fidx]; auto).
  assert (Hwc' : wfc (cf :: C) (ILeaf i nx es') fr) by (eapply wfc_same; [exact Hwc|reflexivity]).
  rewrite (unwind_ent K V order H4 fr _ _ _ _ _ _ _ _ _ _ Hm' Hwc' Hun).
  assert (Hpath : cpath K V ltb k (cf :: C)).
  { apply (frames_idx_cpath K V ltb fr k (f :: rest) (cf :: C) (ILeaf i nx es)).
    - cbn [fmatch]. auto.
    - exact Hwc.
    - rewrite <- Ht. exact Hidx. }
  rewrite Ht in HO.
  destruct (path_sides K V ltb HS k (cf :: C) _ HO Hpath) as [HL HR].
  apply (ordered_plug_inv K V ltb) in HO. cbn [erase_ids ordered] in HO.
  destruct (DeleteProof.leaf_delete_ok K V ltb HS order H4 k es HO) as (es2 & small2 & E & Hes & _).
  rewrite Hld in E. assert (Hes' : es' = erase ltb k es) by (inversion E; congruence).
  rewrite Ht, !ient_plug. rewrite !ient_leaf.
  rewrite (erase_mid K V ltb HS k _ _ _ HL HR). rewrite Hes'. reflexivity.
Qed.

Lemma del_right_ent fr (t : itree) stk o x l tmx fuel (out : out) :
  wfc [] t fr -> pc_ok_b ltb order t (DelWantRight o stk) = true ->
  unwind order fuel o stk true (Some x) t l fr tmx = Ok out ->
  ient (otr out) = ient t.
Proof.
  intros Hw Hpc Hun. cbn [pc_ok_b] in Hpc. apply andb_true_iff in Hpc. destruct Hpc as [Hfr Hsm].
  destruct stk as [|f rest]; [discriminate Hsm|].
  destruct (fc f) as [c|] eqn:Efc; [|discriminate Hsm].
  destruct (GIa2_Proof.frames_ok_cons K V _ _ _ Hfr) as (pi & cs0 & Hf & _ & Hkid & _ & _).
  destruct (Hkid _ Efc) as (s & ch & Hn & Hnid).
  destruct (frames_child_ctx K V fr f rest t pi cs0 s ch Hw Hfr Hf Hn) as (cf & C & Ht & Hfp & Hfi & Hm & Hwc).
  rewrite Ht in Hun.
  assert (Hm' : fmatch K V (f :: rest) (cf :: C)) by (cbn [fmatch]; auto).
  rewrite (unwind_ent K V order H4 fr _ _ _ _ _ _ _ _ _ _ Hm' Hwc Hun). rewrite Ht. reflexivity.
Qed.

Lemma find_root_leaf (t : itree) :
  is_leaf_at (nid t) t = match t with ILeaf _ _ _ => true | INode _ _ => false end.
Proof. unfold is_leaf_at. rewrite find_self. destruct t; reflexivity. Qed.

(* what every block of Delete does to the contents, and that the new pc is not a callback *)
Lemma del_blk_ent (s : st) me th tg (o : out) k :
  GI ltb order s -> pc_ok_b ltb order (tr s) (tpc th) = true -> pc_ok3_b ltb (tr s) (tpc th) = true ->
  is_delete_pc (tpc th) = true -> del_op_is (tpc th) k ->
  target s (tpc th) = Ok tg -> blk ltb order s me th tg = Ok (Some o) ->
  ph_of (opc o) = [] /\
  ient (otr o) = if is_lp (tpc th) tg (tr s) then erase ltb k (ient (tr s)) else ient (tr s).
Proof.
  intros HGI Hpcme Hpc3 Hd Hop Etg Hb.
  apply GI_elim in HGI. destruct HGI as [Hw HT]. destruct HT as (HO & _).
  unfold blk in Hb.
  destruct (tpc th) as [ |o0|o0 r|o0 lft rgt|o0 p c index|o0 p c r|o0 leaf mode index|o0 p c|o0 stk|o0 stk|o0 stk|leaf i n acc|leaf nxt n acc]
    eqn:Epc; simpl in Hd; try discriminate Hd; cbv beta iota zeta in Hb; cbn [del_op_is] in Hop; subst o0.
  - (* WantRoot (CDelete k) r *)
    cbn [is_lp]. rewrite find_root_leaf.
    destruct (tr s) as [i nx es|i cs] eqn:ET.
    + destruct (leaf_delete ltb m k es) as [[es' small]|] eqn:Eld; [|discriminate Hb].
      cbn [bind] in Hb. unfold mk in Hb. cbn [bind] in Hb. inversion Hb; subst o; clear Hb. cbn [otr opc].
      split; [reflexivity|]. rewrite !ient_leaf.
      cbn [erase_ids ordered] in HO.
      destruct (DeleteProof.leaf_delete_ok K V ltb HS order H4 k es HO) as (es2 & small2 & E & Hes & _).
      rewrite Eld in E. inversion E; congruence.
    + destruct (del_descend ltb (CDelete k) [] r (INode i cs)) as [p|] eqn:Edd; [|discriminate Hb].
      cbn [bind] in Hb. unfold mk in Hb. cbn [bind] in Hb. inversion Hb; subst o; clear Hb. cbn [otr opc].
      split; [eapply del_descend_opc; exact Edd|reflexivity].
  - (* DelWantLeft *)
    destruct stk as [|f rest]; [discriminate Hb|]. destruct tg as [[x|]|]; try discriminate Hb.
    unfold mk in Hb. cbn [bind] in Hb. inversion Hb; subst o; clear Hb. cbn [otr opc is_lp]. split; reflexivity.
  - (* DelWantChild *)
    destruct stk as [|f rest]; [discriminate Hb|]. destruct tg as [[c|]|]; try discriminate Hb.
    cbn [target] in Etg.
    destruct (child_id (tr s) (Conc.fp f) (fidx f)) as [x|] eqn:Ecid; [|discriminate Etg].
    cbn [bind] in Etg. inversion Etg; subst x; clear Etg.
    cbn [pc_ok_b] in Hpcme. cbn [pc_ok3_b key_of] in Hpc3. cbn [is_lp]. unfold is_leaf_at.
    destruct (Conc.find c (tr s)) as [[i nx es|i cs]|] eqn:Hfc; [| |discriminate Hb].
    + cbn [key_of] in Hb.
      destruct (leaf_delete ltb m k es) as [[es' small]|] eqn:Eld; [|discriminate Hb]. cbn [bind] in Hb.
      destruct (upd c (fun _ => Ok (ILeaf i nx es')) (tr s)) as [t'|] eqn:Eupd; [|discriminate Hb]. cbn [bind] in Hb.
      destruct (unwind order (S (S (length (f :: rest)))) (CDelete k) (set_fc f c :: rest) small None t'
                  ((c, me) :: lk s) (fresh s) (tm s)) as [out'|] eqn:Eun; [|discriminate Hb].
      cbn [bind] in Hb. inversion Hb; subst out'; clear Hb.
      split; [eapply unwind_opc; exact Eun|].
      eapply del_child_ent; eauto.
    + destruct (del_descend ltb (CDelete k) (set_fc f c :: rest) c (tr s)) as [p|] eqn:Edd; [|discriminate Hb].
      cbn [bind] in Hb. unfold mk in Hb. cbn [bind] in Hb. inversion Hb; subst o; clear Hb. cbn [otr opc].
      split; [eapply del_descend_opc; exact Edd|reflexivity].
  - (* DelWantRight *)
    destruct tg as [[x|]|]; try discriminate Hb.
    destruct (unwind order (S (S (length stk))) (CDelete k) stk true (Some x) (tr s) ((x, me) :: lk s) (fresh s) (tm s))
      as [out'|] eqn:Eun; [|discriminate Hb].
    cbn [bind] in Hb. inversion Hb; subst out'; clear Hb. cbn [is_lp].
    split; [eapply unwind_opc; exact Eun|].
    eapply del_right_ent; eauto.
Qed.

(* the core statement: what is used of the invariants *)
Theorem abs_step_delete_core (s : st) me th :
  GI ltb order s -> NoDup (map fst (ths s)) -> get_thread me (ths s) = Some th ->
  pc_ok_b ltb order (tr s) (tpc th) = true -> pc_ok3_b ltb (tr s) (tpc th) = true ->
  is_delete_pc (tpc th) = true -> del_prog_ok th ->
  abs_step_ok ltb order s me.
Proof.
  intros HGI Hnd Hg Hpcme Hpc3 Hd (k & r & Hop & Hprog) s' acq ev Hs.
  rewrite cstep_eq, Hg in Hs. destruct (target s (tpc th)) as [tg|] eqn:Etg; [|discriminate Hs].
  destruct (negb (is_free s tg)); [discriminate Hs|].
  destruct (blk ltb order s me th tg) as [[o|]|] eqn:Hb; try discriminate Hs.
  inversion Hs; subst s' acq ev; clear Hs.
  destruct (del_blk_ent s me th tg o k HGI Hpcme Hpc3 Hd Hop Etg Hb) as [Hph Hent].
  assert (Hph0 : ph_of (tpc th) = []) by (destruct (tpc th); try discriminate Hd; reflexivity).
  assert (Hg' : exists th', get_thread me (ths (commit s me th o)) = Some th').
  { eexists. unfold commit. cbn [ths]. apply (get_set_same K V me th). exact Hg. }
  destruct Hg' as [th' Hg'].
  rewrite (lp_step_delete s _ me tg (oev o) th th' k r Hg Hg' Hprog Hd).
  rewrite (abs_commit s me th o Hnd Hg Hph0 Hph). rewrite Hent.
  destruct (is_lp (tpc th) tg (tr s)).
  - split; [|reflexivity]. cbn [step_spec fst]. unfold abs. symmetry.
    apply (erase_filter K V ltb HS). apply (entries_asc K V ltb HS).
    destruct HGI as (_ & _ & HO & _). exact HO.
  - reflexivity.
Qed.

Lemma prog_ok_del (th : thread) :
  pc_prog_ok K V (tpc th) (prog th) -> is_delete_pc (tpc th) = true -> del_prog_ok th.
Proof.
  unfold del_prog_ok. intros H Hd.
  destruct (tpc th) as [ |o|o r0|o lft rgt|o p c index|o p c r0|o leaf mode index|o p c|o stk|o stk|o stk|leaf i n acc|leaf nxt n acc];
    try discriminate Hd; cbn [pc_prog_ok del_op_is] in *.
  - destruct o as [k v|k f|k|k|k cnt]; try discriminate Hd. destruct H as [r H]. exists k, r. auto.
  - destruct H as (k & r & -> & H). exists k, r. auto.
  - destruct H as (k & r & -> & H). exists k, r. auto.
  - destruct H as (k & r & -> & H). exists k, r. auto.
Qed.

End L.

Section Final.
Variables (K V : Type) (ltb : K -> K -> bool).
Hypothesis HS : SWO ltb.

(* [prog_ok s] (LINb_Prog.v: the operation recorded in a pc is the head of the thread's program) is NOT implied
   by CIall — see LINb_Cex.v — but is inductive and holds initially ([prog_ok_step], [prog_ok_reachable]). *)
Theorem abs_step_delete : forall order (s : st K V) me th,
  Nat.even order = true -> 4 <= order ->
  CIall ltb order s -> prog_ok K V s ->
  get_thread me (ths s) = Some th -> is_delete_pc K V (tpc th) = true ->
  abs_step_ok ltb order s me.
Proof.
  intros order s me th _ H4 HCIall Hprog Hg Hd.
  unfold CIall in HCIall. destruct HCIall as (HCI & _ & _ & _ & H3).
  destruct HCI as [[HGI [Hli Hpc]] _].
  destruct (GIa2_Proof.get_thread_in K V _ _ _ Hg) as (e & Hin & He).
  eapply (abs_step_delete_core K V ltb HS order H4 s me th); auto.
  - destruct Hli as [(_ & Hnd & _) _]. exact Hnd.
  - unfold all_pc_ok_b in Hpc. rewrite forallb_forall in Hpc. rewrite <- He. apply (Hpc e Hin).
  - unfold all_pc_ok3_b in H3. rewrite forallb_forall in H3. rewrite <- He. apply (H3 e Hin).
  - apply prog_ok_del; [apply (Hprog me th Hg)|exact Hd].
Qed.

(* the contents of the tree, without the placeholder filter *)
Theorem ent_step_delete : forall order (s s' : st K V) me th acq ev,
  4 <= order -> CIall ltb order s -> prog_ok K V s ->
  get_thread me (ths s) = Some th -> is_delete_pc K V (tpc th) = true ->
  cstep ltb order s me = Stepped s' acq ev ->
  placeholder_keys s' = placeholder_keys s /\
  match lp_step ltb s me acq ev s' with
  | Some (ODelete k) => entries (erase_ids (tr s')) = erase ltb k (entries (erase_ids (tr s)))
  | Some _ => False
  | None => entries (erase_ids (tr s')) = entries (erase_ids (tr s))
  end.
Proof.
  intros order s s' me th acq ev H4 HCIall Hprog Hg Hd Hs.
  unfold CIall in HCIall. destruct HCIall as (HCI & _ & _ & _ & H3).
  destruct HCI as [[HGI [Hli Hpc]] _].
  destruct (GIa2_Proof.get_thread_in K V _ _ _ Hg) as (e & Hin & He).
  assert (Hpcme : pc_ok_b ltb order (tr s) (tpc th) = true).
  { unfold all_pc_ok_b in Hpc. rewrite forallb_forall in Hpc. rewrite <- He. apply (Hpc e Hin). }
  assert (Hpc3 : pc_ok3_b ltb (tr s) (tpc th) = true).
  { unfold all_pc_ok3_b in H3. rewrite forallb_forall in H3. rewrite <- He. apply (H3 e Hin). }
  destruct (prog_ok_del K V th (Hprog me th Hg) Hd) as (k & r & Hop & Hpr).
  assert (Hnd : NoDup (map fst (ths s))) by (destruct Hli as [(_ & Hnd & _) _]; exact Hnd).
  rewrite cstep_eq, Hg in Hs. destruct (target s (tpc th)) as [tg|] eqn:Etg; [|discriminate Hs].
  destruct (negb (is_free s tg)); [discriminate Hs|].
  destruct (blk ltb order s me th tg) as [[o|]|] eqn:Hb; try discriminate Hs.
  inversion Hs; subst s' acq ev; clear Hs.
  destruct (del_blk_ent K V ltb HS order H4 s me th tg o k HGI Hpcme Hpc3 Hd Hop Etg Hb) as [Hph Hent].
  assert (Hph0 : ph_of K V (tpc th) = []) by (destruct (tpc th); try discriminate Hd; reflexivity).
  split; [apply (placeholder_commit K V s me th o Hnd Hg Hph0 Hph)|].
  assert (Hg' : exists th', get_thread me (ths (commit s me th o)) = Some th').
  { eexists. unfold commit. cbn [ths]. apply (get_set_same K V me th). exact Hg. }
  destruct Hg' as [th' Hg'].
  rewrite (lp_step_delete K V ltb s _ me tg (oev o) th th' k r Hg Hg' Hpr Hd).
  unfold LINb_Ent.ient in Hent. cbn [commit tr].
  destruct (is_lp K V (tpc th) tg (tr s)); exact Hent.
Qed.

End Final.

Print Assumptions abs_step_delete.
Print Assumptions ent_step_delete.

(* Nothing remains: [abs_step_delete] is proved for all four Delete pcs.
   Remarks.
   - One hypothesis was ADDED to the statement that was asked for: [prog_ok K V s] (LINb_Prog.v).  Without it the
     statement is false (LINb_Cex.v, machine-checked): [lp_step] reads the operation from [prog th], the blocks
     read it from the pc, and no clause of CIall / all_small_b / all_op_b links the two.  [prog_ok] is proved
     inductive and initial ([prog_ok_step], [prog_ok_init], [prog_ok_reachable]); it cannot be a bool (no decidable
     equality on [cop]: Update carries a function).  Only [del_prog_ok th] for the stepping thread is used.
   - Not used: [Nat.even order], [occ_ok_b], [all_inv], [all_left_pos_b], [all_pc_ok2_b], [all_small_b], [all_op_b].
     [abs_step_delete_core] needs [GI], [NoDup (map fst (ths s))] (from lock_inv), and [pc_ok_b], [pc_ok3_b],
     [del_prog_ok] of the stepping thread only.
   - Placeholders (part (d) of the plan): no argument about locks is needed.  [erase k] commutes with ANY filter on
     a strictly ascending list ([erase_filter] in LINb_Ent.v), and the placeholder keys do not change because the
     stepping thread is not at (and does not reach) an [UpdCallback] and thread ids are unique.
   - [ent_step_delete] is the same statement for the raw contents [entries (erase_ids (tr s))]. *)

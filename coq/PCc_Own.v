(* PCc_Own.v — the NEW program counter of the thread that stepped satisfies [pc_ok2_b] (NoDeadlock.v: adjacency facts
   of the two pcs that await a fresh right half) and [pc_ok3_b] (CInv3.v: routing facts of Search and Delete) in the NEW
   tree.  Skeleton: [own_core] of PCb1_Proof.v. *)
From Coq Require Import List Permutation Lia Bool PeanoNat.
From GB Require Import Model Inv ListLemmas SearchProof TreeLemmas Conc GI CInv CInv3 CIDef NoDeadlock Frame LockProof ConcProps
  UpdLemmas FrameRel FrameInv FrameBlocks FrameProof EraseLemmas EraseOps SoloBase PCb1_Bounds PCb1_Blocks PCb1_Proof
  PCb2_View PCb2_RightFree.
Import ListNotations.

Section Own.
Variables (K V : Type) (ltb : K -> K -> bool).
Hypothesis HS : SWO ltb.
Notation itree := (itree K V).
Notation pc := (pc K V).
Notation st := (st K V).
Notation out := (out K V).
Notation thread := (thread K V).
Notation cframe := (cframe K V).
Notation find := (@Conc.find K V).
Notation pc_ok2_b := (@pc_ok2_b K V).
Notation pc_ok3_b := (@pc_ok3_b K V ltb).
Notation frames_idx_b := (@frames_idx_b K V ltb).
Notation below_hi := (@below_hi K V ltb).
Notation is_right := (@is_right K V).

(* ---------- pcs about which pc_ok2_b / pc_ok3_b say nothing ---------- *)
Lemma noright_ok2 (t : itree) (p : pc) : is_right p = false -> pc_ok2_b t p = true.
Proof. destruct p; simpl; intros H; try discriminate H; reflexivity. Qed.

Definition is3 (p : pc) : bool :=
  match p with SeaWantChild _ _ _ | DelWantLeft _ _ | DelWantChild _ _ | DelWantRight _ _ => true | _ => false end.

Lemma no3_ok3 (t : itree) (p : pc) : is3 p = false -> pc_ok3_b t p = true.
Proof. destruct p; simpl; intros H; try discriminate H; reflexivity. Qed.

Lemma ins_descend_no3 o n (t : itree) l fr tmx (o1 : out) :
  ins_descend ltb o n t l fr tmx = Ok o1 -> is3 (opc o1) = false.
Proof. intros H. unfold ins_descend, mk in H. crunch H; inversion H; subst; reflexivity. Qed.

(* ---------- adjacency ---------- *)
Lemma adj_b_mid c r (A B : list (K * itree)) k1 a k2 b :
  nid a = c -> nid b = r -> adj_b c r (A ++ (k1, a) :: (k2, b) :: B) = true.
Proof.
  intros Ha Hb. induction A as [|[k x] A IH].
  - simpl. rewrite Ha, Hb, !Nat.eqb_refl. reflexivity.
  - change ((k, x) :: A) with ([(k, x)] ++ A). rewrite <- app_assoc. simpl app at 1.
    destruct (A ++ (k1, a) :: (k2, b) :: B) as [|[k' y] tl] eqn:E; [destruct A; discriminate E|].
    change (((nid x =? c) && (nid y =? r)) || adj_b c r ((k', y) :: tl) = true). rewrite IH. apply orb_true_r.
Qed.

Lemma adj_b_ptrs c r (cs cs' : list (K * itree)) : ptrs cs' = ptrs cs -> adj_b c r cs' = adj_b c r cs.
Proof.
  revert cs'. induction cs as [|[k a] tl IH]; intros cs' H.
  - destruct cs'; [reflexivity|discriminate H].
  - destruct cs' as [|[k' a'] tl']; [discriminate H|]. unfold ptrs in H. simpl in H. inversion H as [[Hk Ha Htl]].
    specialize (IH tl' Htl).
    destruct tl as [|[k2 b] tl2]; destruct tl' as [|[k2' b'] tl2']; try discriminate Htl; [reflexivity|].
    change (((nid a' =? c) && (nid b' =? r)) || adj_b c r ((k2', b') :: tl2') = ((nid a =? c) && (nid b =? r)) || adj_b c r ((k2, b) :: tl2)).
    rewrite IH. simpl in Htl. inversion Htl. rewrite Ha. congruence.
Qed.

Lemma pc_ok2_view (t t' : itree) (p : pc) :
  (forall o pn c r, p = InsWantSplitRight o pn c r -> node_view pn t' = node_view pn t) ->
  (forall o l r, p = InsWantRootRight o l r -> root_is K V t' l r) ->
  pc_ok2_b t p = true -> pc_ok2_b t' p = true.
Proof.
  intros Hv Hr H. destruct p; simpl in *; try reflexivity.
  - destruct (Hr o l r eq_refl) as (i & k1 & L & k2 & R & -> & <- & <-). rewrite !Nat.eqb_refl. reflexivity.
  - specialize (Hv o p c r eq_refl).
    destruct (find p t) as [[?|pi cs]|] eqn:Hf; try discriminate H.
    destruct (PCb1_Blocks.view_node K V t t' p pi cs Hv Hf) as (i' & cs' & Hf' & Hp). rewrite Hf'.
    rewrite (adj_b_ptrs c r cs cs' Hp). exact H.
Qed.

(* the two blocks that can park at a pc awaiting a fresh right half *)
(* generic in the computation [sepE] of the new separator: the adjacency fact does not depend on it *)
Lemma ins_child_pc2_gen (sepE : K -> itree -> res K) order o p c index (t : itree) l l1 fr tm0 (out : out) :
  NoDup (ids t) ->
  match find p t, find c t with
  | Some (INode pi cs), Some child =>
    '(sep, _) <- get_nth index cs ;;
    sep' <- sepE sep child ;;
    match isplit order fr child with
    | None =>
      t' <- upd p (fun _ => Ok (INode pi (set_nth index (sep', child) cs))) t ;;
      ins_descend ltb o c t' l1 fr tm0
    | Some (lft, rgt) =>
      rs <- ismallest rgt ;;
      t' <- upd p (fun _ => Ok (INode pi (ins_nth (index + 1) (rs, rgt) (set_nth index (sep', lft) cs)))) t ;;
      if ltb (key_of o) rs then ins_descend ltb o c t' l1 (S fr) tm0
      else mk t' l (S fr) tm0 (InsWantSplitRight o p c fr) []
    end
  | _, _ => Panic PIndex end = Ok out ->
  pc_ok2_b (otr out) (opc out) = true.
Proof.
  intros Hnd H.
  destruct (find p t) as [[?|pi cs]|] eqn:Hfp; try discriminate H.
  destruct (find c t) as [child|] eqn:Hfc; [|discriminate H].
  destruct (get_nth index cs) as [[sep ch0]|] eqn:Hg; [cbn [bind] in H|discriminate H].
  apply get_nth_Ok in Hg.
  match type of H with bind ?e _ = _ => destruct e as [sep'|] eqn:Hsep; [cbn [bind] in H|discriminate H] end.
  assert (Hnc : nid child = c) by (eapply find_nid; eauto).
  destruct (isplit order fr child) as [[lft rgt]|] eqn:Hsp.
  - destruct (ismallest rgt) as [rs|] eqn:Ers; [cbn [bind] in H|discriminate H].
    match type of H with bind ?e _ = _ => destruct e as [t'|] eqn:Hu; [cbn [bind] in H|discriminate H] end.
    destruct (ltb (key_of o) rs); [apply noright_ok2; eapply ins_descend_noright; eauto|].
    unfold mk in H. inversion H; subst out; clear H. cbn [otr opc].
    destruct (isplit_link K V _ _ _ _ _ Hsp) as (N1 & N2 & _).
    assert (Hpi : pi = p) by (apply (find_nid' K V) in Hfp; exact Hfp). subst pi.
    destruct (upd_self_facts K V p t t' _ (INode p (ins_nth (index + 1) (rs, rgt) (set_nth index (sep', lft) cs))) Hnd Hfp eq_refl Hu)
      as (F1 & _).
    unfold NoDeadlock.pc_ok2_b. rewrite F1.
    destruct (nth_error_split cs index Hg) as (A & B & Ecs & Hlen). subst cs index.
    rewrite set_nth_app, UpdLemmas.ins_nth_app1. apply adj_b_mid; congruence.
  - match type of H with bind ?e _ = _ => destruct e as [t'|] eqn:Hu; [cbn [bind] in H|discriminate H] end.
    apply noright_ok2. eapply ins_descend_noright; eauto.
Qed.

Lemma ins_child_pc2 order o p c index (t : itree) l l1 fr tm0 (out : out) :
  NoDup (ids t) ->
  match find p t, find c t with
  | Some (INode pi cs), Some child =>
    '(sep, _) <- get_nth index cs ;;
    sep' <- (if index =? 0 then sm <- ismallest child ;; Ok (if ltb (key_of o) sm then key_of o else sep) else Ok sep) ;;
    match isplit order fr child with
    | None =>
      t' <- upd p (fun _ => Ok (INode pi (set_nth index (sep', child) cs))) t ;;
      ins_descend ltb o c t' l1 fr tm0
    | Some (lft, rgt) =>
      rs <- ismallest rgt ;;
      t' <- upd p (fun _ => Ok (INode pi (ins_nth (index + 1) (rs, rgt) (set_nth index (sep', lft) cs)))) t ;;
      if ltb (key_of o) rs then ins_descend ltb o c t' l1 (S fr) tm0
      else mk t' l (S fr) tm0 (InsWantSplitRight o p c fr) []
    end
  | _, _ => Panic PIndex end = Ok out ->
  pc_ok2_b (otr out) (opc out) = true.
Proof.
  exact (ins_child_pc2_gen
           (fun sep child => if index =? 0 then sm <- ismallest child ;; Ok (if ltb (key_of o) sm then key_of o else sep) else Ok sep)
           order o p c index t l l1 fr tm0 out).
Qed.

(* the block of the NEW model: the first separator is only ever lowered, [sep' = if key < sep then key else sep] *)
Lemma ins_child_pc2' order o p c index (t : itree) l l1 fr tm0 (out : out) :
  NoDup (ids t) ->
  match find p t, find c t with
  | Some (INode pi cs), Some child =>
    '(sep, _) <- get_nth index cs ;;
    sep' <- Ok (if index =? 0 then (if ltb (key_of o) sep then key_of o else sep) else sep) ;;
    match isplit order fr child with
    | None =>
      t' <- upd p (fun _ => Ok (INode pi (set_nth index (sep', child) cs))) t ;;
      ins_descend ltb o c t' l1 fr tm0
    | Some (lft, rgt) =>
      rs <- ismallest rgt ;;
      t' <- upd p (fun _ => Ok (INode pi (ins_nth (index + 1) (rs, rgt) (set_nth index (sep', lft) cs)))) t ;;
      if ltb (key_of o) rs then ins_descend ltb o c t' l1 (S fr) tm0
      else mk t' l (S fr) tm0 (InsWantSplitRight o p c fr) []
    end
  | _, _ => Panic PIndex end = Ok out ->
  pc_ok2_b (otr out) (opc out) = true.
Proof.
  exact (ins_child_pc2_gen
           (fun sep _ => Ok (if index =? 0 then (if ltb (key_of o) sep then key_of o else sep) else sep))
           order o p c index t l l1 fr tm0 out).
Qed.

Lemma ins_root_pc2 order o r (t : itree) l fr tm0 (out : out) :
  r = nid t ->
  match isplit order fr t with
  | None => ins_descend ltb o r t l fr None
  | Some (lft, rgt) =>
    ls <- ismallest lft ;; rs <- ismallest rgt ;;
    if ltb (key_of o) rs
    then ins_descend ltb o r (INode (S fr) [(if ltb (key_of o) ls then key_of o else ls, lft); (rs, rgt)]) l (S (S fr)) None
    else mk (INode (S fr) [(if ltb (key_of o) ls then key_of o else ls, lft); (rs, rgt)]) l (S (S fr)) tm0
           (InsWantRootRight o r fr) []
  end = Ok out -> pc_ok2_b (otr out) (opc out) = true.
Proof.
  intros Hr H. subst r.
  destruct (isplit order fr t) as [[lft rgt]|] eqn:Hsp; [|apply noright_ok2; eapply ins_descend_noright; eauto].
  destruct (ismallest lft) as [ls|] eqn:Els; [cbn [bind] in H|discriminate H].
  destruct (ismallest rgt) as [rs|] eqn:Ers; [cbn [bind] in H|discriminate H].
  destruct (ltb (key_of o) rs); [apply noright_ok2; eapply ins_descend_noright; eauto|].
  unfold mk in H. inversion H; subst out; clear H. cbn [otr opc].
  destruct (isplit_link K V _ _ _ _ _ Hsp) as (N1 & N2 & _).
  simpl. rewrite N1, N2, !Nat.eqb_refl. reflexivity.
Qed.

(* ---------- Search: the upper bound of the chosen child ---------- *)
Lemma below_hi_root k (t : itree) : below_hi k (nid t) t = true.
Proof. unfold CInv3.below_hi, bounds. rewrite bounds_self. reflexivity. Qed.

Lemma child_below_hi k p (t : itree) pi cs i s ch :
  NoDup (ids t) -> ordered ltb (erase_ids t) -> find p t = Some (INode pi cs) ->
  below_hi k p t = true -> search_le ltb k (map fst cs) = Ok i -> nth_error cs i = Some (s, ch) ->
  below_hi k (nid ch) t = true.
Proof.
  intros Hnd Hord Hfp Hb Hs Hn.
  assert (Hasc : asc ltb (map fst cs)) by (eapply node_asc; eauto).
  destruct (find_ctx_nodup K V p t _ Hnd Hfp) as (C & Et & HC & Hpi). simpl in Hpi. subst pi.
  destruct (nth_error_split cs i Hn) as (pre & post & Ecs & Hlen).
  assert (Hne : cs <> []) by (subst cs; destruct pre; discriminate).
  assert (Hbp : bounds p t = Some (ctx_bounds None None C)).
  { rewrite Et. unfold bounds. apply (bounds_plug_nid K V C (INode p cs)). exact HC. }
  unfold CInv3.below_hi in Hb. rewrite Hbp in Hb. destruct (ctx_bounds None None C) as [lo hi] eqn:Ecb.
  assert (Et2 : t = plug (mkcf p pre s post :: C) ch) by (rewrite Et, Ecs; apply plug1_eq).
  assert (HC2 : NoDup (ids ch ++ ctx_ids (mkcf p pre s post :: C))).
  { apply plug_nodup. rewrite <- Et2. exact Hnd. }
  unfold CInv3.below_hi, bounds. rewrite Et2 at 1. rewrite (bounds_plug_nid K V _ ch None None HC2).
  simpl. rewrite Ecb. simpl.
  destruct (search_le_split K ltb HS k cs Hasc Hne) as (j & pre' & s' & c' & post' & E1 & E2 & E3 & _ & Hpost & _).
  rewrite Hs in E1. inversion E1; subst j. clear E1.
  rewrite Ecs in E2. destruct (app_eq_len pre pre' _ _ post post' E2) as (<- & E4 & <-); [lia|].
  destruct post as [|[s2 c2] post2]; simpl; [exact Hb|]. inversion Hpost; subst. assumption.
Qed.

Lemma sea_descend_pc3 o n (t : itree) l fr tmx (out : out) :
  sea_descend ltb o n t l fr tmx = Ok out -> below_hi (key_of o) n t = true ->
  pc_ok3_b (otr out) (opc out) = true.
Proof.
  intros H Hb. unfold sea_descend, mk in H.
  destruct (find n t) as [[i nx es|pi cs]|] eqn:Hf; [| |discriminate H].
  - destruct o as [k v|k f|k|k|k cnt]; crunch H; inversion H; subst; clear H; cbn [otr opc]; reflexivity.
  - crunch H. inversion H; subst; clear H; cbn [otr opc].
    unfold CInv3.pc_ok3_b. rewrite Hb, Hf, E. apply get_nth_Ok in E0. rewrite E0. simpl. apply Nat.eqb_refl.
Qed.

Lemma pc_ok3_sea (t : itree) o p c :
  NoDup (ids t) -> ordered ltb (erase_ids t) ->
  pc_ok3_b t (SeaWantChild o p c) = true -> below_hi (key_of o) c t = true.
Proof.
  intros Hnd Hord H. simpl in H. apply andb_prop in H. destruct H as [Hb H].
  destruct (find p t) as [[?|pi cs]|] eqn:Hf; try discriminate H.
  destruct (search_le ltb (key_of o) (map fst cs)) as [i|] eqn:Hs; [|discriminate H].
  destruct (nth_error cs i) as [[s ch]|] eqn:Hn; [|discriminate H]. apply Nat.eqb_eq in H. subst c.
  eapply child_below_hi; eauto.
Qed.

(* ---------- Delete ---------- *)
Lemma del_descend_pc3 o stk n (t : itree) p :
  del_descend ltb o stk n t = Ok p -> frames_idx_b (key_of o) t stk = true -> pc_ok3_b t p = true.
Proof.
  intros H Hfi. unfold del_descend in H.
  destruct (find n t) as [[i nx es|pi cs]|] eqn:Hf; try discriminate H.
  destruct (search_le ltb (key_of o) (map fst cs)) as [index|] eqn:Es; [cbn [bind] in H|discriminate H].
  assert (Hnew : frames_idx_b (key_of o) t ({| fp := n; fidx := index; fl := None; fc := None |} :: stk) = true).
  { cbn [CInv3.frames_idx_b fp fidx]. rewrite Hf, Es, Hfi. simpl. rewrite Nat.eqb_refl. reflexivity. }
  inversion H; subst p; clear H. destruct (0 <? index); simpl; exact Hnew.
Qed.

Lemma frames_idx_set_fl k (t : itree) f x rest : frames_idx_b k t (set_fl f x :: rest) = frames_idx_b k t (f :: rest).
Proof. reflexivity. Qed.
Lemma frames_idx_set_fc k (t : itree) f x rest : frames_idx_b k t (set_fc f x :: rest) = frames_idx_b k t (f :: rest).
Proof. reflexivity. Qed.

Lemma frames_idx_tail k (t : itree) f rest : frames_idx_b k t (f :: rest) = true -> frames_idx_b k t rest = true.
Proof. cbn [CInv3.frames_idx_b]. intros H. apply andb_prop in H. tauto. Qed.

(* frames_idx_b depends only on the views of the frames' nodes *)
Lemma frames_idx_view k (t t' : itree) stk :
  (forall g, In g stk -> node_view (fp g) t' = node_view (fp g) t) ->
  frames_idx_b k t stk = true -> frames_idx_b k t' stk = true.
Proof.
  induction stk as [|f rest IH]; intros Hv H; [reflexivity|].
  cbn [CInv3.frames_idx_b] in *. apply andb_prop in H. destruct H as [H1 H2].
  destruct (find (fp f) t) as [[i nx es|i cs]|] eqn:Hf; try discriminate H1.
  destruct (PCb1_Blocks.view_node K V t t' (fp f) i cs (Hv f (or_introl eq_refl)) Hf) as (i' & cs' & Hf' & Hp).
  rewrite Hf', (ptrs_seps K V _ _ Hp), H1. simpl. apply IH; [|exact H2]. intros g Hg. apply Hv. right. exact Hg.
Qed.

Lemma unwind_pc3 order fuel : forall o stk small right (t : itree) l fr tmx (out : out),
  unwind order fuel o stk small right t l fr tmx = Ok out ->
  NoDup (ids t) -> stack_ok t fr stk -> bottom_ok (nid t) stk ->
  (stk = [] -> right = None) ->
  NoDup (nid t :: opt_list right ++ flat_map fkids stk) ->
  (forall x, right = Some x -> match stk with f :: _ => child_at t (fp f) (fidx f + 1) x | [] => True end) ->
  frames_idx_b (key_of o) t stk = true ->
  pc_ok3_b (otr out) (opc out) = true.
Proof.
  induction fuel as [|fuel IH]; intros o stk small right t l fr tmx out H Hnd Hs Hb Hr Hheld Hright Hfi;
    simpl in H; [discriminate|].
  destruct stk as [|f rest].
  - unfold mk in H. inversion H; subst; clear H. reflexivity.
  - destruct Hs as (S1 & S2 & S3 & S4 & S5).
    assert (Hlinks : links (f :: rest)) by (split; [exact S4 | eapply stack_ok_links; eauto]).
    assert (Hrest : NoDup (nid t :: opt_list None ++ flat_map fkids rest)).
    { eapply nodup_sub; [|exact Hheld]. intros x. simpl. rewrite !cnt_app. lia. }
    destruct (negb small) eqn:Es.
    + eapply (IH o rest false None t); eauto.
      * eapply bottom_ok_tail; eauto.
      * intros x Hx. discriminate Hx.
      * eapply frames_idx_tail; eauto.
    + destruct (find (fp f) t) as [[i nx es|pi cs]|] eqn:Hf; try discriminate H.
      destruct ((fidx f + 1 <? length cs) && match right with None => true | Some _ => false end) eqn:Ec.
      * unfold mk in H. inversion H; subst; clear H. cbn [otr opc]. exact Hfi.
      * destruct (irebalance order f t) as [[t' small']|] eqn:Er; [cbn [bind] in H|discriminate H].
        set (Wf := fp f :: opt_list right ++ fkids f).
        destruct (irebalance_rel K V ltb True order f t t' small' pi cs Wf Hnd Er Hf) as (R1 & R2 & R3 & R4).
        -- left. reflexivity.
        -- intros k ch Hn. destruct S3 as [c [Hfc Hca]].
           rewrite (child_at_nth K V _ _ _ _ _ _ _ _ Hca Hf Hn).
           unfold Wf, fkids. rewrite Hfc. right. rewrite !in_app_iff. right. right. simpl. auto.
        -- intros k ch Hpos Hn. destruct (S2 Hpos) as [l0 [Hfl Hca]].
           rewrite (child_at_nth K V _ _ _ _ _ _ _ _ Hca Hf Hn).
           unfold Wf, fkids. rewrite Hfl. right. rewrite !in_app_iff. right. left. simpl. auto.
        -- intros k ch Hn.
           assert (Hlt : fidx f + 1 < length cs) by (apply nth_error_Some; congruence).
           apply Nat.ltb_lt in Hlt. rewrite Hlt in Ec. simpl in Ec.
           destruct right as [x|]; [|discriminate Ec].
           specialize (Hright x eq_refl). simpl in Hright.
           rewrite (child_at_nth K V _ _ _ _ _ _ _ _ Hright Hf Hn).
           unfold Wf. right. simpl. left. reflexivity.
        -- assert (Hnotin : forall g, In g rest -> ~ In (fp g) Wf).
           { apply rest_fp_notin with (root := nid t); auto. }
           eapply (IH o rest small' None t'); eauto.
           ++ eapply stack_ok_frm with (W := Wf) (fr := fr); eauto.
           ++ rewrite R4. eapply bottom_ok_tail; eauto.
           ++ rewrite R4. exact Hrest.
           ++ intros x Hx. discriminate Hx.
           ++ eapply frames_idx_view; [|eapply frames_idx_tail; eauto].
              intros g Hg. destruct (R2 (fp g) (Hnotin g Hg)) as [E|[E _]]; [exact E|tauto].
Qed.

(* ---------- the stepping thread ---------- *)
Ltac blk_top HB :=
  match type of HB with
  | bind ?e _ = Ok _ => let E := fresh "HE" in destruct e eqn:E; [cbn [bind] in HB; inversion HB; subst; clear HB | discriminate HB]
  end.
Ltac in_solve := simpl; rewrite ?in_app_iff; simpl; tauto.
Ltac nr H :=
  crunch H;
  try (unfold mk in H; inversion H; reflexivity);
  try (apply noright_ok2; eapply ins_descend_noright; eassumption).
Ltac n3 H :=
  crunch H;
  try (unfold mk in H; inversion H; reflexivity);
  try (apply no3_ok3; eapply ins_descend_no3; eassumption).

Opaque unwind.

Lemma own_core23 : forall order (s : st) me th tg (o : out),
  CIfull ltb order s -> all_inv K V s ->
  get_thread me (ths s) = Some th -> target s (tpc th) = Ok tg -> is_free s tg = true ->
  pc_ok3_b (tr s) (tpc th) = true ->
  blk ltb order s me th tg = Ok (Some o) ->
  pc_ok2_b (otr o) (opc o) = true /\ pc_ok3_b (otr o) (opc o) = true.
Proof.
  intros order s me th tg o [[HGI [_ Hpcs]] Hocc] (Hids & Hinv & Hfi) Hme Htg Hfree Hok3 HB.
  destruct HGI as (Hnd & Hlt & Hord & Hbal & Hcap & Hchain).
  assert (Hok0 : pc_ok_b ltb order (tr s) (tpc th) = true).
  { unfold all_pc_ok_b in Hpcs. rewrite forallb_forall in Hpcs. apply (Hpcs (me, th)). apply PCb1_Proof.get_thread_in; auto. }
  destruct Hinv as [Hinv Hwf2]. pose proof Hinv as [Hndl [Hndt [Hlk [Htm Hth]]]].
  destruct (Hth me th Hme) as [Hwf [HP HT]].
  pose proof (Hwf2 me th Hme) as Hw2.
  pose proof (Hfi me th Hme) as Hok.
  assert (Hheld : forall x, In x (pc_nodes (tpc th)) -> In x (held_by me (lk s))).
  { intros x Hx. eapply Permutation_in; [apply Permutation_sym; exact HP | exact Hx]. }
  unfold blk in HB.
  destruct (tpc th) as [ |o0|o0 r|o0 lft rgt|o0 p c index|o0 p c r|o0 leaf mode index|o0 p c|o0 stk|o0 stk|o0 stk|leaf i n acc|leaf nxt n acc] eqn:Hpc.
  all: cbv beta iota zeta in HB; simpl in Htg; crunch Htg; inversion Htg; subst tg; clear Htg.
  all: simpl in Hw2, Hok, Hheld.
  - (* Idle *) destruct (prog th); [discriminate HB|]. unfold mk in HB. simpl in HB. inversion HB; subst. split; reflexivity.
  - (* WantT *) blk_top HB. unfold mk in HE. inversion HE; subst. split; reflexivity.
  - (* WantRoot *)
    blk_top HB.
    destruct o0 as [k v|k f|k|k|k cnt].
    + split; [eapply (ins_root_pc2 order _ _ (tr s)); [reflexivity | exact HE] | n3 HE].
    + split; [eapply (ins_root_pc2 order _ _ (tr s)); [reflexivity | exact HE] | n3 HE].
    + destruct (tr s) as [i nx es|i cs] eqn:Et.
      * unfold mk in HE. crunch HE. inversion HE; subst. split; reflexivity.
      * destruct (del_descend ltb (CDelete k) [] (nid (INode i cs)) (INode i cs)) as [p|] eqn:Ed; [cbn [bind] in HE|discriminate HE].
        unfold mk in HE. inversion HE; subst; clear HE. cbn [otr opc].
        split; [apply noright_ok2; eapply del_descend_noright; eauto|].
        eapply del_descend_pc3; [exact Ed | reflexivity].
    + split; [apply noright_ok2; eapply sea_descend_noright; eauto|].
      eapply sea_descend_pc3; [exact HE | apply below_hi_root].
    + split; [apply noright_ok2; eapply sea_descend_noright; eauto|].
      eapply sea_descend_pc3; [exact HE | apply below_hi_root].
  - (* InsWantRootRight *)
    blk_top HB. split; [apply noright_ok2; eapply ins_descend_noright; eauto | apply no3_ok3; eapply ins_descend_no3; eauto].
  - (* InsWantChild *)
    blk_top HB.
    split; [eapply (ins_child_pc2' order o0 p c index (tr s)); [exact Hnd | exact HE] | n3 HE].
  - (* InsWantSplitRight *)
    blk_top HB. split; [apply noright_ok2; eapply ins_descend_noright; eauto | apply no3_ok3; eapply ins_descend_no3; eauto].
  - (* UpdCallback *)
    blk_top HB. unfold mk in HE. crunch HE; inversion HE; subst; split; reflexivity.
  - (* SeaWantChild *)
    blk_top HB. split; [apply noright_ok2; eapply sea_descend_noright; eauto|].
    eapply sea_descend_pc3; [exact HE|]. eapply pc_ok3_sea; eauto.
  - (* DelWantLeft *)
    blk_top HB. unfold mk in HE. inversion HE; subst; clear HE. cbn [otr opc].
    split; [reflexivity|]. simpl in Hok3 |- *. exact Hok3.
  - (* DelWantChild *)
    blk_top HB. destruct Hok as (O1 & O2 & O3 & O4). destruct Hw2 as [Hb Hfc].
    simpl in Hok3.
    assert (Hfi1 : frames_idx_b (key_of o0) (tr s) (set_fc f a :: l) = true) by (rewrite frames_idx_set_fc; exact Hok3).
    assert (Hb1 : bottom_ok (nid (tr s)) (set_fc f a :: l)) by (eapply bottom_ok_replace; eauto).
    assert (Hs1 : stack_ok (tr s) (fresh s) (set_fc f a :: l)).
    { simpl. split; [exact O1|]. split; [exact O2|]. split; [|split; [exact O3|exact O4]].
      exists a. split; [reflexivity|]. apply child_id_at. exact E0. }
    assert (Hperm : Permutation (a :: held_by me (lk s)) (nid (tr s) :: flat_map fkids (set_fc f a :: l))).
    { rewrite HP. simpl pc_nodes. eapply perm_trans; [eapply frames_set_fc; eauto|].
      rewrite (frames_nodes_bottom (nid (tr s))); [reflexivity | discriminate | exact Hb1]. }
    assert (Hga : NoDup (a :: held_by me (lk s))) by (eapply granted_nodup; eauto).
    assert (Hnd1 : NoDup (nid (tr s) :: flat_map fkids (set_fc f a :: l))).
    { eapply Permutation_NoDup; [exact Hperm | exact Hga]. }
    destruct (find a (tr s)) as [[i nx es|i cs]|] eqn:Hfa; try discriminate HE.
    + destruct (leaf_delete ltb (Nat.div2 order) (key_of o0) es) as [[es' small]|] eqn:Hld; [cbn [bind] in HE|discriminate HE].
      match type of HE with bind ?e _ = _ => destruct e as [t'|] eqn:Hu; [cbn [bind] in HE|discriminate HE] end.
      destruct (upd_leaf_rel K V True [a] a i nx nx es es' (tr s) t' Hnd Hfa Hu) as (A1 & A2 & A3 & A4);
        [in_solve|].
      assert (Hne : forall g, In g (set_fc f a :: l) -> ~ In (fp g) [a]).
      { intros g Hg [Ea|[]].
        assert (Hgh : In (fp g) (held_by me (lk s))).
        { apply Hheld.
          assert (Hlinks : links (f :: l)) by (split; [exact O3 | eapply stack_ok_links; eauto]).
          rewrite (frames_nodes_bottom (nid (tr s))); [ | discriminate | exact Hb].
          destruct Hg as [<-|Hg].
          - apply (fp_in_frames (nid (tr s)) (f :: l) Hlinks Hb f). left. reflexivity.
          - apply (fp_in_frames (nid (tr s)) (f :: l) Hlinks Hb g). right. exact Hg. }
        inversion Hga as [|? ? Hni _]. apply Hni. rewrite Ea. exact Hgh. }
      split; [apply noright_ok2; eapply unwind_noright; eauto|].
      eapply (unwind_pc3 order) with (t := t'); [exact HE | exact A3 | | | | | |].
      * eapply stack_ok_frm with (W := [a]); [exact A2 | apply le_n | exact Hne | exact Hs1].
      * rewrite A4. exact Hb1.
      * discriminate.
      * rewrite A4. exact Hnd1.
      * intros x Hx. discriminate Hx.
      * eapply frames_idx_view; [|exact Hfi1].
        intros g Hg. destruct (A2 (fp g) (Hne g Hg)) as [E|[E _]]; [exact E|tauto].
    + destruct (del_descend ltb o0 (set_fc f a :: l) a (tr s)) as [p|] eqn:Ed; [cbn [bind] in HE|discriminate HE].
      unfold mk in HE. inversion HE; subst; clear HE. cbn [otr opc].
      split; [apply noright_ok2; eapply del_descend_noright; eauto|].
      eapply del_descend_pc3; [exact Ed | exact Hfi1].
  - (* DelWantRight *)
    blk_top HB. destruct Hw2 as [Hb _].
    assert (Hperm : Permutation (a :: held_by me (lk s)) (nid (tr s) :: a :: flat_map fkids (f :: l))).
    { rewrite HP. simpl pc_nodes. rewrite (frames_nodes_bottom (nid (tr s))); [apply perm_swap | discriminate | exact Hb]. }
    simpl in Hok3.
    split; [apply noright_ok2; eapply unwind_noright; eauto|].
    eapply (unwind_pc3 order) with (t := tr s);
      [exact HE | exact Hnd | exact Hok | exact Hb | discriminate | | | exact Hok3].
    + simpl opt_list. simpl app. eapply Permutation_NoDup; [exact Hperm | eapply granted_nodup; eauto].
    + intros x Hx. inversion Hx; subst. simpl. apply child_id_at. exact E0.
  - (* CurRest *)
    blk_top HB. unfold mk in HE. crunch HE; inversion HE; subst; clear HE; cbn [otr opc]; split; reflexivity.
  - (* CurWantNext *)
    blk_top HB. unfold mk in HE. crunch HE; inversion HE; subst; clear HE; cbn [otr opc]; split; reflexivity.
Qed.

Transparent unwind.

End Own.

Arguments is3 {K V}.

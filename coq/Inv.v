(* Inv.v — the shape invariant of the tree (C08) as a proposition, and an executable checker for it.
   Definitions only.  [inv_b_iff] (InvProof.v) relates the two. *)
From GB Require Export Model.

Set Implicit Arguments.

Section Inv.
Variables (K V : Type) (ltb : K -> K -> bool).
Notation tree := (tree K V).
Implicit Types (t : tree).

Definition lt (a b : K) : Prop := ltb a b = true.
Definition le (a b : K) : Prop := ltb b a = false.      (* not b < a *)

(* what the proofs may assume about the key order: a strict weak order *)
Record SWO : Prop := {
  swo_irrefl : forall a, ltb a a = false;
  swo_trans : forall a b c, ltb a b = true -> ltb b c = true -> ltb a c = true;
  swo_negtrans : forall a b c, ltb a b = false -> ltb b c = false -> ltb a c = false
}.

(* strictly ascending, adjacent form *)
Fixpoint asc (ks : list K) : Prop :=
  match ks with
  | k :: (k' :: _) as r => lt k k' /\ asc r
  | _ => True
  end.

(* every key and every separator at or beneath a node *)
Fixpoint allkeys (t : tree) : list K :=
  match t with
  | Leaf es => map fst es
  | Node cs => flat_map (fun c => fst c :: allkeys (snd c)) cs
  end.

Definition all_kids (P : tree -> Prop) : list (K * tree) -> Prop :=
  fix go cs := match cs with [] => True | (_, c) :: r => P c /\ go r end.

(* each separator is <= everything beneath its child and everything beneath the child is < the next separator *)
Definition seps_ok : list (K * tree) -> Prop :=
  fix go cs :=
    match cs with
    | [] => True
    | (s, c) :: r =>
      Forall (le s) (allkeys c) /\
      match r with [] => True | (s', _) :: _ => Forall (fun k => lt k s') (allkeys c) end /\
      go r
    end.

Fixpoint ordered (t : tree) : Prop :=
  match t with
  | Leaf es => asc (map fst es)
  | Node cs => asc (map fst cs) /\ seps_ok cs /\ all_kids ordered cs
  end.

(* all leaves exactly d levels below t; internal nodes are never empty *)
Fixpoint bal (d : nat) (t : tree) : Prop :=
  match t, d with
  | Leaf _, 0 => True
  | Node cs, S d' => cs <> [] /\ all_kids (bal d') cs
  | _, _ => False
  end.

Definition root_min (order : nat) : nat := if 4 <=? order then 2 else 1.

(* capacity everywhere, minimum occupancy below the root, an internal root has at least two children
   (one at order 2, where a split leaves single-child nodes) *)
Fixpoint occ (order : nat) (isroot : bool) (t : tree) : Prop :=
  count t <= order /\
  (if isroot then match t with Leaf _ => True | Node _ => root_min order <= count t end
   else Nat.div2 order <= count t) /\
  match t with Leaf _ => True | Node cs => all_kids (fun c => occ order false c) cs end.

Definition Inv (order : nat) (t : tree) : Prop :=
  ordered t /\ bal (height t) t /\ occ order true t.

(* ---- the same, executable ---- *)
Fixpoint asc_b (ks : list K) : bool :=
  match ks with
  | k :: (k' :: _) as r => ltb k k' && asc_b r
  | _ => true
  end.

Definition all_kids_b (P : tree -> bool) : list (K * tree) -> bool :=
  fix go cs := match cs with [] => true | (_, c) :: r => P c && go r end.

Definition seps_ok_b : list (K * tree) -> bool :=
  fix go cs :=
    match cs with
    | [] => true
    | (s, c) :: r =>
      forallb (fun k => negb (ltb k s)) (allkeys c) &&
      match r with [] => true | (s', _) :: _ => forallb (fun k => ltb k s') (allkeys c) end &&
      go r
    end.

Fixpoint ordered_b (t : tree) : bool :=
  match t with
  | Leaf es => asc_b (map fst es)
  | Node cs => asc_b (map fst cs) && seps_ok_b cs && all_kids_b ordered_b cs
  end.

Fixpoint bal_b (d : nat) (t : tree) : bool :=
  match t, d with
  | Leaf _, 0 => true
  | Node cs, S d' => negb (length cs =? 0) && all_kids_b (bal_b d') cs
  | _, _ => false
  end.

Fixpoint occ_b (order : nat) (isroot : bool) (t : tree) : bool :=
  (count t <=? order) &&
  (if isroot then match t with Leaf _ => true | Node _ => root_min order <=? count t end
   else Nat.div2 order <=? count t) &&
  match t with Leaf _ => true | Node cs => all_kids_b (fun c => occ_b order false c) cs end.

Definition inv_b (order : nat) (t : tree) : bool :=
  ordered_b t && bal_b (height t) t && occ_b order true t.

End Inv.

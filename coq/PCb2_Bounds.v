(* PCb2_Bounds.v — key ranges of nodes ([bounds], CInv.v) as a lookup in a flattened list [bnodes], the effect of
   [upd] on that list (one contiguous segment is rewritten), and the order "range does not shrink" ([brel]) with
   the rules to establish it for a node whose list of children changes in one segment. *)
From Coq Require Import List Permutation Lia Bool PeanoNat.
From GB Require Import ListLemmas TreeLemmas Frame LockProof CInv UpdLemmas FrameRel FrameInv.
Import ListNotations.

Section Bounds.
Variables (K V : Type) (ltb : K -> K -> bool).
Notation itree := (itree K V).

Definition bnd : Type := (option K * option K)%type.

(* ---------- ranges that do not shrink ---------- *)
Definition lo_ge (lo lo' : option K) : Prop := forall k, ge_lo ltb k lo = true -> ge_lo ltb k lo' = true.
Definition hi_le (hi hi' : option K) : Prop := forall k, lt_hi ltb k hi = true -> lt_hi ltb k hi' = true.
Definition brel (b b' : bnd) : Prop := lo_ge (fst b) (fst b') /\ hi_le (snd b) (snd b').

Lemma lo_ge_refl lo : lo_ge lo lo. Proof. intros k H. exact H. Qed.
Lemma hi_le_refl hi : hi_le hi hi. Proof. intros k H. exact H. Qed.
Lemma brel_refl b : brel b b. Proof. split; [apply lo_ge_refl | apply hi_le_refl]. Qed.
Lemma brel_trans a b c : brel a b -> brel b c -> brel a c.
Proof. intros [A1 A2] [B1 B2]. split; intros k H; auto. Qed.
Lemma lo_ge_none lo : lo_ge lo None. Proof. intros k _. reflexivity. Qed.
Lemma hi_le_none hi : hi_le hi None. Proof. intros k _. reflexivity. Qed.

(* ---------- the flattened list of (identity, range) ---------- *)
Definition hd_sep (hi : option K) (l : list (K * itree)) : option K :=
  match l with [] => hi | (s, _) :: _ => Some s end.

Fixpoint bnodes (lo hi : option K) (t : itree) : list (id * bnd) :=
  match t with
  | ILeaf i _ _ => [(i, (lo, hi))]
  | INode i cs => (i, (lo, hi)) ::
      (fix go (cs : list (K * itree)) : list (id * bnd) :=
         match cs with
         | [] => []
         | (s, c) :: r => bnodes (Some s) (match r with [] => hi | (s', _) :: _ => Some s' end) c ++ go r
         end) cs
  end.

Definition bnodesl (hi : option K) : list (K * itree) -> list (id * bnd) :=
  fix go cs := match cs with [] => [] | (s, c) :: r => bnodes (Some s) (hd_sep hi r) c ++ go r end.

Definition boundsl (hi : option K) (x : id) : list (K * itree) -> option bnd :=
  fix go cs := match cs with
               | [] => None
               | (s, c) :: r => match bounds_in (Some s) (hd_sep hi r) x c with Some b => Some b | None => go r end
               end.

Lemma bnodes_node lo hi i cs : bnodes lo hi (INode i cs) = (i, (lo, hi)) :: bnodesl hi cs.
Proof. reflexivity. Qed.
Lemma bnodesl_cons hi s (c : itree) r : bnodesl hi ((s, c) :: r) = bnodes (Some s) (hd_sep hi r) c ++ bnodesl hi r.
Proof. reflexivity. Qed.
Lemma boundsl_cons hi x s (c : itree) r :
  boundsl hi x ((s, c) :: r) = match bounds_in (Some s) (hd_sep hi r) x c with Some b => Some b | None => boundsl hi x r end.
Proof. reflexivity. Qed.
Lemma bounds_in_eq lo hi x (t : itree) :
  bounds_in lo hi x t = if nid t =? x then Some (lo, hi) else match t with ILeaf _ _ _ => None | INode _ cs => boundsl hi x cs end.
Proof. destruct t; reflexivity. Qed.

Lemma hd_sep_app hi (a b : list (K * itree)) : hd_sep hi (a ++ b) = hd_sep (hd_sep hi b) a.
Proof. destruct a as [|[s c] a]; reflexivity. Qed.

Lemma bnodesl_app hi a b : bnodesl hi (a ++ b) = bnodesl (hd_sep hi b) a ++ bnodesl hi b.
Proof.
  induction a as [|[s c] a IH]; [reflexivity|].
  rewrite <- app_comm_cons, !bnodesl_cons, IH, hd_sep_app, <- app_assoc. reflexivity.
Qed.

Lemma bnodes_hd lo hi (t : itree) : exists r, bnodes lo hi t = (nid t, (lo, hi)) :: r.
Proof. destruct t; simpl; eauto. Qed.

Lemma map_fst_bnodes (t : itree) : forall lo hi, map fst (bnodes lo hi t) = ids t.
Proof.
  induction t as [i nx es|i cs IH] using itree_ind2; intros lo hi; [reflexivity|].
  rewrite bnodes_node, ids_node. simpl. f_equal.
  revert hi. induction cs as [|[s c] r IHr]; intros hi; [reflexivity|].
  inversion IH as [|? ? H1 H2]; subst. rewrite bnodesl_cons, idsl_cons, map_app. simpl in *.
  rewrite H1, IHr; auto.
Qed.

Lemma map_fst_bnodesl cs : forall hi, map fst (bnodesl hi cs) = idsl cs.
Proof.
  induction cs as [|[s c] r IHr]; intros hi; [reflexivity|].
  rewrite bnodesl_cons, idsl_cons, map_app, map_fst_bnodes, IHr. reflexivity.
Qed.

(* ---------- lookup ---------- *)
Fixpoint assoc (x : id) (l : list (id * bnd)) : option bnd :=
  match l with [] => None | (y, b) :: r => if y =? x then Some b else assoc x r end.

Lemma assoc_app x a b : assoc x (a ++ b) = match assoc x a with Some v => Some v | None => assoc x b end.
Proof. induction a as [|[y w] a IH]; simpl; [reflexivity|]. destruct (y =? x); auto. Qed.

Lemma bounds_assoc (t : itree) : forall lo hi x, bounds_in lo hi x t = assoc x (bnodes lo hi t).
Proof.
  induction t as [i nx es|i cs IH] using itree_ind2; intros lo hi x.
  - simpl. destruct (i =? x); reflexivity.
  - rewrite bounds_in_eq, bnodes_node. simpl. destruct (i =? x); [reflexivity|].
    revert hi. induction cs as [|[s c] r IHr]; intros hi; [reflexivity|].
    inversion IH as [|? ? H1 H2]; subst. rewrite boundsl_cons, bnodesl_cons, assoc_app. simpl in H1.
    rewrite H1, IHr; auto.
Qed.

Lemma assoc_in x b (l : list (id * bnd)) : NoDup (map fst l) -> (assoc x l = Some b <-> In (x, b) l).
Proof.
  induction l as [|[y w] l IH]; simpl; intros Hnd; [split; [discriminate|tauto]|].
  inversion Hnd as [|? ? Hni Hnd']; subst.
  destruct (y =? x) eqn:E.
  - apply Nat.eqb_eq in E. subst y. split.
    + intros H. inversion H; subst. auto.
    + intros [H|H]; [inversion H; reflexivity|]. exfalso. apply Hni. apply in_map_iff. exists (x, b). auto.
  - apply Nat.eqb_neq in E. rewrite IH by exact Hnd'. split; [auto|]. intros [H|H]; [inversion H; congruence | exact H].
Qed.

Lemma bounds_iff x b (t : itree) : NoDup (ids t) -> (bounds x t = Some b <-> In (x, b) (bnodes None None t)).
Proof. intros Hnd. unfold bounds. rewrite bounds_assoc. apply assoc_in. rewrite map_fst_bnodes. exact Hnd. Qed.

Lemma bounds_in_iff lo hi x b (t : itree) : NoDup (ids t) -> (bounds_in lo hi x t = Some b <-> In (x, b) (bnodes lo hi t)).
Proof. intros Hnd. rewrite bounds_assoc. apply assoc_in. rewrite map_fst_bnodes. exact Hnd. Qed.

(* ---------- upd rewrites one segment ---------- *)
Lemma updl_seps x f (cs cs' : list (K * itree)) : updl x f cs = Ok cs' -> map fst cs' = map fst cs.
Proof.
  revert cs'. induction cs as [|[s c] r IH]; intros cs' H.
  - inversion H. reflexivity.
  - rewrite updl_cons in H. destruct (upd x f c) as [c'|]; [simpl in H|discriminate].
    destruct (updl x f r) as [r'|]; [simpl in H|discriminate]. inversion H; subst. simpl. f_equal. auto.
Qed.

Lemma hd_sep_seps hi (a b : list (K * itree)) : map fst a = map fst b -> hd_sep hi a = hd_sep hi b.
Proof. destruct a as [|[s c] a]; destruct b as [|[s' c'] b]; simpl; intros H; try discriminate; [reflexivity | inversion H; reflexivity]. Qed.

Lemma upd_bnodes x (n n' : itree) : nid n' = nid n -> forall (t t' : itree) lo hi,
  NoDup (ids t) -> find x t = Some n -> upd x (fun _ => Ok n') t = Ok t' ->
  exists pre post lp hp, bnodes lo hi t = pre ++ bnodes lp hp n ++ post /\ bnodes lo hi t' = pre ++ bnodes lp hp n' ++ post.
Proof.
  intros Hnn. induction t as [i nx es|i cs IH] using itree_ind2; intros t' lo hi Hnd Hf Hu;
    rewrite find_eq in Hf; rewrite upd_eq in Hu; simpl nid in *.
  - destruct (i =? x) eqn:E; [|discriminate]. inversion Hf; inversion Hu; subst.
    exists [], [], lo, hi. rewrite !app_nil_r. auto.
  - destruct (i =? x) eqn:E.
    + inversion Hf; inversion Hu; subst. exists [], [], lo, hi. rewrite !app_nil_r. auto.
    + clear E. rewrite ids_node in Hnd. inversion Hnd as [|? ? _ Hnd']; subst. clear Hnd.
      assert (H : forall cs' hi, updl x (fun _ => Ok n') cs = Ok cs' ->
                exists pre post lp hp, bnodesl hi cs = pre ++ bnodes lp hp n ++ post /\ bnodesl hi cs' = pre ++ bnodes lp hp n' ++ post).
      { clear Hu t' hi. induction cs as [|[s c] r IHr]; intros cs' hi Hu; [discriminate|].
        inversion IH as [|? ? H1 H2]; subst. rewrite findl_cons in Hf. rewrite updl_cons in Hu. simpl in H1.
        rewrite idsl_cons in Hnd'. simpl in Hnd'.
        destruct (find x c) as [y|] eqn:Ec.
        - inversion Hf; subst y.
          assert (Hxr : ~ In x (idsl r)).
          { intro Hin. apply find_in_ids in Ec. eapply NoDup_app_disj; eauto. }
          destruct (upd x (fun _ => Ok n') c) as [c'|] eqn:Euc; [simpl in Hu|discriminate].
          rewrite updl_notin in Hu by exact Hxr. simpl in Hu. inversion Hu; subst cs'.
          destruct (H1 c' (Some s) (hd_sep hi r) (NoDup_app_remove_r _ _ Hnd') eq_refl eq_refl) as [pre [post [lp [hp [P1 P2]]]]].
          exists pre, (post ++ bnodesl hi r), lp, hp. rewrite !bnodesl_cons. rewrite P1, P2, <- !app_assoc. auto.
        - assert (Hxc : ~ In x (ids c)) by (rewrite find_some_iff; intro X; apply X; exact Ec).
          rewrite upd_notin in Hu by exact Hxc. simpl in Hu.
          destruct (updl x (fun _ => Ok n') r) as [r'|] eqn:Eur; [simpl in Hu|discriminate]. inversion Hu; subst cs'.
          destruct (IHr H2 Hf (NoDup_app_remove_l _ _ Hnd') r' hi eq_refl) as [pre [post [lp [hp [P1 P2]]]]].
          exists (bnodes (Some s) (hd_sep hi r) c ++ pre), post, lp, hp. rewrite !bnodesl_cons.
          rewrite (hd_sep_seps hi r' r (updl_seps _ _ _ _ Eur)).
          rewrite P1, P2, <- !app_assoc. auto. }
      destruct (updl x (fun _ => Ok n') cs) as [cs'|] eqn:Eu; [simpl in Hu|discriminate]. inversion Hu; subst t'.
      destruct (H cs' hi eq_refl) as [pre [post [lp [hp [P1 P2]]]]].
      exists ((i, (lo, hi)) :: pre), post, lp, hp. rewrite !bnodes_node, P1, P2. auto.
Qed.

(* ---------- "ranges outside W do not shrink", on flattened lists ---------- *)
Definition lbm (W : list id) (l l' : list (id * bnd)) : Prop :=
  forall y b, ~ In y W -> In (y, b) l -> exists b', In (y, b') l' /\ brel b b'.

Lemma lbm_refl W l : lbm W l l.
Proof. intros y b _ H. exists b. split; [exact H | apply brel_refl]. Qed.

Lemma lbm_trans W a b c : lbm W a b -> lbm W b c -> lbm W a c.
Proof.
  intros H1 H2 y v Hy Hin. destruct (H1 y v Hy Hin) as [v1 [A1 A2]]. destruct (H2 y v1 Hy A1) as [v2 [B1 B2]].
  exists v2. split; [exact B1 | eapply brel_trans; eauto].
Qed.

Lemma lbm_mono W W' a b : incl W W' -> lbm W a b -> lbm W' a b.
Proof. intros Hi H y v Hy. apply H. intro X. apply Hy. apply Hi. exact X. Qed.

Lemma lbm_app W a a' b b' : lbm W a a' -> lbm W b b' -> lbm W (a ++ b) (a' ++ b').
Proof.
  intros H1 H2 y v Hy Hin. apply in_app_iff in Hin. destruct Hin as [Hin|Hin].
  - destruct (H1 y v Hy Hin) as [v' [A B]]. exists v'. split; [apply in_or_app; left; exact A | exact B].
  - destruct (H2 y v Hy Hin) as [v' [A B]]. exists v'. split; [apply in_or_app; right; exact A | exact B].
Qed.

Lemma lbm_cons W e a a' : lbm W a a' -> lbm W (e :: a) (e :: a').
Proof. intros H. apply (lbm_app W [e] [e] a a'); [apply lbm_refl | exact H]. Qed.

(* the head may change if it is in W *)
Lemma lbm_cons_W W x v v' a a' : In x W -> lbm W a a' -> lbm W ((x, v) :: a) ((x, v') :: a').
Proof.
  intros Hx H y b Hy [E|Hin].
  - inversion E; subst. tauto.
  - destruct (H y b Hy Hin) as [b' [A B]]. exists b'. split; [right; exact A | exact B].
Qed.

Lemma lbm_incl W a a' : (forall y b, ~ In y W -> In (y, b) a -> In (y, b) a') -> lbm W a a'.
Proof. intros H y b Hy Hin. exists b. split; [apply H; auto | apply brel_refl]. Qed.

(* the upper bound passed down may grow *)
Lemma bnodes_mono (t : itree) : forall lo h h', hi_le h h' -> lbm [] (bnodes lo h t) (bnodes lo h' t).
Proof.
  induction t as [i nx es|i cs IH] using itree_ind2; intros lo h h' Hh.
  - simpl. intros y b _ [E|[]]. inversion E; subst. exists (lo, h'). split; [left; reflexivity|].
    split; [apply lo_ge_refl | exact Hh].
  - rewrite !bnodes_node. intros y b Hy [E|Hin].
    + inversion E; subst. exists (lo, h'). split; [left; reflexivity|]. split; [apply lo_ge_refl | exact Hh].
    + assert (H : lbm [] (bnodesl h cs) (bnodesl h' cs)).
      { clear Hin y b Hy. induction cs as [|[s c] r IHr]; [apply lbm_refl|].
        inversion IH as [|? ? H1 H2]; subst. rewrite !bnodesl_cons. simpl in H1.
        apply lbm_app; [|apply IHr; auto].
        destruct r as [|[s' c'] r']; simpl; [apply H1; exact Hh | apply lbm_refl]. }
      destruct (H y b Hy Hin) as [b' [A B]]. exists b'. split; [right; exact A | exact B].
Qed.

Lemma bnodesl_mono cs : forall h h', hi_le h h' -> lbm [] (bnodesl h cs) (bnodesl h' cs).
Proof.
  induction cs as [|[s c] r IHr]; intros h h' Hh; [apply lbm_refl|].
  rewrite !bnodesl_cons. apply lbm_app; [|apply IHr; exact Hh].
  destruct r as [|[s' c'] r']; simpl; [apply bnodes_mono; exact Hh | apply lbm_refl].
Qed.

(* the lower bound passed down matters only for the node itself *)
Lemma bnodes_lo lo lo' h (t : itree) y b : y <> nid t -> In (y, b) (bnodes lo h t) -> In (y, b) (bnodes lo' h t).
Proof.
  destruct t as [i nx es|i cs]; simpl; intros Hy [E|Hin]; try (inversion E; subst; congruence); [destruct Hin | right; exact Hin].
Qed.

Lemma bnodes_tail lo h (t : itree) y b : y <> nid t -> In (y, b) (bnodes lo h t) ->
  match t with ILeaf _ _ _ => False | INode _ cs => In (y, b) (bnodesl h cs) end.
Proof.
  destruct t as [i nx es|i cs]; simpl; intros Hy [E|Hin]; try (inversion E; subst; congruence); [destruct Hin | exact Hin].
Qed.

(* ---------- a node whose children change in one segment ---------- *)
Lemma kids_lbm W p (A mid mid' B : list (K * itree)) :
  (A = [] \/ forall h, hi_le (hd_sep h mid) (hd_sep h mid')) ->
  (forall h, lbm W (bnodesl h mid) (bnodesl h mid')) ->
  forall lo hi, lbm W (bnodes lo hi (INode p (A ++ mid ++ B))) (bnodes lo hi (INode p (A ++ mid' ++ B))).
Proof.
  intros HA Hm lo hi. rewrite !bnodes_node. apply lbm_cons.
  rewrite !bnodesl_app. apply lbm_app; [|apply lbm_app; [apply Hm | apply lbm_refl]].
  rewrite !hd_sep_app. destruct HA as [->|HA]; [apply lbm_refl|].
  eapply lbm_mono; [|apply bnodesl_mono; apply HA]. intros x [].
Qed.

(* ---------- global form ---------- *)
Definition bm (W : list id) (t t' : itree) : Prop :=
  forall x b, ~ In x W -> bounds x t = Some b -> exists b', bounds x t' = Some b' /\ brel b b'.

Lemma bm_refl W t : bm W t t.
Proof. intros x b _ H. exists b. split; [exact H | apply brel_refl]. Qed.

Lemma bm_trans W a b c : bm W a b -> bm W b c -> bm W a c.
Proof.
  intros H1 H2 y v Hy Hin. destruct (H1 y v Hy Hin) as [v1 [A1 A2]]. destruct (H2 y v1 Hy A1) as [v2 [B1 B2]].
  exists v2. split; [exact B1 | eapply brel_trans; eauto].
Qed.

Lemma bm_mono W W' a b : incl W W' -> bm W a b -> bm W' a b.
Proof. intros Hi H y v Hy. apply H. intro X. apply Hy. apply Hi. exact X. Qed.

Lemma bm_of_lbm W (t t' : itree) :
  NoDup (ids t) -> NoDup (ids t') -> lbm W (bnodes None None t) (bnodes None None t') -> bm W t t'.
Proof.
  intros H1 H2 H x b Hx Hb. apply bounds_iff in Hb; [|exact H1].
  destruct (H x b Hx Hb) as [b' [A B]]. exists b'. split; [apply bounds_iff; auto | exact B].
Qed.

(* replacing the node found at x *)
Lemma upd_bm W x (n n' t t' : itree) :
  NoDup (ids t) -> NoDup (ids t') -> find x t = Some n -> nid n' = nid n -> upd x (fun _ => Ok n') t = Ok t' ->
  (forall lo hi, lbm W (bnodes lo hi n) (bnodes lo hi n')) -> bm W t t'.
Proof.
  intros Hnd Hnd' Hf Hn Hu H. apply bm_of_lbm; auto.
  destruct (upd_bnodes x n n' Hn t t' None None Hnd Hf Hu) as [pre [post [lp [hp [P1 P2]]]]].
  rewrite P1, P2. apply lbm_app; [apply lbm_refl|]. apply lbm_app; [apply H | apply lbm_refl].
Qed.

Lemma in_range_bm W k x (t t' : itree) :
  bm W t t' -> ~ In x W -> in_range ltb k x t = true -> in_range ltb k x t' = true.
Proof.
  intros H Hx. unfold in_range. destruct (bounds x t) as [[lo hi]|] eqn:E; [|discriminate].
  destruct (H x (lo, hi) Hx E) as [[lo' hi'] [A [B1 B2]]]. rewrite A. simpl in *.
  intros Hr. apply andb_prop in Hr. destruct Hr as [R1 R2]. rewrite (B1 k R1), (B2 k R2). reflexivity.
Qed.

End Bounds.

Arguments bnodes {K V}. Arguments bnodesl {K V}. Arguments hd_sep {K V}. Arguments lbm {K}. Arguments bm {K V}.
Arguments brel {K}. Arguments hi_le {K}. Arguments lo_ge {K}.

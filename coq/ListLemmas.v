(* ListLemmas.v — list facts missing from the 8.16 standard library *)
From Coq Require Import List Lia PeanoNat.
Import ListNotations.

Lemma nth_error_firstn {A} (l : list A) n i : i < n -> nth_error (firstn n l) i = nth_error l i.
Proof.
  revert n i; induction l as [|x l IH]; intros n i H.
  - rewrite firstn_nil. destruct i; reflexivity.
  - destruct n; [lia|]. destruct i; simpl; [reflexivity|]. apply IH. lia.
Qed.

Lemma nth_error_skipn {A} (l : list A) n i : nth_error (skipn n l) i = nth_error l (n + i).
Proof.
  revert n; induction l as [|x l IH]; intros n.
  - rewrite skipn_nil. destruct i, n; reflexivity.
  - destruct n; simpl; [reflexivity|]. apply IH.
Qed.

Lemma nth_error_map' {A B} (f : A -> B) (l : list A) i : nth_error (map f l) i = option_map f (nth_error l i).
Proof. revert i; induction l as [|x l IH]; intros [|i]; simpl; auto. Qed.

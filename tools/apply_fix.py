#!/usr/bin/env python3
"""Apply one of the repairs F1..F6 to the six tree files of a gobptree checkout (cwd).
usage: apply_fix.py F1|F2|F3|F4|F5|F6   (used once to produce the fix: commits; kept for the record)"""
import sys
which = sys.argv[1]
files = {'int32': 'Int32', 'int64': 'Int64', 'uint32': 'Uint32', 'uint64': 'Uint64', 'string': 'String', 'comparable': 'Comparable'}
for low, cap in files.items():
    p = low + '.go'
    s = open(p).read()

    def rep(a, b, n=None):
        global s
        c = s.count(a)
        assert c >= 1 and (n is None or c == n), (p, a[:40], c)
        s = s.replace(a, b)
    node = low + 'Node'
    le = low + 'SearchLessThanOrEqualTo'
    ge = low + 'SearchGreaterThanOrEqualTo'
    if which == 'F1':
        rep("t.root.deleteKey(t.order, key)", "t.root.deleteKey(t.order>>1, key)", 1)
    elif which == 'F2':
        rep("\t\t\tchild.adoptFromLeft(leftSibling)\n\t\t\treturn false",
            "\t\t\tchild.adoptFromLeft(leftSibling)\n\t\t\ti.runts[index] = child.smallest()\n\t\t\treturn false", 1)
    elif which == 'F3':
        cmp_ = "ln.runts[index].Less(key)" if low == 'comparable' else "ln.runts[index] < key"
        rep("\treturn new%sCursor(ln, %s(key, ln.runts))" % (cap, ge),
            "\tindex := %s(key, ln.runts)\n\tif index < len(ln.runts) && %s {\n\t\t// every key of this leaf is smaller than key: start at the next leaf\n\t\tindex++\n\t}\n\treturn new%sCursor(ln, index)" % (ge, cmp_, cap), 1)
    elif which == 'F4':
        rep("type %sTree struct {\n\troot  %s\n\torder int\n}" % (cap, node),
            "type %sTree struct {\n\troot  %s\n\torder int\n\tmutex sync.Mutex // guards root; held only until the root node is locked\n}" % (cap, node), 1)
        rep("\tt.root.lock()\n\tdefer t.root.unlock()\n", "\tt.mutex.Lock()\n\tdefer t.mutex.Unlock()\n\tt.root.lock()\n\tdefer t.root.unlock()\n", 1)
        rep("\tn := t.root\n\tn.lock()\n\n\t// Split the root", "\tt.mutex.Lock()\n\tn := t.root\n\tn.lock()\n\n\t// Split the root", 2)
        rep("\t\t\tn = right\n\t\t}\n\t}\n\n\tfor n.isInternal() {", "\t\t\tn = right\n\t\t}\n\t}\n\tt.mutex.Unlock()\n\n\tfor n.isInternal() {", 2)
        rep("\tn := t.root\n\tn.lock()\n\tfor n.isInternal() {", "\tt.mutex.Lock()\n\tn := t.root\n\tn.lock()\n\tt.mutex.Unlock()\n\tfor n.isInternal() {", 2)
    elif which == 'F5':
        rep("""	index := %s(key, i.runts)
	child := i.children[index]
	child.lock()
	defer child.unlock()

	if !child.deleteKey(minSize, key) {
		return false
	}
	// POST: child is too small

	var leftSibling, rightSibling %s
	var leftCount, rightCount int
""" % (le, node), """	index := %s(key, i.runts)

	var leftSibling, rightSibling %s
	var leftCount, rightCount int

	if index > 0 {
		// Lock the left sibling before the child, so siblings are always locked
		// from left to right, the same direction cursors walk the leaves.
		leftSibling = i.children[index-1]
		leftSibling.lock()
		defer leftSibling.unlock()
	}

	child := i.children[index]
	child.lock()
	defer child.unlock()

	if !child.deleteKey(minSize, key) {
		return false
	}
	// POST: child is too small
""" % (le, node), 1)
        rep("\t\t// try left sibling\n\t\tleftSibling = i.children[index-1]\n\t\tleftSibling.lock()\n\t\tdefer leftSibling.unlock()\n\t\tif leftCount", "\t\t// try left sibling\n\t\tif leftCount", 1)
    elif which == 'F6':
        old = "key.Less(smallest)" if low == 'comparable' else "key < smallest"
        new = "key.Less(parent.runts[0])" if low == 'comparable' else "key < parent.runts[0]"
        rep("\t\tif index == 0 {\n\t\t\tif smallest := child.smallest(); %s {\n\t\t\t\t// preemptively update smallest value\n\t\t\t\tparent.runts[0] = key\n\t\t\t}\n\t\t}\n" % old,
            "\t\tif index == 0 && %s {\n\t\t\t// The key becomes the smallest of this subtree. Only ever lower the\n\t\t\t// first runt; never raise it toward the smallest key of the child.\n\t\t\tparent.runts[0] = key\n\t\t}\n" % new, 2)
    else:
        sys.exit("unknown fix")
    open(p, 'w').write(s)
print("ok", which)

(* Conc.v — executable concurrent model of gobptree at lock-acquisition granularity.
   A state holds the tree with node identities and explicit leaf links, the lock table, the tree mutex
   and, per thread, a client program and a program counter naming the one lock it waits for.
   [cstep s t] is [Blocked] if that lock is held; otherwise thread t acquires it and runs, atomically, up
   to its next Lock() call, API boundary or callback — the points at which the harness's cooperative
   scheduler can switch goroutines.  Definitions only. *)
From GB Require Export Model.
Set Implicit Arguments.

Definition id := nat.
Definition tid := nat.

Section Conc.
Variables (K V : Type) (ltb : K -> K -> bool).

Inductive itree := ILeaf (i : id) (nx : option id) (es : list (K * V)) | INode (i : id) (cs : list (K * itree)).

Definition nid (t : itree) : id := match t with ILeaf i _ _ => i | INode i _ => i end.
Definition icount (t : itree) : nat := match t with ILeaf _ _ es => length es | INode _ cs => length cs end.
Definition ismallest (t : itree) : res K :=
  match t with
  | ILeaf _ _ ((k, _) :: _) => Ok k | INode _ ((k, _) :: _) => Ok k
  | ILeaf _ _ [] => Panic PLeafEmpty | INode _ [] => Panic PInternalEmpty end.

Fixpoint find (x : id) (t : itree) : option itree :=
  if nid t =? x then Some t else
  match t with
  | ILeaf _ _ _ => None
  | INode _ cs => (fix go (cs : list (K * itree)) := match cs with [] => None | (_, c) :: r =>
                     match find x c with Some y => Some y | None => go r end end) cs
  end.

(* replace the subtree rooted at x by f of it *)
Fixpoint upd (x : id) (f : itree -> res itree) (t : itree) : res itree :=
  if nid t =? x then f t else
  match t with
  | ILeaf _ _ _ => Ok t
  | INode i cs => cs' <- (fix go (cs : list (K * itree)) : res (list (K * itree)) :=
                     match cs with [] => Ok [] | (s, c) :: r =>
                       c' <- upd x f c ;; r' <- go r ;; Ok ((s, c') :: r') end) cs ;;
                  Ok (INode i cs')
  end.

Fixpoint path_of (x : id) (t : itree) : option (list nat) :=
  if nid t =? x then Some [] else
  match t with
  | ILeaf _ _ _ => None
  | INode _ cs => (fix go (j : nat) (cs : list (K * itree)) := match cs with [] => None | (_, c) :: r =>
                     match path_of x c with Some p => Some (j :: p) | None => go (S j) r end end) 0 cs
  end.

(* forget identities and links: the sequential model's tree *)
Fixpoint erase_ids (t : itree) : tree K V :=
  match t with
  | ILeaf _ _ es => Leaf es
  | INode _ cs => Node (map (fun c => (fst c, erase_ids (snd c))) cs)
  end.

(* the leaves left to right, as (id, next) *)
Fixpoint leaf_links (t : itree) : list (id * option id) :=
  match t with
  | ILeaf i nx _ => [(i, nx)]
  | INode _ cs => flat_map (fun c => leaf_links (snd c)) cs
  end.

(* maybeSplit with the new sibling's identity s *)
Definition isplit (order : nat) (s : id) (t : itree) : option (itree * itree) :=
  if icount t <? order then None else
  let h := Nat.div2 order in
  match t with
  | ILeaf i nx es => Some (ILeaf i (Some s) (firstn h es), ILeaf s nx (firstn h (skipn h es)))
  | INode i cs => Some (INode i (firstn h cs), INode s (firstn h (skipn h cs)))
  end.

(* ---- client programs ---- *)
Inductive cop :=
| CInsert (k : K) (v : V)
| CUpdate (k : K) (f : option V -> V)
| CDelete (k : K)
| CSearch (k : K)
| CScan (k : K) (n : nat).      (* NewScanner k, at most n Scan steps, then Close if still open *)

Inductive ores := RUnit | RArg (a : option V) | RFound (a : option V) | RPairs (l : list (K * V)).

(* what a step makes visible to the client *)
Inductive event := EInvoke (o : cop) | EReturn (r : ores) | EPair (e : K * V) | EScanEnd.

(* one activation of internal deleteKey: the node, the child index, and the locks it took (the Go code's
   deferred unlocks capture these pointers when the locks are taken) *)
Record frame := { fp : id; fidx : nat; fl : option id; fc : option id }.
Definition set_fl (f : frame) (x : id) : frame := {| fp := fp f; fidx := fidx f; fl := Some x; fc := fc f |}.
Definition set_fc (f : frame) (x : id) : frame := {| fp := fp f; fidx := fidx f; fl := fl f; fc := Some x |}.

Inductive pc :=
| Idle
| WantT (o : cop)
| WantRoot (o : cop) (r : id)
| InsWantRootRight (o : cop) (l r : id)
| InsWantChild (o : cop) (p c : id) (index : nat)
| InsWantSplitRight (o : cop) (p c r : id)
| UpdCallback (o : cop) (leaf : id) (mode : nat) (index : nat)
| SeaWantChild (o : cop) (p c : id)
| DelWantLeft (o : cop) (st : list frame)
| DelWantChild (o : cop) (st : list frame)
| DelWantRight (o : cop) (st : list frame)
| CurRest (leaf : id) (i : nat) (n : nat) (acc : list (K * V))
| CurWantNext (leaf nxt : id) (n : nat) (acc : list (K * V)).

Record thread := { prog : list cop; tpc : pc; results : list ores }.

Record st := { tr : itree; tm : option tid; lk : list (id * tid); fresh : id; ths : list (tid * thread) }.

Definition holder (x : id) (l : list (id * tid)) : option tid :=
  match List.find (fun e => fst e =? x) l with Some e => Some (snd e) | None => None end.
Definition unlock (x : id) (l : list (id * tid)) : list (id * tid) := filter (fun e => negb (fst e =? x)) l.
Definition held_by (t : tid) (l : list (id * tid)) : list id := map fst (filter (fun e => snd e =? t) l).

Definition child_id (t : itree) (p : id) (j : nat) : res id :=
  match find p t with
  | Some (INode _ cs) => '(_, c) <- get_nth j cs ;; Ok (nid c)
  | _ => Panic PIndex end.

(* the lock a pc waits for: None = nothing (always enabled), Some None = tree mutex, Some (Some x) = node x *)
Definition target (s : st) (p : pc) : res (option (option id)) :=
  match p with
  | Idle | UpdCallback _ _ _ _ | CurRest _ _ _ _ => Ok None
  | WantT _ => Ok (Some None)
  | WantRoot _ r => Ok (Some (Some r))
  | InsWantRootRight _ _ r => Ok (Some (Some r))
  | InsWantChild _ _ c _ => Ok (Some (Some c))
  | InsWantSplitRight _ _ _ r => Ok (Some (Some r))
  | SeaWantChild _ _ c => Ok (Some (Some c))
  | DelWantLeft _ (f :: _) => x <- child_id (tr s) (fp f) (fidx f - 1) ;; Ok (Some (Some x))
  | DelWantChild _ (f :: _) => x <- child_id (tr s) (fp f) (fidx f) ;; Ok (Some (Some x))
  | DelWantRight _ (f :: _) => x <- child_id (tr s) (fp f) (fidx f + 1) ;; Ok (Some (Some x))
  | DelWantLeft _ [] | DelWantChild _ [] | DelWantRight _ [] => Panic PIndex
  | CurWantNext _ nxt _ _ => Ok (Some (Some nxt))
  end.

Definition key_of (o : cop) : K := match o with CInsert k _ | CUpdate k _ | CDelete k | CSearch k | CScan k _ => k end.

(* outcome of an atomic block *)
Record out := { otr : itree; olk : list (id * tid); ofresh : id; otm : option tid; opc : pc; oev : list event }.

Section Blocks.
Variable order : nat.

Definition mk t l fr tmx p ev : res out := Ok {| otr := t; olk := l; ofresh := fr; otm := tmx; opc := p; oev := ev |}.

(* holding node n (a leaf: finish or reach the callback; internal: choose the child and wait for it) *)
Definition ins_descend (o : cop) (n : id) (t : itree) (l : list (id * tid)) (fr : id) (tmx : option tid) : res out :=
  match find n t with
  | Some (ILeaf i nx es) =>
    match o with
    | CInsert k v =>
      '(es', _) <- leaf_upsert ltb k (fun _ => v) es ;;
      t' <- upd n (fun _ => Ok (ILeaf i nx es')) t ;;
      mk t' (unlock n l) fr tmx Idle [EReturn RUnit]
    | _ =>
      let key := key_of o in
      match last (map (fun e => Some (fst e)) es) None with
      | None => mk t l fr tmx (UpdCallback o n 0 0) []
      | Some lastk =>
        if ltb lastk key then mk t l fr tmx (UpdCallback o n 0 0) []
        else
          index <- search_ge ltb key (map fst es) ;;
          '(k', v') <- get_nth index es ;;
          if eqvb ltb key k' then mk t l fr tmx (UpdCallback o n 1 index) []
          else
            (* Go's statement order: room is made and the key stored before the callback runs; the value
               slot still holds the shifted neighbour's value *)
            t' <- upd n (fun _ => Ok (ILeaf i nx (ins_nth index (key, v') es))) t ;;
            mk t' l fr tmx (UpdCallback o n 2 index) []
      end
    end
  | Some (INode _ cs) =>
    index <- search_le ltb (key_of o) (map fst cs) ;;
    '(_, c) <- get_nth index cs ;;
    mk t l fr tmx (InsWantChild o n (nid c) index) []
  | None => Panic PIndex end.

Definition sea_descend (o : cop) (n : id) (t : itree) (l : list (id * tid)) (fr : id) (tmx : option tid) : res out :=
  match find n t with
  | Some (ILeaf _ nx es) =>
    match o with
    | CScan k cnt =>
      i <- leaf_scan_pos ltb k es ;;
      mk t l fr tmx (CurRest n i cnt []) []
    | _ =>
      r <- (match es with [] => Ok None | _ =>
              i <- search_ge ltb (key_of o) (map fst es) ;; '(k', v) <- get_nth i es ;;
              Ok (if eqvb ltb (key_of o) k' then Some v else None) end) ;;
      mk t (unlock n l) fr tmx Idle [EReturn (RFound r)]
    end
  | Some (INode _ cs) =>
    index <- search_le ltb (key_of o) (map fst cs) ;;
    '(_, c) <- get_nth index cs ;;
    mk t l fr tmx (SeaWantChild o n (nid c)) []
  | None => Panic PIndex end.

(* Delete, holding everything on the stack; n is the internal node just locked *)
Definition del_descend (o : cop) (stk : list frame) (n : id) (t : itree) : res pc :=
  match find n t with
  | Some (INode _ cs) =>
    index <- search_le ltb (key_of o) (map fst cs) ;;
    let stk' := {| fp := n; fidx := index; fl := None; fc := None |} :: stk in
    Ok (if 0 <? index then DelWantLeft o stk' else DelWantChild o stk')      (* F5: left sibling first *)
  | _ => Panic PIndex end.

(* the deferred unlocks of one deleteKey activation *)
Definition unlock_opt (x : option id) (l : list (id * tid)) : list (id * tid) :=
  match x with Some y => unlock y l | None => l end.
Definition unlock_frame_kids (f : frame) (right : option id) (l : list (id * tid)) : list (id * tid) :=
  unlock_opt right (unlock_opt (fl f) (unlock_opt (fc f) l)).

Definition set_child_i (i : nat) (c : itree) (cs : list (K * itree)) :=
  match nth_error cs i with Some (s, _) => set_nth i (s, c) cs | None => cs end.

Definition iadopt_right (l r : itree) : res (itree * itree) :=
  match l, r with
  | ILeaf li ln le, ILeaf ri rn (x :: re) => Ok (ILeaf li ln (le ++ [x]), ILeaf ri rn re)
  | INode li lc, INode ri (x :: rc) => Ok (INode li (lc ++ [x]), INode ri rc)
  | _, _ => Panic PAdoptR end.
Definition iadopt_left (l r : itree) : res (itree * itree) :=
  match l, r with
  | ILeaf li ln le, ILeaf ri rn re => match rev le with x :: le' => Ok (ILeaf li ln (rev le'), ILeaf ri rn (x :: re)) | [] => Panic PAdoptL end
  | INode li lc, INode ri rc => match rev lc with x :: lc' => Ok (INode li (rev lc'), INode ri (x :: rc)) | [] => Panic PAdoptL end
  | _, _ => Panic PAdoptL end.
Definition iabsorb (l r : itree) : res itree :=
  match l, r with
  | ILeaf li ln le, ILeaf ri rn re => Ok (ILeaf li rn (le ++ re))      (* left.next = right.next *)
  | INode li lc, INode ri rc => Ok (INode li (lc ++ rc))
  | _, _ => Panic PAbsorb end.

(* the rebalancing part of internal deleteKey at frame f (its child is too small) *)
Definition irebalance (f : frame) (t : itree) : res (itree * bool) :=
  let minSize := Nat.div2 order in
  match find (fp f) t with
  | Some (INode pi cs) =>
    let index := fidx f in
    '(_, child) <- get_nth index cs ;;
    let has_right := index + 1 <? length cs in
    let has_left := 0 <? index in
    let rightCount := if has_right then match nth_error cs (index + 1) with Some (_, r) => icount r | None => 0 end else 0 in
    let leftCount := if has_left then match nth_error cs (index - 1) with Some (_, l) => icount l | None => 0 end else 0 in
    '(cs', small) <-
      (if has_right && (minSize <? rightCount) then
        '(_, rgt) <- get_nth (index + 1) cs ;;
        '(child', rgt') <- iadopt_right child rgt ;;
        rs <- ismallest rgt' ;;
        Ok (set_nth (index + 1) (rs, rgt') (set_child_i index child' cs), false)
      else if has_left && (minSize <? leftCount) then
        '(_, lft) <- get_nth (index - 1) cs ;;
        '(lft', child') <- iadopt_left lft child ;;
        sm <- ismallest child' ;;
        Ok (set_nth index (sm, child') (set_child_i (index - 1) lft' cs), false)
      else if 0 <? leftCount then
        '(_, lft) <- get_nth (index - 1) cs ;;
        lft' <- iabsorb lft child ;;
        let cs' := del_nth index (set_child_i (index - 1) lft' cs) in
        Ok (cs', length cs' <? minSize)
      else if rightCount =? 0 then Panic PNoSiblings
      else
        '(_, rgt) <- get_nth (index + 1) cs ;;
        child' <- iabsorb child rgt ;;
        let cs' := del_nth (index + 1) (set_child_i index child' cs) in
        Ok (cs', length cs' <? minSize)) ;;
    t' <- upd (fp f) (fun _ => Ok (INode pi cs')) t ;;
    Ok (t', small)
  | _ => Panic PIndex end.

(* return through the deleteKey activations; parks only where a right sibling must be locked *)
Fixpoint unwind (fuel : nat) (o : cop) (stk : list frame) (small : bool) (right : option id)
         (t : itree) (l : list (id * tid)) (fr : id) (tmx : option tid) : res out :=
  match fuel with 0 => Panic PFuel | S fuel' =>
  match stk with
  | [] =>
    (* back in Delete(): a root left with one child is replaced by it; root lock and tree mutex released *)
    let r := nid t in
    let t' := if negb small || (1 <? icount t) then t else
              match t with INode _ ((_, c) :: _) => c | _ => t end in
    mk t' (unlock r l) fr None Idle [EReturn RUnit]
  | f :: rest =>
    if negb small then
      unwind fuel' o rest false None t (unlock_frame_kids f right l) fr tmx
    else
      match find (fp f) t with
      | Some (INode _ cs) =>
        if (fidx f + 1 <? length cs) && (match right with None => true | Some _ => false end) then
          mk t l fr tmx (DelWantRight o stk) []
        else
          '(t', small') <- irebalance f t ;;
          unwind fuel' o rest small' None t' (unlock_frame_kids f right l) fr tmx
      | _ => Panic PIndex end
  end end.

End Blocks.

Definition set_thread (t : tid) (th : thread) (l : list (tid * thread)) :=
  map (fun e => if fst e =? t then (t, th) else e) l.
Definition get_thread (t : tid) (l : list (tid * thread)) : option thread :=
  match List.find (fun e => fst e =? t) l with Some e => Some (snd e) | None => None end.

Inductive sres := Blocked | NoThread | Finished | Stepped (s : st) (acq : option (option id)) (ev : list event) | Crash (p : panic).

Definition is_free (s : st) (tg : option (option id)) : bool :=
  match tg with
  | None => true
  | Some None => match tm s with None => true | Some _ => false end
  | Some (Some x) => match holder x (lk s) with None => true | Some _ => false end
  end.

Definition cstep (order : nat) (s : st) (me : tid) : sres :=
  match get_thread me (ths s) with None => NoThread | Some th =>
  match target s (tpc th) with Panic p => Crash p | Ok tg =>
  if negb (is_free s tg) then Blocked else
  let l0 := match tg with Some (Some x) => (x, me) :: lk s | _ => lk s end in
  let tm0 := match tg with Some None => Some me | _ => tm s end in
  let t := tr s in let fr := fresh s in
  let o : res (option out) :=
    match tpc th with
    | Idle => match prog th with [] => Ok None | o :: _ => r <- mk t l0 fr tm0 (WantT o) [EInvoke o] ;; Ok (Some r) end
    | p => r <- (match p with
    | Idle => Panic PIndex
    | WantT o => mk t l0 fr tm0 (WantRoot o (nid t)) []
    | WantRoot o r =>
      match o with
      | CInsert _ _ | CUpdate _ _ =>
        let key := key_of o in
        match isplit order fr t with
        | None => ins_descend o r t l0 fr None
        | Some (lft, rgt) =>
          ls <- ismallest lft ;; rs <- ismallest rgt ;;
          let ls' := if ltb key ls then key else ls in
          let t' := INode (S fr) [(ls', lft); (rs, rgt)] in
          if ltb key rs then ins_descend o r t' l0 (S (S fr)) None
          else mk t' l0 (S (S fr)) tm0 (InsWantRootRight o r fr) []
        end
      | CSearch _ | CScan _ _ => sea_descend o r t l0 fr None
      | CDelete k =>
        match t with
        | ILeaf i nx es =>
          '(es', _) <- leaf_delete ltb (Nat.div2 order) k es ;;
          mk (ILeaf i nx es') (unlock r l0) fr None Idle [EReturn RUnit]
        | INode _ _ => p <- del_descend o [] r t ;; mk t l0 fr tm0 p []
        end
      end
    | InsWantRootRight o lft rgt => ins_descend o rgt t (unlock lft l0) fr None
    | InsWantChild o p c index =>
      let key := key_of o in
      match find p t, find c t with
      | Some (INode pi cs), Some child =>
        '(sep, _) <- get_nth index cs ;;
        sep' <- Ok (if index =? 0 then (if ltb key sep then key else sep) else sep) ;;
        match isplit order fr child with
        | None =>
          t' <- upd p (fun _ => Ok (INode pi (set_nth index (sep', child) cs))) t ;;
          ins_descend o c t' (unlock p l0) fr tm0
        | Some (lft, rgt) =>
          rs <- ismallest rgt ;;
          t' <- upd p (fun _ => Ok (INode pi (ins_nth (index + 1) (rs, rgt) (set_nth index (sep', lft) cs)))) t ;;
          if ltb key rs then ins_descend o c t' (unlock p l0) (S fr) tm0
          else mk t' l0 (S fr) tm0 (InsWantSplitRight o p c fr) []
        end
      | _, _ => Panic PIndex end
    | InsWantSplitRight o p c r => ins_descend o r t (unlock p (unlock c l0)) fr tm0
    | UpdCallback o leaf mode index =>
      match o, find leaf t with
      | CUpdate k f, Some (ILeaf i nx es) =>
        match mode with
        | 0 => t' <- upd leaf (fun _ => Ok (ILeaf i nx (es ++ [(k, f None)]))) t ;;
               mk t' (unlock leaf l0) fr tm0 Idle [EReturn (RArg None)]
        | 1 => '(k', v') <- get_nth index es ;;
               t' <- upd leaf (fun _ => Ok (ILeaf i nx (set_nth index (k', f (Some v')) es))) t ;;
               mk t' (unlock leaf l0) fr tm0 Idle [EReturn (RArg (Some v'))]
        | _ => '(k', _) <- get_nth index es ;;
               t' <- upd leaf (fun _ => Ok (ILeaf i nx (set_nth index (k', f None) es))) t ;;
               mk t' (unlock leaf l0) fr tm0 Idle [EReturn (RArg None)]
        end
      | _, _ => Panic PIndex end
    | SeaWantChild o p c => sea_descend o c t (unlock p l0) fr tm0
    | DelWantLeft o stk =>
      match stk, tg with
      | f :: rest, Some (Some x) => mk t l0 fr tm0 (DelWantChild o (set_fl f x :: rest)) []
      | _, _ => Panic PIndex end
    | DelWantChild o stk =>
      match stk, tg with
      | f :: rest, Some (Some c) =>
        let stk1 := set_fc f c :: rest in
        match find c t with
        | Some (ILeaf i nx es) =>
          '(es', small) <- leaf_delete ltb (Nat.div2 order) (key_of o) es ;;
          t' <- upd c (fun _ => Ok (ILeaf i nx es')) t ;;
          unwind order (S (S (length stk))) o stk1 small None t' l0 fr tm0
        | Some (INode _ _) => p <- del_descend o stk1 c t ;; mk t l0 fr tm0 p []
        | None => Panic PIndex end
      | _, _ => Panic PIndex end
    | DelWantRight o stk =>
      match tg with
      | Some (Some x) => unwind order (S (S (length stk))) o stk true (Some x) t l0 fr tm0
      | _ => Panic PIndex end
    | CurRest leaf i n acc =>
      match n with
      | 0 => mk t (unlock leaf l0) fr tm0 Idle [EReturn (RPairs (rev acc))]      (* Close *)
      | S n' =>
        match find leaf t with
        | Some (ILeaf _ nx es) =>
          match nth_error es i with
          | Some e => mk t l0 fr tm0 (CurRest leaf (S i) n' (e :: acc)) [EPair e]
          | None =>
            match nx with
            | None => mk t (unlock leaf l0) fr tm0 Idle [EScanEnd; EReturn (RPairs (rev acc))]
            | Some x => mk t l0 fr tm0 (CurWantNext leaf x n' acc) []
            end
          end
        | _ => Panic PIndex end
      end
    | CurWantNext leaf nxt n acc =>
      match find nxt t with
      | Some (ILeaf _ _ (e :: _)) => mk t (unlock leaf l0) fr tm0 (CurRest nxt 1 n (e :: acc)) [EPair e]
      | _ => Panic PIndex end
    end) ;; Ok (Some r)
    end in
  match o with
  | Panic p => Crash p
  | Ok None => Finished
  | Ok (Some o) =>
    let returned := existsb (fun e => match e with EReturn _ => true | _ => false end) (oev o) in
    let rs := flat_map (fun e => match e with EReturn r => [r] | _ => [] end) (oev o) in
    let th' := if returned then {| prog := tl (prog th); tpc := opc o; results := rs ++ results th |}
               else {| prog := prog th; tpc := opc o; results := results th |} in
    Stepped {| tr := otr o; tm := otm o; lk := olk o; fresh := ofresh o; ths := set_thread me th' (ths s) |} tg (oev o)
  end end end.

(* run a schedule (list of thread ids); stops at the first step that is not possible *)
Fixpoint exec (order : nat) (s : st) (sched : list tid) : st * list (tid * list event) :=
  match sched with
  | [] => (s, [])
  | t :: rest =>
    match cstep order s t with
    | Stepped s' _ ev => let '(s'', h) := exec order s' rest in (s'', (t, ev) :: h)
    | _ => (s, [])
    end
  end.

Definition init_st (progs : list (tid * list cop)) : st :=
  {| tr := ILeaf 0 None []; tm := None; lk := []; fresh := 1;
     ths := map (fun p => (fst p, {| prog := snd p; tpc := Idle; results := [] |})) progs |}.

Definition enabled (order : nat) (s : st) (t : tid) : bool :=
  match get_thread t (ths s) with
  | None => false
  | Some th =>
    match tpc th, prog th with
    | Idle, [] => false
    | _, _ => match target s (tpc th) with Ok tg => is_free s tg | Panic _ => true end
    end
  end.
Definition unfinished (s : st) (t : tid) : bool :=
  match get_thread t (ths s) with
  | None => false
  | Some th => match tpc th, prog th with Idle, [] => false | _, _ => true end
  end.

End Conc.

Arguments Idle {K V}.
Arguments RUnit {K V}.
Arguments EScanEnd {K V}.
Arguments Blocked {K V}. Arguments NoThread {K V}. Arguments Finished {K V}. Arguments Crash {K V}.
Arguments CDelete {K V}. Arguments CSearch {K V}. Arguments CScan {K V}. Arguments CInsert {K V}. Arguments CUpdate {K V}.

(* Footprint.v — C10: in every reachable state a thread inside Search/NewScanner/Insert/Update holds nothing,
   or one node, or a node and one of its children (while it waits for the sibling it has just created). *)
From Coq Require Import List Bool PeanoNat Permutation.
From GB Require Import Model Inv Conc GI LockInv LockProof CInv CIDef LinDef FrameProof Final.
Import ListNotations.

Section F.
Variables (K V : Type) (ltb : K -> K -> bool).
Hypothesis HS : SWO ltb.
Variable order : nat.
Hypothesis Heven : Nat.even order = true.
Hypothesis H4 : 4 <= order.

Definition is_child_of (c p : id) (t : itree K V) : Prop :=
  exists pi cs, Conc.find p t = Some (INode pi cs) /\ exists s sub, In (s, sub) cs /\ nid sub = c.

Lemma forallb_get (s : st K V) (P : pc K V -> bool) t th :
  forallb (fun e => P (tpc (snd e))) (ths s) = true -> get_thread t (ths s) = Some th -> P (tpc th) = true.
Proof.
  intros Hall Hg. unfold get_thread in Hg.
  destruct (List.find (fun e => fst e =? t) (ths s)) as [e|] eqn:E; [|discriminate].
  inversion Hg; subst. apply find_some in E. destruct E as [Hin _].
  rewrite forallb_forall in Hall. exact (Hall _ Hin).
Qed.

Theorem footprint_parent_child : forall (progs : list (tid * list (cop K V))) sched t th,
  NoDup (map fst progs) ->
  let s := fst (exec ltb order (init_st progs) sched) in
  get_thread t (ths s) = Some th ->
  match tpc th with
  | InsWantSplitRight _ p c _ => Permutation (held_by t (lk s)) [p; c] /\ is_child_of c p (tr s) /\ tm s <> Some t
  | InsWantChild _ p _ _ | SeaWantChild _ p _ => Permutation (held_by t (lk s)) [p] /\ tm s <> Some t
  | UpdCallback _ l _ _ | CurRest l _ _ _ | CurWantNext l _ _ _ => Permutation (held_by t (lk s)) [l] /\ tm s <> Some t
  | InsWantRootRight _ l _ => Permutation (held_by t (lk s)) [l]
  | Idle | WantT _ | WantRoot _ _ => held_by t (lk s) = []
  | _ => True
  end.
Proof.
  intros progs sched t th Hnd s Hg.
  pose proof (final_invariant_reachable K V ltb HS order Heven H4 progs sched Hnd) as HCI.
  fold s in HCI. destruct HCI as [[[HGI [HL2 Hpc]] Hocc] _].
  pose proof (lock_inv2_lock_inv _ _ _ HL2) as HL.
  destruct HL as (_ & _ & _ & _ & Hth). destruct (Hth t th Hg) as (_ & Hperm & Htm).
  pose proof (forallb_get s (pc_ok_b ltb order (tr s)) t th Hpc Hg) as Hok.
  destruct (tpc th) eqn:Ep; simpl in Hperm, Htm; auto.
  - apply Permutation_nil. apply Permutation_sym. exact Hperm.
  - apply Permutation_nil. apply Permutation_sym. exact Hperm.
  - apply Permutation_nil. apply Permutation_sym. exact Hperm.
  - split; [exact Hperm|]. intros E. apply Htm in E. discriminate.
  - split; [exact Hperm|]. split.
    + simpl in Hok. unfold is_child_of.
      destruct (Conc.find p (tr s)) as [[|pi cs]|] eqn:Ef; try discriminate.
      destruct (Conc.find r (tr s)); try discriminate.
      apply andb_true_iff in Hok. destruct Hok as [Hok _]. apply andb_true_iff in Hok. destruct Hok as [_ Hc].
      apply existsb_exists in Hc. destruct Hc as [[sp sub] [Hin Hn]]. apply Nat.eqb_eq in Hn.
      exists pi, cs. split; [reflexivity|]. exists sp, sub. split; auto.
    + intros E. apply Htm in E. discriminate.
  - split; [exact Hperm|]. intros E. apply Htm in E. discriminate.
  - split; [exact Hperm|]. intros E. apply Htm in E. discriminate.
  - split; [exact Hperm|]. intros E. apply Htm in E. discriminate.
  - split; [exact Hperm|]. intros E. apply Htm in E. discriminate.
Qed.

End F.
Print Assumptions footprint_parent_child.

(* PCb2_View.v — [pc_ok_b] (CInv.v) only inspects, of the tree: the own fields ([node_view]) of the nodes in the
   footprint of the pc, the key ranges ([in_range]) of those nodes, and the root identity.  Hence it is preserved
   by any change of the tree that keeps the fields of those nodes, does not shrink their ranges and (for pcs that
   hold the tree mutex) keeps the root identity. *)
From Coq Require Import List Permutation Lia Bool PeanoNat.
From GB Require Import ListLemmas TreeLemmas Frame LockProof CInv UpdLemmas FrameRel FrameInv PCb2_Bounds.
Import ListNotations.

Section View.
Variables (K V : Type) (ltb : K -> K -> bool).
Notation itree := (itree K V).
Notation pc := (pc K V).

(* the fresh right half a splitting Insert/Update is about to lock (not yet held) *)
Definition right_of (p : pc) : option id :=
  match p with InsWantRootRight _ _ r | InsWantSplitRight _ _ _ r => Some r | _ => None end.

(* the nodes whose fields and ranges [pc_ok_b] looks at *)
Definition pc_foot (p : pc) : list id := pc_nodes p ++ opt_list (right_of p).

(* ---------- same fields ---------- *)
Lemma view_leaf (n : itree) i nx es : view_of n = view_of (ILeaf i nx es) -> exists i', n = ILeaf i' nx es.
Proof. destruct n as [j nx' es'|j cs]; simpl; intros H; inversion H; subst. eauto. Qed.

Lemma view_node (n : itree) i cs : view_of n = view_of (INode i cs) -> exists i' cs', n = INode i' cs' /\ ptrs cs' = ptrs cs.
Proof. destruct n as [j nx' es'|j cs']; simpl; intros H; inversion H; subst. eauto. Qed.

Lemma find_view x (t t' n : itree) :
  node_view x t' = node_view x t -> find x t = Some n -> exists n', find x t' = Some n' /\ view_of n' = view_of n.
Proof.
  unfold node_view. intros H Hf. rewrite Hf in H. destruct (find x t') as [n'|]; simpl in H; [|discriminate].
  inversion H. eauto.
Qed.

Lemma view_icount (n n' : itree) : view_of n' = view_of n -> icount n' = icount n.
Proof.
  destruct n, n'; simpl; intros H; inversion H; subst; auto.
  match goal with H : map _ _ = map _ _ |- _ => apply (f_equal (@length _)) in H; rewrite !map_length in H; exact H end.
Qed.

Lemma ptrs_length (cs cs' : list (K * itree)) : ptrs cs' = ptrs cs -> length cs' = length cs.
Proof. intros H. apply (f_equal (@length _)) in H. unfold ptrs in H. rewrite !map_length in H. exact H. Qed.

Lemma ptrs_seps (cs cs' : list (K * itree)) : ptrs cs' = ptrs cs -> map fst cs' = map fst cs.
Proof. intros H. apply (f_equal (map fst)) in H. unfold ptrs in H. rewrite !map_map in H. exact H. Qed.

Lemma ptrs_nth (cs cs' : list (K * itree)) : ptrs cs' = ptrs cs -> forall i c,
  match nth_error cs' i with Some (_, ch) => nid ch =? c | None => false end =
  match nth_error cs i with Some (_, ch) => nid ch =? c | None => false end.
Proof.
  intros H i c. apply (f_equal (fun l => nth_error l i)) in H. unfold ptrs in H. rewrite !nth_error_map' in H.
  destruct (nth_error cs' i) as [[k1 c1]|]; destruct (nth_error cs i) as [[k2 c2]|]; simpl in H; inversion H; reflexivity.
Qed.

Lemma existsb_ptrs (cs : list (K * itree)) c :
  existsb (fun e => nid (snd e) =? c) cs = existsb (fun e : K * id => snd e =? c) (ptrs cs).
Proof. induction cs as [|[k ch] r IH]; simpl; [reflexivity|]. rewrite IH. reflexivity. Qed.

Lemma ptrs_existsb (cs cs' : list (K * itree)) : ptrs cs' = ptrs cs -> forall c,
  existsb (fun e => nid (snd e) =? c) cs' = existsb (fun e => nid (snd e) =? c) cs.
Proof. intros H c. rewrite !existsb_ptrs, H. reflexivity. Qed.

(* ---------- a range is defined only for nodes of the tree ---------- *)
Lemma assoc_some_in x b (l : list (id * bnd K)) : assoc K x l = Some b -> In x (map fst l).
Proof.
  induction l as [|[y w] l IH]; simpl; [discriminate|]. destruct (y =? x) eqn:E.
  - apply Nat.eqb_eq in E. auto.
  - auto.
Qed.

Lemma bounds_some_in x b (t : itree) : bounds x t = Some b -> In x (ids t).
Proof. unfold bounds. rewrite bounds_assoc. intros H. apply assoc_some_in in H. rewrite map_fst_bnodes in H. exact H. Qed.

Lemma in_range_in k x (t : itree) : in_range ltb k x t = true -> In x (ids t).
Proof. unfold in_range. destruct (bounds x t) as [b|] eqn:E; [|discriminate]. intros _. eapply bounds_some_in; eauto. Qed.

(* ---------- Delete frames ---------- *)
Notation F := (fun f : frame => opt_list (fl f) ++ opt_list (fc f)).

Lemma frames_nodes_ne (stk : list frame) : stk <> [] -> exists b, frames_nodes stk = fp b :: flat_map F stk.
Proof.
  intros Hne. unfold frames_nodes. destruct (rev stk) as [|b tl] eqn:E; [|eauto].
  exfalso. apply Hne. apply rev_nil_inv. exact E.
Qed.

Lemma frames_nodes_push f (rest : list frame) : rest <> [] ->
  exists b, frames_nodes rest = fp b :: flat_map F rest /\ frames_nodes (f :: rest) = fp b :: flat_map F (f :: rest).
Proof.
  intros Hne. unfold frames_nodes. simpl rev. destruct (rev rest) as [|b tl] eqn:E.
  - exfalso. apply Hne. apply rev_nil_inv. exact E.
  - simpl. eauto.
Qed.

Lemma frames_fp_in (t : itree) stk : frames_ok_b t stk = true -> forall f, In f stk -> In (fp f) (frames_nodes stk).
Proof.
  induction stk as [|f0 rest IH]; intros H f Hf; [destruct Hf|].
  simpl in H. destruct (find (fp f0) t) as [[?|pi cs]|]; try discriminate H.
  rewrite !andb_true_iff in H. destruct H as [[[[H1 H2] H3] H4] H5].
  destruct rest as [|g rest'].
  - destruct Hf as [<-|[]]. unfold frames_nodes. simpl. auto.
  - destruct (frames_nodes_push f0 (g :: rest')) as [b [E1 E2]]; [discriminate|].
    rewrite E2. destruct Hf as [<-|Hf].
    + destruct (fc g) as [x|] eqn:Eg; [|discriminate H4]. apply Nat.eqb_eq in H4. subst x.
      right. simpl. rewrite !in_app_iff. right. left. rewrite Eg. right. simpl. auto.
    + specialize (IH H5 f Hf). rewrite E1 in IH. destruct IH as [IH|IH]; [left; exact IH|].
      right. simpl. simpl in IH. rewrite !in_app_iff in *. tauto.
Qed.

Lemma frames_fc_in (stk : list frame) f c : In f stk -> fc f = Some c -> In c (frames_nodes stk).
Proof.
  intros Hf Hc. destruct (frames_nodes_ne stk) as [b E]; [intro X; subst; destruct Hf|].
  rewrite E. right. apply in_flat_map. exists f. split; [exact Hf|]. rewrite Hc, in_app_iff. right. simpl. auto.
Qed.

Lemma frames_ok_transfer (t t' : itree) : nid t' = nid t -> forall stk,
  (forall f, In f stk -> node_view (fp f) t' = node_view (fp f) t) ->
  frames_ok_b t stk = true -> frames_ok_b t' stk = true.
Proof.
  intros Hr. induction stk as [|f rest IH]; intros Hv H; [reflexivity|].
  simpl in H. simpl. destruct (find (fp f) t) as [[?|pi cs]|] eqn:Hf; try discriminate H.
  destruct (find_view _ _ _ _ (Hv f (or_introl eq_refl)) Hf) as [n' [Hf' Hvn]].
  apply view_node in Hvn. destruct Hvn as [i' [cs' [-> Hp]]]. rewrite Hf'.
  rewrite !andb_true_iff in H. destruct H as [[[[H1 H2] H3] H4] H5].
  rewrite !andb_true_iff. repeat split.
  - rewrite (ptrs_length _ _ Hp). exact H1.
  - destruct (fl f); [|reflexivity]. rewrite (ptrs_nth _ _ Hp). exact H2.
  - destruct (fc f); [|reflexivity]. rewrite (ptrs_nth _ _ Hp). exact H3.
  - destruct rest; [rewrite Hr; exact H4 | exact H4].
  - apply IH; [|exact H5]. intros g Hg. apply Hv. right. exact Hg.
Qed.

(* ---------- the transfer lemma ---------- *)
Lemma pc_ok_transfer order (t t' : itree) (p : pc) :
  (forall x, In x (pc_foot p) -> In x (ids t) -> node_view x t' = node_view x t) ->
  (forall x k, In x (pc_foot p) -> in_range ltb k x t = true -> in_range ltb k x t' = true) ->
  (pc_holds_T p = true -> nid t' = nid t) ->
  pc_ok_b ltb order t p = true -> pc_ok_b ltb order t' p = true.
Proof.
  intros Hv Hb Hr H.
  assert (Hfv : forall x n, In x (pc_foot p) -> find x t = Some n ->
            exists n', find x t' = Some n' /\ view_of n' = view_of n).
  { intros x n Hx Hf. apply (find_view x t t' n); [|exact Hf]. apply Hv; [exact Hx|]. eapply find_in_ids; eauto. }
  destruct p as [ |o|o r|o lft rgt|o pn c index|o pn c r|o leaf mode index|o pn c|o stk|o stk|o stk|leaf i n acc|leaf nxt n acc];
    unfold pc_foot in *; simpl in *; try exact H.
  - (* WantRoot *) rewrite Hr by reflexivity. exact H.
  - (* InsWantRootRight *)
    destruct (find rgt t) as [rt|] eqn:Hf; [|discriminate H].
    destruct (Hfv rgt rt) as [n' [Hf' Hvn]]; [auto|exact Hf|]. rewrite Hf'.
    rewrite andb_true_iff in *. destruct H as [H1 H2]. split.
    + rewrite (view_icount _ _ Hvn). exact H1.
    + apply Hb; auto.
  - (* InsWantChild *)
    destruct (find pn t) as [[?|pi cs]|] eqn:Hf; try discriminate H.
    destruct (Hfv pn _ (or_introl eq_refl) Hf) as [n' [Hf' Hvn]].
    apply view_node in Hvn. destruct Hvn as [i' [cs' [-> Hp]]]. rewrite Hf'.
    rewrite !andb_true_iff in *. destruct H as [[[H1 H2] H3] H4]. repeat split.
    + rewrite (ptrs_length _ _ Hp). exact H1.
    + rewrite (ptrs_seps _ _ Hp). exact H2.
    + rewrite (ptrs_nth _ _ Hp). exact H3.
    + apply Hb; auto.
  - (* InsWantSplitRight *)
    destruct (find pn t) as [[?|pi cs]|] eqn:Hf; try discriminate H.
    destruct (find r t) as [rt|] eqn:Hfr; [|discriminate H].
    destruct (Hfv pn _ (or_introl eq_refl) Hf) as [n' [Hf' Hvn]].
    apply view_node in Hvn. destruct Hvn as [i' [cs' [-> Hp]]]. rewrite Hf'.
    destruct (Hfv r rt) as [r' [Hfr' Hvr]]; [auto|exact Hfr|]. rewrite Hfr'.
    rewrite !andb_true_iff in *. destruct H as [[[H1 H2] H3] H4]. repeat split.
    + rewrite (view_icount _ _ Hvr). exact H1.
    + apply Hb; auto.
    + rewrite (ptrs_existsb _ _ Hp). exact H3.
    + rewrite (ptrs_existsb _ _ Hp). exact H4.
  - (* UpdCallback *)
    destruct (find leaf t) as [[li nx es|?]|] eqn:Hf; try discriminate H.
    destruct (Hfv leaf _ (or_introl eq_refl) Hf) as [n' [Hf' Hvn]].
    apply view_leaf in Hvn. destruct Hvn as [i' ->]. rewrite Hf'.
    rewrite andb_true_iff in *. destruct H as [H1 H2]. split; [apply Hb; auto | exact H2].
  - (* SeaWantChild *)
    destruct (find pn t) as [[?|pi cs]|] eqn:Hf; try discriminate H.
    destruct (Hfv pn _ (or_introl eq_refl) Hf) as [n' [Hf' Hvn]].
    apply view_node in Hvn. destruct Hvn as [i' [cs' [-> Hp]]]. rewrite Hf'.
    rewrite (ptrs_existsb _ _ Hp). exact H.
  - (* DelWantLeft *)
    rewrite app_nil_r in *.
    apply frames_ok_transfer with (t := t); auto.
    intros f Hf. pose proof (frames_fp_in t stk H f Hf) as Hin.
    destruct stk as [|f0 rest]; [destruct Hf|].
    assert (Hff : exists n, find (fp f) t = Some n).
    { clear - H Hf. revert H. generalize (f0 :: rest) as stk0, Hf. clear. intros stk0. induction stk0 as [|g r IH]; intros Hf H; [destruct Hf|].
      simpl in H. destruct (find (fp g) t) as [[?|pi cs]|] eqn:E; try discriminate H.
      destruct Hf as [<-|Hf]; [eauto|]. apply IH; auto. rewrite !andb_true_iff in H. tauto. }
    destruct Hff as [n Hn]. apply Hv; auto. eapply find_in_ids; eauto.
  - (* DelWantChild *)
    rewrite app_nil_r in *.
    apply frames_ok_transfer with (t := t); auto.
    intros f Hf. pose proof (frames_fp_in t stk H f Hf) as Hin.
    destruct stk as [|f0 rest]; [destruct Hf|].
    assert (Hff : exists n, find (fp f) t = Some n).
    { clear - H Hf. revert H. generalize (f0 :: rest) as stk0, Hf. clear. intros stk0. induction stk0 as [|g r IH]; intros Hf H; [destruct Hf|].
      simpl in H. destruct (find (fp g) t) as [[?|pi cs]|] eqn:E; try discriminate H.
      destruct Hf as [<-|Hf]; [eauto|]. apply IH; auto. rewrite !andb_true_iff in H. tauto. }
    destruct Hff as [n Hn]. apply Hv; auto. eapply find_in_ids; eauto.
  - (* DelWantRight *)
    rewrite app_nil_r in *.
    rewrite andb_true_iff in *. destruct H as [H1 H2]. split.
    + apply frames_ok_transfer with (t := t); auto.
      intros f Hf. pose proof (frames_fp_in t stk H1 f Hf) as Hin.
      destruct stk as [|f0 rest]; [destruct Hf|].
      assert (Hff : exists n, find (fp f) t = Some n).
      { clear - H1 Hf. revert H1. generalize (f0 :: rest) as stk0, Hf. clear. intros stk0. induction stk0 as [|g r IH]; intros Hf H; [destruct Hf|].
        simpl in H. destruct (find (fp g) t) as [[?|pi cs]|] eqn:E; try discriminate H.
        destruct Hf as [<-|Hf]; [eauto|]. apply IH; auto. rewrite !andb_true_iff in H. tauto. }
      destruct Hff as [n Hn]. apply Hv; auto. eapply find_in_ids; eauto.
    + destruct stk as [|f rest]; [discriminate H2|].
      destruct (fc f) as [c|] eqn:Ec; [|discriminate H2].
      destruct (find c t) as [ct|] eqn:Hf; [|discriminate H2].
      destruct (Hfv c ct) as [n' [Hf' Hvn]]; [|exact Hf|].
      { eapply frames_fc_in; [left; reflexivity | exact Ec]. }
      rewrite Hf', (view_icount _ _ Hvn). exact H2.
  - (* CurRest *)
    destruct (find leaf t) as [[li nx es|?]|] eqn:Hf; try discriminate H.
    destruct (Hfv leaf _ (or_introl eq_refl) Hf) as [n' [Hf' Hvn]].
    apply view_leaf in Hvn. destruct Hvn as [i' ->]. rewrite Hf'. reflexivity.
  - (* CurWantNext *)
    destruct (find leaf t) as [[li [x|] es|?]|] eqn:Hf; try discriminate H.
    destruct (Hfv leaf _ (or_introl eq_refl) Hf) as [n' [Hf' Hvn]].
    apply view_leaf in Hvn. destruct Hvn as [i' ->]. rewrite Hf'. exact H.
Qed.

End View.

Arguments right_of {K V}. Arguments pc_foot {K V}.

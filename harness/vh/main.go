// vh — the correspondence harness: drives the real gobptree (a shadow copy of /repo built with the
// verif hooks) on the cases written by the check driver and prints canonical observations.
package main

import (
	"fmt"
	"os"
)

func main() {
	if len(os.Args) < 2 {
		fmt.Fprintln(os.Stderr, "usage: vh seq|sched|order ...")
		os.Exit(2)
	}
	var err error
	switch os.Args[1] {
	case "seq":
		err = runSeq(os.Args[2], os.Args[3])
	case "pairs":
		err = runPairs(os.Args[2], os.Args[3])
	case "search":
		err = runSearch(os.Args[2], os.Args[3])
	case "order":
		err = runOrder(os.Args[2], os.Args[3])
	case "sched":
		err = runSched(os.Args[2], os.Args[3])
	default:
		err = fmt.Errorf("unknown mode %s", os.Args[1])
	}
	if err != nil {
		fmt.Fprintln(os.Stderr, "vh:", err)
		os.Exit(2)
	}
}

(* O2_Crash.v — OCCc_Crash.no_crash re-proved for even order >= 2 in states where no thread is at a Delete pc
   (so no node is exempt from minimum occupancy, and every non-root node has >= div2 order >= 1 entries).
   Proof scripts copied from OCCc_Crash.v; the Delete branches (the only users of 4 <= order besides the
   non-emptiness of nodes, re-proved here as ne_nodes_nd) are discharged by contradiction. *)
From Coq Require Import List Permutation Lia Bool PeanoNat.
From GB Require SoloBase OCCc_Chain.
From GB Require Import ListLemmas TreeLemmas Frame LockProof ConcProps UpdLemmas FrameRel FrameInv FrameBlocks FrameProof
  CInv CIDef OCCc_Base OCCc_Blocks OCCc_Reb OCCc_Total OCCc_Unwind OCCc_Proof OCCc_Crash O2_NoDel.
Import ListNotations.

Section Crash.
Variables (K V : Type) (ltb : K -> K -> bool).
Notation itree := (itree K V).
Notation pc := (pc K V).
Notation st := (st K V).
Notation out := (out K V).
Notation thread := (thread K V).

Local Notation child_not_root := (OCCc_Crash.child_not_root K V ltb).
Local Notation isplit_counts := (OCCc_Crash.isplit_counts K V).
Local Notation nonempty_of_count := (OCCc_Crash.nonempty_of_count K V).
Local Notation target_total := (OCCc_Crash.target_total K V ltb).

Lemma div2_ge1 order : Nat.even order = true -> 2 <= order -> 1 <= Nat.div2 order.
Proof. intros Hev H. pose proof (even_div2 order Hev). lia. Qed.

Lemma root_min_ge1 order : 1 <= root_min order.
Proof. unfold root_min. destruct (4 <=? order); lia. Qed.

Lemma ne_nodes_nd order (s : st) x n :
  Nat.even order = true -> 2 <= order -> exempt_node s = None -> occ_ok_b order s = true -> find x (tr s) = Some n ->
  (forall i cs, n = INode i cs -> cs <> []) /\ (x <> nid (tr s) -> 1 <= icount n).
Proof.
  intros Hev Ho2 HexN Hocc Hf. unfold occ_ok_b in Hocc. pose proof (div2_ge1 order Hev Ho2) as Hd.
  pose proof (root_min_ge1 order) as Hrm. rewrite HexN in Hocc.
  assert (Hx : nid n = x) by (eapply find_nid; eauto).
  destruct (iocc_find K V order _ _ _ _ Hocc Hf) as [[E1 E2]|[E1 E2]].
  - split; [|tauto]. intros i cs ->. intros ->.
    rewrite iocc_eq in Hocc. apply andb_prop in Hocc. destruct Hocc as [Ht _]. rewrite <- E2 in Ht.
    unfold top_ok in Ht. apply orb_prop in Ht. destruct Ht as [Ht|Ht].
    + discriminate Ht.
    + simpl in Ht. apply Nat.leb_le in Ht. lia.
  - assert (H1 : 1 <= icount n).
    { rewrite iocc_eq in E2. apply andb_prop in E2. destruct E2 as [Ht _].
      unfold top_ok in Ht. apply orb_prop in Ht. destruct Ht as [Ht|Ht].
      - discriminate Ht.
      - apply Nat.leb_le in Ht. lia. }
    split; [|auto]. intros i cs -> ->. simpl in H1. lia.
Qed.

Opaque unwind.

Lemma blk_total_nd order (s : st) me th tg :
  Nat.even order = true -> 2 <= order -> del_pc_b K V (tpc th) = false -> exempt_node s = None ->
  CIfull ltb order s -> all_inv K V s -> all_small_b order s = true -> all_op_b s = true ->
  get_thread me (ths s) = Some th -> target s (tpc th) = Ok tg -> is_free s tg = true ->
  exists r, SoloBase.blk ltb order s me th tg = Ok r.
Proof.
  intros Hev Ho2 Hndel HexN [[HGI [Hinv Hpcs]] Hocc] ([Hnd Hlt] & _ & Hfi) Hsmall Hops Hme Htg Hfree.
  pose proof (div2_ge1 order Hev Ho2) as Hd2.
  destruct Hinv as [Hinv Hwf2].
  pose proof Hinv as [Hndl [Hndt [Hlk [Htm Hth]]]].
  destruct (Hth me th Hme) as [Hwf [HP HT]].
  pose proof (Hwf2 me th Hme) as Hw2.
  pose proof (Hfi me th Hme) as Hok.
  pose proof (get_thread_in K V _ _ _ Hme) as Hin.
  assert (Hpcok : pc_ok_b ltb order (tr s) (tpc th) = true).
  { unfold all_pc_ok_b in Hpcs. rewrite forallb_forall in Hpcs. apply (Hpcs _ Hin). }
  assert (Hsm_me : pc_small_b order (tr s) (tpc th) = true).
  { unfold all_small_b in Hsmall. rewrite forallb_forall in Hsmall. apply (Hsmall _ Hin). }
  assert (Hop_me : pc_op_b (tpc th) = true).
  { unfold all_op_b in Hops. rewrite forallb_forall in Hops. apply (Hops _ Hin). }
  assert (Hexh : pc_holds_T (tpc th) = true -> exempt_node s = exempt_of (tpc th)).
  { intros X. eapply exempt_node_holder; eauto. }
  assert (NE : forall x n, find x (tr s) = Some n ->
            (forall i cs, n = INode i cs -> cs <> []) /\ (x <> nid (tr s) -> 1 <= icount n)).
  { intros x n. eapply ne_nodes_nd; eauto. }
  assert (Hbal : ibal (Model.height (erase_ids (tr s))) (tr s)).
  { apply (bal_ibal K V ltb). destruct HGI as (_ & _ & _ & X & _). exact X. }
  assert (Hchain : GI.chain_ok (leaf_links (tr s))) by (destruct HGI as (_ & _ & _ & _ & _ & X); exact X).
  unfold occ_ok_b in Hocc.
  assert (Hfr1 : ~ In (fresh s) (ids (tr s))).
  { intro X. rewrite Forall_forall in Hlt. apply Hlt in X. lia. }
  assert (Hfr2 : ~ In (S (fresh s)) (ids (tr s))).
  { intro X. rewrite Forall_forall in Hlt. apply Hlt in X. lia. }
  assert (Hheld : forall x, In x (pc_nodes (tpc th)) -> In x (held_by me (lk s))).
  { intros x Hx. eapply Permutation_in; [apply Permutation_sym; exact HP | exact Hx]. }
  unfold SoloBase.blk. cbv zeta.
  destruct (tpc th) as [ |o|o r|o lft rgt|o p c index|o p c r|o leaf mode index|o p c|o stk|o stk|o stk|leaf i n acc|leaf nxt n acc] eqn:Hpc.
  all: simpl in Htg; crunch Htg; inversion Htg; subst tg; clear Htg.
  all: simpl in Hw2, Hok, Hheld.
  - (* Idle *) destruct (prog th); unfold mk; cbn [bind]; eauto.
  - (* WantT *) unfold mk. cbn [bind]. eauto.
  - (* WantRoot *)
    subst r. apply some_total.
    assert (Hroot : find (nid (tr s)) (tr s) = Some (tr s)) by apply find_root_self.
    assert (Hins : exists out : out,
              match isplit order (fresh s) (tr s) with
              | Some (lft, rgt) =>
                ls <- ismallest lft ;; rs <- ismallest rgt ;;
                (if ltb (key_of o) rs
                 then ins_descend ltb o (nid (tr s)) (INode (S (fresh s)) [(if ltb (key_of o) ls then key_of o else ls, lft); (rs, rgt)])
                        ((nid (tr s), me) :: lk s) (S (S (fresh s))) None
                 else mk (INode (S (fresh s)) [(if ltb (key_of o) ls then key_of o else ls, lft); (rs, rgt)])
                        ((nid (tr s), me) :: lk s) (S (S (fresh s))) (tm s) (InsWantRootRight o (nid (tr s)) (fresh s)) [])
              | None => ins_descend ltb o (nid (tr s)) (tr s) ((nid (tr s), me) :: lk s) (fresh s) None
              end = Ok out).
    { destruct (isplit order (fresh s) (tr s)) as [[lft rgt]|] eqn:Hsp.
      - destruct (isplit_counts order _ _ _ _ Hev Hsp) as (C1 & C2 & C3 & C4).
        destruct (ismallest_total K V lft) as [ls ->]; [lia|]. cbn [bind].
        destruct (ismallest_total K V rgt) as [rs ->]; [lia|]. cbn [bind].
        destruct (ltb (key_of o) rs); [|unfold mk; eauto].
        eapply ins_descend_total with (nd := lft).
        + rewrite find_eq. simpl nid.
          assert (E : S (fresh s) =? nid (tr s) = false).
          { apply Nat.eqb_neq. intros X. apply Hfr2. rewrite X. apply nid_in_ids. }
          rewrite E. rewrite findl_cons. rewrite find_eq, C3, Nat.eqb_refl. reflexivity.
        + apply nonempty_of_count. lia.
      - eapply ins_descend_total; [exact Hroot | apply (NE _ _ Hroot)]. }
    destruct o as [k v|k f|k|k|k cnt]; try exact Hins.
    + clear Hins. destruct (tr s) as [i nx es|i cs] eqn:Et.
      * destruct (leaf_delete_total K V ltb (Nat.div2 order) k es) as [[es' sm] ->]. unfold mk. cbn [bind]. eauto.
      * cbn [nid]. destruct (del_descend_total K V ltb (CDelete k) [] i (INode i cs) i cs) as [p ->]; [exact Hroot|].
        unfold mk. cbn [bind]. eauto.
    + eapply sea_descend_total; [exact Hroot | apply (NE _ _ Hroot)].
    + eapply sea_descend_total; [exact Hroot | apply (NE _ _ Hroot)].
  - (* InsWantRootRight *)
    apply some_total. simpl in Hpcok. destruct (find rgt (tr s)) as [rt|] eqn:Hfr; [|discriminate].
    eapply ins_descend_total; [exact Hfr | apply (NE _ _ Hfr)].
  - (* InsWantChild *)
    apply some_total. simpl in Hpcok.
    destruct (find p (tr s)) as [[?|pi cs]|] eqn:Hfp; try discriminate.
    repeat (apply andb_prop in Hpcok; destruct Hpcok as [Hpcok ?]).
    destruct (nth_error cs index) as [[sep child]|] eqn:Hg; [|discriminate].
    match goal with X : (nid child =? c) = true |- _ => apply Nat.eqb_eq in X; rename X into Hnc end.
    assert (Hfc : find c (tr s) = Some child).
    { rewrite <- Hnc. eapply find_child; eauto. eapply nth_error_In; eauto. }
    rewrite Hfc. unfold get_nth. rewrite Hg. cbn [bind].
    assert (Hcne : c <> nid (tr s)).
    { rewrite <- Hnc. eapply child_not_root; eauto. eapply nth_error_In; eauto. }
    destruct (NE _ _ Hfc) as [NE1 NE2]. specialize (NE2 Hcne).
    remember (if index =? 0 then (if ltb (key_of o) sep then key_of o else sep) else sep) as sep' eqn:Hsep.
    destruct (nth_error_split cs index Hg) as [A [B [E L]]].
    destruct (isplit order (fresh s) child) as [[l r]|] eqn:Hsp.
    + destruct (isplit_counts order _ _ _ _ Hev Hsp) as (C1 & C2 & C3 & C4).
      destruct (ismallest_total K V r) as [rs ->]; [lia|]. cbn [bind].
      destruct (upd_total K V p (INode pi (ins_nth (index + 1) (rs, r) (set_nth index (sep', l) cs))) (tr s)) as [t' Hu].
      rewrite Hu. cbn [bind].
      destruct (ltb (key_of o) rs); [|unfold mk; eauto].
      destruct (ins_split_rel K V ltb False order [p; c; fresh s] p pi cs index sep sep' rs child l r
                  (fresh s) (tr s) t' Hnd Hfp Hg Hsp Hu Hfr1) as (A1 & A2 & A3 & A4); try (simpl; tauto).
      { rewrite Hnc. simpl. tauto. }
      eapply ins_descend_total with (nd := l).
      * rewrite <- Hnc, <- C3.
        eapply (find_child K V p pi (ins_nth (index + 1) (rs, r) (set_nth index (sep', l) cs)) sep' l t' A3).
        -- eapply find_upd_same with (n := INode pi cs); [reflexivity | exact Hnd | exact Hfp | exact Hu].
        -- subst cs index. rewrite set_nth_app, ins_nth_app1. apply in_or_app. right. left. reflexivity.
      * apply nonempty_of_count. lia.
    + destruct (upd_total K V p (INode pi (set_nth index (sep', child) cs)) (tr s)) as [t' Hu].
      rewrite Hu. cbn [bind].
      destruct (ins_nosplit_rel K V False [p] p pi cs index sep sep' child (tr s) t' Hnd Hfp Hg Hu)
        as (A1 & A2 & A3 & A4); [simpl; tauto|].
      eapply ins_descend_total with (nd := child); [|exact NE1].
      rewrite <- Hnc.
      eapply (find_child K V p pi (set_nth index (sep', child) cs) sep' child t' A3).
      * eapply find_upd_same with (n := INode pi cs); [reflexivity | exact Hnd | exact Hfp | exact Hu].
      * subst cs index. rewrite set_nth_app. apply in_or_app. right. left. reflexivity.
  - (* InsWantSplitRight *)
    apply some_total. simpl in Hpcok.
    destruct (find p (tr s)) as [[?|pi cs]|] eqn:Hfp; try discriminate.
    destruct (find r (tr s)) as [rt|] eqn:Hfr; [|discriminate].
    eapply ins_descend_total; [exact Hfr | apply (NE _ _ Hfr)].
  - (* UpdCallback *)
    apply some_total. simpl in Hpcok. destruct o as [| k f | | |]; try discriminate Hop_me.
    destruct (find leaf (tr s)) as [[i nx es|?]|] eqn:Hfl; try discriminate.
    apply andb_prop in Hpcok. destruct Hpcok as [_ Hm].
    destruct mode as [|[|m]].
    + destruct (upd_total K V leaf (ILeaf i nx (es ++ [(k, f None)])) (tr s)) as [t' ->]. unfold mk. cbn [bind]. eauto.
    + destruct (nth_error es index) as [[k' v']|] eqn:Hn; [|discriminate]. unfold get_nth. rewrite Hn. cbn [bind].
      destruct (upd_total K V leaf (ILeaf i nx (set_nth index (k', f (Some v')) es)) (tr s)) as [t' ->]. unfold mk. cbn [bind]. eauto.
    + apply andb_prop in Hm. destruct Hm as [_ Hm].
      destruct (nth_error es index) as [[k' v']|] eqn:Hn; [|discriminate]. unfold get_nth. rewrite Hn. cbn [bind].
      destruct (upd_total K V leaf (ILeaf i nx (set_nth index (k', f None) es)) (tr s)) as [t' ->]. unfold mk. cbn [bind]. eauto.
  - (* SeaWantChild *)
    apply some_total. simpl in Hpcok.
    destruct (find p (tr s)) as [[?|pi cs]|] eqn:Hfp; try discriminate.
    apply existsb_exists in Hpcok. destruct Hpcok as [[k ch] [Hin' Hn]]. simpl in Hn. apply Nat.eqb_eq in Hn.
    assert (Hfc : find c (tr s) = Some ch) by (rewrite <- Hn; eapply find_child; eauto).
    eapply sea_descend_total; [exact Hfc | apply (NE _ _ Hfc)].
  - (* DelWantLeft *) exfalso. first [discriminate Hndel | rewrite Hpc in Hndel; discriminate Hndel].
  - (* DelWantChild *) exfalso. first [discriminate Hndel | rewrite Hpc in Hndel; discriminate Hndel].
  - (* DelWantRight *) exfalso. first [discriminate Hndel | rewrite Hpc in Hndel; discriminate Hndel].
  - (* CurRest *)
    apply some_total. simpl in Hpcok. destruct n as [|n']; [unfold mk; eauto|].
    destruct (find leaf (tr s)) as [[? nx es|?]|]; try discriminate.
    destruct (nth_error es i); [unfold mk; eauto|]. destruct nx; unfold mk; eauto.
  - (* CurWantNext *)
    apply some_total. simpl in Hpcok.
    destruct (find leaf (tr s)) as [[i0 [x|] es|?]|] eqn:Hfl; try discriminate.
    apply Nat.eqb_eq in Hpcok. subst x.
    destruct (OCCc_Chain.next_leaf_found K V (tr s) leaf i0 nxt es Hnd Hchain Hfl) as (nx' & es' & Hfn & Hne).
    rewrite Hfn. destruct (NE _ _ Hfn) as [_ X]. specialize (X Hne). simpl in X.
    destruct es' as [|e es']; [simpl in X; lia|]. unfold mk. eauto.
Qed.

Transparent unwind.

(* (2) no panic *)
Theorem no_crash_nd : forall order (s : st) me p,
  Nat.even order = true -> 2 <= order -> ND K V s ->
  CIfull ltb order s -> all_inv K V s ->
  all_small_b order s = true -> all_op_b s = true ->
  cstep ltb order s me <> Crash p.
Proof.
  intros order s me p Hev Ho2 HND HCI Hall Hsmall Hops. rewrite SoloBase.cstep_eq.
  destruct (get_thread me (ths s)) as [th|] eqn:Hme; [|discriminate].
  pose proof HCI as [[HGI [Hinv Hpcs]] Hocc].
  pose proof (get_thread_in K V _ _ _ Hme) as Hin.
  assert (Hpcok : pc_ok_b ltb order (tr s) (tpc th) = true).
  { unfold all_pc_ok_b in Hpcs. rewrite forallb_forall in Hpcs. apply (Hpcs _ Hin). }
  assert (Hr_me : pc_small_b order (tr s) (tpc th) = true).
  { unfold all_small_b in Hsmall. rewrite forallb_forall in Hsmall. apply (Hsmall _ Hin). }
  destruct (proj1 Hinv) as (_ & _ & _ & _ & Hth). destruct (Hth me th Hme) as [Hwf _].
  destruct (target_total order s th Hwf Hpcok Hr_me) as [tg Htg]. rewrite Htg.
  destruct (negb (is_free s tg)) eqn:Hfree; [discriminate|]. apply negb_false_iff in Hfree.
  assert (Hndt : NoDup (map fst (ths s))) by (destruct (proj1 Hinv) as (_ & X & _); exact X).
  destruct (blk_total_nd order s me th tg Hev Ho2 (ND_pc K V s me th HND Hme) (ND_exempt K V s Hndt HND) HCI Hall Hsmall Hops Hme Htg Hfree) as [r ->].
  destruct r; discriminate.
Qed.


End Crash.

Print Assumptions no_crash_nd.

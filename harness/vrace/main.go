// vrace — stress program for C07: arbitrary mixes of all public operations and scans from many goroutines
// on one tree, built with -race against an unmodified copy of /repo (real sync.Mutex).
package main

import (
	"flag"
	"fmt"
	"math/rand"
	"os"
	"sync"
	"sync/atomic"
	"time"

	g "github.com/karrick/gobptree"
)

type ckey struct{ cls, tag int }

func (a ckey) Less(b interface{}) bool { return a.cls < b.(ckey).cls }
func (a ckey) ZeroValue() g.Comparable { return ckey{cls: -1 << 40, tag: -7} }

type api struct {
	insert func(int, interface{})
	update func(int, func(interface{}, bool) interface{})
	del    func(int)
	search func(int) (interface{}, bool)
	scan   func(start, n int) int
}

func build(typ string, order int) *api {
	switch typ {
	case "int32":
		t, _ := g.NewInt32Tree(order)
		return &api{func(k int, v interface{}) { t.Insert(int32(k), v) }, func(k int, f func(interface{}, bool) interface{}) { t.Update(int32(k), f) },
			func(k int) { t.Delete(int32(k)) }, func(k int) (interface{}, bool) { return t.Search(int32(k)) },
			func(s, n int) int {
				c := t.NewScanner(int32(s))
				i := 0
				for ; i < n && c.Scan(); i++ {
					c.Pair()
				}
				c.Close()
				return i
			}}
	case "int64":
		t, _ := g.NewInt64Tree(order)
		return &api{func(k int, v interface{}) { t.Insert(int64(k), v) }, func(k int, f func(interface{}, bool) interface{}) { t.Update(int64(k), f) },
			func(k int) { t.Delete(int64(k)) }, func(k int) (interface{}, bool) { return t.Search(int64(k)) },
			func(s, n int) int {
				c := t.NewScanner(int64(s))
				i := 0
				for ; i < n && c.Scan(); i++ {
					c.Pair()
				}
				c.Close()
				return i
			}}
	case "uint32":
		t, _ := g.NewUint32Tree(order)
		return &api{func(k int, v interface{}) { t.Insert(uint32(k), v) }, func(k int, f func(interface{}, bool) interface{}) { t.Update(uint32(k), f) },
			func(k int) { t.Delete(uint32(k)) }, func(k int) (interface{}, bool) { return t.Search(uint32(k)) },
			func(s, n int) int {
				c := t.NewScanner(uint32(s))
				i := 0
				for ; i < n && c.Scan(); i++ {
					c.Pair()
				}
				c.Close()
				return i
			}}
	case "uint64":
		t, _ := g.NewUint64Tree(order)
		return &api{func(k int, v interface{}) { t.Insert(uint64(k), v) }, func(k int, f func(interface{}, bool) interface{}) { t.Update(uint64(k), f) },
			func(k int) { t.Delete(uint64(k)) }, func(k int) (interface{}, bool) { return t.Search(uint64(k)) },
			func(s, n int) int {
				c := t.NewScanner(uint64(s))
				i := 0
				for ; i < n && c.Scan(); i++ {
					c.Pair()
				}
				c.Close()
				return i
			}}
	case "string":
		t, _ := g.NewStringTree(order)
		ks := func(k int) string { return fmt.Sprintf("k%06d", k) }
		return &api{func(k int, v interface{}) { t.Insert(ks(k), v) }, func(k int, f func(interface{}, bool) interface{}) { t.Update(ks(k), f) },
			func(k int) { t.Delete(ks(k)) }, func(k int) (interface{}, bool) { return t.Search(ks(k)) },
			func(s, n int) int {
				c := t.NewScanner(ks(s))
				i := 0
				for ; i < n && c.Scan(); i++ {
					c.Pair()
				}
				c.Close()
				return i
			}}
	default:
		t, _ := g.NewComparableTree(order)
		ck := func(k int) g.Comparable { return ckey{k, k & 1} }
		return &api{func(k int, v interface{}) { t.Insert(ck(k), v) }, func(k int, f func(interface{}, bool) interface{}) { t.Update(ck(k), f) },
			func(k int) { t.Delete(ck(k)) }, func(k int) (interface{}, bool) { return t.Search(ck(k)) },
			func(s, n int) int {
				c := t.NewScanner(ck(s))
				i := 0
				for ; i < n && c.Scan(); i++ {
					c.Pair()
				}
				c.Close()
				return i
			}}
	}
}

func main() {
	typ := flag.String("type", "int64", "tree type")
	order := flag.Int("order", 4, "order")
	workers := flag.Int("workers", 8, "goroutines")
	keys := flag.Int("keys", 64, "key universe")
	dur := flag.Duration("dur", time.Second, "duration")
	seed := flag.Int64("seed", 1, "seed")
	counter := flag.Bool("counter", false, "also check the Update counter (C05)")
	nodelete := flag.Bool("nodelete", false, "no Delete calls (order 2: Delete is known finding K1)")
	flag.Parse()
	t := build(*typ, *order)
	var wg sync.WaitGroup
	var ops int64
	var incs int64
	stop := time.Now().Add(*dur)
	done := make(chan struct{})
	for w := 0; w < *workers; w++ {
		wg.Add(1)
		go func(w int) {
			defer wg.Done()
			rng := rand.New(rand.NewSource(*seed*1000 + int64(w)))
			for n := 0; ; n++ {
				if n&63 == 0 && time.Now().After(stop) {
					return
				}
				k := rng.Intn(*keys)
				switch r := rng.Intn(100); {
				case r < 30:
					t.insert(k, w)
				case r < 45:
					if *counter {
						k = -1
					}
					t.update(k, func(v interface{}, ok bool) interface{} {
						if n, isInt := v.(int); ok && isInt {
							return n + 1
						}
						return 1
					})
					if *counter {
						atomic.AddInt64(&incs, 1)
					}
				case r < 70:
					if *nodelete {
						t.search(k)
					} else {
						t.del(k)
					}
				case r < 85:
					t.search(k)
				default:
					t.scan(k, rng.Intn(20))
				}
				atomic.AddInt64(&ops, 1)
			}
		}(w)
	}
	go func() { wg.Wait(); close(done) }()
	select {
	case <-done:
	case <-time.After(*dur + 20*time.Second):
		fmt.Println("WATCHDOG: workers did not finish (possible deadlock)")
		os.Exit(3)
	}
	if *counter {
		v, ok := t.search(-1)
		if n, isInt := v.(int); !ok || !isInt || int64(n) != incs {
			fmt.Printf("COUNTER: %d increments applied, value is %v\n", incs, v)
			os.Exit(4)
		}
	}
	fmt.Printf("ok type=%s order=%d workers=%d ops=%d\n", *typ, *order, *workers, ops)
}

(* LINc_Proof.v — linearizability by linearization points: the ghost bookkeeping and the final assembly.
   PARAMETRISED by the per-step facts (H1) abs_step_ok, (H2) promise_step_ok on states satisfying CIall, and
   (H3) CIall of every reachable state.  See the summary at the end of the file. *)
From Coq Require Import List Bool PeanoNat Lia.
From GB Require Import LinDef SoloBase LINc_Blocks.
Import ListNotations.

(* ------------------------------------------------------------------------------------------------ *)
(* Part 1: facts that need no hypothesis                                                             *)
(* ------------------------------------------------------------------------------------------------ *)
Section Ghost.
Variables (K V : Type) (ltb : K -> K -> bool).
Variable order : nat.
Notation itree := (itree K V).
Notation pc := (pc K V).
Notation st := (st K V).
Notation out := (out K V).
Notation thread := (thread K V).
Notation cop := (cop K V).
Notation event := (event K V).
Notation ores := (ores K V).
Notation istate := (istate K V).
Notation ghost := (ghost V).

(* ---- the ghost map ---- *)
Lemma gget_gclear_same (g : ghost) t : gget (gclear g t) t = None.
Proof.
  unfold gget, gclear. induction g as [|[w x] g IH]; simpl; [reflexivity|].
  destruct (w =? t) eqn:E; simpl; [exact IH|]. rewrite E. exact IH.
Qed.
Lemma gget_gclear_other (g : ghost) t u : u <> t -> gget (gclear g t) u = gget g u.
Proof.
  intros Hne. unfold gget, gclear. induction g as [|[w x] g IH]; simpl; [reflexivity|].
  destruct (w =? t) eqn:E; simpl.
  - apply Nat.eqb_eq in E. subst w. destruct (t =? u) eqn:E2; [apply Nat.eqb_eq in E2; congruence|exact IH].
  - destruct (w =? u); [reflexivity|exact IH].
Qed.
Lemma gget_gset_same (g : ghost) t x : gget (gset g t x) t = Some x.
Proof. unfold gset, gget. simpl. rewrite Nat.eqb_refl. reflexivity. Qed.
Lemma gget_gset_other (g : ghost) t u x : u <> t -> gget (gset g t x) u = gget g u.
Proof.
  intros Hne. unfold gset. change (gget ((t, x) :: gclear g t) u) with
    (match (if t =? u then Some (t, x) else List.find (fun e => fst e =? u) (gclear g t)) with Some e => Some (snd e) | None => None end).
  destruct (t =? u) eqn:E; [apply Nat.eqb_eq in E; congruence|]. apply gget_gclear_other. exact Hne.
Qed.

(* the ghost map after an instrumented step *)
Definition ghost_after (g : ghost) (me : tid) (ev : list event) (a : list (K * V)) (lp : option (op K V)) : ghost :=
  let g1 := if invokes ev then gclear g me else g in
  match lp with Some po => gset g1 me (snd (step_spec ltb a po)) | None => g1 end.

Lemma ghost_after_other g me ev a lp t : t <> me -> gget (ghost_after g me ev a lp) t = gget g t.
Proof.
  intros Hne. unfold ghost_after. destruct lp as [po|].
  - rewrite gget_gset_other by exact Hne. destruct (invokes ev); [apply gget_gclear_other; exact Hne|reflexivity].
  - destruct (invokes ev); [apply gget_gclear_other; exact Hne|reflexivity].
Qed.

Lemma istep_unfold (i i' : istate) me ev :
  istep ltb order i me = Some (i', ev) ->
  exists s' acq, cstep ltb order (is_st i) me = Stepped s' acq ev /\ is_st i' = s' /\
    is_ghost i' = ghost_after (is_ghost i) me ev (is_abs i) (lp_step ltb (is_st i) me acq ev s') /\
    is_abs i' = match lp_step ltb (is_st i) me acq ev s' with
                | Some po => fst (step_spec ltb (is_abs i) po) | None => is_abs i end.
Proof.
  unfold istep. destruct (cstep ltb order (is_st i) me) as [ | | |s' acq ev'|] eqn:Hs; try discriminate.
  unfold ghost_after. destruct (lp_step ltb (is_st i) me acq ev' s') as [po|] eqn:Hlp.
  - destruct (step_spec ltb (is_abs i) po) as [a' x] eqn:E. intros H. inversion H; subst. exists s', acq.
    rewrite Hlp, E. simpl. repeat split; reflexivity.
  - intros H. inversion H; subst. exists s', acq. rewrite Hlp. simpl. repeat split; reflexivity.
Qed.

(* ---- iexec and exec run the same model steps ---- *)
Lemma iexec_st : forall sched (i : istate),
  is_st (iexec ltb order i sched) = fst (exec ltb order (is_st i) sched).
Proof.
  induction sched as [|t r IH]; intros i; simpl; [reflexivity|].
  destruct (istep ltb order i t) as [[i' ev]|] eqn:Hi.
  - destruct (istep_unfold _ _ _ _ Hi) as (s' & acq & Hs & E & _). rewrite Hs. rewrite IH, E.
    destruct (exec ltb order s' r). reflexivity.
  - unfold istep in Hi. destruct (cstep ltb order (is_st i) t) as [ | | |s' acq ev|] eqn:Hs; try reflexivity.
    destruct (lp_step ltb (is_st i) t acq ev s'); [destruct (step_spec ltb (is_abs i) o)|]; discriminate Hi.
Qed.

(* ---- unpacking a step ---- *)
Lemma cstep_unpack (s s' : st) me acq ev :
  cstep ltb order s me = Stepped s' acq ev ->
  exists th o, get_thread me (ths s) = Some th /\ blk ltb order s me th acq = Ok (Some o) /\
    s' = commit s me th o /\ ev = oev o.
Proof.
  rewrite cstep_eq. destruct (get_thread me (ths s)) as [th|] eqn:Hme; [|discriminate].
  destruct (target s (tpc th)) as [tg|] eqn:Htg; [|discriminate].
  destruct (negb (is_free s tg)); [discriminate|].
  destruct (blk ltb order s me th tg) as [[o|]|] eqn:HB; try discriminate.
  intros H. inversion H; subst. exists th, o. auto.
Qed.

Lemma commit_me (s : st) me th (o : out) :
  get_thread me (ths s) = Some th ->
  exists th', get_thread me (ths (commit s me th o)) = Some th' /\ tpc th' = opc o /\
    prog th' = (if returned (oev o) then tl (prog th) else prog th).
Proof.
  intros Hme. unfold commit. cbn [ths]. eexists. split; [eapply get_set_same; exact Hme|].
  destruct (returned (oev o)); split; reflexivity.
Qed.
Lemma commit_other (s : st) me th (o : out) t :
  t <> me -> get_thread t (ths (commit s me th o)) = get_thread t (ths s).
Proof. intros Hne. unfold commit. cbn [ths]. apply get_set_other. exact Hne. Qed.

(* ---- decidedness and linearization points, by pc ---- *)
Lemma decided_pc (s : st) t th :
  get_thread t (ths s) = Some th ->
  decided ltb s t = match tpc th with SeaWantChild (CSearch k) pn _ => below_lo ltb k pn (tr s) | _ => false end.
Proof. intros H. unfold decided. rewrite H. reflexivity. Qed.

Lemma decided_not_sea (s : st) t th :
  get_thread t (ths s) = Some th -> (forall o p c, tpc th <> SeaWantChild o p c) -> decided ltb s t = false.
Proof. intros H Hn. rewrite (decided_pc _ _ _ H). destruct (tpc th); try reflexivity. exfalso. eapply Hn. reflexivity. Qed.

Lemma lp_idle (s s' : st) me acq ev th :
  get_thread me (ths s) = Some th -> tpc th = Idle -> lp_step ltb s me acq ev s' = None.
Proof. intros Hme Hp. unfold lp_step. rewrite Hme. destruct (get_thread me (ths s')); [rewrite Hp|]; reflexivity. Qed.
Lemma lp_wantT (s s' : st) me acq ev th o :
  get_thread me (ths s) = Some th -> tpc th = WantT o -> lp_step ltb s me acq ev s' = None.
Proof. intros Hme Hp. unfold lp_step. rewrite Hme. destruct (get_thread me (ths s')); [rewrite Hp|]; reflexivity. Qed.

Definition plain (p : pc) : Prop := p <> Idle /\ forall o, p <> WantT o.

Lemma pc_eq_idle (p : pc) : p = Idle \/ p <> Idle.
Proof. destruct p; [left; reflexivity|right; discriminate..]. Qed.
Lemma pc_eq_wantT (p : pc) : (exists o, p = WantT o) \/ ~ (exists o, p = WantT o).
Proof. destruct p; try (right; intros [o' X]; discriminate X). left. eexists. reflexivity. Qed.

Lemma lp_ins (s s' : st) me acq ev th th' k v rest :
  get_thread me (ths s) = Some th -> get_thread me (ths s') = Some th' ->
  prog th = CInsert k v :: rest -> plain (tpc th) ->
  lp_step ltb s me acq ev s' = match returns ev with Some _ => Some (OInsert k v) | None => None end.
Proof.
  intros Hme Hme' Hpr [P1 P2]. unfold lp_step. rewrite Hme, Hme', Hpr.
  destruct (tpc th); try reflexivity; [congruence|exfalso; eapply P2; reflexivity].
Qed.
Lemma lp_upd (s s' : st) me acq ev th th' k f rest :
  get_thread me (ths s) = Some th -> get_thread me (ths s') = Some th' ->
  prog th = CUpdate k f :: rest -> plain (tpc th) ->
  lp_step ltb s me acq ev s' = match returns ev with Some _ => Some (OUpdate k f) | None => None end.
Proof.
  intros Hme Hme' Hpr [P1 P2]. unfold lp_step. rewrite Hme, Hme', Hpr.
  destruct (tpc th); try reflexivity; [congruence|exfalso; eapply P2; reflexivity].
Qed.
Lemma lp_del (s s' : st) me acq ev th th' k rest :
  get_thread me (ths s) = Some th -> get_thread me (ths s') = Some th' ->
  prog th = CDelete k :: rest -> plain (tpc th) ->
  lp_step ltb s me acq ev s' = if del_lp (tpc th) acq (tr s) then Some (ODelete k) else None.
Proof.
  intros Hme Hme' Hpr [P1 P2]. unfold lp_step. rewrite Hme, Hme', Hpr.
  destruct (tpc th); try reflexivity; try congruence; try (exfalso; eapply P2; reflexivity).
  destruct acq as [[c|]|]; reflexivity.
Qed.
Lemma lp_scan (s s' : st) me acq ev th k n rest :
  get_thread me (ths s) = Some th -> prog th = CScan k n :: rest ->
  lp_step ltb s me acq ev s' = None.
Proof.
  intros Hme Hpr. unfold lp_step. rewrite Hme. destruct (get_thread me (ths s')); [|reflexivity]. rewrite Hpr.
  destruct (tpc th); reflexivity.
Qed.
Lemma lp_sea (s s' : st) me acq ev th th' k rest :
  get_thread me (ths s) = Some th -> get_thread me (ths s') = Some th' ->
  prog th = CSearch k :: rest -> plain (tpc th) -> pc_for (tpc th) (CSearch k) ->
  lp_step ltb s me acq ev s' =
    if decided ltb s me then None else
    match returns ev with
    | Some _ => Some (OSearch k)
    | None => match tpc th' with
              | SeaWantChild _ pn' _ => if below_lo ltb k pn' (tr s') then Some (OSearch k) else None
              | _ => None end
    end.
Proof.
  intros Hme Hme' Hpr [P1 P2] Hop. rewrite (decided_pc _ _ _ Hme). unfold lp_step. rewrite Hme, Hme', Hpr.
  destruct (tpc th); simpl in Hop; try reflexivity; try congruence; try (exfalso; eapply P2; reflexivity).
  destruct Hop as [-> _]. reflexivity.
Qed.
Lemma sea_new (s' : st) me th' k :
  get_thread me (ths s') = Some th' -> pc_for (tpc th') (CSearch k) ->
  match tpc th' with
  | SeaWantChild _ pn' _ => if below_lo ltb k pn' (tr s') then Some (OSearch k) else None
  | _ => @None (op K V) end = if decided ltb s' me then Some (OSearch k) else None.
Proof.
  intros Hme' Hop. rewrite (decided_pc _ _ _ Hme'). destruct (tpc th'); simpl in Hop; try reflexivity.
  destruct Hop as [-> _]. reflexivity.
Qed.

Lemma del_lp_not_dwr (p : pc) acq (t : itree) : del_lp p acq t = true -> is_dwr p = false.
Proof. destruct p; simpl; try discriminate; reflexivity. Qed.

(* ---- the invariant ---- *)
(* what the ghost entry of thread t must be while its call [o] is in flight at pc [p] *)
Definition ghost_for (s : st) (g : ghost) (t : tid) (p : pc) (o : cop) : Prop :=
  match o with
  | CInsert _ _ | CUpdate _ _ => gget g t = None
  | CDelete _ => gget g t = if is_dwr p then Some ObsUnit else None
  | CSearch _ => gget g t = if decided ltb s t then Some (ObsFound None) else None
  | CScan _ _ => True
  end.

Definition thread_ok (s : st) (g : ghost) (t : tid) (th : thread) : Prop :=
  tpc th = Idle \/
  exists o rest, prog th = o :: rest /\ pc_for (tpc th) o /\ ghost_for s g t (tpc th) o.

Definition ghost_ok (i : istate) : Prop :=
  is_abs i = abs ltb (is_st i) /\
  forall t th, get_thread t (ths (is_st i)) = Some th -> thread_ok (is_st i) (is_ghost i) t th.

Lemma ghost_ok_init progs : ghost_ok (iinit progs).
Proof.
  split; [reflexivity|]. intros t th H. left. simpl in H.
  apply PCb1_Proof.get_thread_in in H. apply in_map_iff in H. destruct H as [x [E _]]. inversion E. reflexivity.
Qed.

(* what [lin_step_ok] asks of the stepping thread, phrased on the model step *)
Definition me_step_ok (s : st) (g : ghost) me (s' : st) acq ev : Prop :=
  let lp := lp_step ltb s me acq ev s' in
  let g' := ghost_after g me ev (abs ltb s) lp in
  (forall th', get_thread me (ths s') = Some th' -> thread_ok s' g' me th') /\
  (lp <> None -> gget (if invokes ev then gclear g me else g) me = None) /\
  (forall o r, call_in_flight s me = Some o -> is_scan o = false -> In (EReturn r) ev ->
     exists x, gget g' me = Some x /\ ores_of_obs K x = r).

Lemma call_in_flight_pc (s : st) me th o rest :
  get_thread me (ths s) = Some th -> tpc th <> Idle -> prog th = o :: rest -> call_in_flight s me = Some o.
Proof. intros Hme Hp Hpr. unfold call_in_flight. rewrite Hme, Hpr. destruct (tpc th); try reflexivity. congruence. Qed.

(* the stepping thread *)
Lemma me_step (s s' : st) (g : ghost) me acq ev th :
  abs_step_ok ltb order s me -> promise_step_ok ltb order s me ->
  get_thread me (ths s) = Some th -> thread_ok s g me th ->
  cstep ltb order s me = Stepped s' acq ev ->
  me_step_ok s g me s' acq ev.
Proof.
  intros Habs Hprom Hme Hok Hs.
  specialize (Habs _ _ _ Hs). specialize (Hprom _ _ _ Hs). destruct Hprom as [Hprom _].
  destruct (cstep_unpack _ _ _ _ _ Hs) as (th0 & out & Hme0 & HB & -> & ->).
  rewrite Hme in Hme0. inversion Hme0; subst th0. clear Hme0.
  destruct (commit_me s me th out Hme) as (th' & Hme' & Hpc' & Hpr').
  unfold me_step_ok. cbv zeta.
  assert (Hth' : forall P : thread -> Prop, P th' -> forall th1, get_thread me (ths (commit s me th out)) = Some th1 -> P th1).
  { intros P HP th1 H1. rewrite Hme' in H1. inversion H1; subst. exact HP. }
  (* invocation *)
  destruct (pc_eq_idle (tpc th)) as [Hidle|Hnidle].
  { destruct (blk_idle _ _ _ _ _ _ _ _ _ Hidle HB) as (o & rest & Hpr & Epc & Eev).
    rewrite (lp_idle s _ me acq _ th Hme Hidle). unfold ghost_after. rewrite Eev. cbn [invokes existsb orb].
    split; [|split].
    - apply Hth'. right. exists o, rest. rewrite Hpc', Hpr', Eev, Epc. cbn [returned existsb orb].
      split; [exact Hpr|]. split; [reflexivity|].
      assert (Hd : decided ltb (commit s me th out) me = false).
      { apply (decided_not_sea _ _ _ Hme'). intros o1 p1 c1. rewrite Hpc', Epc. discriminate. }
      destruct o; simpl; rewrite ?Hd; try apply gget_gclear_same. exact I.
    - intros X. exfalso. apply X. reflexivity.
    - intros o0 r Hc. unfold call_in_flight in Hc. rewrite Hme, Hidle in Hc. discriminate Hc. }
  destruct Hok as [Hok|(o & rest & Hpr & Hop & Hg)]; [congruence|].
  pose proof (call_in_flight_pc _ _ _ _ _ Hme Hnidle Hpr) as Hcall.
  (* acquiring the tree mutex *)
  destruct (pc_eq_wantT (tpc th)) as [[o1 HwT]|HnwT].
  { destruct (blk_wantT _ _ _ _ _ _ _ _ _ _ HwT HB) as [Epc Eev].
    rewrite (lp_wantT s _ me acq _ th _ Hme HwT). unfold ghost_after. rewrite Eev. cbn [invokes existsb].
    rewrite HwT in Hop. simpl in Hop. subst o1.
    split; [|split].
    - apply Hth'. right. exists o, rest. rewrite Hpc', Hpr', Eev, Epc. cbn [returned existsb].
      split; [exact Hpr|]. split; [reflexivity|].
      assert (Hd : decided ltb (commit s me th out) me = false).
      { apply (decided_not_sea _ _ _ Hme'). intros o1 p1 c1. rewrite Hpc', Epc. discriminate. }
      assert (Hd0 : decided ltb s me = false).
      { apply (decided_not_sea _ _ _ Hme). intros o1 p1 c1. rewrite HwT. discriminate. }
      rewrite HwT in Hg. destruct o; simpl in *; rewrite ?Hd; rewrite ?Hd0 in Hg; exact Hg.
    - intros X. exfalso. apply X. reflexivity.
    - intros o0 r _ _ Hin. destruct Hin. }
  assert (Hplain : plain (tpc th)) by (split; [exact Hnidle|intros o1 X; apply HnwT; exists o1; exact X]).
  pose proof (blk_outcome _ _ _ _ _ _ _ _ _ _ Hop HB) as Hout.
  assert (Hinv : invokes (oev out) = false).
  { destruct Hout as [Hq _|r0 Hr _ _]; [apply quiet_invokes; exact Hq|eapply retev_invokes; exact Hr]. }
  unfold ghost_after. rewrite Hinv.
  destruct o as [k v|k f|k|k|k n].
  - (* Insert *)
    simpl in Hg. rewrite (lp_ins s _ me acq _ th th' k v rest Hme Hme' Hpr Hplain) in *.
    destruct Hout as [Hq Hfor|r0 Hr Hidle' _].
    + rewrite (quiet_returns _ _ _ Hq). split; [|split].
      * apply Hth'. right. exists (CInsert k v), rest. rewrite Hpc', Hpr', (quiet_returned _ _ _ Hq).
        split; [exact Hpr|]. split; [exact Hfor|exact Hg].
      * intros X. exfalso. apply X. reflexivity.
      * intros o0 r _ _ Hin. exfalso. eapply quiet_noret; eauto.
    + rewrite (retev_returns _ _ _ _ Hr) in *. split; [|split].
      * apply Hth'. left. rewrite Hpc'. exact Hidle'.
      * intros _. exact Hg.
      * intros o0 r _ _ Hin. rewrite (retev_in _ _ _ _ _ Hr Hin). rewrite gget_gset_same. eexists. split; [reflexivity|].
        destruct Habs as [_ Hres]. cbn [lp_result_ok] in Hres. destruct r0; try contradiction. rewrite Hres. reflexivity.
  - (* Update *)
    simpl in Hg. rewrite (lp_upd s _ me acq _ th th' k f rest Hme Hme' Hpr Hplain) in *.
    destruct Hout as [Hq Hfor|r0 Hr Hidle' _].
    + rewrite (quiet_returns _ _ _ Hq). split; [|split].
      * apply Hth'. right. exists (CUpdate k f), rest. rewrite Hpc', Hpr', (quiet_returned _ _ _ Hq).
        split; [exact Hpr|]. split; [exact Hfor|exact Hg].
      * intros X. exfalso. apply X. reflexivity.
      * intros o0 r _ _ Hin. exfalso. eapply quiet_noret; eauto.
    + rewrite (retev_returns _ _ _ _ Hr) in *. split; [|split].
      * apply Hth'. left. rewrite Hpc'. exact Hidle'.
      * intros _. exact Hg.
      * intros o0 r _ _ Hin. rewrite (retev_in _ _ _ _ _ Hr Hin). rewrite gget_gset_same. eexists. split; [reflexivity|].
        destruct Habs as [_ Hres]. cbn [lp_result_ok] in Hres. destruct r0; try contradiction.
        rewrite Hres. reflexivity.
  - (* Delete *)
    simpl in Hg. rewrite (lp_del s _ me acq _ th th' k rest Hme Hme' Hpr Hplain) in *.
    destruct (blk_del _ _ _ _ _ _ _ _ _ _ (eq_refl : is_del (CDelete k) = true) Hop HB) as [D1 D2].
    destruct (del_lp (tpc th) acq (tr s)) eqn:Hlp.
    + (* the leaf delete happens now *)
      pose proof (del_lp_not_dwr _ _ _ Hlp) as Hnd. rewrite Hnd in Hg.
      destruct Habs as [_ Hres]. cbn [lp_result_ok] in Hres.
      destruct Hout as [Hq Hfor|r0 Hr Hidle' Hunit].
      * split; [|split].
        -- apply Hth'. right. exists (CDelete k), rest. rewrite Hpc', Hpr', (quiet_returned _ _ _ Hq).
           split; [exact Hpr|]. split; [exact Hfor|]. simpl. rewrite (D2 (quiet_returns _ _ _ Hq)).
           simpl. rewrite gget_gset_same. reflexivity.
        -- intros _. exact Hg.
        -- intros o0 r _ _ Hin. exfalso. eapply quiet_noret; eauto.
      * split; [|split].
        -- apply Hth'. left. rewrite Hpc'. exact Hidle'.
        -- intros _. exact Hg.
        -- intros o0 r _ _ Hin. rewrite (retev_in _ _ _ _ _ Hr Hin). rewrite gget_gset_same. eexists. split; [reflexivity|].
           rewrite (Hunit eq_refl). reflexivity.
    + (* no leaf delete in this step *)
      simpl in D1, D2.
      destruct Hout as [Hq Hfor|r0 Hr Hidle' Hunit].
      * split; [|split].
        -- apply Hth'. right. exists (CDelete k), rest. rewrite Hpc', Hpr', (quiet_returned _ _ _ Hq).
           split; [exact Hpr|]. split; [exact Hfor|]. simpl. rewrite (D2 (quiet_returns _ _ _ Hq)). exact Hg.
        -- intros X. exfalso. apply X. reflexivity.
        -- intros o0 r _ _ Hin. exfalso. eapply quiet_noret; eauto.
      * assert (Hd : is_dwr (tpc th) = true).
        { apply D1. rewrite (retev_returns _ _ _ _ Hr). discriminate. }
        rewrite Hd in Hg. split; [|split].
        -- apply Hth'. left. rewrite Hpc'. exact Hidle'.
        -- intros X. exfalso. apply X. reflexivity.
        -- intros o0 r _ _ Hin. rewrite (retev_in _ _ _ _ _ Hr Hin). exists ObsUnit. split; [exact Hg|].
           rewrite (Hunit eq_refl). reflexivity.
  - (* Search *)
    simpl in Hg. rewrite (lp_sea s _ me acq _ th th' k rest Hme Hme' Hpr Hplain Hop) in *.
    destruct (decided ltb s me) eqn:Hdec.
    + (* decided earlier: the promise *)
      specialize (Hprom eq_refl).
      destruct Hout as [Hq Hfor|r0 Hr Hidle' _].
      * rewrite (quiet_returns _ _ _ Hq) in Hprom. split; [|split].
        -- apply Hth'. right. exists (CSearch k), rest. rewrite Hpc', Hpr', (quiet_returned _ _ _ Hq).
           split; [exact Hpr|]. split; [exact Hfor|]. simpl. rewrite Hprom. exact Hg.
        -- intros X. exfalso. apply X. reflexivity.
        -- intros o0 r _ _ Hin. exfalso. eapply quiet_noret; eauto.
      * rewrite (retev_returns _ _ _ _ Hr) in Hprom. split; [|split].
        -- apply Hth'. left. rewrite Hpc'. exact Hidle'.
        -- intros X. exfalso. apply X. reflexivity.
        -- intros o0 r _ _ Hin. rewrite (retev_in _ _ _ _ _ Hr Hin). eexists. split; [exact Hg|].
           rewrite Hprom. reflexivity.
    + destruct Hout as [Hq Hfor|r0 Hr Hidle' _].
      * rewrite (quiet_returns _ _ _ Hq) in *.
        assert (Hfor' : pc_for (tpc th') (CSearch k)) by (rewrite Hpc'; exact Hfor).
        rewrite (sea_new _ _ _ _ Hme' Hfor') in *.
        destruct (decided ltb (commit s me th out) me) eqn:Hdec'.
        -- (* decided now: early linearization point *)
           destruct Habs as [_ Hres]. cbn [lp_result_ok] in Hres.
           split; [|split].
           ++ apply Hth'. right. exists (CSearch k), rest. rewrite Hpc', Hpr', (quiet_returned _ _ _ Hq).
              split; [exact Hpr|]. split; [exact Hfor|]. unfold ghost_for. rewrite Hdec', gget_gset_same, Hres. reflexivity.
           ++ intros _. exact Hg.
           ++ intros o0 r _ _ Hin. exfalso. eapply quiet_noret; eauto.
        -- split; [|split].
           ++ apply Hth'. right. exists (CSearch k), rest. rewrite Hpc', Hpr', (quiet_returned _ _ _ Hq).
              split; [exact Hpr|]. split; [exact Hfor|]. simpl. rewrite Hdec'. exact Hg.
           ++ intros X. exfalso. apply X. reflexivity.
           ++ intros o0 r _ _ Hin. exfalso. eapply quiet_noret; eauto.
      * (* the read of the leaf is the linearization point *)
        rewrite (retev_returns _ _ _ _ Hr) in *. destruct Habs as [_ Hres]. cbn [lp_result_ok] in Hres.
        split; [|split].
        -- apply Hth'. left. rewrite Hpc'. exact Hidle'.
        -- intros _. exact Hg.
        -- intros o0 r _ _ Hin. rewrite (retev_in _ _ _ _ _ Hr Hin). rewrite gget_gset_same. eexists. split; [reflexivity|].
           destruct r0; try contradiction. rewrite Hres. reflexivity.
  - (* Scan *)
    rewrite (lp_scan s _ me acq _ th k n rest Hme Hpr).
    split; [|split].
    + apply Hth'. destruct Hout as [Hq Hfor|r0 Hr Hidle' _].
      * right. exists (CScan k n), rest. rewrite Hpc', Hpr', (quiet_returned _ _ _ Hq).
        split; [exact Hpr|]. split; [exact Hfor|exact I].
      * left. rewrite Hpc'. exact Hidle'.
    + intros X. exfalso. apply X. reflexivity.
    + intros o0 r Hc Hsc _. rewrite Hcall in Hc. inversion Hc; subst o0. discriminate Hsc.
Qed.

(* every other thread *)
Lemma other_step (s s' : st) (g : ghost) me acq ev a lp t th :
  promise_step_ok ltb order s me ->
  cstep ltb order s me = Stepped s' acq ev ->
  t <> me -> get_thread t (ths s') = Some th ->
  (forall th0, get_thread t (ths s) = Some th0 -> thread_ok s g t th0) ->
  thread_ok s' (ghost_after g me ev a lp) t th.
Proof.
  intros Hprom Hs Hne Ht Hok. destruct (Hprom _ _ _ Hs) as [_ Hdec]. specialize (Hdec t Hne).
  destruct (cstep_unpack _ _ _ _ _ Hs) as (th0 & out & Hme0 & HB & -> & ->).
  rewrite commit_other in Ht by exact Hne. specialize (Hok th Ht).
  destruct Hok as [Hok|(o & rest & Hpr & Hop & Hg)]; [left; exact Hok|].
  right. exists o, rest. split; [exact Hpr|]. split; [exact Hop|].
  unfold ghost_for in *. rewrite ghost_after_other by exact Hne. rewrite Hdec. exact Hg.
Qed.

(* the invariant is preserved by an instrumented step *)
Theorem ghost_ok_step (i i' : istate) me ev :
  abs_step_ok ltb order (is_st i) me -> promise_step_ok ltb order (is_st i) me ->
  ghost_ok i -> istep ltb order i me = Some (i', ev) -> ghost_ok i'.
Proof.
  intros Habs Hprom [Ha Hth] Hi.
  destruct (istep_unfold _ _ _ _ Hi) as (s' & acq & Hs & Est & Eg & Ea).
  destruct (cstep_unpack _ _ _ _ _ Hs) as (th & out & Hme & _).
  pose proof (me_step _ _ (is_ghost i) _ _ _ _ Habs Hprom Hme (Hth _ _ Hme) Hs) as [M1 _].
  split.
  - rewrite Ea, Est. specialize (Habs _ _ _ Hs). rewrite Ha.
    destruct (lp_step ltb (is_st i) me acq ev s'); [destruct Habs as [Habs _]|]; symmetry; exact Habs.
  - intros t th1 Ht. rewrite Est in *. rewrite Eg. destruct (Nat.eq_dec t me) as [->|Hne].
    + rewrite Ha. apply M1. exact Ht.
    + eapply other_step; eauto.
Qed.

(* in a state satisfying the invariant, the next step of any thread is as linearizability demands *)
Theorem ghost_ok_lin (i : istate) me :
  abs_step_ok ltb order (is_st i) me -> promise_step_ok ltb order (is_st i) me ->
  ghost_ok i -> lin_step_ok ltb order i me.
Proof.
  intros Habs Hprom Hok i' ev Hi.
  pose proof (ghost_ok_step _ _ _ _ Habs Hprom Hok Hi) as [Ha' _].
  destruct Hok as [Ha Hth].
  destruct (istep_unfold _ _ _ _ Hi) as (s' & acq & Hs & Est & Eg & Ea).
  destruct (cstep_unpack _ _ _ _ _ Hs) as (th & out & Hme & _).
  pose proof (me_step _ _ (is_ghost i) _ _ _ _ Habs Hprom Hme (Hth _ _ Hme) Hs) as (_ & M2 & M3).
  split; [exact Ha'|]. split.
  - intros acq0 s0 Hs0 Hlp. rewrite Hs in Hs0. inversion Hs0; subst s0 acq0. apply M2. exact Hlp.
  - intros o r Hc Hsc Hin. rewrite Eg, Ha. eapply M3; eauto.
Qed.

End Ghost.

Arguments ghost_ok {K V} ltb i.
Arguments ghost_after {K V} ltb g me ev a lp.
Arguments thread_ok {K V} ltb s g t th.
Arguments ghost_for {K V} ltb s g t p o.
Arguments me_step_ok {K V} ltb s g me s' acq ev.

(* ------------------------------------------------------------------------------------------------ *)
(* Part 2: the assembly, parametrised by the per-step facts                                          *)
(* ------------------------------------------------------------------------------------------------ *)
Section Assembly.
Variables (K V : Type) (ltb : K -> K -> bool).
Variable order : nat.
Hypothesis H1 : forall (s : st K V) me, CIall ltb order s -> abs_step_ok ltb order s me.
Hypothesis H2 : forall (s : st K V) me, CIall ltb order s -> promise_step_ok ltb order s me.
Hypothesis H3 : forall (progs : list (tid * list (cop K V))) sched, NoDup (map fst progs) ->
  CIall ltb order (fst (exec ltb order (init_st progs) sched)).

Lemma ghost_ok_exec : forall sched (i : istate K V),
  (forall sched', CIall ltb order (is_st (iexec ltb order i sched'))) ->
  ghost_ok ltb i -> ghost_ok ltb (iexec ltb order i sched).
Proof.
  induction sched as [|t r IH]; intros i HCI Hok; simpl; [exact Hok|].
  destruct (istep ltb order i t) as [[i' ev]|] eqn:Hi; [|exact Hok].
  apply IH.
  - intros sched'. specialize (HCI (t :: sched')). simpl in HCI. rewrite Hi in HCI. exact HCI.
  - pose proof (HCI []) as C0. simpl in C0. eapply ghost_ok_step; eauto.
Qed.

Lemma reachable_CIall (progs : list (tid * list (cop K V))) sched : NoDup (map fst progs) ->
  CIall ltb order (is_st (iexec ltb order (iinit progs) sched)).
Proof. intros Hnd. rewrite iexec_st. simpl. apply H3. exact Hnd. Qed.

Theorem ghost_ok_reachable (progs : list (tid * list (cop K V))) sched : NoDup (map fst progs) ->
  ghost_ok ltb (iexec ltb order (iinit progs) sched).
Proof.
  intros Hnd. apply ghost_ok_exec; [intros sched'; apply reachable_CIall; exact Hnd|apply ghost_ok_init].
Qed.

Theorem linearizable_by_lps : forall (progs : list (tid * list (cop K V))) sched me,
  NoDup (map fst progs) ->
  lin_step_ok ltb order (iexec ltb order (iinit progs) sched) me.
Proof.
  intros progs sched me Hnd. pose proof (reachable_CIall progs sched Hnd) as C.
  apply ghost_ok_lin; [apply H1; exact C|apply H2; exact C|apply ghost_ok_reachable; exact Hnd].
Qed.

End Assembly.

Print Assumptions linearizable_by_lps.

(* SUMMARY (agent LINc).  Everything above is proved; no axioms ("Closed under the global context").

   Invariant of reachable instrumented states:
     ghost_ok ltb i :=
       is_abs i = abs ltb (is_st i) /\
       forall t th, get_thread t (ths (is_st i)) = Some th -> thread_ok ltb (is_st i) (is_ghost i) t th
     thread_ok ltb s g t th :=
       tpc th = Idle \/ exists o rest, prog th = o :: rest /\ pc_for (tpc th) o /\ ghost_for ltb s g t (tpc th) o
     pc_for p o  (LINc_Blocks.v): the call recorded in the non-Idle pc p is o, and p is a pc of o's kind of call
       (Ins*/UpdCallback: Insert/Update; SeaWantChild: Search/Scan; Del*: Delete; Cur*: Scan)
     ghost_for ltb s g t p o :=
       Insert/Update: gget g t = None
       Delete:        gget g t = if is_dwr p then Some ObsUnit else None          (is_dwr p: p is DelWantRight)
       Search:        gget g t = if decided ltb s t then Some (ObsFound None) else None
       Scan:          True

   Theorems:
     ghost_ok_init  : ghost_ok ltb (iinit progs)
     ghost_ok_step  : abs_step_ok ltb order (is_st i) me -> promise_step_ok ltb order (is_st i) me ->
                      ghost_ok ltb i -> istep ltb order i me = Some (i', ev) -> ghost_ok ltb i'
     ghost_ok_lin   : abs_step_ok ltb order (is_st i) me -> promise_step_ok ltb order (is_st i) me ->
                      ghost_ok ltb i -> lin_step_ok ltb order i me
     iexec_st       : is_st (iexec ltb order i sched) = fst (exec ltb order (is_st i) sched)
     ghost_ok_reachable, linearizable_by_lps (under H1, H2, H3 exactly as given; after the section they are
                      explicit premises).
   lin_step_ok is provable AS STATED: no counterexample.  (The suspected corner, a Search at WantRoot on a leaf
   root, returns in that step, lp_step = Some (OSearch k) because the thread is not decided, the ghost is set in
   this very step and H1's lp_result_ok gives the equality of results.)
   No hypothesis beyond H1-H3 is needed; H3 is used only to feed H1 and H2. *)

(* OCCc_Unwind.v — rebalancing and the unwinding of Delete do not panic. *)
From Coq Require Import List Permutation Lia Bool PeanoNat.
From GB Require Import ListLemmas TreeLemmas Frame LockProof UpdLemmas FrameRel FrameInv FrameBlocks CInv
  OCCc_Base OCCc_Blocks OCCc_Reb OCCc_Total.
Import ListNotations.

Section Unwind.
Variables (K V : Type) (ltb : K -> K -> bool).
Notation itree := (itree K V).
Notation pc := (pc K V).
Notation st := (st K V).
Notation out := (out K V).

(* ---- all leaves at the same depth (the [bal] of GI without the non-emptiness clause) ---- *)
Fixpoint ibal (d : nat) (t : itree) : Prop :=
  match t, d with
  | ILeaf _ _ _, 0 => True
  | INode _ cs, S d' =>
    (fix go (cs : list (K * itree)) : Prop := match cs with [] => True | (_, c) :: r => ibal d' c /\ go r end) cs
  | _, _ => False
  end.
Definition iball (d : nat) (cs : list (K * itree)) : Prop := Forall (fun c => ibal d (snd c)) cs.

Lemma ibal_node_S d i cs : ibal (S d) (INode i cs) <-> iball d cs.
Proof.
  simpl. unfold iball. induction cs as [|[k c] r IH]; [split; [constructor|auto]|].
  rewrite Forall_cons_iff. simpl. tauto.
Qed.
Lemma ibal_node d i cs : ibal d (INode i cs) <-> exists d', d = S d' /\ iball d' cs.
Proof.
  destruct d as [|d]; [simpl; split; [tauto | intros [d' [E _]]; discriminate]|].
  rewrite ibal_node_S. split; [intros H; eauto | intros [d' [E H]]; inversion E; subst; exact H].
Qed.
Lemma ibal_leaf d i nx (es : list (K * V)) : ibal d (ILeaf i nx es) <-> d = 0.
Proof. destruct d; simpl; split; try tauto; try discriminate; auto. Qed.

Lemma bal_ibal : forall (t : itree) d, bal d (erase_ids t) -> ibal d t.
Proof.
  induction t as [i nx es|i cs IH] using itree_ind2; intros d H.
  - destruct d; simpl in *; tauto.
  - destruct d as [|d]; [simpl in H; tauto|]. apply ibal_node_S. simpl in H. destruct H as [_ H].
    unfold iball. induction cs as [|[k c] r IHr]; [constructor|].
    inversion IH as [|? ? H1 H2]; subst. simpl in H. destruct H as [Hc Hr]. constructor; [apply H1; exact Hc | apply IHr; auto].
Qed.

Lemma ibal_find x : forall (t n : itree) d, ibal d t -> find x t = Some n -> exists d', ibal d' n.
Proof.
  induction t as [i nx es|i cs IH] using itree_ind2; intros n d Hb Hf; rewrite find_eq in Hf; simpl nid in Hf.
  - destruct (i =? x); [|discriminate]. inversion Hf; subst. eauto.
  - destruct (i =? x); [inversion Hf; subst; eauto|].
    apply ibal_node in Hb. destruct Hb as [d' [_ Hb]]. unfold iball in Hb.
    induction cs as [|[k c] r IHr]; [discriminate|].
    inversion IH as [|? ? H1 H2]; subst. inversion Hb as [|? ? B1 B2]; subst. rewrite findl_cons in Hf. simpl in H1, B1.
    destruct (find x c) eqn:Ec; [inversion Hf; subst; eapply H1; eauto | eapply IHr; eauto].
Qed.

Lemma ibal_upd x (n n' : itree) :
  (forall d, ibal d n -> ibal d n') ->
  forall (t t' : itree) d, NoDup (ids t) -> find x t = Some n -> upd x (fun _ => Ok n') t = Ok t' -> ibal d t -> ibal d t'.
Proof.
  intros Hloc. induction t as [i nx es|i cs IH] using itree_ind2; intros t' d Hnd Hf Hu Hb;
    rewrite find_eq in Hf; rewrite upd_eq in Hu; simpl nid in *.
  - destruct (i =? x); [|discriminate]. inversion Hf; inversion Hu; subst. auto.
  - destruct (i =? x); [inversion Hf; inversion Hu; subst; auto|].
    destruct (updl x (fun _ => Ok n') cs) as [cs'|] eqn:Eu; [simpl in Hu|discriminate]. inversion Hu; subst t'. clear Hu.
    apply ibal_node in Hb. destruct Hb as [d' [-> Hb]]. apply ibal_node_S. unfold iball in *.
    rewrite ids_node in Hnd. apply NoDup_cons_iff in Hnd. destruct Hnd as [_ Hnd'].
    revert cs' Eu. induction cs as [|[k c] r IHr]; intros cs' Eu; [discriminate|].
    inversion IH as [|? ? H1 H2]; subst. inversion Hb as [|? ? B1 B2]; subst.
    rewrite findl_cons in Hf. rewrite updl_cons in Eu. simpl in H1, B1.
    rewrite idsl_cons in Hnd'. simpl in Hnd'.
    destruct (find x c) as [y|] eqn:Ec.
    + inversion Hf; subst y.
      assert (Hxr : ~ In x (idsl r)).
      { intro Hin. apply find_in_ids in Ec. eapply NoDup_app_disj; eauto. }
      destruct (upd x (fun _ => Ok n') c) as [c'|] eqn:Euc; [simpl in Eu|discriminate].
      rewrite updl_notin in Eu by exact Hxr. simpl in Eu. inversion Eu; subst cs'.
      constructor; [simpl; eapply H1; eauto; eapply NoDup_app_remove_r; eauto | exact B2].
    + assert (Hxc : ~ In x (ids c)) by (rewrite find_some_iff; intro X; apply X; exact Ec).
      rewrite upd_notin in Eu by exact Hxc. simpl in Eu.
      destruct (updl x (fun _ => Ok n') r) as [r'|] eqn:Eur; [simpl in Eu|discriminate]. inversion Eu; subst cs'.
      constructor; [exact B1|]. apply IHr; auto. eapply NoDup_app_remove_l; eauto.
Qed.

(* ---- borrowing and merging between siblings of the same depth ---- *)
Lemma iadopt_right_total d (l r : itree) :
  ibal d l -> ibal d r -> 1 <= icount r ->
  exists l' r', iadopt_right l r = Ok (l', r') /\ ibal d l' /\ ibal d r' /\ S (icount r') = icount r.
Proof.
  intros Hl Hr Hc. destruct l as [li ln le|li lc]; destruct r as [ri rn re|ri rc].
  - apply ibal_leaf in Hl. subst d. destruct re as [|x re]; [simpl in Hc; lia|].
    do 2 eexists. split; [reflexivity|]. simpl. auto.
  - apply ibal_leaf in Hl. subst d. simpl in Hr. tauto.
  - apply ibal_leaf in Hr. subst d. simpl in Hl. tauto.
  - apply ibal_node in Hl. destruct Hl as [d' [-> Hl]]. apply ibal_node_S in Hr.
    destruct rc as [|x rc]; [simpl in Hc; lia|]. inversion Hr as [|? ? R1 R2]; subst.
    do 2 eexists. split; [reflexivity|]. rewrite !ibal_node_S. split; [|split; [exact R2|reflexivity]].
    apply Forall_app. split; [exact Hl|]. constructor; [exact R1|constructor].
Qed.

Lemma iadopt_left_total d (l r : itree) :
  ibal d l -> ibal d r -> 1 <= icount l ->
  exists l' r', iadopt_left l r = Ok (l', r') /\ ibal d l' /\ ibal d r' /\ 1 <= icount r'.
Proof.
  intros Hl Hr Hc. destruct l as [li ln le|li lc]; destruct r as [ri rn re|ri rc].
  - apply ibal_leaf in Hl. subst d. unfold iadopt_left.
    destruct (list_snoc_cases le) as [->|[le' [x ->]]]; [simpl in Hc; lia|].
    rewrite rev_app_distr. cbn [rev app]. do 2 eexists. split; [reflexivity|]. simpl. repeat split; lia.
  - apply ibal_leaf in Hl. subst d. simpl in Hr. tauto.
  - apply ibal_leaf in Hr. subst d. simpl in Hl. tauto.
  - apply ibal_node in Hl. destruct Hl as [d' [-> Hl]]. apply ibal_node_S in Hr. unfold iadopt_left.
    destruct (list_snoc_cases lc) as [->|[lc' [x ->]]]; [simpl in Hc; lia|].
    rewrite rev_app_distr. cbn [rev app]. do 2 eexists. split; [reflexivity|]. rewrite !ibal_node_S.
    apply Forall_app in Hl. destruct Hl as [L1 L2]. inversion L2 as [|? ? X1 X2]; subst.
    split; [rewrite rev_involutive; exact L1|]. split; [constructor; assumption|simpl; lia].
Qed.

Lemma iabsorb_total d (l r : itree) :
  ibal d l -> ibal d r -> exists z, iabsorb l r = Ok z /\ ibal d z.
Proof.
  intros Hl Hr. destruct l as [li ln le|li lc]; destruct r as [ri rn re|ri rc].
  - apply ibal_leaf in Hl. subst d. eexists. split; [reflexivity|]. simpl. auto.
  - apply ibal_leaf in Hl. subst d. simpl in Hr. tauto.
  - apply ibal_leaf in Hr. subst d. simpl in Hl. tauto.
  - apply ibal_node in Hl. destruct Hl as [d' [-> Hl]]. apply ibal_node_S in Hr.
    eexists. split; [reflexivity|]. rewrite ibal_node_S. apply Forall_app. auto.
Qed.


Lemma root_min_4 order : 4 <= order -> root_min order = 2.
Proof. intros H. unfold root_min. destruct (4 <=? order) eqn:E; [reflexivity|]. apply Nat.leb_gt in E. lia. Qed.
Lemma div2_ge2 order : 4 <= order -> 2 <= Nat.div2 order.
Proof. intros H. destruct order as [|[|[|[|n]]]]; try lia. simpl. lia. Qed.

(* a sibling of the exempt child satisfies occupancy *)
Lemma sib_occ order pi (cs : list (K * itree)) index k1 child j k sib b :
  NoDup (ids (INode pi cs)) -> iocc_b order (Some (nid child)) b (INode pi cs) = true ->
  nth_error cs index = Some (k1, child) -> nth_error cs j = Some (k, sib) -> j <> index ->
  iocc_b order None false sib = true.
Proof.
  intros Hnd Ho Eg Ej Hne.
  destruct (nth_error_split cs index Eg) as [A [B [E L]]]. subst cs index.
  destruct (node_occ_split K V order pi A B (k1, child) b Hnd Ho) as (_ & HA & HB & _).
  unfold ioccl in HA, HB. rewrite forallb_forall in HA, HB.
  destruct (Nat.lt_ge_cases j (length A)) as [Hlt|Hge].
  - rewrite nth_error_app1 in Ej by exact Hlt. apply nth_error_In in Ej. apply (HA _ Ej).
  - rewrite nth_error_app2 in Ej by exact Hge.
    destruct (j - length A) as [|m] eqn:Em; [lia|]. simpl in Ej. apply nth_error_In in Ej. apply (HB _ Ej).
Qed.

Lemma nth_error_exists {A} (l : list A) i : i < length l -> exists a, nth_error l i = Some a.
Proof. intros H. destruct (nth_error l i) eqn:E; [eauto|]. apply nth_error_None in E. lia. Qed.

Lemma rebal_core_total order d pi index (cs : list (K * itree)) child k1 b :
  4 <= order -> NoDup (ids (INode pi cs)) -> nth_error cs index = Some (k1, child) ->
  S (icount child) = Nat.div2 order ->
  iocc_b order (Some (nid child)) b (INode pi cs) = true -> iball d cs ->
  exists cs' small', rebal_core order index cs child = Ok (cs', small') /\ iball d cs'.
Proof.
  intros Ho4 Hnd Eg Hsm Ho Hb.
  pose proof (div2_ge2 order Ho4) as Hd2.
  assert (Hidx : index < length cs) by (apply nth_error_Some; congruence).
  assert (Hlen2 : 2 <= length cs).
  { destruct (nth_error_split cs index Eg) as [A [B [E L]]]. subst cs index.
    destruct (node_occ_split K V order pi A B (k1, child) b Hnd Ho) as (T & _).
    apply top_none_node in T. destruct b; [rewrite (root_min_4 order Ho4) in T|]; lia. }
  assert (Hsib : forall j k sib, nth_error cs j = Some (k, sib) -> j <> index ->
            Nat.div2 order <= icount sib /\ kids_occ order None sib = true /\ ibal d sib).
  { intros j k sib Ej Hne. pose proof (sib_occ order pi cs index k1 child j k sib b Hnd Ho Eg Ej Hne) as X.
    apply iocc_elim_false in X. destruct X as [X1 X2]. split; [exact X1|]. split; [exact X2|].
    unfold iball in Hb. rewrite Forall_forall in Hb. apply (Hb (k, sib)). eapply nth_error_In; eauto. }
  assert (Hbc : ibal d child).
  { unfold iball in Hb. rewrite Forall_forall in Hb. apply (Hb (k1, child)). eapply nth_error_In; eauto. }
  assert (Hkc : kids_occ order None child = true).
  { destruct (nth_error_split cs index Eg) as [A [B [E L]]]. subst cs index.
    destruct (node_occ_split K V order pi A B (k1, child) b Hnd Ho) as (_ & _ & _ & X). exact X. }
  unfold rebal_core. cbv zeta.
  destruct ((index + 1 <? length cs) && (Nat.div2 order <? (if index + 1 <? length cs then match nth_error cs (index + 1) with Some (_, r) => icount r | None => 0 end else 0))) eqn:C1.
  { (* borrow from the right sibling *)
    apply andb_prop in C1. destruct C1 as [C1a C1b]. rewrite C1a in C1b. apply Nat.ltb_lt in C1a.
    destruct (nth_error_exists cs (index + 1) C1a) as [[k2 rgt] Eg2]. rewrite Eg2 in C1b. apply Nat.ltb_lt in C1b.
    unfold get_nth. rewrite Eg2. cbn [bind].
    destruct (Hsib _ _ _ Eg2) as (S1 & S2 & S3); [lia|].
    destruct (iadopt_right_total d child rgt Hbc S3) as (c' & r' & Ea & B1 & B2 & B3); [lia|].
    rewrite Ea. cbn [bind].
    destruct (ismallest_total K V r') as [rs Hrs]; [lia|]. rewrite Hrs. cbn [bind].
    do 2 eexists. split; [reflexivity|].
    destruct (nth_error_split2 cs index _ _ Eg Eg2) as [A [B [E L]]]. subst cs index.
    unfold set_child_i. rewrite nth_error_app_len, set_nth_app, set_nth_app1.
    unfold iball in *. apply Forall_app in Hb. destruct Hb as [HbA HbB].
    inversion HbB as [|? ? _ HbB1]; subst. inversion HbB1 as [|? ? _ HbB2]; subst.
    apply Forall_app. split; [exact HbA|]. constructor; [exact B1|]. constructor; [exact B2|exact HbB2]. }
  destruct ((0 <? index) && (Nat.div2 order <? (if 0 <? index then match nth_error cs (index - 1) with Some (_, l) => icount l | None => 0 end else 0))) eqn:C2.
  { (* borrow from the left sibling *)
    apply andb_prop in C2. destruct C2 as [C2a C2b]. rewrite C2a in C2b. apply Nat.ltb_lt in C2a.
    destruct index as [|j]; [lia|].
    replace (S j - 1) with j in * by lia.
    destruct (nth_error_exists cs j) as [[k0 lft] Eg0]; [lia|]. rewrite Eg0 in C2b. apply Nat.ltb_lt in C2b.
    unfold get_nth. rewrite Eg0. cbn [bind].
    destruct (Hsib _ _ _ Eg0) as (S1 & S2 & S3); [lia|].
    destruct (iadopt_left_total d lft child S3 Hbc) as (l' & c' & Ea & B1 & B2 & B3); [lia|].
    rewrite Ea. cbn [bind].
    destruct (ismallest_total K V c') as [sm Hsm']; [lia|]. rewrite Hsm'. cbn [bind].
    do 2 eexists. split; [reflexivity|].
    replace (S j) with (j + 1) in * by lia.
    destruct (nth_error_split2 cs j _ _ Eg0 Eg) as [A [B [E L]]]. subst cs j.
    unfold set_child_i. rewrite nth_error_app_len, set_nth_app, set_nth_app1.
    unfold iball in *. apply Forall_app in Hb. destruct Hb as [HbA HbB].
    inversion HbB as [|? ? _ HbB1]; subst. inversion HbB1 as [|? ? _ HbB2]; subst.
    apply Forall_app. split; [exact HbA|]. constructor; [exact B1|]. constructor; [exact B2|exact HbB2]. }
  destruct (0 <? (if 0 <? index then match nth_error cs (index - 1) with Some (_, l) => icount l | None => 0 end else 0)) eqn:C3.
  { (* merge into the left sibling *)
    destruct (0 <? index) eqn:C0; [|discriminate C3]. apply Nat.ltb_lt in C0.
    destruct index as [|j]; [lia|].
    replace (S j - 1) with j in * by lia.
    destruct (nth_error_exists cs j) as [[k0 lft] Eg0]; [lia|].
    unfold get_nth. rewrite Eg0. cbn [bind].
    destruct (Hsib _ _ _ Eg0) as (S1 & S2 & S3); [lia|].
    destruct (iabsorb_total d lft child S3 Hbc) as (z & Ea & B1).
    rewrite Ea. cbn [bind].
    do 2 eexists. split; [reflexivity|].
    replace (S j) with (j + 1) in * by lia.
    destruct (nth_error_split2 cs j _ _ Eg0 Eg) as [A [B [E L]]]. subst cs j.
    unfold set_child_i. rewrite nth_error_app_len, set_nth_app, del_nth_app1.
    unfold iball in *. apply Forall_app in Hb. destruct Hb as [HbA HbB].
    inversion HbB as [|? ? _ HbB1]; subst. inversion HbB1 as [|? ? _ HbB2]; subst.
    apply Forall_app. split; [exact HbA|]. constructor; [exact B1|exact HbB2]. }
  (* no usable left sibling: there is a right one and it is not empty *)
  assert (Hi0 : index = 0).
  { destruct index as [|j]; [reflexivity|]. exfalso.
    replace (0 <? S j) with true in C3 by reflexivity. replace (S j - 1) with j in C3 by lia.
    destruct (nth_error_exists cs j) as [[k0 lft] Eg0]; [lia|]. rewrite Eg0 in C3.
    destruct (Hsib _ _ _ Eg0) as (S1 & _); [lia|]. apply Nat.ltb_ge in C3. lia. }
  subst index.
  destruct (nth_error_exists cs (0 + 1)) as [[k2 rgt] Eg2]; [simpl; lia|].
  destruct (Hsib _ _ _ Eg2) as (S1 & S2 & S3); [lia|].
  assert (HR : 0 + 1 <? length cs = true) by (apply Nat.ltb_lt; simpl; lia).
  rewrite HR, Eg2.
  replace (icount rgt =? 0) with false by (symmetry; apply Nat.eqb_neq; lia).
  unfold get_nth. rewrite Eg2. cbn [bind].
  destruct (iabsorb_total d child rgt Hbc S3) as (z & Ea & B1).
  rewrite Ea. cbn [bind].
  do 2 eexists. split; [reflexivity|].
  destruct (nth_error_split2 cs 0 _ _ Eg Eg2) as [A [B [E L]]]. subst cs.
  destruct A; [|discriminate L].
  unfold set_child_i. simpl nth_error. cbn [app].
  change (set_nth 0 (k1, z) ((k1, child) :: (k2, rgt) :: B)) with ((k1, z) :: (k2, rgt) :: B).
  change (del_nth (0 + 1) ((k1, z) :: (k2, rgt) :: B)) with ((k1, z) :: B).
  unfold iball in *. simpl in Hb. inversion Hb as [|? ? _ HbB1]; subst. inversion HbB1 as [|? ? _ HbB2]; subst.
  constructor; [exact B1|exact HbB2].
Qed.


(* the depth of a position, and replacing the subtree there by one of the same depth *)
Lemma ibal_at x : forall (t n : itree) d,
  NoDup (ids t) -> ibal d t -> find x t = Some n ->
  exists dn, ibal dn n /\ forall n' t', ibal dn n' -> upd x (fun _ => Ok n') t = Ok t' -> ibal d t'.
Proof.
  induction t as [i nx es|i cs IH] using itree_ind2; intros n d Hnd Hb Hf; rewrite find_eq in Hf; simpl nid in Hf.
  - destruct (i =? x) eqn:E; [|discriminate]. inversion Hf; subst. exists d. split; [exact Hb|].
    intros n' t' Hn' Hu. rewrite upd_eq in Hu. simpl nid in Hu. rewrite E in Hu. inversion Hu; subst. exact Hn'.
  - destruct (i =? x) eqn:E.
    + inversion Hf; subst. exists d. split; [exact Hb|].
      intros n' t' Hn' Hu. rewrite upd_eq in Hu. simpl nid in Hu. rewrite E in Hu. inversion Hu; subst. exact Hn'.
    + apply ibal_node in Hb. destruct Hb as [d' [-> Hb]]. unfold iball in Hb.
      rewrite ids_node in Hnd. apply NoDup_cons_iff in Hnd. destruct Hnd as [_ Hnd'].
      assert (H : exists dn, ibal dn n /\ forall n' cs', ibal dn n' -> updl x (fun _ => Ok n') cs = Ok cs' -> iball d' cs').
      { clear E. induction cs as [|[k c] r IHr]; [discriminate|].
        inversion IH as [|? ? H1 H2]; subst. inversion Hb as [|? ? B1 B2]; subst.
        rewrite findl_cons in Hf. simpl in H1, B1. rewrite idsl_cons in Hnd'. simpl in Hnd'.
        destruct (find x c) as [y|] eqn:Ec.
        - inversion Hf; subst y.
          destruct (H1 n d' (NoDup_app_remove_r _ _ Hnd') B1 eq_refl) as [dn [D1 D2]].
          exists dn. split; [exact D1|]. intros n' cs' Hn' Hu. rewrite updl_cons in Hu.
          assert (Hxr : ~ In x (idsl r)).
          { intro Hin. apply find_in_ids in Ec. eapply NoDup_app_disj; eauto. }
          destruct (upd x (fun _ => Ok n') c) as [c'|] eqn:Euc; [simpl in Hu|discriminate].
          rewrite updl_notin in Hu by exact Hxr. simpl in Hu. inversion Hu; subst cs'.
          constructor; [simpl; eapply D2; eauto | exact B2].
        - destruct (IHr H2 (NoDup_app_remove_l _ _ Hnd') B2 Hf) as [dn [D1 D2]].
          exists dn. split; [exact D1|]. intros n' cs' Hn' Hu. rewrite updl_cons in Hu.
          assert (Hxc : ~ In x (ids c)) by (rewrite find_some_iff; intro X; apply X; exact Ec).
          rewrite upd_notin in Hu by exact Hxc. simpl in Hu.
          destruct (updl x (fun _ => Ok n') r) as [r'|] eqn:Eur; [simpl in Hu|discriminate]. inversion Hu; subst cs'.
          constructor; [exact B1|]. eapply D2; eauto. }
      destruct H as [dn [D1 D2]]. exists dn. split; [exact D1|].
      intros n' t' Hn' Hu. rewrite upd_eq in Hu. simpl nid in Hu. rewrite E in Hu.
      destruct (updl x (fun _ => Ok n') cs) as [cs'|] eqn:Eu; [simpl in Hu|discriminate]. inversion Hu; subst t'.
      apply ibal_node_S. eapply D2; eauto.
Qed.

Lemma child_at_entry (t : itree) p j c pi cs :
  child_at t p j c -> find p t = Some (INode pi cs) -> exists k ch, nth_error cs j = Some (k, ch) /\ nid ch = c.
Proof.
  intros Hca Hf. destruct (Hca _ (view_of_find K V _ _ _ _ Hf)) as [k Hk].
  unfold ptrs in Hk. rewrite nth_error_map' in Hk. destruct (nth_error cs j) as [[k' ch]|]; [|discriminate].
  simpl in Hk. inversion Hk; subst. eauto.
Qed.

Lemma irebalance_total order d f (t : itree) pi cs c ct :
  4 <= order -> NoDup (ids t) -> find (fp f) t = Some (INode pi cs) -> child_at t (fp f) (fidx f) c ->
  find c t = Some ct -> S (icount ct) = Nat.div2 order -> iocc_b order (Some c) true t = true -> ibal d t ->
  exists t' small', irebalance order f t = Ok (t', small') /\ ibal d t'.
Proof.
  intros Ho4 Hnd Hf Hca Hfc Hsm Ho Hb. rewrite irebalance_eq, Hf.
  destruct (child_at_entry t _ _ _ _ _ Hca Hf) as (k1 & child & Eg & Hc).
  unfold get_nth. rewrite Eg. cbn [bind].
  assert (Hch : ct = child).
  { pose proof (find_child K V _ _ _ _ _ _ Hnd Hf (nth_error_In _ _ Eg)) as X. rewrite Hc in X. congruence. }
  subst ct c.
  assert (Hndn : NoDup (ids (INode pi cs))) by (eapply find_sub_nodup; eauto).
  destruct (ibal_at _ _ _ _ Hnd Hb Hf) as [dn [D1 D2]].
  apply ibal_node in D1. destruct D1 as [d' [-> D1]].
  assert (Hloc : exists b, iocc_b order (Some (nid child)) b (INode pi cs) = true).
  { destruct (iocc_find K V order _ _ _ _ Ho Hf) as [[E1 E2]|[E1 E2]]; [exists true; rewrite E2; exact Ho | exists false; exact E2]. }
  destruct Hloc as [b Hloc].
  destruct (rebal_core_total order d' pi (fidx f) cs child k1 b Ho4 Hndn Eg Hsm Hloc D1) as (cs' & sm & Er & Hb').
  rewrite Er. cbn [bind].
  destruct (upd_total K V (fp f) (INode pi cs') t) as [t' Hu]. rewrite Hu. cbn [bind].
  do 2 eexists. split; [reflexivity|]. eapply D2; [|exact Hu]. apply ibal_node_S. exact Hb'.
Qed.


Lemma view_node_found (t t' : itree) x pi cs :
  node_view x t' = node_view x t -> find x t = Some (INode pi cs) -> exists pi' cs', find x t' = Some (INode pi' cs').
Proof.
  unfold node_view. intros H Hf. rewrite Hf in H. destruct (find x t') as [[i nx es|pi' cs']|]; simpl in H; try discriminate.
  eauto.
Qed.

Lemma unwind_total order d fuel : 4 <= order -> forall o stk small right (t : itree) l fr tmx,
  length stk < fuel ->
  NoDup (ids t) -> stack_ok t fr stk -> bottom_ok (nid t) stk ->
  (stk = [] -> right = None) ->
  NoDup (nid t :: opt_list right ++ flat_map fkids stk) ->
  (forall x, right = Some x -> match stk with f :: _ => child_at t (fp f) (fidx f + 1) x | [] => True end) ->
  UQ order stk small t -> ibal d t ->
  Forall (fun f => exists pi cs, find (fp f) t = Some (INode pi cs)) stk ->
  exists out, unwind order fuel o stk small right t l fr tmx = Ok out.
Proof.
  intros Ho4. induction fuel as [|fuel IH]; intros o stk small right t l fr tmx Hfuel Hnd Hs Hb Hr Hheld Hright HQ Hbal Hfound;
    [lia|]. simpl.
  destruct stk as [|f rest]; [unfold mk; eauto|].
  destruct Hs as (S1 & S2 & S3 & S4 & S5).
  assert (Hlinks : links (f :: rest)) by (split; [exact S4 | eapply stack_ok_links; eauto]).
  assert (Hrest : NoDup (nid t :: opt_list None ++ flat_map fkids rest)).
  { eapply nodup_sub; [|exact Hheld]. intros x. simpl. rewrite !cnt_app. lia. }
  inversion Hfound as [|? ? [pi [cs Hf]] Hfound']; subst. simpl in Hfuel.
  destruct (negb small) eqn:Es.
  - destruct small; [discriminate|].
    eapply (IH o rest false None t); eauto; try lia.
    + eapply bottom_ok_tail; eauto.
    + intros x Hx; discriminate.
  - destruct small; [|discriminate].
    destruct HQ as (c & ct & Hfc & Hfct & Hsm & Ho).
    rewrite Hf.
    destruct ((fidx f + 1 <? length cs) && match right with None => true | Some _ => false end) eqn:Ec; [unfold mk; eauto|].
    destruct S3 as [c' [Hfc' Hca]]. assert (c' = c) by congruence. subst c'.
    destruct (irebalance_total order d f t pi cs c ct Ho4 Hnd Hf Hca Hfct Hsm Ho Hbal) as (t' & small' & Er & Hbal').
    rewrite Er. cbn [bind].
    set (Wf := fp f :: opt_list right ++ fkids f).
    destruct (irebalance_rel K V ltb True order f t t' small' pi cs Wf Hnd Er Hf) as (R1 & R2 & R3 & R4).
    + left. reflexivity.
    + intros k ch Hn.
      rewrite (child_at_nth K V _ _ _ _ _ _ _ _ Hca Hf Hn).
      unfold Wf, fkids. rewrite Hfc. right. rewrite !in_app_iff. right. right. simpl. auto.
    + intros k ch Hpos Hn. destruct (S2 Hpos) as [l0 [Hfl Hca0]].
      rewrite (child_at_nth K V _ _ _ _ _ _ _ _ Hca0 Hf Hn).
      unfold Wf, fkids. rewrite Hfl. right. rewrite !in_app_iff. right. left. simpl. auto.
    + intros k ch Hn.
      assert (Hlt : fidx f + 1 < length cs) by (apply nth_error_Some; congruence).
      apply Nat.ltb_lt in Hlt. rewrite Hlt in Ec. simpl in Ec.
      destruct right as [x|]; [|discriminate Ec].
      specialize (Hright x eq_refl). simpl in Hright.
      rewrite (child_at_nth K V _ _ _ _ _ _ _ _ Hright Hf Hn).
      unfold Wf. right. simpl. left. reflexivity.
    + destruct (irebalance_occ K V ltb order f t t' small' pi cs c ct Ho4 Hnd Er Hf Hca Hfct Hsm Ho) as [O1 O2].
      assert (Hnotin : forall g, In g rest -> ~ In (fp g) Wf).
      { apply rest_fp_notin with (root := nid t); auto. }
      eapply (IH o rest small' None t'); eauto; try lia.
      * eapply stack_ok_frm with (W := Wf) (fr := fr); eauto.
      * rewrite R4. eapply bottom_ok_tail; eauto.
      * rewrite R4. exact Hrest.
      * intros x Hx; discriminate.
      * unfold UQ. destruct small'; [|exact O1].
        destruct (O2 eq_refl) as (n' & N1 & N2 & N3).
        destruct rest as [|g rest'].
        -- unfold bottom_ok in Hb. simpl in Hb.
           assert (E : fp f = nid t') by (rewrite R4; exact Hb).
           rewrite E in O1, N1. rewrite find_root_self in N1. inversion N1; subst n'. split; assumption.
        -- simpl in S4. exists (fp f), n'. split; [exact S4|]. split; [exact N1|]. split; [|exact O1].
           apply N3. intros E.
           revert Hheld. rewrite cnt_nodup. intros Hh. specialize (Hh (nid t)). simpl in Hh.
           rewrite Nat.eqb_refl, !cnt_app in Hh.
           assert (Hin : In (nid t) (fkids g)).
           { unfold fkids. rewrite S4, in_app_iff. right. simpl. auto. }
           apply cnt_in in Hin. lia.
      * rewrite Forall_forall in Hfound'. apply Forall_forall. intros g Hg.
        destruct (Hfound' g Hg) as [pg [cg Hfg]].
        destruct (R2 (fp g) (Hnotin g Hg)) as [Ev|[X _]]; [|exfalso; apply X; exact I].
        eapply view_node_found; eauto.
Qed.

End Unwind.

Arguments ibal {K V}. Arguments iball {K V}.

(* C4_Proof.v — property C04 of the concurrent B+tree model: what a cursor (client operation [CScan k n]) exposes
   while other threads modify the tree.  For every reachable state (invariant [CurInv] = ASM_Proof.BigInv /\ cur_ok,
   proved inductive and hence true in every reachable state: CurInv_reachable) and every step that emits [EPair e]:
     B1  the pair is stored in the map the tree denotes at that moment;
     B2  the pairs yielded so far are strictly increasing by key and none is below the start key;
     B3  if a previous pair e0 exists, e is the stored entry with the smallest key greater than that of e0
         (each Scan step is an atomic successor query);
     B4  when the cursor reports the end of the scan, no stored entry has a key greater than the last pair;
     B5  first pair, when it comes from the leaf where NewScanner landed and k is not below that leaf's lower bound:
         e is the stored entry with the smallest key not below k.
   See the summary at the end of the file. *)
From Coq Require Import List Bool Lia PeanoNat Sorted Permutation.
From GB Require Import Model Spec Inv ListLemmas SearchProof TreeLemmas SearchScanProof Conc GI LockInv LockProof CInv CInv3
  CIDef EraseLemmas SoloBase SoloSearch GIa1_Ctx LINa_Lists LINa_Ctx LINa_Abs PCb1_Bounds PCb1_Proof
  Lin LinDef LINa_Prog LINa_Proof LINc_Proof PCc_Proof OCCc_Base OCCc_Crash ASM_Proof
  C4_Lists C4_Geom C4_Blocks C4_Inv.
Import ListNotations.

Section P.
Variables (K V : Type) (ltb : K -> K -> bool).
Hypothesis HS : SWO ltb.
Variable order : nat.
Hypothesis Heven : Nat.even order = true.
Hypothesis H4 : 4 <= order.
Notation itree := (itree K V).
Notation pc := (pc K V).
Notation cop := (cop K V).
Notation st := (st K V).
Notation out := (out K V).
Notation thread := (thread K V).
Notation event := (event K V).
Notation SS := (StronglySorted (fun a b => ltb a b = true)).
Notation irrefl := (irrefl K ltb HS).
Notation trans := (trans K ltb HS).
Notation asym := (asym K ltb HS).
Notation BigInv := (BigInv K V ltb order).
Notation cur_ok := (cur_ok ltb).

(* ------------------------------------------------------------------------------------------------ *)
(* the invariant of reachable states                                                                 *)
(* ------------------------------------------------------------------------------------------------ *)
Definition CurInv (s : st) : Prop := BigInv s /\ cur_ok s.

Let P2 := fun (s s' : st) me acq ev (B : ASM_Proof.Base K V ltb order s) (E : cstep ltb order s me = Stepped s' acq ev) =>
  pc_ok2_step K V ltb HS order s s' me acq ev Heven H4 B E.
Let P3 := fun (s s' : st) me acq ev (B : ASM_Proof.Base K V ltb order s) (E : cstep ltb order s me = Stepped s' acq ev) =>
  pc_ok3_step K V ltb HS order s s' me acq ev Heven H4 B E.

Theorem CurInv_init : forall progs, NoDup (map fst progs) -> CurInv (init_st progs).
Proof.
  intros progs Hnd. split.
  - apply (BigInv_init K V ltb order (all_pc_ok2_init K V) (all_pc_ok3_init K V ltb)). exact Hnd.
  - apply cur_ok_init.
Qed.

Theorem CurInv_step : forall s s' me acq ev,
  CurInv s -> cstep ltb order s me = Stepped s' acq ev -> CurInv s'.
Proof.
  intros s s' me acq ev [HB HC] Hc. split.
  - exact (BigInv_step K V ltb HS order Heven H4 P2 P3 s s' me acq ev HB Hc).
  - exact (cur_ok_step K V ltb HS order Heven H4 s s' me acq ev HB HC Hc).
Qed.

Lemma CurInv_exec : forall sched s, CurInv s -> CurInv (fst (exec ltb order s sched)).
Proof.
  induction sched as [|t r IH]; intros s HI; simpl; [exact HI|].
  destruct (cstep ltb order s t) as [ | | |s' acq ev|p] eqn:Hc; try exact HI.
  specialize (IH s' (CurInv_step _ _ _ _ _ HI Hc)).
  destruct (exec ltb order s' r) as [s'' h]. exact IH.
Qed.

Theorem CurInv_reachable : forall progs sched, NoDup (map fst progs) ->
  CurInv (fst (exec ltb order (init_st progs) sched)).
Proof. intros progs sched Hnd. apply CurInv_exec. apply CurInv_init. exact Hnd. Qed.

(* ------------------------------------------------------------------------------------------------ *)
(* the steps that expose a pair / report the end of the scan                                          *)
(* ------------------------------------------------------------------------------------------------ *)
(* the pairs a cursor has yielded so far, most recent first *)
Definition yielded (p : pc) : list (K * V) :=
  match p with CurRest _ _ _ acc | CurWantNext _ _ _ acc => acc | _ => [] end.

Inductive pair_step (s s' : st) (me : tid) (acq : option (option id)) (e : K * V) : Prop :=
| PS_same th th' leaf i n' acc j nx es :
    get_thread me (ths s) = Some th -> tpc th = CurRest leaf i (S n') acc ->
    Conc.find leaf (tr s) = Some (ILeaf j nx es) -> nth_error es i = Some e ->
    tr s' = tr s -> ths s' = set_thread me th' (ths s) -> tpc th' = CurRest leaf (S i) n' (e :: acc) ->
    acq = None -> pair_step s s' me acq e
| PS_hop th th' leaf nxt n acc j nx es' :
    get_thread me (ths s) = Some th -> tpc th = CurWantNext leaf nxt n acc ->
    Conc.find nxt (tr s) = Some (ILeaf j nx (e :: es')) -> holder nxt (lk s) = None ->
    tr s' = tr s -> ths s' = set_thread me th' (ths s) -> tpc th' = CurRest nxt 1 n (e :: acc) ->
    acq = Some (Some nxt) -> pair_step s s' me acq e.

Lemma not_scan_ev (ev : list event) x : existsb is_scan_ev ev = false -> In x ev -> is_scan_ev x = false.
Proof.
  intros H Hin. destruct (is_scan_ev x) eqn:E; [|reflexivity].
  assert (existsb is_scan_ev ev = true) by (apply existsb_exists; eauto). congruence.
Qed.

Lemma pair_step_inv (s s' : st) me acq ev e :
  cstep ltb order s me = Stepped s' acq ev -> In (EPair e) ev -> ev = [EPair e] /\ pair_step s s' me acq e.
Proof.
  intros Hc Hin.
  destruct (step_threads K V ltb order s s' me acq ev Hc) as (th & o & Hg & Htg & Hfree & Hblk & Es' & Hoth).
  assert (Eev : ev = oev o).
  { destruct (cstep_unpack K V ltb order s s' me acq ev Hc) as (th2 & o2 & Hg2 & Hb2 & _ & Eev).
    rewrite Hg in Hg2. inversion Hg2; subst th2. rewrite Hblk in Hb2. inversion Hb2; subst o2. exact Eev. }
  destruct (commit_ths K V s me th o) as (th' & Hths & Hpc').
  assert (Htr : tr s' = otr o) by (subst s'; reflexivity).
  rewrite <- Es' in Hths.
  destruct (blk_class K V ltb order s me th acq o Hblk)
    as [Hpl
       |o0 n k cnt j nx es i Hpc Ho Hf Hi Hopc Hotr Hoev
       |leaf i n' acc j nx es e1 Hpc Hf Hn Hopc Hotr Hoev
       |leaf i n' acc j x es Hpc Hf Hn Hopc Hotr Hoev
       |leaf i n' acc j es Hpc Hf Hn Hopc Hotr Hoev
       |leaf nxt n acc j nx e1 es' Hpc Hf Hopc Hotr Hoev].
  - exfalso. destruct Hpl as [_ Hpl]. rewrite Eev in Hin. pose proof (not_scan_ev _ _ Hpl Hin) as X. discriminate X.
  - rewrite Eev, Hoev in Hin. destruct Hin.
  - rewrite Eev, Hoev in Hin. destruct Hin as [X|[]]. inversion X; subst e1.
    split; [rewrite Eev; exact Hoev|]. rewrite Hpc in Htg. simpl in Htg. inversion Htg; subst acq.
    eapply PS_same; eauto; congruence.
  - rewrite Eev, Hoev in Hin. destruct Hin.
  - rewrite Eev, Hoev in Hin. destruct Hin as [X|[X|[]]]; discriminate X.
  - rewrite Eev, Hoev in Hin. destruct Hin as [X|[]]. inversion X; subst e1.
    split; [rewrite Eev; exact Hoev|]. rewrite Hpc in Htg. simpl in Htg. inversion Htg; subst acq.
    simpl in Hfree. destruct (holder nxt (lk s)) eqn:Eh; [discriminate Hfree|].
    eapply PS_hop; eauto; congruence.
Qed.

Inductive end_step (s : st) (me : tid) : list (K * V) -> list (K * V) -> Prop :=
| ES th leaf i n' acc j es :
    get_thread me (ths s) = Some th -> tpc th = CurRest leaf i (S n') acc ->
    Conc.find leaf (tr s) = Some (ILeaf j None es) -> nth_error es i = None -> end_step s me acc es.

Lemma end_step_inv (s s' : st) me acq ev :
  cstep ltb order s me = Stepped s' acq ev -> In EScanEnd ev ->
  exists acc es, end_step s me acc es /\ ev = [EScanEnd; EReturn (RPairs (rev acc))].
Proof.
  intros Hc Hin.
  destruct (step_threads K V ltb order s s' me acq ev Hc) as (th & o & Hg & Htg & Hfree & Hblk & Es' & Hoth).
  assert (Eev : ev = oev o).
  { destruct (cstep_unpack K V ltb order s s' me acq ev Hc) as (th2 & o2 & Hg2 & Hb2 & _ & Eev).
    rewrite Hg in Hg2. inversion Hg2; subst th2. rewrite Hblk in Hb2. inversion Hb2; subst o2. exact Eev. }
  destruct (blk_class K V ltb order s me th acq o Hblk)
    as [Hpl
       |o0 n k cnt j nx es i Hpc Ho Hf Hi Hopc Hotr Hoev
       |leaf i n' acc j nx es e1 Hpc Hf Hn Hopc Hotr Hoev
       |leaf i n' acc j x es Hpc Hf Hn Hopc Hotr Hoev
       |leaf i n' acc j es Hpc Hf Hn Hopc Hotr Hoev
       |leaf nxt n acc j nx e1 es' Hpc Hf Hopc Hotr Hoev];
    try (rewrite Eev, Hoev in Hin; simpl in Hin; repeat (destruct Hin as [Hin|Hin]; try discriminate Hin); tauto).
  - exfalso. destruct Hpl as [_ Hpl]. rewrite Eev in Hin. pose proof (not_scan_ev _ _ Hpl Hin) as X. discriminate X.
  - exists acc, es. split; [econstructor; eauto|]. rewrite Eev. exact Hoev.
Qed.

(* ------------------------------------------------------------------------------------------------ *)
(* the abstraction around a leaf that the stepping thread holds or acquires                           *)
(* ------------------------------------------------------------------------------------------------ *)
Lemma BI_ths_nodup s : BigInv s -> NoDup (map fst (ths s)).
Proof. intros HB. exact (proj1 (proj2 (BI_lock K V ltb order s HB))). Qed.

Lemma abs_in_ents (s : st) e : In e (abs ltb s) -> In e (ents (tr s)).
Proof. rewrite abs_eq. apply absP_In. Qed.

(* an entry of a leaf that [me] holds, or that nobody holds, is in the abstraction (not a placeholder) as long as
   [me] itself has no placeholder *)
Lemma stored_entry (s : st) me th x j nx es e :
  BigInv s -> get_thread me (ths s) = Some th -> ph (tpc th) = [] ->
  Conc.find x (tr s) = Some (ILeaf j nx es) -> In e es ->
  (holder x (lk s) = None \/ In (x, me) (lk s)) -> In e (abs ltb s).
Proof.
  intros HB Hg Hph Hf Hin Hx.
  destruct (abs_decomp K V ltb s me th (BI_ths_nodup s HB) Hg) as (PO & H1 & _ & H3).
  rewrite H1, Hph, absP_nil.
  destruct (leaf_at_intro K V ltb order s x j nx es (BI_GI K V ltb order s HB) Hf) as (-> & C & Hl).
  unfold absP. apply filter_In. split; [eapply ctx_in; eauto|].
  rewrite (surjective_pairing e). apply keepb_fresh.
  apply (others_fresh K V ltb HS order s me x (fst e) PO (BI_lock K V ltb order s HB) (BI_allpc K V ltb order s HB) H3 Hx).
  eapply ctx_far; eauto.
Qed.

(* a step of [me] between two pcs without placeholder that keeps the tree keeps the abstraction *)
Lemma abs_same (s s' : st) me th th' :
  BigInv s -> get_thread me (ths s) = Some th -> ph (tpc th) = [] -> ph (tpc th') = [] ->
  tr s' = tr s -> ths s' = set_thread me th' (ths s) -> abs ltb s' = abs ltb s.
Proof.
  intros HB Hg Hph Hph' Htr Hths.
  destruct (abs_decomp K V ltb s me th (BI_ths_nodup s HB) Hg) as (PO & H1 & H2 & _).
  rewrite H1, (H2 s' th' Hths), Hph, Hph', Htr. reflexivity.
Qed.

(* ------------------------------------------------------------------------------------------------ *)
(* B1: the pair is stored in the tree at the moment it is returned                                    *)
(* ------------------------------------------------------------------------------------------------ *)
Lemma pair_stored_before (s s' : st) me acq e :
  CurInv s -> pair_step s s' me acq e -> In e (abs ltb s) /\ abs ltb s' = abs ltb s.
Proof.
  intros [HB HC] [th th' leaf i n' acc j nx es Hg Hpc Hf Hn Htr Hths Hpc' Hacq
                 |th th' leaf nxt n acc j nx es' Hg Hpc Hf Hfree Htr Hths Hpc' Hacq].
  - split.
    + eapply (stored_entry s me th leaf); eauto; [rewrite Hpc; reflexivity|eapply nth_error_In; eauto|].
      right. eapply BI_holds; eauto. rewrite Hpc. simpl. auto.
    + eapply (abs_same s s' me th th'); eauto; [rewrite Hpc|rewrite Hpc']; reflexivity.
  - split.
    + eapply (stored_entry s me th nxt); eauto; [rewrite Hpc; reflexivity|simpl; auto].
    + eapply (abs_same s s' me th th'); eauto; [rewrite Hpc|rewrite Hpc']; reflexivity.
Qed.

Theorem B1_stored : forall s s' me acq ev e,
  CurInv s -> cstep ltb order s me = Stepped s' acq ev -> In (EPair e) ev -> In e (abs ltb s').
Proof.
  intros s s' me acq ev e HI Hc Hin. destruct (pair_step_inv s s' me acq ev e Hc Hin) as [_ Hps].
  destruct (pair_stored_before s s' me acq e HI Hps) as [H1 H2]. rewrite H2. exact H1.
Qed.

(* the step does not change the map *)
Theorem pair_step_abs : forall s s' me acq ev e,
  CurInv s -> cstep ltb order s me = Stepped s' acq ev -> In (EPair e) ev -> abs ltb s' = abs ltb s.
Proof.
  intros s s' me acq ev e HI Hc Hin. destruct (pair_step_inv s s' me acq ev e Hc Hin) as [_ Hps].
  exact (proj2 (pair_stored_before s s' me acq e HI Hps)).
Qed.

(* ------------------------------------------------------------------------------------------------ *)
(* B2: strictly increasing, and not below the start key                                              *)
(* ------------------------------------------------------------------------------------------------ *)
Theorem B2_increasing : forall s s' me acq ev e,
  CurInv s -> cstep ltb order s me = Stepped s' acq ev -> In (EPair e) ev ->
  exists th th' k cnt,
    get_thread me (ths s) = Some th /\ get_thread me (ths s') = Some th' /\
    hd_error (prog th) = Some (CScan k cnt) /\ prog th' = prog th /\
    is_cur (tpc th) = true /\ is_cur (tpc th') = true /\
    yielded (tpc th') = e :: yielded (tpc th) /\
    kdesc ltb (e :: yielded (tpc th)) /\
    Forall (fun x => ltb (fst x) k = false) (e :: yielded (tpc th)).
Proof.
  intros s s' me acq ev e HI Hc Hin. pose proof (CurInv_step _ _ _ _ _ HI Hc) as [HB' HC'].
  destruct HI as [HB HC]. destruct (pair_step_inv s s' me acq ev e Hc Hin) as [Eev Hps].
  destruct (step_threads K V ltb order s s' me acq ev Hc) as (th0 & o & Hg0 & _ & _ & Hblk & Es' & _).
  destruct (commit_me K V s me th0 o Hg0) as (th2 & Hg2 & Hpc2 & Hpr2). rewrite <- Es' in Hg2.
  assert (Eo : oev o = ev).
  { destruct (cstep_unpack K V ltb order s s' me acq ev Hc) as (th3 & o3 & Hg3 & Hb3 & _ & E3).
    rewrite Hg0 in Hg3. inversion Hg3; subst th3. rewrite Hblk in Hb3. inversion Hb3; subst o3. symmetry. exact E3. }
  rewrite Eo, Eev in Hpr2. cbn [returned existsb orb] in Hpr2.
  pose proof (HC' me th2 Hg2) as Hok'.
  assert (Hsame : forall th th' p', get_thread me (ths s) = Some th -> ths s' = set_thread me th' (ths s) -> tpc th' = p' ->
            th = th0 /\ tpc th2 = p').
  { intros th th' p' Hg Hths Hp'. rewrite Hg0 in Hg. inversion Hg; subst th. split; [reflexivity|].
    rewrite Hths in Hg2. erewrite get_set_same in Hg2 by exact Hg0. inversion Hg2; subst th2. exact Hp'. }
  destruct Hps as [th th' leaf i n' acc j nx es Hg Hpc Hf Hn Htr Hths Hpc' Hacq
                  |th th' leaf nxt n acc j nx es' Hg Hpc Hf Hfree Htr Hths Hpc' Hacq];
    destruct (Hsame th th' _ Hg Hths Hpc') as [-> Hp2]; rewrite Hp2 in Hok';
    destruct Hok' as (k & cnt & nx1 & es1 & Hpr & _ & (_ & Hd & Hk) & _);
    exists th0, th2, k, cnt; rewrite Hp2, Hpc; cbn [yielded is_cur];
    (split; [exact Hg0|]); (split; [exact Hg2|]); (split; [rewrite <- Hpr2; exact Hpr|]); auto 10.
Qed.

(* ------------------------------------------------------------------------------------------------ *)
(* B3: each Scan step after the first is an atomic successor query                                    *)
(* ------------------------------------------------------------------------------------------------ *)
Definition successor_in (M : list (K * V)) (e0 e : K * V) : Prop :=
  In e M /\ ltb (fst e0) (fst e) = true /\
  forall e', In e' M -> ltb (fst e0) (fst e') = true -> ltb (fst e') (fst e) = false.

Lemma successor_of_adjacent (s : st) (P Q : list (K * V)) e0 e :
  BigInv s -> ents (tr s) = P ++ e0 :: e :: Q -> In e (abs ltb s) -> successor_in (abs ltb s) e0 e.
Proof.
  intros HB Eents Hin.
  assert (Hss : SS (map fst (P ++ e0 :: e :: Q))).
  { rewrite <- Eents. apply (shape_entries_SS K V ltb HS order). apply GI_shape. apply (BI_GI K V ltb order). exact HB. }
  split; [exact Hin|]. split; [eapply SS_adjacent_lt; eauto|].
  intros e' He' Hlt. apply (SS_adjacent K V ltb HS P Q e0 e e' Hss); [|exact Hlt].
  rewrite <- Eents. apply abs_in_ents. exact He'.
Qed.

Lemma pair_successor (s s' : st) me acq e e0 rest th :
  CurInv s -> pair_step s s' me acq e -> get_thread me (ths s) = Some th -> yielded (tpc th) = e0 :: rest ->
  successor_in (abs ltb s) e0 e.
Proof.
  intros HI Hps Hg0 Hy. destruct (pair_stored_before s s' me acq e HI Hps) as [Hin _]. destruct HI as [HB HC].
  pose proof (HC me th Hg0) as Hok.
  destruct Hps as [th1 th' leaf i n' acc j nx es Hg Hpc Hf Hn Htr Hths Hpc' Hacq
                  |th1 th' leaf nxt n acc j nx es' Hg Hpc Hf Hfree Htr Hths Hpc' Hacq];
    rewrite Hg0 in Hg; inversion Hg; subst th1; rewrite Hpc in Hok, Hy; cbn [yielded] in Hy; subst acc;
    destruct Hok as (k & cnt & nx1 & es1 & Hpr & Hf1 & ((Hi & H0) & Hd & Hk) & _).
  - (* same leaf: e0 and e are adjacent entries of the held leaf *)
    rewrite Hf1 in Hf. inversion Hf; subst j nx1 es1.
    destruct (leaf_at_intro K V ltb order s leaf leaf nx es (BI_GI K V ltb order s HB) Hf1) as (_ & C & Hl).
    apply (successor_of_adjacent s (Lents C ++ firstn (i - 1) es) (skipn (S i) es ++ Rents C)); [exact HB| |exact Hin].
    rewrite (ctx_ents K V ltb order _ _ _ _ _ _ Hl). rewrite (split_two es i e0 e Hi H0 Hn) at 1.
    rewrite <- !app_assoc. reflexivity.
  - (* hop: e0 is the last entry of the held leaf, e the first entry of the leaf its next link names *)
    pose proof (BI_pcok K V ltb order s me th HB Hg0) as Hpk. rewrite Hpc in Hpk. simpl in Hpk. rewrite Hf1 in Hpk.
    destruct nx1 as [x|]; [|discriminate Hpk]. apply Nat.eqb_eq in Hpk. subst x.
    destruct (leaf_at_intro K V ltb order s leaf leaf (Some nxt) es1 (BI_GI K V ltb order s HB) Hf1) as (_ & C & Hl).
    destruct (ctx_next_ents K V ltb order C leaf nxt es1 (tr s) (fresh s) j nx (e :: es') Hl (BI_nodup K V ltb order s HB) Hf)
      as [Q EQ].
    apply (successor_of_adjacent s (Lents C ++ firstn (length es1 - 1) es1) (es' ++ Q)); [exact HB| |exact Hin].
    rewrite (ctx_ents K V ltb order _ _ _ _ _ _ Hl), EQ. rewrite (last_entry es1 e0 Hi H0) at 1.
    rewrite <- !app_assoc. reflexivity.
Qed.

Theorem B3_successor : forall s s' me acq ev e th e0 rest,
  CurInv s -> cstep ltb order s me = Stepped s' acq ev -> In (EPair e) ev ->
  get_thread me (ths s) = Some th -> yielded (tpc th) = e0 :: rest ->
  abs ltb s' = abs ltb s /\ successor_in (abs ltb s) e0 e.
Proof.
  intros s s' me acq ev e th e0 rest HI Hc Hin Hg Hy.
  destruct (pair_step_inv s s' me acq ev e Hc Hin) as [_ Hps]. split.
  - exact (proj2 (pair_stored_before s s' me acq e HI Hps)).
  - eapply pair_successor; eauto.
Qed.

(* ------------------------------------------------------------------------------------------------ *)
(* B4: end of scan                                                                                   *)
(* ------------------------------------------------------------------------------------------------ *)
(* with a previous pair e0: nothing stored has a key greater than that of e0 *)
Theorem B4_end_after : forall s s' me acq ev th e0 rest,
  CurInv s -> cstep ltb order s me = Stepped s' acq ev -> In EScanEnd ev ->
  get_thread me (ths s) = Some th -> yielded (tpc th) = e0 :: rest ->
  forall e', In e' (abs ltb s) -> ltb (fst e0) (fst e') = false.
Proof.
  intros s s' me acq ev th e0 rest [HB HC] Hc Hin Hg0 Hy e' He'.
  destruct (end_step_inv s s' me acq ev Hc Hin) as (acc & es & Hes & _).
  destruct Hes as [th1 leaf i n' acc j es Hg Hpc Hf Hn]. rewrite Hg0 in Hg. inversion Hg; subst th1.
  pose proof (HC me th Hg0) as Hok. rewrite Hpc in Hok, Hy. cbn [yielded] in Hy. subst acc.
  destruct Hok as (k & cnt & nx1 & es1 & Hpr & Hf1 & ((Hi & H0) & Hd & Hk) & _).
  rewrite Hf1 in Hf. inversion Hf; subst j nx1 es1.
  destruct (leaf_at_intro K V ltb order s leaf leaf None es (BI_GI K V ltb order s HB) Hf1) as (_ & C & Hl).
  destruct (split_last es i e0 Hi H0 Hn) as [Ees _].
  assert (Eents : ents (tr s) = (Lents C ++ firstn (i - 1) es) ++ [e0]).
  { rewrite (ctx_ents K V ltb order _ _ _ _ _ _ Hl), (ctx_last K V ltb order _ _ _ _ _ Hl), app_nil_r.
    rewrite Ees at 1. rewrite app_assoc. reflexivity. }
  apply (SS_last K V ltb HS (Lents C ++ firstn (i - 1) es) e0 e').
  - rewrite <- Eents. apply (shape_entries_SS K V ltb HS order). apply GI_shape. apply (BI_GI K V ltb order). exact HB.
  - rewrite <- Eents. apply abs_in_ents. exact He'.
Qed.

(* every leaf other than a leaf root has an entry *)
Lemma leaf_nonempty (s : st) x j nx (es : list (K * V)) :
  BigInv s -> Conc.find x (tr s) = Some (ILeaf j nx es) -> es = [] -> ents (tr s) = [].
Proof.
  intros HB Hf ->. destruct HB as (((_ & Hocc) & _) & Hsm & _).
  destruct (ne_nodes K V order s x _ H4 Hocc Hsm Hf) as [_ Hne].
  destruct (Nat.eq_dec x (nid (tr s))) as [->|Hx]; [|specialize (Hne Hx); simpl in Hne; lia].
  rewrite find_self in Hf. inversion Hf as [Et]. unfold ents. rewrite Et. reflexivity.
Qed.

(* without a previous pair: the held leaf is the last leaf of the tree and all of its entries are below k; hence
   everything stored is below k *)
Theorem B4_end_first : forall s s' me acq ev th,
  CurInv s -> cstep ltb order s me = Stepped s' acq ev -> In EScanEnd ev ->
  get_thread me (ths s) = Some th -> yielded (tpc th) = [] ->
  exists k cnt,
    hd_error (prog th) = Some (CScan k cnt) /\ forall e', In e' (abs ltb s) -> ltb (fst e') k = true.
Proof.
  intros s s' me acq ev th [HB HC] Hc Hin Hg0 Hy.
  destruct (end_step_inv s s' me acq ev Hc Hin) as (acc & es & Hes & _).
  destruct Hes as [th1 leaf i n' acc j es Hg Hpc Hf Hn]. rewrite Hg0 in Hg. inversion Hg; subst th1.
  pose proof (HC me th Hg0) as Hok. rewrite Hpc in Hok, Hy. cbn [yielded] in Hy. subst acc.
  destruct Hok as (k & cnt & nx1 & es1 & Hpr & Hf1 & ((Hlo & _) & _) & _).
  rewrite Hf1 in Hf. inversion Hf; subst j nx1 es1.
  destruct (leaf_at_intro K V ltb order s leaf leaf None es (BI_GI K V ltb order s HB) Hf1) as (_ & C & Hl).
  rewrite (firstn_past es i Hn) in Hlo.
  assert (Eents : ents (tr s) = Lents C ++ es).
  { rewrite (ctx_ents K V ltb order _ _ _ _ _ _ Hl), (ctx_last K V ltb order _ _ _ _ _ Hl), app_nil_r. reflexivity. }
  exists k, cnt. split; [exact Hpr|].
  intros e' He'. apply abs_in_ents in He'.
  destruct es as [|x es0].
  - rewrite (leaf_nonempty s leaf leaf None [] HB Hf1 eq_refl) in He'. destruct He'.
  - rewrite Eents in He'. apply in_app_or in He'.
    rewrite Forall_forall in Hlo. destruct He' as [He'|He']; [|auto].
    pose proof (ctx_left_below K V ltb HS order C leaf None (x :: es0) (tr s) (fresh s) x e' Hl (or_introl eq_refl) He') as H1.
    eapply trans; [exact H1|]. apply Hlo. simpl. auto.
Qed.

(* ------------------------------------------------------------------------------------------------ *)
(* B5: the first pair                                                                                *)
(* ------------------------------------------------------------------------------------------------ *)
(* entries to the left of a leaf are below the leaf's lower bound *)
Lemma left_below_lo C x nx es (t : itree) fr e' :
  leaf_at ltb order C x nx es t fr -> below_lo ltb (fst e') x t = false -> In e' (Lents C) -> False.
Proof.
  intros Hl Hlo Hin.
  assert (Hge : ge_lo ltb (fst e') (fst (cbounds C)) = true).
  { unfold below_lo in Hlo. destruct Hl as (Et & Hw & _). rewrite Et in Hlo.
    change x with (nid (ILeaf x nx es)) in Hlo at 1. rewrite (bounds_plug_self K V C _ _ Hw) in Hlo.
    destruct (cbounds C) as [[l|] hi]; simpl in *; [rewrite Hlo|]; reflexivity. }
  destruct Hl as (Et & Hw & Hsh).
  pose proof (ctx_left K V ltb HS order C (ILeaf x nx es) (fst e') ltac:(rewrite <- Et; exact Hsh) Hge) as HL.
  rewrite Forall_forall in HL. specialize (HL e' Hin). rewrite irrefl in HL. discriminate.
Qed.

Lemma below_lo_mono k k' x (t : itree) :
  below_lo ltb k x t = false -> ltb k' k = false -> below_lo ltb k' x t = false.
Proof.
  unfold below_lo. destruct (bounds x t) as [[[l|] hi]|]; auto. intros H1 H2.
  exact (negtrans K ltb HS _ _ _ H2 H1).
Qed.

(* the first pair, read from the leaf where NewScanner landed: it is the stored entry with the smallest key not
   below k among the entries that are not below the lower bound of that leaf *)
Theorem B5_first_same_leaf : forall s s' me acq ev e th leaf i n' k cnt,
  CurInv s -> cstep ltb order s me = Stepped s' acq ev -> In (EPair e) ev ->
  get_thread me (ths s) = Some th -> tpc th = CurRest leaf i (S n') [] ->
  hd_error (prog th) = Some (CScan k cnt) ->
  In e (abs ltb s) /\ ltb (fst e) k = false /\
  forall e', In e' (abs ltb s) -> ltb (fst e') k = false -> below_lo ltb (fst e') leaf (tr s) = false ->
    ltb (fst e') (fst e) = false.
Proof.
  intros s s' me acq ev e th leaf i n' k cnt HI Hc Hin Hg0 Hpc0 Hpr0.
  destruct (pair_step_inv s s' me acq ev e Hc Hin) as [_ Hps].
  destruct (pair_stored_before s s' me acq e HI Hps) as [Hine _]. destruct HI as [HB HC].
  pose proof (HC me th Hg0) as Hok. rewrite Hpc0 in Hok.
  destruct Hok as (k1 & cnt1 & nx1 & es1 & Hpr & Hf1 & ((Hbel & Habv) & _) & _).
  rewrite Hpr0 in Hpr. inversion Hpr; subst k1 cnt1.
  destruct Hps as [th1 th1' leaf1 i1 n1 acc j nx es Hg Hpc Hf Hn Htr Hths Hpc' Hacq
                  |th1 th1' leaf1 nxt n acc j nx es' Hg Hpc Hf Hfree Htr Hths Hpc' Hacq];
    rewrite Hg0 in Hg; inversion Hg; subst th1; rewrite Hpc0 in Hpc; [|discriminate Hpc].
  inversion Hpc; subst leaf1 i1 n1 acc. rewrite Hf1 in Hf. inversion Hf; subst j nx1 es1.
  split; [exact Hine|].
  assert (Hek : ltb (fst e) k = false).
  { rewrite Forall_forall in Habv. apply Habv. apply (nth_error_In _ 0). rewrite nth_error_skipn, Nat.add_0_r. exact Hn. }
  split; [exact Hek|]. intros e' He' Hk' Hlo'.
  destruct (leaf_at_intro K V ltb order s leaf leaf nx es (BI_GI K V ltb order s HB) Hf1) as (_ & C & Hl).
  apply abs_in_ents in He'. rewrite (ctx_ents K V ltb order _ _ _ _ _ _ Hl) in He'.
  destruct (nth_error_split' es i e Hn) as [Ees _].
  apply in_app_or in He'. destruct He' as [He'|He'].
  - exfalso. eapply left_below_lo; eauto.
  - apply in_app_or in He'. destruct He' as [He'|He'].
    + rewrite Ees in He'. apply in_app_or in He'. destruct He' as [He'|[<-|He']].
      * exfalso. rewrite Forall_forall in Hbel. rewrite (Hbel e' He') in Hk'. discriminate.
      * apply irrefl.
      * apply asym.
        apply In_nth_error in He'. destruct He' as [m Hm]. rewrite nth_error_skipn in Hm.
        apply (asc_nth_lt K V ltb HS es i (S i + m) e e'); [eapply BI_leaf_asc; eauto|exact Hn|exact Hm|lia].
    + apply asym. eapply (ctx_right_above K V ltb HS order); eauto. eapply nth_error_In; eauto.
Qed.

(* first pair through a hop: all entries of the landing leaf are below k, the pair is the first entry of the next leaf *)
Theorem B5_first_hop : forall s s' me acq ev e th leaf nxt n k cnt,
  CurInv s -> cstep ltb order s me = Stepped s' acq ev -> In (EPair e) ev ->
  get_thread me (ths s) = Some th -> tpc th = CurWantNext leaf nxt n [] ->
  hd_error (prog th) = Some (CScan k cnt) ->
  In e (abs ltb s) /\ ltb (fst e) k = false /\
  forall e', In e' (abs ltb s) -> ltb (fst e') k = false -> below_lo ltb (fst e') leaf (tr s) = false ->
    ltb (fst e') (fst e) = false.
Proof.
  intros s s' me acq ev e th leaf nxt n k cnt HI Hc Hin Hg0 Hpc0 Hpr0.
  destruct (pair_step_inv s s' me acq ev e Hc Hin) as [_ Hps].
  destruct (pair_stored_before s s' me acq e HI Hps) as [Hine _]. destruct HI as [HB HC].
  pose proof (HC me th Hg0) as Hok. rewrite Hpc0 in Hok.
  destruct Hok as (k1 & cnt1 & nx1 & esL & Hpr & Hf1 & ((Hbel & _) & _) & Hhi).
  rewrite Hpr0 in Hpr. inversion Hpr; subst k1 cnt1. rewrite firstn_all in Hbel. specialize (Hhi eq_refl).
  destruct Hps as [th1 th1' leaf1 i1 n1 acc j nx es Hg Hpc Hf Hn Htr Hths Hpc' Hacq
                  |th1 th1' leaf1 nxt1 n1 acc j nx es' Hg Hpc Hf Hfree Htr Hths Hpc' Hacq];
    rewrite Hg0 in Hg; inversion Hg; subst th1; rewrite Hpc0 in Hpc; [discriminate Hpc|].
  inversion Hpc; subst leaf1 nxt1 n1 acc.
  pose proof (BI_pcok K V ltb order s me th HB Hg0) as Hpk. rewrite Hpc0 in Hpk. simpl in Hpk. rewrite Hf1 in Hpk.
  destruct nx1 as [x|]; [|discriminate Hpk]. apply Nat.eqb_eq in Hpk. subst x.
  destruct (leaf_at_intro K V ltb order s leaf leaf (Some nxt) esL (BI_GI K V ltb order s HB) Hf1) as (_ & C & Hl).
  destruct (ctx_next_ents K V ltb order C leaf nxt esL (tr s) (fresh s) j nx (e :: es') Hl (BI_nodup K V ltb order s HB) Hf)
    as [Q EQ].
  pose proof (ctx_right_of K V ltb HS order C leaf (Some nxt) esL (tr s) (fresh s) k Hl Hhi) as HR.
  assert (Hek : ltb (fst e) k = false).
  { apply asym. rewrite Forall_forall in HR. apply HR. rewrite EQ. simpl. auto. }
  split; [exact Hine|]. split; [exact Hek|]. intros e' He' Hk' Hlo'.
  apply abs_in_ents in He'. rewrite (ctx_ents K V ltb order _ _ _ _ _ _ Hl) in He'.
  pose proof (ctx_SS K V ltb HS order _ _ _ _ _ _ Hl) as Hss. rewrite EQ in Hss, He'.
  apply in_app_or in He'. destruct He' as [He'|He'].
  - exfalso. eapply left_below_lo; eauto.
  - apply in_app_or in He'. destruct He' as [He'|He'].
    + exfalso. rewrite Forall_forall in Hbel. rewrite (Hbel e' He') in Hk'. discriminate.
    + simpl in He'. destruct He' as [<-|He']; [apply irrefl|]. apply asym.
      rewrite app_assoc in Hss. cbn [app] in Hss. eapply SS_after; eauto.
Qed.

(* the leaf a cursor pc holds *)
Definition cur_leaf (p : pc) : option id :=
  match p with CurRest leaf _ _ _ | CurWantNext leaf _ _ _ => Some leaf | _ => None end.

(* B5, general form (both cases): the first pair is the stored entry with the smallest key not below k among the
   stored entries whose key is not below the lower bound of the leaf where NewScanner landed *)
Theorem B5_first_general : forall s s' me acq ev e th leaf k cnt,
  CurInv s -> cstep ltb order s me = Stepped s' acq ev -> In (EPair e) ev ->
  get_thread me (ths s) = Some th -> cur_leaf (tpc th) = Some leaf -> yielded (tpc th) = [] ->
  hd_error (prog th) = Some (CScan k cnt) ->
  In e (abs ltb s) /\ ltb (fst e) k = false /\
  forall e', In e' (abs ltb s) -> ltb (fst e') k = false -> below_lo ltb (fst e') leaf (tr s) = false ->
    ltb (fst e') (fst e) = false.
Proof.
  intros s s' me acq ev e th leaf k cnt HI Hc Hin Hg Hleaf Hy Hpr.
  destruct (pair_step_inv s s' me acq ev e Hc Hin) as [_ Hps].
  destruct Hps as [th1 th1' leaf1 i1 n1 acc j nx es Hg1 Hpc Hf Hn Htr Hths Hpc' Hacq
                  |th1 th1' leaf1 nxt1 n1 acc j nx es' Hg1 Hpc Hf Hfree Htr Hths Hpc' Hacq];
    rewrite Hg in Hg1; inversion Hg1; subst th1; rewrite Hpc in Hleaf, Hy; simpl in Hleaf, Hy; inversion Hleaf; subst leaf1 acc.
  - eapply B5_first_same_leaf; eauto.
  - eapply B5_first_hop; eauto.
Qed.

(* B5: if k is not below the lower bound of the landing leaf (NewScanner was not routed by clamping), the first pair
   is the stored entry with the smallest key not below k *)
Theorem B5_first : forall s s' me acq ev e th leaf k cnt,
  CurInv s -> cstep ltb order s me = Stepped s' acq ev -> In (EPair e) ev ->
  get_thread me (ths s) = Some th -> cur_leaf (tpc th) = Some leaf -> yielded (tpc th) = [] ->
  hd_error (prog th) = Some (CScan k cnt) -> below_lo ltb k leaf (tr s) = false ->
  In e (abs ltb s) /\ ltb (fst e) k = false /\
  forall e', In e' (abs ltb s) -> ltb (fst e') k = false -> ltb (fst e') (fst e) = false.
Proof.
  intros s s' me acq ev e th leaf k cnt HI Hc Hin Hg Hleaf Hy Hpr Hlo.
  destruct (B5_first_general s s' me acq ev e th leaf k cnt HI Hc Hin Hg Hleaf Hy Hpr) as (H1 & H2 & H3).
  split; [exact H1|]. split; [exact H2|]. intros e' He' Hk'. apply H3; auto. eapply below_lo_mono; eauto.
Qed.

(* ------------------------------------------------------------------------------------------------ *)
(* steps seen from a thread that is and stays a cursor                                               *)
(* ------------------------------------------------------------------------------------------------ *)
Lemma cur_own_inv (s s' : st) me acq ev th th' :
  cstep ltb order s me = Stepped s' acq ev ->
  get_thread me (ths s) = Some th -> is_cur (tpc th) = true ->
  get_thread me (ths s') = Some th' -> is_cur (tpc th') = true ->
  tr s' = tr s /\ prog th' = prog th /\
  ((ev = [] /\ yielded (tpc th') = yielded (tpc th) /\ cur_leaf (tpc th') = cur_leaf (tpc th)) \/
   (exists e, ev = [EPair e] /\ yielded (tpc th') = e :: yielded (tpc th))).
Proof.
  intros Hc Hg Hcur Hg' Hcur'.
  destruct (step_threads K V ltb order s s' me acq ev Hc) as (th0 & o & Hg0 & Htg & Hfree & Hblk & Es' & Hoth).
  rewrite Hg in Hg0. inversion Hg0; subst th0.
  assert (Eev : ev = oev o).
  { destruct (cstep_unpack K V ltb order s s' me acq ev Hc) as (th2 & o2 & Hg2 & Hb2 & _ & Eev).
    rewrite Hg in Hg2. inversion Hg2; subst th2. rewrite Hblk in Hb2. inversion Hb2; subst o2. exact Eev. }
  destruct (commit_me K V s me th o Hg) as (th2 & Hg2 & Hpc2 & Hpr2). rewrite <- Es' in Hg2.
  rewrite Hg' in Hg2. inversion Hg2; subst th2.
  assert (Htr : tr s' = otr o) by (subst s'; reflexivity).
  rewrite <- Eev in Hpr2.
  destruct (blk_class K V ltb order s me th acq o Hblk)
    as [Hpl
       |o0 n k cnt j nx es i Hpc Ho Hf Hi Hopc Hotr Hoev
       |leaf i n' acc j nx es e1 Hpc Hf Hn Hopc Hotr Hoev
       |leaf i n' acc j x es Hpc Hf Hn Hopc Hotr Hoev
       |leaf i n' acc j es Hpc Hf Hn Hopc Hotr Hoev
       |leaf nxt n acc j nx e1 es' Hpc Hf Hopc Hotr Hoev].
  - exfalso. destruct Hpl as [Hpl _]. rewrite <- Hpc2, Hcur' in Hpl. discriminate.
  - exfalso. destruct Hpc as [Hpc|[p Hpc]]; rewrite Hpc in Hcur; discriminate.
  - rewrite Eev, Hoev in *. cbn [returned existsb orb] in Hpr2. split; [congruence|]. split; [exact Hpr2|]. right.
    exists e1. split; [reflexivity|]. rewrite Hpc2, Hopc, Hpc. reflexivity.
  - rewrite Eev, Hoev in *. cbn [returned existsb orb] in Hpr2. split; [congruence|]. split; [exact Hpr2|]. left.
    split; [reflexivity|]. rewrite Hpc2, Hopc, Hpc. split; reflexivity.
  - exfalso. rewrite Hpc2, Hopc in Hcur'. discriminate.
  - rewrite Eev, Hoev in *. cbn [returned existsb orb] in Hpr2. split; [congruence|]. split; [exact Hpr2|]. right.
    exists e1. split; [reflexivity|]. rewrite Hpc2, Hopc, Hpc. reflexivity.
Qed.

(* the lower bound of the leaf a cursor holds does not move while the cursor stays in that leaf *)
Theorem cursor_lo_stable : forall s s' t acq ev me th th' leaf k,
  CurInv s -> cstep ltb order s t = Stepped s' acq ev ->
  get_thread me (ths s) = Some th -> get_thread me (ths s') = Some th' ->
  cur_leaf (tpc th) = Some leaf -> cur_leaf (tpc th') = Some leaf ->
  below_lo ltb k leaf (tr s') = below_lo ltb k leaf (tr s).
Proof.
  intros s s' t acq ev me th th' leaf k [HB HC] Hc Hg Hg' Hl Hl'.
  destruct (Nat.eq_dec me t) as [->|Hne].
  - assert (Hcur : is_cur (tpc th) = true) by (destruct (tpc th); try discriminate Hl; reflexivity).
    assert (Hcur' : is_cur (tpc th') = true) by (destruct (tpc th'); try discriminate Hl'; reflexivity).
    destruct (cur_own_inv s s' t acq ev th th' Hc Hg Hcur Hg' Hcur') as (-> & _). reflexivity.
  - assert (Hin : In leaf (pc_nodes (tpc th))).
    { destruct (tpc th); try discriminate Hl; simpl in Hl |- *; inversion Hl; auto. }
    assert (Hid : In leaf (ids (tr s))).
    { pose proof (HC me th Hg) as Hok.
      destruct (tpc th); try discriminate Hl; simpl in Hl, Hok; inversion Hl; subst;
        destruct Hok as (k1 & cnt1 & nx1 & es1 & _ & Hf & _); eapply UpdLemmas.find_in_ids; eauto. }
    apply (other_below_lo K V ltb order s s' t acq ev me th Heven H4 (BI_base K V ltb order s HB) Hc Hne Hg k leaf Hin Hid).
Qed.

End P.

Arguments CurInv {K V} ltb order s.
Arguments yielded {K V} p.
Arguments successor_in {K V} ltb M e0 e.
Arguments cur_leaf {K V} p.

Check CurInv_reachable.
Check cur_ok_init.
Check cur_ok_step.
Check B1_stored.
Check B2_increasing.
Check B3_successor.
Check B4_end_after.
Check B4_end_first.
Check B5_first_same_leaf.
Check B5_first_hop.
Check B5_first_general.
Check B5_first.
Check cursor_lo_stable.
Print Assumptions CurInv_reachable.
Print Assumptions B1_stored.
Print Assumptions B2_increasing.
Print Assumptions B3_successor.
Print Assumptions B4_end_after.
Print Assumptions B4_end_first.
Print Assumptions B5_first_general.
Print Assumptions B5_first.
Print Assumptions cursor_lo_stable.

(* SUMMARY (agent C4).  Everything in C4_Lists.v, C4_Geom.v, C4_Blocks.v, C4_Inv.v, C4_Proof.v, C4_Trace.v, C4_Final.v is
   proved; no axioms, nothing admitted (every Print Assumptions: "Closed under the global context").
   Compile order: C4_Lists, C4_Geom, C4_Blocks, C4_Inv, C4_Proof, C4_Trace, C4_Final (C4_Demo: a vm_compute run).

   (A) C4_Inv.v.  With k the start key of the scan (hd_error (prog th) = Some (CScan k cnt)):
         pos_ok k es i acc :=
           (match acc with
            | []      => Forall (fun e => ltb (fst e) k = true) (firstn i es) /\
                         Forall (fun e => ltb (fst e) k = false) (skipn i es)
            | e0 :: _ => 0 < i /\ nth_error es (i - 1) = Some e0 end) /\
           kdesc ltb acc /\ Forall (fun e => ltb (fst e) k = false) acc
         cur_at t pr leaf i acc := exists k cnt nx es,
           hd_error pr = Some (CScan k cnt) /\ find leaf t = Some (ILeaf leaf nx es) /\
           pos_ok k es (match i with Some i => i | None => length es end) acc /\
           (acc = [] -> below_hi ltb k leaf t = true)
         cur_pc_ok t pr p := match p with CurRest leaf i _ acc => cur_at t pr leaf (Some i) acc
                                        | CurWantNext leaf _ _ acc => cur_at t pr leaf None acc | _ => True end
         cur_ok s := forall t th, get_thread t (ths s) = Some th -> cur_pc_ok (tr s) (prog th) (tpc th)
       (kdesc ltb acc := StronglySorted (fun a b => ltb (fst b) (fst a) = true) acc.)
       NOTE: unlike the sketch in the task, the clause [acc = [] -> below_hi k leaf] IS needed: it is what makes the
       first pair of a scan whose landing leaf holds only keys below k (first pair read after a hop) not below k.
       cur_ok_init, cur_ok_step (BigInv s -> cur_ok s -> cstep .. = Stepped s' .. -> cur_ok s').
       CurInv s := BigInv s /\ cur_ok s;  CurInv_init, CurInv_step, CurInv_reachable (C4_Proof.v).
   (B) for CurInv s and a step cstep ltb order s me = Stepped s' acq ev:
       B1_stored      In (EPair e) ev -> In e (abs ltb s')                  (+ pair_step_abs: abs s' = abs s)
       B2_increasing  In (EPair e) ev -> the new pc's yielded list is e :: (old yielded list), it is kdesc, and no key
                      in it is below k
       B3_successor   In (EPair e) ev -> yielded (tpc th) = e0 :: rest -> abs s' = abs s /\ successor_in (abs s) e0 e
                      (same-leaf and hop cases; successor_in M e0 e := In e M /\ e0 < e /\ nothing of M in between)
       B4_end_after   In EScanEnd ev -> yielded = e0 :: rest -> no entry of abs s has a key above that of e0
       B4_end_first   In EScanEnd ev -> yielded = [] -> every entry of abs s has its key below k
       B5_first_general / B5_first (same-leaf and hop): the first pair e is in abs s, not below k, and no stored e'
                      with key not below k AND not below the lower bound of the landing leaf is below e; if k itself is
                      not below that lower bound (below_lo k leaf (tr s) = false) e is the least stored entry >= k.
       cursor_lo_stable: below_lo k leaf is unchanged by every step while the cursor stays in that leaf.
   (C) C4_Trace.v: scan_covers, scan_complete: a pair stored in every state of a run during which thread me keeps
       scanning, and covered at its start (above the last pair yielded; or nothing yielded, key not below k and k not
       below the landing leaf's lower bound), is in the list the scan returns when it reports EScanEnd.
   C4_Final.v: the same for reachable states (premises SWO ltb, even order, 4 <= order, NoDup thread ids only).

   WHAT REMAINS (not required by the task): the FIRST pair of a scan whose NewScanner descent was routed by clamping
   (k below the lower bound of the landing leaf: below_lo k leaf (tr s) = true).  B5_first_general says exactly what is
   proved there (minimality among stored entries not below the leaf's lower bound).  Unconditional minimality
       forall e', In e' (abs ltb s) -> ltb (fst e') k = false -> ltb (fst e') (fst e) = false
   needs "every entry left of the landing leaf is below k", which the present invariants do not give when clamped.
   No counterexample is known; the statement is expected to be true, by the following argument that needs two NEW
   global invariants: (i) sep_exact: every internal non-root node c has lower bound = its own first separator, except
   while an Insert/Update that has just lowered c's separator in the parent holds c (pc InsWantChild o c _ 0); every
   block that writes a separator of an internal child uses ismallest, so this is preserved; with it a descent clamps
   only from the root, i.e. along the leftmost path; (ii) a held node on the leftmost path stays on it (splits create
   right siblings only, the leftmost node has no left sibling to merge into).  Then clamped => landing leaf is the
   leftmost leaf => nothing is left of it. *)

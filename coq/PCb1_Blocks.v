(* PCb1_Blocks.v — the new program counter produced by each atomic block of Conc.v is consistent (pc_ok_b of
   CInv.v) with the tree the block leaves behind. *)
From Coq Require Import List Permutation Lia Bool PeanoNat.
From GB Require Import Model Inv ListLemmas SearchProof InvProof SearchScanProof TreeLemmas Conc GI CInv
  Frame LockProof UpdLemmas FrameRel FrameInv FrameBlocks EraseLemmas EraseOps PCb1_Bounds.
Import ListNotations.

Section Blocks.
Variables (K V : Type) (ltb : K -> K -> bool).
Hypothesis HS : SWO ltb.
Notation itree := (itree K V).
Notation pc := (pc K V).
Notation st := (st K V).
Notation out := (out K V).
Notation cframe := (cframe K V).

Lemma eqvb_refl k : eqvb ltb k k = true.
Proof. unfold eqvb. rewrite (swo_irrefl HS). reflexivity. Qed.

Lemma div2_lt n : 1 <= n -> Nat.div2 n < n.
Proof. intros H. apply Nat.lt_div2. lia. Qed.

Lemma ins_nth_length {A} i (x : A) l : i <= length l -> length (ins_nth i x l) = S (length l).
Proof.
  intros H. unfold ins_nth. rewrite app_length. simpl. rewrite firstn_length, skipn_length. lia.
Qed.

Lemma nth_ins_nth {A} i (x : A) l : i <= length l -> nth_error (ins_nth i x l) i = Some x.
Proof.
  intros H. unfold ins_nth. rewrite nth_error_app2 by (rewrite firstn_length; lia).
  rewrite firstn_length. replace (i - Nat.min i (length l)) with 0 by lia. reflexivity.
Qed.

(* ---- Insert/Update: the descent block ---- *)
Lemma ins_descend_pc order o n (t : itree) l fr tmx (out : out) nd :
  ins_descend ltb o n t l fr tmx = Ok out -> NoDup (ids t) ->
  find n t = Some nd -> icount nd < order -> in_range ltb (key_of o) n t = true ->
  pc_ok_b ltb order (otr out) (opc out) = true.
Proof.
  intros H Hnd Hf Hc Hr. unfold ins_descend, mk in H. rewrite Hf in H.
  destruct nd as [i nx es|pi cs]; simpl in Hc.
  - assert (Hlt : (length es <? order) = true) by (apply Nat.ltb_lt; exact Hc).
    assert (Hupd : forall index v' t', get_nth index es = Ok v' ->
              upd n (fun _ => Ok (ILeaf i nx (ins_nth index (key_of o, snd v') es))) t = Ok t' ->
              pc_ok_b ltb order t' (UpdCallback o n 2 index) = true).
    { intros index v' t' Hg Hu. apply get_nth_Ok in Hg.
      assert (Hil : index <= length es) by (apply Nat.lt_le_incl; apply nth_error_Some; congruence).
      destruct (upd_self_facts K V n t t' _ (ILeaf i nx (ins_nth index (key_of o, snd v') es)) Hnd Hf) as (F1 & F2 & _);
        [apply (find_nid' K V) in Hf; exact Hf | exact Hu |].
      unfold pc_ok_b. rewrite F1. unfold in_range in *. rewrite F2.
      destruct (bounds n t) as [[lo hi]|]; [|discriminate Hr]. rewrite Hr. simpl.
      rewrite ins_nth_length by exact Hil. rewrite nth_ins_nth by exact Hil. rewrite eqvb_refl.
      rewrite andb_true_r. apply Nat.leb_le. lia. }
    destruct o as [k v|k f|k|k|k cnt];
      crunch H; inversion H; subst; clear H; cbn [otr opc]; try reflexivity.
    all: try (eapply Hupd; eauto; fail).
    all: unfold pc_ok_b; rewrite Hf, Hr; cbn [andb key_of] in *.
    all: try (rewrite Hlt; rewrite ?E, ?E0; simpl; auto; fail).
    all: try (match goal with Hg : get_nth ?j ?ees = Ok _ |- _ => apply get_nth_Ok in Hg; rewrite Hg; assumption end).
  - crunch H. inversion H; subst; clear H; cbn [otr opc].
    unfold pc_ok_b. rewrite Hf, Hr, E. simpl. rewrite Nat.eqb_refl.
    apply get_nth_Ok in E0. rewrite E0. rewrite Nat.eqb_refl.
    assert (Hlt : (length cs <? order) = true) by (apply Nat.ltb_lt; exact Hc). rewrite Hlt. reflexivity.
Qed.

(* ---- Search / Scan: the descent block ---- *)
Lemma nth_existsb (cs : list (K * itree)) j k c :
  nth_error cs j = Some (k, c) -> existsb (fun e => nid (snd e) =? nid c) cs = true.
Proof.
  intros H. apply existsb_exists. exists (k, c). split; [eapply nth_error_In; eauto|]. simpl. apply Nat.eqb_refl.
Qed.

Lemma sea_descend_pc order o n (t : itree) l fr tmx (out : out) :
  sea_descend ltb o n t l fr tmx = Ok out -> pc_ok_b ltb order (otr out) (opc out) = true.
Proof.
  intros H. unfold sea_descend, mk in H.
  destruct (find n t) as [[i nx es|pi cs]|] eqn:Hf; [| |discriminate H].
  - destruct o as [k v|k f|k|k|k cnt]; crunch H; inversion H; subst; clear H; cbn [otr opc]; try reflexivity.
    unfold pc_ok_b. rewrite Hf. reflexivity.
  - crunch H. inversion H; subst; clear H; cbn [otr opc].
    unfold pc_ok_b. rewrite Hf. apply get_nth_Ok in E0. eapply nth_existsb; eauto.
Qed.

(* ---- Delete: entering an internal node ---- *)
Definition left_pos_b (p : pc) : bool :=
  match p with DelWantLeft _ (f :: _) => 0 <? fidx f | _ => true end.

Lemma search_le_lt key (cs : list (K * itree)) index :
  asc ltb (map fst cs) -> cs <> [] -> search_le ltb key (map fst cs) = Ok index -> index < length cs.
Proof.
  intros Ha Hne Hs. destruct (search_le_split K ltb HS key cs Ha Hne) as (j & pre & s & c & post & E1 & E2 & E3 & _).
  rewrite Hs in E1. inversion E1; subst j. subst cs. rewrite app_length. simpl. lia.
Qed.

Lemma node_asc x (t : itree) i cs :
  ordered ltb (erase_ids t) -> find x t = Some (INode i cs) -> asc ltb (map fst cs).
Proof.
  intros Ho Hf. pose proof (find_ordered K V ltb x t _ Ho Hf) as H. rewrite erase_node in H.
  destruct H as [H _]. rewrite erase_cs_fst in H. exact H.
Qed.

Lemma del_descend_pc order o stk n (t : itree) p d :
  del_descend ltb o stk n t = Ok p ->
  ordered ltb (erase_ids t) -> bal d (erase_ids t) ->
  frames_ok_b t stk = true ->
  match stk with [] => nid t = n | g :: _ => fc g = Some n end ->
  pc_ok_b ltb order t p = true /\ left_pos_b p = true.
Proof.
  intros H Ho Hb Hfr Hl. unfold del_descend in H.
  destruct (find n t) as [[i nx es|pi cs]|] eqn:Hf; try discriminate H.
  destruct (search_le ltb (key_of o) (map fst cs)) as [index|] eqn:Es; [cbn [bind] in H|discriminate H].
  assert (Hlt : index < length cs).
  { eapply search_le_lt; eauto; [eapply node_asc; eauto | eapply find_node_nonempty; eauto]. }
  assert (Hfo : frames_ok_b t ({| fp := n; fidx := index; fl := None; fc := None |} :: stk) = true).
  { cbn [frames_ok_b fp fidx fl fc]. rewrite Hf. apply Nat.ltb_lt in Hlt. rewrite Hlt, Hfr. simpl.
    rewrite andb_true_r. destruct stk as [|g rest]; [apply Nat.eqb_eq; exact Hl | rewrite Hl; apply Nat.eqb_refl]. }
  inversion H; subst p; clear H. destruct (0 <? index) eqn:E0; simpl; auto.
Qed.

(* ---- frames_ok_b depends only on the views of the frames' nodes ---- *)
Lemma ptrs_facts (cs cs' : list (K * itree)) : ptrs cs' = ptrs cs ->
  length cs' = length cs /\
  forall j x, match nth_error cs' j with Some (_, c) => nid c =? x | None => false end =
              match nth_error cs j with Some (_, c) => nid c =? x | None => false end.
Proof.
  intros H. split.
  - unfold ptrs in H. rewrite <- (map_length (fun c => (fst c, nid (snd c))) cs'), H. apply map_length.
  - intros j x. assert (Hj : nth_error (ptrs cs') j = nth_error (ptrs cs) j) by (rewrite H; reflexivity).
    unfold ptrs in Hj. rewrite !nth_error_map' in Hj.
    destruct (nth_error cs' j) as [[k1 c1]|]; destruct (nth_error cs j) as [[k2 c2]|]; simpl in Hj; try discriminate; auto.
    inversion Hj. reflexivity.
Qed.

Lemma view_node (t t' : itree) y i cs :
  node_view y t' = node_view y t -> find y t = Some (INode i cs) ->
  exists i' cs', find y t' = Some (INode i' cs') /\ ptrs cs' = ptrs cs.
Proof.
  unfold node_view. intros H Hf. rewrite Hf in H. simpl in H.
  destruct (find y t') as [[i' nx es|i' cs']|]; simpl in H; try discriminate H.
  inversion H. exists i', cs'. auto.
Qed.

Lemma frames_ok_view (t t' : itree) stk :
  nid t' = nid t -> (forall g, In g stk -> node_view (fp g) t' = node_view (fp g) t) ->
  frames_ok_b t stk = true -> frames_ok_b t' stk = true.
Proof.
  intros Hn. induction stk as [|f rest IH]; intros Hv H; [reflexivity|].
  cbn [frames_ok_b] in *.
  destruct (find (fp f) t) as [[i nx es|i cs]|] eqn:Hf; try discriminate H.
  destruct (view_node t t' (fp f) i cs (Hv f (or_introl eq_refl)) Hf) as (i' & cs' & Hf' & Hp).
  rewrite Hf'. destruct (ptrs_facts cs cs' Hp) as [Hlen Hk]. rewrite Hlen.
  destruct (fl f) as [xl|]; destruct (fc f) as [xc|]; rewrite ?(Hk (fidx f - 1)), ?(Hk (fidx f)); rewrite Hn.
  all: apply andb_prop in H; destruct H as [H1 H2]; rewrite H1; simpl.
  all: apply IH; [|exact H2]; intros g Hg; apply Hv; right; exact Hg.
Qed.

Lemma frames_ok_tail (t : itree) f rest : frames_ok_b t (f :: rest) = true -> frames_ok_b t rest = true.
Proof.
  cbn [frames_ok_b]. destruct (find (fp f) t) as [[i nx es|i cs]|]; try discriminate.
  intros H. apply andb_prop in H. tauto.
Qed.

(* ---- the "too small" flags ---- *)
Lemma leaf_delete_small m k (es es' : list (K * V)) :
  leaf_delete ltb m k es = Ok (es', true) -> length es' < m.
Proof.
  unfold leaf_delete. intros H. crunch H; inversion H; subst; clear H.
  apply Nat.ltb_lt. assumption.
Qed.

Lemma irebalance_small order f (t t' : itree) pi cs :
  irebalance order f t = Ok (t', true) -> find (fp f) t = Some (INode pi cs) ->
  exists cs', upd (fp f) (fun _ => Ok (INode pi cs')) t = Ok t' /\ length cs' < Nat.div2 order.
Proof.
  intros H Hf. unfold irebalance in H. rewrite Hf in H.
  destruct (get_nth (fidx f) cs) as [[k1 child]|] eqn:Eg; [cbn [bind] in H | discriminate H].
  cbv zeta in H.
  match type of H with bind ?e _ = _ => destruct e as [[cs' sm]|] eqn:Ecs; [cbn [bind] in H|discriminate H] end.
  destruct (upd (fp f) (fun _ => Ok (INode pi cs')) t) as [t1|] eqn:Eu; [cbn [bind] in H|discriminate H].
  inversion H; subst t1 sm; clear H.
  exists cs'. split; [exact Eu|].
  crunch Ecs; inversion Ecs; subst; clear Ecs; apply Nat.ltb_lt; assumption.
Qed.

Definition small_kid (order : nat) (t : itree) (f : frame) : bool :=
  match fc f with
  | Some c => match find c t with Some ct => icount ct <? Nat.div2 order | None => false end
  | None => false end.

Lemma pc_ok_right order (t : itree) o f rest :
  frames_ok_b t (f :: rest) = true -> small_kid order t f = true ->
  pc_ok_b ltb order t (DelWantRight o (f :: rest)) = true.
Proof. intros H1 H2. unfold pc_ok_b. rewrite H1. exact H2. Qed.

(* ---- Delete: the return through the activations ---- *)
Lemma unwind_pc order fuel : forall o stk small right (t : itree) l fr tmx (out : out),
  unwind order fuel o stk small right t l fr tmx = Ok out ->
  NoDup (ids t) -> stack_ok t fr stk -> bottom_ok (nid t) stk ->
  (stk = [] -> right = None) ->
  NoDup (nid t :: opt_list right ++ flat_map fkids stk) ->
  (forall x, right = Some x -> match stk with f :: _ => child_at t (fp f) (fidx f + 1) x | [] => True end) ->
  frames_ok_b t stk = true ->
  (small = true -> match stk with f :: _ => small_kid order t f = true | [] => True end) ->
  pc_ok_b ltb order (otr out) (opc out) = true.
Proof.
  induction fuel as [|fuel IH]; intros o stk small right t l fr tmx out H Hnd Hs Hb Hr Hheld Hright Hfo Hsm;
    simpl in H; [discriminate|].
  destruct stk as [|f rest].
  - unfold mk in H. inversion H; subst; clear H. reflexivity.
  - destruct Hs as (S1 & S2 & S3 & S4 & S5).
    assert (Hlinks : links (f :: rest)) by (split; [exact S4 | eapply stack_ok_links; eauto]).
    assert (Hrest : NoDup (nid t :: opt_list None ++ flat_map fkids rest)).
    { eapply nodup_sub; [|exact Hheld]. intros x. simpl. rewrite !cnt_app. lia. }
    destruct (negb small) eqn:Es.
    + eapply (IH o rest false None t); eauto.
      * eapply bottom_ok_tail; eauto.
      * intros x Hx. discriminate Hx.
      * eapply frames_ok_tail; eauto.
      * discriminate.
    + apply negb_false_iff in Es. subst small. specialize (Hsm eq_refl).
      destruct (find (fp f) t) as [[i nx es|pi cs]|] eqn:Hf; try discriminate H.
      destruct ((fidx f + 1 <? length cs) && match right with None => true | Some _ => false end) eqn:Ec.
      * unfold mk in H. inversion H; subst; clear H. cbn [otr opc]. apply pc_ok_right; assumption.
      * destruct (irebalance order f t) as [[t' small']|] eqn:Er; [cbn [bind] in H|discriminate H].
        set (Wf := fp f :: opt_list right ++ fkids f).
        destruct (irebalance_rel K V ltb True order f t t' small' pi cs Wf Hnd Er Hf) as (R1 & R2 & R3 & R4).
        -- left. reflexivity.
        -- intros k ch Hn. destruct S3 as [c [Hfc Hca]].
           rewrite (child_at_nth K V _ _ _ _ _ _ _ _ Hca Hf Hn).
           unfold Wf, fkids. rewrite Hfc. right. rewrite !in_app_iff. right. right. simpl. auto.
        -- intros k ch Hpos Hn. destruct (S2 Hpos) as [l0 [Hfl Hca]].
           rewrite (child_at_nth K V _ _ _ _ _ _ _ _ Hca Hf Hn).
           unfold Wf, fkids. rewrite Hfl. right. rewrite !in_app_iff. right. left. simpl. auto.
        -- intros k ch Hn.
           assert (Hlt : fidx f + 1 < length cs) by (apply nth_error_Some; congruence).
           apply Nat.ltb_lt in Hlt. rewrite Hlt in Ec. simpl in Ec.
           destruct right as [x|]; [|discriminate Ec].
           specialize (Hright x eq_refl). simpl in Hright.
           rewrite (child_at_nth K V _ _ _ _ _ _ _ _ Hright Hf Hn).
           unfold Wf. right. simpl. left. reflexivity.
        -- assert (Hnotin : forall g, In g rest -> ~ In (fp g) Wf).
           { apply rest_fp_notin with (root := nid t); auto. }
           eapply (IH o rest small' None t'); eauto.
           ++ eapply stack_ok_frm with (W := Wf) (fr := fr); eauto.
           ++ rewrite R4. eapply bottom_ok_tail; eauto.
           ++ rewrite R4. exact Hrest.
           ++ intros x Hx. discriminate Hx.
           ++ eapply frames_ok_view; [exact R4| |eapply frames_ok_tail; eauto].
              intros g Hg. destruct (R2 (fp g) (Hnotin g Hg)) as [E|[E _]]; [exact E|tauto].
           ++ intros ->. destruct rest as [|g rest']; [exact I|].
              simpl in S4. unfold small_kid. rewrite S4.
              destruct (irebalance_small order f t t' pi cs Er Hf) as (cs' & Hu & Hlen).
              destruct (upd_self_facts K V (fp f) t t' _ (INode pi cs') Hnd Hf) as (F1 & _);
                [apply (find_nid' K V) in Hf; exact Hf | exact Hu |].
              rewrite F1. simpl. apply Nat.ltb_lt. exact Hlen.
Qed.

(* ---- Insert/Update: splits ---- *)
Lemma isplit_facts order s (t l r : itree) : 1 <= order -> isplit order s t = Some (l, r) ->
  nid l = nid t /\ nid r = s /\ icount l < order /\ icount r < order.
Proof.
  unfold isplit. destruct (icount t <? order); [discriminate|].
  pose proof (div2_lt order) as Hd.
  destruct t; intros Ho H; inversion H; subst; simpl; rewrite !firstn_length; repeat split; lia.
Qed.

Lemma isplit_none_count order s (t : itree) : isplit order s t = None -> icount t < order.
Proof.
  unfold isplit. destruct (icount t <? order) eqn:E; [intros _; apply Nat.ltb_lt; exact E|].
  destruct t; discriminate.
Qed.

Lemma plug1_eq i (pre : list (K * itree)) s (c : itree) post (C : list cframe) :
  plug C (INode i (pre ++ (s, c) :: post)) = plug (mkcf i pre s post :: C) c.
Proof. reflexivity. Qed.

(* the key range of the child of p at the position chosen by search_le, with the (possibly lowered) separator *)
Lemma child_range (o : cop K V) p (cs pre post : list (K * itree)) sep sep' child index (t : itree) (C : list cframe) lo hi :
  ordered ltb (erase_ids t) -> find p t = Some (INode p cs) ->
  cs = pre ++ (sep, child) :: post -> length pre = index ->
  search_le ltb (key_of o) (map fst cs) = Ok index ->
  ge_lo ltb (key_of o) lo && lt_hi ltb (key_of o) hi = true ->
  (if index =? 0 then sm <- ismallest child ;; Ok (if ltb (key_of o) sm then key_of o else sep) else Ok sep) = Ok sep' ->
  ltb (key_of o) sep' = false /\ lt_hi ltb (key_of o) (next_hi hi post) = true.
Proof.
  intros Hord Hfp Ecs Hlen Hs H4 Hsep. set (key := key_of o) in *.
  assert (Hasc : asc ltb (map fst cs)) by (eapply node_asc; eauto).
  assert (Hne : cs <> []) by (subst cs; destruct pre; discriminate).
  destruct (search_le_split K ltb HS key cs Hasc Hne) as (j & pre' & s' & c' & post' & E1 & E2 & E3 & _ & Hpost & Hidx).
  rewrite Hs in E1. inversion E1; subst j. clear E1.
  rewrite Ecs in E2. destruct (app_eq_len pre pre' _ _ post post' E2) as (<- & E4 & <-); [lia|].
  inversion E4; subst s' c'. clear E4 E2.
  apply andb_prop in H4. destruct H4 as [Hlo Hhi].
  split.
  - destruct (index =? 0) eqn:E0.
    + destruct (ismallest child) as [sm|] eqn:Esm; [cbn [bind] in Hsep|discriminate Hsep].
      destruct (ltb key sm) eqn:Eks; inversion Hsep; subst sep'; [apply (swo_irrefl HS)|].
      assert (Hle : ltb sm sep = false).
      { pose proof (find_ordered K V ltb p t _ Hord Hfp) as Ho. rewrite erase_node in Ho.
        destruct Ho as (_ & Hseps & _). rewrite Ecs, erase_cs_app, erase_cs_cons in Hseps.
        apply seps_ok_suffix in Hseps. rewrite seps_ok_cons in Hseps. destruct Hseps as [Hall _].
        rewrite Forall_forall in Hall. apply (Hall sm). apply smallest_in. rewrite ismallest_erase. exact Esm. }
      eapply (swo_negtrans HS); eauto.
    + inversion Hsep; subst sep'. apply Hidx. apply Nat.eqb_neq in E0. lia.
  - destruct post as [|[s2 c2] post2]; simpl; [exact Hhi|]. inversion Hpost; subst. assumption.
Qed.

(* F6: child_range for the NEW separator choice (sep' = key if index = 0 and key < sep, else sep) *)
Lemma child_range_f6 (o : cop K V) p (cs pre post : list (K * itree)) sep sep' child index (t : itree) (C : list cframe) lo hi :
  ordered ltb (erase_ids t) -> find p t = Some (INode p cs) ->
  cs = pre ++ (sep, child) :: post -> length pre = index ->
  search_le ltb (key_of o) (map fst cs) = Ok index ->
  ge_lo ltb (key_of o) lo && lt_hi ltb (key_of o) hi = true ->
  (if index =? 0 then (if ltb (key_of o) sep then key_of o else sep) else sep) = sep' ->
  ltb (key_of o) sep' = false /\ lt_hi ltb (key_of o) (next_hi hi post) = true.
Proof.
  intros Hord Hfp Ecs Hlen Hs H4 Hsep. set (key := key_of o) in *.
  assert (Hasc : asc ltb (map fst cs)) by (eapply node_asc; eauto).
  assert (Hne : cs <> []) by (subst cs; destruct pre; discriminate).
  destruct (search_le_split K ltb HS key cs Hasc Hne) as (j & pre' & s' & c' & post' & E1 & E2 & E3 & _ & Hpost & Hidx).
  rewrite Hs in E1. inversion E1; subst j. clear E1.
  rewrite Ecs in E2. destruct (app_eq_len pre pre' _ _ post post' E2) as (<- & E4 & <-); [lia|].
  inversion E4; subst s' c'. clear E4 E2.
  apply andb_prop in H4. destruct H4 as [Hlo Hhi].
  split.
  - destruct (index =? 0) eqn:E0.
    + destruct (ltb key sep) eqn:Eks; subst sep'; [apply (swo_irrefl HS)|exact Eks].
    + subst sep'. apply Hidx. apply Nat.eqb_neq in E0. lia.
  - destruct post as [|[s2 c2] post2]; simpl; [exact Hhi|]. inversion Hpost; subst. assumption.
Qed.

Lemma find_plug_x (C : list cframe) (sub : itree) x :
  NoDup (ids sub ++ ctx_ids C) -> nid sub = x -> find x (plug C sub) = Some sub.
Proof. intros H <-. apply find_plug_nid. exact H. Qed.

Lemma in_range_plug key (C : list cframe) (sub : itree) x lo hi :
  NoDup (ids sub ++ ctx_ids C) -> nid sub = x -> ctx_bounds None None C = (lo, hi) ->
  ge_lo ltb key lo = true -> lt_hi ltb key hi = true -> in_range ltb key x (plug C sub) = true.
Proof.
  intros H Hx Hb H1 H2. unfold in_range, bounds. rewrite <- Hx, (bounds_plug_nid K V C sub None None H), Hb, H1, H2.
  reflexivity.
Qed.

Lemma ins_child_pc order o p c index (t : itree) l l1 fr tm0 (out : out) :
  1 <= order ->
  NoDup (ids t) -> ~ In fr (ids t) -> ordered ltb (erase_ids t) ->
  pc_ok_b ltb order t (InsWantChild o p c index) = true ->
  match find p t, find c t with
  | Some (INode pi cs), Some child =>
    '(sep, _) <- get_nth index cs ;;
    sep' <- (if index =? 0 then sm <- ismallest child ;; Ok (if ltb (key_of o) sm then key_of o else sep) else Ok sep) ;;
    match isplit order fr child with
    | None =>
      t' <- upd p (fun _ => Ok (INode pi (set_nth index (sep', child) cs))) t ;;
      ins_descend ltb o c t' l1 fr tm0
    | Some (lft, rgt) =>
      rs <- ismallest rgt ;;
      t' <- upd p (fun _ => Ok (INode pi (ins_nth (index + 1) (rs, rgt) (set_nth index (sep', lft) cs)))) t ;;
      if ltb (key_of o) rs then ins_descend ltb o c t' l1 (S fr) tm0
      else mk t' l (S fr) tm0 (InsWantSplitRight o p c fr) []
    end
  | _, _ => Panic PIndex end = Ok out ->
  pc_ok_b ltb order (otr out) (opc out) = true.
Proof.
  intros Ho Hnd Hfr Hord Hok H. set (key := key_of o) in *.
  unfold pc_ok_b in Hok.
  destruct (find p t) as [[?|pi cs]|] eqn:Hfp; try discriminate Hok.
  apply andb_prop in Hok; destruct Hok as [Hok H4]. apply andb_prop in Hok; destruct Hok as [Hok H3].
  apply andb_prop in Hok; destruct Hok as [H1 H2].
  destruct (nth_error cs index) as [[sep ch]|] eqn:Hn; [|discriminate H3]. apply Nat.eqb_eq in H3.
  fold key in H2, H4.
  destruct (search_le ltb key (map fst cs)) as [j|] eqn:Hs; [|discriminate H2]. simpl in H2. apply Nat.eqb_eq in H2. subst j.
  apply Nat.ltb_lt in H1.
  destruct (find c t) as [child|] eqn:Hfc; [|discriminate H].
  assert (child = ch).
  { pose proof (find_child K V p pi cs sep ch t Hnd Hfp (nth_error_In _ _ Hn)) as Hf2. rewrite H3 in Hf2. congruence. }
  subst ch.
  unfold get_nth in H. rewrite Hn in H. cbn [bind] in H.
  destruct (find_ctx_nodup K V p t _ Hnd Hfp) as (C & Et & HC & Hpi). simpl in Hpi. subst pi.
  destruct (nth_error_split cs index Hn) as (pre & post & Ecs & Hlen).
  assert (Hbp : bounds p t = Some (ctx_bounds None None C)).
  { rewrite Et. unfold bounds. apply (bounds_plug_nid K V C (INode p cs)). exact HC. }
  unfold in_range in H4. rewrite Hbp in H4. destruct (ctx_bounds None None C) as [lo hi] eqn:Ecb.
  match type of H with bind ?e _ = _ => destruct e as [sep'|] eqn:Hsep; [cbn [bind] in H|discriminate H] end.
  destruct (child_range o p cs pre post sep sep' child index t C lo hi Hord Hfp Ecs Hlen Hs H4 Hsep) as [Hlo' Hhi'].
  fold key in Hlo', Hhi'.
  assert (Hge : ge_lo ltb key (Some sep') = true) by (simpl; rewrite Hlo'; reflexivity).
  destruct (isplit order fr child) as [[lft rgt]|] eqn:Hsp.
  - (* the child is split *)
    destruct (isplit_facts order fr child lft rgt Ho Hsp) as (N1 & N2 & N3 & N4).
    destruct (ismallest rgt) as [rs|] eqn:Ers; [cbn [bind] in H|discriminate H].
    match type of H with bind ?e _ = _ => destruct e as [t'|] eqn:Hu; [cbn [bind] in H|discriminate H] end.
    destruct (ins_split_rel K V ltb False order [p; nid child; fr] p p cs index sep sep' rs child lft rgt fr t t'
                Hnd Hfp Hn Hsp Hu Hfr) as (_ & _ & Hnd' & _); try (simpl; tauto).
    assert (Et' : t' = plug C (INode p (pre ++ (sep', lft) :: (rs, rgt) :: post))).
    { pose proof (upd_plug_nid K V C (INode p cs)
                    (INode p (ins_nth (index + 1) (rs, rgt) (set_nth index (sep', lft) cs))) HC) as Hu2.
      simpl nid in Hu2. rewrite <- Et in Hu2. rewrite Hu2 in Hu. inversion Hu; subst t'.
      rewrite Ecs. rewrite <- Hlen. rewrite set_nth_app, UpdLemmas.ins_nth_app1. reflexivity. }
    destruct (ltb key rs) eqn:Ekr.
    + (* into the left half *)
      rewrite plug1_eq in Et'.
      assert (HC' : NoDup (ids lft ++ ctx_ids (mkcf p pre sep' ((rs, rgt) :: post) :: C))).
      { apply plug_nodup. rewrite <- Et'. exact Hnd'. }
      eapply ins_descend_pc with (nd := lft); [exact H | exact Hnd' | | exact N3 |].
      * rewrite Et'. apply find_plug_x; [exact HC' | congruence].
      * rewrite Et'. eapply in_range_plug; [exact HC' | congruence | simpl; rewrite ?Ecb; reflexivity | exact Hge | exact Ekr].
    + (* the right half must be locked *)
      unfold mk in H. inversion H; subst out; clear H. cbn [otr opc].
      assert (HCp : NoDup (ids (INode p (pre ++ (sep', lft) :: (rs, rgt) :: post)) ++ ctx_ids C)).
      { apply plug_nodup. rewrite <- Et'. exact Hnd'. }
      assert (Et2 : t' = plug (mkcf p (pre ++ [(sep', lft)]) rs post :: C) rgt).
      { rewrite Et'. rewrite <- plug1_eq. rewrite <- app_assoc. reflexivity. }
      assert (HC2 : NoDup (ids rgt ++ ctx_ids (mkcf p (pre ++ [(sep', lft)]) rs post :: C))).
      { apply plug_nodup. rewrite <- Et2. exact Hnd'. }
      unfold pc_ok_b.
      assert (F1 : find p t' = Some (INode p (pre ++ (sep', lft) :: (rs, rgt) :: post))).
      { rewrite Et'. apply (find_plug_nid K V C (INode p (pre ++ (sep', lft) :: (rs, rgt) :: post))). exact HCp. }
      assert (F2 : find fr t' = Some rgt).
      { rewrite Et2. apply find_plug_x; [exact HC2 | exact N2]. }
      rewrite F1, F2.
      assert (R : in_range ltb key fr t' = true).
      { rewrite Et2. eapply in_range_plug; [exact HC2 | exact N2 | simpl; rewrite ?Ecb; reflexivity | | exact Hhi'].
        simpl. rewrite Ekr. reflexivity. }
      fold key. rewrite R. apply Nat.ltb_lt in N4. rewrite N4. simpl.
      apply andb_true_intro. split; apply existsb_exists.
      * exists (sep', lft). split; [apply in_elt|]. simpl. apply Nat.eqb_eq. congruence.
      * exists (rs, rgt). split; [apply in_or_app; right; right; left; reflexivity|]. simpl. apply Nat.eqb_eq. exact N2.
  - (* no split *)
    match type of H with bind ?e _ = _ => destruct e as [t'|] eqn:Hu; [cbn [bind] in H|discriminate H] end.
    destruct (ins_nosplit_rel K V True [p] p p cs index sep sep' child t t' Hnd Hfp Hn Hu) as (_ & _ & Hnd' & _);
      [simpl; auto|].
    assert (Et' : t' = plug (mkcf p pre sep' post :: C) child).
    { pose proof (upd_plug_nid K V C (INode p cs) (INode p (set_nth index (sep', child) cs)) HC) as Hu2.
      simpl nid in Hu2. rewrite <- Et in Hu2. rewrite Hu2 in Hu. inversion Hu; subst t'.
      rewrite Ecs. rewrite <- Hlen. rewrite set_nth_app. reflexivity. }
    assert (HC' : NoDup (ids child ++ ctx_ids (mkcf p pre sep' post :: C))).
    { apply plug_nodup. rewrite <- Et'. exact Hnd'. }
    eapply ins_descend_pc with (nd := child); [exact H | exact Hnd' | | eapply isplit_none_count; eauto |].
    + rewrite Et'. apply find_plug_x; [exact HC' | exact H3].
    + rewrite Et'. eapply in_range_plug; [exact HC' | exact H3 | simpl; rewrite ?Ecb; reflexivity | exact Hge | exact Hhi'].
Qed.

(* F6: ins_child_pc for the NEW separator choice; the match is convertible with the InsWantChild case of blk. *)
Lemma ins_child_pc_f6 order o p c index (t : itree) l l1 fr tm0 (out : out) :
  1 <= order ->
  NoDup (ids t) -> ~ In fr (ids t) -> ordered ltb (erase_ids t) ->
  pc_ok_b ltb order t (InsWantChild o p c index) = true ->
  match find p t, find c t with
  | Some (INode pi cs), Some child =>
    '(sep, _) <- get_nth index cs ;;
    sep' <- Ok (if index =? 0 then (if ltb (key_of o) sep then key_of o else sep) else sep) ;;
    match isplit order fr child with
    | None =>
      t' <- upd p (fun _ => Ok (INode pi (set_nth index (sep', child) cs))) t ;;
      ins_descend ltb o c t' l1 fr tm0
    | Some (lft, rgt) =>
      rs <- ismallest rgt ;;
      t' <- upd p (fun _ => Ok (INode pi (ins_nth (index + 1) (rs, rgt) (set_nth index (sep', lft) cs)))) t ;;
      if ltb (key_of o) rs then ins_descend ltb o c t' l1 (S fr) tm0
      else mk t' l (S fr) tm0 (InsWantSplitRight o p c fr) []
    end
  | _, _ => Panic PIndex end = Ok out ->
  pc_ok_b ltb order (otr out) (opc out) = true.
Proof.
  intros Ho Hnd Hfr Hord Hok H. set (key := key_of o) in *.
  unfold pc_ok_b in Hok.
  destruct (find p t) as [[?|pi cs]|] eqn:Hfp; try discriminate Hok.
  apply andb_prop in Hok; destruct Hok as [Hok H4]. apply andb_prop in Hok; destruct Hok as [Hok H3].
  apply andb_prop in Hok; destruct Hok as [H1 H2].
  destruct (nth_error cs index) as [[sep ch]|] eqn:Hn; [|discriminate H3]. apply Nat.eqb_eq in H3.
  fold key in H2, H4.
  destruct (search_le ltb key (map fst cs)) as [j|] eqn:Hs; [|discriminate H2]. simpl in H2. apply Nat.eqb_eq in H2. subst j.
  apply Nat.ltb_lt in H1.
  destruct (find c t) as [child|] eqn:Hfc; [|discriminate H].
  assert (child = ch).
  { pose proof (find_child K V p pi cs sep ch t Hnd Hfp (nth_error_In _ _ Hn)) as Hf2. rewrite H3 in Hf2. congruence. }
  subst ch.
  unfold get_nth in H. rewrite Hn in H. cbn [bind] in H.
  destruct (find_ctx_nodup K V p t _ Hnd Hfp) as (C & Et & HC & Hpi). simpl in Hpi. subst pi.
  destruct (nth_error_split cs index Hn) as (pre & post & Ecs & Hlen).
  assert (Hbp : bounds p t = Some (ctx_bounds None None C)).
  { rewrite Et. unfold bounds. apply (bounds_plug_nid K V C (INode p cs)). exact HC. }
  unfold in_range in H4. rewrite Hbp in H4. destruct (ctx_bounds None None C) as [lo hi] eqn:Ecb.
  cbn [bind] in H.
  remember (if index =? 0 then (if ltb key sep then key else sep) else sep) as sep' eqn:Hsep.
  symmetry in Hsep.
  destruct (child_range_f6 o p cs pre post sep sep' child index t C lo hi Hord Hfp Ecs Hlen Hs H4 Hsep) as [Hlo' Hhi'].
  fold key in Hlo', Hhi'.
  assert (Hge : ge_lo ltb key (Some sep') = true) by (simpl; rewrite Hlo'; reflexivity).
  destruct (isplit order fr child) as [[lft rgt]|] eqn:Hsp.
  - (* the child is split *)
    destruct (isplit_facts order fr child lft rgt Ho Hsp) as (N1 & N2 & N3 & N4).
    destruct (ismallest rgt) as [rs|] eqn:Ers; [cbn [bind] in H|discriminate H].
    match type of H with bind ?e _ = _ => destruct e as [t'|] eqn:Hu; [cbn [bind] in H|discriminate H] end.
    destruct (ins_split_rel K V ltb False order [p; nid child; fr] p p cs index sep sep' rs child lft rgt fr t t'
                Hnd Hfp Hn Hsp Hu Hfr) as (_ & _ & Hnd' & _); try (simpl; tauto).
    assert (Et' : t' = plug C (INode p (pre ++ (sep', lft) :: (rs, rgt) :: post))).
    { pose proof (upd_plug_nid K V C (INode p cs)
                    (INode p (ins_nth (index + 1) (rs, rgt) (set_nth index (sep', lft) cs))) HC) as Hu2.
      simpl nid in Hu2. rewrite <- Et in Hu2. rewrite Hu2 in Hu. inversion Hu; subst t'.
      rewrite Ecs. rewrite <- Hlen. rewrite set_nth_app, UpdLemmas.ins_nth_app1. reflexivity. }
    destruct (ltb key rs) eqn:Ekr.
    + (* into the left half *)
      rewrite plug1_eq in Et'.
      assert (HC' : NoDup (ids lft ++ ctx_ids (mkcf p pre sep' ((rs, rgt) :: post) :: C))).
      { apply plug_nodup. rewrite <- Et'. exact Hnd'. }
      eapply ins_descend_pc with (nd := lft); [exact H | exact Hnd' | | exact N3 |].
      * rewrite Et'. apply find_plug_x; [exact HC' | congruence].
      * rewrite Et'. eapply in_range_plug; [exact HC' | congruence | simpl; rewrite ?Ecb; reflexivity | exact Hge | exact Ekr].
    + (* the right half must be locked *)
      unfold mk in H. inversion H; subst out; clear H. cbn [otr opc].
      assert (HCp : NoDup (ids (INode p (pre ++ (sep', lft) :: (rs, rgt) :: post)) ++ ctx_ids C)).
      { apply plug_nodup. rewrite <- Et'. exact Hnd'. }
      assert (Et2 : t' = plug (mkcf p (pre ++ [(sep', lft)]) rs post :: C) rgt).
      { rewrite Et'. rewrite <- plug1_eq. rewrite <- app_assoc. reflexivity. }
      assert (HC2 : NoDup (ids rgt ++ ctx_ids (mkcf p (pre ++ [(sep', lft)]) rs post :: C))).
      { apply plug_nodup. rewrite <- Et2. exact Hnd'. }
      unfold pc_ok_b.
      assert (F1 : find p t' = Some (INode p (pre ++ (sep', lft) :: (rs, rgt) :: post))).
      { rewrite Et'. apply (find_plug_nid K V C (INode p (pre ++ (sep', lft) :: (rs, rgt) :: post))). exact HCp. }
      assert (F2 : find fr t' = Some rgt).
      { rewrite Et2. apply find_plug_x; [exact HC2 | exact N2]. }
      rewrite F1, F2.
      assert (R : in_range ltb key fr t' = true).
      { rewrite Et2. eapply in_range_plug; [exact HC2 | exact N2 | simpl; rewrite ?Ecb; reflexivity | | exact Hhi'].
        simpl. rewrite Ekr. reflexivity. }
      fold key. rewrite R. apply Nat.ltb_lt in N4. rewrite N4. simpl.
      apply andb_true_intro. split; apply existsb_exists.
      * exists (sep', lft). split; [apply in_elt|]. simpl. apply Nat.eqb_eq. congruence.
      * exists (rs, rgt). split; [apply in_or_app; right; right; left; reflexivity|]. simpl. apply Nat.eqb_eq. exact N2.
  - (* no split *)
    match type of H with bind ?e _ = _ => destruct e as [t'|] eqn:Hu; [cbn [bind] in H|discriminate H] end.
    destruct (ins_nosplit_rel K V True [p] p p cs index sep sep' child t t' Hnd Hfp Hn Hu) as (_ & _ & Hnd' & _);
      [simpl; auto|].
    assert (Et' : t' = plug (mkcf p pre sep' post :: C) child).
    { pose proof (upd_plug_nid K V C (INode p cs) (INode p (set_nth index (sep', child) cs)) HC) as Hu2.
      simpl nid in Hu2. rewrite <- Et in Hu2. rewrite Hu2 in Hu. inversion Hu; subst t'.
      rewrite Ecs. rewrite <- Hlen. rewrite set_nth_app. reflexivity. }
    assert (HC' : NoDup (ids child ++ ctx_ids (mkcf p pre sep' post :: C))).
    { apply plug_nodup. rewrite <- Et'. exact Hnd'. }
    eapply ins_descend_pc with (nd := child); [exact H | exact Hnd' | | eapply isplit_none_count; eauto |].
    + rewrite Et'. apply find_plug_x; [exact HC' | exact H3].
    + rewrite Et'. eapply in_range_plug; [exact HC' | exact H3 | simpl; rewrite ?Ecb; reflexivity | exact Hge | exact Hhi'].
Qed.

Lemma ins_root_pc order o r (t : itree) l fr tm0 (out : out) :
  1 <= order -> NoDup (ids t) -> ~ In fr (ids t) -> ~ In (S fr) (ids t) -> r = nid t ->
  match isplit order fr t with
  | None => ins_descend ltb o r t l fr None
  | Some (lft, rgt) =>
    ls <- ismallest lft ;; rs <- ismallest rgt ;;
    if ltb (key_of o) rs
    then ins_descend ltb o r (INode (S fr) [(if ltb (key_of o) ls then key_of o else ls, lft); (rs, rgt)]) l (S (S fr)) None
    else mk (INode (S fr) [(if ltb (key_of o) ls then key_of o else ls, lft); (rs, rgt)]) l (S (S fr)) tm0
           (InsWantRootRight o r fr) []
  end = Ok out -> pc_ok_b ltb order (otr out) (opc out) = true.
Proof.
  intros Ho Hnd Hfr1 Hfr2 Hr H. set (key := key_of o) in *. subst r.
  destruct (isplit order fr t) as [[lft rgt]|] eqn:Hsp.
  - destruct (isplit_facts order fr t lft rgt Ho Hsp) as (N1 & N2 & N3 & N4).
    destruct (ismallest lft) as [ls|] eqn:Els; [cbn [bind] in H|discriminate H].
    destruct (ismallest rgt) as [rs|] eqn:Ers; [cbn [bind] in H|discriminate H].
    set (ls' := if ltb key ls then key else ls) in *.
    destruct (root_split_rel K V ltb False order [nid t; fr; S fr] fr ls' rs lft rgt t Hnd Hsp Hfr1 Hfr2)
      as (_ & _ & Hnd'); try (simpl; tauto).
    set (t' := INode (S fr) [(ls', lft); (rs, rgt)]) in *.
    assert (Hls : ltb key ls' = false).
    { unfold ls'. destruct (ltb key ls) eqn:E; [apply (swo_irrefl HS) | exact E]. }
    destruct (ltb key rs) eqn:Ekr.
    + assert (Et' : t' = plug [mkcf (S fr) [] ls' [(rs, rgt)]] lft) by reflexivity.
      assert (HC' : NoDup (ids lft ++ ctx_ids [mkcf (S fr) [] ls' [(rs, rgt)]])).
      { apply plug_nodup. rewrite <- Et'. exact Hnd'. }
      eapply ins_descend_pc with (nd := lft); [exact H | exact Hnd' | | exact N3 |].
      * rewrite Et'. apply find_plug_x; [exact HC' | exact N1].
      * rewrite Et'. eapply in_range_plug; [exact HC' | exact N1 | reflexivity | | exact Ekr].
        change (negb (ltb key ls') = true). rewrite Hls. reflexivity.
    + unfold mk in H. inversion H; subst out; clear H. cbn [otr opc].
      assert (Et' : t' = plug [mkcf (S fr) [(ls', lft)] rs []] rgt) by reflexivity.
      assert (HC' : NoDup (ids rgt ++ ctx_ids [mkcf (S fr) [(ls', lft)] rs []])).
      { apply plug_nodup. rewrite <- Et'. exact Hnd'. }
      unfold pc_ok_b.
      assert (F : find fr t' = Some rgt) by (rewrite Et'; apply find_plug_x; [exact HC' | exact N2]).
      rewrite F. apply Nat.ltb_lt in N4. rewrite N4. simpl.
      rewrite Et'. eapply in_range_plug; [exact HC' | exact N2 | reflexivity | | reflexivity].
      change (negb (ltb key rs) = true). rewrite Ekr. reflexivity.
  - eapply ins_descend_pc with (nd := t); [exact H | exact Hnd | apply find_self | eapply isplit_none_count; eauto |].
    unfold in_range, bounds. rewrite bounds_self. reflexivity.
Qed.

(* ---- Delete: recording the left sibling / the child in the top frame ---- *)
Lemma child_id_nth (t : itree) p j a i cs :
  child_id t p j = Ok a -> find p t = Some (INode i cs) -> exists k c, nth_error cs j = Some (k, c) /\ nid c = a.
Proof.
  unfold child_id. intros H Hf. rewrite Hf in H.
  destruct (get_nth j cs) as [[k c]|] eqn:Hg; [|discriminate H]. simpl in H. inversion H; subst a.
  exists k, c. split; [apply get_nth_Ok; exact Hg | reflexivity].
Qed.

Lemma frames_set_fl_ok (t : itree) f rest a :
  frames_ok_b t (f :: rest) = true -> child_id t (fp f) (fidx f - 1) = Ok a -> (0 <? fidx f) = true ->
  frames_ok_b t (set_fl f a :: rest) = true.
Proof.
  intros H Hc Hp. cbn [frames_ok_b set_fl fp fidx fl fc] in *.
  destruct (find (fp f) t) as [[i nx es|i cs]|] eqn:Hf; try discriminate H.
  destruct (child_id_nth t _ _ _ _ _ Hc Hf) as (k & c & Hn & Ha).
  rewrite Hn, Hp, Ha, Nat.eqb_refl. simpl.
  destruct (fl f);
  repeat (apply andb_prop in H; destruct H as [H ?]);
  repeat (apply andb_true_intro; split); solve [reflexivity | assumption].
Qed.

Lemma frames_set_fc_ok (t : itree) f rest a :
  frames_ok_b t (f :: rest) = true -> child_id t (fp f) (fidx f) = Ok a ->
  frames_ok_b t (set_fc f a :: rest) = true.
Proof.
  intros H Hc. cbn [frames_ok_b set_fc fp fidx fl fc] in *.
  destruct (find (fp f) t) as [[i nx es|i cs]|] eqn:Hf; try discriminate H.
  destruct (child_id_nth t _ _ _ _ _ Hc Hf) as (k & c & Hn & Ha).
  rewrite Hn, Ha, Nat.eqb_refl.
  destruct (fc f);
  repeat (apply andb_prop in H; destruct H as [H ?]);
  repeat (apply andb_true_intro; split); solve [reflexivity | assumption].
Qed.

(* ---- the only block that parks at DelWantLeft is del_descend, and only with a positive index ---- *)
Lemma ins_descend_lp o n (t : itree) l fr tmx (out : out) :
  ins_descend ltb o n t l fr tmx = Ok out -> left_pos_b (opc out) = true.
Proof.
  intros H. unfold ins_descend, mk in H. crunch H; inversion H; subst; reflexivity.
Qed.

Lemma sea_descend_lp o n (t : itree) l fr tmx (out : out) :
  sea_descend ltb o n t l fr tmx = Ok out -> left_pos_b (opc out) = true.
Proof.
  intros H. unfold sea_descend, mk in H. crunch H; inversion H; subst; reflexivity.
Qed.

Lemma unwind_lp order fuel : forall o stk small right (t : itree) l fr tmx (out : out),
  unwind order fuel o stk small right t l fr tmx = Ok out -> left_pos_b (opc out) = true.
Proof.
  induction fuel as [|fuel IH]; intros o stk small right t l fr tmx out H; simpl in H; [discriminate|].
  destruct stk as [|f rest]; [unfold mk in H; inversion H; reflexivity|].
  destruct (negb small); [eapply IH; eauto|].
  destruct (find (fp f) t) as [[i nx es|pi cs]|]; try discriminate H.
  destruct ((fidx f + 1 <? length cs) && match right with None => true | Some _ => false end).
  - unfold mk in H. inversion H; reflexivity.
  - destruct (irebalance order f t) as [[t' small']|]; [cbn [bind] in H|discriminate H]. eapply IH; eauto.
Qed.

End Blocks.

Arguments left_pos_b {K V}. Arguments small_kid {K V}.

(* TERM_Hgt.v — heights of subtrees of the identified tree, and the rules showing that the height of the subtree
   rooted at a node never grows while the node stays in the tree (splits, borrows and merges keep heights).
     hgt t      : height of t (the sequential model's [height] of [erase_ids t])
     hat y t    : height of the subtree rooted at node y in t (0 if y is not in t)
     hle N t t' : every node other than the new identities N has in t' at most the height it has in t *)
From Coq Require Import List Bool PeanoNat Lia.
From GB Require Import Model Inv ListLemmas TreeLemmas Conc GI EraseLemmas GIa1_Ctx Frame UpdLemmas FrameRel.
Import ListNotations.

Section Hgt.
Variables (K V : Type).
Notation itree := (itree K V).
Notation cframe := (cframe K V).
Notation find := (@Conc.find K V).

Definition hgt (t : itree) : nat := height (erase_ids t).

(* maximum of the heights of a list of children *)
Fixpoint hmaxl (cs : list (K * itree)) : nat :=
  match cs with [] => 0 | c :: r => Nat.max (hgt (snd c)) (hmaxl r) end.

Lemma hgt_leaf i nx es : hgt (ILeaf i nx es) = 0.
Proof. reflexivity. Qed.

Lemma hgt_node i cs : hgt (INode i cs) = S (hmaxl cs).
Proof.
  unfold hgt. cbn [erase_ids height]. f_equal.
  induction cs as [|[s c] r IH]; cbn [map fold_right hmaxl fst snd]; [reflexivity|]. rewrite IH. reflexivity.
Qed.

Lemma hmaxl_app a b : hmaxl (a ++ b) = Nat.max (hmaxl a) (hmaxl b).
Proof. induction a as [|c a IH]; cbn [app hmaxl]; [reflexivity|]. rewrite IH. lia. Qed.

Lemma hmaxl_cons c r : hmaxl (c :: r) = Nat.max (hgt (snd c)) (hmaxl r).
Proof. reflexivity. Qed.

Lemma hmaxl_in s c cs : In (s, c) cs -> hgt c <= hmaxl cs.
Proof.
  induction cs as [|x r IH]; intros Hin; [destruct Hin|]. cbn [hmaxl]. destruct Hin as [->|Hin]; cbn [snd]; [lia|].
  specialize (IH Hin). lia.
Qed.

Lemma hmaxl_firstn n cs : hmaxl (firstn n cs) <= hmaxl cs.
Proof. rewrite <- (firstn_skipn n cs) at 2. rewrite hmaxl_app. lia. Qed.
Lemma hmaxl_skipn n cs : hmaxl (skipn n cs) <= hmaxl cs.
Proof. rewrite <- (firstn_skipn n cs) at 2. rewrite hmaxl_app. lia. Qed.

(* height of the subtree(s) rooted at a node called y: the maximum over all of them (there is at most one when
   identities are unique) *)
Fixpoint hat (y : id) (t : itree) : nat :=
  match t with
  | ILeaf _ _ _ => 0
  | INode i cs =>
    Nat.max (if i =? y then S (hmaxl cs) else 0)
            ((fix go (cs : list (K * itree)) : nat :=
                match cs with [] => 0 | c :: r => Nat.max (hat y (snd c)) (go r) end) cs)
  end.

Fixpoint hatl (y : id) (cs : list (K * itree)) : nat :=
  match cs with [] => 0 | c :: r => Nat.max (hat y (snd c)) (hatl y r) end.

Lemma hat_leaf y i nx es : hat y (ILeaf i nx es) = 0.
Proof. reflexivity. Qed.

Lemma hat_node y i cs : hat y (INode i cs) = Nat.max (if i =? y then S (hmaxl cs) else 0) (hatl y cs).
Proof.
  cbn [hat]. f_equal. induction cs as [|c r IH]; cbn [hatl]; [reflexivity|]. rewrite IH. reflexivity.
Qed.

Lemma hatl_app y a b : hatl y (a ++ b) = Nat.max (hatl y a) (hatl y b).
Proof. induction a as [|c a IH]; cbn [app hatl]; [reflexivity|]. rewrite IH. lia. Qed.

Lemma hatl_cons y c r : hatl y (c :: r) = Nat.max (hat y (snd c)) (hatl y r).
Proof. reflexivity. Qed.

Lemma hatl_in y s c cs : In (s, c) cs -> hat y c <= hatl y cs.
Proof.
  induction cs as [|x r IH]; intros Hin; [destruct Hin|]. cbn [hatl]. destruct Hin as [->|Hin]; cbn [snd]; [lia|].
  specialize (IH Hin). lia.
Qed.

Lemma hatl_firstn y n cs : hatl y (firstn n cs) <= hatl y cs.
Proof. rewrite <- (firstn_skipn n cs) at 2. rewrite hatl_app. lia. Qed.
Lemma hatl_skipn y n cs : hatl y (skipn n cs) <= hatl y cs.
Proof. rewrite <- (firstn_skipn n cs) at 2. rewrite hatl_app. lia. Qed.

(* no subtree is higher than the tree *)
Lemma hat_le_hgt y : forall t : itree, hat y t <= hgt t.
Proof.
  induction t as [i nx es|i cs IH] using (itree_ind' K V); [cbn; lia|].
  rewrite hat_node, hgt_node.
  assert (H : hatl y cs <= hmaxl cs).
  { induction cs as [|c r IHr]; cbn [hatl hmaxl]; [lia|]. inversion IH as [|? ? H1 H2]; subst.
    specialize (IHr H2). lia. }
  destruct (i =? y); lia.
Qed.

Lemma hatl_le_hmaxl y cs : hatl y cs <= hmaxl cs.
Proof.
  induction cs as [|c r IHr]; cbn [hatl hmaxl]; [lia|]. pose proof (hat_le_hgt y (snd c)). lia.
Qed.

Lemma hat_root (t : itree) : hat (nid t) t = hgt t.
Proof.
  destruct t as [i nx es|i cs]; [reflexivity|]. cbn [nid]. rewrite hat_node, hgt_node, Nat.eqb_refl.
  pose proof (hatl_le_hmaxl i cs). lia.
Qed.

(* a node absent from the tree has height 0 *)
Lemma hat_notin y : forall t : itree, ~ In y (ids t) -> hat y t = 0.
Proof.
  induction t as [i nx es|i cs IH] using (itree_ind' K V); intros Hn; [reflexivity|].
  rewrite hat_node. rewrite ids_node in Hn. cbn [In] in Hn.
  destruct (i =? y) eqn:E; [apply Nat.eqb_eq in E; tauto|].
  assert (H : hatl y cs = 0).
  { assert (Hn' : ~ In y (ids_list cs)) by tauto. clear Hn E.
    induction cs as [|[s c] r IHr]; cbn [hatl snd]; [reflexivity|]. inversion IH as [|? ? H1 H2]; subst.
    rewrite ids_list_cons in Hn'. rewrite in_app_iff in Hn'. cbn [snd] in H1.
    rewrite H1 by tauto. rewrite IHr by tauto. reflexivity. }
  rewrite H. reflexivity.
Qed.

Lemma hatl_notin y cs : ~ In y (ids_list cs) -> hatl y cs = 0.
Proof.
  induction cs as [|[s c] r IH]; intros Hn; cbn [hatl snd]; [reflexivity|].
  rewrite ids_list_cons, in_app_iff in Hn. rewrite hat_notin by tauto. rewrite IH by tauto. reflexivity.
Qed.

(* the subtree found at y is one of the subtrees called y *)
Lemma find_hat_le y : forall (t sub : itree), find y t = Some sub -> hgt sub <= hat y t.
Proof.
  induction t as [i nx es|i cs IH] using (itree_ind' K V); intros sub Hf.
  - simpl in Hf. destruct (i =? y); [|discriminate]. inversion Hf; subst. cbn. lia.
  - rewrite find_node in Hf. rewrite hat_node. destruct (i =? y).
    + inversion Hf; subst. rewrite hgt_node. lia.
    + assert (H : hgt sub <= hatl y cs); [|lia].
      induction cs as [|[s c] r IHr]; cbn [find_list] in Hf; [discriminate|].
      inversion IH as [|? ? H1 H2]; subst. cbn [hatl snd]. cbn [snd] in H1.
      destruct (find y c) as [z|] eqn:Ec.
      * inversion Hf; subst. specialize (H1 _ eq_refl). lia.
      * specialize (IHr H2 Hf). lia.
Qed.

(* with unique identities it is the only one *)
Lemma find_hat y : forall (t sub : itree), NoDup (ids t) -> find y t = Some sub -> hat y t = hgt sub.
Proof.
  induction t as [i nx es|i cs IH] using (itree_ind' K V); intros sub Hnd Hf.
  - simpl in Hf. destruct (i =? y); [|discriminate]. inversion Hf; subst. reflexivity.
  - rewrite find_node in Hf. rewrite hat_node. rewrite ids_node in Hnd. inversion Hnd as [|? ? Hni Hnd']; subst.
    destruct (i =? y) eqn:E.
    + inversion Hf; subst. rewrite hgt_node. apply Nat.eqb_eq in E. subst y.
      rewrite (hatl_notin i cs Hni). lia.
    + assert (H : hatl y cs = hgt sub); [|lia]. clear E Hni Hnd.
      induction cs as [|[s c] r IHr]; cbn [find_list] in Hf; [discriminate|].
      inversion IH as [|? ? H1 H2]; subst. cbn [hatl snd]. cbn [snd] in H1.
      rewrite ids_list_cons in Hnd'. apply nodup_app_iff in Hnd'. destruct Hnd' as (N1 & N2 & N3).
      destruct (find y c) as [z|] eqn:Ec.
      * inversion Hf; subst. rewrite (H1 _ N1 eq_refl).
        assert (Hy : In y (ids c)).
        { destruct (in_dec Nat.eq_dec y (ids c)) as [Hi|Hi]; [exact Hi|]. rewrite (find_notin _ _ y c Hi) in Ec. discriminate. }
        rewrite (hatl_notin y r (N3 y Hy)). lia.
      * assert (Hy : ~ In y (ids c)).
        { intros Hi. destruct (find_in _ _ y c Hi) as [z Hz]. congruence. }
        rewrite (hat_notin y c Hy). rewrite (IHr H2 Hf N2). lia.
Qed.

(* ------------------------------------------------------------------------------------------------ *)
(* the relation                                                                                       *)
(* ------------------------------------------------------------------------------------------------ *)
Definition hle (N : list id) (t t' : itree) : Prop :=
  hgt t' <= hgt t /\ forall y, ~ In y N -> hat y t' <= hat y t.
(* the same for a segment of children *)
Definition hlel (N : list id) (m m' : list (K * itree)) : Prop :=
  hmaxl m' <= hmaxl m /\ forall y, ~ In y N -> hatl y m' <= hatl y m.

Lemma hle_refl N t : hle N t t.
Proof. split; [lia|intros; lia]. Qed.

Lemma hle_trans N t t1 t2 : hle N t t1 -> hle [] t1 t2 -> hle N t t2.
Proof.
  intros [A1 A2] [B1 B2]. split; [lia|]. intros y Hy. specialize (A2 y Hy). specialize (B2 y (fun x => x)). lia.
Qed.

Lemma hle_trans' N t t1 t2 : hle [] t t1 -> hle N t1 t2 -> hle N t t2.
Proof.
  intros [A1 A2] [B1 B2]. split; [lia|]. intros y Hy. specialize (B2 y Hy). specialize (A2 y (fun x => x)). lia.
Qed.

Lemma hle_weaken N N' t t' : incl N N' -> hle N t t' -> hle N' t t'.
Proof. intros Hi [A1 A2]. split; [exact A1|]. intros y Hy. apply A2. intros X. apply Hy. apply Hi. exact X. Qed.

(* replacing a segment of the children of a node *)
Lemma kids_hle N pi (A B m m' : list (K * itree)) :
  hlel N m m' -> hle N (INode pi (A ++ m ++ B)) (INode pi (A ++ m' ++ B)).
Proof.
  intros [H1 H2]. split.
  - rewrite !hgt_node, !hmaxl_app. lia.
  - intros y Hy. specialize (H2 y Hy). rewrite !hat_node, !hmaxl_app, !hatl_app. destruct (pi =? y); lia.
Qed.

Lemma hlel_one N s s' (c c' : itree) : hle N c c' -> hlel N [(s, c)] [(s', c')].
Proof.
  intros [H1 H2]. split; cbn [hmaxl hatl snd]; [lia|]. intros y Hy. specialize (H2 y Hy). lia.
Qed.

(* replacing the subtree in the hole of a context *)
Lemma hle_plug1 N cf (a b : itree) : hle N a b -> hle N (plug1 cf a) (plug1 cf b).
Proof.
  intros H. unfold plug1.
  apply (kids_hle N (cid cf) (cpre cf) (cpost cf) [(csep cf, a)] [(csep cf, b)]). apply hlel_one. exact H.
Qed.

Lemma hle_plug N C : forall a b : itree, hle N a b -> hle N (plug C a) (plug C b).
Proof. induction C as [|cf C IH]; intros a b H; cbn [plug]; [exact H|]. apply IH. apply hle_plug1. exact H. Qed.

(* the main rule: replacing the node found at x *)
Lemma upd_hle N x (old new t t' : itree) :
  NoDup (ids t) -> find x t = Some old -> upd x (fun _ => Ok new) t = Ok t' ->
  hle N old new -> hle N t t'.
Proof.
  intros Hnd Hf Hu H.
  assert (Hlt : Forall (fun i => i < S (list_max (ids t))) (ids t)).
  { apply Forall_forall. intros i Hi. pose proof (proj1 (list_max_le (ids t) (list_max (ids t))) (Nat.le_refl _)) as Hm.
    rewrite Forall_forall in Hm. specialize (Hm i Hi). lia. }
  destruct (GIa1_Ctx.find_decompose K V x t old _ Hnd Hlt Hf) as (C & -> & Hw & Hn).
  subst x. rewrite (upd_plug_self K V C old _ new Hw) in Hu. inversion Hu; subst t'.
  apply hle_plug. exact H.
Qed.

(* the part of [hle] that survives a root split: nodes other than the new ones do not get higher *)
Definition hle0 (N : list id) (t t' : itree) : Prop := forall y, ~ In y N -> hat y t' <= hat y t.

Lemma hle_hle0 N t t' : hle N t t' -> hle0 N t t'.
Proof. intros [_ H]. exact H. Qed.
Lemma hle0_trans N t t1 t2 : hle0 N t t1 -> hle [] t1 t2 -> hle0 N t t2.
Proof. intros A [_ B] y Hy. specialize (A y Hy). specialize (B y (fun x => x)). lia. Qed.
Lemma hle0_weaken N N' t t' : incl N N' -> hle0 N t t' -> hle0 N' t t'.
Proof. intros Hi A y Hy. apply A. intros X. apply Hy. apply Hi. exact X. Qed.

(* ------------------------------------------------------------------------------------------------ *)
(* local rules                                                                                        *)
(* ------------------------------------------------------------------------------------------------ *)
Lemma leaf_hle N i nx es i' nx' es' : hle N (ILeaf i nx es) (ILeaf i' nx' es').
Proof. split; [cbn; lia|]. intros y _. cbn. lia. Qed.

(* the children are the same subtrees (separators may differ) *)
Lemma sep_hle N pi (cs : list (K * itree)) index sep sep' child :
  nth_error cs index = Some (sep, child) -> hle N (INode pi cs) (INode pi (set_nth index (sep', child) cs)).
Proof.
  intros Hn. destruct (nth_error_split cs index Hn) as (A & B & -> & <-).
  rewrite TreeLemmas.set_nth_app.
  apply (kids_hle N pi A B [(sep, child)] [(sep', child)]). apply hlel_one. apply hle_refl.
Qed.

(* a split: both halves are at most as high as the node, every old node keeps or lowers its height *)
Lemma isplit_hlel order fr (t l r : itree) s s1 s2 :
  isplit order fr t = Some (l, r) -> hlel [fr] [(s, t)] [(s1, l); (s2, r)].
Proof.
  unfold isplit. destruct (icount t <? order); [discriminate|].
  destruct t as [i nx es|i cs]; intros H; inversion H; subst; clear H.
  - split; cbn; [lia|]. intros; lia.
  - split.
    + cbn [hmaxl snd]. rewrite !hgt_node.
      pose proof (hmaxl_firstn (Nat.div2 order) cs). pose proof (hmaxl_firstn (Nat.div2 order) (skipn (Nat.div2 order) cs)).
      pose proof (hmaxl_skipn (Nat.div2 order) cs). lia.
    + intros y Hy. cbn [hatl snd]. rewrite !hat_node.
      assert (E : fr =? y = false) by (apply Nat.eqb_neq; intros ->; apply Hy; left; reflexivity). rewrite E.
      pose proof (hmaxl_firstn (Nat.div2 order) cs). pose proof (hatl_firstn y (Nat.div2 order) cs).
      pose proof (hatl_firstn y (Nat.div2 order) (skipn (Nat.div2 order) cs)).
      pose proof (hatl_skipn y (Nat.div2 order) cs). destruct (i =? y); lia.
Qed.

(* the root split *)
Lemma root_split_hle0 order fr (t l r : itree) s1 s2 :
  isplit order fr t = Some (l, r) -> hle0 [fr; S fr] t (INode (S fr) [(s1, l); (s2, r)]).
Proof.
  intros H y Hy. destruct (isplit_hlel order fr t l r s1 s1 s2 H) as [_ H2].
  assert (Hy1 : ~ In y [fr]) by (intros [->|[]]; apply Hy; left; reflexivity).
  specialize (H2 y Hy1). rewrite hat_node.
  assert (E : S fr =? y = false) by (apply Nat.eqb_neq; intros <-; apply Hy; right; left; reflexivity). rewrite E.
  cbn [hatl snd] in H2 |- *. lia.
Qed.

(* the new right half of a root split is at most as high as the old root *)
Lemma root_split_right order fr (t l r : itree) s1 s2 y :
  isplit order fr t = Some (l, r) -> y <> S fr -> hat y (INode (S fr) [(s1, l); (s2, r)]) <= hgt t.
Proof.
  intros H Hy. destruct (isplit_hlel order fr t l r s1 s1 s2 H) as [H1 _].
  rewrite hat_node. assert (E : S fr =? y = false) by (apply Nat.eqb_neq; intros <-; apply Hy; reflexivity). rewrite E.
  pose proof (hatl_le_hmaxl y [(s1, l); (s2, r)]) as H0. cbn [hmaxl snd] in H1, H0. lia.
Qed.

(* the root collapse *)
Lemma root_collapse_hle i k (c : itree) rest : hle [] (INode i ((k, c) :: rest)) c.
Proof.
  split.
  - rewrite hgt_node. cbn [hmaxl snd]. lia.
  - intros y _. rewrite hat_node. cbn [hatl snd]. lia.
Qed.

(* borrowing and merging between siblings of the same height *)
Lemma iadopt_right_hlel (child rgt child' rgt' : itree) k1 k2 rs :
  iadopt_right child rgt = Ok (child', rgt') -> hgt child = hgt rgt ->
  hlel [] [(k1, child); (k2, rgt)] [(k1, child'); (rs, rgt')].
Proof.
  destruct child as [li ln le|li lc], rgt as [ri rn [|x re]|ri [|x rc]]; cbn [iadopt_right]; intros H Hh;
    inversion H; subst; clear H.
  - split; cbn; [lia|intros; lia].
  - rewrite !hgt_node in Hh. cbn [hmaxl] in Hh. split.
    + cbn [hmaxl snd]. rewrite !hgt_node, hmaxl_app. cbn [hmaxl]. lia.
    + intros y _. cbn [hatl snd]. rewrite !hat_node, hmaxl_app, hatl_app. cbn [hmaxl hatl].
      pose proof (hat_le_hgt y (snd x)). destruct (li =? y), (ri =? y); lia.
Qed.

Lemma iadopt_left_hlel (lft child lft' child' : itree) k0 k1 sm :
  iadopt_left lft child = Ok (lft', child') -> hgt lft = hgt child ->
  hlel [] [(k0, lft); (k1, child)] [(k0, lft'); (sm, child')].
Proof.
  destruct lft as [li ln le|li lc], child as [ri rn re|ri rc]; cbn [iadopt_left]; intros H Hh; try discriminate H.
  - destruct (rev le) as [|x le']; [discriminate H|]. inversion H; subst; clear H. split; cbn; [lia|intros; lia].
  - destruct (rev lc) as [|x lc'] eqn:E; [discriminate H|]. inversion H; subst; clear H.
    assert (Elc : lc = rev lc' ++ [x]) by (rewrite <- (rev_involutive lc), E; reflexivity). subst lc.
    rewrite !hgt_node in Hh. rewrite hmaxl_app in Hh. cbn [hmaxl] in Hh. split.
    + cbn [hmaxl snd]. rewrite !hgt_node, hmaxl_app. cbn [hmaxl]. lia.
    + intros y _. cbn [hatl snd]. rewrite !hat_node, hmaxl_app, hatl_app. cbn [hmaxl hatl].
      pose proof (hat_le_hgt y (snd x)). destruct (li =? y), (ri =? y); lia.
Qed.

Lemma iabsorb_hlel (l r z : itree) k0 k1 :
  iabsorb l r = Ok z -> hgt l = hgt r -> hlel [] [(k0, l); (k1, r)] [(k0, z)].
Proof.
  destruct l as [li ln le|li lc], r as [ri rn re|ri rc]; cbn [iabsorb]; intros H Hh; inversion H; subst; clear H.
  - split; cbn; [lia|intros; lia].
  - rewrite !hgt_node in Hh. split.
    + cbn [hmaxl snd]. rewrite !hgt_node, hmaxl_app. lia.
    + intros y _. cbn [hatl snd]. rewrite !hat_node, hmaxl_app, hatl_app.
      destruct (li =? y), (ri =? y); lia.
Qed.

(* ------------------------------------------------------------------------------------------------ *)
(* balance: siblings have the same height                                                            *)
(* ------------------------------------------------------------------------------------------------ *)
Definition ibal (t : itree) : Prop := exists d, bal d (erase_ids t).

Lemma ibal_find x : forall (t sub : itree), ibal t -> find x t = Some sub -> ibal sub.
Proof.
  induction t as [i nx es|i cs IH] using (itree_ind' K V); intros sub [d Hb] Hf.
  - simpl in Hf. destruct (i =? x); [|discriminate]. inversion Hf; subst. exists d. exact Hb.
  - rewrite find_node in Hf. destruct (i =? x); [inversion Hf; subst; exists d; exact Hb|].
    destruct (find_list_some K V x cs sub Hf) as (pre & s & c & post & -> & Hc).
    apply Forall_app in IH. destruct IH as [_ IH]. inversion IH as [|? ? Hc' _]; subst. cbn [snd] in Hc'.
    apply (Hc' sub); [|exact Hc].
    rewrite erase_node in Hb. destruct d as [|d']; [destruct Hb|]. cbn [bal] in Hb. destruct Hb as [_ Hk].
    apply TreeLemmas.all_kids_Forall in Hk. rewrite erase_cs_app, erase_cs_cons in Hk.
    apply Forall_app in Hk. destruct Hk as [_ Hk]. inversion Hk as [|? ? Hk1 _]; subst. cbn [snd] in Hk1.
    exists d'. exact Hk1.
Qed.

Lemma ibal_kids i (cs : list (K * itree)) k1 a k2 b :
  ibal (INode i cs) -> In (k1, a) cs -> In (k2, b) cs -> hgt a = hgt b.
Proof.
  intros [d Hb] Ha Hbb. rewrite erase_node in Hb. destruct d as [|d']; [destruct Hb|]. cbn [bal] in Hb.
  destruct Hb as [_ Hk]. apply TreeLemmas.all_kids_Forall in Hk. rewrite Forall_forall in Hk.
  assert (H : forall k c, In (k, c) cs -> hgt c = d').
  { intros k c Hin. unfold hgt. apply bal_height. apply (Hk (k, erase_ids c)).
    unfold erase_cs. apply in_map_iff. exists (k, c). split; [reflexivity|exact Hin]. }
  rewrite (H _ _ Ha), (H _ _ Hbb). reflexivity.
Qed.

(* a child is strictly lower than its parent *)
Lemma hat_child p pi (cs : list (K * itree)) k ch (t : itree) :
  NoDup (ids t) -> find p t = Some (INode pi cs) -> In (k, ch) cs -> hat (nid ch) t < hat p t.
Proof.
  intros Hnd Hf Hin.
  rewrite (find_hat p t _ Hnd Hf).
  assert (Hc : find (nid ch) t = Some ch).
  { apply (FrameRel.find_child K V p pi cs k ch t Hnd Hf Hin). }
  rewrite (find_hat _ t _ Hnd Hc). rewrite hgt_node. pose proof (hmaxl_in k ch cs Hin). lia.
Qed.

Lemma hat_internal p pi (cs : list (K * itree)) (t : itree) : find p t = Some (INode pi cs) -> 1 <= hat p t.
Proof. intros Hf. pose proof (find_hat_le p t _ Hf) as H. rewrite hgt_node in H. lia. Qed.

End Hgt.

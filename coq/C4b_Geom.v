(* C4b_Geom.v — the geometry behind the completeness of a scan whose NewScanner descent was routed by clamping.
   A descent for key k rests on the internal node p (pc SeaWantChild o p c: it holds p and waits for the child c that
   search_le k selects in p, and k is below p's upper bound).  If x is an entry of the tree whose key is not below k
   and not below the lower bound of p, then it is not below the lower bound of c (= the separator of c in p) either:
     - c selected at an index > 0, or at index 0 with sep(c) <= k:  sep(c) <= k <= x;
     - c selected at index 0 with k < sep(c) (the descent clamps): x is not left of p (it is not below lo(p)), the
       entries under p are all under c or right of it and hence >= sep(c), and the entries right of p are >= hi(p) > sep(c).
   This is the geometry of the early linearization point of Search (LINa_Core.sea_geom), read for a stored key
   instead of the searched one. *)
From Coq Require Import List Bool Lia PeanoNat Sorted.
From GB Require Import Model Spec Inv ListLemmas SearchProof TreeLemmas Conc GI LockInv CInv CInv3
  EraseLemmas EraseOps SoloBase SoloSearch Lin GIa1_Ctx GIa1_Local LINa_Lists LINa_Ctx LINa_Abs LINa_Blocks C4_Lists.
Import ListNotations.

Section G.
Variables (K V : Type) (ltb : K -> K -> bool).
Hypothesis HS : SWO ltb.
Variable order : nat.
Notation itree := (itree K V).
Notation cop := (cop K V).
Notation cframe := (cframe K V).
Notation irrefl := (irrefl K ltb HS).
Notation asym := (asym K ltb HS).
Notation negtrans := (negtrans K ltb HS).
Notation SS := (StronglySorted (fun a b => ltb a b = true)).

(* the root has no lower bound *)
Lemma below_lo_root k (t : itree) : below_lo ltb k (nid t) t = false.
Proof. unfold below_lo, bounds. rewrite (GIa1_Ctx.bounds_self K V). reflexivity. Qed.

(* the separator of the selected child is below the upper bound of the child *)
Lemma child_sep_lt_hi (C : list cframe) p pre s (ch : itree) post :
  shape ltb order (plug C (INode p (pre ++ (s, ch) :: post))) ->
  lt_hi ltb s (hi_of post (snd (cbounds C))) = true.
Proof.
  intros Hsh. destruct (shape_ctx K V ltb HS order C _ Hsh) as (d0 & Hok & _).
  rewrite erase_node, erase_cs_app, erase_cs_cons in Hok.
  destruct (frame_down K V ltb HS order _ d0 _ _ _ _ Hok) as (d & _ & _ & Hrs & Hss & _).
  destruct post as [|[s' c0] post]; [exact (proj2 Hrs)|]. cbn [hi_of lt_hi].
  rewrite erase_cs_cons, map_app in Hss. cbn [map fst] in Hss.
  apply (SS_app_iff K ltb) in Hss. destruct Hss as (_ & Hss & _).
  apply (SS_cons_iff K ltb) in Hss. destruct Hss as [_ Hss]. inversion Hss; assumption.
Qed.

(* the route lemma *)
Lemma sea_route (t : itree) fr (o : cop) p c (x : K * V) :
  shape ltb order t -> NoDup (ids t) -> Forall (fun i => i < fr) (ids t) ->
  pc_ok_b ltb order t (SeaWantChild o p c) = true -> pc_ok3_b ltb t (SeaWantChild o p c) = true ->
  In x (ents t) -> ltb (fst x) (key_of o) = false -> below_lo ltb (fst x) p t = false ->
  below_lo ltb (fst x) c t = false.
Proof.
  intros Hsh Hnd Hlt Hpc Hpc3 Hx Hxk Hxp. cbn [pc_ok_b] in Hpc. cbn [pc_ok3_b] in Hpc3.
  destruct (Conc.find p t) as [[?|pi cs]|] eqn:Hfp; try discriminate Hpc.
  apply andb_true_iff in Hpc3. destruct Hpc3 as [Hhi Hpc3].
  destruct (search_le ltb (key_of o) (map fst cs)) as [idx|] eqn:Hse; [|discriminate].
  destruct (nth_error cs idx) as [[s ch]|] eqn:Hn; [|discriminate]. apply Nat.eqb_eq in Hpc3.
  destruct (find_decompose K V p t _ fr Hnd Hlt Hfp) as (C & -> & Hw & Hp). cbn [nid] in Hp. subst pi.
  pose proof (bounds_plug_self K V C _ fr Hw) as Hbp. cbn [nid] in Hbp.
  unfold below_hi in Hhi. rewrite Hbp in Hhi.
  assert (Hhi' : lt_hi ltb (key_of o) (snd (cbounds C)) = true) by (destruct (cbounds C); exact Hhi).
  clear Hhi. rename Hhi' into Hhi.
  destruct (child_sides K V ltb HS order C p cs (key_of o) idx s ch fr Hsh Hw Hse Hn Hhi)
    as (pre & post & -> & Hw' & Hpl & HR & HL & Hpre & Hslo & Hch).
  pose proof (bounds_plug_self K V _ _ fr Hw') as Hbc. rewrite Hpl, Hpc3 in Hbc.
  unfold below_lo in Hxp |- *. rewrite Hbp in Hxp. rewrite Hbc. cbn [cbounds fst].
  destruct (ltb (key_of o) s) eqn:Eks.
  - (* the descent clamps here: index 0 *)
    specialize (Hpre eq_refl). subst pre. cbn [app] in *.
    assert (Hge : ge_lo ltb (fst x) (fst (cbounds C)) = true).
    { destruct (cbounds C) as [[l|] hi]; cbn [fst ge_lo] in *; [rewrite Hxp|]; reflexivity. }
    unfold ents in Hx. rewrite <- Hpl, (entries_plug K V) in Hx.
    apply in_app_or in Hx. destruct Hx as [Hx|Hx].
    + exfalso. rewrite Lents_cons in Hx. cbn [mkcf cpre erase_cs map flat_map] in Hx. rewrite app_nil_r in Hx.
      pose proof (ctx_left K V ltb HS order C _ (fst x) Hsh Hge) as HLx. rewrite Forall_forall in HLx.
      specialize (HLx x Hx). rewrite irrefl in HLx. discriminate.
    + apply in_app_or in Hx. destruct Hx as [Hx|Hx].
      * rewrite Forall_forall in Hch. exact (Hch x Hx).
      * apply asym.
        assert (Hsh' : shape ltb order (plug (mkcf p [] s post :: C) ch)) by (rewrite Hpl; exact Hsh).
        pose proof (ctx_right K V ltb HS order (mkcf p [] s post :: C) ch s Hsh') as HRx.
        cbn [cbounds snd mkcf cpost] in HRx.
        specialize (HRx (child_sep_lt_hi C p [] s ch post Hsh)). rewrite Forall_forall in HRx. exact (HRx x Hx).
  - (* the separator of the child is not above k *)
    exact (negtrans _ _ _ Hxk Eks).
Qed.

End G.

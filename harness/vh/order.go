package main

import (
	"bufio"
	"fmt"
	"os"
	"strconv"
	"strings"

	g "github.com/karrick/gobptree"
)

func verdict(isNil bool, err error) string {
	switch {
	case isNil && err != nil:
		return "nil+err"
	case !isNil && err == nil:
		return "tree+nil"
	case isNil && err == nil:
		return "nil+nil"
	}
	return "tree+err"
}

// runOrder: for every order of the input file, checkOrder's verdict and what each constructor returned.
func runOrder(inPath, outPath string) error {
	in, err := os.Open(inPath)
	if err != nil {
		return err
	}
	defer in.Close()
	out, err := os.Create(outPath)
	if err != nil {
		return err
	}
	w := bufio.NewWriter(out)
	defer func() { w.Flush(); out.Close() }()
	sc := bufio.NewScanner(in)
	for sc.Scan() {
		s := strings.TrimSpace(sc.Text())
		if s == "" {
			continue
		}
		o64, err := strconv.ParseInt(s, 10, 64)
		if err != nil {
			return err
		}
		o := int(o64)
		acc := "reject"
		if g.VerifCheckOrder(o) {
			acc = "accept"
		}
		res := []string{acc}
		if acc == "accept" && o > 1<<20 {
			for i := 0; i < 6; i++ {
				res = append(res, "skipped") // the root leaf is allocated with capacity = order
			}
		} else {
			t1, e1 := g.NewInt32Tree(o)
			t2, e2 := g.NewInt64Tree(o)
			t3, e3 := g.NewUint32Tree(o)
			t4, e4 := g.NewUint64Tree(o)
			t5, e5 := g.NewStringTree(o)
			t6, e6 := g.NewComparableTree(o)
			res = append(res, verdict(t1 == nil, e1), verdict(t2 == nil, e2), verdict(t3 == nil, e3), verdict(t4 == nil, e4), verdict(t5 == nil, e5), verdict(t6 == nil, e6))
		}
		fmt.Fprintf(w, "%s %s\n", s, strings.Join(res, " "))
	}
	return sc.Err()
}

(* O2b_CB.v — property C05 (the callback step of Update, CB_Final.v) for every EVEN order >= 2 (in particular ORDER 2)
   and client programs WITHOUT Delete: CB_Final.callback_step with BigInv replaced by O2_Proof.BigInvND.
   CB_Final.callback_step uses 4 <= order ONLY through ASM_Proof.BigInv_abs_step_ok (the abstract map changes as
   the specification says at a linearization point); O2_Proof.BigInvND_abs_step_ok gives the same fact from BigInvND
   with 2 <= order.  All the other ingredients (BigInv_call_ok, abs_asc, abs_lookup_some/none, own_step_class,
   cstep_parts) do not depend on the order, and BigInvND s -> BigInv s.  See the summary at the end of the file. *)
From Coq Require Import List Bool PeanoNat Lia.
From GB Require Import Model Inv Spec SpecLaws SearchScanProof Conc GI CIDef LinDef Lin SoloBase
  LINc_Blocks LINc_Proof ASM_Proof TERM_Blocks CB_Blocks CB_Count CB_Final O2_NoDel O2_Proof.
Import ListNotations.

Section O2CB.
Variables (K V : Type) (ltb : K -> K -> bool).
Hypothesis HS : SWO ltb.
Variable order : nat.
Hypothesis Heven : Nat.even order = true.
Hypothesis H2 : 2 <= order.
Notation st := (st K V).
Notation cop := (cop K V).
Notation BigInvND := (BigInvND K V ltb order).
Notation abs := (abs ltb).
Notation cb_steps := (cb_steps K V ltb order).

Lemma BigInvND_BigInv (s : st) : BigInvND s -> BigInv K V ltb order s.
Proof. intros [HB _]. exact HB. Qed.

Theorem callback_step_order2_no_delete (s s' : st) t th o leaf mode index acq ev :
  BigInvND s -> get_thread t (ths s) = Some th -> tpc th = UpdCallback o leaf mode index ->
  cstep ltb order s t = Stepped s' acq ev ->
  exists k f th',
    let arg := lookup ltb k (abs s) in
    o = CUpdate k f /\ hd_error (prog th) = Some o /\ acq = None /\
    get_thread t (ths s') = Some th' /\ tpc th' = Idle /\ prog th' = tl (prog th) /\
    results th' = RArg K arg :: results th /\
    ev = [EReturn (RArg K arg)] /\
    lp_step ltb s t acq ev s' = Some (OUpdate k f) /\
    abs s' = put ltb k f (abs s) /\
    lookup ltb k (abs s') = Some (f arg) /\
    exists k', eqv ltb k k' /\ In (k', f arg) (abs s').
Proof.
  intros HBN Hg Hpc Hc. pose proof (BigInvND_BigInv s HBN) as HB.
  pose proof (BigInv_call_ok K V ltb order s HB) as Hok.
  destruct (own_step_class K V ltb order s s' t acq ev th Hok Hg Hc) as (th' & Hg' & Hk).
  destruct Hk as [k f leaf' mode' index' a Hpc' Hp Hpc1 Hev Hres|Hcbf _ _ _|o' Hcbf _ _ _ _];
    [|rewrite Hpc in Hcbf; discriminate Hcbf|rewrite Hpc in Hcbf; discriminate Hcbf].
  rewrite Hpc in Hpc'. inversion Hpc'; subst o leaf' mode' index'; clear Hpc'.
  assert (Hacq : acq = None).
  { destruct (cstep_parts K V ltb order s s' t acq ev Hc) as (th0 & o0 & Hg0 & Htg & _).
    rewrite Hg in Hg0. inversion Hg0; subst th0. rewrite Hpc in Htg. cbn [target] in Htg. inversion Htg. reflexivity. }
  assert (Hlp : lp_step ltb s t acq ev s' = Some (OUpdate k f)).
  { unfold lp_step. rewrite Hg, Hg', Hpc, Hp, Hev. reflexivity. }
  pose proof (BigInvND_abs_step_ok K V ltb HS order Heven H2 s t HBN s' acq ev Hc) as Habs.
  rewrite Hlp in Habs. destruct Habs as [Habs Hres_ok].
  cbn [step_spec fst snd] in Habs, Hres_ok. rewrite Hev in Hres_ok. cbn in Hres_ok.
  inversion Hres_ok as [Ha]. clear Hres_ok.
  pose proof (abs_asc K V ltb HS order s HB) as Hasc.
  assert (Hlk : lookup ltb k (abs s') = Some (f (lookup ltb k (abs s)))).
  { rewrite Habs. apply (lookup_put_same K V ltb HS). exact Hasc. }
  exists k, f, th'. cbv zeta.
  split; [reflexivity|]. split; [rewrite Hp; reflexivity|]. split; [exact Hacq|].
  split; [exact Hg'|]. split; [exact Hpc1|]. split; [rewrite Hp; reflexivity|].
  split; [rewrite Hres, Ha; reflexivity|]. split; [rewrite Hev, Ha; reflexivity|].
  split; [exact Hlp|]. split; [exact Habs|]. split; [exact Hlk|].
  apply (lookup_In K V ltb HS k _ (abs s')); [|exact Hlk].
  rewrite Habs. apply (put_asc K V ltb HS). exact Hasc.
Qed.

Lemma abs_lookup_some_nd (s : st) k v : BigInvND s ->
  (lookup ltb k (abs s) = Some v <-> exists k', eqv ltb k k' /\ In (k', v) (abs s)).
Proof. intros HB. exact (abs_lookup_some K V ltb HS order s k v (BigInvND_BigInv s HB)). Qed.

Lemma abs_lookup_none_nd (s : st) k : BigInvND s ->
  (lookup ltb k (abs s) = None <-> forall k' v, In (k', v) (abs s) -> ~ eqv ltb k k').
Proof. intros HB. exact (abs_lookup_none K V ltb HS order s k (BigInvND_BigInv s HB)). Qed.

(* ---- every reachable state ---- *)
Section Reachable.
Variable progs : list (tid * list cop).
Hypothesis Hnd : NoDup (map fst progs).
Hypothesis Hno : no_delete_progs K V progs.
Variable sched0 : list tid.
Let s := fst (exec ltb order (init_st progs) sched0).

Lemma reach_BigInvND : BigInvND s.
Proof. exact (BigInvND_reachable K V ltb HS order Heven H2 progs sched0 Hnd Hno). Qed.

(* Properties3.C05_callback_sees_current_value_and_stores_result for even order >= 2, no Delete *)
Theorem C05_callback_step_order2_no_delete s' t th o leaf mode index acq ev :
  get_thread t (ths s) = Some th -> tpc th = UpdCallback o leaf mode index ->
  cstep ltb order s t = Stepped s' acq ev ->
  exists k f th',
    let arg := lookup ltb k (abs s) in
    o = CUpdate k f /\ hd_error (prog th) = Some o /\ acq = None /\
    get_thread t (ths s') = Some th' /\ tpc th' = Idle /\ prog th' = tl (prog th) /\
    results th' = RArg K arg :: results th /\
    ev = [EReturn (RArg K arg)] /\
    lp_step ltb s t acq ev s' = Some (OUpdate k f) /\
    abs s' = put ltb k f (abs s) /\
    lookup ltb k (abs s') = Some (f arg) /\
    exists k', eqv ltb k k' /\ In (k', f arg) (abs s').
Proof. apply callback_step_order2_no_delete. exact reach_BigInvND. Qed.

Theorem C05_arg_some_order2_no_delete k v :
  lookup ltb k (abs s) = Some v <-> exists k', eqv ltb k k' /\ In (k', v) (abs s).
Proof. apply abs_lookup_some_nd. exact reach_BigInvND. Qed.

Theorem C05_arg_none_order2_no_delete k :
  lookup ltb k (abs s) = None <-> forall k' v, In (k', v) (abs s) -> ~ eqv ltb k k'.
Proof. apply abs_lookup_none_nd. exact reach_BigInvND. Qed.

(* the counting theorems of CB_Final.v never used 4 <= order (they need only call_ok); restated here for completeness *)
Theorem C05_exactly_once_order2_no_delete sched t th th2 k f rest :
  get_thread t (ths s) = Some th -> tpc th = Idle -> prog th = CUpdate k f :: rest ->
  get_thread t (ths (fst (exec ltb order s sched))) = Some th2 -> prog th2 = rest ->
  cb_steps t s sched = 1.
Proof. apply update_calls_f_once. exact (BigInvND_BigInv s reach_BigInvND). Qed.

Theorem C05_not_before_order2_no_delete sched t th th2 k f rest :
  get_thread t (ths s) = Some th -> prog th = CUpdate k f :: rest ->
  get_thread t (ths (fst (exec ltb order s sched))) = Some th2 -> prog th2 = CUpdate k f :: rest ->
  cb_steps t s sched = 0.
Proof. apply update_not_called_early. exact (BigInvND_BigInv s reach_BigInvND). Qed.

Theorem C05_count_order2_no_delete sched t th :
  get_thread t (ths s) = Some th ->
  exists th2 pre,
    get_thread t (ths (fst (exec ltb order s sched))) = Some th2 /\
    prog th = pre ++ prog th2 /\
    cb_steps t s sched = count_upd pre /\
    ret_steps K V t (snd (exec ltb order s sched)) = length pre.
Proof. apply callbacks_are_returned_updates. exact (BigInvND_BigInv s reach_BigInvND). Qed.

Theorem C05_returns_only_from_callback_order2_no_delete s' t th k f rest acq ev :
  get_thread t (ths s) = Some th -> prog th = CUpdate k f :: rest -> tpc th <> Idle ->
  cstep ltb order s t = Stepped s' acq ev ->
  (is_cb (tpc th) = true /\ returned ev = true) \/ (is_cb (tpc th) = false /\ ev = []).
Proof. apply update_returns_only_from_callback. exact (BigInvND_BigInv s reach_BigInvND). Qed.

End Reachable.
End O2CB.

(* SUMMARY (agent O2b).  Everything in this file is proved; no axioms.  Goal (3) is complete:
   callback_step_order2_no_delete = CB_Final.callback_step with BigInvND instead of BigInv and 2 <= order;
   C05_callback_step_order2_no_delete = Properties3.C05_callback_sees_current_value_and_stores_result for even
   order >= 2 and no_delete_progs; C05_arg_some/none, exactly_once, not_before, count, returns_only_from_callback
   likewise (these never needed 4 <= order).
   NOT done (outside the assigned goals): the order-2 version of CB_Final.C05_eventually / update_calls_f_eventually,
     BigInvND s -> get_thread t (ths s) = Some th -> tpc th <> Idle -> prog th = CUpdate k f :: rest ->
     measure K V s t <= steps_of K V t (snd (exec ltb order s sched)) -> 1 <= cb_steps K V ltb order t s sched,
   which needs TERM_Proof.returns_within_measure without 4 <= order (TERM_Blocks/TERM_Proof use H4 in the Delete
   branches: irebalance_gi, leaf_delete_small, blk_hle0, and in BigInv_step). *)

Check callback_step_order2_no_delete.
Check C05_callback_step_order2_no_delete.
Check C05_arg_some_order2_no_delete.
Check C05_arg_none_order2_no_delete.
Check C05_exactly_once_order2_no_delete.
Check C05_not_before_order2_no_delete.
Check C05_count_order2_no_delete.
Check C05_returns_only_from_callback_order2_no_delete.
Print Assumptions callback_step_order2_no_delete.
Print Assumptions C05_callback_step_order2_no_delete.
Print Assumptions C05_arg_some_order2_no_delete.
Print Assumptions C05_arg_none_order2_no_delete.
Print Assumptions C05_exactly_once_order2_no_delete.
Print Assumptions C05_not_before_order2_no_delete.
Print Assumptions C05_count_order2_no_delete.
Print Assumptions C05_returns_only_from_callback_order2_no_delete.

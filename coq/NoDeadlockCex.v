(* NoDeadlockCex.v — the strengthening [all_pc_ok2_b] of NoDeadlock.v is necessary: machine-checked states
   (K = V = nat, order 4) that satisfy CI as defined in CIDef.v and are deadlocked.  They are NOT reachable
   (they violate [pc_ok2_b]); they show only that CI alone does not imply deadlock freedom. *)
From Coq Require Import List Bool PeanoNat Lia Permutation.
From GB Require Import Conc GI LockInv LockProof CInv CIDef NoDeadlock.
Import ListNotations.

Definition ins15 : cop nat nat := CInsert 15 15.
Definition scan0 : cop nat nat := CScan 0 5.

(* two leaves under the root, chain 1 -> 0; the left leaf is 1, the right leaf is 0 *)
Definition cex_tree : itree nat nat :=
  INode 2 [(10, ILeaf 1 (Some 0) [(10, 10)]); (20, ILeaf 0 None [(20, 20)])].

(* (a) thread 0 rests at InsWantSplitRight with c = 0 and r = 1: both are children of p = 2 as [pc_ok_b]
       demands, but r is LEFT of c.  Thread 1 scans: holds leaf 1 and waits for its successor 0. *)
Definition cex_split : st nat nat :=
  {| tr := cex_tree; tm := None; lk := [(2, 0); (0, 0); (1, 1)]; fresh := 3;
     ths := [(0, {| prog := [ins15]; tpc := InsWantSplitRight ins15 2 0 1; results := [] |});
             (1, {| prog := [scan0]; tpc := CurWantNext 1 0 3 []; results := [] |})] |}.

(* (b) thread 0 rests at InsWantRootRight with l = 0 and r = 1 ([pc_ok_b] says nothing about l). *)
Definition cex_root : st nat nat :=
  {| tr := cex_tree; tm := Some 0; lk := [(0, 0); (1, 1)]; fresh := 3;
     ths := [(0, {| prog := [ins15]; tpc := InsWantRootRight ins15 0 1; results := [] |});
             (1, {| prog := [scan0]; tpc := CurWantNext 1 0 3 []; results := [] |})] |}.

Lemma cex_gi : forall s : st nat nat, tr s = cex_tree -> fresh s = 3 -> GI Nat.ltb 4 s.
Proof.
  intros s Ht Hf. unfold GI. rewrite Ht, Hf. unfold cex_tree. simpl.
  split; [repeat constructor; simpl; intuition discriminate|].
  split; [repeat constructor|].
  split; [unfold lt, le; simpl; repeat split; repeat constructor|].
  split; [repeat split; discriminate|].
  split; [repeat split; lia|].
  split; reflexivity.
Qed.

Lemma cex_get : forall (a b : thread nat nat) t th,
  get_thread t [(0, a); (1, b)] = Some th -> (t = 0 /\ th = a) \/ (t = 1 /\ th = b).
Proof.
  intros a b t th H. unfold get_thread in H. simpl in H.
  destruct t as [|[|t]]; simpl in H; inversion H; auto.
Qed.

Lemma cex_split_ci : CI Nat.ltb 4 cex_split.
Proof.
  split; [apply cex_gi; reflexivity|]. split; [|vm_compute; reflexivity].
  split.
  - unfold lock_inv, cex_split. simpl.
    split; [repeat constructor; simpl; intuition discriminate|].
    split; [repeat constructor; simpl; intuition discriminate|].
    split; [intros x t [H|[H|[H|[]]]]; inversion H; subst; eexists; reflexivity|].
    split; [intros t H; discriminate H|].
    intros t th H. apply cex_get in H. destruct H as [[-> ->]|[-> ->]]; simpl.
    + split; [exact I|]. split; [apply Permutation_refl|]. split; discriminate.
    + split; [exact I|]. split; [apply Permutation_refl|]. split; discriminate.
  - intros t th H. apply cex_get in H. destruct H as [[-> ->]|[-> ->]]; exact I.
Qed.

Lemma cex_root_ci : CI Nat.ltb 4 cex_root.
Proof.
  split; [apply cex_gi; reflexivity|]. split; [|vm_compute; reflexivity].
  split.
  - unfold lock_inv, cex_root. simpl.
    split; [repeat constructor; simpl; intuition discriminate|].
    split; [repeat constructor; simpl; intuition discriminate|].
    split; [intros x t [H|[H|[]]]; inversion H; subst; eexists; reflexivity|].
    split; [intros t H; inversion H; subst; eexists; reflexivity|].
    intros t th H. apply cex_get in H. destruct H as [[-> ->]|[-> ->]]; simpl.
    + split; [exact I|]. split; [apply Permutation_refl|]. split; reflexivity.
    + split; [exact I|]. split; [apply Permutation_refl|]. split; discriminate.
  - intros t th H. apply cex_get in H. destruct H as [[-> ->]|[-> ->]]; exact I.
Qed.

Lemma cex_stuck : forall s : st nat nat, s = cex_split \/ s = cex_root ->
  unfinished s 0 = true /\ forall t, enabled 4 s t = false.
Proof.
  intros s [-> | ->]; (split; [reflexivity|]); intros [|[|t]]; reflexivity.
Qed.

(* CI alone does not exclude deadlock *)
Theorem ci_alone_allows_deadlock :
  exists s : st nat nat, CI Nat.ltb 4 s /\ (exists t, unfinished s t = true) /\ forall t, enabled 4 s t = false.
Proof.
  exists cex_split. split; [exact cex_split_ci|].
  destruct (cex_stuck cex_split (or_introl eq_refl)) as [H1 H2]. split; [exists 0; exact H1|exact H2].
Qed.

(* and each of the two added facts is needed on its own: each state violates exactly one of them *)
Theorem both_facts_needed :
  (CI Nat.ltb 4 cex_split /\ (forall t, enabled 4 cex_split t = false) /\
     pc_ok2_b (tr cex_split) (InsWantSplitRight ins15 2 0 1) = false) /\
  (CI Nat.ltb 4 cex_root /\ (forall t, enabled 4 cex_root t = false) /\
     pc_ok2_b (tr cex_root) (InsWantRootRight ins15 0 1) = false).
Proof.
  split; (split; [first [exact cex_split_ci|exact cex_root_ci]|]); (split; [|reflexivity]).
  - apply (cex_stuck cex_split). auto.
  - apply (cex_stuck cex_root). auto.
Qed.

Print Assumptions ci_alone_allows_deadlock.
Print Assumptions both_facts_needed.

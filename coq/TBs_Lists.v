(* TBs_Lists.v — generic list facts for TBs_*: positions in a flattened list ([fpos]: where the image of the j-th
   element begins in [flat_map f l]; images may have any length) and the index of the last element satisfying a
   boolean predicate ([lastb]). *)
From Coq Require Import List Bool PeanoNat Lia.
Import ListNotations.

Section FPos.
Context {A B : Type}.
Variable f : A -> list B.

(* the position in [flat_map f l] at which the image of the j-th element of l begins *)
Definition fpos (l : list A) (j : nat) : nat := length (flat_map f (firstn j l)).

Lemma fpos_0 l : fpos l 0 = 0.
Proof. reflexivity. Qed.
Lemma fpos_nil j : fpos [] j = 0.
Proof. unfold fpos. rewrite firstn_nil. reflexivity. Qed.
Lemma fpos_cons a l j : fpos (a :: l) (S j) = length (f a) + fpos l j.
Proof. unfold fpos. simpl. rewrite app_length. reflexivity. Qed.

Lemma fpos_nth : forall l j r i e,
  nth_error l j = Some r -> nth_error (f r) i = Some e -> nth_error (flat_map f l) (fpos l j + i) = Some e.
Proof.
  induction l as [|a l IH]; intros j r i e Hj Hi; [destruct j; discriminate Hj|].
  destruct j as [|j]; simpl in Hj.
  - inversion Hj; subst a. rewrite fpos_0. simpl. rewrite nth_error_app1; [exact Hi|].
    apply nth_error_Some. rewrite Hi. discriminate.
  - rewrite fpos_cons. simpl. rewrite nth_error_app2 by lia.
    replace (length (f a) + fpos l j + i - length (f a)) with (fpos l j + i) by lia. eapply IH; eauto.
Qed.

Lemma fpos_inv : forall l p e, nth_error (flat_map f l) p = Some e ->
  exists j r i, nth_error l j = Some r /\ nth_error (f r) i = Some e /\ p = fpos l j + i.
Proof.
  induction l as [|a l IH]; intros p e Hp; [destruct p; discriminate Hp|]. simpl in Hp.
  destruct (Nat.lt_ge_cases p (length (f a))) as [Hlt|Hge].
  - rewrite nth_error_app1 in Hp by exact Hlt. exists 0, a, p. rewrite fpos_0. auto.
  - rewrite nth_error_app2 in Hp by exact Hge. destruct (IH _ _ Hp) as (j & r & i & H1 & H2 & H3).
    exists (S j), r, i. split; [exact H1|]. split; [exact H2|]. rewrite fpos_cons. lia.
Qed.

Lemma fpos_step : forall l j r, nth_error l j = Some r -> fpos l (S j) = fpos l j + length (f r).
Proof.
  induction l as [|a l IH]; intros j r Hj; [destruct j; discriminate Hj|].
  destruct j as [|j]; simpl in Hj.
  - inversion Hj; subst a. rewrite fpos_cons, !fpos_0. lia.
  - rewrite !fpos_cons. rewrite (IH j r Hj). lia.
Qed.

Lemma fpos_mono : forall l j1 j2, j1 <= j2 -> fpos l j1 <= fpos l j2.
Proof.
  induction l as [|a l IH]; intros j1 j2 H; [rewrite !fpos_nil; lia|].
  destruct j1 as [|j1]; [rewrite fpos_0; lia|]. destruct j2 as [|j2]; [lia|].
  rewrite !fpos_cons. specialize (IH j1 j2). lia.
Qed.

Lemma fpos_lt l j1 j2 r1 : j1 < j2 -> nth_error l j1 = Some r1 -> fpos l j1 + length (f r1) <= fpos l j2.
Proof.
  intros H H1. rewrite <- (fpos_step l j1 r1 H1). apply fpos_mono. lia.
Qed.

(* positions determine the order of the elements they come from *)
Lemma fpos_order l j1 j2 r1 r2 i1 i2 :
  nth_error l j1 = Some r1 -> i1 < length (f r1) -> nth_error l j2 = Some r2 -> i2 < length (f r2) ->
  fpos l j1 + i1 <= fpos l j2 + i2 -> j1 <= j2.
Proof.
  intros H1 L1 H2 L2 H. destruct (Nat.le_gt_cases j1 j2) as [Hle|Hgt]; [exact Hle|].
  pose proof (fpos_lt l j2 j1 r2 Hgt H2). lia.
Qed.

Lemma fpos_order_lt l j1 j2 r1 r2 i1 i2 :
  nth_error l j1 = Some r1 -> i1 < length (f r1) -> nth_error l j2 = Some r2 -> i2 < length (f r2) ->
  fpos l j1 + i1 < fpos l j2 + i2 -> j1 < j2 \/ (j1 = j2 /\ i1 < i2).
Proof.
  intros H1 L1 H2 L2 H. destruct (Nat.lt_trichotomy j1 j2) as [Hlt|[Heq|Hgt]].
  - left. exact Hlt.
  - right. subst j2. split; [reflexivity|lia].
  - pose proof (fpos_lt l j2 j1 r2 Hgt H2). lia.
Qed.

End FPos.

Section Last.
Context {A : Type}.
Variable p : A -> bool.

(* the index of the last element of l that satisfies p *)
Fixpoint last_o (l : list A) : option nat :=
  match l with
  | [] => None
  | r :: l' => match last_o l' with
               | Some a => Some (S a)
               | None => if p r then Some 0 else None
               end
  end.
Definition lastb (l : list A) : nat := match last_o l with Some a => a | None => 0 end.

Lemma last_o_none : forall l, (forall j r, nth_error l j = Some r -> p r = false) -> last_o l = None.
Proof.
  induction l as [|r l IH]; intros H; [reflexivity|]. simpl.
  rewrite IH by (intros j r' Hj; apply (H (S j)); exact Hj). rewrite (H 0 r eq_refl). reflexivity.
Qed.

Lemma last_o_some : forall l a r, nth_error l a = Some r -> p r = true ->
  (forall j r', a < j -> nth_error l j = Some r' -> p r' = false) -> last_o l = Some a.
Proof.
  induction l as [|r0 l IH]; intros a r Ha Hb Hlater; [destruct a; discriminate Ha|].
  destruct a as [|a]; simpl in Ha.
  - inversion Ha; subst r0. simpl.
    rewrite last_o_none by (intros j r' Hj; apply (Hlater (S j)); [lia|exact Hj]). rewrite Hb. reflexivity.
  - simpl. rewrite (IH a r Ha Hb); [reflexivity|]. intros j r' Hj Hn. apply (Hlater (S j)); [lia|exact Hn].
Qed.

Lemma nth_error_firstn_lt' : forall (l : list A) n j, j < n -> nth_error (firstn n l) j = nth_error l j.
Proof.
  induction l as [|a l IH]; intros n j Hj.
  - rewrite firstn_nil. reflexivity.
  - destruct n as [|n]; [lia|]. destruct j as [|j]; [reflexivity|]. simpl. apply IH. lia.
Qed.

(* a is the last element satisfying p among the first n *)
Lemma lastb_prefix l a n r :
  a < n -> nth_error l a = Some r -> p r = true ->
  (forall j r', a < j < n -> nth_error l j = Some r' -> p r' = false) -> lastb (firstn n l) = a.
Proof.
  intros Han Ha Hp Hlater. unfold lastb. rewrite (last_o_some (firstn n l) a r); [reflexivity| |exact Hp|].
  - rewrite nth_error_firstn_lt' by exact Han. exact Ha.
  - intros j r' Hj Hn.
    assert (Hjn : j < n).
    { assert (Hl : j < length (firstn n l)) by (apply nth_error_Some; rewrite Hn; discriminate).
      rewrite firstn_length in Hl. lia. }
    rewrite nth_error_firstn_lt' in Hn by exact Hjn. apply (Hlater j r'); [lia|exact Hn].
Qed.

End Last.

(* C4k_Final.v — property C04, completeness clause at KEY level, for every REACHABLE state of the concurrent model
   (premises as in Final.v / C4b_Final.v: strict weak order, even order >= 4, distinct thread ids, EVERY schedule):
   "every KEY >= start that is present for the whole life of the scan is reported"; the value bound to the key may be
   changed by concurrent Updates/Inserts while the scan runs.  The theorems of C4k_Proof.v instantiated with
   CurInv_reachable. *)
From Coq Require Import List PeanoNat.
From GB Require Import Model Inv Conc GI Lin LinDef C4_Lists C4_Blocks C4_Inv C4_Proof C4_Trace C4b_Blocks C4b_Proof
  C4k_Proof.
Import ListNotations.

Section Final.
Variables (K V : Type) (ltb : K -> K -> bool).
Hypothesis HS : SWO ltb.
Variable order : nat.
Hypothesis Heven : Nat.even order = true.
Hypothesis H4 : 4 <= order.
Variable progs : list (tid * list (cop K V)).
Hypothesis Hnd : NoDup (map fst progs).

(* a reachable state *)
Variable sched : list tid.
Let s := fst (exec ltb order (init_st progs) sched).

Let reach_inv : CurInv ltb order s := CurInv_reachable K V ltb HS order Heven H4 progs sched Hnd.

(* KEY-LEVEL COMPLETENESS: s is a reachable state in which thread me is about to invoke CScan k cnt; sched2 is any
   continuation during which me does not return from that call and SOME pair with a key equivalent to kx (kx not
   below k) is stored in every state (not necessarily the same pair: the value may change); if me's next step reports
   the end of the scan, a pair with a key equivalent to kx is among the pairs it returns. *)
Theorem C04_complete_key_level : forall me k cnt th sched2 kx s2 acq ev,
  get_thread me (ths s) = Some th -> tpc th = Idle -> hd_error (prog th) = Some (CScan k cnt) ->
  ltb kx k = false ->
  along K V ltb order (fun s1 => (exists x, In x (abs ltb s1) /\ eqvb ltb (fst x) kx = true) /\ calling me (prog th) s1) s sched2 ->
  cstep ltb order (fst (exec ltb order s sched2)) me = Stepped s2 acq ev -> In EScanEnd ev ->
  exists acc x, In x acc /\ eqvb ltb (fst x) kx = true /\ ev = [EScanEnd; EReturn (RPairs (rev acc))].
Proof.
  intros me k cnt th sched2 kx s2 acq ev Hg Hpc Hpr Hkk Hal Hc Hin.
  exact (scan_complete_key K V ltb HS order Heven H4 s me k cnt th sched2 kx s2 acq ev reach_inv Hg Hpc Hpr Hkk Hal Hc Hin).
Qed.

(* the same, and the reported pair x was emitted (event EPair x) by a step of thread me WITHIN the run sched2, at
   which x was in the abstract map (before and after: that step does not change the map): the reported value is the
   one bound to the key at the moment the pair was yielded.
     sometime Q s sched2 : Q s1 t s1' ev holds of some step s1 --t--> s1' (events ev) of the run of sched2 from s
     yields me x s1 t s1' ev := t = me /\ ev = [EPair x] /\ In x (abs ltb s1') /\ abs ltb s1' = abs ltb s1 *)
Theorem C04_complete_key_level_stored : forall me k cnt th sched2 kx s2 acq ev,
  get_thread me (ths s) = Some th -> tpc th = Idle -> hd_error (prog th) = Some (CScan k cnt) ->
  ltb kx k = false ->
  along K V ltb order (fun s1 => (exists x, In x (abs ltb s1) /\ eqvb ltb (fst x) kx = true) /\ calling me (prog th) s1) s sched2 ->
  cstep ltb order (fst (exec ltb order s sched2)) me = Stepped s2 acq ev -> In EScanEnd ev ->
  exists acc x, In x acc /\ eqvb ltb (fst x) kx = true /\ ev = [EScanEnd; EReturn (RPairs (rev acc))] /\
    sometime ltb order (yields ltb me x) s sched2.
Proof.
  intros me k cnt th sched2 kx s2 acq ev Hg Hpc Hpr Hkk Hal Hc Hin.
  exact (scan_complete_key_stored K V ltb HS order Heven H4 s me k cnt th sched2 kx s2 acq ev reach_inv Hg Hpc Hpr Hkk Hal Hc Hin).
Qed.

(* from any reachable state of the life of the call in which the key-level life invariant holds *)
Theorem C04_complete_key_life : forall sched2 me k cnt kx s2 acq ev,
  ltb kx k = false ->
  along K V ltb order (fun s1 => key_stored ltb kx s1 /\ scan_head me k cnt s1) s sched2 ->
  LifeK ltb me k cnt kx s ->
  cstep ltb order (fst (exec ltb order s sched2)) me = Stepped s2 acq ev -> In EScanEnd ev ->
  exists acc x, In x acc /\ eqvb ltb (fst x) kx = true /\ ev = [EScanEnd; EReturn (RPairs (rev acc))] /\
    (In x (Y me s) \/ sometime ltb order (yields ltb me x) s sched2).
Proof.
  intros sched2 me k cnt kx s2 acq ev Hkk Hal HL Hc Hin.
  exact (scan_complete_key_life K V ltb HS order Heven H4 sched2 s me k cnt kx s2 acq ev reach_inv Hkk Hal HL Hc Hin).
Qed.

(* the prefix yielded so far is complete at key level *)
Theorem C04_prefix_key_level : forall me k cnt th sched2 kx th1,
  get_thread me (ths s) = Some th -> tpc th = Idle -> hd_error (prog th) = Some (CScan k cnt) ->
  ltb kx k = false ->
  along K V ltb order (fun s1 => (exists x, In x (abs ltb s1) /\ eqvb ltb (fst x) kx = true) /\ calling me (prog th) s1) s sched2 ->
  get_thread me (ths (fst (exec ltb order s sched2))) = Some th1 -> is_cur (tpc th1) = true ->
  (exists y, In y (yielded (tpc th1)) /\ eqvb ltb (fst y) kx = true) \/
  (exists e1 r, yielded (tpc th1) = e1 :: r /\ ltb (fst e1) kx = true) \/
  yielded (tpc th1) = [].
Proof.
  intros me k cnt th sched2 kx th1 Hg Hpc Hpr Hkk Hal Hg1 Hcur1.
  exact (scan_prefix_key K V ltb HS order Heven H4 s me k cnt th sched2 kx th1 reach_inv Hg Hpc Hpr Hkk Hal Hg1 Hcur1).
Qed.

(* the pair-level theorem C4b_Final.C04_complete_general is the special case "the same pair all along" (up to the
   choice of the representative: here the conclusion gives a pair with an EQUIVALENT key; with In x (abs s1) at the
   yielding step and abs strictly sorted, it is x itself — see C4b_Final for that form) *)

End Final.

(* SUMMARY (agent C4k).  Files: C4k_Proof.v, C4k_Final.v, C4k_Demo.v (compile in this order).  Route (a): the life
   invariant of C4b_Proof.v restated for a key (desc_okk, coveredk, pendingk, LifeK; LifeK_step applies the pair-level
   lemmas desc_ok_step / land_step / B3_successor / B5_first_general to the pair carrying the key in the CURRENT state),
   plus yield_origin (every yielded pair was emitted by a step at which it was in abs).  Everything is proved, no
   axioms.  WHAT REMAINS: nothing of the task. *)
Print Assumptions C04_complete_key_level_stored.
Print Assumptions C04_complete_key_life.
Print Assumptions C04_prefix_key_level.
Print Assumptions C04_complete_key_level.

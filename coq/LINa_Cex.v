(* LINa_Cex.v — DISCREPANCIES (machine-checked): abs_step_ok for a non-Delete step does NOT follow from CIall
   (even together with all_small_b and all_op_b).  Two facts are missing; each counterexample state below satisfies
   every clause of CIall, all_small_b, all_op_b and the OTHER missing fact.
   A. nothing relates the operation recorded in the pc (which cstep executes) to the head of the program (from
      which lp_step reads the call): [cexA], K = V = nat.   Missing fact: prog_ok (LINa_Prog.v, proved inductive).
   B. pc_ok_b says that the placeholder of an Update in mode 2 is EQUIVALENT to the Update's key; when equivalent
      keys need not be equal (Comparable keys: KeyOrders.fst_ltb), the callback's store keeps the stored key whereas
      the specification's put stores the Update's key: [cexB], K = nat * nat ordered by the first component.
      Missing fact: key_exact (LINa_Exact.v, proved inductive from CIall). *)
From Coq Require Import List Bool Lia PeanoNat Permutation.
From GB Require Import Model Spec Inv Conc GI LockInv LockProof CInv CIDef CInv3 Frame FrameInv FrameProof
  NoDeadlock PCb1_Blocks PCb1_Proof OCCc_Blocks Lin LinDef LINa_Prog LINa_Blocks LINa_Core LINa_Exact.
Import ListNotations.

Section Cex.

Lemma one_thread {K V} (p : thread K V) t th : get_thread t [(0, p)] = Some th -> t = 0 /\ th = p.
Proof.
  unfold get_thread. simpl. destruct t; simpl; intros H; [inversion H; auto | discriminate H].
Qed.

(* ---- A ---- *)
Definition cexA : st nat nat :=
  {| tr := ILeaf 0 None []; tm := Some 0; lk := []; fresh := 1;
     ths := [(0, {| prog := [CSearch 5]; tpc := WantRoot (CInsert 1 1) 0; results := [] |})] |}.

Lemma cexA_inv2 : lock_inv2 nat nat cexA.
Proof.
  split.
  - unfold lock_inv, cexA. simpl.
    split; [constructor|].
    split; [repeat constructor; simpl; tauto|].
    split; [intros x t []|].
    split; [intros t H; inversion H; subst; eexists; reflexivity|].
    intros t th H. apply one_thread in H. destruct H as [-> ->]. simpl.
    split; [exact I|]. split; [apply Permutation_refl | tauto].
  - intros t th H. apply one_thread in H. destruct H as [-> ->]. reflexivity.
Qed.

Lemma cexA_CIall : CIall Nat.ltb 4 cexA.
Proof.
  split; [split; [split; [|split]|]|split; [split; [|split]|]].
  - unfold GI, cexA. simpl. split; [repeat constructor; simpl; tauto|]. split; [repeat constructor|]. repeat split; auto; lia.
  - exact cexA_inv2.
  - vm_compute. reflexivity.
  - vm_compute. reflexivity.
  - unfold ids_ok, cexA. simpl. split; repeat constructor; simpl; tauto.
  - exact cexA_inv2.
  - intros t th H. apply one_thread in H. destruct H as [-> ->]. exact I.
  - split; [|split]; vm_compute; reflexivity.
Qed.

Theorem abs_step_needs_prog_ok :
  exists (s : st nat nat) th,
    SWO Nat.ltb /\ Nat.even 4 = true /\ 4 <= 4 /\ CIall Nat.ltb 4 s /\
    all_small_b 4 s = true /\ all_op_b s = true /\ key_exact s /\
    get_thread 0 (ths s) = Some th /\ is_delete_pc nat nat (tpc th) = false /\
    ~ abs_step_ok Nat.ltb 4 s 0.
Proof.
  exists cexA. eexists.
  split; [exact nat_SWO|]. split; [reflexivity|]. split; [lia|]. split; [exact cexA_CIall|].
  split; [vm_compute; reflexivity|]. split; [vm_compute; reflexivity|].
  split; [intros t th H; apply one_thread in H; destruct H as [-> ->]; exact I|].
  split; [reflexivity|]. split; [reflexivity|].
  intros H.
  assert (Hs : exists s' acq ev, cstep Nat.ltb 4 cexA 0 = Stepped s' acq ev) by (vm_compute; eauto).
  destruct Hs as (s' & acq & ev & Hs). specialize (H s' acq ev Hs).
  vm_compute in Hs. inversion Hs; subst; clear Hs. vm_compute in H. destruct H as [H _]. discriminate H.
Qed.

(* ---- B ---- *)
Definition pltb (a b : nat * nat) : bool := fst a <? fst b.

Lemma pltb_SWO : SWO pltb.
Proof.
  unfold pltb. split.
  - intros a. apply Nat.ltb_irrefl.
  - intros a b c H1 H2. apply Nat.ltb_lt in H1, H2. apply Nat.ltb_lt. lia.
  - intros a b c H1 H2. apply Nat.ltb_ge in H1, H2. apply Nat.ltb_ge. lia.
Qed.

Definition fB : option nat -> nat := fun _ => 9.

Definition cexB : st (nat * nat) nat :=
  {| tr := ILeaf 0 None [((1, 7), 0)]; tm := None; lk := [(0, 0)]; fresh := 1;
     ths := [(0, {| prog := [CUpdate (1, 0) fB]; tpc := UpdCallback (CUpdate (1, 0) fB) 0 2 0; results := [] |})] |}.

Lemma cexB_inv2 : lock_inv2 (nat * nat) nat cexB.
Proof.
  split.
  - unfold lock_inv, cexB. simpl.
    split; [repeat constructor; simpl; tauto|].
    split; [repeat constructor; simpl; tauto|].
    split; [intros x t [H|[]]; inversion H; subst; eexists; reflexivity|].
    split; [intros t H; discriminate H|].
    intros t th H. apply one_thread in H. destruct H as [-> ->]. simpl.
    split; [exact I|]. split; [apply Permutation_refl|]. split; discriminate.
  - intros t th H. apply one_thread in H. destruct H as [-> ->]. exact I.
Qed.

Lemma cexB_CIall : CIall pltb 4 cexB.
Proof.
  split; [split; [split; [|split]|]|split; [split; [|split]|]].
  - unfold GI, cexB. simpl. split; [repeat constructor; simpl; tauto|]. split; [repeat constructor|]. repeat split; auto; lia.
  - exact cexB_inv2.
  - vm_compute. reflexivity.
  - vm_compute. reflexivity.
  - unfold ids_ok, cexB. simpl. split; repeat constructor; simpl; tauto.
  - exact cexB_inv2.
  - intros t th H. apply one_thread in H. destruct H as [-> ->]. exact I.
  - split; [|split]; vm_compute; reflexivity.
Qed.

Lemma cexB_prog_ok : prog_ok cexB.
Proof. unfold prog_ok, cexB. simpl. repeat constructor. Qed.

Theorem abs_step_needs_key_exact :
  exists (s : st (nat * nat) nat) th,
    SWO pltb /\ Nat.even 4 = true /\ 4 <= 4 /\ CIall pltb 4 s /\
    all_small_b 4 s = true /\ all_op_b s = true /\ prog_ok s /\
    get_thread 0 (ths s) = Some th /\ is_delete_pc (nat * nat) nat (tpc th) = false /\
    ~ abs_step_ok pltb 4 s 0.
Proof.
  exists cexB. eexists.
  split; [exact pltb_SWO|]. split; [reflexivity|]. split; [lia|]. split; [exact cexB_CIall|].
  split; [vm_compute; reflexivity|]. split; [vm_compute; reflexivity|].
  split; [exact cexB_prog_ok|].
  split; [reflexivity|]. split; [reflexivity|].
  intros H.
  assert (Hs : exists s' acq ev, cstep pltb 4 cexB 0 = Stepped s' acq ev) by (vm_compute; eauto).
  destruct Hs as (s' & acq & ev & Hs). specialize (H s' acq ev Hs).
  vm_compute in Hs. inversion Hs; subst; clear Hs. vm_compute in H. destruct H as [H _]. discriminate H.
Qed.

End Cex.

Print Assumptions abs_step_needs_prog_ok.
Print Assumptions abs_step_needs_key_exact.

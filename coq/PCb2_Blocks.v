(* PCb2_Blocks.v — the atomic blocks of Conc.v do not shrink the key range of any node outside their write set:
   [bm W t t'] (PCb2_Bounds.v) for leaf writes, the separator update and child split of Insert/Update, the root
   split, the root collapse, the rebalancing step of Delete and the whole unwinding of Delete. *)
From Coq Require Import List Permutation Lia Bool PeanoNat.
From GB Require Import ListLemmas TreeLemmas SearchProof Inv Frame LockProof CInv UpdLemmas FrameRel FrameInv FrameBlocks
  PCb2_Bounds.
Import ListNotations.

Section Blocks.
Variables (K V : Type) (ltb : K -> K -> bool).
Hypothesis HS : SWO ltb.
Notation itree := (itree K V).
Notation out := (out K V).
Notation lbm := (lbm ltb).
Notation bm := (bm ltb).

(* ---------- more rules for lbm ---------- *)
Lemma lbm_nil W c : lbm W [] c.
Proof. intros y b _ []. Qed.

Lemma lbm_app_l W a b c : lbm W a c -> lbm W b c -> lbm W (a ++ b) c.
Proof. intros H1 H2 y v Hy Hin. apply in_app_iff in Hin. destruct Hin; eauto. Qed.

Lemma lbm_cons_l W x v a c : (In x W \/ lbm W [(x, v)] c) -> lbm W a c -> lbm W ((x, v) :: a) c.
Proof.
  intros H1 H2 y b Hy [E|Hin]; [|eauto].
  inversion E; subst. destruct H1 as [H1|H1]; [tauto|]. apply H1; simpl; auto.
Qed.

Lemma lbm_tgt W a c c' : lbm W a c -> incl c c' -> lbm W a c'.
Proof. intros H Hi y b Hy Hin. destruct (H y b Hy Hin) as [b' [A B]]. exists b'. split; [apply Hi; exact A | exact B]. Qed.

Lemma lbm_weak W a c : lbm [] a c -> lbm W a c.
Proof. apply lbm_mono. intros x []. Qed.

Lemma hi_le_sep a b : ltb b a = false -> hi_le ltb (Some a) (Some b).
Proof. intros H k Hk. simpl in *. eapply (lt_le_trans K ltb HS); eauto. Qed.

Ltac incl_app := let z := fresh "z" in let Hz := fresh "Hz" in
  intros z Hz; simpl; rewrite ?in_app_iff; simpl; rewrite ?in_app_iff; simpl in Hz; rewrite ?in_app_iff in Hz; tauto.

(* ---------- leaf writes ---------- *)
Lemma upd_leaf_bm x i nx nx' es es' (t t' : itree) :
  NoDup (ids t) -> find x t = Some (ILeaf i nx es) -> upd x (fun _ => Ok (ILeaf i nx' es')) t = Ok t' -> bm [] t t'.
Proof.
  intros Hnd Hf Hu.
  destruct (upd_leaf_rel K V True [x] x i nx nx' es es' t t' Hnd Hf Hu (or_introl eq_refl)) as (_ & _ & Hnd' & _).
  apply (upd_bm K V ltb [] x (ILeaf i nx es) (ILeaf i nx' es') t t' Hnd Hnd' Hf eq_refl Hu).
  intros lo hi. apply lbm_refl.
Qed.

Lemma leaf_root_bm i nx nx' (es es' : list (K * V)) : bm [] (ILeaf i nx es) (ILeaf i nx' es').
Proof. intros x b _ H. exists b. split; [exact H | apply brel_refl]. Qed.

(* ---------- descent of Insert/Update: at most a leaf write ---------- *)
Lemma ins_descend_bm o n (t : itree) l fr tmx (out : out) :
  ins_descend ltb o n t l fr tmx = Ok out -> NoDup (ids t) -> bm [] t (otr out).
Proof.
  intros H Hnd. unfold ins_descend, mk in H.
  destruct (find n t) as [[i nx es|pi cs]|] eqn:Hf; [| |discriminate H].
  - crunch H; inversion H; subst; clear H; cbn [otr].
    all: try (eapply upd_leaf_bm; eauto; fail).
    all: apply bm_refl.
  - crunch H; inversion H; subst; clear H; cbn [otr]. apply bm_refl.
Qed.

(* ---------- Insert/Update at an internal node ---------- *)
Lemma ins_nosplit_bm p pi cs index sep sep' child (t t' : itree) :
  NoDup (ids t) -> find p t = Some (INode pi cs) -> nth_error cs index = Some (sep, child) ->
  upd p (fun _ => Ok (INode pi (set_nth index (sep', child) cs))) t = Ok t' ->
  (index = 0 \/ sep' = sep) ->
  bm [nid child] t t'.
Proof.
  intros Hnd Hf Hn Hu Hs.
  destruct (ins_nosplit_rel K V True [p] p pi cs index sep sep' child t t' Hnd Hf Hn Hu (or_introl eq_refl)) as (_ & _ & Hnd' & _).
  destruct (nth_error_split cs index Hn) as [A [B [E L]]]. subst cs index.
  rewrite set_nth_app in Hu.
  apply (upd_bm K V ltb [nid child] p _ (INode pi (A ++ (sep', child) :: B)) t t' Hnd Hnd' Hf eq_refl Hu). intros lo hi.
  apply (kids_lbm K V ltb [nid child] pi A [(sep, child)] [(sep', child)] B).
  - destruct Hs as [Hs| ->]; [left; destruct A; [reflexivity|discriminate Hs] | right; intros h; apply hi_le_refl].
  - intros h. rewrite !bnodesl_cons. simpl. rewrite !app_nil_r. apply lbm_incl. intros y b Hy Hin.
    eapply bnodes_lo; [|exact Hin]. intro X. apply Hy. left. auto.
Qed.

Lemma split_lbm order fr (child lft rgt : itree) rs :
  isplit order fr child = Some (lft, rgt) -> icount child <= 2 * Nat.div2 order -> ismallest rgt = Ok rs ->
  forall lo lo' h, lbm [nid child; fr] (bnodes lo h child) (bnodes lo' (Some rs) lft ++ bnodes (Some rs) h rgt).
Proof.
  unfold isplit. destruct (icount child <? order); [discriminate|].
  destruct child as [i nx es|i cs]; intros H Hle Hs lo lo' h; inversion H; subst; clear H.
  - intros y b Hy [E|[]]. inversion E; subst. exfalso. apply Hy. simpl. auto.
  - simpl icount in Hle. set (hh := Nat.div2 order) in *.
    assert (E : firstn hh (skipn hh cs) = skipn hh cs) by (apply firstn_all2; rewrite skipn_length; lia).
    rewrite E in *. simpl in Hs.
    assert (Ecs : bnodesl h cs = bnodesl (Some rs) (firstn hh cs) ++ bnodesl h (skipn hh cs)).
    { transitivity (bnodesl h (firstn hh cs ++ skipn hh cs)); [rewrite firstn_skipn; reflexivity|].
      rewrite bnodesl_app. destruct (skipn hh cs) as [|[s1 c1] r1]; [discriminate Hs|]. inversion Hs; subst. reflexivity. }
    apply lbm_incl. intros y b Hy. rewrite !bnodes_node, Ecs. simpl. rewrite !in_app_iff. simpl.
    intros [X|[X|X]]; auto. inversion X; subst. exfalso. apply Hy. simpl. auto.
Qed.

Lemma ins_split_bm order p pi cs index sep sep' rs child lft rgt fr (t t' : itree) :
  NoDup (ids t) -> find p t = Some (INode pi cs) -> nth_error cs index = Some (sep, child) ->
  isplit order fr child = Some (lft, rgt) -> ismallest rgt = Ok rs ->
  upd p (fun _ => Ok (INode pi (ins_nth (index + 1) (rs, rgt) (set_nth index (sep', lft) cs)))) t = Ok t' ->
  ~ In fr (ids t) -> icount child <= 2 * Nat.div2 order ->
  (index = 0 \/ sep' = sep) ->
  bm [nid child; fr] t t'.
Proof.
  intros Hnd Hf Hn Hs Hrs Hu Hfr Hle Hsep.
  destruct (ins_split_rel K V ltb True order [p; nid child; fr] p pi cs index sep sep' rs child lft rgt fr t t' Hnd Hf Hn Hs Hu Hfr)
    as (_ & _ & Hnd' & _); simpl; auto.
  destruct (nth_error_split cs index Hn) as [A [B [E L]]]. subst cs index.
  rewrite set_nth_app, ins_nth_app1 in Hu.
  apply (upd_bm K V ltb [nid child; fr] p _ (INode pi (A ++ (sep', lft) :: (rs, rgt) :: B)) t t' Hnd Hnd' Hf eq_refl Hu). intros lo hi.
  apply (kids_lbm K V ltb [nid child; fr] pi A [(sep, child)] [(sep', lft); (rs, rgt)] B).
  - destruct Hsep as [Hz| ->]; [left; destruct A; [reflexivity|discriminate Hz] | right; intros h; apply hi_le_refl].
  - intros h. rewrite !bnodesl_cons. simpl. rewrite !app_nil_r. eapply split_lbm; eauto.
Qed.

(* ---------- the root ---------- *)
Lemma root_split_bm order fr ls rs lft rgt (t : itree) :
  NoDup (ids t) -> isplit order fr t = Some (lft, rgt) -> ismallest rgt = Ok rs ->
  ~ In fr (ids t) -> ~ In (S fr) (ids t) -> icount t <= 2 * Nat.div2 order ->
  bm [nid t; fr; S fr] t (INode (S fr) [(ls, lft); (rs, rgt)]).
Proof.
  intros Hnd Hs Hrs H1 H2 Hle.
  destruct (root_split_rel K V ltb True order [nid t; fr; S fr] fr ls rs lft rgt t Hnd Hs H1 H2) as (_ & _ & Hnd'); simpl; auto.
  apply bm_of_lbm; auto. rewrite bnodes_node, !bnodesl_cons. simpl. rewrite app_nil_r.
  eapply lbm_tgt; [eapply lbm_mono; [|eapply split_lbm; eauto]|].
  - intros x [<-|[<-|[]]]; simpl; auto.
  - intros z Hz. right. exact Hz.
Qed.

Lemma bnodes_split lo h (t : itree) :
  bnodes lo h t = (nid t, (lo, h)) :: match t with ILeaf _ _ _ => [] | INode _ cs => bnodesl h cs end.
Proof. destruct t; reflexivity. Qed.

Lemma root_collapse_bm r k (c : itree) :
  NoDup (ids (INode r [(k, c)])) -> bm [r] (INode r [(k, c)]) c.
Proof.
  intros Hnd.
  assert (Hnd' : NoDup (ids c)).
  { rewrite ids_node in Hnd. unfold idsl in Hnd. simpl in Hnd. rewrite app_nil_r in Hnd. inversion Hnd; auto. }
  apply bm_of_lbm; auto. rewrite bnodes_node, bnodesl_cons. simpl. rewrite app_nil_r.
  apply lbm_cons_l; [left; simpl; auto|].
  rewrite (bnodes_split (Some k) None c), (bnodes_split None None c).
  apply lbm_cons_l.
  - right. intros y b _ [E|[]]. inversion E; subst. exists (None, None). split; [left; reflexivity|].
    split; [apply lo_ge_none | apply hi_le_refl].
  - apply lbm_incl. intros y b _ Hin. right. exact Hin.
Qed.


(* ------------------------------------------------------------------------------------------------ *)
(* Delete: the order facts the rebalancing argument needs, as an invariant of the intermediate trees   *)
(* ------------------------------------------------------------------------------------------------ *)
(* the first separator inside c is not below c's separator k in its parent *)
Definition fsep_ge (k : K) (c : itree) : Prop :=
  match c with INode _ ((s1, _) :: _) => ltb s1 k = false | _ => True end.

(* internal nodes are not empty, and every child's first separator is at or above the child's own separator *)
Fixpoint J (t : itree) : Prop :=
  match t with
  | ILeaf _ _ _ => True
  | INode _ cs => cs <> [] /\
      (fix go (cs : list (K * itree)) : Prop :=
         match cs with [] => True | (k, c) :: r => (fsep_ge k c /\ J c) /\ go r end) cs
  end.
Definition Jl : list (K * itree) -> Prop :=
  fix go cs := match cs with [] => True | (k, c) :: r => (fsep_ge k c /\ J c) /\ go r end.

Lemma J_node i cs : J (INode i cs) = (cs <> [] /\ Jl cs). Proof. reflexivity. Qed.
Lemma Jl_cons k c r : Jl ((k, c) :: r) = ((fsep_ge k c /\ J c) /\ Jl r). Proof. reflexivity. Qed.
Lemma Jl_app a b : Jl (a ++ b) <-> Jl a /\ Jl b.
Proof. induction a as [|[k c] a IH]; simpl; [tauto|]. rewrite IH. tauto. Qed.

Lemma J_find x : forall t n : itree, J t -> find x t = Some n -> J n.
Proof.
  induction t as [i nx es|i cs IH] using itree_ind2; intros n HJ Hf; rewrite find_eq in Hf; simpl nid in Hf.
  - destruct (i =? x); [|discriminate]. inversion Hf; subst. exact HJ.
  - destruct (i =? x); [inversion Hf; subst; exact HJ|].
    rewrite J_node in HJ. destruct HJ as [_ HJ].
    induction cs as [|[k c] r IHr]; [discriminate|].
    inversion IH as [|? ? H1 H2]; subst. rewrite findl_cons in Hf. rewrite Jl_cons in HJ. simpl in H1.
    destruct (find x c) eqn:Ec.
    + inversion Hf; subst. apply H1; tauto.
    + apply IHr; tauto.
Qed.

Lemma fsep_seps k i (cs cs' : list (K * itree)) : map fst cs' = map fst cs -> fsep_ge k (INode i cs) -> fsep_ge k (INode i cs').
Proof. destruct cs as [|[s c] r]; destruct cs' as [|[s' c'] r']; simpl; intros H; try discriminate; auto. inversion H; subst. auto. Qed.

Lemma J_upd x (n n' : itree) : J n' -> (forall k, fsep_ge k n -> fsep_ge k n') -> forall t t' : itree,
  NoDup (ids t) -> J t -> find x t = Some n -> upd x (fun _ => Ok n') t = Ok t' ->
  J t' /\ (forall k, fsep_ge k t -> fsep_ge k t').
Proof.
  intros Hn' Hfs. induction t as [i nx es|i cs IH] using itree_ind2; intros t' Hnd HJ Hf Hu;
    rewrite find_eq in Hf; rewrite upd_eq in Hu; simpl nid in *.
  - destruct (i =? x); [|discriminate]. inversion Hf; inversion Hu; subst. auto.
  - destruct (i =? x).
    + inversion Hf; inversion Hu; subst. auto.
    + rewrite ids_node in Hnd. inversion Hnd as [|? ? _ Hnd']; subst. clear Hnd.
      rewrite J_node in HJ. destruct HJ as [Hne HJ].
      assert (H : forall cs', updl x (fun _ => Ok n') cs = Ok cs' -> Jl cs').
      { clear Hu t' Hne. induction cs as [|[s c] r IHr]; intros cs' Hu; [discriminate|].
        inversion IH as [|? ? H1 H2]; subst. rewrite findl_cons in Hf. rewrite updl_cons in Hu. simpl in H1.
        rewrite idsl_cons in Hnd'. simpl in Hnd'. rewrite Jl_cons in HJ. destruct HJ as [[J1 J2] J3].
        destruct (find x c) as [y|] eqn:Ec.
        - inversion Hf; subst y.
          assert (Hxr : ~ In x (idsl r)).
          { intro Hin. apply find_in_ids in Ec. eapply NoDup_app_disj; eauto. }
          destruct (upd x (fun _ => Ok n') c) as [c'|] eqn:Euc; [simpl in Hu|discriminate].
          rewrite updl_notin in Hu by exact Hxr. simpl in Hu. inversion Hu; subst cs'.
          destruct (H1 c' (NoDup_app_remove_r _ _ Hnd') J2 eq_refl eq_refl) as [A1 A2].
          rewrite Jl_cons. auto.
        - assert (Hxc : ~ In x (ids c)) by (rewrite find_some_iff; intro X; apply X; exact Ec).
          rewrite upd_notin in Hu by exact Hxc. simpl in Hu.
          destruct (updl x (fun _ => Ok n') r) as [r'|] eqn:Eur; [simpl in Hu|discriminate]. inversion Hu; subst cs'.
          rewrite Jl_cons. split; [auto|]. apply IHr; auto. eapply NoDup_app_remove_l; eauto. }
      destruct (updl x (fun _ => Ok n') cs) as [cs'|] eqn:Eu; [simpl in Hu|discriminate]. inversion Hu; subst t'.
      pose proof (updl_seps K V _ _ _ _ Eu) as Hs.
      split.
      * rewrite J_node. split; [|apply H; reflexivity].
        intro X. subst cs'. destruct cs; [congruence|discriminate Hs].
      * intros k. apply fsep_seps. exact Hs.
Qed.

(* J follows from the order and balance clauses of the global invariant *)
Lemma J_of_ordered : forall (t : itree) d, ordered ltb (erase_ids t) -> bal d (erase_ids t) -> J t.
Proof.
  induction t as [i nx es|i cs IH] using itree_ind2; intros d Ho Hb; [exact I|].
  simpl erase_ids in *. destruct d as [|d']; [destruct Hb|]. simpl in Hb. destruct Hb as [Hne Hb].
  simpl in Ho. destruct Ho as (_ & Hs & Hk).
  rewrite J_node. split; [intro X; subst; apply Hne; reflexivity|]. clear Hne.
  induction cs as [|[k c] r IHr]; [exact I|].
  inversion IH as [|? ? H1 H2]; subst. simpl in Hs, Hk, Hb, H1. rewrite Jl_cons.
  destruct Hs as (S1 & S2 & S3). destruct Hk as [K1 K2]. destruct Hb as [B1 B2].
  split; [split|].
  - destruct c as [|ci [|[s1 c1] cr]]; simpl; auto. simpl in S1. inversion S1; subst. assumption.
  - eapply H1; eauto.
  - apply IHr; auto.
Qed.

Lemma ismallest_hd i (cs : list (K * itree)) s : ismallest (INode i cs) = Ok s -> forall h, hd_sep h cs = Some s.
Proof. destruct cs as [|[k c] r]; simpl; intros H h; inversion H; reflexivity. Qed.

Lemma fsep_hd k i (cs : list (K * itree)) : J (INode i cs) -> fsep_ge k (INode i cs) ->
  exists s1, (forall h, hd_sep h cs = Some s1) /\ ltb s1 k = false.
Proof. rewrite J_node. destruct cs as [|[s1 c1] r]; simpl; intros [Hne _] H; [congruence|]. eauto. Qed.

Lemma bnodesl_nil h : bnodesl h ([] : list (K * itree)) = []. Proof. reflexivity. Qed.

(* ---------- the four outcomes of irebalance on the list of children ---------- *)
Inductive reb_shape (order idx : nat) : list (K * itree) -> list (K * itree) -> Prop :=
| RS_borrowR A B k1 child k2 rgt child' rgt' rs :
    idx = length A -> iadopt_right child rgt = Ok (child', rgt') -> ismallest rgt' = Ok rs ->
    reb_shape order idx (A ++ [(k1, child); (k2, rgt)] ++ B) (A ++ [(k1, child'); (rs, rgt')] ++ B)
| RS_borrowL A B k0 lft k1 child lft' child' sm :
    idx = length A + 1 -> Nat.div2 order < icount lft -> iadopt_left lft child = Ok (lft', child') -> ismallest child' = Ok sm ->
    reb_shape order idx (A ++ [(k0, lft); (k1, child)] ++ B) (A ++ [(k0, lft'); (sm, child')] ++ B)
| RS_mergeL A B k0 lft k1 child lft' :
    idx = length A + 1 -> iabsorb lft child = Ok lft' ->
    reb_shape order idx (A ++ [(k0, lft); (k1, child)] ++ B) (A ++ [(k0, lft')] ++ B)
| RS_mergeR A B k1 child k2 rgt child' :
    idx = length A -> iabsorb child rgt = Ok child' ->
    reb_shape order idx (A ++ [(k1, child); (k2, rgt)] ++ B) (A ++ [(k1, child')] ++ B).

Lemma irebalance_shape order f (t t' : itree) small pi cs :
  irebalance order f t = Ok (t', small) -> find (fp f) t = Some (INode pi cs) ->
  exists cs', upd (fp f) (fun _ => Ok (INode pi cs')) t = Ok t' /\ reb_shape order (fidx f) cs cs'.
Proof.
  intros H Hf. unfold irebalance in H. rewrite Hf in H.
  remember (fidx f) as index eqn:Hidx. clear Hidx.
  destruct (get_nth index cs) as [[k1 child]|] eqn:Eg; [cbn [bind] in H | discriminate H].
  apply get_nth_Ok in Eg. cbv zeta in H.
  match type of H with bind ?e _ = _ => destruct e as [[cs' sm]|] eqn:Ecs; [cbn [bind] in H|discriminate H] end.
  destruct (upd (fp f) (fun _ => Ok (INode pi cs')) t) as [t1|] eqn:Eu; [cbn [bind] in H|discriminate H].
  inversion H; subst t1 sm; clear H.
  exists cs'. split; [exact Eu|]. clear Eu Hf.
  destruct ((index + 1 <? length cs) && (Nat.div2 order <? (if index + 1 <? length cs then match nth_error cs (index + 1) with Some (_, r) => icount r | None => 0 end else 0))) eqn:C1.
  { destruct (get_nth (index + 1) cs) as [[k2 rgt]|] eqn:Eg2; [cbn [bind] in Ecs | discriminate Ecs].
    apply get_nth_Ok in Eg2.
    destruct (iadopt_right child rgt) as [[child' rgt']|] eqn:Ea; [cbn [bind] in Ecs | discriminate Ecs].
    destruct (ismallest rgt') as [rs|] eqn:Es; [cbn [bind] in Ecs | discriminate Ecs].
    inversion Ecs; subst cs'; clear Ecs.
    destruct (nth_error_split2 cs index _ _ Eg Eg2) as [A [B [E L]]]. subst cs index.
    unfold set_child_i. rewrite nth_error_app_len, set_nth_app, set_nth_app1.
    apply (RS_borrowR order (length A) A B k1 child k2 rgt child' rgt' rs); auto. }
  destruct ((0 <? index) && (Nat.div2 order <? (if 0 <? index then match nth_error cs (index - 1) with Some (_, l) => icount l | None => 0 end else 0))) eqn:C2.
  { apply andb_prop in C2. destruct C2 as [C2 C2']. rewrite C2 in C2'. apply Nat.ltb_lt in C2.
    destruct index as [|j]; [lia|].
    replace (S j - 1) with j in * by lia.
    destruct (get_nth j cs) as [[k0 lft]|] eqn:Eg0; [cbn [bind] in Ecs | discriminate Ecs].
    apply get_nth_Ok in Eg0. rewrite Eg0 in C2'. apply Nat.ltb_lt in C2'.
    destruct (iadopt_left lft child) as [[lft' child']|] eqn:Ea; [cbn [bind] in Ecs | discriminate Ecs].
    destruct (ismallest child') as [sm|] eqn:Es; [cbn [bind] in Ecs | discriminate Ecs].
    inversion Ecs; subst cs'; clear Ecs.
    replace (S j) with (j + 1) in * by lia.
    destruct (nth_error_split2 cs j _ _ Eg0 Eg) as [A [B [E L]]]. subst cs j.
    unfold set_child_i. rewrite nth_error_app_len, set_nth_app, set_nth_app1.
    apply (RS_borrowL order (length A + 1) A B k0 lft k1 child lft' child' sm); auto. }
  destruct (0 <? (if 0 <? index then match nth_error cs (index - 1) with Some (_, l) => icount l | None => 0 end else 0)) eqn:C3.
  { destruct (0 <? index) eqn:C0; [|discriminate C3]. apply Nat.ltb_lt in C0.
    destruct index as [|j]; [lia|].
    replace (S j - 1) with j in * by lia.
    destruct (get_nth j cs) as [[k0 lft]|] eqn:Eg0; [cbn [bind] in Ecs | discriminate Ecs].
    apply get_nth_Ok in Eg0.
    destruct (iabsorb lft child) as [lft'|] eqn:Ea; [cbn [bind] in Ecs | discriminate Ecs].
    inversion Ecs; subst cs'; clear Ecs.
    replace (S j) with (j + 1) in * by lia.
    destruct (nth_error_split2 cs j _ _ Eg0 Eg) as [A [B [E L]]]. subst cs j.
    unfold set_child_i. rewrite nth_error_app_len, set_nth_app, del_nth_app1.
    apply (RS_mergeL order (length A + 1) A B k0 lft k1 child lft'); auto. }
  destruct ((if index + 1 <? length cs then match nth_error cs (index + 1) with Some (_, r) => icount r | None => 0 end else 0) =? 0) eqn:C4; [discriminate Ecs|].
  destruct (get_nth (index + 1) cs) as [[k2 rgt]|] eqn:Eg2; [cbn [bind] in Ecs | discriminate Ecs].
  apply get_nth_Ok in Eg2.
  destruct (iabsorb child rgt) as [child'|] eqn:Ea; [cbn [bind] in Ecs | discriminate Ecs].
  inversion Ecs; subst cs'; clear Ecs.
  destruct (nth_error_split2 cs index _ _ Eg Eg2) as [A [B [E L]]]. subst cs index.
  unfold set_child_i. rewrite nth_error_app_len, set_nth_app, del_nth_app1.
  apply (RS_mergeR order (length A) A B k1 child k2 rgt child'); auto.
Qed.

(* ---------- ranges under the rebalanced node ---------- *)
Lemma borrowR_mid W k1 child k2 rgt child' rgt' rs :
  iadopt_right child rgt = Ok (child', rgt') -> ismallest rgt' = Ok rs -> fsep_ge k2 rgt ->
  In (nid child) W -> In (nid rgt) W ->
  forall h, lbm W (bnodesl h [(k1, child); (k2, rgt)]) (bnodesl h [(k1, child'); (rs, rgt')]).
Proof.
  unfold iadopt_right. intros H Hs Hfs Wc Wr h.
  destruct child as [li ln le|li lc]; destruct rgt as [ri rn [|x re]|ri [|x rc]]; try discriminate H; inversion H; subst; clear H;
    simpl nid in *; rewrite !bnodesl_cons, !bnodesl_nil, !app_nil_r; cbn [hd_sep].
  - simpl. apply lbm_cons_l; [left; auto|]. apply lbm_cons_l; [left; auto|]. apply lbm_nil.
  - destruct x as [sg g]. simpl in Hfs.
    rewrite !bnodes_node, bnodesl_app, !bnodesl_cons, !bnodesl_nil, !app_nil_r. cbn [hd_sep].
    rewrite (ismallest_hd _ _ _ Hs h).
    apply lbm_app_l.
    + apply lbm_cons_l; [left; auto|].
      eapply lbm_tgt; [apply lbm_weak; apply bnodesl_mono; apply hi_le_sep; exact Hfs|]. incl_app.
    + apply lbm_cons_l; [left; auto|]. apply lbm_app_l; (eapply lbm_tgt; [apply lbm_refl|]; incl_app).
Qed.

Lemma borrowL_mid W k0 lft k1 child lft' child' sm :
  iadopt_left lft child = Ok (lft', child') -> ismallest child' = Ok sm -> fsep_ge k1 child -> J child ->
  In (nid lft) W -> In (nid child) W ->
  forall h, lbm W (bnodesl h [(k0, lft); (k1, child)]) (bnodesl h [(k0, lft'); (sm, child')]).
Proof.
  unfold iadopt_left. intros H Hs Hfs HJ Wl Wc h.
  destruct lft as [li ln le|li lc]; destruct child as [ci cn ce|ci cc]; try discriminate H.
  - destruct (rev le) as [|x le'] eqn:E; [discriminate|]. inversion H; subst; clear H.
    simpl nid in *. rewrite !bnodesl_cons, !bnodesl_nil, !app_nil_r. cbn [hd_sep]. simpl.
    apply lbm_cons_l; [left; auto|]. apply lbm_cons_l; [left; auto|]. apply lbm_nil.
  - destruct (rev lc) as [|x lc'] eqn:E; [discriminate|]. inversion H; subst; clear H.
    apply rev_cons_inv in E. subst lc. destruct x as [sg g]. simpl in Hs. inversion Hs; subst sm. clear Hs.
    destruct (fsep_hd _ _ _ HJ Hfs) as [s1 [Hh Hlt]].
    simpl nid in *. rewrite !bnodesl_cons, !bnodesl_nil, !app_nil_r. cbn [hd_sep].
    rewrite !bnodes_node, bnodesl_app, !bnodesl_cons, !bnodesl_nil, !app_nil_r. cbn [hd_sep]. rewrite Hh.
    apply lbm_app_l.
    + apply lbm_cons_l; [left; auto|]. apply lbm_app_l.
      * eapply lbm_tgt; [apply lbm_refl|]. incl_app.
      * eapply lbm_tgt; [apply lbm_weak; apply bnodes_mono; apply hi_le_sep; exact Hlt|]. incl_app.
    + apply lbm_cons_l; [left; auto|]. eapply lbm_tgt; [apply lbm_refl|]. incl_app.
Qed.

Lemma merge_mid W ka a kb b ab :
  iabsorb a b = Ok ab -> fsep_ge kb b -> J b -> In (nid a) W -> In (nid b) W ->
  forall h, lbm W (bnodesl h [(ka, a); (kb, b)]) (bnodesl h [(ka, ab)]).
Proof.
  unfold iabsorb. intros H Hfs HJ Wa Wb h.
  destruct a as [li ln le|li lc]; destruct b as [ri rn re|ri rc]; try discriminate H; inversion H; subst; clear H;
    simpl nid in *; rewrite !bnodesl_cons, !bnodesl_nil, !app_nil_r; cbn [hd_sep].
  - simpl. apply lbm_cons_l; [left; auto|]. apply lbm_cons_l; [left; auto|]. apply lbm_nil.
  - destruct (fsep_hd _ _ _ HJ Hfs) as [s1 [Hh Hlt]].
    rewrite !bnodes_node, bnodesl_app. rewrite Hh.
    apply lbm_app_l.
    + apply lbm_cons_l; [left; auto|].
      eapply lbm_tgt; [apply lbm_weak; apply bnodesl_mono; apply hi_le_sep; exact Hlt|]. incl_app.
    + apply lbm_cons_l; [left; auto|]. eapply lbm_tgt; [apply lbm_refl|]. incl_app.
Qed.

Lemma Jl_mid (A mid B : list (K * itree)) : Jl (A ++ mid ++ B) -> Jl mid.
Proof. rewrite !Jl_app. tauto. Qed.

Lemma reb_lbm W order idx cs cs' p :
  reb_shape order idx cs cs' -> Jl cs ->
  (forall k ch, nth_error cs idx = Some (k, ch) -> In (nid ch) W) ->
  (forall k ch, 0 < idx -> nth_error cs (idx - 1) = Some (k, ch) -> In (nid ch) W) ->
  (forall k ch, nth_error cs (idx + 1) = Some (k, ch) -> In (nid ch) W) ->
  forall lo hi, lbm W (bnodes lo hi (INode p cs)) (bnodes lo hi (INode p cs')).
Proof.
  intros Hsh HJ Hc Hl Hr lo hi. destruct Hsh as [A B k1 child k2 rgt child' rgt' rs Hi Ha Hs
                                                |A B k0 lft k1 child lft' child' sm Hi Hcnt Ha Hs
                                                |A B k0 lft k1 child lft' Hi Ha
                                                |A B k1 child k2 rgt child' Hi Ha]; subst idx.
  - pose proof (Jl_mid _ _ _ HJ) as HJm. simpl in HJm. destruct HJm as ((F1 & J1) & (F2 & J2) & _).
    apply kids_lbm; [right; intros h; apply hi_le_refl|].
    eapply borrowR_mid; eauto.
    + eapply Hc. simpl. apply nth_error_app_len.
    + eapply Hr. simpl. apply nth_error_app_len1.
  - pose proof (Jl_mid _ _ _ HJ) as HJm. simpl in HJm. destruct HJm as ((F1 & J1) & (F2 & J2) & _).
    apply kids_lbm; [right; intros h; apply hi_le_refl|].
    eapply borrowL_mid; eauto.
    + eapply Hl; [lia|]. replace (length A + 1 - 1) with (length A) by lia. simpl. apply nth_error_app_len.
    + eapply Hc. simpl. apply nth_error_app_len1.
  - pose proof (Jl_mid _ _ _ HJ) as HJm. simpl in HJm. destruct HJm as ((F1 & J1) & (F2 & J2) & _).
    apply kids_lbm; [right; intros h; apply hi_le_refl|].
    eapply merge_mid; eauto.
    + eapply Hl; [lia|]. replace (length A + 1 - 1) with (length A) by lia. simpl. apply nth_error_app_len.
    + eapply Hc. simpl. apply nth_error_app_len1.
  - pose proof (Jl_mid _ _ _ HJ) as HJm. simpl in HJm. destruct HJm as ((F1 & J1) & (F2 & J2) & _).
    apply kids_lbm; [right; intros h; apply hi_le_refl|].
    eapply merge_mid; eauto.
    + eapply Hc. simpl. apply nth_error_app_len.
    + eapply Hr. simpl. apply nth_error_app_len1.
Qed.

(* ---------- the invariant J is kept by the rebalanced node ---------- *)
Lemma fsep_app_l k i (a b : list (K * itree)) : a <> [] -> fsep_ge k (INode i a) -> fsep_ge k (INode i (a ++ b)).
Proof. destruct a as [|[s c] r]; simpl; [congruence|auto]. Qed.
Lemma fsep_app_r k i (a b : list (K * itree)) : a <> [] -> fsep_ge k (INode i (a ++ b)) -> fsep_ge k (INode i a).
Proof. destruct a as [|[s c] r]; simpl; [congruence|auto]. Qed.

Lemma reb_J order idx cs cs' :
  1 <= Nat.div2 order -> reb_shape order idx cs cs' -> Jl cs ->
  Jl cs' /\ cs' <> [] /\ map fst (firstn 1 cs') = map fst (firstn 1 cs).
Proof.
  intros Hord Hsh HJ.
  assert (Hirr : forall a, ltb a a = false) by (apply (ltb_irrefl K ltb HS)).
  destruct Hsh as [A B k1 child k2 rgt child' rgt' rs Hi Ha Hs
                  |A B k0 lft k1 child lft' child' sm Hi Hcnt Ha Hs
                  |A B k0 lft k1 child lft' Hi Ha
                  |A B k1 child k2 rgt child' Hi Ha]; subst idx;
    rewrite !Jl_app in HJ; destruct HJ as (JA & ((F1 & J1) & (F2 & J2) & _) & JB);
    (split; [|split; [destruct A; discriminate | destruct A; reflexivity]]); rewrite !Jl_app; (split; [exact JA|]); (split; [|exact JB]).
  - unfold iadopt_right in Ha.
    destruct child as [li ln le|li lc]; destruct rgt as [ri rn [|x re]|ri [|x rc]]; try discriminate Ha; inversion Ha; subst; clear Ha.
    + simpl. tauto.
    + rewrite J_node in J1, J2. destruct J1 as [N1 J1]. destruct J2 as [_ J2]. destruct x as [sg g]. rewrite Jl_cons in J2.
      rewrite !Jl_cons, !J_node, Jl_app, !Jl_cons. repeat split; try tauto; try exact I.
      * apply fsep_app_l; auto.
      * intro X. apply app_eq_nil in X. destruct X as [_ X]. discriminate X.
      * destruct rc as [|[s c] r]; simpl in *; [discriminate Hs|]. inversion Hs; subst. apply Hirr.
      * destruct rc; [discriminate Hs | discriminate].
  - unfold iadopt_left in Ha.
    destruct lft as [li ln le|li lc]; destruct child as [ci cn ce|ci cc]; try discriminate Ha.
    + destruct (rev le) as [|x le'] eqn:E; [discriminate|]. inversion Ha; subst; clear Ha. simpl. tauto.
    + destruct (rev lc) as [|x lc'] eqn:E; [discriminate|]. inversion Ha; subst; clear Ha.
      apply rev_cons_inv in E. subst lc. destruct x as [sg g]. simpl in Hs. inversion Hs; subst sm.
      simpl icount in Hcnt. rewrite app_length in Hcnt. simpl in Hcnt.
      assert (Hne : rev lc' <> []) by (intro X; rewrite X in Hcnt; simpl in Hcnt; lia).
      rewrite J_node in J1, J2. destruct J1 as [_ J1]. destruct J2 as [N2 J2]. rewrite Jl_app in J1. simpl Jl in J1.
      rewrite !Jl_cons, !J_node, !Jl_cons. repeat split; try tauto; try exact I.
      * eapply fsep_app_r; eauto.
      * simpl. apply Hirr.
      * discriminate.
  - unfold iabsorb in Ha.
    destruct lft as [li ln le|li lc]; destruct child as [ci cn ce|ci cc]; try discriminate Ha; inversion Ha; subst; clear Ha.
    + simpl. tauto.
    + rewrite J_node in J1, J2. destruct J1 as [N1 J1]. destruct J2 as [N2 J2].
      rewrite !Jl_cons, J_node, Jl_app. repeat split; try tauto; try exact I.
      * apply fsep_app_l; auto.
      * intro X. apply app_eq_nil in X. tauto.
  - unfold iabsorb in Ha.
    destruct child as [li ln le|li lc]; destruct rgt as [ci cn ce|ci cc]; try discriminate Ha; inversion Ha; subst; clear Ha.
    + simpl. tauto.
    + rewrite J_node in J1, J2. destruct J1 as [N1 J1]. destruct J2 as [N2 J2].
      rewrite !Jl_cons, J_node, Jl_app. repeat split; try tauto; try exact I.
      * apply fsep_app_l; auto.
      * intro X. apply app_eq_nil in X. tauto.
Qed.

Lemma fsep_first k i (cs cs' : list (K * itree)) :
  map fst (firstn 1 cs') = map fst (firstn 1 cs) -> fsep_ge k (INode i cs) -> fsep_ge k (INode i cs').
Proof. destruct cs as [|[s c] r]; destruct cs' as [|[s' c'] r']; simpl; intros H; try discriminate; auto. inversion H; subst. auto. Qed.

Lemma irebalance_J order f (t t' : itree) small :
  1 <= Nat.div2 order -> NoDup (ids t) -> J t -> irebalance order f t = Ok (t', small) -> J t'.
Proof.
  intros Hord Hnd HJ H.
  destruct (find (fp f) t) as [[?|pi cs]|] eqn:Hf; try (unfold irebalance in H; rewrite Hf in H; discriminate H).
  destruct (irebalance_shape order f t t' small pi cs H Hf) as [cs' [Hu Hsh]].
  pose proof (J_find _ _ _ HJ Hf) as Jn. rewrite J_node in Jn. destruct Jn as [Nn Jn].
  destruct (reb_J order (fidx f) cs cs' Hord Hsh Jn) as (A1 & A2 & A3).
  eapply (J_upd (fp f) (INode pi cs) (INode pi cs')); eauto.
  - rewrite J_node. auto.
  - intros k. apply fsep_first. exact A3.
Qed.

Lemma irebalance_bm order f (t t' : itree) small pi cs W :
  NoDup (ids t) -> J t -> irebalance order f t = Ok (t', small) ->
  find (fp f) t = Some (INode pi cs) -> NoDup (ids t') ->
  (forall k ch, nth_error cs (fidx f) = Some (k, ch) -> In (nid ch) W) ->
  (forall k ch, 0 < fidx f -> nth_error cs (fidx f - 1) = Some (k, ch) -> In (nid ch) W) ->
  (forall k ch, nth_error cs (fidx f + 1) = Some (k, ch) -> In (nid ch) W) ->
  bm W t t'.
Proof.
  intros Hnd HJ H Hf Hnd' Hc Hl Hr.
  destruct (irebalance_shape order f t t' small pi cs H Hf) as [cs' [Hu Hsh]].
  pose proof (J_find _ _ _ HJ Hf) as Jn. rewrite J_node in Jn. destruct Jn as [Nn Jn].
  apply (upd_bm K V ltb W (fp f) (INode pi cs) (INode pi cs') t t' Hnd Hnd' Hf eq_refl Hu).
  eapply reb_lbm; eauto.
Qed.

(* ---------- the return through the deleteKey activations ---------- *)
Lemma unwind_bm order W fuel : 1 <= Nat.div2 order -> forall o stk small right (t : itree) l fr tmx (out : out),
  unwind order fuel o stk small right t l fr tmx = Ok out ->
  NoDup (ids t) -> J t -> stack_ok t fr stk -> bottom_ok (nid t) stk ->
  (stk = [] -> right = None) ->
  NoDup (nid t :: opt_list right ++ flat_map fkids stk) ->
  incl (nid t :: opt_list right ++ flat_map fkids stk) W ->
  (forall x, right = Some x -> match stk with f :: _ => child_at t (fp f) (fidx f + 1) x | [] => True end) ->
  bm W t (otr out).
Proof.
  intros Hord.
  induction fuel as [|fuel IH]; intros o stk small right t l fr tmx out H Hnd HJ Hs Hb Hr Hheld HW Hright;
    simpl in H; [discriminate|].
  destruct stk as [|f rest].
  - unfold mk in H. inversion H; subst; clear H. cbn [otr].
    destruct (negb small || (1 <? icount t)) eqn:E; [apply bm_refl|].
    apply orb_false_iff in E. destruct E as [_ E]. apply Nat.ltb_ge in E.
    destruct t as [i nx es | i [|[k c] rest]]; try apply bm_refl.
    simpl in E. destruct rest; [|simpl in E; lia].
    eapply bm_mono; [|apply root_collapse_bm; exact Hnd].
    intros x [<-|[]]. apply HW. left. reflexivity.
  - destruct Hs as (S1 & S2 & S3 & S4 & S5).
    assert (Hlinks : links (f :: rest)) by (split; [exact S4 | eapply stack_ok_links; eauto]).
    assert (Hrest : NoDup (nid t :: opt_list None ++ flat_map fkids rest)).
    { eapply nodup_sub; [|exact Hheld]. intros x. simpl. rewrite !cnt_app. lia. }
    assert (HWrest : incl (nid t :: opt_list None ++ flat_map fkids rest) W).
    { intros x Hx. apply HW. simpl in *. rewrite !in_app_iff. tauto. }
    assert (Hnext : forall small' (t' : itree), nid t' = nid t -> NoDup (ids t') -> J t' -> stack_ok t' fr rest ->
              bm W t t' ->
              unwind order fuel o rest small' None t' (unlock_frame_kids f right l) fr tmx = Ok out ->
              bm W t (otr out)).
    { intros small' t' Hn Hnd' HJ' Hs' Hbm Hu.
      eapply bm_trans; [exact Hbm|].
      eapply (IH o rest small' None t' _ fr tmx out Hu Hnd' HJ' Hs').
      - rewrite Hn. eapply bottom_ok_tail; eauto.
      - reflexivity.
      - rewrite Hn. exact Hrest.
      - rewrite Hn. exact HWrest.
      - intros x Hx. discriminate Hx. }
    destruct (negb small) eqn:Es.
    + apply (Hnext false t); auto. apply bm_refl.
    + destruct (find (fp f) t) as [[i nx es|pi cs]|] eqn:Hf; try discriminate H.
      destruct ((fidx f + 1 <? length cs) && match right with None => true | Some _ => false end) eqn:Ec.
      * unfold mk in H. inversion H; subst; clear H. cbn [otr]. apply bm_refl.
      * destruct (irebalance order f t) as [[t' small']|] eqn:Er; [cbn [bind] in H|discriminate H].
        set (Wf := fp f :: opt_list right ++ fkids f).
        assert (Wc : forall k ch, nth_error cs (fidx f) = Some (k, ch) -> In (nid ch) Wf).
        { intros k ch Hn. destruct S3 as [c [Hfc Hca]].
          rewrite (child_at_nth K V _ _ _ _ _ _ _ _ Hca Hf Hn).
          unfold Wf, fkids. rewrite Hfc. right. rewrite !in_app_iff. right. right. simpl. auto. }
        assert (Wl : forall k ch, 0 < fidx f -> nth_error cs (fidx f - 1) = Some (k, ch) -> In (nid ch) Wf).
        { intros k ch Hpos Hn. destruct (S2 Hpos) as [l0 [Hfl Hca]].
          rewrite (child_at_nth K V _ _ _ _ _ _ _ _ Hca Hf Hn).
          unfold Wf, fkids. rewrite Hfl. right. rewrite !in_app_iff. right. left. simpl. auto. }
        assert (Wr : forall k ch, nth_error cs (fidx f + 1) = Some (k, ch) -> In (nid ch) Wf).
        { intros k ch Hn.
          assert (Hlt : fidx f + 1 < length cs) by (apply nth_error_Some; congruence).
          apply Nat.ltb_lt in Hlt. rewrite Hlt in Ec. simpl in Ec.
          destruct right as [x|]; [|discriminate Ec].
          specialize (Hright x eq_refl). simpl in Hright.
          rewrite (child_at_nth K V _ _ _ _ _ _ _ _ Hright Hf Hn).
          unfold Wf. right. simpl. left. reflexivity. }
        destruct (irebalance_rel K V ltb True order f t t' small' pi cs Wf Hnd Er Hf (or_introl eq_refl) Wc Wl Wr) as (R1 & R2 & R3 & R4).
        assert (HWf : incl Wf W).
        { intros x [<-|Hx].
          - pose proof (fp_in_frames (nid t) (f :: rest) Hlinks Hb f (or_introl eq_refl)) as Hin.
            apply HW. simpl in Hin. simpl. rewrite !in_app_iff in *. tauto.
          - apply HW. simpl. rewrite !in_app_iff in *. tauto. }
        apply (Hnext small' t'); auto.
        -- apply (irebalance_J order f t t' small' Hord Hnd HJ Er).
        -- eapply stack_ok_frm with (W := Wf) (fr := fr); eauto.
           apply rest_fp_notin with (root := nid t); auto.
        -- eapply bm_mono; [exact HWf|]. apply (irebalance_bm order f t t' small' pi cs Wf Hnd HJ Er Hf R3 Wc Wl Wr).
Qed.

End Blocks.

Arguments J {K V}. Arguments Jl {K V}. Arguments fsep_ge {K V}.

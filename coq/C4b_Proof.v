(* C4b_Proof.v — property C04, GENERAL completeness of a scan (no assumption on how NewScanner landed):
   a pair x whose key is not below the start key k of the scan and that is stored in every state of the life of the
   scan call (from its invocation to the step that reports EScanEnd) is among the pairs the scan returns.

   C4_Trace.scan_complete proves this from the landing on, when the descent did not clamp (below_lo k leaf = false).
   Here the descent phase is covered too, with the invariant [desc_ok x me]: while thread me descends for an
   operation o whose key is not above that of x and rests on node pn (pc SeaWantChild o pn c), x is not below the
   lower bound of pn.  It is preserved by the steps of me (C4b_Geom.sea_route: x is stored NOW, so when the descent
   clamps below the separator of the child it selects, x is not below that separator) and by the steps of the other
   threads (PCc_Proof.other_below_lo: the lower bound of a held node does not move).  At the landing x is not below
   the lower bound of the landing leaf, and C4_Proof.B5_first_general makes the first pair <= x.
   See the summary at the end of the file. *)
From Coq Require Import List Bool Lia PeanoNat Sorted Permutation.
From GB Require Import Model Spec Inv ListLemmas SearchProof TreeLemmas Conc GI LockInv LockProof CInv CInv3
  CIDef SoloBase GIa1_Ctx LINa_Lists LINa_Ctx LINa_Abs Lin LinDef LINa_Prog LINc_Proof PCc_Proof ASM_Proof UpdLemmas
  C4_Lists C4_Geom C4_Blocks C4_Inv C4_Proof C4_Trace C4b_Geom C4b_Blocks.
Import ListNotations.

Section P.
Variables (K V : Type) (ltb : K -> K -> bool).
Hypothesis HS : SWO ltb.
Variable order : nat.
Hypothesis Heven : Nat.even order = true.
Hypothesis H4 : 4 <= order.
Notation itree := (itree K V).
Notation pc := (pc K V).
Notation cop := (cop K V).
Notation st := (st K V).
Notation out := (out K V).
Notation thread := (thread K V).
Notation event := (event K V).
Notation BigInv := (BigInv K V ltb order).
Notation CurInv := (CurInv ltb order).
Notation along := (along K V ltb order).
Notation covered := (covered K V ltb).

(* ------------------------------------------------------------------------------------------------ *)
(* the descent invariant                                                                             *)
(* ------------------------------------------------------------------------------------------------ *)
(* while thread me descends (for an operation whose key is not above the key of x) and rests on node pn, x is not
   below the lower bound of pn *)
Definition desc_ok (x : K * V) (me : tid) (s : st) : Prop :=
  forall th o pn c, get_thread me (ths s) = Some th -> tpc th = SeaWantChild o pn c ->
    ltb (fst x) (key_of o) = false -> below_lo ltb (fst x) pn (tr s) = false.

Lemma BI_ltfresh s : BigInv s -> Forall (fun i => i < fresh s) (ids (tr s)).
Proof. intros HB. destruct (BI_GI K V ltb order s HB) as (_ & Hlt & _). exact Hlt. Qed.

(* resting on pn and waiting for c, with x stored: x is not below the lower bound of c either *)
Lemma desc_child (s : st) me th o pn c (x : K * V) :
  BigInv s -> get_thread me (ths s) = Some th -> tpc th = SeaWantChild o pn c ->
  In x (abs ltb s) -> ltb (fst x) (key_of o) = false -> below_lo ltb (fst x) pn (tr s) = false ->
  below_lo ltb (fst x) c (tr s) = false.
Proof.
  intros HB Hg Hpc Hx Hxo Hlo.
  pose proof (BI_pcok K V ltb order s me th HB Hg) as Hok. pose proof (BI_pcok3 K V ltb order s me th HB Hg) as Hok3.
  rewrite Hpc in Hok, Hok3.
  exact (sea_route K V ltb HS order (tr s) (fresh s) o pn c x
           (GI_shape K V ltb order s (BI_GI K V ltb order s HB)) (BI_nodup K V ltb order s HB) (BI_ltfresh s HB)
           Hok Hok3 (abs_in_ents K V ltb s x Hx) Hxo Hlo).
Qed.

(* the stepping thread's old and new thread records *)
Lemma own_step (s s' : st) me acq ev :
  cstep ltb order s me = Stepped s' acq ev ->
  exists th o th', get_thread me (ths s) = Some th /\ SoloBase.blk ltb order s me th acq = Ok (Some o) /\
    get_thread me (ths s') = Some th' /\ tpc th' = opc o /\ tr s' = otr o /\ ev = oev o.
Proof.
  intros Hc.
  destruct (step_threads K V ltb order s s' me acq ev Hc) as (th & o & Hg & Htg & Hfree & Hblk & Es' & Hoth).
  destruct (commit_me K V s me th o Hg) as (th2 & Hg2 & Hpc2 & Hpr2). rewrite <- Es' in Hg2.
  exists th, o, th2. split; [exact Hg|]. split; [exact Hblk|]. split; [exact Hg2|]. split; [exact Hpc2|].
  split; [subst s'; reflexivity|].
  destruct (cstep_unpack K V ltb order s s' me acq ev Hc) as (th3 & o3 & Hg3 & Hb3 & _ & Eev).
  rewrite Hg in Hg3. inversion Hg3; subst th3. rewrite Hblk in Hb3. inversion Hb3; subst o3. exact Eev.
Qed.

(* (i)+(ii): the descent invariant is preserved by every step taken in a state where x is stored *)
Theorem desc_ok_step (s s' : st) t acq ev me (x : K * V) :
  BigInv s -> In x (abs ltb s) -> desc_ok x me s -> cstep ltb order s t = Stepped s' acq ev -> desc_ok x me s'.
Proof.
  intros HB Hx Hd Hc th' o pn c Hg' Hpc' Hxo.
  destruct (Nat.eq_dec me t) as [->|Hne].
  - (* a step of the descending thread *)
    destruct (own_step s s' t acq ev Hc) as (th & r & th2 & Hg & Hblk & Hg2 & Hpc2 & Htr & _).
    rewrite Hg' in Hg2. inversion Hg2; subst th2. rewrite Htr.
    destruct (blk_sea_class K V ltb order s t th acq r Hblk) as [Hno|o1 n Hfrom [c1 Hto] Hotr].
    + rewrite <- Hpc2, Hpc' in Hno. discriminate Hno.
    + rewrite <- Hpc2, Hpc' in Hto. inversion Hto; subst o1 n c1. rewrite Hotr.
      destruct Hfrom as [Hpc|[p Hpc]].
      * (* the root has just been locked *)
        pose proof (BI_pcok K V ltb order s t th HB Hg) as Hok. rewrite Hpc in Hok. simpl in Hok.
        apply Nat.eqb_eq in Hok. subst pn. apply below_lo_root.
      * (* the child pn of p has just been locked *)
        apply (desc_child s t th o p pn x HB Hg Hpc Hx Hxo). exact (Hd th o p pn Hg Hpc Hxo).
  - (* a step of another thread: the lower bound of the held node does not move *)
    destruct (step_threads K V ltb order s s' t acq ev Hc) as (_ & _ & _ & _ & _ & _ & _ & Hoth).
    rewrite (Hoth me Hne) in Hg'.
    pose proof (BI_pcok K V ltb order s me th' HB Hg') as Hok. rewrite Hpc' in Hok. simpl in Hok.
    assert (Hid : In pn (ids (tr s))).
    { destruct (Conc.find pn (tr s)) eqn:Ef; [eapply find_in_ids; eauto|discriminate Hok]. }
    assert (Hin : In pn (pc_nodes (tpc th'))) by (rewrite Hpc'; simpl; auto).
    rewrite (other_below_lo K V ltb order s s' t acq ev me th' Heven H4 (BI_base K V ltb order s HB) Hc Hne Hg'
               (fst x) pn Hin Hid).
    exact (Hd th' o pn c Hg' Hpc' Hxo).
Qed.

(* the landing: NewScanner reaches a leaf; x is not below the lower bound of that leaf *)
Theorem land_step (s s' : st) me acq ev th th' k cnt (x : K * V) :
  BigInv s -> In x (abs ltb s) -> desc_ok x me s -> cstep ltb order s me = Stepped s' acq ev ->
  get_thread me (ths s) = Some th -> hd_error (prog th) = Some (CScan k cnt) -> ltb (fst x) k = false ->
  is_cur (tpc th) = false -> get_thread me (ths s') = Some th' -> is_cur (tpc th') = true ->
  ev = [] /\ yielded (tpc th') = [] /\
  exists leaf, cur_leaf (tpc th') = Some leaf /\ below_lo ltb (fst x) leaf (tr s') = false.
Proof.
  intros HB Hx Hd Hc Hg Hpr Hxk Hcur Hg' Hcur'.
  destruct (own_step s s' me acq ev Hc) as (th0 & r & th2 & Hg0 & Hblk & Hg2 & Hpc2 & Htr & Eev).
  rewrite Hg in Hg0. inversion Hg0; subst th0. rewrite Hg' in Hg2. inversion Hg2; subst th2.
  pose proof (BI_prog K V ltb order s me th HB Hg) as Hpp.
  destruct (blk_class K V ltb order s me th acq r Hblk)
    as [Hpl
       |o n k1 cnt1 j nx es i Hpc Ho Hf Hi Hopc Hotr Hoev
       |leaf i n' acc j nx es e Hpc Hf Hn Hopc Hotr Hoev
       |leaf i n' acc j y es Hpc Hf Hn Hopc Hotr Hoev
       |leaf i n' acc j es Hpc Hf Hn Hopc Hotr Hoev
       |leaf nxt n acc j nx e es' Hpc Hf Hopc Hotr Hoev];
    try (rewrite Hpc in Hcur; discriminate Hcur).
  - exfalso. destruct Hpl as [Hpl _]. rewrite <- Hpc2, Hcur' in Hpl. discriminate.
  - rewrite Eev, Hoev, Hpc2, Hopc, Htr, Hotr. split; [reflexivity|]. split; [reflexivity|].
    exists n. split; [reflexivity|].
    destruct Hpc as [Hpc|[p Hpc]].
    + pose proof (BI_pcok K V ltb order s me th HB Hg) as Hok. rewrite Hpc in Hok. simpl in Hok.
      apply Nat.eqb_eq in Hok. subst n. apply below_lo_root.
    + assert (Hxo : ltb (fst x) (key_of o) = false).
      { rewrite Hpc in Hpp. simpl in Hpp. destruct Hpp as [Hpp _]. rewrite Hpr in Hpp. inversion Hpp; subst o. exact Hxk. }
      apply (desc_child s me th o p n x HB Hg Hpc Hx Hxo). exact (Hd th o p n Hg Hpc Hxo).
Qed.

(* ------------------------------------------------------------------------------------------------ *)
(* the invariant of the whole life of the scan call                                                  *)
(* ------------------------------------------------------------------------------------------------ *)
(* nothing yielded yet and x is not below the lower bound of the leaf where NewScanner landed *)
Definition pendingx (x : K * V) (s : st) (p : pc) : Prop :=
  yielded p = [] /\ exists leaf, cur_leaf p = Some leaf /\ below_lo ltb (fst x) leaf (tr s) = false.

(* the call at the head of thread me's program is CScan k cnt *)
Definition scan_head (me : tid) (k : K) (cnt : nat) (s : st) : Prop :=
  exists th, get_thread me (ths s) = Some th /\ hd_error (prog th) = Some (CScan k cnt).

(* descent phase: desc_ok; cursor phase: x has been yielded, or is above the last pair yielded, or nothing has been
   yielded and x is not below the lower bound of the landing leaf *)
Definition Life (me : tid) (k : K) (cnt : nat) (x : K * V) (s : st) : Prop :=
  desc_ok x me s /\
  exists th, get_thread me (ths s) = Some th /\ hd_error (prog th) = Some (CScan k cnt) /\
    (is_cur (tpc th) = true -> covered x (yielded (tpc th)) \/ pendingx x s (tpc th)).

(* before the descent rests on an internal node, Life holds trivially *)
Lemma Life_start (s : st) me th k cnt (x : K * V) :
  get_thread me (ths s) = Some th -> hd_error (prog th) = Some (CScan k cnt) ->
  is_seapc (tpc th) = false -> is_cur (tpc th) = false -> Life me k cnt x s.
Proof.
  intros Hg Hpr Hns Hnc. split.
  - intros th1 o pn c Hg1 Hpc1 _. rewrite Hg in Hg1. inversion Hg1; subst th1. rewrite Hpc1 in Hns. discriminate.
  - exists th. split; [exact Hg|]. split; [exact Hpr|]. intros X. rewrite X in Hnc. discriminate.
Qed.

(* the old "covered or pending" of C4_Trace is an instance *)
Lemma Cov_Life (s : st) me (x : K * V) :
  Cov K V ltb me x s -> desc_ok x me s ->
  exists k cnt, Life me k cnt x s.
Proof.
  intros (th & k & cnt & Hg & Hcur & Hpr & Hcov) Hd. exists k, cnt. split; [exact Hd|].
  exists th. split; [exact Hg|]. split; [exact Hpr|]. intros _.
  destruct Hcov as [Hcov|(Hy & Hk & leaf & Hleaf & Hlo)]; [left; exact Hcov|].
  right. split; [exact Hy|]. exists leaf. split; [exact Hleaf|].
  exact (below_lo_mono K V ltb HS k (fst x) leaf (tr s) Hlo Hk).
Qed.

Theorem Life_step (s s' : st) t acq ev me k cnt (x : K * V) :
  CurInv s -> ltb (fst x) k = false -> In x (abs ltb s) -> Life me k cnt x s ->
  cstep ltb order s t = Stepped s' acq ev -> scan_head me k cnt s' -> Life me k cnt x s'.
Proof.
  intros HI Hxk Hx (Hd & th & Hg & Hpr & Hph) Hc (th' & Hg' & Hpr'). pose proof HI as [HB _].
  split; [exact (desc_ok_step s s' t acq ev me x HB Hx Hd Hc)|].
  exists th'. split; [exact Hg'|]. split; [exact Hpr'|]. intros Hcur'.
  destruct (Nat.eq_dec me t) as [->|Hne].
  - destruct (is_cur (tpc th)) eqn:Hcur.
    + (* a step of the cursor *)
      destruct (cur_own_inv K V ltb order s s' t acq ev th th' Hc Hg Hcur Hg' Hcur') as (Htr & Hprog & Hcase).
      destruct Hcase as [(Eev & Hy & Hl)|(e & Eev & Hy)].
      * destruct (Hph eq_refl) as [Hcov|(Hy0 & leaf & Hleaf & Hlo)].
        -- left. rewrite Hy. exact Hcov.
        -- right. split; [rewrite Hy; exact Hy0|]. exists leaf. rewrite Hl, Htr. auto.
      * left. rewrite Hy.
        assert (Hin : In (EPair e) ev) by (rewrite Eev; simpl; auto).
        destruct (Hph eq_refl) as [[Hin0|(e1 & r & Eacc & Hlt)]|(Hy0 & leaf & Hleaf & Hlo)].
        -- left. right. exact Hin0.
        -- destruct (B3_successor K V ltb HS order s s' t acq ev e th e1 r HI Hc Hin Hg Eacc) as [_ (He & _ & Hsucc)].
           eapply (covered_next K V ltb HS order); eauto.
        -- destruct (B5_first_general K V ltb HS order H4 s s' t acq ev e th leaf k cnt HI Hc Hin Hg Hleaf Hy0 Hpr)
             as (He & _ & Hleast).
           rewrite Hy0. eapply (covered_next K V ltb HS order); eauto.
    + (* the landing *)
      destruct (land_step s s' t acq ev th th' k cnt x HB Hx Hd Hc Hg Hpr Hxk Hcur Hg' Hcur') as (_ & Hy & Hleaf).
      right. split; assumption.
  - (* a step of another thread *)
    destruct (step_threads K V ltb order s s' t acq ev Hc) as (_ & _ & _ & _ & _ & _ & _ & Hoth).
    pose proof Hg' as Hg2. rewrite (Hoth me Hne), Hg in Hg2. inversion Hg2; subst th'.
    destruct (Hph Hcur') as [Hcov|(Hy0 & leaf & Hleaf & Hlo)]; [left; exact Hcov|].
    right. split; [exact Hy0|]. exists leaf. split; [exact Hleaf|].
    rewrite (cursor_lo_stable K V ltb order Heven H4 s s' t acq ev me th th leaf (fst x) HI Hc Hg Hg' Hleaf Hleaf).
    exact Hlo.
Qed.

Theorem Life_exec : forall sched s me k cnt x,
  CurInv s -> ltb (fst x) k = false ->
  along (fun s1 => In x (abs ltb s1) /\ scan_head me k cnt s1) s sched ->
  Life me k cnt x s -> Life me k cnt x (fst (exec ltb order s sched)).
Proof.
  induction sched as [|t r IH]; intros s me k cnt x HI Hxk Hal HL; simpl in *; [exact HL|].
  destruct Hal as [[Hx Hsc] Hal].
  destruct (cstep ltb order s t) as [ | | |s' acq ev|p] eqn:Hc; try exact HL.
  pose proof (along_here _ _ _ _ _ _ _ Hal) as [_ Hsc'].
  specialize (IH s' me k cnt x (CurInv_step K V ltb HS order Heven H4 _ _ _ _ _ HI Hc) Hxk Hal
                 (Life_step s s' t acq ev me k cnt x HI Hxk Hx HL Hc Hsc')).
  destruct (exec ltb order s' r) as [s'' h]. exact IH.
Qed.

(* what Life says when the scan reports its end *)
Lemma Life_end (s s2 : st) me k cnt x acq ev :
  CurInv s -> ltb (fst x) k = false -> In x (abs ltb s) -> Life me k cnt x s ->
  cstep ltb order s me = Stepped s2 acq ev -> In EScanEnd ev ->
  exists acc, In x acc /\ ev = [EScanEnd; EReturn (RPairs (rev acc))].
Proof.
  intros HI Hxk Hx (_ & th & Hg & Hpr & Hph) Hc Hin.
  destruct (end_step_inv K V ltb order s s2 me acq ev Hc Hin) as (acc & es & Hes & Eev).
  destruct Hes as [th1 leaf i n' acc j es Hg1 Hpc Hf Hn]. rewrite Hg in Hg1. inversion Hg1; subst th1.
  exists acc. split; [|exact Eev]. rewrite Hpc in Hph. cbn [yielded is_cur] in Hph.
  destruct (Hph eq_refl) as [[Hin0|(e1 & r & Eacc & Hlt)]|(Hy0 & _)].
  - exact Hin0.
  - exfalso. assert (Hy : yielded (tpc th) = e1 :: r) by (rewrite Hpc; exact Eacc).
    rewrite (B4_end_after K V ltb HS order s s2 me acq ev th e1 r HI Hc Hin Hg Hy x Hx) in Hlt. discriminate.
  - exfalso. assert (Hy : yielded (tpc th) = []) by (rewrite Hpc; exact Hy0).
    destruct (B4_end_first K V ltb HS order H4 s s2 me acq ev th HI Hc Hin Hg Hy) as (k1 & cnt1 & Hpr1 & Hall).
    rewrite Hpr in Hpr1. inversion Hpr1; subst k1 cnt1. rewrite (Hall x Hx) in Hxk. discriminate.
Qed.

(* completeness from any state of the life of the call in which Life holds *)
Theorem scan_complete_life : forall sched s me k cnt x s2 acq ev,
  CurInv s -> ltb (fst x) k = false ->
  along (fun s1 => In x (abs ltb s1) /\ scan_head me k cnt s1) s sched ->
  Life me k cnt x s ->
  cstep ltb order (fst (exec ltb order s sched)) me = Stepped s2 acq ev -> In EScanEnd ev ->
  exists acc, In x acc /\ ev = [EScanEnd; EReturn (RPairs (rev acc))].
Proof.
  intros sched s me k cnt x s2 acq ev HI Hxk Hal HL Hc Hin.
  apply (Life_end (fst (exec ltb order s sched)) s2 me k cnt x acq ev); auto.
  - apply (CurInv_exec K V ltb HS order Heven H4). exact HI.
  - exact (proj1 (along_end _ _ _ _ _ _ _ Hal)).
  - apply Life_exec; assumption.
Qed.

(* ------------------------------------------------------------------------------------------------ *)
(* the general completeness theorem                                                                  *)
(* ------------------------------------------------------------------------------------------------ *)
(* thread me has not returned from the call it was about to make / was making when its program was pr: a thread's
   program changes only when a call returns (it loses its head), so "prog th = pr in every state visited" says
   exactly that the call at the head of pr has not returned before the last step of the run *)
Definition calling (me : tid) (pr : list cop) (s : st) : Prop :=
  exists th, get_thread me (ths s) = Some th /\ prog th = pr.

Lemma along_impl (P Q : st -> Prop) : (forall s, P s -> Q s) -> forall sched s, along P s sched -> along Q s sched.
Proof.
  intros HPQ. induction sched as [|t r IH]; intros s H; simpl in *; [split; [apply HPQ; tauto|exact I]|].
  destruct H as [H0 H]. split; [auto|].
  destruct (cstep ltb order s t) as [ | | |s' acq ev|p]; auto.
Qed.

(* GENERAL COMPLETENESS.  s0: any state satisfying the invariant of reachable states in which thread me is about to
   invoke CScan k cnt.  If x (key not below k) is stored in every state of the run s0 --sched--> s1, thread me does not
   return from that call during the run, and me's next step reports the end of the scan, then x is among the pairs
   that step returns. *)
Theorem scan_complete_general : forall (s0 : st) me k cnt th sched x s2 acq ev,
  CurInv s0 ->
  get_thread me (ths s0) = Some th -> tpc th = Idle -> hd_error (prog th) = Some (CScan k cnt) ->
  ltb (fst x) k = false ->
  along (fun s1 => In x (abs ltb s1) /\ calling me (prog th) s1) s0 sched ->
  cstep ltb order (fst (exec ltb order s0 sched)) me = Stepped s2 acq ev -> In EScanEnd ev ->
  exists acc, In x acc /\ ev = [EScanEnd; EReturn (RPairs (rev acc))].
Proof.
  intros s0 me k cnt th sched x s2 acq ev HI Hg Hpc Hpr Hxk Hal Hc Hin.
  apply (scan_complete_life sched s0 me k cnt x s2 acq ev HI Hxk); auto.
  - eapply along_impl; [|exact Hal]. intros s [Hx (th1 & Hg1 & Hp1)]. split; [exact Hx|].
    exists th1. split; [exact Hg1|]. rewrite Hp1. exact Hpr.
  - apply (Life_start s0 me th k cnt x Hg Hpr); rewrite Hpc; reflexivity.
Qed.

(* the same, observed from any point of the descent before it rests on an internal node (just invoked: WantT; holding
   the tree mutex and waiting for the root: WantRoot) *)
Theorem scan_complete_invoked : forall (s0 : st) me k cnt th sched x s2 acq ev,
  CurInv s0 ->
  get_thread me (ths s0) = Some th -> hd_error (prog th) = Some (CScan k cnt) ->
  is_seapc (tpc th) = false -> is_cur (tpc th) = false ->
  ltb (fst x) k = false ->
  along (fun s1 => In x (abs ltb s1) /\ calling me (prog th) s1) s0 sched ->
  cstep ltb order (fst (exec ltb order s0 sched)) me = Stepped s2 acq ev -> In EScanEnd ev ->
  exists acc, In x acc /\ ev = [EScanEnd; EReturn (RPairs (rev acc))].
Proof.
  intros s0 me k cnt th sched x s2 acq ev HI Hg Hpr Hns Hnc Hxk Hal Hc Hin.
  apply (scan_complete_life sched s0 me k cnt x s2 acq ev HI Hxk); auto.
  - eapply along_impl; [|exact Hal]. intros s [Hx (th1 & Hg1 & Hp1)]. split; [exact Hx|].
    exists th1. split; [exact Hg1|]. rewrite Hp1. exact Hpr.
  - apply (Life_start s0 me th k cnt x Hg Hpr Hns Hnc).
Qed.

(* ------------------------------------------------------------------------------------------------ *)
(* the scan closed early (step budget cnt used up): the prefix is complete                           *)
(* ------------------------------------------------------------------------------------------------ *)
(* at any moment of the life of the call at which the thread is a cursor: x has been yielded, or the last pair
   yielded is below x, or nothing has been yielded yet *)
Theorem scan_prefix_general : forall (s0 : st) me k cnt th sched x th1,
  CurInv s0 ->
  get_thread me (ths s0) = Some th -> tpc th = Idle -> hd_error (prog th) = Some (CScan k cnt) ->
  ltb (fst x) k = false ->
  along (fun s1 => In x (abs ltb s1) /\ calling me (prog th) s1) s0 sched ->
  get_thread me (ths (fst (exec ltb order s0 sched))) = Some th1 -> is_cur (tpc th1) = true ->
  In x (yielded (tpc th1)) \/
  (exists e1 r, yielded (tpc th1) = e1 :: r /\ ltb (fst e1) (fst x) = true) \/
  yielded (tpc th1) = [].
Proof.
  intros s0 me k cnt th sched x th1 HI Hg Hpc Hpr Hxk Hal Hg1 Hcur1.
  assert (HL : Life me k cnt x (fst (exec ltb order s0 sched))).
  { apply Life_exec; auto.
    - eapply along_impl; [|exact Hal]. intros s [Hx (th2 & Hg2 & Hp2)]. split; [exact Hx|].
      exists th2. split; [exact Hg2|]. rewrite Hp2. exact Hpr.
    - apply (Life_start s0 me th k cnt x Hg Hpr); rewrite Hpc; reflexivity. }
  destruct HL as (_ & th2 & Hg2 & _ & Hph). rewrite Hg1 in Hg2. inversion Hg2; subst th2.
  destruct (Hph Hcur1) as [[H|H]|[H _]]; auto.
Qed.

(* the Close step: the scan is closed after cnt Scan steps and returns the pairs yielded; every pair that was stored
   during the whole life of the call and is not below k is among them, unless it is above the last one returned *)
Theorem scan_closed_general : forall (s0 : st) me k cnt th sched x th1 leaf i acc s2 acq ev,
  CurInv s0 ->
  get_thread me (ths s0) = Some th -> tpc th = Idle -> hd_error (prog th) = Some (CScan k cnt) ->
  ltb (fst x) k = false ->
  along (fun s1 => In x (abs ltb s1) /\ calling me (prog th) s1) s0 sched ->
  get_thread me (ths (fst (exec ltb order s0 sched))) = Some th1 -> tpc th1 = CurRest leaf i 0 acc ->
  cstep ltb order (fst (exec ltb order s0 sched)) me = Stepped s2 acq ev ->
  ev = [EReturn (RPairs (rev acc))] /\
  (In x acc \/ (exists e1 r, acc = e1 :: r /\ ltb (fst e1) (fst x) = true) \/ acc = []).
Proof.
  intros s0 me k cnt th sched x th1 leaf i acc s2 acq ev HI Hg Hpc Hpr Hxk Hal Hg1 Hpc1 Hc. split.
  - destruct (own_step _ _ _ _ _ Hc) as (th2 & r & th3 & Hg2 & Hblk & _ & _ & _ & Eev).
    rewrite Hg1 in Hg2. inversion Hg2; subst th2. rewrite Eev.
    exact (blk_close K V ltb order _ me th1 acq r leaf i acc Hblk Hpc1).
  - assert (Hcur1 : is_cur (tpc th1) = true) by (rewrite Hpc1; reflexivity).
    pose proof (scan_prefix_general s0 me k cnt th sched x th1 HI Hg Hpc Hpr Hxk Hal Hg1 Hcur1) as H.
    rewrite Hpc1 in H. exact H.
Qed.

End P.

Arguments desc_ok {K V} ltb x me s.
Arguments pendingx {K V} ltb x s p.
Arguments scan_head {K V} me k cnt s.
Arguments Life {K V} ltb me k cnt x s.
Arguments calling {K V} me pr s.

Check desc_ok_step.
Check land_step.
Check Life_step.
Check Life_exec.
Check scan_complete_life.
Check scan_complete_general.
Check scan_complete_invoked.
Check scan_prefix_general.
Check scan_closed_general.
Print Assumptions desc_ok_step.
Print Assumptions scan_complete_life.
Print Assumptions scan_complete_general.
Print Assumptions scan_complete_invoked.
Print Assumptions scan_prefix_general.
Print Assumptions scan_closed_general.

(* SUMMARY (agent C4b).  Files: C4b_Geom.v, C4b_Blocks.v, C4b_Proof.v, C4b_Final.v, C4b_Demo.v (compile in this order);
   everything is proved, no axioms, nothing admitted (every Print Assumptions: "Closed under the global context").

   C4b_Geom.v    sea_route: for a tree satisfying shape / NoDup ids / ids < fr and a pc SeaWantChild o p c satisfying
                 pc_ok_b and pc_ok3_b (c is the child search_le (key_of o) selects in p, key_of o below hi(p)):
                   In x (ents t) -> ltb (fst x) (key_of o) = false -> below_lo (fst x) p t = false ->
                   below_lo (fst x) c t = false.
                 (below_lo_root: the root has no lower bound; child_sep_lt_hi: sep(c) < hi(c).)
   C4b_Blocks.v  blk_sea_class: a block whose final pc is SeaWantChild o n c started at WantRoot o n or at
                 SeaWantChild o p n and leaves the tree unchanged; blk_close: the Close step returns rev acc.
   C4b_Proof.v   desc_ok x me s := forall th o pn c, get_thread me (ths s) = Some th -> tpc th = SeaWantChild o pn c ->
                                     ltb (fst x) (key_of o) = false -> below_lo (fst x) pn (tr s) = false
                 desc_ok_step : BigInv s -> In x (abs s) -> desc_ok x me s -> cstep s t = Stepped s' _ _ -> desc_ok x me s'
                                (any stepping thread t; own steps by sea_route, other threads by other_below_lo)
                 desc_child   : the same fact for the awaited child c, in any state where x is stored
                 land_step    : the step that lands NewScanner in a leaf: nothing yielded, and x is not below the lower
                                bound of the landing leaf in the new state
                 Life me k cnt x s := desc_ok x me s /\ thread me has CScan k cnt at the head of its program /\
                                (if it is a cursor: x yielded, or above the last pair yielded, or nothing yielded and x not
                                 below the lower bound of the held leaf)          [generalises C4_Trace.Cov: Cov_Life]
                 Life_start (holds trivially before the descent rests on an internal node), Life_step, Life_exec,
                 scan_complete_life, and the theorems
                   scan_complete_general  (from the state where thread me is Idle with CScan k cnt at the head of its
                                           program; run = any schedule during which x stays stored and me's program
                                           does not change, i.e. the call does not return; then the EScanEnd step
                                           returns a list containing x)
                   scan_complete_invoked  (same from WantT / WantRoot)
                   scan_prefix_general    (at any cursor state of the life of the call: x yielded, or the last pair
                                           yielded is below x, or nothing yielded yet)
                   scan_closed_general    (early Close after cnt Scan steps: the returned list is rev acc and x is in
                                           acc unless it is above the last pair of acc, or acc = [])
   C4b_Final.v   the same for reachable states (SWO ltb, even order >= 4, NoDup thread ids): C04_complete_general,
                 C04_complete_invoked, C04_complete_life, C04_prefix_general, C04_closed_general.
   C4b_Demo.v    a vm_compute run at order 4 in which the descent clamps (start key 5 below the root's first separator
                 10, below_lo 5 leaf0 = true) with concurrent Insert/Delete; all hypotheses checked by computation and
                 the theorem applied.

   NOTES.  (1) No new global invariant was needed: the suggested "lo(p) <= k unless clamped" is not used; the route lemma
   is applied in whatever state the thread rests at SeaWantChild o p c (pc_ok3_b is an invariant and x is stored in
   every state), so the per-run invariant only speaks about the HELD node p, whose lower bound is literally preserved
   by the other threads (other_below_lo).  (2) The conjecture at the end of C4_Proof.v (a clamped descent lands in the
   leftmost leaf; it needs two further global invariants) is not needed for completeness and is NOT proved here;
   what the FIRST pair of a clamped scan is, is still described by B5_first_general only.  Completeness needs only:
   first pair <= x, which B5_first_general gives once x is not below the lower bound of the landing leaf (land_step).
   WHAT REMAINS: nothing of the task. *)

import sys,subprocess,shutil,time,json; sys.path.insert(0,'/verif/lib')
from gb import shadow, gensched, props_sched
tmp,vh=shadow.build()
cases=[]
for pid in ["C03","C04","C06","C08","C09"]:
    for c in props_sched.load_corpus(pid,"quick"):
        if c["id"] not in [x["id"] for x in cases] and c["type"] in ("int64","comparable"):
            c["sched"]=["all 3 20000"]; cases.append(c)
for seed in (21,22,23):
    cs=gensched.gen_sched_cases(seed, 200, shadow.TYPE_NAMES, orders=(4,8,4,16), nsched=6, kinds="IIUDDDSCI", maxthreads=4, maxops=4)
    for c in cs: c["id"]="s%d%s"%(seed,c["id"])
    cases+=cs
gensched.write_cases(cases, tmp+'/cc.txt')
t=time.time(); r=subprocess.run([vh,'sched',tmp+'/cc.txt',tmp+'/go.obs'],capture_output=True,text=True); print(r.returncode,r.stderr[-300:],time.time()-t)
t=time.time(); r=subprocess.run(['/verif/ocaml/concdriver',tmp+'/cc.txt',tmp+'/go.obs',tmp+'/model.obs','gi'],capture_output=True,text=True); print(r.returncode,r.stdout[-3000:],r.stderr[-300:],time.time()-t)
a=open(tmp+'/go.obs').read().split('\n'); b=open(tmp+'/model.obs').read().split('\n'); print(sum(1 for x in a if x.startswith('STEP')),'steps', sum(1 for x in a if x.startswith('RUN')),'runs', 'equal' if a==b else 'DIFFERENT')
shutil.rmtree(tmp)

(* Properties.v — the property theorems, and nothing else.  Each is closed by [exact <lemma>] and followed
   by Print Assumptions; the check driver reads the build log of this file.  coq/OBLIGATIONS.json lists
   which theorems belong to which property. *)
From Coq Require Import ZArith List.
From GB Require Import Model Spec Inv Order OrderProof.
Import ListNotations.

(* ---------- C12: constructors accept exactly the powers of two >= 2 ---------- *)
Theorem C12_check_order : forall o : Z, (- 2 ^ 63 <= o < 2 ^ 63)%Z ->
  (check_order o = true <-> exists n : Z, (1 <= n <= 62)%Z /\ o = (2 ^ n)%Z).
Proof. exact check_order_int64. Qed.
Print Assumptions C12_check_order.

Theorem C12_check_order_unbounded : forall o : Z, check_order o = true <-> exists n : Z, (1 <= n)%Z /\ o = (2 ^ n)%Z.
Proof. exact check_order_spec. Qed.
Print Assumptions C12_check_order_unbounded.

Theorem C12_no_wrap : forall o : Z, (- 2 ^ 63 <= o < 2 ^ 63)%Z -> (2 <=? o)%Z = true ->
  (- 2 ^ 63 <= o - 1 < 2 ^ 63)%Z /\ (0 <= o - 1)%Z.
Proof. exact check_order_no_wrap. Qed.
Print Assumptions C12_no_wrap.

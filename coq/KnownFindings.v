(* KnownFindings.v — the known finding K1 as a theorem of the model: at order 2 a Delete can panic exactly as
   the implementation does (no sibling to borrow from or merge with).  Witness by vm_compute. *)
From Coq Require Import ZArith List.
From GB Require Import Model Spec Inv HistoryProof.
Import ListNotations.

Definition k1_history : list (op Z Z) :=
  [OInsert 1 101; OInsert 2 102; OInsert 5 105; OInsert 2 102; ODelete 1]%Z.

Lemma k1_panics : run_tree Z.ltb 2 (Leaf []) k1_history = Panic PNoSiblings.
Proof. vm_compute. reflexivity. Qed.

(* so the exclusion of Delete at order 2 in [order_ok] cannot be dropped: the refinement statement is false there *)
Theorem order2_delete_refuted :
  exists ops : list (op Z Z), Nat.even 2 = true /\ 2 <= 2 /\ forall t x, run_tree Z.ltb 2 (Leaf []) ops <> Ok (t, x).
Proof. exists k1_history. repeat split; auto. intros t x H. rewrite k1_panics in H. discriminate. Qed.

(* non-vacuity of the invariant's hypotheses: a concrete three-level tree at order 4 satisfies Inv *)
Definition sample_tree : tree Z Z :=
  Node [(1, Node [(1, Leaf [(1, 10); (2, 20)]); (3, Leaf [(3, 30); (4, 40); (5, 50)])]);
        (7, Node [(7, Leaf [(7, 70); (8, 80)]); (9, Leaf [(9, 90); (10, 100)]); (12, Leaf [(12, 120); (13, 130)])])]%Z.
Example sample_tree_inv : inv_b Z.ltb 4 sample_tree = true.
Proof. vm_compute. reflexivity. Qed.

(* C4k_Demo.v — the hypotheses of the key-level completeness theorem (C4k_Proof.scan_complete_key_stored, with the invariant
   discharged by CurInv_reachable as in C4k_Final.C04_complete_key_level / C04_complete_key_level_stored) are inhabited
   by a run in which the VALUE bound to the observed key changes while the scan runs (vm_compute): order 4, thread 1
   has inserted 10..60, thread 2 scans from key 5 (the descent clamps, as in C4b_Demo), thread 3 updates key 50
   (500 -> 999), inserts 45 and starts deleting 60 while the scan runs; thread 1 inserts 70.
   The PAIR (50, 500) is NOT stored in every state of the run (demo_pair_level_fails: the pair-level theorem
   C04_complete_general does not apply), but the KEY 50 is; the theorem (not the inspection of the output) says that
   a pair with key 50 is among the pairs returned with EScanEnd, and that it was stored when it was yielded. *)
From Coq Require Import List PeanoNat Bool Lia.
From GB Require Import Model Inv Conc Lin CInv PCb1_Proof C4_Blocks C4_Proof C4_Trace C4b_Proof C4k_Proof C4k_Final.
Import ListNotations.

Definition ins (k : nat) : cop nat nat := CInsert k (10 * k).
Definition progs : list (tid * list (cop nat nat)) :=
  [ (1, [ins 10; ins 20; ins 30; ins 40; ins 50; ins 60; ins 70]);
    (2, [CScan 5 20]);
    (3, [CUpdate 50 (fun _ => 999); ins 45; CDelete 60; ins 7; ins 80; ins 3]) ].

(* follow the preferred thread of each slot; if it cannot step, take the first thread that can *)
Fixpoint go (s : st nat nat) (pref : list tid) : st nat nat * list (tid * list (event nat nat)) :=
  match pref with
  | [] => (s, [])
  | t :: r =>
    let try := fix try (l : list tid) :=
      match l with
      | [] => None
      | u :: l' => match cstep Nat.ltb 4 s u with Stepped s' _ ev => Some (u, s', ev) | _ => try l' end
      end in
    match try (t :: [1; 2; 3]) with
    | Some (u, s', ev) => let '(s'', h) := go s' r in (s'', (u, ev) :: h)
    | None => (s, [])
    end
  end.
Fixpoint rep {A} (n : nat) (l : list A) : list A := match n with 0 => [] | S m => l ++ rep m l end.

(* thread 1 inserts its first six keys; thread 2 is about to invoke the scan *)
Definition sched1 : list tid := rep 22 [1].
Definition s0 := fst (exec Nat.ltb 4 (init_st progs) sched1).
Eval vm_compute in (tr s0, map (fun e => (fst e, tpc (snd e))) (ths s0)).

Definition is_end (ev : list (event nat nat)) : bool := existsb (fun e => match e with EScanEnd => true | _ => false end) ev.
Fixpoint before_end (h : list (tid * list (event nat nat))) : list tid :=
  match h with [] => [] | (t, ev) :: r => if is_end ev then [] else t :: before_end r end.

(* the life of the scan call, up to (not including) the step that reports EScanEnd *)
Definition sched2 : list tid := before_end (snd (go s0 (rep 40 [2; 3; 3; 1]))).
Eval vm_compute in sched2.
Eval vm_compute in (snd (exec Nat.ltb 4 s0 sched2)).
Eval vm_compute in (match cstep Nat.ltb 4 (fst (exec Nat.ltb 4 s0 sched2)) 2 with Stepped _ _ ev => ev | _ => [] end).

(* a boolean version of [along] *)
Fixpoint along_b (Pb : st nat nat -> bool) (s : st nat nat) (sched : list tid) : bool :=
  Pb s && match sched with
          | [] => true
          | t :: r => match cstep Nat.ltb 4 s t with Stepped s' _ _ => along_b Pb s' r | _ => true end
          end.

Lemma along_b_ok (Pb : st nat nat -> bool) (P : st nat nat -> Prop) :
  (forall s, Pb s = true -> P s) -> forall sched s, along_b Pb s sched = true -> along nat nat Nat.ltb 4 P s sched.
Proof.
  intros H. induction sched as [|t r IH]; intros s Hb; simpl in *; apply andb_true_iff in Hb; destruct Hb as [H0 Hb].
  - split; [auto|exact I].
  - split; [auto|]. destruct (cstep Nat.ltb 4 s t) as [ | | |s' acq ev|p]; auto.
Qed.

Definition calling_b (s : st nat nat) : bool :=
  match get_thread 2 (ths s) with
  | Some th => match prog th with [CScan k n] => (k =? 5) && (n =? 20) | _ => false end
  | None => false end.

(* key 50 is bound / the pair (50, 500) is stored *)
Definition Kb (s : st nat nat) : bool := existsb (fun e => eqvb Nat.ltb (fst e) 50) (abs Nat.ltb s) && calling_b s.
Definition Xb (s : st nat nat) : bool := existsb (fun e => (fst e =? 50) && (snd e =? 500)) (abs Nat.ltb s).

Lemma Kb_ok s : Kb s = true ->
  (exists x, In x (abs Nat.ltb s) /\ eqvb Nat.ltb (fst x) 50 = true) /\ calling 2 [CScan 5 20] s.
Proof.
  unfold Kb, calling_b. intros H. apply andb_true_iff in H. destruct H as [H1 H2]. split.
  - apply existsb_exists in H1. destruct H1 as (e & Hin & He). exists e. split; assumption.
  - destruct (get_thread 2 (ths s)) as [th|] eqn:Hg; [|discriminate]. exists th. split; [exact Hg|].
    destruct (prog th) as [|[| | | |k n] [|? ?]]; try discriminate.
    apply andb_true_iff in H2. destruct H2 as [Ha Hb]. apply Nat.eqb_eq in Ha, Hb. subst. reflexivity.
Qed.

(* the pair (50, 500) does not survive the run: the pair-level hypothesis fails, the value at the end is 999 *)
Lemma demo_pair_level_fails :
  along_b Xb s0 sched2 = false /\ Xb s0 = true /\
  existsb (fun e => (fst e =? 50) && (snd e =? 999)) (abs Nat.ltb (fst (exec Nat.ltb 4 s0 sched2))) = true.
Proof. vm_compute. repeat split. Qed.

Lemma progs_nodup : NoDup (map fst progs).
Proof. simpl. repeat constructor; simpl; intuition; discriminate. Qed.

(* every hypothesis of the key-level completeness theorem holds for this run, hence its conclusion *)
Theorem demo_complete_key :
  exists s2 acq ev acc x,
    cstep Nat.ltb 4 (fst (exec Nat.ltb 4 s0 sched2)) 2 = Stepped s2 acq ev /\ In x acc /\
    eqvb Nat.ltb (fst x) 50 = true /\ ev = [EScanEnd; EReturn (RPairs (rev acc))] /\
    sometime Nat.ltb 4 (yields Nat.ltb 2 x) s0 sched2.
Proof.
  assert (Hstep : exists s2 acq ev, cstep Nat.ltb 4 (fst (exec Nat.ltb 4 s0 sched2)) 2 = Stepped s2 acq ev /\ In EScanEnd ev).
  { vm_compute. do 3 eexists. split; [reflexivity|]. left. reflexivity. }
  destruct Hstep as (s2 & acq & ev & Hc & Hin).
  assert (Hth : exists th, get_thread 2 (ths s0) = Some th /\ tpc th = Idle /\ prog th = [CScan 5 20]).
  { vm_compute. eexists. split; [reflexivity|]. split; reflexivity. }
  destruct Hth as (th & Hg & Hpc & Hpr).
  assert (Hb : along_b Kb s0 sched2 = true) by (vm_compute; reflexivity).
  assert (Hal : along nat nat Nat.ltb 4
            (fun s => (exists x, In x (abs Nat.ltb s) /\ eqvb Nat.ltb (fst x) 50 = true) /\ calling 2 (prog th) s) s0 sched2).
  { rewrite Hpr. apply (along_b_ok Kb _ Kb_ok). exact Hb. }
  assert (Hhd : hd_error (prog th) = Some (CScan 5 20)) by (rewrite Hpr; reflexivity).
  assert (Hxk : Nat.ltb 50 5 = false) by reflexivity.
  assert (H44 : 4 <= 4) by lia.
  assert (HI : CurInv Nat.ltb 4 s0).
  { unfold s0. apply (CurInv_reachable nat nat Nat.ltb nat_SWO 4 eq_refl); [lia|exact progs_nodup]. }
  destruct (scan_complete_key_stored nat nat Nat.ltb nat_SWO 4 eq_refl H44 s0
              2 5 20 th sched2 50 s2 acq ev HI Hg Hpc Hhd Hxk Hal Hc Hin) as (acc & x & Hx & He & Eev & Hst).
  exists s2, acq, ev, acc, x. exact (conj Hc (conj Hx (conj He (conj Eev Hst)))).
Qed.

Print Assumptions demo_complete_key.
Print Assumptions C04_complete_key_level.

(* NG_Proof.v — nogap_st_b (NoGap.v) is an inductive invariant of the concurrent model (relative to BigInv), and
   holds in every reachable state. *)
From Coq Require Import List Bool Lia PeanoNat Permutation.
From GB Require Import Model Inv Conc GI LockInv LockProof CInv CIDef Frame FrameInv FrameBlocks FrameProof
  EraseLemmas EraseOps SoloBase GIa1_Ctx GIa1_Blocks GIa1_Proof GIa2_Proof OCCc_Blocks LinDef ASM_Proof PCc_Proof
  NoGap NG_Lemmas NG_Blocks.
Import ListNotations.

Section NGProof.
Variables (K V : Type) (ltb : K -> K -> bool).
Hypothesis HS : SWO ltb.
Variable order : nat.
Hypothesis Heven : Nat.even order = true.
Hypothesis H4 : 4 <= order.
Notation itree := (itree K V).
Notation st := (st K V).
Notation out := (out K V).

Theorem nogap_init : forall progs : list (tid * list (cop K V)), nogap_st_b ltb (init_st progs) = true.
Proof. intros progs. reflexivity. Qed.

Lemma small_me (s : st) me th :
  all_small_b order s = true -> get_thread me (ths s) = Some th ->
  pc_small_b order (tr s) (tpc th) = true.
Proof.
  intros Hall Hg. destruct (GIa1_Proof.get_thread_in K V me _ th Hg) as (e & Hin & <-).
  unfold all_small_b in Hall. rewrite forallb_forall in Hall. apply Hall. exact Hin.
Qed.

(* the core: only the facts about the tree and the stepping thread's own pc are used *)
Theorem nogap_step_core (s s' : st) me th acq ev :
  NoDup (ids (tr s)) -> Forall (fun i => i < fresh s) (ids (tr s)) ->
  get_thread me (ths s) = Some th ->
  pc_ok_b ltb order (tr s) (tpc th) = true -> pc_small_b order (tr s) (tpc th) = true ->
  nogap_b ltb true (tr s) = true ->
  cstep ltb order s me = Stepped s' acq ev -> nogap_b ltb true (tr s') = true.
Proof.
  intros Hnd Hlt Hget Hpc Hps Hn Hstep.
  assert (Hw : wfc [] (tr s) (fresh s)) by (apply wfc_nil; auto).
  rewrite cstep_eq, Hget in Hstep.
  destruct (target s (tpc th)) as [tg|] eqn:Htg; [|discriminate].
  destruct (negb (is_free s tg)); [discriminate|].
  destruct (blk ltb order s me th tg) as [[o|]|] eqn:Hb; try discriminate.
  inversion Hstep; subst s' acq ev; clear Hstep. cbn [commit tr].
  unfold blk in Hb.
  destruct (tpc th) as [ |o0|o0 r|o0 lft rgt|o0 p c index|o0 p c r|o0 leaf mode index|o0 p c|o0 stk|o0 stk|o0 stk|leaf i n acc|leaf nxt n acc]
    eqn:Epc; cbv beta iota zeta in Hb.
  - (* Idle *)
    destruct (prog th); [discriminate|]. apply bind_some_inv in Hb. unfold mk in Hb. inversion Hb; subst. exact Hn.
  - (* WantT *)
    apply bind_some_inv in Hb. unfold mk in Hb. inversion Hb; subst. exact Hn.
  - (* WantRoot *)
    apply bind_some_inv in Hb.
    destruct o0 as [k v|k f|k|k|k n].
    + eapply (root_ng K V ltb HS order (CInsert k v)); eauto.
    + eapply (root_ng K V ltb HS order (CUpdate k f)); eauto.
    + destruct (tr s) as [i nx es|i cs] eqn:ET.
      * unfold mk in Hb. ngcrunch Hb. inversion Hb; subst. reflexivity.
      * unfold mk in Hb. ngcrunch Hb. inversion Hb; subst. exact Hn.
    + apply (sea_descend_rel K V ltb) in Hb. destruct Hb as (_ & -> & _). exact Hn.
    + apply (sea_descend_rel K V ltb) in Hb. destruct Hb as (_ & -> & _). exact Hn.
  - (* InsWantRootRight *)
    apply bind_some_inv in Hb. eapply ins_descend_ng; eauto.
  - (* InsWantChild *)
    apply bind_some_inv in Hb.
    eapply (ins_child_ng K V ltb HS order o0 p c index (tr s)); eauto.
  - (* InsWantSplitRight *)
    apply bind_some_inv in Hb. eapply ins_descend_ng; eauto.
  - (* UpdCallback *)
    apply bind_some_inv in Hb.
    eapply (upd_cb_ng K V ltb o0 leaf mode index (tr s)); eauto.
  - (* SeaWantChild *)
    apply bind_some_inv in Hb.
    apply (sea_descend_rel K V ltb) in Hb. destruct Hb as (_ & -> & _). exact Hn.
  - (* DelWantLeft *)
    apply bind_some_inv in Hb.
    destruct stk as [|f rest]; [discriminate Hb|]. destruct tg as [[x|]|]; try discriminate Hb.
    unfold mk in Hb. inversion Hb; subst o. exact Hn.
  - (* DelWantChild *)
    apply bind_some_inv in Hb.
    destruct stk as [|f rest]; [discriminate Hb|]. destruct tg as [[c|]|]; try discriminate Hb.
    cbn [target] in Htg.
    destruct (child_id (tr s) (Conc.fp f) (fidx f)) as [x|] eqn:Ecid; [|discriminate Htg].
    cbn [bind] in Htg. inversion Htg; subst x; clear Htg.
    cbn [pc_ok_b] in Hpc.
    destruct (Conc.find c (tr s)) as [[i nx es|i cs]|] eqn:Hfc; [| |discriminate Hb].
    + destruct (leaf_delete ltb (Nat.div2 order) (key_of o0) es) as [[es' small]|] eqn:Eld; [|discriminate Hb].
      cbn [bind] in Hb.
      destruct (upd c (fun _ => Ok (ILeaf i nx es')) (tr s)) as [t'|] eqn:Eupd; [|discriminate Hb]. cbn [bind] in Hb.
      eapply (del_child_ng K V ltb HS order H4 (fresh s) (tr s) t' f rest c i nx es es' small (key_of o0) o0); eauto.
    + destruct (del_descend ltb o0 (set_fc f c :: rest) c (tr s)) as [p|]; [|discriminate Hb].
      cbn [bind] in Hb. unfold mk in Hb. inversion Hb; subst o. exact Hn.
  - (* DelWantRight *)
    apply bind_some_inv in Hb.
    destruct tg as [[x|]|]; try discriminate Hb.
    eapply (del_right_ng K V ltb HS order H4 (fresh s) (tr s) stk o0 x); eauto.
  - (* CurRest *)
    apply bind_some_inv in Hb. unfold mk in Hb. ngcrunch Hb; inversion Hb; subst; exact Hn.
  - (* CurWantNext *)
    apply bind_some_inv in Hb. unfold mk in Hb. ngcrunch Hb; inversion Hb; subst; exact Hn.
Qed.

Theorem nogap_step : forall (s s' : st) me acq ev,
  ASM_Proof.BigInv K V ltb order s -> nogap_st_b ltb s = true ->
  cstep ltb order s me = Stepped s' acq ev -> nogap_st_b ltb s' = true.
Proof.
  intros s s' me acq ev HB Hn Hstep. unfold nogap_st_b in *.
  destruct HB as (HC & Hsm & _).
  destruct HC as (((HGI & _ & Hpcs) & _) & _).
  destruct HGI as (Hnd & Hlt & _).
  destruct (stepped_thread K V ltb order s s' me acq ev Hstep) as [th Hget].
  eapply nogap_step_core; eauto.
  - eapply all_pc_ok_elim; eauto.
  - eapply small_me; eauto.
Qed.

(* ---- every reachable state ---- *)
Let P2 := fun (s s' : st) me acq ev (B : ASM_Proof.Base K V ltb order s) (E : cstep ltb order s me = Stepped s' acq ev) =>
  pc_ok2_step K V ltb HS order s s' me acq ev Heven H4 B E.
Let P3 := fun (s s' : st) me acq ev (B : ASM_Proof.Base K V ltb order s) (E : cstep ltb order s me = Stepped s' acq ev) =>
  pc_ok3_step K V ltb HS order s s' me acq ev Heven H4 B E.

Lemma nogap_exec : forall sched (s : st),
  ASM_Proof.BigInv K V ltb order s -> nogap_st_b ltb s = true ->
  nogap_st_b ltb (fst (exec ltb order s sched)) = true.
Proof.
  induction sched as [|t r IH]; intros s HB Hn; simpl; [exact Hn|].
  destruct (cstep ltb order s t) as [ | | |s' acq ev|p] eqn:Hc; try exact Hn.
  pose proof (BigInv_step K V ltb HS order Heven H4 P2 P3 s s' t acq ev HB Hc) as HB'.
  pose proof (nogap_step s s' t acq ev HB Hn Hc) as Hn'.
  specialize (IH s' HB' Hn').
  destruct (exec ltb order s' r) as [s'' h]. exact IH.
Qed.

Theorem nogap_reachable : forall (progs : list (tid * list (cop K V))) sched, NoDup (map fst progs) ->
  nogap_st_b ltb (fst (exec ltb order (init_st progs) sched)) = true.
Proof.
  intros progs sched Hnd. apply nogap_exec; [|apply nogap_init].
  exact (BigInv_init K V ltb order (all_pc_ok2_init K V) (all_pc_ok3_init K V ltb) progs Hnd).
Qed.

End NGProof.

Check nogap_init.
Check nogap_step.
Check nogap_reachable.
Print Assumptions nogap_reachable.

(* SUMMARY.  Nothing remains; all three requested theorems are proved as stated (no extra hypotheses), no axioms.
     nogap_init      : nogap_st_b ltb (init_st progs) = true
     nogap_step      : BigInv K V ltb order s -> nogap_st_b ltb s = true ->
                       cstep ltb order s me = Stepped s' acq ev -> nogap_st_b ltb s' = true
                       (uses SWO ltb and 4 <= order; evenness of the order is not needed)
     nogap_reachable : NoDup (map fst progs) -> nogap_st_b ltb (fst (exec ltb order (init_st progs) sched)) = true
   nogap_step_core shows what is actually used of BigInv: NoDup (ids tr), ids < fresh (from GI), pc_ok_b of the
   stepping thread (InsWantChild: index/child/in_range; DelWantChild/DelWantRight: frames_ok_b) and pc_small_b of
   the stepping thread (DelWantRight: the small child has div2 order - 1 >= 1 entries, so an internal small child
   is not empty; without this an adopt-from-right/absorb into an EMPTY internal node would give it a first
   separator unrelated to its own separator).
   Files: NG_Lemmas.v (sep_ok/entry_ok/ng_entries, nogap_node, hole_lm, nogap_plug_inv, nogap_plug_repl,
   upd_leaf_ng, isplit_ng, adoptR_ng/adoptL_ng/absorb_ng), NG_Reb.v (rebal_core_cases), NG_Blocks.v (ins_descend_ng,
   upd_cb_ng, root_ng, ins_child_ng, reb_entries_ng, unwind_ng, del_child_ng, del_right_ng), NG_Proof.v. *)

(* TB_Trace.v — the trace of an instrumented execution (one record per executed step: thread, events, and the
   linearization point taken at that step, if any), the fact that the linearization points of a trace, in trace
   order, form a run of the specification (no invariant needed: it is how [istep] threads the specification's map),
   and a classification of instrumented steps of the stepping thread that packages everything the per-step
   statement [lin_step_ok] and the definition of [cstep] say about it. *)
From Coq Require Import List Bool PeanoNat Lia.
From GB Require Import LinDef SoloBase LINc_Blocks LINc_Proof.
Import ListNotations.

#[local] Arguments istep_unfold {K V ltb order i i' me ev} _.
#[local] Arguments cstep_unpack {K V ltb order s s' me acq ev} _.
#[local] Arguments commit_me {K V s me th} o _.
#[local] Arguments commit_other {K V} s me th o {t} _.
#[local] Arguments blk_idle {K V ltb order s me th tg r} _ _.
#[local] Arguments blk_outcome {K V ltb order s me th tg r o} _ _.
#[local] Arguments lp_idle {K V} ltb {s} s' {me} acq ev {th} _ _.
#[local] Arguments call_in_flight_pc {K V s me th o rest} _ _ _.
#[local] Arguments quiet_invokes {K V ev} _.
#[local] Arguments retev_invokes {K V ev r} _.
#[local] Arguments quiet_returned {K V ev} _.
#[local] Arguments retev_returned {K V ev r} _.

Section Trace.
Variables (K V : Type) (ltb : K -> K -> bool).
Variable order : nat.
Notation st := (st K V).
Notation thread := (thread K V).
Notation cop := (cop K V).
Notation event := (event K V).
Notation ores := (ores K V).
Notation istate := (istate K V).
Notation pc := (pc K V).

(* one record per executed step: thread, events, and the linearization point taken at this step, if any *)
Set Implicit Arguments.
Record irec := { r_tid : tid; r_ev : list event; r_lp : option (op K V * obs V) }.
Unset Implicit Arguments.

(* the linearization point of the step of [me] from [i]: the specification operation that takes effect and the
   answer the specification gives for it on its current map *)
Definition istep_lp (i : istate) (me : tid) : option (op K V * obs V) :=
  match cstep ltb order (is_st i) me with
  | Stepped s' acq ev =>
    match lp_step ltb (is_st i) me acq ev s' with
    | Some po => Some (po, snd (step_spec ltb (is_abs i) po))
    | None => None
    end
  | _ => None
  end.

(* mirrors iexec/istep *)
Fixpoint itrace (i : istate) (sched : list tid) : list irec :=
  match sched with
  | [] => []
  | t :: r =>
    match istep ltb order i t with
    | Some (i', ev) => {| r_tid := t; r_ev := ev; r_lp := istep_lp i t |} :: itrace i' r
    | None => []
    end
  end.

(* the linearization points of a trace, in trace order *)
Definition lps_of (T : list irec) : list (op K V * obs V) :=
  flat_map (fun r => match r_lp r with Some p => [p] | None => [] end) T.

Lemma lps_of_app T1 T2 : lps_of (T1 ++ T2) = lps_of T1 ++ lps_of T2.
Proof. unfold lps_of. apply flat_map_app. Qed.

(* the specification operation of a client call *)
Definition spec_op (o : cop) : option (op K V) :=
  match o with
  | CInsert k v => Some (OInsert k v)
  | CUpdate k f => Some (OUpdate k f)
  | CDelete k => Some (ODelete k)
  | CSearch k => Some (OSearch k)
  | CScan _ _ => None
  end.

Lemma spec_op_scan o : spec_op o = None <-> is_scan o = true.
Proof. destruct o; simpl; split; intros H; try discriminate H; reflexivity. Qed.

(* ---- how an instrumented step changes the specification's map ---- *)
Lemma istep_abs (i i' : istate) me ev :
  istep ltb order i me = Some (i', ev) ->
  match istep_lp i me with
  | Some (po, x) => step_spec ltb (is_abs i) po = (is_abs i', x)
  | None => is_abs i' = is_abs i
  end.
Proof.
  intros Hi. destruct (istep_unfold Hi) as (s' & acq & Hs & _ & _ & Ea).
  unfold istep_lp. rewrite Hs. destruct (lp_step ltb (is_st i) me acq ev s') as [po|].
  - rewrite Ea. destruct (step_spec ltb (is_abs i) po); reflexivity.
  - exact Ea.
Qed.

(* (a), generic part: the linearization points of the trace are a run of the specification from the map of the
   first state to the map of the last *)
Lemma run_spec_trace : forall sched (i : istate),
  run_spec ltb (is_abs i) (map fst (lps_of (itrace i sched))) =
  (is_abs (iexec ltb order i sched), map snd (lps_of (itrace i sched))).
Proof.
  induction sched as [|t r IH]; intros i; simpl; [reflexivity|].
  destruct (istep ltb order i t) as [[i' ev]|] eqn:Hi; [|reflexivity].
  pose proof (istep_abs _ _ _ _ Hi) as Ha. unfold lps_of. cbn [flat_map r_lp]. fold (lps_of (itrace i' r)).
  destruct (istep_lp i t) as [[po x]|].
  - cbn [app map fst snd run_spec]. rewrite Ha, IH. reflexivity.
  - cbn [app]. rewrite <- Ha. apply IH.
Qed.

(* ---- small facts about steps ---- *)
Lemma iexec_cons_some (i i' : istate) t ev r :
  istep ltb order i t = Some (i', ev) -> iexec ltb order i (t :: r) = iexec ltb order i' r.
Proof. intros H. simpl. rewrite H. reflexivity. Qed.

Lemma lp_step_op (s s' : st) me acq ev po th o rest :
  lp_step ltb s me acq ev s' = Some po -> get_thread me (ths s) = Some th -> prog th = o :: rest ->
  spec_op o = Some po.
Proof.
  unfold lp_step. intros H Hme Hpr. rewrite Hme, Hpr in H.
  destruct (get_thread me (ths s')) as [th'|]; [|discriminate H].
  destruct o; cbn [spec_op];
    repeat match type of H with
           | context [match ?x with _ => _ end] => destruct x
           end; try discriminate H; exact H.
Qed.

Lemma retev_in_self (ev : list event) r : retev ev r -> In (EReturn r) ev.
Proof. intros [->| ->]; simpl; auto. Qed.
Lemma retev_no_invoke (ev : list event) r o : retev ev r -> ~ In (EInvoke o) ev.
Proof. intros [->| ->] H; simpl in H; repeat destruct H as [H|H]; try discriminate H; exact H. Qed.
Lemma quiet_no_invoke (ev : list event) o : quiet ev -> ~ In (EInvoke o) ev.
Proof. intros [->|[e ->]] H; simpl in H; repeat destruct H as [H|H]; try discriminate H; exact H. Qed.

Lemma pc_for_not_idle (p : pc) o : pc_for p o -> p <> Idle.
Proof. intros H E. rewrite E in H. exact H. Qed.

(* ---- classification of the step of the stepping thread ---- *)
(* what happens to the ghost entry [g] of the stepping thread whose call in flight is [o] *)
Definition lp_upd (g g' : option (obs V)) (o : cop) (lp : option (op K V * obs V)) : Prop :=
  (lp = None /\ g' = g) \/
  (exists po x, lp = Some (po, x) /\ spec_op o = Some po /\ g = None /\ g' = Some x).

Inductive skind (g g' : option (obs V)) (th th' : thread) (ev : list event) (lp : option (op K V * obs V)) : Prop :=
| SK_invoke o rest :
    tpc th = Idle -> prog th = o :: rest -> ev = [EInvoke o] ->
    tpc th' = WantT o -> prog th' = o :: rest -> lp = None -> g' = None -> skind g g' th th' ev lp
| SK_cont o rest :
    tpc th <> Idle -> prog th = o :: rest -> quiet ev ->
    pc_for (tpc th') o -> prog th' = o :: rest -> lp_upd g g' o lp -> skind g g' th th' ev lp
| SK_ret o rest r :
    tpc th <> Idle -> prog th = o :: rest -> retev ev r ->
    tpc th' = Idle -> prog th' = rest -> lp_upd g g' o lp ->
    (is_scan o = false -> exists x, g' = Some x /\ ores_of_obs K x = r) -> skind g g' th th' ev lp.

Lemma istep_kind (i i' : istate) me ev th :
  istep ltb order i me = Some (i', ev) -> lin_step_ok ltb order i me ->
  get_thread me (ths (is_st i)) = Some th ->
  (tpc th <> Idle -> exists o rest, prog th = o :: rest /\ pc_for (tpc th) o) ->
  exists th', get_thread me (ths (is_st i')) = Some th' /\
    skind (gget (is_ghost i) me) (gget (is_ghost i') me) th th' ev (istep_lp i me).
Proof.
  intros Hi Hlin Hme Hfor.
  destruct (Hlin _ _ Hi) as (_ & L2 & L3).
  destruct (istep_unfold Hi) as (s' & acq & Hs & Est & Eg & _).
  specialize (L2 _ _ Hs).
  unfold istep_lp. rewrite Hs.
  destruct (cstep_unpack Hs) as (th0 & out & Hme0 & HB & Es' & Eev).
  rewrite Hme in Hme0. inversion Hme0; subst th0; clear Hme0.
  destruct (commit_me out Hme) as (th' & Hme' & Hpc' & Hpr').
  exists th'. split; [rewrite Est, Es'; exact Hme'|].
  rewrite Eg. unfold ghost_after.
  destruct (pc_eq_idle K V (tpc th)) as [Hidle|Hnidle].
  - destruct (blk_idle Hidle HB) as (o & rest & Hpr & Epc & Eoev).
    rewrite (lp_idle ltb s' acq ev Hme Hidle).
    rewrite Eev, Eoev. cbn [invokes existsb orb].
    rewrite Eoev in Hpr'. cbn [returned existsb orb] in Hpr'.
    eapply SK_invoke with (o := o) (rest := rest); try reflexivity; try assumption.
    + congruence.
    + congruence.
    + apply gget_gclear_same.
  - destruct (Hfor Hnidle) as (o & rest & Hpr & Hop).
    pose proof (blk_outcome Hop HB) as Hout.
    assert (Hinv : invokes ev = false).
    { rewrite Eev. destruct Hout as [Hq _|r0 Hr _ _]; [apply quiet_invokes; exact Hq|eapply retev_invokes; exact Hr]. }
    rewrite Hinv in *.
    assert (Hlp : lp_upd (gget (is_ghost i) me)
                    (gget match lp_step ltb (is_st i) me acq ev s' with
                          | Some po => gset (is_ghost i) me (snd (step_spec ltb (is_abs i) po))
                          | None => is_ghost i end me) o
                    match lp_step ltb (is_st i) me acq ev s' with
                    | Some po => Some (po, snd (step_spec ltb (is_abs i) po))
                    | None => None end).
    { destruct (lp_step ltb (is_st i) me acq ev s') as [po|] eqn:Hlp.
      - right. exists po, (snd (step_spec ltb (is_abs i) po)). split; [reflexivity|].
        split; [eapply lp_step_op; eauto|]. split; [apply L2; discriminate|apply gget_gset_same].
      - left. split; reflexivity. }
    destruct Hout as [Hq Hfor'|r0 Hr Hidle' _].
    + eapply SK_cont with (o := o) (rest := rest); try assumption.
      * rewrite Eev. exact Hq.
      * rewrite Hpc'. exact Hfor'.
      * rewrite Hpr', (quiet_returned Hq). exact Hpr.
    + eapply SK_ret with (o := o) (rest := rest) (r := r0); try assumption.
      * rewrite Eev. exact Hr.
      * rewrite Hpc'. exact Hidle'.
      * rewrite Hpr', (retev_returned Hr), Hpr. reflexivity.
      * intros Hsc. destruct (L3 o r0) as (x & Hx & Hr0).
        -- eapply call_in_flight_pc; eauto.
        -- exact Hsc.
        -- rewrite Eev. apply retev_in_self. exact Hr.
        -- exists x. split; [|exact Hr0]. rewrite Eg in Hx. unfold ghost_after in Hx. rewrite Hinv in Hx. exact Hx.
Qed.

(* every other thread: untouched *)
Lemma istep_other (i i' : istate) me ev t :
  istep ltb order i me = Some (i', ev) -> t <> me ->
  get_thread t (ths (is_st i')) = get_thread t (ths (is_st i)) /\ gget (is_ghost i') t = gget (is_ghost i) t.
Proof.
  intros Hi Hne. destruct (istep_unfold Hi) as (s' & acq & Hs & Est & Eg & _).
  destruct (cstep_unpack Hs) as (th0 & out & Hme0 & HB & Es' & Eev).
  split.
  - rewrite Est, Es'. apply commit_other. exact Hne.
  - rewrite Eg. apply ghost_after_other. exact Hne.
Qed.

(* a step is taken by an existing thread *)
Lemma istep_thread (i i' : istate) me ev :
  istep ltb order i me = Some (i', ev) -> exists th, get_thread me (ths (is_st i)) = Some th.
Proof.
  intros Hi. destruct (istep_unfold Hi) as (s' & acq & Hs & _).
  destruct (cstep_unpack Hs) as (th0 & out & Hme0 & _). exists th0. exact Hme0.
Qed.

(* threads are never removed *)
Lemma istep_keeps_thread (i i' : istate) me ev t th :
  istep ltb order i me = Some (i', ev) -> get_thread t (ths (is_st i)) = Some th ->
  exists th', get_thread t (ths (is_st i')) = Some th'.
Proof.
  intros Hi Ht. destruct (Nat.eq_dec t me) as [->|Hne].
  - destruct (istep_unfold Hi) as (s' & acq & Hs & Est & _).
    destruct (cstep_unpack Hs) as (th0 & out & Hme0 & HB & Es' & Eev).
    destruct (commit_me out Hme0) as (th' & Hme' & _). exists th'. rewrite Est, Es'. exact Hme'.
  - destruct (istep_other _ _ _ _ _ Hi Hne) as [E _]. exists th. rewrite E. exact Ht.
Qed.

Lemma iexec_keeps_thread t : forall sched (i : istate) th,
  get_thread t (ths (is_st i)) = Some th ->
  exists th', get_thread t (ths (is_st (iexec ltb order i sched))) = Some th'.
Proof.
  induction sched as [|u r IH]; intros i th Ht; simpl; [eauto|].
  destruct (istep ltb order i u) as [[i' ev]|] eqn:Hi; [|eauto].
  destruct (istep_keeps_thread _ _ _ _ _ _ Hi Ht) as (th' & Ht'). eapply IH; eauto.
Qed.

(* the specification's map is the tree's contents along an execution (first clause of lin_step_ok) *)
Lemma iexec_abs : forall sched (i : istate),
  (forall sched' me, lin_step_ok ltb order (iexec ltb order i sched') me) ->
  is_abs i = abs ltb (is_st i) ->
  is_abs (iexec ltb order i sched) = abs ltb (is_st (iexec ltb order i sched)).
Proof.
  induction sched as [|t r IH]; intros i Hreach H0; simpl; [exact H0|].
  destruct (istep ltb order i t) as [[i' ev]|] eqn:Hi; [|exact H0].
  apply IH.
  - intros sched' me. specialize (Hreach (t :: sched') me). simpl in Hreach. rewrite Hi in Hreach. exact Hreach.
  - destruct (Hreach [] t _ _ Hi) as (Ha & _). exact Ha.
Qed.

End Trace.

Arguments istep_lp {K V} ltb order i me.
Arguments itrace {K V} ltb order i sched.
Arguments lps_of {K V} T.
Arguments spec_op {K V} o.
Arguments lp_upd {K V} g g' o lp.
Arguments skind {K V} g g' th th' ev lp.

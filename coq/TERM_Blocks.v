(* TERM_Blocks.v — no step of the concurrent model makes the subtree rooted at an existing node higher:
   [step_hle]: for every node y other than the (at most two) identities allocated by the step,
   hat y (tr s') <= hat y (tr s).  Per-block lemmas first (descent of Insert/Update, splits, rebalancing,
   unwinding of Delete, root split and collapse), then the case analysis of [cstep]. *)
From Coq Require Import List Bool Lia PeanoNat Permutation.
From GB Require Import Model Inv ListLemmas SearchProof TreeLemmas DeleteProof Conc GI LockInv LockProof CInv CIDef
  Frame UpdLemmas FrameRel FrameInv FrameBlocks FrameProof EraseLemmas EraseOps SoloBase SoloDelete GIa2_Seq GIa2_Proof TERM_Hgt.
Import ListNotations.

Section B.
Variables (K V : Type) (ltb : K -> K -> bool).
Hypothesis HS : SWO ltb.
Variable order : nat.
Hypothesis H4 : 4 <= order.
Notation itree := (itree K V).
Notation st := (st K V).
Notation out := (out K V).
Notation m := (Nat.div2 order).
Notation hle := (hle K V).
Notation hle0 := (hle0 K V).
Notation hat := (hat K V).
Notation hgt := (hgt K V).
Notation ibal := (ibal K V).
Notation TI := (TI K V ltb order).

(* ---- descent of Insert/Update ---- *)
Lemma ins_descend_hle o n (t : itree) l fr tmx (out : out) :
  ins_descend ltb o n t l fr tmx = Ok out -> NoDup (ids t) -> hle [] t (otr out).
Proof.
  intros H Hnd. unfold ins_descend, mk in H.
  destruct (Conc.find n t) as [[i nx es|pi cs]|] eqn:Hf; [| |discriminate H].
  - crunch H; inversion H; subst; clear H; cbn [otr].
    all: try match goal with
         | Hu : upd _ _ _ = Ok ?t' |- _ => eapply upd_hle; [exact Hnd|exact Hf|exact Hu|apply leaf_hle]
         end.
    all: apply hle_refl.
  - crunch H; inversion H; subst; clear H; cbn [otr]. apply hle_refl.
Qed.

(* ---- rebalancing at one Delete frame ---- *)
Lemma irebalance_hle f (t t' : itree) small :
  NoDup (ids t) -> ibal t -> irebalance order f t = Ok (t', small) -> hle [] t t'.
Proof.
  intros Hnd Hbal H. unfold irebalance in H.
  destruct (Conc.find (fp f) t) as [[i nx es|pi cs]|] eqn:Hf; try discriminate H.
  pose proof (ibal_find K V (fp f) t _ Hbal Hf) as Hbp.
  remember (fidx f) as index eqn:Hidx. clear Hidx.
  destruct (get_nth index cs) as [[k1 child]|] eqn:Eg; [cbn [bind] in H | discriminate H].
  apply get_nth_Ok in Eg. cbv zeta in H.
  match type of H with bind ?e _ = _ => destruct e as [[cs' sm]|] eqn:Ecs; [cbn [bind] in H|discriminate H] end.
  destruct (upd (fp f) (fun _ => Ok (INode pi cs')) t) as [t1|] eqn:Eu; [cbn [bind] in H|discriminate H].
  inversion H; subst t1 sm; clear H.
  eapply upd_hle; [exact Hnd|exact Hf|exact Eu|].
  destruct ((index + 1 <? length cs) && (Nat.div2 order <? (if index + 1 <? length cs then match nth_error cs (index + 1) with Some (_, r) => icount r | None => 0 end else 0))) eqn:C1.
  { (* borrow from the right sibling *)
    destruct (get_nth (index + 1) cs) as [[k2 rgt]|] eqn:Eg2; [cbn [bind] in Ecs | discriminate Ecs].
    apply get_nth_Ok in Eg2.
    destruct (iadopt_right child rgt) as [[child' rgt']|] eqn:Ea; [cbn [bind] in Ecs | discriminate Ecs].
    destruct (ismallest rgt') as [rs|] eqn:Es; [cbn [bind] in Ecs | discriminate Ecs].
    inversion Ecs; subst cs'; clear Ecs.
    assert (Hh : hgt child = hgt rgt).
    { eapply ibal_kids; [exact Hbp|eapply nth_error_In; exact Eg|eapply nth_error_In; exact Eg2]. }
    destruct (UpdLemmas.nth_error_split2 cs index _ _ Eg Eg2) as [A [B [E L]]]. subst cs index.
    unfold set_child_i. rewrite UpdLemmas.nth_error_app_len, TreeLemmas.set_nth_app, UpdLemmas.set_nth_app1.
    apply (kids_hle K V [] pi A B [(k1, child); (k2, rgt)] [(k1, child'); (rs, rgt')]).
    eapply iadopt_right_hlel; eauto. }
  destruct ((0 <? index) && (Nat.div2 order <? (if 0 <? index then match nth_error cs (index - 1) with Some (_, l) => icount l | None => 0 end else 0))) eqn:C2.
  { (* borrow from the left sibling *)
    apply andb_prop in C2. destruct C2 as [C2 _]. apply Nat.ltb_lt in C2.
    destruct index as [|j]; [lia|].
    replace (S j - 1) with j in * by lia.
    destruct (get_nth j cs) as [[k0 lft]|] eqn:Eg0; [cbn [bind] in Ecs | discriminate Ecs].
    apply get_nth_Ok in Eg0.
    destruct (iadopt_left lft child) as [[lft' child']|] eqn:Ea; [cbn [bind] in Ecs | discriminate Ecs].
    destruct (ismallest child') as [sm|] eqn:Es; [cbn [bind] in Ecs | discriminate Ecs].
    inversion Ecs; subst cs'; clear Ecs.
    assert (Hh : hgt lft = hgt child).
    { eapply ibal_kids; [exact Hbp|eapply nth_error_In; exact Eg0|eapply nth_error_In; exact Eg]. }
    replace (S j) with (j + 1) in * by lia.
    destruct (UpdLemmas.nth_error_split2 cs j _ _ Eg0 Eg) as [A [B [E L]]]. subst cs j.
    unfold set_child_i. rewrite UpdLemmas.nth_error_app_len, TreeLemmas.set_nth_app, UpdLemmas.set_nth_app1.
    apply (kids_hle K V [] pi A B [(k0, lft); (k1, child)] [(k0, lft'); (sm, child')]).
    eapply iadopt_left_hlel; eauto. }
  destruct (0 <? (if 0 <? index then match nth_error cs (index - 1) with Some (_, l) => icount l | None => 0 end else 0)) eqn:C3.
  { (* merge into the left sibling *)
    destruct (0 <? index) eqn:C0; [|discriminate C3]. apply Nat.ltb_lt in C0.
    destruct index as [|j]; [lia|].
    replace (S j - 1) with j in * by lia.
    destruct (get_nth j cs) as [[k0 lft]|] eqn:Eg0; [cbn [bind] in Ecs | discriminate Ecs].
    apply get_nth_Ok in Eg0.
    destruct (iabsorb lft child) as [lft'|] eqn:Ea; [cbn [bind] in Ecs | discriminate Ecs].
    inversion Ecs; subst cs'; clear Ecs.
    assert (Hh : hgt lft = hgt child).
    { eapply ibal_kids; [exact Hbp|eapply nth_error_In; exact Eg0|eapply nth_error_In; exact Eg]. }
    replace (S j) with (j + 1) in * by lia.
    destruct (UpdLemmas.nth_error_split2 cs j _ _ Eg0 Eg) as [A [B [E L]]]. subst cs j.
    unfold set_child_i. rewrite UpdLemmas.nth_error_app_len, TreeLemmas.set_nth_app, UpdLemmas.del_nth_app1.
    apply (kids_hle K V [] pi A B [(k0, lft); (k1, child)] [(k0, lft')]).
    eapply iabsorb_hlel; eauto. }
  destruct ((if index + 1 <? length cs then match nth_error cs (index + 1) with Some (_, r) => icount r | None => 0 end else 0) =? 0) eqn:C4; [discriminate Ecs|].
  (* merge the right sibling into the child *)
  destruct (get_nth (index + 1) cs) as [[k2 rgt]|] eqn:Eg2; [cbn [bind] in Ecs | discriminate Ecs].
  apply get_nth_Ok in Eg2.
  destruct (iabsorb child rgt) as [child'|] eqn:Ea; [cbn [bind] in Ecs | discriminate Ecs].
  inversion Ecs; subst cs'; clear Ecs.
  assert (Hh : hgt child = hgt rgt).
  { eapply ibal_kids; [exact Hbp|eapply nth_error_In; exact Eg|eapply nth_error_In; exact Eg2]. }
  destruct (UpdLemmas.nth_error_split2 cs index _ _ Eg Eg2) as [A [B [E L]]]. subst cs index.
  unfold set_child_i. rewrite UpdLemmas.nth_error_app_len, TreeLemmas.set_nth_app, UpdLemmas.del_nth_app1.
  apply (kids_hle K V [] pi A B [(k1, child); (k2, rgt)] [(k1, child')]).
  eapply iabsorb_hlel; eauto.
Qed.

Lemma TI_ibal (t : itree) : TI t -> ibal t.
Proof. intros (_ & B & _). exact B. Qed.

Lemma wfc_nodup C (sub : itree) fr : wfc C sub fr -> NoDup (ids (plug C sub)).
Proof. intros H. apply (wfc_plug K V) in H. apply wfc_nil in H. tauto. Qed.

(* ---- the return through the deleteKey activations (mirrors GIa2_Proof.unwind_gi) ---- *)
Lemma unwind_hle fr : forall stk C (sub : itree) small right l fuel tmx o (out : out),
  fmatch K V stk C -> wfc C sub fr -> TI (plug C sub) ->
  (small = true -> icount sub < m) ->
  unwind order fuel o stk small right (plug C sub) l fr tmx = Ok out ->
  hle [] (plug C sub) (otr out).
Proof.
  induction stk as [|f stk IH]; intros [|cf C] sub small right l fuel tmx o out Hm Hw HT Hsm H;
    simpl in Hm; try tauto.
  - destruct fuel as [|fuel]; [discriminate H|]. cbn [unwind plug] in H. unfold mk in H.
    inversion H; subst out; clear H. cbn [otr plug].
    destruct (negb small || (1 <? icount sub)) eqn:Ec; [apply hle_refl|].
    destruct sub as [i nx es|i [|[s c] cs]]; try apply hle_refl.
    apply root_collapse_hle.
  - destruct Hm as (Hfp & Hfi & Hm).
    destruct fuel as [|fuel]; [discriminate H|].
    pose proof (proj2 (wfc_push _ _ cf C sub fr) Hw) as Hw1.
    rewrite unwind_cons in H. destruct small; cbn [negb] in H.
    + assert (Hfind : Conc.find (Conc.fp f) (plug C (plug1 cf sub)) = Some (plug1 cf sub)).
      { rewrite Hfp. apply (find_plug_self K V C (plug1 cf sub) fr Hw1). }
      change (plug (cf :: C) sub) with (plug C (plug1 cf sub)) in H. rewrite Hfind in H.
      unfold plug1 in H at 1.
      destruct ((fidx f + 1 <? length (cpre cf ++ (csep cf, sub) :: cpost cf)) &&
                match right with None => true | Some _ => false end).
      * unfold mk in H. inversion H; subst out; clear H. cbn [otr]. apply hle_refl.
      * destruct (irebalance order f (plug C (plug1 cf sub))) as [[t' small']|] eqn:Er; [|discriminate H].
        cbn [bind] in H.
        assert (Hstep : hle [] (plug (cf :: C) sub) t').
        { apply (irebalance_hle f _ t' small'); [apply (wfc_nodup _ _ _ Hw)|apply TI_ibal; exact HT|exact Er]. }
        destruct (irebalance_gi K V ltb HS order H4 fr C cf sub f t' small' Hfp Hfi Hw (Hsm eq_refl) Er)
          as (cs' & -> & Hw2 & Hir & Hs').
        eapply hle_trans; [exact Hstep|].
        apply (IH C (INode (cid cf) cs') small' None (unlock_frame_kids f right l) fuel tmx o out Hm Hw2);
          [exact (TI_irefines K V ltb order _ _ HT Hir)|exact Hs'|exact H].
    + apply (IH C (plug1 cf sub) false None (unlock_frame_kids f right l) fuel tmx o out Hm Hw1 HT);
        [discriminate|exact H].
Qed.

Lemma del_child_hle fr (t t' : itree) f rest c i nx es es' small k o l tmx fuel (out : out) :
  wfc [] t fr -> TI t -> frames_ok_b t (f :: rest) = true -> child_id t (Conc.fp f) (fidx f) = Ok c ->
  Conc.find c t = Some (ILeaf i nx es) -> leaf_delete ltb m k es = Ok (es', small) ->
  upd c (fun _ => Ok (ILeaf i nx es')) t = Ok t' ->
  unwind order fuel o (set_fc f c :: rest) small None t' l fr tmx = Ok out ->
  hle [] t (otr out).
Proof.
  intros Hw HT Hfr Hcid Hfc Hld Hupd Hun.
  unfold child_id in Hcid. destruct (Conc.find (Conc.fp f) t) as [[|pi cs0]|] eqn:Hf; try discriminate Hcid.
  destruct (get_nth (fidx f) cs0) as [[s ch]|] eqn:Eg; [|discriminate Hcid]. cbn [bind] in Hcid.
  inversion Hcid; subst c; clear Hcid.
  apply UpdLemmas.get_nth_Ok in Eg.
  destruct (frames_child_ctx K V fr f rest t pi cs0 s ch Hw Hfr Hf Eg) as (cf & C & Ht & Hfp & Hfi & Hm & Hwc).
  pose proof (find_plug_self _ _ _ _ fr Hwc) as Hfind. rewrite <- Ht, Hfc in Hfind. inversion Hfind as [Hch]. clear Hfind.
  subst ch. cbn [nid] in *.
  rewrite Ht in Hupd. rewrite (upd_plug_self _ _ (cf :: C) (ILeaf i nx es) fr _ Hwc) in Hupd.
  inversion Hupd; subst t'; clear Hupd.
  eapply hle_trans.
  - rewrite Ht. apply (hle_plug K V [] (cf :: C) (ILeaf i nx es) (ILeaf i nx es')). apply leaf_hle.
  - apply (unwind_hle fr (set_fc f i :: rest) (cf :: C) (ILeaf i nx es') small None l fuel tmx o out).
    + cbn [fmatch set_fc Conc.fp fidx]. auto.
    + eapply wfc_same; [exact Hwc|reflexivity].
    + apply (TI_irefines K V ltb order (plug (cf :: C) (ILeaf i nx es))); [rewrite <- Ht; exact HT|].
      apply (irefines_plug K V ltb HS order H4). eapply (leaf_step_irefines K V ltb HS order H4); eauto.
    + cbn [icount]. apply (leaf_delete_small K V ltb order H4 k es es' small Hld).
    + exact Hun.
Qed.

Lemma del_right_hle fr (t : itree) stk o x l tmx fuel (out : out) :
  wfc [] t fr -> TI t -> pc_ok_b ltb order t (DelWantRight o stk) = true ->
  unwind order fuel o stk true (Some x) t l fr tmx = Ok out ->
  hle [] t (otr out).
Proof.
  intros Hw HT Hpc Hun. cbn [pc_ok_b] in Hpc. apply andb_true_iff in Hpc. destruct Hpc as [Hfr Hsm].
  destruct stk as [|f rest]; [discriminate Hsm|].
  destruct (fc f) as [c|] eqn:Efc; [|discriminate Hsm].
  destruct (Conc.find c t) as [ct|] eqn:Hfc; [|discriminate Hsm]. apply Nat.ltb_lt in Hsm.
  destruct (frames_ok_cons K V _ _ _ Hfr) as (pi & cs0 & Hf & _ & Hkid & _ & _).
  destruct (Hkid _ Efc) as (s & ch & Hn & Hnid).
  destruct (frames_child_ctx K V fr f rest t pi cs0 s ch Hw Hfr Hf Hn) as (cf & C & Ht & Hfp & Hfi & Hm & Hwc).
  pose proof (find_plug_self _ _ _ _ fr Hwc) as Hfind. rewrite <- Ht, Hnid, Hfc in Hfind. inversion Hfind as [Hch]. clear Hfind.
  subst ct. rewrite Ht in Hun, HT. rewrite Ht.
  apply (unwind_hle fr (f :: rest) (cf :: C) ch true (Some x) l fuel tmx o out).
  - cbn [fmatch]. auto.
  - exact Hwc.
  - exact HT.
  - intros _. exact Hsm.
  - exact Hun.
Qed.

(* ---- Insert/Update at the root: the root split ---- *)
Lemma ins_root_hle0 o r (t : itree) l fr tm0 (out : out) :
  NoDup (ids t) -> ~ In fr (ids t) -> ~ In (S fr) (ids t) ->
  match isplit order fr t with
  | None => ins_descend ltb o r t l fr None
  | Some (lft, rgt) =>
    ls <- ismallest lft ;; rs <- ismallest rgt ;;
    if ltb (key_of o) rs
    then ins_descend ltb o r (INode (S fr) [(if ltb (key_of o) ls then key_of o else ls, lft); (rs, rgt)]) l (S (S fr)) None
    else mk (INode (S fr) [(if ltb (key_of o) ls then key_of o else ls, lft); (rs, rgt)]) l (S (S fr)) tm0
           (InsWantRootRight o r fr) []
  end = Ok out -> hle0 [fr; S fr] t (otr out) /\ hgt (otr out) <= S (hgt t).
Proof.
  intros Hnd Hfr1 Hfr2 H. set (key := key_of o) in *.
  destruct (isplit order fr t) as [[lft rgt]|] eqn:Hsp.
  - destruct (ismallest lft) as [ls|] eqn:Els; [cbn [bind] in H|discriminate H].
    destruct (ismallest rgt) as [rs|] eqn:Ers; [cbn [bind] in H|discriminate H].
    set (ls' := if ltb key ls then key else ls) in *.
    destruct (root_split_rel K V ltb False order [nid t; fr; S fr] fr ls' rs lft rgt t Hnd Hsp Hfr1 Hfr2)
      as (_ & _ & Hnd'); try (simpl; tauto).
    pose proof (root_split_hle0 K V order fr t lft rgt ls' rs Hsp) as H0.
    assert (Hh : hgt (INode (S fr) [(ls', lft); (rs, rgt)]) <= S (hgt t)).
    { destruct (isplit_hlel K V order fr t lft rgt ls' ls' rs Hsp) as [H1 _]. rewrite hgt_node.
      cbn [hmaxl snd] in *. lia. }
    destruct (ltb key rs).
    + pose proof (ins_descend_hle _ _ _ _ _ _ _ H Hnd') as H1. split.
      * eapply hle0_trans; [exact H0|exact H1].
      * destruct H1 as [H1 _]. lia.
    + unfold mk in H. inversion H; subst out; clear H. cbn [otr]. split; [exact H0|exact Hh].
  - pose proof (ins_descend_hle _ _ _ _ _ _ _ H Hnd) as H1. split.
    + apply hle_hle0. eapply hle_weaken; [|exact H1]. intros x [].
    + destruct H1 as [H1 _]. lia.
Qed.

(* ---- Insert/Update at an internal node: the separator update and the child split ---- *)
Lemma ins_child_hle o p c index (t : itree) l l1 fr tm0 (out : out) :
  NoDup (ids t) -> ~ In fr (ids t) ->
  pc_ok_b ltb order t (InsWantChild o p c index) = true ->
  match Conc.find p t, Conc.find c t with
  | Some (INode pi cs), Some child =>
    '(sep, _) <- get_nth index cs ;;
    sep' <- Ok (if index =? 0 then (if ltb (key_of o) sep then key_of o else sep) else sep) ;;
    match isplit order fr child with
    | None =>
      t' <- upd p (fun _ => Ok (INode pi (set_nth index (sep', child) cs))) t ;;
      ins_descend ltb o c t' l1 fr tm0
    | Some (lft, rgt) =>
      rs <- ismallest rgt ;;
      t' <- upd p (fun _ => Ok (INode pi (ins_nth (index + 1) (rs, rgt) (set_nth index (sep', lft) cs)))) t ;;
      if ltb (key_of o) rs then ins_descend ltb o c t' l1 (S fr) tm0
      else mk t' l (S fr) tm0 (InsWantSplitRight o p c fr) []
    end
  | _, _ => Panic PIndex end = Ok out ->
  hle [fr] t (otr out).
Proof.
  intros Hnd Hfr Hok H. set (key := key_of o) in *.
  unfold pc_ok_b in Hok.
  destruct (Conc.find p t) as [[?|pi cs]|] eqn:Hfp; try discriminate Hok.
  apply andb_prop in Hok; destruct Hok as [Hok _]. apply andb_prop in Hok; destruct Hok as [_ H3].
  destruct (nth_error cs index) as [[sep ch]|] eqn:Hn; [|discriminate H3]. apply Nat.eqb_eq in H3.
  destruct (Conc.find c t) as [child|] eqn:Hfc; [|discriminate H].
  assert (child = ch).
  { pose proof (find_child K V p pi cs sep ch t Hnd Hfp (nth_error_In _ _ Hn)) as Hf2. rewrite H3 in Hf2. congruence. }
  subst ch.
  unfold get_nth in H. rewrite Hn in H. cbn [bind] in H.
  assert (Hpi : pi = p) by (apply find_nid in Hfp; exact Hfp). subst pi.
  cbn [bind] in H.
  set (sep' := if index =? 0 then (if ltb key sep then key else sep) else sep) in H.
  destruct (isplit order fr child) as [[lft rgt]|] eqn:Hsp.
  - destruct (ismallest rgt) as [rs|] eqn:Ers; [cbn [bind] in H|discriminate H].
    match type of H with bind ?e _ = _ => destruct e as [t'|] eqn:Hu; [cbn [bind] in H|discriminate H] end.
    destruct (ins_split_rel K V ltb False order [p; nid child; fr] p p cs index sep sep' rs child lft rgt fr t t'
                Hnd Hfp Hn Hsp Hu Hfr) as (_ & _ & Hnd' & _); try (simpl; tauto).
    assert (H0 : hle [fr] t t').
    { eapply upd_hle; [exact Hnd|exact Hfp|exact Hu|].
      destruct (nth_error_split cs index Hn) as (A & B & -> & <-).
      rewrite TreeLemmas.set_nth_app, UpdLemmas.ins_nth_app1.
      apply (kids_hle K V [fr] p A B [(sep, child)] [(sep', lft); (rs, rgt)]).
      eapply isplit_hlel; eauto. }
    destruct (ltb key rs).
    + eapply hle_trans; [exact H0|]. eapply ins_descend_hle; eauto.
    + unfold mk in H. inversion H; subst out; clear H. cbn [otr]. exact H0.
  - match type of H with bind ?e _ = _ => destruct e as [t'|] eqn:Hu; [cbn [bind] in H|discriminate H] end.
    destruct (ins_nosplit_rel K V False [p] p p cs index sep sep' child t t' Hnd Hfp Hn Hu) as (_ & _ & Hnd' & _);
      [simpl; tauto|].
    assert (H0 : hle [fr] t t').
    { eapply upd_hle; [exact Hnd|exact Hfp|exact Hu|]. exact (sep_hle K V [fr] p cs index sep sep' child Hn). }
    eapply hle_trans; [exact H0|]. eapply ins_descend_hle; eauto.
Qed.

(* ---- the step ---- *)
Lemma cstep_parts (s s' : st) me acq ev :
  cstep ltb order s me = Stepped s' acq ev ->
  exists th o, get_thread me (ths s) = Some th /\ target s (tpc th) = Ok acq /\ is_free s acq = true /\
    blk ltb order s me th acq = Ok (Some o) /\ s' = commit s me th o /\ ev = oev o.
Proof.
  rewrite cstep_eq. destruct (get_thread me (ths s)) as [th|] eqn:Hme; [|discriminate].
  destruct (target s (tpc th)) as [tg|] eqn:Htg; [|discriminate].
  destruct (negb (is_free s tg)) eqn:Hfree; [discriminate|]. apply negb_false_iff in Hfree.
  destruct (blk ltb order s me th tg) as [[o|]|] eqn:HB; try discriminate.
  intros H. inversion H; subst. exists th, o. auto 10.
Qed.

(* the only step that can make the tree higher (by one level) is the root split, done by an Insert/Update
   when it obtains the root lock *)
Definition is_ups_root (p : pc K V) : bool :=
  match p with WantRoot (CInsert _ _) _ | WantRoot (CUpdate _ _) _ => true | _ => false end.
Definition hbound (p : pc K V) (h : nat) : nat := if is_ups_root p then S h else h.

Theorem blk_hle_gen (s : st) me th tg (o : out) :
  GI ltb order s -> pc_ok_b ltb order (tr s) (tpc th) = true ->
  target s (tpc th) = Ok tg -> blk ltb order s me th tg = Ok (Some o) ->
  hle0 [fresh s; S (fresh s)] (tr s) (otr o) /\ hgt (otr o) <= hbound (tpc th) (hgt (tr s)).
Proof.
  intros HGI Hpc Etg Hb.
  pose proof HGI as (Hnd & Hlt & _).
  assert (Hfr1 : ~ In (fresh s) (ids (tr s))).
  { intros Hin. rewrite Forall_forall in Hlt. specialize (Hlt _ Hin). lia. }
  assert (Hfr2 : ~ In (S (fresh s)) (ids (tr s))).
  { intros Hin. rewrite Forall_forall in Hlt. specialize (Hlt _ Hin). lia. }
  apply (GI_elim K V ltb order) in HGI. destruct HGI as [Hw HT].
  assert (Hw2 : forall B t', hgt (tr s) <= B -> hle [fresh s] (tr s) t' ->
            hle0 [fresh s; S (fresh s)] (tr s) t' /\ hgt t' <= B).
  { intros B t' HB H. split; [|destruct H as [H _]; lia].
    apply hle_hle0. eapply hle_weaken; [|exact H]. intros x [<-|[]]. left. reflexivity. }
  assert (Hw1 : forall B t', hgt (tr s) <= B -> hle [] (tr s) t' ->
            hle0 [fresh s; S (fresh s)] (tr s) t' /\ hgt t' <= B).
  { intros B t' HB H. apply Hw2; [exact HB|]. eapply hle_weaken; [|exact H]. intros x []. }
  assert (Hsame : forall B, hgt (tr s) <= B ->
            hle0 [fresh s; S (fresh s)] (tr s) (tr s) /\ hgt (tr s) <= B).
  { intros B HB. apply Hw1; [exact HB|apply hle_refl]. }
  assert (HB1 : forall p, hgt (tr s) <= hbound p (hgt (tr s))).
  { intros p. unfold hbound. destruct (is_ups_root p); lia. }
  unfold blk in Hb.
  destruct (tpc th) as [ |o0|o0 r|o0 lft rgt|o0 p c index|o0 p c r|o0 leaf mode index|o0 p c|o0 stk|o0 stk|o0 stk|leaf i n acc|leaf nxt n acc]
    eqn:Epc; cbv beta iota zeta in Hb.
  - (* Idle *)
    destruct (prog th); [discriminate Hb|]. unfold mk in Hb. cbn [bind] in Hb. inversion Hb; subst o. apply Hsame; apply HB1.
  - (* WantT *)
    unfold mk in Hb. cbn [bind] in Hb. inversion Hb; subst o. apply Hsame; apply HB1.
  - (* WantRoot *)
    match type of Hb with bind ?e _ = _ => destruct e as [out'|] eqn:HE; [cbn [bind] in Hb|discriminate Hb] end.
    inversion Hb; subst out'; clear Hb.
    destruct o0 as [k v|k g|k|k|k n].
    + exact (ins_root_hle0 _ _ _ _ _ _ _ Hnd Hfr1 Hfr2 HE).
    + exact (ins_root_hle0 _ _ _ _ _ _ _ Hnd Hfr1 Hfr2 HE).
    + destruct (tr s) as [i nx es|i cs] eqn:ET.
      * destruct (leaf_delete ltb m k es) as [[es' small]|] eqn:Eld; [|discriminate HE].
        cbn [bind] in HE. unfold mk in HE. inversion HE; subst o; clear HE. cbn [otr].
        apply Hw1; [apply HB1|]. apply leaf_hle.
      * destruct (del_descend ltb (CDelete k) [] r (INode i cs)) as [p|]; [|discriminate HE].
        cbn [bind] in HE. unfold mk in HE. inversion HE; subst o; clear HE. cbn [otr]. apply Hsame; apply HB1.
    + destruct (sea_descend_rel K V ltb _ _ _ _ _ _ _ HE) as (_ & -> & _). apply Hsame; apply HB1.
    + destruct (sea_descend_rel K V ltb _ _ _ _ _ _ _ HE) as (_ & -> & _). apply Hsame; apply HB1.
  - (* InsWantRootRight *)
    match type of Hb with bind ?e _ = _ => destruct e as [out'|] eqn:HE; [cbn [bind] in Hb|discriminate Hb] end.
    inversion Hb; subst out'; clear Hb. apply Hw1; [apply HB1|]. eapply ins_descend_hle; eauto.
  - (* InsWantChild *)
    match type of Hb with bind ?e _ = _ => destruct e as [out'|] eqn:HE; [cbn [bind] in Hb|discriminate Hb] end.
    inversion Hb; subst out'; clear Hb.
    apply Hw2; [apply HB1|]. exact (ins_child_hle o0 p c index (tr s) _ _ (fresh s) _ o Hnd Hfr1 Hpc HE).
  - (* InsWantSplitRight *)
    match type of Hb with bind ?e _ = _ => destruct e as [out'|] eqn:HE; [cbn [bind] in Hb|discriminate Hb] end.
    inversion Hb; subst out'; clear Hb. apply Hw1; [apply HB1|]. eapply ins_descend_hle; eauto.
  - (* UpdCallback *)
    match type of Hb with bind ?e _ = _ => destruct e as [out'|] eqn:HE; [cbn [bind] in Hb|discriminate Hb] end.
    inversion Hb; subst out'; clear Hb.
    destruct o0 as [k v|k g|k|k|k n]; try discriminate HE.
    destruct (Conc.find leaf (tr s)) as [[i nx es|i cs]|] eqn:Hf; try discriminate HE.
    unfold mk in HE. crunch HE; inversion HE; subst; clear HE; cbn [otr]; (apply Hw1; [apply HB1|]).
    all: match goal with
         | Hu : upd _ _ _ = Ok ?t' |- _ => eapply upd_hle; [exact Hnd|exact Hf|exact Hu|apply leaf_hle]
         end.
  - (* SeaWantChild *)
    match type of Hb with bind ?e _ = _ => destruct e as [out'|] eqn:HE; [cbn [bind] in Hb|discriminate Hb] end.
    inversion Hb; subst out'; clear Hb.
    destruct (sea_descend_rel K V ltb _ _ _ _ _ _ _ HE) as (_ & -> & _). apply Hsame; apply HB1.
  - (* DelWantLeft *)
    destruct stk as [|f rest]; [discriminate Hb|]. destruct tg as [[x|]|]; try discriminate Hb.
    unfold mk in Hb. cbn [bind] in Hb. inversion Hb; subst o; clear Hb. apply Hsame; apply HB1.
  - (* DelWantChild *)
    destruct stk as [|f rest]; [discriminate Hb|]. destruct tg as [[c|]|]; try discriminate Hb.
    cbn [target] in Etg.
    destruct (child_id (tr s) (Conc.fp f) (fidx f)) as [x|] eqn:Ecid; [|discriminate Etg].
    cbn [bind] in Etg. inversion Etg; subst x; clear Etg.
    cbn [pc_ok_b] in Hpc.
    destruct (Conc.find c (tr s)) as [[i nx es|i cs]|] eqn:Hfc; [| |discriminate Hb].
    + destruct (leaf_delete ltb m (key_of o0) es) as [[es' small]|] eqn:Eld; [|discriminate Hb]. cbn [bind] in Hb.
      destruct (upd c (fun _ => Ok (ILeaf i nx es')) (tr s)) as [t'|] eqn:Eupd; [|discriminate Hb]. cbn [bind] in Hb.
      destruct (unwind order (S (S (length (f :: rest)))) o0 (set_fc f c :: rest) small None t'
                  ((c, me) :: lk s) (fresh s) (tm s)) as [out'|] eqn:Eun; [|discriminate Hb].
      cbn [bind] in Hb. inversion Hb; subst out'; clear Hb.
      apply Hw1; [apply HB1|].
      exact (del_child_hle (fresh s) (tr s) t' f rest c i nx es es' small (key_of o0) o0 _ _ _ o
                  Hw HT Hpc Ecid Hfc Eld Eupd Eun).
    + destruct (del_descend ltb o0 (set_fc f c :: rest) c (tr s)) as [p|]; [|discriminate Hb].
      cbn [bind] in Hb. unfold mk in Hb. cbn [bind] in Hb. inversion Hb; subst o; clear Hb. apply Hsame; apply HB1.
  - (* DelWantRight *)
    destruct tg as [[x|]|]; try discriminate Hb.
    destruct (unwind order (S (S (length stk))) o0 stk true (Some x) (tr s) ((x, me) :: lk s) (fresh s) (tm s))
      as [out'|] eqn:Eun; [|discriminate Hb].
    cbn [bind] in Hb. inversion Hb; subst out'; clear Hb.
    apply Hw1; [apply HB1|]. exact (del_right_hle (fresh s) (tr s) stk o0 x _ _ _ o Hw HT Hpc Eun).
  - (* CurRest *)
    match type of Hb with bind ?e _ = _ => destruct e as [out'|] eqn:HE; [cbn [bind] in Hb|discriminate Hb] end.
    inversion Hb; subst out'; clear Hb.
    unfold mk in HE. crunch HE; inversion HE; subst; clear HE; cbn [otr]; apply Hsame; apply HB1.
  - (* CurWantNext *)
    match type of Hb with bind ?e _ = _ => destruct e as [out'|] eqn:HE; [cbn [bind] in Hb|discriminate Hb] end.
    inversion Hb; subst out'; clear Hb.
    unfold mk in HE. crunch HE; inversion HE; subst; clear HE; cbn [otr]; apply Hsame; apply HB1.
Qed.

Corollary blk_hle0 (s : st) me th tg (o : out) :
  GI ltb order s -> pc_ok_b ltb order (tr s) (tpc th) = true ->
  target s (tpc th) = Ok tg -> blk ltb order s me th tg = Ok (Some o) ->
  hle0 [fresh s; S (fresh s)] (tr s) (otr o).
Proof. intros A B C D. exact (proj1 (blk_hle_gen s me th tg o A B C D)). Qed.

End B.

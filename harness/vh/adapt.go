package main

import (
	"encoding/hex"
	"fmt"
	"strconv"
	"strings"

	g "github.com/karrick/gobptree"
)

// hkey is the harness-level key: class (index into the case's ascending key table) and tag
// (distinguishes order-equivalent keys; always 0 for the native key types).
type hkey struct{ cls, tag int }

func (k hkey) String() string { return fmt.Sprintf("%d.%d", k.cls, k.tag) }

type cursor struct {
	scan  func() bool
	pair  func() (string, interface{})
	close func() error
}

type adapter struct {
	insert  func(hkey, interface{})
	update  func(hkey, func(interface{}, bool) interface{})
	del     func(hkey)
	search  func(hkey) (interface{}, bool)
	scanner func(hkey) *cursor
	dump    func(holders bool) string
	pos     func(*g.VerifMutex) string
}

type cursorOf[K any] interface {
	Scan() bool
	Pair() (K, interface{})
	Close() error
}

type treeOf[K any, C cursorOf[K]] interface {
	Insert(K, interface{})
	Update(K, func(interface{}, bool) interface{})
	Delete(K)
	Search(K) (interface{}, bool)
	NewScanner(K) C
	VerifDump(func(K) string, bool) string
	VerifPos(*g.VerifMutex) string
}

func adapt[K any, C cursorOf[K], T treeOf[K, C]](t T, toK func(hkey) K, fromK func(K) string) *adapter {
	return &adapter{
		insert: func(k hkey, v interface{}) { t.Insert(toK(k), v) },
		update: func(k hkey, cb func(interface{}, bool) interface{}) { t.Update(toK(k), cb) },
		del:    func(k hkey) { t.Delete(toK(k)) },
		search: func(k hkey) (interface{}, bool) { return t.Search(toK(k)) },
		scanner: func(k hkey) *cursor {
			c := t.NewScanner(toK(k))
			return &cursor{scan: c.Scan, close: c.Close, pair: func() (string, interface{}) { kk, v := c.Pair(); return fromK(kk), v }}
		},
		dump: func(holders bool) string { return t.VerifDump(fromK, holders) },
		pos:  t.VerifPos,
	}
}

// ckey is the Comparable key type of the harness: ordered by cls only (equivalence coarser than
// identity), and carrying a slice so that any use of == on it panics at run time.
type ckey struct {
	cls, tag int
	pad      []int
}

func (a ckey) Less(b interface{}) bool { return a.cls < b.(ckey).cls }
func (a ckey) ZeroValue() g.Comparable { return ckey{cls: -1 << 40, tag: -7} }

func tableKeys[K comparable](lits []string, parse func(string) (K, error), less func(a, b K) bool) (func(hkey) K, func(K) string, error) {
	tab := make([]K, len(lits))
	rev := map[K]int{}
	for i, l := range lits {
		k, err := parse(l)
		if err != nil {
			return nil, nil, err
		}
		tab[i] = k
		rev[k] = i
		if i > 0 && !less(tab[i-1], k) {
			return nil, nil, fmt.Errorf("key table not strictly ascending at %d", i)
		}
		if i > 0 && less(k, tab[i-1]) {
			return nil, nil, fmt.Errorf("key table order not antisymmetric at %d", i)
		}
	}
	toK := func(h hkey) K { return tab[h.cls] }
	fromK := func(k K) string {
		if i, ok := rev[k]; ok {
			return fmt.Sprintf("%d.0", i)
		}
		return fmt.Sprintf("?%v", k)
	}
	return toK, fromK, nil
}

func newTree(typ string, order int, lits []string) (*adapter, error) {
	switch typ {
	case "int32":
		toK, fromK, err := tableKeys(lits, func(s string) (int32, error) { v, e := strconv.ParseInt(s, 10, 32); return int32(v), e }, func(a, b int32) bool { return a < b })
		if err != nil {
			return nil, err
		}
		t, err := g.NewInt32Tree(order)
		if err != nil {
			return nil, err
		}
		return adapt[int32, *g.Int32Cursor](t, toK, fromK), nil
	case "int64":
		toK, fromK, err := tableKeys(lits, func(s string) (int64, error) { return strconv.ParseInt(s, 10, 64) }, func(a, b int64) bool { return a < b })
		if err != nil {
			return nil, err
		}
		t, err := g.NewInt64Tree(order)
		if err != nil {
			return nil, err
		}
		return adapt[int64, *g.Int64Cursor](t, toK, fromK), nil
	case "uint32":
		toK, fromK, err := tableKeys(lits, func(s string) (uint32, error) { v, e := strconv.ParseUint(s, 10, 32); return uint32(v), e }, func(a, b uint32) bool { return a < b })
		if err != nil {
			return nil, err
		}
		t, err := g.NewUint32Tree(order)
		if err != nil {
			return nil, err
		}
		return adapt[uint32, *g.Uint32Cursor](t, toK, fromK), nil
	case "uint64":
		toK, fromK, err := tableKeys(lits, func(s string) (uint64, error) { return strconv.ParseUint(s, 10, 64) }, func(a, b uint64) bool { return a < b })
		if err != nil {
			return nil, err
		}
		t, err := g.NewUint64Tree(order)
		if err != nil {
			return nil, err
		}
		return adapt[uint64, *g.Uint64Cursor](t, toK, fromK), nil
	case "string":
		toK, fromK, err := tableKeys(lits, func(s string) (string, error) {
			if s == "-" {
				return "", nil
			}
			b, e := hex.DecodeString(s)
			return string(b), e
		}, func(a, b string) bool { return a < b })
		if err != nil {
			return nil, err
		}
		t, err := g.NewStringTree(order)
		if err != nil {
			return nil, err
		}
		return adapt[string, *g.StringCursor](t, toK, fromK), nil
	case "comparable":
		t, err := g.NewComparableTree(order)
		if err != nil {
			return nil, err
		}
		toK := func(h hkey) g.Comparable { return ckey{cls: h.cls, tag: h.tag} }
		fromK := func(k g.Comparable) string {
			c, ok := k.(ckey)
			if !ok {
				return fmt.Sprintf("?%v", k)
			}
			if c.tag == -7 {
				return "ZERO"
			}
			return fmt.Sprintf("%d.%d", c.cls, c.tag)
		}
		return adapt[g.Comparable, *g.ComparableCursor](t, toK, fromK), nil
	}
	return nil, fmt.Errorf("unknown tree type %q", typ)
}

func parseKey(s string) hkey {
	p := strings.SplitN(s, ".", 2)
	c, _ := strconv.Atoi(p[0])
	t := 0
	if len(p) > 1 {
		t, _ = strconv.Atoi(p[1])
	}
	return hkey{c, t}
}

func valStr(v interface{}) string {
	if v == nil {
		return "nil"
	}
	return fmt.Sprintf("%v", v)
}

func parseVal(s string) interface{} {
	if s == "nil" {
		return nil
	}
	n, _ := strconv.Atoi(s)
	return n
}

// addCb is the Update callback of the harness: old + d, or d when the key is absent or bound to nil.
func addCb(d int, calls *int, arg *string) func(interface{}, bool) interface{} {
	return func(v interface{}, ok bool) interface{} {
		*calls++
		if !ok {
			if v != nil {
				*arg = "BADARG"
			} else {
				*arg = "none"
			}
			return d
		}
		*arg = valStr(v)
		if n, isInt := v.(int); isInt {
			return n + d
		}
		return d
	}
}

func panicCode(r interface{}) string {
	s := fmt.Sprintf("%v", r)
	switch {
	case strings.Contains(s, "index out of range"), strings.Contains(s, "nil pointer"), strings.Contains(s, "slice bounds"):
		return "index"
	case strings.Contains(s, "leaf node has no children"):
		return "leafempty"
	case strings.Contains(s, "internal node has no children"):
		return "internalempty"
	case strings.Contains(s, "both left and right siblings"):
		return "nosiblings"
	}
	return "other:" + strings.ReplaceAll(s, " ", "_")
}

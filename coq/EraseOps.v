(* EraseOps.v — erase_ids commutes with the node-level operations of the two models; what those operations do
   to identities and to the leaf chain. *)
From Coq Require Import List Bool Lia PeanoNat Permutation.
From GB Require Import Model Inv ListLemmas TreeLemmas Conc GI EraseLemmas.
Import ListNotations.

Ltac perm_lia :=
  unfold id in *;
  repeat match goal with H : Permutation _ _ |- _ => rewrite (Permutation_count_occ Nat.eq_dec) in H end;
  apply (Permutation_count_occ Nat.eq_dec); let x := fresh "x" in intros x;
  repeat match goal with H : forall y, count_occ _ _ y = count_occ _ _ y |- _ => specialize (H x) end;
  rewrite ?count_occ_app in *; cbn [count_occ] in *; rewrite ?count_occ_app in *; cbn [count_occ] in *;
  rewrite ?count_occ_app in *; cbn [count_occ] in *;
  repeat match goal with
  | |- context [Nat.eq_dec ?a ?b] => destruct (Nat.eq_dec a b)
  | H : context [Nat.eq_dec ?a ?b] |- _ => destruct (Nat.eq_dec a b)
  end; try lia.

Section O.
Variables (K V : Type).
Notation itree := (itree K V).
Notation tree := (tree K V).

Lemma icount_erase (t : itree) : count (erase_ids t) = icount t.
Proof. destruct t; simpl; [reflexivity|apply map_length]. Qed.

Lemma ismallest_erase (t : itree) : smallest (erase_ids t) = ismallest t.
Proof. destruct t as [i nx [|[k v] es]|i [|[k c] cs]]; reflexivity. Qed.

Lemma erase_cs_firstn n (cs : list (K * itree)) : erase_cs (firstn n cs) = firstn n (erase_cs cs).
Proof. unfold erase_cs. symmetry. apply firstn_map. Qed.
Lemma erase_cs_skipn n (cs : list (K * itree)) : erase_cs (skipn n cs) = skipn n (erase_cs cs).
Proof. unfold erase_cs. symmetry. apply skipn_map. Qed.

Lemma get_nth_erase j (cs : list (K * itree)) s e :
  get_nth j (erase_cs cs) = Ok (s, e) ->
  exists c, get_nth j cs = Ok (s, c) /\ erase_ids c = e /\ nth_error cs j = Some (s, c).
Proof.
  unfold get_nth, erase_cs. rewrite nth_error_map'. destruct (nth_error cs j) as [[s' c]|]; simpl; [|discriminate].
  intros H. inversion H; subst. eauto.
Qed.

Lemma nth_error_erase j (cs : list (K * itree)) :
  nth_error (erase_cs cs) j = option_map (fun c => (fst c, erase_ids (snd c))) (nth_error cs j).
Proof. unfold erase_cs. apply nth_error_map'. Qed.

(* ---- capacity ---- *)
Definition icap (order : nat) (t : itree) : Prop := cap order (erase_ids t).

Lemma icap_node order i cs :
  icap order (INode i cs) <-> length cs <= order /\ Forall (fun c => icap order (snd c)) cs.
Proof.
  unfold icap. rewrite erase_node. cbn [cap count]. rewrite erase_cs_length.
  rewrite all_kids_Forall. unfold erase_cs. rewrite Forall_map. simpl. tauto.
Qed.

Lemma icap_leaf order i nx es : icap order (ILeaf i nx es) <-> length es <= order.
Proof. unfold icap. simpl. tauto. Qed.

Lemma icap_count order t : icap order t -> icount t <= order.
Proof. destruct t; [rewrite icap_leaf|rewrite icap_node]; simpl; tauto. Qed.

Lemma icap_child order i pre s c post : icap order (INode i (pre ++ (s, c) :: post)) -> icap order c.
Proof.
  rewrite icap_node. intros [_ H]. apply Forall_app in H. destruct H as [_ H]. inversion H; subst. assumption.
Qed.

Lemma occ_cap order b (t : tree) : occ order b t -> cap order t.
Proof.
  revert b. induction t as [es|cs IH] using tree_ind'; intros b H.
  - simpl in *. tauto.
  - apply occ_unfold in H. destruct H as (Hc & _ & Hk). cbn [cap]. split; [exact Hc|].
    simpl in Hk. rewrite all_kids_Forall in *. rewrite Forall_forall in *.
    intros c Hin. eapply IH; [exact Hin|]. apply Hk. exact Hin.
Qed.

(* ---- split ---- *)
Lemma isplit_none order s (t : itree) : maybe_split order (erase_ids t) = None -> isplit order s t = None.
Proof.
  unfold maybe_split, isplit. rewrite icount_erase. destruct (icount t <? order); [reflexivity|].
  destruct t; discriminate.
Qed.

Lemma isplit_some order s (t : itree) l r :
  Nat.even order = true -> icap order t ->
  maybe_split order (erase_ids t) = Some (l, r) ->
  exists lft rgt, isplit order s t = Some (lft, rgt) /\ erase_ids lft = l /\ erase_ids rgt = r /\
    nid lft = nid t /\ nid rgt = s /\
    Permutation (ids lft ++ ids rgt) (s :: ids t) /\
    links_equiv (leaf_links t) (leaf_links lft ++ leaf_links rgt) /\
    icap order lft /\ icap order rgt.
Proof.
  intros Hev Hcap. pose proof (icap_count order t Hcap) as Hc.
  unfold maybe_split, isplit. rewrite icount_erase. destruct (icount t <? order) eqn:E; [discriminate|].
  apply Nat.ltb_ge in E. pose proof (even_div2 order Hev) as Hh. set (h := Nat.div2 order) in *.
  destruct t as [i nx es|i cs]; cbn [erase_ids icount nid] in *; intros X; inversion X; subst l r; clear X.
  - eexists _, _. split; [reflexivity|]. split; [reflexivity|]. split; [reflexivity|].
    split; [reflexivity|]. split; [reflexivity|]. split; [simpl; apply perm_swap|]. split; [apply links_split|].
    split; apply icap_leaf; rewrite firstn_length; lia.
  - assert (Hl : firstn h (skipn h cs) = skipn h cs) by (apply firstn_all2; rewrite skipn_length; lia).
    rewrite Hl.
    eexists _, _. split; [reflexivity|]. split; [|split].
    + cbn [erase_ids]. f_equal. symmetry. apply firstn_map.
    + cbn [erase_ids]. f_equal. rewrite firstn_all2 by (rewrite skipn_length, map_length; lia). symmetry. apply skipn_map.
    + apply icap_node in Hcap. destruct Hcap as [_ Hk].
      assert (Hcs : cs = firstn h cs ++ skipn h cs) by (symmetry; apply firstn_skipn).
      split; [reflexivity|]. split; [reflexivity|]. split; [|split; [|split]].
      * rewrite !ids_node. rewrite Hcs at 3. rewrite ids_list_app.
        generalize (ids_list (firstn h cs)) (ids_list (skipn h cs)). intros a b. perm_lia.
      * rewrite !links_node. rewrite Hcs at 1. rewrite links_list_app. apply links_equiv_refl.
      * apply icap_node. split; [rewrite firstn_length; lia|]. rewrite Hcs in Hk. apply Forall_app in Hk. tauto.
      * apply icap_node. split; [rewrite skipn_length; lia|]. rewrite Hcs in Hk. apply Forall_app in Hk. tauto.
Qed.

(* ---- adopt / absorb ---- *)
Lemma adoptR_sim (l r : itree) l' r' :
  adopt_from_right (erase_ids l) (erase_ids r) = Ok (l', r') ->
  exists l2 r2, iadopt_right l r = Ok (l2, r2) /\ erase_ids l2 = l' /\ erase_ids r2 = r' /\
    nid l2 = nid l /\ nid r2 = nid r /\
    Permutation (ids l2 ++ ids r2) (ids l ++ ids r) /\
    leaf_links l2 ++ leaf_links r2 = leaf_links l ++ leaf_links r.
Proof.
  destruct l as [li ln le|li lc], r as [ri rn [|x re]|ri [|x rc]]; intros H; simpl in H; try discriminate;
    inversion H; subst; clear H; eexists _, _; (split; [reflexivity|]).
  - repeat split; reflexivity || apply Permutation_refl.
  - split; [cbn [erase_ids]; f_equal; unfold erase_cs; rewrite map_app; reflexivity|].
    split; [reflexivity|]. split; [reflexivity|]. split; [reflexivity|]. split.
    + rewrite !ids_node. rewrite ids_list_app. destruct x as [s c]. rewrite !ids_list_cons. simpl ids_list.
      generalize (ids_list lc) (ids_list rc) (ids c). intros a b d. perm_lia.
    + rewrite !links_node. rewrite links_list_app. destruct x as [s c]. rewrite !links_list_cons. simpl links_list.
      rewrite <- !app_assoc. reflexivity.
Qed.

Lemma rev_cons_inv {A} (l : list A) x l' : rev l = x :: l' -> l = rev l' ++ [x].
Proof. intros H. rewrite <- (rev_involutive l). rewrite H. reflexivity. Qed.

Lemma adoptL_sim (l r : itree) l' r' :
  adopt_from_left (erase_ids l) (erase_ids r) = Ok (l', r') ->
  exists l2 r2, iadopt_left l r = Ok (l2, r2) /\ erase_ids l2 = l' /\ erase_ids r2 = r' /\
    nid l2 = nid l /\ nid r2 = nid r /\
    Permutation (ids l2 ++ ids r2) (ids l ++ ids r) /\
    leaf_links l2 ++ leaf_links r2 = leaf_links l ++ leaf_links r.
Proof.
  destruct l as [li ln le|li lc], r as [ri rn re|ri rc]; intros H; simpl in H; try discriminate.
  - destruct (rev le) as [|x le'] eqn:E; [discriminate|]. inversion H; subst; clear H.
    eexists _, _. split; [simpl; rewrite E; reflexivity|]. repeat split; reflexivity || apply Permutation_refl.
  - rewrite <- map_rev in H. destruct (rev lc) as [|x lc'] eqn:E; [discriminate|]. simpl in H.
    inversion H; subst; clear H. apply rev_cons_inv in E. subst lc.
    eexists _, _. split; [simpl; rewrite rev_app_distr; simpl; rewrite rev_involutive; reflexivity|].
    split; [cbn [erase_ids]; f_equal; rewrite map_rev; reflexivity|].
    split; [reflexivity|]. split; [reflexivity|]. split; [reflexivity|]. split.
    + rewrite !ids_node. rewrite ids_list_app. destruct x as [s c]. rewrite !ids_list_cons. simpl ids_list.
      generalize (ids_list (rev lc')) (ids_list rc) (ids c). intros a b d. perm_lia.
    + rewrite !links_node. rewrite links_list_app. destruct x as [s c]. rewrite !links_list_cons. simpl links_list.
      rewrite <- !app_assoc. reflexivity.
Qed.

Lemma absorb_sim (l r : itree) z :
  absorb_right (erase_ids l) (erase_ids r) = Ok z ->
  exists z2, iabsorb l r = Ok z2 /\ erase_ids z2 = z /\ nid z2 = nid l /\
    Permutation (ids l ++ ids r) (nid r :: ids z2) /\
    links_equiv (leaf_links l ++ leaf_links r) (leaf_links z2).
Proof.
  destruct l as [li ln le|li lc], r as [ri rn re|ri rc]; intros H; simpl in H; try discriminate;
    inversion H; subst; clear H; eexists; (split; [reflexivity|]).
  - split; [reflexivity|]. split; [reflexivity|]. split; [apply perm_swap|]. apply links_merge.
  - split; [cbn [erase_ids]; f_equal; unfold erase_cs; rewrite map_app; reflexivity|].
    split; [reflexivity|]. split.
    + rewrite !ids_node. rewrite ids_list_app.
      cbn [nid]. generalize (ids_list lc) (ids_list rc). intros a b. perm_lia.
    + rewrite !links_node. rewrite links_list_app. apply links_equiv_refl.
Qed.

Definition mkcf (i : id) (pre : list (K * itree)) (s : K) (post : list (K * itree)) : cframe K V :=
  {| cid := i; cpre := pre; csep := s; cpost := post |}.

Lemma plug_mkcf C i pre s post (c : itree) : plug (mkcf i pre s post :: C) c = plug C (INode i (pre ++ (s, c) :: post)).
Proof. reflexivity. Qed.

Lemma wfc_node C i pre s (c : itree) post fr :
  wfc C (INode i (pre ++ (s, c) :: post)) fr -> wfc (mkcf i pre s post :: C) c fr.
Proof. intros H. apply wfc_push. exact H. Qed.

Lemma wfc_node_back C i pre s (c : itree) post fr :
  wfc (mkcf i pre s post :: C) c fr -> wfc C (INode i (pre ++ (s, c) :: post)) fr.
Proof. intros H. apply wfc_push in H. exact H. Qed.

Lemma wfc_child_neq C i pre s (c : itree) post fr :
  wfc C (INode i (pre ++ (s, c) :: post)) fr -> nid c <> i.
Proof.
  intros [H _]. apply nodup_app_iff in H. destruct H as (H & _ & _). rewrite ids_node in H.
  inversion H as [|? ? Hn _]; subst. intros E. apply Hn. rewrite <- E.
  rewrite ids_list_app, ids_list_cons. apply in_or_app. right. apply in_or_app. left. apply nid_in_ids.
Qed.

End O.

Arguments mkcf {K V}.
Arguments icap {K V}.

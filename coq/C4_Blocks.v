(* C4_Blocks.v — what one atomic block of [cstep] can do with respect to cursors (needs no invariant): either it
   neither rests at a cursor pc nor emits a pair / end-of-scan event, or it is exactly one of: NewScanner landing in a
   leaf, a Scan step inside the held leaf, a Scan step finding the leaf exhausted (wait for the next leaf / end of
   scan), a Scan step acquiring the next leaf. *)
From Coq Require Import List Bool Lia PeanoNat.
From GB Require Import Model Conc LockInv SoloBase LINa_Prog.
Import ListNotations.

Section B.
Variables (K V : Type) (ltb : K -> K -> bool).
Notation itree := (itree K V).
Notation pc := (pc K V).
Notation cop := (cop K V).
Notation st := (st K V).
Notation out := (out K V).
Notation thread := (thread K V).
Notation event := (event K V).

Definition is_cur (p : pc) : bool := match p with CurRest _ _ _ _ | CurWantNext _ _ _ _ => true | _ => false end.
Definition is_scan_ev (e : event) : bool := match e with EPair _ | EScanEnd => true | _ => false end.

Definition plain (o : out) : Prop := is_cur (opc o) = false /\ existsb is_scan_ev (oev o) = false.

Inductive cur_class (s : st) (th : thread) (r : out) : Prop :=
| CC_plain : plain r -> cur_class s th r
| CC_land o n k cnt j nx es i :
    (tpc th = WantRoot o n \/ exists p, tpc th = SeaWantChild o p n) -> o = CScan k cnt ->
    Conc.find n (tr s) = Some (ILeaf j nx es) -> leaf_scan_pos ltb k es = Ok i ->
    opc r = CurRest n i cnt [] -> otr r = tr s -> oev r = [] -> cur_class s th r
| CC_pair leaf i n' acc j nx es e :
    tpc th = CurRest leaf i (S n') acc -> Conc.find leaf (tr s) = Some (ILeaf j nx es) -> nth_error es i = Some e ->
    opc r = CurRest leaf (S i) n' (e :: acc) -> otr r = tr s -> oev r = [EPair e] -> cur_class s th r
| CC_want leaf i n' acc j x es :
    tpc th = CurRest leaf i (S n') acc -> Conc.find leaf (tr s) = Some (ILeaf j (Some x) es) -> nth_error es i = None ->
    opc r = CurWantNext leaf x n' acc -> otr r = tr s -> oev r = [] -> cur_class s th r
| CC_end leaf i n' acc j es :
    tpc th = CurRest leaf i (S n') acc -> Conc.find leaf (tr s) = Some (ILeaf j None es) -> nth_error es i = None ->
    opc r = Idle -> otr r = tr s -> oev r = [EScanEnd; EReturn (RPairs (rev acc))] -> cur_class s th r
| CC_hop leaf nxt n acc j nx e es' :
    tpc th = CurWantNext leaf nxt n acc -> Conc.find nxt (tr s) = Some (ILeaf j nx (e :: es')) ->
    opc r = CurRest nxt 1 n (e :: acc) -> otr r = tr s -> oev r = [EPair e] -> cur_class s th r.

Lemma ins_descend_plain o n (t : itree) l fr tmx (out : out) :
  ins_descend ltb o n t l fr tmx = Ok out -> plain out.
Proof.
  intros H. unfold ins_descend, mk in H.
  crunch H; inversion H; subst; clear H; split; reflexivity.
Qed.

Lemma del_descend_plain o stk n (t : itree) p :
  del_descend ltb o stk n t = Ok p -> is_cur p = false.
Proof. intros H. unfold del_descend in H. crunch H; inversion H; subst; clear H. destruct (0 <? a); reflexivity. Qed.

Lemma unwind_plain order fuel : forall o stk small right (t : itree) l fr tmx (out : out),
  unwind order fuel o stk small right t l fr tmx = Ok out -> plain out.
Proof.
  induction fuel as [|fuel IH]; intros o stk small right t l fr tmx out H; simpl in H; [discriminate|].
  destruct stk as [|f rest]; [unfold mk in H; inversion H; split; reflexivity|].
  destruct (negb small); [eapply IH; eauto|].
  destruct (find (fp f) t) as [[?|pi cs]|]; try discriminate H.
  destruct ((fidx f + 1 <? length cs) && match right with None => true | Some _ => false end).
  - unfold mk in H. inversion H. split; reflexivity.
  - destruct (irebalance order f t) as [[t' small']|]; [cbn [bind] in H|discriminate H]. eapply IH; eauto.
Qed.

(* the search descent: plain, or NewScanner lands in a leaf *)
Lemma sea_descend_class o n (t : itree) l fr tmx (out : out) :
  sea_descend ltb o n t l fr tmx = Ok out ->
  plain out \/
  exists k cnt j nx es i, o = CScan k cnt /\ Conc.find n t = Some (ILeaf j nx es) /\ leaf_scan_pos ltb k es = Ok i /\
    opc out = CurRest n i cnt [] /\ otr out = t /\ oev out = [].
Proof.
  intros H. unfold sea_descend, mk in H.
  destruct (find n t) as [[j nx es|pi cs]|] eqn:Hf; [| |discriminate H].
  - destruct o as [k v|k f|k|k|k cnt].
    1-4: left; crunch H; inversion H; subst; clear H; split; reflexivity.
    destruct (leaf_scan_pos ltb k es) as [i|] eqn:Ei; [cbn [bind] in H|discriminate H].
    inversion H; subst; clear H. right. exists k, cnt, j, nx, es, i. cbn [opc otr oev]. auto 10.
  - left. crunch H; inversion H; subst; clear H; split; reflexivity.
Qed.

Opaque unwind.

Ltac plain_now := apply CC_plain; split; reflexivity.

Theorem blk_class order (s : st) me th tg (r : out) :
  SoloBase.blk ltb order s me th tg = Ok (Some r) -> cur_class s th r.
Proof.
  intros H. unfold SoloBase.blk in H. cbv zeta in H.
  destruct (tpc th) as [ |o|o r0|o lft rgt|o p c index|o p c r0|o leaf mode index|o p c|o stk|o stk|o stk|leaf i n acc|leaf nxt n acc] eqn:Epc.
  - destruct (prog th) eqn:Epr; unfold mk in H; cbn [bind] in H; inversion H. plain_now.
  - unfold mk in H. cbn [bind] in H. inversion H. plain_now.
  - blk_top H. destruct o as [k v|k f|k|k|k cnt].
    + destruct (isplit order (fresh s) (tr s)) as [[l1 r1]|].
      * crunch HE; try (apply CC_plain; eapply ins_descend_plain; eassumption). unfold mk in HE. inversion HE. plain_now.
      * apply CC_plain; eapply ins_descend_plain; eassumption.
    + destruct (isplit order (fresh s) (tr s)) as [[l1 r1]|].
      * crunch HE; try (apply CC_plain; eapply ins_descend_plain; eassumption). unfold mk in HE. inversion HE. plain_now.
      * apply CC_plain; eapply ins_descend_plain; eassumption.
    + destruct (tr s) as [i nx es|i cs].
      * unfold mk in HE. crunch HE. inversion HE. plain_now.
      * unfold mk in HE. crunch HE. inversion HE. subst. apply CC_plain. split; [|reflexivity].
        cbn [opc]. eapply del_descend_plain; eauto.
    + destruct (sea_descend_class _ _ _ _ _ _ _ HE) as [Hp|(k' & cnt & j & nx & es & i & Ho & Hf & Hi & H1 & H2 & H3)];
        [apply CC_plain; exact Hp|discriminate Ho].
    + destruct (sea_descend_class _ _ _ _ _ _ _ HE) as [Hp|(k' & cnt' & j & nx & es & i & Ho & Hf & Hi & H1 & H2 & H3)];
        [apply CC_plain; exact Hp|].
      eapply CC_land; eauto.
  - blk_top H. apply CC_plain; eapply ins_descend_plain; eauto.
  - blk_top H. unfold mk in HE.
    crunch HE; try (apply CC_plain; eapply ins_descend_plain; eassumption); inversion HE; subst; plain_now.
  - blk_top H. apply CC_plain; eapply ins_descend_plain; eauto.
  - blk_top H. unfold mk in HE. crunch HE; inversion HE; plain_now.
  - blk_top H.
    destruct (sea_descend_class _ _ _ _ _ _ _ HE) as [Hp|(k' & cnt' & j & nx & es & i & Ho & Hf & Hi & H1 & H2 & H3)];
      [apply CC_plain; exact Hp|].
    eapply CC_land; eauto.
  - blk_top H. unfold mk in HE. crunch HE; inversion HE; plain_now.
  - blk_top H. unfold mk in HE.
    crunch HE; try (apply CC_plain; eapply unwind_plain; eassumption); inversion HE; subst;
      (apply CC_plain; split; [|reflexivity]); cbn [opc]; eapply del_descend_plain; eauto.
  - blk_top H. crunch HE. apply CC_plain; eapply unwind_plain; eauto.
  - blk_top H. unfold mk in HE. destruct n as [|n'].
    + inversion HE. plain_now.
    + destruct (find leaf (tr s)) as [[j nx es|]|] eqn:Hf; try discriminate HE.
      destruct (nth_error es i) as [e|] eqn:En.
      * inversion HE. eapply CC_pair; eauto.
      * destruct nx as [x|]; inversion HE; [eapply CC_want|eapply CC_end]; eauto.
  - blk_top H. unfold mk in HE.
    destruct (find nxt (tr s)) as [[j nx [|e es']|]|] eqn:Hf; try discriminate HE.
    inversion HE. eapply CC_hop; eauto.
Qed.

Transparent unwind.

End B.

Arguments is_cur {K V} p.
Arguments is_scan_ev {K V} e.
Arguments plain {K V} o.

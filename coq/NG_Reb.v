(* NG_Reb.v — the exact shape of one rebalancing step of Delete on the parent's list of children
   (OCCc_Reb.rebal_core): two adjacent entries (ka,a),(kb,b) are rewritten by adopt-from-right, adopt-from-left
   or absorb; with the side facts nogap needs (the left node of the pair is the small child or is not empty). *)
From Coq Require Import List Permutation Lia Bool PeanoNat.
From GB Require Import ListLemmas TreeLemmas Frame LockProof UpdLemmas FrameRel FrameInv FrameBlocks CInv OCCc_Base
  OCCc_Blocks OCCc_Reb.
Import ListNotations.

Section NGReb.
Variables (K V : Type).
Notation itree := (itree K V).

Lemma rebal_core_cases order index (cs : list (K * itree)) child k1 cs' small :
  1 <= Nat.div2 order ->
  nth_error cs index = Some (k1, child) -> rebal_core order index cs child = Ok (cs', small) ->
  exists A B ka a kb b, cs = A ++ (ka, a) :: (kb, b) :: B /\
    ((a = child /\ exists a' b' rs, iadopt_right a b = Ok (a', b') /\ ismallest b' = Ok rs /\
                     cs' = A ++ (ka, a') :: (rs, b') :: B) \/
     (2 <= icount a /\ exists a' b' sm, iadopt_left a b = Ok (a', b') /\ ismallest b' = Ok sm /\
                     cs' = A ++ (ka, a') :: (sm, b') :: B) \/
     ((a = child \/ 0 < icount a) /\ exists ab, iabsorb a b = Ok ab /\ cs' = A ++ (ka, ab) :: B)).
Proof.
  intros Hm Eg Ecs. unfold rebal_core in Ecs. cbv zeta in Ecs.
  match type of Ecs with (if ?c then _ else _) = _ => destruct c eqn:C1 end.
  { destruct (get_nth (index + 1) cs) as [[k2 rgt]|] eqn:Eg2; [cbn [bind] in Ecs | discriminate Ecs].
    apply get_nth_Ok in Eg2.
    destruct (iadopt_right child rgt) as [[child' rgt']|] eqn:Ea; [cbn [bind] in Ecs | discriminate Ecs].
    destruct (ismallest rgt') as [rs|] eqn:Es; [cbn [bind] in Ecs | discriminate Ecs].
    inversion Ecs; subst cs'; clear Ecs.
    destruct (nth_error_split2 cs index _ _ Eg Eg2) as [A [B [E L]]]. subst cs index.
    unfold set_child_i. rewrite nth_error_app_len, set_nth_app, set_nth_app1.
    exists A, B, k1, child, k2, rgt. split; [reflexivity|]. left. split; [reflexivity|].
    exists child', rgt', rs. auto. }
  match type of Ecs with (if ?c then _ else _) = _ => destruct c eqn:C2 end.
  { apply andb_prop in C2. destruct C2 as [C2 C2']. rewrite C2 in C2'. apply Nat.ltb_lt in C2.
    destruct index as [|j]; [lia|].
    replace (S j - 1) with j in * by lia.
    destruct (get_nth j cs) as [[k0 lft]|] eqn:Eg0; [cbn [bind] in Ecs | discriminate Ecs].
    apply get_nth_Ok in Eg0. rewrite Eg0 in C2'. apply Nat.ltb_lt in C2'.
    destruct (iadopt_left lft child) as [[lft' child']|] eqn:Ea; [cbn [bind] in Ecs | discriminate Ecs].
    destruct (ismallest child') as [sm|] eqn:Es; [cbn [bind] in Ecs | discriminate Ecs].
    inversion Ecs; subst cs'; clear Ecs.
    replace (S j) with (j + 1) in * by lia.
    destruct (nth_error_split2 cs j _ _ Eg0 Eg) as [A [B [E L]]]. subst cs j.
    unfold set_child_i. rewrite nth_error_app_len, set_nth_app, set_nth_app1.
    exists A, B, k0, lft, k1, child. split; [reflexivity|]. right. left. split; [lia|].
    exists lft', child', sm. auto. }
  match type of Ecs with (if ?c then _ else _) = _ => destruct c eqn:C3 end.
  { destruct (0 <? index) eqn:C0; [|discriminate C3]. apply Nat.ltb_lt in C0.
    destruct index as [|j]; [lia|].
    replace (S j - 1) with j in * by lia.
    destruct (get_nth j cs) as [[k0 lft]|] eqn:Eg0; [cbn [bind] in Ecs | discriminate Ecs].
    apply get_nth_Ok in Eg0. rewrite Eg0 in C3. apply Nat.ltb_lt in C3.
    destruct (iabsorb lft child) as [lft'|] eqn:Ea; [cbn [bind] in Ecs | discriminate Ecs].
    inversion Ecs; subst cs'; clear Ecs.
    replace (S j) with (j + 1) in * by lia.
    destruct (nth_error_split2 cs j _ _ Eg0 Eg) as [A [B [E L]]]. subst cs j.
    unfold set_child_i. rewrite nth_error_app_len, set_nth_app, del_nth_app1.
    exists A, B, k0, lft, k1, child. split; [reflexivity|]. right. right. split; [right; exact C3|].
    exists lft'. auto. }
  match type of Ecs with (if ?c then _ else _) = _ => destruct c eqn:C4 end; [discriminate Ecs|].
  destruct (get_nth (index + 1) cs) as [[k2 rgt]|] eqn:Eg2; [cbn [bind] in Ecs | discriminate Ecs].
  apply get_nth_Ok in Eg2.
  destruct (iabsorb child rgt) as [child'|] eqn:Ea; [cbn [bind] in Ecs | discriminate Ecs].
  inversion Ecs; subst cs'; clear Ecs.
  destruct (nth_error_split2 cs index _ _ Eg Eg2) as [A [B [E L]]]. subst cs index.
  unfold set_child_i. rewrite nth_error_app_len, set_nth_app, del_nth_app1.
  exists A, B, k1, child, k2, rgt. split; [reflexivity|]. right. right. split; [left; reflexivity|].
  exists child'. auto.
Qed.

End NGReb.

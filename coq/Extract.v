(* Extract.v — extraction of the executable model to OCaml.  ExtrOcamlBasic only: bool, option, list,
   prod, unit, sumbool map to OCaml's own; nat, Z, positive stay the inductive types. *)
From Coq Require Import ExtrOcamlBasic ZArith.
From GB Require Import Instances.
Extraction "gbmodel.ml" h_upsert h_delete h_search h_scan h_inv_b h_entries h_put h_remove h_lookup h_from add_cb h_check_order h_search_ge h_search_le.

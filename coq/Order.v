(* Order.v — order.go: checkOrder, and the constructors' accept/reject decision (C12). Definitions only. *)
From Coq Require Import ZArith.
Local Open Scope Z_scope.

(* Go: order >= 2 && order&(order-1) == 0 on a 64-bit int. For order >= 2 both operands of & are
   non-negative, where Go's & on two's complement and Z.land agree; for order < 2 the && short-circuits. *)
Definition check_order (o : Z) : bool := (2 <=? o) && (Z.land o (o - 1) =? 0).

(* New<Type>Tree: nil tree + error, or an empty tree (a root leaf without entries) + nil error *)
Definition new_tree_accepts (o : Z) : bool := check_order o.

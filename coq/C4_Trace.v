(* C4_Trace.v — the run-level consequence of the step theorems of C4_Proof.v ("every key that is present for the
   whole life of the scan is reported"): along any schedule from a reachable state, a pair [x] that stays stored
   while thread [me] keeps scanning, and whose key is above the last pair yielded (or: not below the start key k,
   when nothing has been yielded yet and k is not below the lower bound of the landing leaf), has been yielded by the
   time the cursor reports the end of the scan. *)
From Coq Require Import List Bool Lia PeanoNat Sorted Permutation.
From GB Require Import Model Spec Inv ListLemmas SearchProof TreeLemmas Conc GI LockInv LockProof CInv CInv3
  CIDef SoloBase GIa1_Ctx LINa_Lists LINa_Ctx LINa_Abs Lin LinDef PCc_Proof ASM_Proof
  C4_Lists C4_Geom C4_Blocks C4_Inv C4_Proof.
Import ListNotations.

Section T.
Variables (K V : Type) (ltb : K -> K -> bool).
Hypothesis HS : SWO ltb.
Variable order : nat.
Hypothesis Heven : Nat.even order = true.
Hypothesis H4 : 4 <= order.
Notation st := (st K V).
Notation pc := (pc K V).
Notation SS := (StronglySorted (fun a b => ltb a b = true)).
Notation CurInv := (CurInv ltb order).

(* P holds in every state visited by the schedule (the run stops at the first step that is not possible) *)
Fixpoint along (P : st -> Prop) (s : st) (sched : list tid) : Prop :=
  P s /\ match sched with
         | [] => True
         | t :: r => match cstep ltb order s t with Stepped s' _ _ => along P s' r | _ => True end
         end.

Lemma along_here P s sched : along P s sched -> P s.
Proof. destruct sched; simpl; tauto. Qed.

Lemma along_end P : forall sched s, along P s sched -> P (fst (exec ltb order s sched)).
Proof.
  induction sched as [|t r IH]; intros s H; simpl in *; [tauto|].
  destruct H as [H0 H]. destruct (cstep ltb order s t) as [ | | |s' acq ev|p] eqn:Hc; try exact H0.
  specialize (IH s' H). destruct (exec ltb order s' r) as [s'' h]. exact IH.
Qed.

(* thread me is inside a scan (rests at a cursor pc) *)
Definition scanning (me : tid) (s : st) : Prop :=
  exists th, get_thread me (ths s) = Some th /\ is_cur (tpc th) = true.

(* x has been yielded, or the last pair yielded is strictly below x *)
Definition covered (x : K * V) (acc : list (K * V)) : Prop :=
  In x acc \/ exists e1 r, acc = e1 :: r /\ ltb (fst e1) (fst x) = true.

(* nothing yielded yet, x is not below the start key, and the start key is not below the lower bound of the leaf
   where NewScanner landed *)
Definition pending (k : K) (x : K * V) (s : st) (p : pc) : Prop :=
  yielded p = [] /\ ltb (fst x) k = false /\ exists leaf, cur_leaf p = Some leaf /\ below_lo ltb k leaf (tr s) = false.

Definition Cov (me : tid) (x : K * V) (s : st) : Prop :=
  exists th k cnt, get_thread me (ths s) = Some th /\ is_cur (tpc th) = true /\
    hd_error (prog th) = Some (CScan k cnt) /\
    (covered x (yielded (tpc th)) \/ pending k x s (tpc th)).

Lemma abs_SS (s : st) : CurInv s -> SS (map fst (abs ltb s)).
Proof.
  intros [HB _]. rewrite abs_eq. apply absP_SS. apply (shape_entries_SS K V ltb HS order).
  apply GI_shape. apply (BI_GI K V ltb order). exact HB.
Qed.

(* after a pair e that is the least stored entry above the previous position, x is still covered *)
Lemma covered_next (s : st) x e acc :
  CurInv s -> In x (abs ltb s) -> In e (abs ltb s) -> ltb (fst x) (fst e) = false -> covered x (e :: acc).
Proof.
  intros HI Hx He Hxe. destruct (ltb (fst e) (fst x)) eqn:E.
  - right. exists e, acc. auto.
  - left. left. eapply (SS_inj K V ltb (abs ltb s)); eauto. apply abs_SS. exact HI.
Qed.

Lemma cur_leaf_some (p : pc) : is_cur p = true -> exists leaf, cur_leaf p = Some leaf.
Proof. destruct p; try discriminate; simpl; eauto. Qed.

Lemma Cov_step (s s' : st) t acq ev me x :
  CurInv s -> cstep ltb order s t = Stepped s' acq ev ->
  Cov me x s -> In x (abs ltb s) -> scanning me s' -> Cov me x s'.
Proof.
  intros HI Hc (th & k & cnt & Hg & Hcur & Hpr & Hcov) Hx (th' & Hg' & Hcur').
  destruct (Nat.eq_dec me t) as [->|Hne].
  - (* the cursor's own step *)
    destruct (cur_own_inv K V ltb order s s' t acq ev th th' Hc Hg Hcur Hg' Hcur') as (Htr & Hprog & Hcase).
    exists th', k, cnt. split; [exact Hg'|]. split; [exact Hcur'|]. split; [rewrite Hprog; exact Hpr|].
    destruct Hcase as [(Eev & Hy & Hl)|(e & Eev & Hy)].
    + destruct Hcov as [Hcov|(Hy0 & Hk & leaf & Hleaf & Hlo)].
      * left. rewrite Hy. exact Hcov.
      * right. split; [rewrite Hy; exact Hy0|]. split; [exact Hk|]. exists leaf. rewrite Hl, Htr. auto.
    + left. rewrite Hy.
      assert (Hin : In (EPair e) ev) by (rewrite Eev; simpl; auto).
      destruct Hcov as [[Hin0|(e1 & r & Eacc & Hlt)]|(Hy0 & Hk & leaf & Hleaf & Hlo)].
      * left. right. exact Hin0.
      * destruct (B3_successor K V ltb HS order s s' t acq ev e th e1 r HI Hc Hin Hg Eacc) as [_ (He & _ & Hsucc)].
        eapply covered_next; eauto.
      * destruct (B5_first K V ltb HS order H4 s s' t acq ev e th leaf k cnt HI Hc Hin Hg Hleaf Hy0 Hpr Hlo)
          as (He & _ & Hleast).
        rewrite Hy0. eapply covered_next; eauto.
  - (* a step of another thread *)
    destruct (step_threads K V ltb order s s' t acq ev Hc) as (_ & _ & _ & _ & _ & _ & _ & Hoth).
    rewrite (Hoth me Hne), Hg in Hg'. inversion Hg'; subst th'.
    exists th, k, cnt. split; [rewrite (Hoth me Hne); exact Hg|]. split; [exact Hcur|]. split; [exact Hpr|].
    destruct Hcov as [Hcov|(Hy0 & Hk & leaf & Hleaf & Hlo)]; [left; exact Hcov|].
    right. split; [exact Hy0|]. split; [exact Hk|]. exists leaf. split; [exact Hleaf|].
    rewrite (cursor_lo_stable K V ltb order Heven H4 s s' t acq ev me th th leaf k HI Hc Hg); auto.
    rewrite (Hoth me Hne). exact Hg.
Qed.

Theorem scan_covers : forall sched s me x,
  CurInv s -> along (fun s1 => In x (abs ltb s1) /\ scanning me s1) s sched ->
  Cov me x s -> Cov me x (fst (exec ltb order s sched)).
Proof.
  induction sched as [|t r IH]; intros s me x HI Hal Hcov; simpl in *; [exact Hcov|].
  destruct Hal as [[Hx Hsc] Hal].
  destruct (cstep ltb order s t) as [ | | |s' acq ev|p] eqn:Hc; try exact Hcov.
  pose proof (along_here _ _ _ Hal) as [_ Hsc'].
  specialize (IH s' me x (CurInv_step K V ltb HS order Heven H4 _ _ _ _ _ HI Hc) Hal
                 (Cov_step s s' t acq ev me x HI Hc Hcov Hx Hsc')).
  destruct (exec ltb order s' r) as [s'' h]. exact IH.
Qed.

(* the scan is complete: when the cursor reports the end of the scan, a pair that was stored all along and was
   covered/pending at the start of the observed run is among the pairs the scan returns *)
Theorem scan_complete : forall sched s me x s2 acq ev,
  CurInv s -> along (fun s1 => In x (abs ltb s1) /\ scanning me s1) s sched -> Cov me x s ->
  cstep ltb order (fst (exec ltb order s sched)) me = Stepped s2 acq ev -> In EScanEnd ev ->
  exists acc, In x acc /\ ev = [EScanEnd; EReturn (RPairs (rev acc))].
Proof.
  intros sched s me x s2 acq ev HI Hal Hcov Hc Hin.
  set (s1 := fst (exec ltb order s sched)) in *.
  assert (HI1 : CurInv s1) by (apply (CurInv_exec K V ltb HS order Heven H4); exact HI).
  pose proof (scan_covers sched s me x HI Hal Hcov) as (th & k & cnt & Hg & Hcur & Hpr & Hc1). fold s1 in Hg, Hc1.
  pose proof (along_end _ _ _ Hal) as [Hx1 _]. fold s1 in Hx1.
  destruct (end_step_inv K V ltb order s1 s2 me acq ev Hc Hin) as (acc & es & Hes & Eev).
  destruct Hes as [th1 leaf i n' acc j es Hg1 Hpc Hf Hn]. rewrite Hg in Hg1. inversion Hg1; subst th1.
  exists acc. split; [|exact Eev]. rewrite Hpc in Hc1. cbn [yielded] in Hc1.
  destruct Hc1 as [[Hin0|(e1 & r & Eacc & Hlt)]|(Hy0 & Hk & _)].
  - exact Hin0.
  - exfalso. assert (Hy : yielded (tpc th) = e1 :: r) by (rewrite Hpc; exact Eacc).
    rewrite (B4_end_after K V ltb HS order s1 s2 me acq ev th e1 r HI1 Hc Hin Hg Hy x Hx1) in Hlt. discriminate.
  - exfalso. assert (Hy : yielded (tpc th) = []) by (rewrite Hpc; exact Hy0).
    destruct (B4_end_first K V ltb HS order H4 s1 s2 me acq ev th HI1 Hc Hin Hg Hy) as (k1 & cnt1 & Hpr1 & Hall).
    rewrite Hpr in Hpr1. inversion Hpr1; subst k1 cnt1. rewrite (Hall x Hx1) in Hk. discriminate.
Qed.

End T.

Check scan_covers.
Check scan_complete.
Print Assumptions scan_complete.

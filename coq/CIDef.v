(* CIDef.v — the concurrent invariant: global structure, lock table, and every program counter consistent
   with the tree.  Validated executably on every step of the scheduled correspondence runs. *)
From GB Require Export Conc GI LockInv LockProof CInv.
Set Implicit Arguments.
Section CI.
Variables (K V : Type) (ltb : K -> K -> bool).
Definition CI (order : nat) (s : st K V) : Prop :=
  GI ltb order s /\ lock_inv2 K V s /\ all_pc_ok_b ltb order s = true.
(* with minimum occupancy (suspended only at the node a Delete in flight is about to rebalance): what rules out
   every panic of the concurrent model *)
Definition CIfull (order : nat) (s : st K V) : Prop := CI order s /\ occ_ok_b order s = true.
End CI.

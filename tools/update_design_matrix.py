#!/usr/bin/env python3
"""Regenerates Appendix C of DESIGN.md (which check reports which seeded change) from seeded/RESULTS.json."""
import json, os, re
V = "/verif"
res = json.load(open(os.path.join(V, "seeded", "RESULTS.json")))
props = ["C%02d" % i for i in range(1, 13)]
lines = ["## Appendix C — seeded changes × checks (quick tier; `X` = concrete failing input, `n` = reported with no-failing-input-found, `.` = quiet)", "",
         "| change | what it does | " + " | ".join(props) + " |", "|---|---|" + "---|" * len(props)]
for sid in sorted(res):
    meta = json.load(open(os.path.join(V, "seeded", sid, "meta.json")))
    what = meta.get("summary", "")
    row = []
    for p in props:
        c = res[sid]["checks"].get(p, {})
        row.append("X" if c.get("violation") and c.get("concrete") else ("n" if c.get("violation") else "."))
    lines.append("| %s | %s | %s |" % (sid, what, " | ".join(row)))
txt = open(os.path.join(V, "DESIGN.md")).read()
txt = re.sub(r"\n## Appendix C —.*\Z", "", txt, flags=re.S).rstrip("\n") + "\n\n" + "\n".join(lines) + "\n"
open(os.path.join(V, "DESIGN.md"), "w").write(txt)
print("matrix rows:", len(res))

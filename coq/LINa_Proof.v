(* LINa_Proof.v — main file of the LINa development: the abstraction function commutes with every step of a thread
   that is not executing Delete (abs_step_ok), and the promise of a Search decided "absent" (promise_own).
   Files (in dependency order): LINa_Lists.v, LINa_Ctx.v, LINa_Abs.v, LINa_Prog.v, LINa_Blocks.v, LINa_Core.v,
   LINa_Exact.v, LINa_Proof.v (this file: final statements), LINa_Cex.v (machine-checked counterexamples). *)
From Coq Require Import List Bool Lia PeanoNat.
From GB Require Import Model Spec Inv Conc GI LockInv CInv CIDef CInv3 Lin LinDef
  LINa_Prog LINa_Blocks LINa_Core LINa_Exact.
Import ListNotations.

Section Final.
Variables (K V : Type) (ltb : K -> K -> bool).
Hypothesis HS : SWO ltb.
Notation st := (st K V).

(* [is_delete_pc] is LINa_Core.is_delete_pc (the definition of the task statement) *)

(* the two facts beyond CIall, as one invariant; both are PROVED inductive (no testing needed) *)
Definition lin_extra (s : st) : Prop := prog_ok s /\ key_exact s.

Theorem lin_extra_init : forall progs, lin_extra (init_st (K:=K) (V:=V) progs).
Proof. intros progs. split; [apply prog_ok_init|apply key_exact_init]. Qed.

Theorem lin_extra_step : forall order (s s' : st) me acq ev,
  Nat.even order = true -> 2 <= order -> CIall ltb order s -> lin_extra s ->
  cstep ltb order s me = Stepped s' acq ev -> lin_extra s'.
Proof.
  intros order s s' me acq ev Hev H2 HCI [Hp Hk] Hstep. split.
  - eapply prog_ok_step; eauto.
  - eapply (key_exact_step K V ltb HS); eauto.
Qed.

Theorem abs_step_nondelete : forall order (s : st) me th,
  Nat.even order = true -> 4 <= order ->
  CIall ltb order s -> lin_extra s ->
  get_thread me (ths s) = Some th -> is_delete_pc K V (tpc th) = false ->
  abs_step_ok ltb order s me.
Proof.
  intros order s me th Hev H4 HCI [Hp Hk] Hget Hnd.
  eapply (abs_step_nondelete_x K V ltb HS order s me th); eauto.
Qed.

Theorem promise_own : forall order (s s' : st) me acq ev,
  Nat.even order = true -> 4 <= order -> CIall ltb order s ->
  cstep ltb order s me = Stepped s' acq ev -> decided ltb s me = true ->
  match returns ev with Some r => r = RFound K None | None => decided ltb s' me = true end.
Proof. exact (LINa_Core.promise_own K V ltb HS). Qed.

End Final.

Print Assumptions abs_step_nondelete.
Print Assumptions promise_own.
Print Assumptions lin_extra_step.

(* SUMMARY.  Everything is proved; no axioms, nothing admitted.

   promise_own            exactly as requested (hypotheses: SWO, even order, 4 <= order, CIall).

   abs_step_nondelete     as requested PLUS the hypothesis [lin_extra s := prog_ok s /\ key_exact s]; every pc that is
                          not a Delete pc is covered (Idle, WantT, WantRoot Insert/Update/Search/Scan, InsWantRootRight,
                          InsWantChild, InsWantSplitRight, UpdCallback modes 0/1/2, SeaWantChild, CurRest, CurWantNext).
                          Neither all_small_b nor all_op_b is needed.
                          (LINa_Core.abs_step_nondelete_x is the same with [pc_key_exact (tr s) (tpc th)] for the
                          stepping thread only instead of [key_exact s].)

   The statement WITHOUT lin_extra is false (LINa_Cex.v, machine-checked, all clauses of CIall + all_small_b + all_op_b
   hold in both states):
     A. abs_step_needs_prog_ok  (state cexA, K = V = nat): pc = WantRoot (CInsert 1 1) 0 but prog = [CSearch 5]:
        cstep runs the Insert of the pc, lp_step reads the Search of the program: the step is declared the LP of
        OSearch 5 while the map changes.  No invariant relates the operation in the pc and the head of the program.
        Fix: prog_ok (LINa_Prog.v): [hd_error (prog th)] is the operation recorded in the pc; at SeaWantChild the
        operation is a Search or a Scan; at a cursor pc the head is a Scan.  Not executable (operations contain
        callbacks) but PROVED: prog_ok_init, prog_ok_step (every step of every thread, no other hypothesis),
        prog_ok_exec.
     B. abs_step_needs_key_exact (state cexB, K = nat * nat compared on the first component, as KeyOrders.fst_ltb):
        pc_ok_b for UpdCallback mode >= 2 only says the key at [index] is EQUIVALENT to the Update's key; the callback's
        store keeps the stored key, the specification's [put] stores the Update's key: different lists when equivalent
        keys are not equal.  Fix: key_exact (LINa_Exact.v): the key at [index] IS [key_of o].  PROVED inductive:
        key_exact_init, key_exact_step (every step of every thread, Delete included, from CIall; uses step_frame for
        the other threads' leaves).  Executable form for key types with a sound boolean equality: key_exact_b,
        key_exact_b_sound.

   Reusable lemmas.
     LINa_Lists:  keepb / absP (the filter of Lin.abs), absP_app, absP_mid, absP_SS, fresh_for, absP_put
                  (filter commutes with put for a key not equivalent to a placeholder), absP_lookup, placeholder_insert
                  (mode-2 store of an absent key does not change the filtered map), placeholder_store (the callback's
                  store into the placeholder slot is the specification's put on the filtered map), leaf_search_lookup
                  (the leaf code of Search computes lookup), mode0_store, mode1_store, mode2_insert, put_in_ctx,
                  lookup_in_ctx, eqvb_far.
     LINa_Ctx:    Lents / Rents, entries_plug (entries (plug C sub) = Lents C ++ entries sub ++ Rents C), ctx_left,
                  ctx_right, ctx_sides (keys left of the hole are below, right of it above, any key in rng (cbounds C)),
                  ctx_inner, shape_entries_SS, find_leaf_in_leaves, FAR, far_of_sides, FAR_all.
     LINa_Abs:    ph (own placeholder of a pc), abs_decomp (abs s = absP PO (absP (ph own pc) entries), same PO after
                  the step), others_fresh (other threads' placeholder keys are not equivalent to a key that is away
                  from every leaf but the one I hold or acquire: exclusivity of locks), lp_of / lp_step_commit (normal
                  form of lp_step after a step), commit_ths, get_thread_split, set_thread_split, get_thread_nodup.
     LINa_Prog:   pc_prog, prog_ok, blk_pp, prog_ok_step.
     LINa_Blocks: isplit_leaves (a split keeps the entries and the other leaves), prep (the tree a descent works on
                  after the structural part of a block), ins_eff / ins_descend_ctx_eff / ins_eff_prep (effect of
                  ins_descend on the entries: nothing, put (Insert LP), or placeholder insertion of an absent key),
                  replace_mid, ins_child_prep, root_prep (the structural part of InsWantChild / WantRoot keeps entries,
                  other leaves, shape, and the key's range), pc_key_exact, upd_cb_eff, sea_descend_leaf,
                  sea_descend_node, child_sides (what lies left and right of the child search_le selects).
     LINa_Core:   cstep_inv, GOAL, quiet_case, ins_case, cb_case, sea_case, sea_geom (position of a Search resting on p
                  and waiting for c: right side above k, left side below k unless decided, c's entries above k when
                  below_lo k c, decidedness propagates from p to c), CIall_facts, sea_quiet, held_in.

   Facts of CIall actually used: GI (shape), ids_ok, lock_inv (exclusivity, held = pc_nodes), all_pc_ok_b (own pc and the
   other threads' UpdCallback pcs), all_pc_ok3_b (own SeaWantChild pc); key_exact_step also uses frame_inv / step_frame.
   Not used: occ_ok_b, all_left_pos_b, all_pc_ok2_b, all_small_b, all_op_b. *)

(* GI.v — the global structural invariant of the concurrent model's state, at every step boundary
   (C08 concurrent clauses, C02 chain clause).  Definitions only (Prop + executable checker). *)
From Coq Require Import List Bool PeanoNat.
From GB Require Export Conc Inv.
Import ListNotations.
Set Implicit Arguments.

Section GI.
Variables (K V : Type) (ltb : K -> K -> bool).
Notation itree := (itree K V).
Notation st := (st K V).

Fixpoint ids (t : itree) : list id :=
  match t with
  | ILeaf i _ _ => [i]
  | INode i cs => i :: flat_map (fun c => ids (snd c)) cs
  end.

(* the stored next links are the in-order succession of the leaves and end at the last one *)
Fixpoint chain_ok (l : list (id * option id)) : Prop :=
  match l with
  | [] => True
  | [(_, nx)] => nx = None
  | (_, nx) :: (((j, _) :: _) as r) => nx = Some j /\ chain_ok r
  end.

(* capacity everywhere (occupancy without the lower bounds, which a Delete in flight suspends) *)
Fixpoint cap (order : nat) (t : tree K V) : Prop :=
  count t <= order /\ match t with Leaf _ => True | Node cs => all_kids (cap order) cs end.

Definition GI (order : nat) (s : st) : Prop :=
  NoDup (ids (tr s)) /\
  Forall (fun i => i < fresh s) (ids (tr s)) /\
  ordered ltb (erase_ids (tr s)) /\
  bal (height (erase_ids (tr s))) (erase_ids (tr s)) /\
  cap order (erase_ids (tr s)) /\
  chain_ok (leaf_links (tr s)).

(* ---- executable ---- *)
Fixpoint nodup_b (l : list nat) : bool :=
  match l with [] => true | x :: r => negb (existsb (Nat.eqb x) r) && nodup_b r end.
Fixpoint chain_ok_b (l : list (id * option id)) : bool :=
  match l with
  | [] => true
  | [(_, nx)] => match nx with None => true | Some _ => false end
  | (_, nx) :: (((j, _) :: _) as r) => (match nx with Some x => x =? j | None => false end) && chain_ok_b r
  end.
Fixpoint cap_b (order : nat) (t : tree K V) : bool :=
  (count t <=? order) && match t with Leaf _ => true | Node cs => all_kids_b (cap_b order) cs end.
Definition gi_b (order : nat) (s : st) : bool :=
  nodup_b (ids (tr s)) && forallb (fun i => i <? fresh s) (ids (tr s)) &&
  ordered_b ltb (erase_ids (tr s)) && bal_b (height (erase_ids (tr s))) (erase_ids (tr s)) &&
  cap_b order (erase_ids (tr s)) && chain_ok_b (leaf_links (tr s)).

(* no Delete in flight: no thread rests at a Delete pc *)
Definition no_delete_in_flight (s : st) : bool :=
  forallb (fun e => match tpc (snd e) with
                    | DelWantLeft _ _ | DelWantChild _ _ | DelWantRight _ _ => false
                    | _ => true end) (ths s).
(* full invariant (with minimum occupancy) whenever no Delete is in flight *)
Definition gi_full_b (order : nat) (s : st) : bool :=
  gi_b order s && (negb (no_delete_in_flight s) || inv_b ltb order (erase_ids (tr s))).
End GI.

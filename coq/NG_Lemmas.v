(* NG_Lemmas.v — algebra of [nogap_b] (NoGap.v): unfolding at a node, one-hole contexts (decomposition and
   replacement of the subtree at the hole), replacement of any node by a leaf, splitting a node, and the three
   rewrites of two adjacent children done by Delete's rebalancing. *)
From Coq Require Import List Bool Lia PeanoNat.
From GB Require Import Model Inv SearchProof Conc EraseLemmas NoGap.
Import ListNotations.

Section NGL.
Variables (K V : Type) (ltb : K -> K -> bool).
Hypothesis HS : SWO ltb.
Notation itree := (itree K V).
Notation cframe := (cframe K V).
Notation nogap_b := (nogap_b ltb).

(* ------------------------------------------------------------------------------------------------ *)
(* the pieces of nogap_b                                                                              *)
(* ------------------------------------------------------------------------------------------------ *)
(* ex = "the child is exempt" (it lies on the leftmost path) *)
Definition sep_ok (ex : bool) (s : K) (c : itree) : bool :=
  match first_sep c with Some s0 => ex || eqvb ltb s0 s | None => true end.
Definition entry_ok (ex : bool) (e : K * itree) : bool := sep_ok ex (fst e) (snd e) && nogap_b ex (snd e).
Definition ng_entries (L : bool) (cs : list (K * itree)) : bool :=
  match cs with [] => true | e :: r => entry_ok L e && forallb (entry_ok false) r end.
Definition isnil {A} (l : list A) : bool := match l with [] => true | _ => false end.
Definition nonempty (t : itree) : Prop := match t with INode _ [] => False | _ => True end.

Fixpoint ng_go (lm first : bool) (cs : list (K * itree)) : bool :=
  match cs with
  | [] => true
  | (s, c) :: r =>
    (match first_sep c with Some s0 => (lm && first) || eqvb ltb s0 s | None => true end) &&
    nogap_b (lm && first) c && ng_go lm false r
  end.

Lemma nogap_node_go lm i cs : nogap_b lm (INode i cs) = ng_go lm true cs.
Proof.
  cbn [NoGap.nogap_b].
  match goal with |- ?g true cs = _ => assert (Hg : forall b, g b cs = ng_go lm b cs) end; [|apply Hg].
  induction cs as [|[s c] r IH]; intros b; [reflexivity|].
  cbn [ng_go]. rewrite <- IH. reflexivity.
Qed.

Lemma ng_go_false lm cs : ng_go lm false cs = forallb (entry_ok false) cs.
Proof.
  induction cs as [|[s c] r IH]; [reflexivity|]. cbn [ng_go forallb]. rewrite IH, andb_false_r.
  unfold entry_ok, sep_ok. reflexivity.
Qed.

Lemma nogap_node L i cs : nogap_b L (INode i cs) = ng_entries L cs.
Proof.
  rewrite nogap_node_go. destruct cs as [|[s c] r]; [reflexivity|]. cbn [ng_go ng_entries].
  rewrite ng_go_false, andb_true_r. unfold entry_ok, sep_ok. reflexivity.
Qed.

Lemma nogap_leaf L i nx es : nogap_b L (ILeaf i nx es : itree) = true.
Proof. reflexivity. Qed.

Lemma sep_ok_true s (c : itree) : sep_ok true s c = true.
Proof. unfold sep_ok. destruct (first_sep c); reflexivity. Qed.

Lemma sep_ok_leaf ex s i nx es : sep_ok ex s (ILeaf i nx es : itree) = true.
Proof. reflexivity. Qed.

Lemma sep_ok_mono ex s (c : itree) : sep_ok false s c = true -> sep_ok ex s c = true.
Proof. unfold sep_ok. destruct (first_sep c); [|reflexivity]. cbn [orb]. intros ->. apply orb_true_r. Qed.

Lemma first_sep_node i (cs : list (K * itree)) : first_sep (INode i cs) = hd_error (map fst cs).
Proof. destruct cs as [|[s c] r]; reflexivity. Qed.

Lemma sep_ok_same ex s (a b : itree) : first_sep b = first_sep a -> sep_ok ex s a = sep_ok ex s b.
Proof. unfold sep_ok. intros ->. reflexivity. Qed.

Lemma ng_entries_false cs : ng_entries false cs = forallb (entry_ok false) cs.
Proof. destruct cs; reflexivity. Qed.

Lemma nogap_mono : forall (t : itree) L, nogap_b false t = true -> nogap_b L t = true.
Proof.
  induction t as [i nx es|i cs IH] using (itree_ind' K V); intros L H; [reflexivity|].
  destruct L; [|exact H]. rewrite nogap_node in *. destruct cs as [|[s c] r]; [reflexivity|].
  cbn [ng_entries] in *. apply andb_true_iff in H. destruct H as [H1 H2]. rewrite H2, andb_true_r.
  unfold entry_ok in *. cbn [fst snd] in *. apply andb_true_iff in H1. destruct H1 as [H1 H3].
  rewrite sep_ok_true. cbn [andb]. inversion IH as [|? ? Hc _]; subst. apply Hc. exact H3.
Qed.

Lemma entry_ok_mono ex e : entry_ok false e = true -> entry_ok ex e = true.
Proof.
  unfold entry_ok. intros H. apply andb_true_iff in H. destruct H as [H1 H2].
  rewrite (sep_ok_mono ex _ _ H1), (nogap_mono _ ex H2). reflexivity.
Qed.

Lemma ng_entries_all L cs : forallb (entry_ok false) cs = true -> ng_entries L cs = true.
Proof.
  destruct cs as [|e r]; [reflexivity|]. cbn [forallb ng_entries]. intros H. apply andb_true_iff in H.
  destruct H as [H1 H2]. rewrite (entry_ok_mono L _ H1), H2. reflexivity.
Qed.

Lemma ng_entries_tl L e r : ng_entries L (e :: r) = true -> forallb (entry_ok false) r = true.
Proof. cbn [ng_entries]. intros H. apply andb_true_iff in H. tauto. Qed.

(* the entry at position |pre| *)
Lemma ng_entries_app L pre e post :
  ng_entries L (pre ++ e :: post) = ng_entries L pre && entry_ok (L && isnil pre) e && forallb (entry_ok false) post.
Proof.
  destruct pre as [|e0 r]; cbn [app ng_entries isnil].
  - rewrite andb_true_r. reflexivity.
  - rewrite forallb_app. cbn [forallb]. rewrite andb_false_r, !andb_assoc. reflexivity.
Qed.

(* a nonempty prefix *)
Lemma ng_entries_app2 L ac X : ac <> [] ->
  ng_entries L (ac ++ X) = ng_entries L ac && forallb (entry_ok false) X.
Proof.
  destruct ac as [|e0 r]; [congruence|]. intros _. cbn [app ng_entries]. rewrite forallb_app, andb_assoc. reflexivity.
Qed.

Lemma forallb_firstn {A} (f : A -> bool) n l : forallb f l = true -> forallb f (firstn n l) = true.
Proof.
  revert l. induction n as [|n IH]; intros [|a l] H; try reflexivity. cbn [firstn forallb] in *.
  apply andb_true_iff in H. destruct H as [H1 H2]. rewrite H1, (IH _ H2). reflexivity.
Qed.

Lemma forallb_skipn {A} (f : A -> bool) n l : forallb f l = true -> forallb f (skipn n l) = true.
Proof.
  revert l. induction n as [|n IH]; intros [|a l] H; try reflexivity; [exact H|]. cbn [skipn forallb] in *.
  apply andb_true_iff in H. destruct H as [H1 H2]. apply IH. exact H2.
Qed.

Lemma ng_entries_firstn L n cs : ng_entries L cs = true -> ng_entries L (firstn n cs) = true.
Proof.
  destruct n as [|n]; [reflexivity|]. destruct cs as [|e r]; [reflexivity|]. cbn [firstn ng_entries].
  intros H. apply andb_true_iff in H. destruct H as [H1 H2]. rewrite H1, (forallb_firstn _ n _ H2). reflexivity.
Qed.

Lemma eqvb_refl a : eqvb ltb a a = true.
Proof. unfold eqvb. rewrite (swo_irrefl HS). reflexivity. Qed.

Lemma sep_ok_smallest ex (t : itree) rs : ismallest t = Ok rs -> sep_ok ex rs t = true.
Proof.
  unfold sep_ok. destruct t as [i nx es|i [|[k c] r]]; cbn [first_sep ismallest]; try reflexivity.
  intros H. inversion H; subst. rewrite eqvb_refl. apply orb_true_r.
Qed.

(* ------------------------------------------------------------------------------------------------ *)
(* one-hole contexts                                                                                  *)
(* ------------------------------------------------------------------------------------------------ *)
(* "the hole of C is on the leftmost path" *)
Fixpoint hole_lm (C : list cframe) : bool :=
  match C with [] => true | cf :: C' => hole_lm C' && isnil (cpre cf) end.

Lemma first_sep_plug1 (cf : cframe) (a b : itree) : first_sep (plug1 cf a) = first_sep (plug1 cf b).
Proof. unfold plug1. destruct (cpre cf) as [|[s c] r]; reflexivity. Qed.

Lemma nogap_plug1 L (cf : cframe) (x : itree) :
  nogap_b L (plug1 cf x) =
  ng_entries L (cpre cf) && entry_ok (L && isnil (cpre cf)) (csep cf, x) && forallb (entry_ok false) (cpost cf).
Proof. unfold plug1. rewrite nogap_node. apply ng_entries_app. Qed.

Lemma nogap_plug_inv (C : list cframe) : forall sub : itree,
  nogap_b true (plug C sub) = true ->
  nogap_b (hole_lm C) sub = true /\
  match C with [] => True | cf :: _ => sep_ok (hole_lm C) (csep cf) sub = true end.
Proof.
  induction C as [|cf C IH]; intros sub H; cbn [plug hole_lm] in *; [tauto|].
  destruct (IH _ H) as [H1 _]. rewrite nogap_plug1 in H1.
  apply andb_true_iff in H1. destruct H1 as [H1 _]. apply andb_true_iff in H1. destruct H1 as [_ H1].
  unfold entry_ok in H1. cbn [fst snd] in H1. apply andb_true_iff in H1. tauto.
Qed.

(* the replacement lemma *)
Lemma nogap_plug_repl (C : list cframe) : forall sub sub' : itree,
  nogap_b true (plug C sub) = true ->
  (forall s, sep_ok (hole_lm C) s sub = true -> sep_ok (hole_lm C) s sub' = true) ->
  nogap_b (hole_lm C) sub' = true ->
  nogap_b true (plug C sub') = true.
Proof.
  induction C as [|cf C IH]; intros sub sub' H Hs Hn; cbn [plug hole_lm] in *; [exact Hn|].
  apply (IH (plug1 cf sub)); [exact H| |].
  - intros s. rewrite (sep_ok_same _ s (plug1 cf sub) (plug1 cf sub')); [tauto|apply first_sep_plug1].
  - destruct (nogap_plug_inv C _ H) as [H1 _]. rewrite nogap_plug1 in *.
    apply andb_true_iff in H1. destruct H1 as [H1 H3]. apply andb_true_iff in H1. destruct H1 as [H1 H2].
    rewrite H1, H3, andb_true_r. cbn [andb]. unfold entry_ok in *. cbn [fst snd] in *.
    apply andb_true_iff in H2. destruct H2 as [H2 _]. rewrite (Hs _ H2), Hn. reflexivity.
Qed.

(* ------------------------------------------------------------------------------------------------ *)
(* replacing any node by a leaf                                                                       *)
(* ------------------------------------------------------------------------------------------------ *)
Lemma upd_leaf_ng x i nx es : forall t t' : itree,
  upd x (fun _ => Ok (ILeaf i nx es)) t = Ok t' ->
  (forall ex s, sep_ok ex s t = true -> sep_ok ex s t' = true) /\
  (forall L, nogap_b L t = true -> nogap_b L t' = true).
Proof.
  induction t as [i0 nx0 es0|i0 cs IH] using (itree_ind' K V); intros t' H.
  - cbn [upd nid] in H. destruct (i0 =? x); inversion H; subst; split; intros; reflexivity.
  - rewrite upd_node in H. destruct (i0 =? x); [inversion H; subst; split; intros; reflexivity|].
    destruct (upd_list x (fun _ => Ok (ILeaf i nx es)) cs) as [cs'|] eqn:E; [|discriminate H].
    cbn [bind] in H. inversion H; subst t'; clear H.
    assert (Hl : map fst cs' = map fst cs /\
                 (forall ex, forallb (entry_ok ex) cs = true -> forallb (entry_ok ex) cs' = true) /\
                 (forall L, ng_entries L cs = true -> ng_entries L cs' = true)).
    { revert cs' E IH. induction cs as [|[s c] r IHr]; intros cs' E IH; cbn [upd_list] in E.
      - inversion E; subst. repeat split; intros; assumption.
      - inversion IH as [|? ? Hc Hr]; subst. cbn [snd] in Hc.
        destruct (upd x (fun _ => Ok (ILeaf i nx es)) c) as [c'|] eqn:Ec; [|discriminate E]. cbn [bind] in E.
        destruct (upd_list x (fun _ => Ok (ILeaf i nx es)) r) as [r'|] eqn:Er; [|discriminate E]. cbn [bind] in E.
        inversion E; subst cs'; clear E.
        destruct (IHr r' eq_refl Hr) as (A1 & A2 & A3). destruct (Hc c' eq_refl) as [B1 B2].
        assert (He : forall ex, entry_ok ex (s, c) = true -> entry_ok ex (s, c') = true).
        { intros ex Hx. unfold entry_ok in *. cbn [fst snd] in *. apply andb_true_iff in Hx. destruct Hx as [X1 X2].
          rewrite (B1 _ _ X1), (B2 _ X2). reflexivity. }
        split; [cbn [map fst]; rewrite A1; reflexivity|]. split.
        + intros ex Hx. cbn [forallb] in *. apply andb_true_iff in Hx. destruct Hx as [X1 X2].
          rewrite (He _ X1), (A2 _ X2). reflexivity.
        + intros L Hx. cbn [ng_entries] in *. apply andb_true_iff in Hx. destruct Hx as [X1 X2].
          rewrite (He _ X1), (A2 _ X2). reflexivity. }
    destruct Hl as (A1 & A2 & A3). split.
    + intros ex s. rewrite (sep_ok_same ex s (INode i0 cs) (INode i0 cs')); [tauto|].
      rewrite !first_sep_node, A1. reflexivity.
    + intros L. rewrite !nogap_node. apply A3.
Qed.

(* ------------------------------------------------------------------------------------------------ *)
(* splitting a node                                                                                   *)
(* ------------------------------------------------------------------------------------------------ *)
Lemma isplit_ng order fr L (t lft rgt : itree) :
  isplit order fr t = Some (lft, rgt) -> nogap_b L t = true ->
  nogap_b L lft = true /\ nogap_b false rgt = true /\
  (forall ex s, sep_ok ex s t = true -> sep_ok ex s lft = true) /\
  (forall rs, ismallest rgt = Ok rs -> sep_ok false rs rgt = true).
Proof.
  unfold isplit. destruct (icount t <? order); [discriminate|]. intros H Hn.
  destruct t as [i nx es|i cs]; inversion H; subst lft rgt; clear H.
  - repeat split; intros; try reflexivity.
  - rewrite nogap_node in Hn. split; [|split; [|split]].
    + rewrite nogap_node. apply ng_entries_firstn. exact Hn.
    + rewrite nogap_node, ng_entries_false. destruct (Nat.div2 order) as [|h]; [reflexivity|].
      apply forallb_firstn. destruct cs as [|e r]; [reflexivity|]. cbn [skipn]. apply forallb_skipn.
      eapply ng_entries_tl; exact Hn.
    + intros ex s. unfold sep_ok. destruct (Nat.div2 order) as [|h]; [reflexivity|].
      destruct cs as [|[s0 c0] r]; cbn [firstn first_sep]; tauto.
    + intros rs. apply sep_ok_smallest.
Qed.

(* ------------------------------------------------------------------------------------------------ *)
(* the rewrites of two adjacent children by Delete's rebalancing                                      *)
(* ------------------------------------------------------------------------------------------------ *)
Lemma entry_node ex s i cs : entry_ok ex (s, INode i cs) = sep_ok ex s (INode i cs) && ng_entries ex cs.
Proof. unfold entry_ok. cbn [fst snd]. rewrite nogap_node. reflexivity. Qed.

Lemma first_sep_app i (ac X : list (K * itree)) : ac <> [] -> first_sep (INode i (ac ++ X)) = first_sep (INode i ac).
Proof. destruct ac as [|[s c] r]; [congruence|reflexivity]. Qed.

Lemma adoptR_ng f ka kb (a b a' b' : itree) rs :
  iadopt_right a b = Ok (a', b') -> ismallest b' = Ok rs -> nonempty a ->
  entry_ok f (ka, a) = true -> entry_ok false (kb, b) = true ->
  entry_ok f (ka, a') = true /\ entry_ok false (rs, b') = true.
Proof.
  intros H Hs Hne Ha Hb.
  destruct a as [ai an ae|ai ac], b as [bi bn [|x be]|bi [|x bc]]; cbn [iadopt_right] in H; try discriminate H;
    inversion H; subst a' b'; clear H.
  - split; reflexivity.
  - rewrite !entry_node in *. apply andb_true_iff in Ha. destruct Ha as [A1 A2].
    apply andb_true_iff in Hb. destruct Hb as [_ B2]. cbn [ng_entries] in B2. apply andb_true_iff in B2.
    destruct B2 as [B2 B3].
    assert (Hac : ac <> []) by (destruct ac; [exact (fun _ => Hne)|discriminate]).
    split.
    + rewrite (sep_ok_same f ka (INode ai (ac ++ [x])) (INode ai ac)) by (symmetry; apply first_sep_app; exact Hac).
      rewrite A1, ng_entries_app2, A2 by exact Hac. cbn [forallb]. rewrite B2. reflexivity.
    + rewrite (sep_ok_smallest false _ _ Hs), ng_entries_false, B3. reflexivity.
Qed.

Lemma adoptL_ng f ka kb (a b a' b' : itree) sm :
  iadopt_left a b = Ok (a', b') -> ismallest b' = Ok sm -> 2 <= icount a ->
  entry_ok f (ka, a) = true -> entry_ok false (kb, b) = true ->
  entry_ok f (ka, a') = true /\ entry_ok false (sm, b') = true.
Proof.
  intros H Hs Hne Ha Hb.
  destruct a as [ai an ae|ai ac], b as [bi bn be|bi bc]; cbn [iadopt_left] in H; try discriminate H.
  - destruct (rev ae); [discriminate H|]. inversion H; subst. split; reflexivity.
  - destruct (rev ac) as [|x ac'] eqn:Er; [discriminate H|]. inversion H; subst a' b'; clear H.
    assert (Eac : ac = rev ac' ++ [x]).
    { rewrite <- (rev_involutive ac), Er. reflexivity. }
    assert (Hac : rev ac' <> []).
    { intros E. rewrite E in Eac. subst ac. cbn [icount app length] in Hne. lia. }
    rewrite !entry_node in *. apply andb_true_iff in Ha. destruct Ha as [A1 A2].
    apply andb_true_iff in Hb. destruct Hb as [_ B2]. rewrite ng_entries_false in B2.
    rewrite Eac, ng_entries_app2 in A2 by exact Hac. apply andb_true_iff in A2. destruct A2 as [A2 A3].
    cbn [forallb] in A3. rewrite andb_true_r in A3.
    split.
    + rewrite (sep_ok_same f ka (INode ai (rev ac')) (INode ai ac)), A1, A2; [reflexivity|].
      rewrite Eac. apply first_sep_app. exact Hac.
    + rewrite (sep_ok_smallest false _ _ Hs), ng_entries_false. cbn [forallb]. rewrite A3, B2. reflexivity.
Qed.

Lemma absorb_ng f ka kb (a b ab : itree) :
  iabsorb a b = Ok ab -> nonempty a ->
  entry_ok f (ka, a) = true -> entry_ok false (kb, b) = true -> entry_ok f (ka, ab) = true.
Proof.
  intros H Hne Ha Hb.
  destruct a as [ai an ae|ai ac], b as [bi bn be|bi bc]; cbn [iabsorb] in H; try discriminate H;
    inversion H; subst ab; clear H; [reflexivity|].
  assert (Hac : ac <> []) by (destruct ac; [exact (fun _ => Hne)|discriminate]).
  rewrite !entry_node in *. apply andb_true_iff in Ha. destruct Ha as [A1 A2].
  apply andb_true_iff in Hb. destruct Hb as [_ B2]. rewrite ng_entries_false in B2.
  rewrite (sep_ok_same f ka (INode ai (ac ++ bc)) (INode ai ac)) by (symmetry; apply first_sep_app; exact Hac).
  rewrite A1, ng_entries_app2, A2, B2 by exact Hac. reflexivity.
Qed.

(* two adjacent entries inside a list *)
Lemma ng_entries_pair L A e1 e2 B :
  ng_entries L (A ++ e1 :: e2 :: B) =
  ng_entries L A && entry_ok (L && isnil A) e1 && (entry_ok false e2 && forallb (entry_ok false) B).
Proof. rewrite ng_entries_app. reflexivity. Qed.

Lemma first_sep_pair i A ka (a a' : itree) X Y :
  first_sep (INode i (A ++ (ka, a') :: Y)) = first_sep (INode i (A ++ (ka, a) :: X)).
Proof. destruct A as [|[s c] r]; reflexivity. Qed.

End NGL.

(* O2_Occ.v — OCCc_Proof's occupancy theorems re-proved for even order >= 2 when the stepping thread is not at a
   Delete pc (the hypothesis 4 <= order of OCCc_Proof is used only in the two unwinding branches DelWantChild /
   DelWantRight of cstep_occ).  Proof scripts copied from OCCc_Proof.v with those two branches discharged. *)
From Coq Require Import List Permutation Lia Bool PeanoNat.
From GB Require Import ListLemmas TreeLemmas Frame LockProof ConcProps UpdLemmas FrameRel FrameInv FrameBlocks FrameProof
  CInv CIDef OCCc_Base OCCc_Blocks OCCc_Reb OCCc_Proof O2_NoDel.
Import ListNotations.

Section OccProof.
Variables (K V : Type) (ltb : K -> K -> bool).
Notation itree := (itree K V).
Notation pc := (pc K V).
Notation st := (st K V).
Notation out := (out K V).
Notation thread := (thread K V).

Local Notation occ_res := (OCCc_Proof.occ_res K V).
Local Notation occ_res_same := (OCCc_Proof.occ_res_same K V).
Local Notation occ_res_ins := (OCCc_Proof.occ_res_ins K V ltb).
Local Notation occ_res_sea := (OCCc_Proof.occ_res_sea K V ltb).
Local Notation nosplit_kids_occ := (OCCc_Proof.nosplit_kids_occ K V).
Local Notation split_kids_occ := (OCCc_Proof.split_kids_occ K V).
Local Notation icount_view := (OCCc_Proof.icount_view K V).

Opaque unwind.

Lemma cstep_occ_nd : forall order (s s' : st) me acq ev,
  Nat.even order = true -> 2 <= order ->
  (forall th, get_thread me (ths s) = Some th -> del_pc_b K V (tpc th) = false) ->
  ids_ok s -> lock_inv2 K V s -> frame_inv s ->
  occ_ok_b order s = true -> all_small_b order s = true ->
  cstep ltb order s me = Stepped s' acq ev ->
  exists th th' o,
    get_thread me (ths s) = Some th /\ tpc th' = opc o /\
    s' = {| tr := otr o; tm := otm o; lk := olk o; fresh := ofresh o; ths := set_thread me th' (ths s) |} /\
    occ_res order (exempt_node s) (tpc th) o.
Proof.
  intros order s s' me acq ev Hev Ho2 HND [Hnd Hlt] Hinv Hfi Hocc Hsmall H.
  unfold cstep in H.
  destruct (get_thread me (ths s)) as [th|] eqn:Hme; [|discriminate H].
  destruct (target s (tpc th)) as [tg|] eqn:Htg; [|discriminate H].
  destruct (negb (is_free s tg)) eqn:Hfree; [discriminate H|].
  apply negb_false_iff in Hfree.
  pose proof (HND th eq_refl) as Hndel.
  destruct Hinv as [Hinv Hwf2].
  pose proof Hinv as [Hndl [Hndt [Hlk [Htm Hth]]]].
  destruct (Hth me th Hme) as [Hwf [HP HT]].
  pose proof (Hwf2 me th Hme) as Hw2.
  pose proof (Hfi me th Hme) as Hok.
  assert (Hsm_me : pc_small_b order (tr s) (tpc th) = true).
  { unfold all_small_b in Hsmall. rewrite forallb_forall in Hsmall.
    apply (Hsmall (me, th)). apply get_thread_in. exact Hme. }
  assert (Hexh : pc_holds_T (tpc th) = true -> exempt_node s = exempt_of (tpc th)).
  { intros X. eapply exempt_node_holder; eauto. }
  unfold occ_ok_b in Hocc. set (e := exempt_node s) in *.
  assert (Hfr1 : ~ In (fresh s) (ids (tr s))).
  { intro X. rewrite Forall_forall in Hlt. apply Hlt in X. lia. }
  assert (Hfr2 : ~ In (S (fresh s)) (ids (tr s))).
  { intro X. rewrite Forall_forall in Hlt. apply Hlt in X. lia. }
  assert (Hheld : forall x, In x (pc_nodes (tpc th)) -> In x (held_by me (lk s))).
  { intros x Hx. eapply Permutation_in; [apply Permutation_sym; exact HP | exact Hx]. }
  cbv zeta in H.
  assert (Hgen : forall o : out,
            occ_res order e (tpc th) o ->
            Stepped {| tr := otr o; tm := otm o; lk := olk o; fresh := ofresh o;
                       ths := set_thread me (if existsb (fun e => match e with EReturn _ => true | _ => false end) (oev o)
                                then {| prog := tl (prog th); tpc := opc o; results := flat_map (fun e => match e with EReturn r => [r] | _ => [] end) (oev o) ++ results th |}
                                else {| prog := prog th; tpc := opc o; results := results th |}) (ths s) |} tg (oev o) = Stepped s' acq ev ->
            exists th0 th' o0,
              Some th = Some th0 /\ tpc th' = opc o0 /\
              s' = {| tr := otr o0; tm := otm o0; lk := olk o0; fresh := ofresh o0; ths := set_thread me th' (ths s) |} /\
              occ_res order e (tpc th0) o0).
  { intros o Hb Hs. inversion Hs; subst. do 3 eexists. split; [reflexivity|].
    split; [|split; [reflexivity|exact Hb]].
    destruct (existsb _ (oev o)); reflexivity. }
  destruct (tpc th) as [ |o|o r|o lft rgt|o p c index|o p c r|o leaf mode index|o p c|o stk|o stk|o stk|leaf i n acc|leaf nxt n acc] eqn:Hpc.
  all: cbv beta iota in H; simpl in Htg; crunch Htg; inversion Htg; subst tg; clear Htg.
  all: match type of H with match ?B with _ => _ end = _ => destruct B as [[o1|]|] eqn:HB; try discriminate H end.
  all: match goal with o : out |- _ => apply (Hgen o); [clear H Hgen | exact H] end.
  all: simpl in Hw2, Hok, Hheld.
  - (* Idle *) blk_inv HB. apply occ_res_same; auto.
  - (* WantT *) blk_inv HB. apply occ_res_same; auto.
  - (* WantRoot *)
    subst r.
    blk_top HB.
    assert (Hins : forall o', (o' = o) -> match o' with CInsert _ _ | CUpdate _ _ => True | _ => False end ->
              match isplit order (fresh s) (tr s) with
              | Some (lft, rgt) =>
                ls <- ismallest lft ;; rs <- ismallest rgt ;;
                (if ltb (key_of o) rs
                 then ins_descend ltb o (nid (tr s)) (INode (S (fresh s)) [(if ltb (key_of o) ls then key_of o else ls, lft); (rs, rgt)])
                        ((nid (tr s), me) :: lk s) (S (S (fresh s))) None
                 else mk (INode (S (fresh s)) [(if ltb (key_of o) ls then key_of o else ls, lft); (rs, rgt)])
                        ((nid (tr s), me) :: lk s) (S (S (fresh s))) (tm s) (InsWantRootRight o (nid (tr s)) (fresh s)) [])
              | None => ins_descend ltb o (nid (tr s)) (tr s) ((nid (tr s), me) :: lk s) (fresh s) None
              end = Ok o1 -> occ_res order e (WantRoot o (nid (tr s))) o1).
    { intros o' _ _ HI. clear HE.
      destruct (isplit order (fresh s) (tr s)) as [[lft rgt]|] eqn:Hsp.
      - destruct (ismallest lft) as [ls|] eqn:Els; [cbn [bind] in HI|discriminate HI].
        destruct (ismallest rgt) as [rs|] eqn:Ers; [cbn [bind] in HI|discriminate HI].
        destruct (root_split_rel K V ltb False order [nid (tr s); fresh s; S (fresh s)] (fresh s)
                    (if ltb (key_of o) ls then key_of o else ls) rs lft rgt (tr s) Hnd Hsp Hfr1 Hfr2) as (A1 & A2 & A3);
          try in_solve.
        destruct (isplit_occ K V order e (fresh s) (tr s) lft rgt true Hev Hsp Hocc) as [Hl Hr].
        assert (Hnew : iocc_b order e true (INode (S (fresh s)) [(if ltb (key_of o) ls then key_of o else ls, lft); (rs, rgt)]) = true).
        { rewrite iocc_node. apply andb_true_intro. split.
          - unfold top_ok. simpl. apply orb_true_iff. right. apply Nat.leb_le. apply root_min_le2.
          - rewrite !ioccl_cons. simpl. rewrite Hl, Hr. reflexivity. }
        destruct (ltb (key_of o) rs).
        + eapply occ_res_ins; eauto.
        + unfold mk in HI. inversion HI; subst; clear HI. apply occ_res_same; auto.
      - eapply occ_res_ins; eauto. }
    destruct o as [k v|k f|k|k|k cnt].
    + apply (Hins _ eq_refl I HE).
    + apply (Hins _ eq_refl I HE).
    + (* CDelete *)
      clear Hins. destruct (tr s) as [i nx es|i cs] eqn:Et.
      * blk_inv HE. apply occ_res_same; auto; cbn [otr]; rewrite iocc_leaf; unfold top_ok; simpl; apply orb_true_r.
      * blk_inv HE. destruct (del_descend_occ K V ltb order _ _ _ _ _ E) as [D1 D2].
        apply occ_res_same; auto.
    + eapply occ_res_sea; eauto.
    + eapply occ_res_sea; eauto.
  - (* InsWantRootRight *)
    blk_top HB. eapply occ_res_ins; eauto.
  - (* InsWantChild *)
    blk_top HB.
    destruct Hok as [Hplt Hca].
    destruct (find p (tr s)) as [[?|pi cs]|] eqn:Hfp; try discriminate HE.
    destruct (find c (tr s)) as [child|] eqn:Hfc; [|discriminate HE].
    destruct (get_nth index cs) as [[sep ch0]|] eqn:Hg; [cbn [bind] in HE|discriminate HE].
    apply get_nth_Ok in Hg.
    assert (Hch : child = ch0).
    { pose proof (child_at_nth K V _ _ _ _ _ _ _ _ Hca Hfp Hg) as Hn.
      pose proof (find_child K V p pi cs sep ch0 (tr s) Hnd Hfp (nth_error_In _ _ Hg)) as Hf2.
      rewrite Hn in Hf2. congruence. }
    subst ch0.
    remember (if index =? 0 then (if ltb (key_of o) sep then key_of o else sep) else sep) as sep' eqn:Hsep.
    assert (Hnc : nid child = c) by (eapply find_nid; eauto).
    destruct (isplit order (fresh s) child) as [[lft rgt]|] eqn:Hsp.
    + destruct (ismallest rgt) as [rs|] eqn:Ers; [cbn [bind] in HE|discriminate HE].
      match type of HE with bind ?e _ = _ => destruct e as [t'|] eqn:Hu; [cbn [bind] in HE|discriminate HE] end.
      destruct (ins_split_rel K V ltb False order [p; c; fresh s] p pi cs index sep sep' rs child lft rgt
                  (fresh s) (tr s) t' Hnd Hfp Hg Hsp Hu Hfr1) as (A1 & A2 & A3 & A4); try in_solve.
      { rewrite Hnc. in_solve. }
      assert (Hnew : iocc_b order e true t' = true).
      { eapply iocc_upd_root with (e := e) (n := INode pi cs)
          (n' := INode pi (ins_nth (index + 1) (rs, rgt) (set_nth index (sep', lft) cs)));
          [reflexivity | exact Hnd | exact Hfp | exact Hu | left; reflexivity | | | exact Hocc];
          intros _; eapply split_kids_occ; eauto. }
      destruct (ltb (key_of o) rs).
      * eapply occ_res_ins; eauto.
      * unfold mk in HE. inversion HE; subst; clear HE. apply occ_res_same; auto.
    + match type of HE with bind ?e _ = _ => destruct e as [t'|] eqn:Hu; [cbn [bind] in HE|discriminate HE] end.
      destruct (ins_nosplit_rel K V False [p] p pi cs index sep sep' child (tr s) t' Hnd Hfp Hg Hu)
        as (A1 & A2 & A3 & A4); [in_solve|].
      assert (Hnew : iocc_b order e true t' = true).
      { eapply iocc_upd_root with (e := e) (n := INode pi cs) (n' := INode pi (set_nth index (sep', child) cs));
          [reflexivity | exact Hnd | exact Hfp | exact Hu | left; reflexivity | | | exact Hocc];
          intros _; eapply nosplit_kids_occ; eauto. }
      eapply occ_res_ins; eauto.
  - (* InsWantSplitRight *)
    blk_top HB. eapply occ_res_ins; eauto.
  - (* UpdCallback *)
    blk_top HB.
    destruct o as [| k f | | |]; try discriminate HE.
    destruct (find leaf (tr s)) as [[i nx es|?]|] eqn:Hfl; try discriminate HE.
    assert (Hfin : forall es' t' l' ev', upd leaf (fun _ => Ok (ILeaf i nx es')) (tr s) = Ok t' -> length es <= length es' ->
              occ_res order e (UpdCallback (CUpdate k f) leaf mode index)
                {| otr := t'; olk := l'; ofresh := fresh s; otm := tm s; opc := Idle; oev := ev' |}).
    { intros es' t' l' ev' Hu Hlen. apply occ_res_same; auto. cbn [otr]. eapply leaf_upd_occ; eauto. }
    blk_inv HE; eapply Hfin; try eassumption.
    + rewrite app_length. simpl. lia.
    + match goal with G : get_nth _ _ = Ok _ |- _ => apply get_nth_Ok in G end. erewrite set_nth_length; eauto.
    + match goal with G : get_nth _ _ = Ok _ |- _ => apply get_nth_Ok in G end. erewrite set_nth_length; eauto.
  - (* SeaWantChild *)
    blk_top HB. eapply occ_res_sea; eauto.
  - (* DelWantLeft *)
    blk_inv HB. apply occ_res_same; auto.
  - (* DelWantChild *) exfalso. first [discriminate Hndel | rewrite Hpc in Hndel; discriminate Hndel].
  - (* DelWantRight *) exfalso. first [discriminate Hndel | rewrite Hpc in Hndel; discriminate Hndel].
  - (* CurRest *) blk_top HB. unfold mk in HE. crunch HE; inversion HE; subst; clear HE; apply occ_res_same; auto.
  - (* CurWantNext *) blk_top HB. unfold mk in HE. crunch HE; inversion HE; subst; clear HE; apply occ_res_same; auto.
Qed.

Transparent unwind.

(* ------------------------------------------------------------------------------------------------ *)
(* the theorems                                                                                       *)
(* ------------------------------------------------------------------------------------------------ *)

(* (1) minimum occupancy is preserved by every step *)
Theorem occ_step_nd : forall order (s s' : st) me acq ev,
  Nat.even order = true -> 2 <= order ->
  (forall th, get_thread me (ths s) = Some th -> del_pc_b K V (tpc th) = false) ->
  CIfull ltb order s -> all_inv K V s -> all_small_b order s = true ->
  cstep ltb order s me = Stepped s' acq ev ->
  occ_ok_b order s' = true.
Proof.
  intros order s s' me acq ev Hev Ho4 HND [[HGI [Hinv Hpc]] Hocc] (Hids & _ & Hfi) Hsmall Hs.
  destruct (cstep_occ_nd order s s' me acq ev Hev Ho4 HND Hids Hinv Hfi Hocc Hsmall Hs)
    as (th & th' & o & Hme & Hth' & Hs' & [[(E1 & E2 & Ho)|(HT & Ho)] Hsm]).
  - subst s'. unfold occ_ok_b. cbn [tr]. rewrite exempt_node_exl. cbn [ths].
    pose proof (proj1 Hinv) as (_ & Hndt & _).
    rewrite (exl_set_same K V me th th' (ths s) Hndt Hme) by (rewrite Hth', E1, E2; reflexivity).
    exact Ho.
  - subst s'. unfold occ_ok_b. cbn [tr]. rewrite exempt_node_exl. cbn [ths].
    pose proof (proj1 Hinv) as Hli. pose proof Hli as (_ & Hndt & _).
    rewrite (exl_set_unique K V me th th' (ths s) Hndt Hme) by (eapply others_none; eauto).
    rewrite Hth'. exact Ho.
Qed.

(* the strengthened DelWantRight clause is re-established for the stepping thread ... *)
Theorem small_step_me_nd : forall order (s s' : st) me acq ev,
  Nat.even order = true -> 2 <= order ->
  (forall th, get_thread me (ths s) = Some th -> del_pc_b K V (tpc th) = false) ->
  CIfull ltb order s -> all_inv K V s -> all_small_b order s = true ->
  cstep ltb order s me = Stepped s' acq ev ->
  forall th', get_thread me (ths s') = Some th' -> pc_small_b order (tr s') (tpc th') = true.
Proof.
  intros order s s' me acq ev Hev Ho4 HND [[HGI [Hinv Hpc]] Hocc] (Hids & _ & Hfi) Hsmall Hs th1 Hg.
  destruct (cstep_occ_nd order s s' me acq ev Hev Ho4 HND Hids Hinv Hfi Hocc Hsmall Hs)
    as (th & th' & o & Hme & Hth' & Hs' & [_ Hsm]).
  subst s'. cbn [tr ths] in *. rewrite (get_set_same K V me th th' (ths s) Hme) in Hg. inversion Hg; subst th1.
  rewrite Hth'. exact Hsm.
Qed.

(* ... and for all other threads: the strengthened invariant is inductive *)
Theorem small_step_nd : forall order (s s' : st) me acq ev,
  Nat.even order = true -> 2 <= order ->
  (forall th, get_thread me (ths s) = Some th -> del_pc_b K V (tpc th) = false) ->
  CIfull ltb order s -> all_inv K V s -> all_small_b order s = true ->
  cstep ltb order s me = Stepped s' acq ev ->
  all_small_b order s' = true.
Proof.
  intros order s s' me acq ev Hev Ho4 HND HCI Hall Hsmall Hs.
  pose proof HCI as [[HGI [Hinv Hpc]] Hocc]. pose proof Hall as (Hids & _ & Hfi).
  pose proof (small_step_me_nd order s s' me acq ev Hev Ho4 HND HCI Hall Hsmall Hs) as Hme'.
  destruct (cstep_occ_nd order s s' me acq ev Hev Ho4 HND Hids Hinv Hfi Hocc Hsmall Hs)
    as (th & th' & o & Hme & Hth' & Hs' & _).
  pose proof (proj1 Hinv) as Hli. pose proof Hli as (_ & Hndt & _ & _ & Hth).
  unfold all_small_b. rewrite forallb_forall. intros [u thu] Hin. cbn [snd].
  assert (Hnd' : NoDup (map fst (ths s'))) by (subst s'; cbn [ths]; rewrite map_fst_set_thread; exact Hndt).
  apply in_get_thread in Hin; [|exact Hnd'].
  destruct (Nat.eq_dec u me) as [->|Hne]; [apply Hme'; exact Hin|].
  assert (Hgu : get_thread u (ths s) = Some thu).
  { subst s'. cbn [ths] in Hin. rewrite get_set_other in Hin by exact Hne. exact Hin. }
  assert (Hsu : pc_small_b order (tr s) (tpc thu) = true).
  { unfold all_small_b in Hsmall. rewrite forallb_forall in Hsmall. apply (Hsmall (u, thu)). apply get_thread_in. exact Hgu. }
  destruct (tpc thu) as [ | | | | | | | | | |oo stk| | ] eqn:Epc; try reflexivity.
  destruct stk as [|g rest]; [reflexivity|]. cbn [pc_small_b] in *.
  apply andb_prop in Hsu. destruct Hsu as [Hsu1 Hsu2].
  destruct (fc g) as [c|] eqn:Efc; [|discriminate].
  destruct (find c (tr s)) as [ct|] eqn:Hfct; [|discriminate].
  destruct (find (fp g) (tr s)) as [[?|pg cg]|] eqn:Hfpg; try discriminate.
  destruct (Hth u thu Hgu) as (_ & HPu & _). rewrite Epc in HPu. simpl pc_nodes in HPu.
  assert (Hfrm : forall x, In x (frames_nodes (g :: rest)) -> In x (ids (tr s)) -> node_view x (tr s') = node_view x (tr s)).
  { intros x Hx Hxi.
    assert (Hxu : In x (held_by u (lk s))) by (eapply Permutation_in; [apply Permutation_sym; exact HPu|exact Hx]).
    eapply step_frame; eauto.
    - eapply GI_lossless; eauto.
    - intros X. apply Hne. eapply (locks_exclusive K V s x u me); eauto.
    - intros X. subst acq. eapply (granted_was_free K V ltb order s s' me x ev u); eauto. }
  assert (Hv : node_view c (tr s') = node_view c (tr s)).
  { apply Hfrm; [apply fc_in_frames; exact Efc | eapply find_in_ids; eauto]. }
  assert (Hv2 : node_view (fp g) (tr s') = node_view (fp g) (tr s)).
  { apply Hfrm; [|eapply find_in_ids; eauto].
    pose proof (proj2 Hinv u thu Hgu) as Hw2. rewrite Epc in Hw2. simpl in Hw2. destruct Hw2 as [Hbo Hne2].
    pose proof (Hfi u thu Hgu) as Hoku. rewrite Epc in Hoku. simpl in Hoku.
    rewrite (frames_nodes_bottom (nid (tr s))); [|exact Hne2|exact Hbo].
    apply fp_in_frames; [eapply stack_ok_links; exact Hoku | exact Hbo | left; reflexivity]. }
  unfold node_view in Hv, Hv2. rewrite Hfct in Hv. rewrite Hfpg in Hv2.
  destruct (find c (tr s')) as [ct'|]; [|discriminate].
  simpl in Hv. inversion Hv as [Hv']. apply icount_view in Hv'. rewrite Hv'. rewrite Hsu1. simpl.
  destruct (find (fp g) (tr s')) as [n'|]; [|discriminate].
  simpl in Hv2. inversion Hv2 as [Hv2']. pose proof (icount_view n' (INode pg cg) Hv2') as Hc2.
  destruct n' as [?|pg' cg']; [discriminate Hv2'|]. simpl in Hc2. rewrite Hc2. exact Hsu2.
Qed.


End OccProof.

Print Assumptions occ_step_nd.
Print Assumptions small_step_nd.

(* CInv.v — consistency of program counters with the tree (the invariants a proof of the concurrent shape
   invariant GI needs beyond the lock table): executable definitions, validated on reachable states by the
   harness before being proved.  Definitions only. *)
From Coq Require Import List Bool PeanoNat.
From GB Require Export Conc GI LockInv.
Import ListNotations.
Set Implicit Arguments.

Section CInv.
Variables (K V : Type) (ltb : K -> K -> bool).
Notation itree := (itree K V).
Notation st := (st K V).

(* key range of node x given by the separators on the way down: (its separator in its parent, the next
   separator at the nearest level that has one); None = unbounded *)
Fixpoint bounds_in (lo hi : option K) (x : id) (t : itree) : option (option K * option K) :=
  if nid t =? x then Some (lo, hi) else
  match t with
  | ILeaf _ _ _ => None
  | INode _ cs =>
    (fix go (cs : list (K * itree)) : option (option K * option K) :=
       match cs with
       | [] => None
       | (s, c) :: r =>
         let hi' := match r with [] => hi | (s', _) :: _ => Some s' end in
         match bounds_in (Some s) hi' x c with Some b => Some b | None => go r end
       end) cs
  end.
Definition bounds (x : id) (t : itree) := bounds_in None None x t.

Definition ge_lo (k : K) (lo : option K) : bool := match lo with None => true | Some l => negb (ltb k l) end.
Definition lt_hi (k : K) (hi : option K) : bool := match hi with None => true | Some h => ltb k h end.
(* k belongs under node x: at or above x's separator and below the next one *)
Definition in_range (k : K) (x : id) (t : itree) : bool :=
  match bounds x t with Some (lo, hi) => ge_lo k lo && lt_hi k hi | None => false end.

Definition res_nat_eqb (r : res nat) (n : nat) : bool := match r with Ok m => m =? n | Panic _ => false end.

Fixpoint frames_ok_b (t : itree) (stk : list frame) : bool :=
  match stk with
  | [] => true
  | f :: rest =>
    match find (fp f) t with
    | Some (INode _ cs) =>
      (fidx f <? length cs) &&
      (match fl f with
       | Some x => (0 <? fidx f) && (match nth_error cs (fidx f - 1) with Some (_, c) => nid c =? x | None => false end)
       | None => true end) &&
      (match fc f with
       | Some x => (match nth_error cs (fidx f) with Some (_, c) => nid c =? x | None => false end)
       | None => true end) &&
      (match rest with
       | [] => nid t =? fp f
       | g :: _ => match fc g with Some x => x =? fp f | None => false end
       end) &&
      frames_ok_b t rest
    | _ => false
    end
  end.

(* what the tree must look like around a thread resting at pc p *)
Definition pc_ok_b (order : nat) (t : itree) (p : pc K V) : bool :=
  match p with
  | InsWantChild o pn c index =>
    match find pn t with
    | Some (INode _ cs) =>
      (length cs <? order) &&
      res_nat_eqb (search_le ltb (key_of o) (map fst cs)) index &&
      (match nth_error cs index with Some (_, ch) => nid ch =? c | None => false end) &&
      in_range (key_of o) pn t
    | _ => false end
  | InsWantSplitRight o pn c r =>
    match find pn t, find r t with
    | Some (INode _ cs), Some rt =>
      (icount rt <? order) && in_range (key_of o) r t &&
      existsb (fun e => nid (snd e) =? c) cs && existsb (fun e => nid (snd e) =? r) cs
    | _, _ => false end
  | InsWantRootRight o l r =>
    match find r t with Some rt => (icount rt <? order) && in_range (key_of o) r t | None => false end
  | UpdCallback o leaf mode index =>
    match find leaf t with
    | Some (ILeaf _ _ es) =>
      in_range (key_of o) leaf t &&
      (match mode with
       | 0 => (length es <? order) && (match last (map (fun e => Some (fst e)) es) None with None => true | Some lk => ltb lk (key_of o) end)
       | 1 => match nth_error es index with Some (k', _) => eqvb ltb (key_of o) k' | None => false end
       | _ => (length es <=? order) && (match nth_error es index with Some (k', _) => eqvb ltb (key_of o) k' | None => false end)
       end)
    | _ => false end
  | SeaWantChild _ pn c =>
    match find pn t with
    | Some (INode _ cs) => existsb (fun e => nid (snd e) =? c) cs
    | _ => false end
  | CurWantNext leaf nxt _ _ =>
    match find leaf t with
    | Some (ILeaf _ (Some x) _) => x =? nxt
    | _ => false end
  | CurRest leaf _ _ _ => match find leaf t with Some (ILeaf _ _ _) => true | _ => false end
  | WantRoot _ r => r =? nid t
  | DelWantLeft _ stk | DelWantChild _ stk => frames_ok_b t stk
  | DelWantRight _ stk =>
    frames_ok_b t stk &&
    (match stk with
     | f :: _ => match fc f with
                 | Some c => match find c t with Some ct => icount ct <? Nat.div2 order | None => false end
                 | None => false end
     | [] => false end)
  | _ => true
  end.

(* minimum occupancy everywhere except at the one node a Delete in flight has made too small and not yet
   rebalanced (the child of its innermost activation while it waits for the right sibling) *)
Fixpoint iocc_b (order : nat) (exempt : option id) (isroot : bool) (t : itree) : bool :=
  ((match exempt with Some x => nid t =? x | None => false end) ||
   (if isroot then match t with ILeaf _ _ _ => true | INode _ cs => root_min order <=? length cs end
    else Nat.div2 order <=? icount t)) &&
  match t with
  | ILeaf _ _ _ => true
  | INode _ cs => (fix go (cs : list (K * itree)) : bool := match cs with [] => true | (_, c) :: r => iocc_b order exempt false c && go r end) cs
  end.

Definition exempt_of (p : pc K V) : option id :=
  match p with DelWantRight _ (f :: _) => fc f | _ => None end.
Definition exempt_node (s : st) : option id :=
  fold_right (fun e acc => match exempt_of (tpc (snd e)) with Some x => Some x | None => acc end) None (ths s).
Definition occ_ok_b (order : nat) (s : st) : bool := iocc_b order (exempt_node s) true (tr s).

Definition all_pc_ok_b (order : nat) (s : st) : bool :=
  forallb (fun e => pc_ok_b order (tr s) (tpc (snd e))) (ths s).

End CInv.

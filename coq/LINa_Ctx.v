(* LINa_Ctx.v — the entries of the whole tree around a subtree in its one-hole context:
   entries (plug C sub) = Lents C ++ entries sub ++ Rents C, everything in Lents C is below the lower bound of the
   hole, everything in Rents C at or above its upper bound; leaves other than the one in the hole lie in the
   context. *)
From Coq Require Import List Bool Lia PeanoNat Permutation Sorted.
From GB Require Import Model Spec Inv ListLemmas SearchProof TreeLemmas SearchScanProof UpsertProof Conc GI LockInv CInv
  EraseLemmas EraseOps SoloBase SoloSearch GIa1_Ctx GIa1_Local LINa_Lists.
From GB Require PCb1_Bounds.
Import ListNotations.

Section Ctx.
Variables (K V : Type) (ltb : K -> K -> bool).
Hypothesis HS : SWO ltb.
Notation itree := (itree K V).
Notation tree := (tree K V).
Notation cframe := (cframe K V).
Notation leafrec := (id * option id * list (K * V))%type.
Notation SS := (StronglySorted (fun a b => ltb a b = true)).
Notation AK := (flat_map (fun c : K * tree => fst c :: allkeys (snd c))).
Notation EN := (flat_map (fun c : K * tree => entries (snd c))).
Notation trans := (trans K ltb HS).
Notation ltle := (ltle K ltb HS).
Notation lelt := (lelt K ltb HS).
Notation asc_SS := (asc_SS K ltb HS).
Notation rng := (rng ltb).
Notation sub_ok := (sub_ok ltb).
Notation shape := (shape ltb).

Definition Lents (C : list cframe) : list (K * V) := flat_map snd (lleaves C).
Definition Rents (C : list cframe) : list (K * V) := flat_map snd (rleaves C).

Lemma entries_plug C (sub : itree) :
  entries (erase_ids (plug C sub)) = Lents C ++ entries (erase_ids sub) ++ Rents C.
Proof.
  rewrite (leaves_entries K V (plug C sub)), leaves_plug, !flat_map_app, <- (leaves_entries K V sub). reflexivity.
Qed.

Lemma Lents_cons cf C : Lents (cf :: C) = Lents C ++ EN (erase_cs (cpre cf)).
Proof. unfold Lents. cbn [lleaves]. rewrite flat_map_app, <- leaves_list_entries. reflexivity. Qed.
Lemma Rents_cons cf C : Rents (cf :: C) = EN (erase_cs (cpost cf)) ++ Rents C.
Proof. unfold Rents. cbn [rleaves]. rewrite flat_map_app, <- leaves_list_entries. reflexivity. Qed.

Lemma ctx_left order (C : list cframe) : forall (sub : itree) k,
  shape order (plug C sub) -> ge_lo ltb k (fst (cbounds C)) = true ->
  Forall (fun e => ltb (fst e) k = true) (Lents C).
Proof.
  induction C as [|cf C IH]; intros sub k Hsh Hk; [constructor|].
  cbn [plug] in Hsh. destruct (shape_ctx K V ltb HS order C _ Hsh) as (d & Hok & _).
  rewrite erase_plug1 in Hok.
  destruct (frame_down K V ltb HS order _ d _ _ _ _ Hok) as (d' & -> & Hsub & Hrs & Hss & Hs').
  cbn [cbounds fst ge_lo] in Hk. apply negb_true_iff in Hk.
  rewrite Lents_cons. apply Forall_app. split.
  - apply (IH (plug1 cf sub) k Hsh). eapply (ge_lo_trans K ltb HS); [exact Hk|apply Hrs].
  - destruct Hok as (Ho & _). cbn [ordered] in Ho. destruct Ho as (_ & Hso & _).
    pose proof (pre_below K V ltb HS _ _ _ _ Hss Hso) as Hpre.
    apply (EN_keys K V (fun x => ltb x k = true)).
    eapply Forall_impl; [|exact Hpre]. intros x Hx. exact (ltle _ _ _ Hx Hk).
Qed.

Lemma ctx_right order (C : list cframe) : forall (sub : itree) k,
  shape order (plug C sub) -> lt_hi ltb k (snd (cbounds C)) = true ->
  Forall (fun e => ltb k (fst e) = true) (Rents C).
Proof.
  induction C as [|cf C IH]; intros sub k Hsh Hk; [constructor|].
  cbn [plug] in Hsh. destruct (shape_ctx K V ltb HS order C _ Hsh) as (d & Hok & _).
  rewrite erase_plug1 in Hok.
  destruct (frame_down K V ltb HS order _ d _ _ _ _ Hok) as (d' & -> & Hsub & Hrs & Hss & Hs').
  cbn [cbounds snd] in Hk. rewrite <- (hi_of_erase K V) in Hk.
  rewrite Rents_cons. apply Forall_app.
  destruct Hok as (Ho & _). cbn [ordered] in Ho. destruct Ho as (_ & Hso & _).
  destruct (erase_cs (cpost cf)) as [|[s' c'] post'] eqn:Ep.
  - split; [constructor|]. apply (IH (plug1 cf sub) k Hsh). exact Hk.
  - cbn [hi_of lt_hi] in Hk. split.
    + apply (EN_keys K V (fun x => ltb k x = true)).
      apply (post_above K V ltb HS).
      * rewrite map_app in Hss. apply (SS_app_iff K ltb) in Hss. destruct Hss as (_ & Hss & _).
        cbn [map fst] in Hss. apply (SS_cons_iff K ltb) in Hss. destruct Hss as [Hss _].
        apply (SS_cons_iff K ltb) in Hss. destruct Hss as [_ Hss].
        constructor; [exact Hk|]. rewrite Forall_map in Hss.
        eapply Forall_impl; [|exact Hss]. intros e He. eapply trans; eauto.
      * apply (seps_ok_app_inv K V ltb) in Hso. destruct Hso as [_ Hso]. simpl in Hso. simpl. tauto.
    + apply (IH (plug1 cf sub) k Hsh). eapply (lt_hi_trans K ltb HS); [exact Hk|apply Hs'].
Qed.

Lemma ctx_sides order (C : list cframe) (sub : itree) k :
  shape order (plug C sub) -> rng (cbounds C) k ->
  Forall (fun e => ltb (fst e) k = true) (Lents C) /\ Forall (fun e => ltb k (fst e) = true) (Rents C).
Proof. intros Hsh [H1 H2]. split; [eapply ctx_left|eapply ctx_right]; eauto. Qed.

(* every key of the subtree in the hole is inside the bounds of the hole *)
Lemma ctx_inner order (C : list cframe) (sub : itree) :
  shape order (plug C sub) -> Forall (fun e => rng (cbounds C) (fst e)) (entries (erase_ids sub)).
Proof.
  intros Hsh. destruct (shape_ctx K V ltb HS order C _ Hsh) as (d & (_ & Hr & _) & _).
  apply (TreeLemmas.entries_keys K V). exact Hr.
Qed.

Lemma shape_entries_SS order (t : itree) : shape order t -> SS (map fst (entries (erase_ids t))).
Proof. intros [(Ho & _) _]. apply asc_SS. apply (entries_asc K V ltb HS). exact Ho. Qed.

(* ---- leaves ---- *)
Lemma find_leaf_in_leaves y (t : itree) i nx es :
  Conc.find y t = Some (ILeaf i nx es) -> In (i, nx, es) (leaves t) /\ i = y.
Proof.
  intros Hf. split.
  - destruct (find_plug_ex K V y t _ Hf) as [C ->]. rewrite leaves_plug. apply in_or_app. right. simpl. now left.
  - exact (PCb1_Bounds.find_nid' K V y t _ Hf).
Qed.

Definition far (k : K) (e : K * V) : Prop := ltb (fst e) k = true \/ ltb k (fst e) = true.

(* every leaf other than x holds only keys strictly on one side of k *)
Definition FAR (x : id) (k : K) (t : itree) : Prop :=
  forall l, In l (leaves t) -> lid l <> x -> Forall (far k) (snd l).

Lemma far_of_sides (C : list cframe) x nx es k :
  Forall (fun e => ltb (fst e) k = true) (Lents C) -> Forall (fun e => ltb k (fst e) = true) (Rents C) ->
  FAR x k (plug C (ILeaf x nx es)).
Proof.
  intros HL HR l Hin Hne. rewrite leaves_plug in Hin. apply in_app_or in Hin. destruct Hin as [Hin|Hin].
  - apply Forall_forall. intros e He. left. rewrite Forall_forall in HL. apply HL.
    unfold Lents. apply in_flat_map. exists l. auto.
  - simpl in Hin. destruct Hin as [<-|Hin]; [exfalso; apply Hne; reflexivity|].
    apply Forall_forall. intros e He. right. rewrite Forall_forall in HR. apply HR.
    unfold Rents. apply in_flat_map. exists l. auto.
Qed.

Lemma FAR_all (x : id) k (t : itree) :
  Forall (far k) (entries (erase_ids t)) -> FAR x k t.
Proof.
  intros H l Hin _. rewrite (leaves_entries K V t) in H. rewrite Forall_forall in *. intros e He. apply H.
  apply in_flat_map. exists l. auto.
Qed.

End Ctx.

Arguments Lents {K V} C.
Arguments Rents {K V} C.
Arguments far {K V} ltb k e.
Arguments FAR {K V} ltb x k t.

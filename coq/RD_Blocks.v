(* RD_Blocks.v — READ discipline: the descent blocks of Conc.v make the same decisions on two trees that agree on
   the node they look at, and keep agreement of every node. *)
From Coq Require Import List Permutation Lia Bool PeanoNat.
From GB Require Import ListLemmas TreeLemmas Frame LockProof UpdLemmas FrameRel FrameInv FrameBlocks OCCc_Base OCCc_Total RD_Base.
Import ListNotations.

Ltac mirror H :=
  repeat (cbn [bind] in H; cbn [bind]; match type of H with
  | bind ?e _ = Ok _ => destruct e eqn:?; [ | discriminate H]
  | (let '(_, _) := ?p in _) = Ok _ => destruct p
  | (if ?c then _ else _) = Ok _ => destruct c eqn:?
  | match ?e with _ => _ end = Ok _ => destruct e eqn:?; try discriminate H
  end); cbn [bind] in H; cbn [bind].

Ltac rd_nid := let H := fresh "Hnid" in intros H; cbn [otr nid] in *; first [exact H | reflexivity | congruence].
Ltac rd_fin :=
  eexists; split; [reflexivity|]; unfold osim; cbn [olk ofresh otm opc oev otr];
  do 5 (split; [reflexivity|]); (split; [try rd_nid|]); try apply pres_refl.

Section RDBlocks.
Variables (K V : Type) (ltb : K -> K -> bool).
Notation itree := (itree K V).
Notation view := (view K V).
Notation pc := (pc K V).
Notation st := (st K V).
Notation out := (out K V).

Lemma sea_descend_sim o n (t1 t2 : itree) l fr tmx (o1 : out) :
  sea_descend ltb o n t1 l fr tmx = Ok o1 -> node_view n t1 = node_view n t2 ->
  exists o2, sea_descend ltb o n t2 l fr tmx = Ok o2 /\ osim [] t1 t2 o1 o2.
Proof.
  intros H Hv. unfold sea_descend in *.
  destruct (find n t1) as [[i nx es|pi cs]|] eqn:Hf; [| |discriminate H].
  - destruct (view_find _ _ _ _ _ _ Hv Hf) as [n2 [Hf2 Hs]]. rewrite (tsim_leaf _ _ _ _ _ _ Hs) in Hf2. rewrite Hf2.
    unfold mk in *. mirror H; inversion H; subst; clear H; rd_fin.
  - destruct (view_find _ _ _ _ _ _ Hv Hf) as [n2 [Hf2 Hs]]. destruct (tsim_node _ _ _ _ _ Hs) as [cs2 [-> Hp]]. rewrite Hf2.
    rewrite (ptrs_eq_fst _ _ _ _ Hp).
    destruct (search_le ltb (key_of o) (map fst cs)) as [index|]; [cbn [bind] in *|discriminate H].
    destruct (get_nth index cs) as [[k c]|] eqn:Hg; [cbn [bind] in H|discriminate H].
    symmetry in Hp. destruct (ptrs_get_nth _ _ _ _ _ _ _ Hp Hg) as [c2 [Hg2 Hn]]. rewrite Hg2. cbn [bind].
    unfold mk in *. inversion H; subst; clear H. rewrite Hn. rd_fin.
Qed.

Lemma del_descend_sim o stk n (t1 t2 : itree) p :
  del_descend ltb o stk n t1 = Ok p -> node_view n t1 = node_view n t2 -> del_descend ltb o stk n t2 = Ok p.
Proof.
  intros H Hv. unfold del_descend in *.
  destruct (find n t1) as [[i nx es|pi cs]|] eqn:Hf; try discriminate H.
  destruct (view_find _ _ _ _ _ _ Hv Hf) as [n2 [Hf2 Hs]]. destruct (tsim_node _ _ _ _ _ Hs) as [cs2 [-> Hp]]. rewrite Hf2.
  rewrite (ptrs_eq_fst _ _ _ _ Hp). exact H.
Qed.

Lemma ins_descend_sim o n (t1 t2 : itree) l fr tmx (o1 : out) :
  ins_descend ltb o n t1 l fr tmx = Ok o1 -> NoDup (ids t1) -> NoDup (ids t2) ->
  node_view n t1 = node_view n t2 ->
  exists o2, ins_descend ltb o n t2 l fr tmx = Ok o2 /\ osim [] t1 t2 o1 o2.
Proof.
  intros H N1 N2 Hv. unfold ins_descend in *.
  destruct (find n t1) as [[i nx es|pi cs]|] eqn:Hf; [| |discriminate H].
  - destruct (view_find _ _ _ _ _ _ Hv Hf) as [n2 [Hf2 Hs]]. rewrite (tsim_leaf _ _ _ _ _ _ Hs) in Hf2. rewrite Hf2.
    unfold mk in *. mirror H; inversion H; subst; clear H.
    all: try match goal with
         | U : upd _ (fun _ => Ok (ILeaf _ _ ?es')) _ = Ok ?t1' |- _ =>
           destruct (upd_leaf_pres K V _ _ _ _ _ es' _ t2 t1' N1 N2 Hf Hf2 U) as (t2' & U2 & P & _ & _ & R1 & R2);
           rewrite U2; cbn [bind]; rd_fin; exact P
         end.
    all: rd_fin.
  - destruct (view_find _ _ _ _ _ _ Hv Hf) as [n2 [Hf2 Hs]]. destruct (tsim_node _ _ _ _ _ Hs) as [cs2 [-> Hp]]. rewrite Hf2.
    rewrite (ptrs_eq_fst _ _ _ _ Hp).
    destruct (search_le ltb (key_of o) (map fst cs)) as [index|]; [cbn [bind] in *|discriminate H].
    destruct (get_nth index cs) as [[k c]|] eqn:Hg; [cbn [bind] in H|discriminate H].
    symmetry in Hp. destruct (ptrs_get_nth _ _ _ _ _ _ _ Hp Hg) as [c2 [Hg2 Hn]]. rewrite Hg2. cbn [bind].
    unfold mk in *. inversion H; subst; clear H. rewrite Hn. rd_fin.
Qed.

Lemma ins_descend_fresh o n (t : itree) l fr tmx (out : out) : ins_descend ltb o n t l fr tmx = Ok out -> ofresh out = fr.
Proof. intros H. unfold ins_descend, mk in H. crunch H; inversion H; reflexivity. Qed.

Lemma sea_descend_fresh o n (t : itree) l fr tmx (out : out) : sea_descend ltb o n t l fr tmx = Ok out -> ofresh out = fr.
Proof. intros H. unfold sea_descend, mk in H. crunch H; inversion H; reflexivity. Qed.

Lemma unwind_fresh order fuel : forall o stk small right (t : itree) l fr tmx (out : out),
  unwind order fuel o stk small right t l fr tmx = Ok out -> ofresh out = fr.
Proof.
  induction fuel as [|fuel IH]; intros o stk small right t l fr tmx out H; simpl in H; [discriminate|].
  destruct stk as [|f rest].
  - unfold mk in H. inversion H. reflexivity.
  - destruct (negb small); [eapply IH; eauto|].
    destruct (find (fp f) t) as [[i nx es|pi cs]|]; try discriminate H.
    destruct ((fidx f + 1 <? length cs) && match right with None => true | Some _ => false end).
    + unfold mk in H. inversion H. reflexivity.
    + destruct (irebalance order f t) as [[t' small']|]; [cbn [bind] in H|discriminate H]. eapply IH; eauto.
Qed.

End RDBlocks.

(* C4c_Own.v — the invariant [scan_lo_b] (NoGap.v) is preserved for the thread that steps.
   Part 1: [nogap_b] and [leftmost_b] through one-hole contexts.
   Part 2: the child a Search/Scan descent selects inherits [lo_or_left] (sea_child_lo).
   Part 3: which blocks produce a [SeaWantChild] pc (blk_sea).
   Part 4: scan_lo_own_step. *)
From Coq Require Import List Bool Lia PeanoNat Sorted Permutation.
From GB Require Import Model Spec Inv ListLemmas SearchProof TreeLemmas SearchScanProof Conc GI LockInv LockProof CInv CInv3
  CIDef EraseLemmas EraseOps SoloBase SoloSearch GIa1_Ctx LINa_Lists LINa_Ctx LINa_Abs LINa_Blocks PCb1_Bounds PCb1_Proof
  LinDef LINa_Prog LINa_Proof LINc_Proof PCc_Proof ASM_Proof
  C4_Lists C4_Geom C4_Blocks C4_Inv NoGap.
Import ListNotations.

Section Ctx.
Variables (K V : Type) (ltb : K -> K -> bool).
Hypothesis HS : SWO ltb.
Notation itree := (itree K V).
Notation cframe := (cframe K V).

(* ------------------------------------------------------------------------------------------------ *)
(* Part 1a: nogap_b, unfolded                                                                         *)
(* ------------------------------------------------------------------------------------------------ *)
Fixpoint nogap_list (lm first : bool) (cs : list (K * itree)) : bool :=
  match cs with
  | [] => true
  | (s, c) :: r =>
    (match first_sep c with Some s0 => (lm && first) || eqvb ltb s0 s | None => true end) &&
    nogap_b ltb (lm && first) c && nogap_list lm false r
  end.

Lemma nogap_node lm i (cs : list (K * itree)) : nogap_b ltb lm (INode i cs) = nogap_list lm true cs.
Proof.
  cbn [nogap_b].
  match goal with |- ?F true cs = _ => enough (H : forall first, F first cs = nogap_list lm first cs) by apply H end.
  induction cs as [|[s c] r IH]; intros first; cbn [nogap_list]; [reflexivity|].
  rewrite IH. reflexivity.
Qed.

Definition isnil {A} (l : list A) : bool := match l with [] => true | _ => false end.

Lemma nogap_list_app lm (pre : list (K * itree)) s c post : forall first,
  nogap_list lm first (pre ++ (s, c) :: post) = true ->
  let f := match pre with [] => first | _ => false end in
  (match first_sep c with Some s0 => (lm && f) || eqvb ltb s0 s | None => true end) = true /\
  nogap_b ltb (lm && f) c = true.
Proof.
  induction pre as [|[s1 c1] pre IH]; intros first H; cbn [app nogap_list] in H.
  - apply andb_true_iff in H. destruct H as [H _]. apply andb_true_iff in H. exact H.
  - apply andb_true_iff in H. destruct H as [_ H]. specialize (IH false H). cbn zeta in IH.
    destruct pre; exact IH.
Qed.

(* the context is on the leftmost path: no frame has a left sibling *)
Definition lmC (C : list cframe) : bool := forallb (fun cf => isnil (cpre cf)) C.

Lemma nogap_plug (C : list cframe) : forall (sub : itree) lm,
  nogap_b ltb lm (plug C sub) = true ->
  nogap_b ltb (lm && lmC C) sub = true /\
  match C with
  | [] => True
  | cf :: _ => match first_sep sub with Some s0 => (lm && lmC C) || eqvb ltb s0 (csep cf) = true | None => True end
  end.
Proof.
  induction C as [|cf C IH]; intros sub lm H.
  - cbn [plug lmC forallb] in *. rewrite andb_true_r. split; [exact H|exact I].
  - cbn [plug] in H. destruct (IH _ _ H) as [Hn _]. unfold plug1 in Hn. rewrite nogap_node in Hn.
    destruct (nogap_list_app _ _ _ _ _ _ Hn) as [H1 H2]. cbn zeta in H1, H2.
    assert (E : lm && lmC C && match cpre cf with [] => true | _ :: _ => false end = lm && lmC (cf :: C)).
    { change (lmC (cf :: C)) with (isnil (cpre cf) && lmC C). unfold isnil. clear.
      destruct lm, (lmC C), (cpre cf); reflexivity. }
    rewrite E in H1, H2. split; [exact H2|]. destruct (first_sep sub); [exact H1|exact I].
Qed.

(* ------------------------------------------------------------------------------------------------ *)
(* Part 1b: leftmost_b                                                                                *)
(* ------------------------------------------------------------------------------------------------ *)
Lemma leftmost_node x i (cs : list (K * itree)) :
  leftmost_b x (INode i cs) = (i =? x) || match cs with (_, c) :: _ => leftmost_b x c | [] => false end.
Proof. cbn [leftmost_b nid]. destruct cs as [|[s c] r]; reflexivity. Qed.

Lemma leftmost_self (t : itree) : leftmost_b (nid t) t = true.
Proof. destruct t; cbn [leftmost_b nid]; rewrite Nat.eqb_refl; reflexivity. Qed.

Lemma leftmost_in_ids x : forall t : itree, leftmost_b x t = true -> In x (ids t).
Proof.
  induction t as [i nx es|i cs IH] using (itree_ind' K V); intros H.
  - cbn [leftmost_b nid] in H. rewrite orb_false_r in H. apply Nat.eqb_eq in H. subst. simpl. auto.
  - rewrite leftmost_node in H. rewrite ids_node. apply orb_true_iff in H. destruct H as [H|H].
    + apply Nat.eqb_eq in H. subst. left. reflexivity.
    + right. destruct cs as [|[s c] r]; [discriminate H|]. rewrite ids_list_cons. apply in_or_app. left.
      inversion IH as [|? ? Hc _]; subst. apply Hc. exact H.
Qed.

Lemma leftmost_plug x (C : list cframe) : forall sub : itree,
  lmC C = true -> leftmost_b x sub = true -> leftmost_b x (plug C sub) = true.
Proof.
  induction C as [|cf C IH]; intros sub HC Hs; [exact Hs|].
  cbn [lmC forallb] in HC. apply andb_true_iff in HC. destruct HC as [Hp HC].
  cbn [plug]. apply IH; [exact HC|]. unfold plug1. destruct (cpre cf) as [|? ?]; [|discriminate Hp].
  cbn [app]. rewrite leftmost_node, Hs. apply orb_true_r.
Qed.

Lemma leftmost_plug_inv x fr (C : list cframe) : forall sub : itree,
  wfc C sub fr -> In x (ids sub) -> leftmost_b x (plug C sub) = true ->
  lmC C = true /\ leftmost_b x sub = true.
Proof.
  induction C as [|cf C IH]; intros sub Hw Hin H; [split; [reflexivity|exact H]|].
  cbn [plug] in H. pose proof (proj2 (wfc_push K V cf C sub fr) Hw) as Hw1.
  assert (Hin1 : In x (ids (plug1 cf sub))).
  { rewrite ids_plug1. right. apply in_or_app. right. apply in_or_app. left. exact Hin. }
  destruct (IH _ Hw1 Hin1 H) as [HC H1].
  pose proof (wfc_notin K V _ _ _ x Hw Hin) as Hni. rewrite ctx_ids_cons in Hni. unfold cf_ids in Hni.
  unfold plug1 in H1. rewrite leftmost_node in H1.
  destruct (cid cf =? x) eqn:E.
  { exfalso. apply Nat.eqb_eq in E. apply Hni. left. exact E. }
  cbn [orb] in H1. cbn [lmC forallb]. fold (lmC C). rewrite HC, andb_true_r.
  destruct (cpre cf) as [|[s0 c0] pre] eqn:Ep.
  - split; [reflexivity|exact H1].
  - exfalso. cbn [app] in H1. apply leftmost_in_ids in H1. apply Hni. right. apply in_or_app. left.
    apply in_or_app. left. rewrite ids_list_cons. apply in_or_app. left. exact H1.
Qed.

(* a node found on the leftmost path, in context *)
Lemma leftmost_ctx x fr (C : list cframe) (sub : itree) :
  wfc C sub fr -> nid sub = x -> leftmost_b x (plug C sub) = lmC C.
Proof.
  intros Hw Hn. destruct (lmC C) eqn:E.
  - apply leftmost_plug; [exact E|]. subst x. apply leftmost_self.
  - destruct (leftmost_b x (plug C sub)) eqn:E2; [|reflexivity].
    destruct (leftmost_plug_inv x fr C sub Hw ltac:(subst x; apply nid_in_ids) E2) as [H _]. congruence.
Qed.

(* nothing lies to the left of the leftmost path *)
Lemma lmC_Lents (C : list cframe) : lmC C = true -> Lents C = [].
Proof.
  induction C as [|cf C IH]; intros H; [reflexivity|].
  cbn [lmC forallb] in H. apply andb_true_iff in H. destruct H as [Hp HC].
  rewrite Lents_cons, (IH HC). destruct (cpre cf); [reflexivity|discriminate Hp].
Qed.

(* ------------------------------------------------------------------------------------------------ *)
(* Part 1c: in_lo in a context                                                                        *)
(* ------------------------------------------------------------------------------------------------ *)
Lemma in_lo_plug (C : list cframe) (sub : itree) fr k :
  wfc C sub fr -> in_lo ltb k (nid sub) (plug C sub) = ge_lo ltb k (fst (cbounds C)).
Proof.
  intros Hw. unfold in_lo. rewrite (bounds_plug_self K V C sub fr Hw). destruct (cbounds C); reflexivity.
Qed.

Lemma in_lo_below_lo k x (t : itree) : in_lo ltb k x t = true -> Lin.below_lo ltb k x t = false.
Proof.
  unfold in_lo, Lin.below_lo. destruct (bounds x t) as [[[l|] hi]|]; cbn [ge_lo]; try reflexivity.
  intros H. apply negb_true_iff in H. exact H.
Qed.

(* ------------------------------------------------------------------------------------------------ *)
(* Part 2: the child selected by the binary search                                                   *)
(* ------------------------------------------------------------------------------------------------ *)
Variable order : nat.

Lemma sea_child_lo (t : itree) fr p pi (cs : list (K * itree)) k idx s (ch : itree) :
  GIa1_Ctx.shape ltb order t -> NoDup (ids t) -> Forall (fun i => i < fr) (ids t) ->
  nogap_b ltb true t = true ->
  Conc.find p t = Some (INode pi cs) ->
  search_le ltb k (map fst cs) = Ok idx -> nth_error cs idx = Some (s, ch) ->
  below_hi ltb k p t = true -> lo_or_left ltb k p t = true ->
  lo_or_left ltb k (nid ch) t = true.
Proof.
  intros Hsh Hnd Hlt Hng Hf Hse Hn Hhi Hlo.
  destruct (find_decompose K V p t _ fr Hnd Hlt Hf) as (C & Et & Hw & Hp). cbn [nid] in Hp. subst pi.
  assert (Hhi' : lt_hi ltb k (snd (cbounds C)) = true).
  { unfold below_hi in Hhi. rewrite Et in Hhi. change p with (nid (INode p cs)) in Hhi at 1.
    rewrite (bounds_plug_self K V C _ fr Hw) in Hhi. destruct (cbounds C); exact Hhi. }
  rewrite Et in Hsh.
  destruct (child_sides K V ltb HS order C p cs k idx s ch fr Hsh Hw Hse Hn Hhi')
    as (pre & post & Ecs & Hw' & Hpl & _ & _ & Hpre & _ & _).
  unfold lo_or_left. rewrite Et, <- Hpl, (in_lo_plug _ _ fr k Hw'). cbn [cbounds fst ge_lo mkcf csep].
  destruct (ltb k s) eqn:Eks; [|reflexivity]. cbn [negb orb].
  specialize (Hpre eq_refl). subst pre. cbn [app] in Ecs.
  rewrite (leftmost_ctx (nid ch) fr _ ch Hw' eq_refl). cbn [lmC forallb mkcf cpre isnil]. fold (lmC C).
  destruct (lmC C) eqn:EC; [reflexivity|]. exfalso.
  (* p is not on the leftmost path: k is at or above p's lower bound, which nogap identifies with s *)
  unfold lo_or_left in Hlo. rewrite Et in Hlo.
  pose proof (in_lo_plug C (INode p cs) fr k Hw) as Xlo. cbn [nid] in Xlo.
  rewrite (leftmost_ctx p fr C (INode p cs) Hw eq_refl), EC, orb_false_r, Xlo in Hlo. clear Xlo.
  rewrite Et in Hng. destruct (nogap_plug C _ _ Hng) as [_ Hg].
  destruct C as [|cf C0]; [discriminate EC|].
  rewrite Ecs in Hg. cbn [first_sep] in Hg. rewrite EC in Hg. cbn [andb orb] in Hg.
  cbn [cbounds fst ge_lo] in Hlo. apply negb_true_iff in Hlo.
  unfold eqvb in Hg. apply andb_true_iff in Hg. destruct Hg as [_ Hg]. apply negb_true_iff in Hg.
  rewrite (lt_le_trans K ltb HS _ _ _ Eks Hg) in Hlo. discriminate Hlo.
Qed.

End Ctx.

Arguments lmC {K V} C.
Arguments nogap_list {K V} ltb lm first cs.

(* ------------------------------------------------------------------------------------------------ *)
(* Part 3: which blocks rest at a SeaWantChild pc                                                    *)
(* ------------------------------------------------------------------------------------------------ *)
Ltac c4c_top HB :=
  match type of HB with
  | bind ?e _ = Ok _ => let E := fresh "HE" in destruct e eqn:E; [cbn [bind] in HB; inversion HB; subst; clear HB | discriminate HB]
  end.

Ltac c4c_crunch H :=
  repeat (match type of H with
  | bind ?e _ = Ok _ => let E := fresh "E" in destruct e eqn:E; [cbn [bind] in H | discriminate H]
  | (let '(_, _) := ?p in _) = Ok _ => destruct p
  | (if ?c then _ else _) = Ok _ => let E := fresh "E" in destruct c eqn:E
  | match ?e with _ => _ end = Ok _ => let E := fresh "E" in destruct e eqn:E; try discriminate H
  end).

Section Blk.
Variables (K V : Type) (ltb : K -> K -> bool).
Notation itree := (itree K V).
Notation pc := (pc K V).
Notation cop := (cop K V).
Notation st := (st K V).
Notation out := (out K V).
Notation thread := (thread K V).

Definition is_seac (p : pc) : bool := match p with SeaWantChild _ _ _ => true | _ => false end.

Lemma ins_descend_nosea o n (t : itree) l fr tmx (out : out) :
  ins_descend ltb o n t l fr tmx = Ok out -> is_seac (opc out) = false.
Proof.
  intros H. unfold ins_descend, mk in H.
  c4c_crunch H; inversion H; subst; clear H; reflexivity.
Qed.

Lemma del_descend_nosea o stk n (t : itree) p :
  del_descend ltb o stk n t = Ok p -> is_seac p = false.
Proof. intros H. unfold del_descend in H. c4c_crunch H; inversion H; subst; clear H. destruct (0 <? a); reflexivity. Qed.

Lemma unwind_nosea order fuel : forall o stk small right (t : itree) l fr tmx (out : out),
  unwind order fuel o stk small right t l fr tmx = Ok out -> is_seac (opc out) = false.
Proof.
  induction fuel as [|fuel IH]; intros o stk small right t l fr tmx out H; simpl in H; [discriminate|].
  destruct stk as [|f rest]; [unfold mk in H; inversion H; reflexivity|].
  destruct (negb small); [eapply IH; eauto|].
  destruct (find (fp f) t) as [[?|pi cs]|]; try discriminate H.
  destruct ((fidx f + 1 <? length cs) && match right with None => true | Some _ => false end).
  - unfold mk in H. inversion H. reflexivity.
  - destruct (irebalance order f t) as [[t' small']|]; [cbn [bind] in H|discriminate H]. eapply IH; eauto.
Qed.

Lemma sea_descend_sea o n (t : itree) l fr tmx (out : out) :
  sea_descend ltb o n t l fr tmx = Ok out -> is_seac (opc out) = true ->
  exists c, opc out = SeaWantChild o n c /\ otr out = t /\ oev out = [].
Proof.
  intros H Hs. unfold sea_descend, mk in H.
  c4c_crunch H; inversion H; subst; clear H; cbn [opc is_seac] in Hs; try discriminate Hs.
  eexists. cbn [opc otr oev]. repeat split.
Qed.

Opaque unwind.

Theorem blk_sea order (s : st) me th tg (r : out) :
  SoloBase.blk ltb order s me th tg = Ok (Some r) -> is_seac (opc r) = true ->
  exists o n c, opc r = SeaWantChild o n c /\ otr r = tr s /\ oev r = [] /\
    (tpc th = WantRoot o n \/ exists p, tpc th = SeaWantChild o p n).
Proof.
  intros H Hs. unfold SoloBase.blk in H. cbv zeta in H.
  destruct (tpc th) as [ |o|o r0|o lft rgt|o p c index|o p c r0|o leaf mode index|o p c|o stk|o stk|o stk|leaf i n acc|leaf nxt n acc] eqn:Epc.
  - destruct (prog th) eqn:Epr; unfold mk in H; cbn [bind] in H; inversion H; subst; discriminate Hs.
  - unfold mk in H. cbn [bind] in H. inversion H; subst; discriminate Hs.
  - c4c_top H. destruct o as [k v|k f|k|k|k cnt].
    + exfalso. destruct (isplit order (fresh s) (tr s)) as [[l1 r1]|].
      * c4c_crunch HE; try (rewrite (ins_descend_nosea _ _ _ _ _ _ _ HE) in Hs; discriminate Hs).
        unfold mk in HE. inversion HE; subst; discriminate Hs.
      * rewrite (ins_descend_nosea _ _ _ _ _ _ _ HE) in Hs; discriminate Hs.
    + exfalso. destruct (isplit order (fresh s) (tr s)) as [[l1 r1]|].
      * c4c_crunch HE; try (rewrite (ins_descend_nosea _ _ _ _ _ _ _ HE) in Hs; discriminate Hs).
        unfold mk in HE. inversion HE; subst; discriminate Hs.
      * rewrite (ins_descend_nosea _ _ _ _ _ _ _ HE) in Hs; discriminate Hs.
    + exfalso. destruct (tr s) as [i nx es|i cs].
      * unfold mk in HE. c4c_crunch HE. inversion HE; subst; discriminate Hs.
      * unfold mk in HE. c4c_crunch HE. inversion HE. subst. cbn [opc] in Hs.
        rewrite (del_descend_nosea _ _ _ _ _ E) in Hs. discriminate Hs.
    + destruct (sea_descend_sea _ _ _ _ _ _ _ HE Hs) as (c & H1 & H2 & H3).
      exists (CSearch k), r0, c. auto.
    + destruct (sea_descend_sea _ _ _ _ _ _ _ HE Hs) as (c & H1 & H2 & H3).
      exists (CScan k cnt), r0, c. auto.
  - c4c_top H. rewrite (ins_descend_nosea _ _ _ _ _ _ _ HE) in Hs; discriminate Hs.
  - c4c_top H. unfold mk in HE. exfalso.
    c4c_crunch HE; try (rewrite (ins_descend_nosea _ _ _ _ _ _ _ HE) in Hs; discriminate Hs); inversion HE; subst; discriminate Hs.
  - c4c_top H. rewrite (ins_descend_nosea _ _ _ _ _ _ _ HE) in Hs; discriminate Hs.
  - c4c_top H. unfold mk in HE. exfalso. c4c_crunch HE; inversion HE; subst; discriminate Hs.
  - c4c_top H. destruct (sea_descend_sea _ _ _ _ _ _ _ HE Hs) as (c' & H1 & H2 & H3).
    exists o, c, c'. split; [exact H1|]. split; [exact H2|]. split; [exact H3|]. right. exists p. reflexivity.
  - c4c_top H. unfold mk in HE. exfalso. c4c_crunch HE; inversion HE; subst; discriminate Hs.
  - c4c_top H. unfold mk in HE. exfalso.
    c4c_crunch HE; try (rewrite (unwind_nosea _ _ _ _ _ _ _ _ _ _ _ HE) in Hs; discriminate Hs); inversion HE; subst;
      cbn [opc] in Hs;
      match goal with E : del_descend _ _ _ _ _ = Ok _ |- _ => rewrite (del_descend_nosea _ _ _ _ _ E) in Hs end; discriminate Hs.
  - c4c_top H. exfalso. c4c_crunch HE. rewrite (unwind_nosea _ _ _ _ _ _ _ _ _ _ _ HE) in Hs; discriminate Hs.
  - c4c_top H. unfold mk in HE. exfalso. c4c_crunch HE; inversion HE; subst; discriminate Hs.
  - c4c_top H. unfold mk in HE. exfalso. c4c_crunch HE; inversion HE; subst; discriminate Hs.
Qed.

Transparent unwind.

End Blk.

Arguments is_seac {K V} p.

(* ------------------------------------------------------------------------------------------------ *)
(* Part 4: the stepping thread                                                                       *)
(* ------------------------------------------------------------------------------------------------ *)
Section Own.
Variables (K V : Type) (ltb : K -> K -> bool).
Hypothesis HS : SWO ltb.
Variable order : nat.
Hypothesis Heven : Nat.even order = true.
Hypothesis H4 : 4 <= order.
Notation itree := (itree K V).
Notation pc := (pc K V).
Notation cop := (cop K V).
Notation st := (st K V).
Notation out := (out K V).
Notation thread := (thread K V).
Notation BigInv := (BigInv K V ltb order).

Lemma scan_lo_get (s : st) t th :
  scan_lo_b ltb s = true -> get_thread t (ths s) = Some th -> scan_lo_pc_b ltb (tr s) (prog th) (tpc th) = true.
Proof.
  intros H Hg. unfold scan_lo_b in H. rewrite forallb_forall in H.
  apply (H (t, th)). apply PCb1_Proof.get_thread_in. exact Hg.
Qed.

(* the node a Search/Scan descent is about to hold satisfies lo_or_left *)
Lemma sea_target_lo (s : st) me th o n :
  BigInv s -> nogap_st_b ltb s = true -> get_thread me (ths s) = Some th ->
  scan_lo_pc_b ltb (tr s) (prog th) (tpc th) = true ->
  (tpc th = WantRoot o n \/ exists p, tpc th = SeaWantChild o p n) ->
  lo_or_left ltb (key_of o) n (tr s) = true.
Proof.
  intros HB Hng Hg Hsl [Hpc|[p Hpc]].
  - pose proof (BI_pcok K V ltb order s me th HB Hg) as Hok. rewrite Hpc in Hok. cbn [pc_ok_b] in Hok.
    apply Nat.eqb_eq in Hok. subst n. unfold lo_or_left. rewrite leftmost_self. apply orb_true_r.
  - pose proof (BI_pcok3 K V ltb order s me th HB Hg) as Hok3. rewrite Hpc in Hok3. cbn [pc_ok3_b] in Hok3.
    rewrite Hpc in Hsl. cbn [scan_lo_pc_b] in Hsl.
    apply andb_true_iff in Hok3. destruct Hok3 as [Hhi Hok3].
    destruct (Conc.find p (tr s)) as [[?|pi cs]|] eqn:Hf; try discriminate Hok3.
    destruct (search_le ltb (key_of o) (map fst cs)) as [idx|] eqn:Hse; [|discriminate Hok3].
    destruct (nth_error cs idx) as [[sp ch]|] eqn:Hn; [|discriminate Hok3].
    apply Nat.eqb_eq in Hok3. subst n.
    pose proof (BI_GI K V ltb order s HB) as HG.
    apply (sea_child_lo K V ltb HS order (tr s) (fresh s) p pi cs (key_of o) idx sp ch); auto.
    + apply (GI_shape K V ltb order). exact HG.
    + exact (proj1 HG).
    + exact (proj1 (proj2 HG)).
Qed.

Theorem scan_lo_own_step : forall (s s' : st) me acq ev th',
  BigInv s -> nogap_st_b ltb s = true -> scan_lo_b ltb s = true ->
  cstep ltb order s me = Stepped s' acq ev -> get_thread me (ths s') = Some th' ->
  scan_lo_pc_b ltb (tr s') (prog th') (tpc th') = true.
Proof.
  intros s s' me acq ev th' HB Hng Hsl Hc Hg'.
  destruct (step_threads K V ltb order s s' me acq ev Hc) as (th & o & Hg & Htg & Hfree & Hblk & Es' & Hoth).
  destruct (commit_me K V s me th o Hg) as (th2 & Hg2 & Hpc2 & Hpr2). rewrite <- Es' in Hg2.
  rewrite Hg' in Hg2. inversion Hg2; subst th2. clear Hg2.
  assert (Htr : tr s' = otr o) by (subst s'; reflexivity).
  pose proof (scan_lo_get s me th Hsl Hg) as Hme.
  pose proof (BI_prog K V ltb order s me th HB Hg) as Hpp.
  rewrite Hpc2, Hpr2, Htr.
  destruct (blk_class K V ltb order s me th acq o Hblk)
    as [Hpl
       |o0 n k cnt j nx es i Hpc Ho Hf Hi Hopc Hotr Hoev
       |leaf i n' acc j nx es e1 Hpc Hf Hn Hopc Hotr Hoev
       |leaf i n' acc j x es Hpc Hf Hn Hopc Hotr Hoev
       |leaf i n' acc j es Hpc Hf Hn Hopc Hotr Hoev
       |leaf nxt n acc j nx e1 es' Hpc Hf Hopc Hotr Hoev].
  - (* neither a cursor pc nor a scan event *)
    destruct Hpl as [Hncur _].
    destruct (is_seac (opc o)) eqn:Es.
    + destruct (blk_sea K V ltb order s me th acq o Hblk Es) as (o1 & n & c & Hopc & Hotr & Hoev & Hfrom).
      rewrite Hopc, Hotr. cbn [scan_lo_pc_b]. eapply sea_target_lo; eauto.
    + destruct (opc o); try reflexivity; try discriminate Es; try discriminate Hncur.
  - (* NewScanner lands *)
    rewrite Hopc, Hotr, Hoev. cbn [returned existsb scan_lo_pc_b].
    assert (Hhd : hd_error (prog th) = Some (CScan k cnt)).
    { destruct Hpc as [Hpc|[p Hpc]]; rewrite Hpc in Hpp; simpl in Hpp; subst o0; [exact Hpp|exact (proj1 Hpp)]. }
    assert (Hlo : lo_or_left ltb (key_of o0) n (tr s) = true) by (eapply sea_target_lo; eauto).
    rewrite Ho in Hlo. cbn [key_of] in Hlo.
    destruct (prog th) as [|o1 pr]; [discriminate Hhd|]. cbn [hd_error] in Hhd. inversion Hhd; subst o1. exact Hlo.
  - rewrite Hopc. reflexivity.
  - (* leaf exhausted: wait for the next one; same leaf, same tree, same program *)
    rewrite Hopc, Hotr, Hoev. cbn [returned existsb]. rewrite Hpc in Hme.
    destruct acc; [exact Hme|reflexivity].
  - rewrite Hopc. reflexivity.
  - rewrite Hopc. reflexivity.
Qed.

End Own.

Print Assumptions scan_lo_own_step.

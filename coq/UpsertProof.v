(* UpsertProof.v — Insert/Update (upsert) on a tree satisfying the invariant: no panic, the callback
   receives lookup, the contents change as the ideal map's put, and the invariant is re-established. *)
From Coq Require Import List Bool Lia PeanoNat Sorted.
From GB Require Import Model Spec Inv ListLemmas SearchProof TreeLemmas.
Import ListNotations.

Section U.
Variables (K V : Type) (ltb : K -> K -> bool).
Hypothesis HS : SWO ltb.
Notation tree := (tree K V).
Notation SS := (StronglySorted (fun a b => ltb a b = true)).
Notation AK := (flat_map (fun c : K * tree => fst c :: allkeys (snd c))).
Notation EN := (flat_map (fun c : K * tree => entries (snd c))).
Notation irrefl := (irrefl K ltb HS).
Notation trans := (trans K ltb HS).
Notation asym := (asym K ltb HS).
Notation ltle := (ltle K ltb HS).
Notation lelt := (lelt K ltb HS).
Notation negtrans := (negtrans K ltb HS).
Notation asc_SS := (asc_SS K ltb HS).
Notation SS_app_iff := (SS_app_iff K ltb).
Notation SS_cons_iff := (SS_cons_iff K ltb).
Notation occ_kids := (occ_kids K V).
Notation keys_from := (keys_from K).
Notation fst_in_AK := (fst_in_AK K V).
Notation smallest_in := (smallest_in K V).

(* ---------- the leaf step ---------- *)
Lemma leaf_upsert_spec k f (es : list (K * V)) :
  SS (map fst es) -> leaf_upsert ltb k f es = Ok (put ltb k f es, lookup ltb k es).
Proof.
  intros Hs. destruct (list_snoc_cases es) as [->|(es0 & [kl vl] & Ees)]; [reflexivity|].
  unfold leaf_upsert. rewrite Ees at 1. rewrite (last_map_some fst). cbn [fst].
  destruct (ltb kl k) eqn:Elk.
  - assert (Hall : Forall (fun e : K * V => ltb (fst e) k = true) es).
    { subst es. rewrite map_app in Hs. apply SS_app_iff in Hs. destruct Hs as (_ & _ & Hs).
      apply Forall_app. split; [|repeat constructor; exact Elk].
      rewrite Forall_map in Hs. eapply Forall_impl; [|exact Hs]. intros e He. inversion He; subst.
      eapply trans; eauto. }
    rewrite (put_all_below K V ltb HS k f es Hall), (lookup_all_below K V ltb HS k es Hall). reflexivity.
  - assert (Hne : es <> []) by (subst es; destruct es0; discriminate).
    destruct (search_ge_split K ltb HS k es (proj2 (asc_SS _) Hs) Hne)
      as (index & pre & k0 & v & post & Hsearch & Hsplit & Hlen & Hpre & Hk0).
    rewrite Hsearch. cbn [bind]. subst index. rewrite Hsplit. rewrite get_nth_app. cbn [bind].
    assert (Hk0' : ltb k0 k = false).
    { destruct Hk0 as [H|[-> H]]; [exact H|]. rewrite Ees in Hsplit. apply app_inj_tail in Hsplit.
      destruct Hsplit as [_ E]. inversion E; subst. congruence. }
    rewrite (put_app_below K V ltb HS k f pre _ Hpre), (lookup_app_below K V ltb HS k pre _ Hpre).
    unfold eqvb. cbn [put lookup]. rewrite Hk0'. destruct (ltb k k0) eqn:Ekk0; cbn [negb andb].
    + rewrite ins_nth_app. reflexivity.
    + rewrite set_nth_app. reflexivity.
Qed.

(* ---------- the descent step at an internal node ---------- *)
Lemma descend k (cs : list (K * tree)) : ordered ltb (Node cs) -> cs <> [] ->
  exists index pre s c post,
    search_le ltb k (map fst cs) = Ok index /\ cs = pre ++ (s, c) :: post /\ length pre = index /\
    Forall (fun x => ltb x k = true) (AK pre) /\ Forall (fun x => ltb k x = true) (AK post) /\
    (0 < index -> ltb k s = false).
Proof.
  intros (Ha & Hso & _) Hne.
  destruct (search_le_split K ltb HS k cs Ha Hne) as (index & pre & s & c & post & Hs & -> & Hl & Hp & Hq & Hi).
  exists index, pre, s, c, post. repeat split; auto.
  - destruct pre as [|p0 pre']; [constructor|]. assert (H0 : 0 < index) by (subst; simpl; lia). specialize (Hi H0).
    eapply Forall_impl; [|eapply (pre_below K V ltb HS); [apply asc_SS; exact Ha|exact Hso]].
    intros x Hx. cbn beta in Hx. eapply ltle; [exact Hx|exact Hi].
  - apply (post_above K V ltb HS); auto. apply seps_ok_app_inv in Hso. destruct Hso as [_ Hso]. simpl in Hso. tauto.
Qed.

Lemma node_lookup k pre s (c : tree) post :
  Forall (fun x => ltb x k = true) (AK pre) -> Forall (fun x => ltb k x = true) (AK post) ->
  lookup ltb k (entries (Node (pre ++ (s, c) :: post))) = lookup ltb k (entries c).
Proof.
  intros Hpre Hpost. cbn [entries]. rewrite flat_map_app. cbn [flat_map snd].
  rewrite (lookup_app_below K V ltb HS) by (apply (EN_keys K V (fun x => ltb x k = true)); exact Hpre).
  rewrite (lookup_app_above K V ltb) by (apply (EN_keys K V (fun x => ltb k x = true)); exact Hpost).
  reflexivity.
Qed.

(* which separator the descent leaves at the chosen position *)
Lemma sep_choice k (index : nat) (pre : list (K * tree)) s (c : tree) sm :
  length pre = index -> (0 < index -> ltb k s = false) ->
  Forall (fun x => ltb x s = false) (allkeys c) -> ordered ltb c -> smallest c = Ok sm ->
  let sep' := (if index =? 0 then if ltb k sm then k else s else s) in
  (pre = [] \/ sep' = s) /\ (sep' = s \/ sep' = k) /\ ltb k sep' = false /\
  Forall (fun x => ltb x sep' = false) (allkeys c).
Proof.
  intros Hl Hi Hs Ho Hsm sep'. subst sep'.
  destruct (index =? 0) eqn:E.
  - apply Nat.eqb_eq in E. subst index. destruct pre; [|discriminate].
    destruct (ltb k sm) eqn:Ek.
    + repeat split; auto. apply irrefl.
      eapply Forall_impl; [|apply (smallest_le K V ltb HS); eauto]. intros x Hx. cbn beta in Hx.
      destruct (ltb x k) eqn:Exk; auto. rewrite (trans _ _ _ Exk Ek) in Hx. discriminate.
    + repeat split; auto. eapply negtrans; [exact Ek|]. rewrite Forall_forall in Hs. apply Hs. now apply smallest_in.
  - apply Nat.eqb_neq in E. repeat split; auto. apply Hi. lia.
Qed.

(* the same for the separator the (fixed) descent leaves: the first separator is only ever lowered to the key *)
Lemma sep_choice2 k (index : nat) (pre : list (K * tree)) s (c : tree) :
  length pre = index -> (0 < index -> ltb k s = false) ->
  Forall (fun x => ltb x s = false) (allkeys c) ->
  let sep' := (if index =? 0 then if ltb k s then k else s else s) in
  (pre = [] \/ sep' = s) /\ (sep' = s \/ sep' = k) /\ ltb k sep' = false /\
  Forall (fun x => ltb x sep' = false) (allkeys c).
Proof.
  intros Hl Hi Hs sep'. subst sep'.
  destruct (index =? 0) eqn:E.
  - apply Nat.eqb_eq in E. subst index. destruct pre; [|discriminate].
    destruct (ltb k s) eqn:Ek.
    + repeat split; auto. apply irrefl.
      eapply Forall_impl; [|exact Hs]. intros x Hx. cbn beta in Hx.
      destruct (ltb x k) eqn:Exk; auto. rewrite (trans _ _ _ Exk Ek) in Hx. discriminate.
    + repeat split; auto.
  - apply Nat.eqb_neq in E. repeat split; auto. apply Hi. lia.
Qed.

(* ---------- what one level of the descent establishes ---------- *)
Definition post_ok (order : nat) (k : K) (f : option V -> V) (d : nat) (n n' : tree) : Prop :=
  entries n' = put ltb k f (entries n) /\ ordered ltb n' /\ bal d n' /\ occ_kids order n' /\
  count n <= count n' <= S (count n) /\
  keys_from (allkeys n) k (allkeys n').

Lemma mid_below_post s (c : tree) post :
  seps_ok ltb ((s, c) :: post) -> SS (s :: map fst post) ->
  Forall (fun x => Forall (fun y => ltb x y = true) (map fst post)) (s :: allkeys c).
Proof.
  intros Ho Hs. apply SS_cons_iff in Hs. destruct Hs as [Hs Hlt]. constructor; [exact Hlt|].
  destruct post as [|[s' c'] post]; [apply Forall_forall; intros; constructor|].
  simpl in Ho. destruct Ho as (_ & H2 & _). simpl in Hs. apply SS_cons_iff in Hs. destruct Hs as [_ Hs'].
  eapply Forall_impl; [|exact H2]. intros x Hx. simpl. constructor; [exact Hx|].
  eapply Forall_impl; [|exact Hs']. intros y Hy. eapply trans; [exact Hx|exact Hy].
Qed.

Lemma rebuild order k f d pre s (c : tree) post s1 c1 mid' :
  let cs := pre ++ (s, c) :: post in
  let mid := (s1, c1) :: mid' in
  ordered ltb (Node cs) -> bal (S d) (Node cs) -> occ_kids order (Node cs) ->
  Forall (fun x => ltb x k = true) (AK pre) -> Forall (fun x => ltb k x = true) (AK post) ->
  (pre = [] \/ s1 = s) ->
  SS (map fst mid) -> seps_ok ltb mid -> all_kids (ordered ltb) mid -> all_kids (bal d) mid ->
  all_kids (fun c => occ order false c) mid ->
  EN mid = put ltb k f (entries c) ->
  keys_from (s :: allkeys c) k (AK mid) ->
  length mid' <= 1 ->
  post_ok order k f (S d) (Node cs) (Node (pre ++ mid ++ post)).
Proof.
  intros cs mid Ho Hb Hk Hpre Hpost Hs1 Hmss Hmso Hmo Hmb Hmk Hme Hmf Hlen.
  subst cs. cbn [ordered bal occ_kids] in Ho, Hb, Hk.
  destruct Ho as (Ha & Hso & Hao). destruct Hb as [_ Hb].
  apply asc_SS in Ha. rewrite map_app in Ha. cbn [map fst] in Ha.
  pose proof (seps_ok_app_inv K V ltb _ _ Hso) as [Hso1 Hso2].
  pose proof Ha as Ha'. apply SS_app_iff in Ha'. destruct Ha' as (Hsp & Hssp & _).
  assert (Hsop : seps_ok ltb post) by (simpl in Hso2; tauto).
  assert (Hssq : SS (map fst post)) by (apply SS_cons_iff in Hssp; tauto).
  pose proof (mid_below_post s c post Hso2 Hssp) as Hmbp.
  apply all_kids_app in Hao. destruct Hao as [Hao1 Hao2]. simpl in Hao2.
  apply all_kids_app in Hb. destruct Hb as [Hb1 Hb2]. simpl in Hb2.
  apply all_kids_app in Hk. destruct Hk as [Hk1 Hk2]. simpl in Hk2.
  assert (Hmp : Forall (fun x => Forall (fun y => ltb x y = true) (map fst post)) (AK mid)).
  { eapply (keys_from_forall K); [exact Hmf|exact Hmbp|].
    apply Forall_forall. intros y Hy. rewrite Forall_forall in Hpost. apply Hpost. now apply fst_in_AK. }
  unfold post_ok. split; [|split; [|split; [|split; [|split]]]].
  - cbn [entries]. rewrite !flat_map_app. cbn [flat_map snd].
    rewrite (put_app_below K V ltb HS) by (apply (EN_keys K V (fun x => ltb x k = true)); exact Hpre).
    rewrite (put_app_above K V ltb) by (apply (EN_keys K V (fun x => ltb k x = true)); exact Hpost).
    rewrite Hme. reflexivity.
  - cbn [ordered]. split; [|split].
    + apply asc_SS. rewrite !map_app. subst mid. cbn [map fst].
      apply (SS_replace K ltb HS) with (s := s); [exact Ha| |destruct Hs1 as [-> | ->]; auto].
      change (SS (map fst ((s1, c1) :: mid') ++ map fst post)).
      apply SS_app_iff. split; [exact Hmss|]. split; [exact Hssq|].
      apply Forall_forall. intros x Hx. rewrite Forall_forall in Hmp. apply Hmp. now apply fst_in_AK.
    + subst mid. apply (seps_ok_replace K V ltb) with (s := s) (c := c); [exact Hso| |exact Hs1].
      change (seps_ok ltb (((s1, c1) :: mid') ++ post)).
      apply (seps_ok_app_intro K V ltb); [exact Hmso|exact Hsop|].
      destruct post as [|[s' c'] post]; [exact I|].
      eapply Forall_impl; [|exact Hmp]. intros x Hx. inversion Hx; auto.
    + apply all_kids_app. split; [exact Hao1|]. apply all_kids_app. split; [exact Hmo|tauto].
  - cbn [bal]. split; [destruct pre; discriminate|].
    apply all_kids_app. split; [exact Hb1|]. apply all_kids_app. split; [exact Hmb|tauto].
  - cbn [occ_kids]. apply all_kids_app. split; [exact Hk1|]. apply all_kids_app. split; [exact Hmk|tauto].
  - cbn [count]. subst mid. rewrite !app_length. cbn [length]. rewrite ?app_length. cbn [length]. lia.
  - cbn [allkeys]. unfold keys_from. rewrite !flat_map_app. cbn [flat_map fst snd].
    apply Forall_app; split; [|apply Forall_app; split].
    + apply Forall_forall; intros x Hx; left; apply in_or_app; now left.
    + eapply Forall_impl; [|exact Hmf]. intros x [Hx| ->]; [left|now right]. apply in_or_app; right.
      destruct Hx as [->|Hx]; [now left|right; apply in_or_app; now left].
    + apply Forall_forall; intros x Hx; left. apply in_or_app; right. right. apply in_or_app; now right.
Qed.


Lemma ins_set_nth {A} (pre : list A) x y z post :
  ins_nth (length pre + 1) y (set_nth (length pre) x (pre ++ z :: post)) = pre ++ x :: y :: post.
Proof.
  rewrite set_nth_app. replace (pre ++ x :: post) with ((pre ++ [x]) ++ post) by (rewrite <- app_assoc; reflexivity).
  replace (length pre + 1) with (length (pre ++ [x])) by (rewrite app_length; simpl; lia).
  rewrite ins_nth_app. rewrite <- app_assoc. reflexivity.
Qed.

Lemma if_ok {A} (b : bool) (x y : A) : (if b then Ok x else Ok y) = Ok (if b then x else y).
Proof. destruct b; reflexivity. Qed.

Lemma in_app_l {A} (x : A) a b : In x a -> In x (a ++ b).
Proof. intros; apply in_or_app; now left. Qed.
Lemma in_app_r {A} (x : A) a b : In x b -> In x (a ++ b).
Proof. intros; apply in_or_app; now right. Qed.

(* ---------- the descent loop ---------- *)
Lemma ins_loop_spec order k f : 2 <= order -> Nat.even order = true ->
  forall fuel d (n : tree), d < fuel -> ordered ltb n -> bal d n -> occ_kids order n -> count n < order ->
  exists n', ins_loop ltb fuel order k f n = Ok (n', lookup ltb k (entries n)) /\ post_ok order k f d n n'.
Proof.
  intros H2 Hev. pose proof (div2_ge1 order H2) as Hh1. pose proof (even_div2 order Hev) as Hhh.
  induction fuel as [|fuel IH]; intros d n Hd Ho Hb Hk Hc; [lia|].
  destruct n as [es|cs].
  - (* leaf *)
    destruct d; [|simpl in Hb; tauto]. cbn [ins_loop]. cbn [ordered] in Ho. apply asc_SS in Ho.
    rewrite (leaf_upsert_spec k f es Ho). cbn [bind]. eexists; split; [reflexivity|].
    unfold post_ok. cbn [entries ordered bal occ_kids count allkeys].
    split; [reflexivity|]. split; [apply asc_SS, (put_SS K V ltb HS); exact Ho|]. split; [exact I|]. split; [exact I|].
    split; [apply put_length|apply put_keys].
  - (* internal node *)
    destruct d as [|d]; [simpl in Hb; tauto|].
    pose proof Hb as Hb'. cbn [bal] in Hb'. destruct Hb' as [Hne Hbk].
    destruct (descend k cs Ho Hne) as (index & pre & s & c & post & Hsearch & Hcs & Hlen & Hpre & Hpost & Hidx).
    subst cs index.
    pose proof Ho as Ho'. cbn [ordered] in Ho'. destruct Ho' as (Ha & Hso & Hao).
    apply all_kids_app in Hao. destruct Hao as [_ Hao]. simpl in Hao. destruct Hao as [Hoc _].
    apply all_kids_app in Hbk. destruct Hbk as [_ Hbk]. simpl in Hbk. destruct Hbk as [Hbc _].
    pose proof Hk as Hk'. cbn [occ_kids] in Hk'.
    apply all_kids_app in Hk'. destruct Hk' as [_ Hk']. simpl in Hk'. destruct Hk' as [Hkc _].
    apply occ_unfold in Hkc. destruct Hkc as (Hc1 & Hc2 & Hc3).
    assert (Hsc : Forall (fun x => ltb x s = false) (allkeys c)).
    { apply seps_ok_app_inv in Hso. destruct Hso as [_ Hso]. simpl in Hso. tauto. }
    destruct (smallest_ok K V c) as [sm Hsm]; [lia|].
    destruct (sep_choice2 k (length pre) pre s c eq_refl Hidx Hsc) as (F1 & F1' & F2 & F3).
    set (sep' := if length pre =? 0 then if ltb k s then k else s else s) in *.
    assert (Hsepin : In sep' (s :: allkeys c) \/ sep' = k) by (destruct F1' as [-> | ->]; [left; now left|now right]).
    rewrite (node_lookup k pre s c post Hpre Hpost).
    cbn [ins_loop]. rewrite Hsearch. cbn [bind]. rewrite get_nth_app. cbn [bind]. fold sep'.
    destruct (maybe_split order c) as [[l r]|] eqn:Hm.
    + (* the child is full: split first *)
      destruct (split_facts K V ltb HS order d c l r H2 Hev Hc1 Hm Hoc Hbc Hc3)
        as (Hen & Hak & Hol & Hor & Hbl & Hbr & Hkl & Hkr & Hcl & Hcr & Hsl & rs & Hrs & Hlrs).
      assert (Hsml : smallest l = Ok sm) by congruence.
      assert (Hsmlt : ltb sm rs = true). { rewrite Forall_forall in Hlrs. apply Hlrs. now apply smallest_in. }
      assert (Hsmin : In sm (allkeys c)). { now apply smallest_in. }
      assert (Hseprs : ltb sep' rs = true).
      { eapply lelt; [|exact Hsmlt]. rewrite Forall_forall in F3. now apply F3. }
      assert (Hrsle : Forall (fun x => ltb x rs = false) (allkeys r)) by (apply (smallest_le K V ltb HS); auto).
      assert (Hinl : forall x, In x (allkeys l) -> In x (allkeys c)) by (intros x Hx; rewrite Hak; now apply in_app_l).
      assert (Hinr : forall x, In x (allkeys r) -> In x (allkeys c)) by (intros x Hx; rewrite Hak; now apply in_app_r).
      assert (F3l : Forall (fun x => ltb x sep' = false) (allkeys l)).
      { rewrite Forall_forall in *. intros x Hx. apply F3. auto. }
      assert (Hoccl : occ order false l) by (apply occ_unfold; repeat split; auto; lia).
      assert (Hoccr : occ order false r) by (apply occ_unfold; repeat split; auto; lia).
      rewrite Hrs. cbn [bind]. destruct (ltb k rs) eqn:Ekrs.
      * (* into the left half *)
        destruct (IH d l) as (l' & Hrun & Hpl); auto; try lia.
        assert (Hlk : lookup ltb k (entries c) = lookup ltb k (entries l)).
        { rewrite Hen. apply (lookup_app_above K V ltb).
          apply (entries_keys K V (fun x => ltb k x = true)).
          eapply Forall_impl; [|exact Hrsle]. intros x Hx. cbn beta in Hx. eapply ltle; eauto. }
        rewrite Hrun, <- Hlk. cbn [bind]. rewrite ins_set_nth.
        eexists; split; [reflexivity|].
        destruct Hpl as (Pe & Po & Pb & Pk & Pc & Pf).
        apply (rebuild order k f d pre s c post sep' l' [(rs, r)]); auto.
        -- repeat constructor. exact Hseprs.
        -- simpl. repeat split; auto.
           ++ eapply (keys_from_forall K); [exact Pf|exact F3l|exact F2].
           ++ eapply (keys_from_forall K); [exact Pf|exact Hlrs|exact Ekrs].
        -- simpl. tauto.
        -- simpl. tauto.
        -- simpl. repeat split; auto. apply occ_unfold. repeat split; auto; lia.
        -- cbn [flat_map snd]. rewrite app_nil_r, Pe, Hen. symmetry. apply (put_app_above K V ltb).
           apply (entries_keys K V (fun x => ltb k x = true)).
           eapply Forall_impl; [|exact Hrsle]. intros x Hx. cbn beta in Hx. eapply ltle; eauto.
        -- unfold keys_from. cbn [flat_map fst snd]. rewrite app_nil_r.
           constructor; [exact Hsepin|]. apply Forall_app. split.
           ++ eapply Forall_impl; [|exact Pf]. intros x [Hx| ->]; [left; right; auto|now right].
           ++ constructor; [left; right; apply Hinr; now apply smallest_in|].
              apply Forall_forall. intros x Hx. left; right; auto.
      * (* into the right half *)
        destruct (IH d r) as (r' & Hrun & Hpr); auto; try lia.
        assert (Hlbelow : Forall (fun e : K * V => ltb (fst e) k = true) (entries l)).
        { apply (entries_keys K V (fun x => ltb x k = true)).
          eapply Forall_impl; [|exact Hlrs]. intros x Hx. cbn beta in Hx. eapply ltle; eauto. }
        assert (Hlk : lookup ltb k (entries c) = lookup ltb k (entries r)).
        { rewrite Hen. apply (lookup_app_below K V ltb HS). exact Hlbelow. }
        rewrite Hrun, <- Hlk. cbn [bind]. rewrite ins_set_nth.
        eexists; split; [reflexivity|].
        destruct Hpr as (Pe & Po & Pb & Pk & Pc & Pf).
        apply (rebuild order k f d pre s c post sep' l [(rs, r')]); auto.
        -- repeat constructor. exact Hseprs.
        -- simpl. repeat split; auto.
           eapply (keys_from_forall K); [exact Pf|exact Hrsle|exact Ekrs].
        -- simpl. tauto.
        -- simpl. tauto.
        -- simpl. repeat split; auto. apply occ_unfold. repeat split; auto; lia.
        -- cbn [flat_map snd]. rewrite app_nil_r, Pe, Hen. symmetry. apply (put_app_below K V ltb HS). exact Hlbelow.
        -- unfold keys_from. cbn [flat_map fst snd]. rewrite app_nil_r.
           constructor; [exact Hsepin|]. apply Forall_app. split.
           ++ apply Forall_forall. intros x Hx. left; right; auto.
           ++ constructor; [left; right; apply Hinr; now apply smallest_in|].
              eapply Forall_impl; [|exact Pf]. intros x [Hx| ->]; [left; right; auto|now right].
    + (* the child has room *)
      apply maybe_split_none in Hm.
      destruct (IH d c) as (c' & Hrun & Hpc); auto; try lia.
      rewrite Hrun. cbn [bind]. rewrite set_nth_app.
      eexists; split; [reflexivity|].
      destruct Hpc as (Pe & Po & Pb & Pk & Pc & Pf).
      apply (rebuild order k f d pre s c post sep' c' []); auto.
      * repeat constructor.
      * simpl. repeat split; auto. eapply (keys_from_forall K); [exact Pf|exact F3|exact F2].
      * simpl. tauto.
      * simpl. tauto.
      * simpl. repeat split; auto. apply occ_unfold. repeat split; auto; lia.
      * cbn [flat_map snd]. rewrite app_nil_r. exact Pe.
      * unfold keys_from. cbn [flat_map fst snd]. rewrite app_nil_r.
        constructor; [exact Hsepin|].
        eapply Forall_impl; [|exact Pf]. intros x [Hx| ->]; [left; right; auto|now right].
Qed.


(* ---------- the root ---------- *)
(* splitting a full root and descending is one descent step below a virtual parent [(ls, t)] *)
Lemma upsert_as_ins_loop order k f (t l r : tree) ls :
  maybe_split order t = Some (l, r) -> smallest t = Ok ls -> smallest l = Ok ls ->
  upsert ltb order k f t = ins_loop ltb (S (S (S (height t)))) order k f (Node [(ls, t)]).
Proof.
  intros Hm Hst Hsl. unfold upsert. rewrite Hm, Hsl. cbn [bind].
  remember (S (S (height t))) as fuel. cbn [ins_loop].
  assert (Hsearch : search_le ltb k (map fst [(ls, t)]) = Ok 0).
  { unfold search_le, search_ge. simpl. destruct (ltb k ls); reflexivity. }
  rewrite Hsearch. cbn [bind]. unfold get_nth at 1. cbn [nth_error bind Nat.eqb]. rewrite Hm. cbn [bind].
  destruct (smallest r) as [rs|]; [|reflexivity]. cbn [bind].
  destruct (ltb k rs).
  - destruct (ins_loop ltb fuel order k f l) as [[l' a]|]; reflexivity.
  - destruct (ins_loop ltb fuel order k f r) as [[r' a]|]; reflexivity.
Qed.

Lemma upsert_split_count order k f (t l r t' : tree) a :
  maybe_split order t = Some (l, r) -> upsert ltb order k f t = Ok (t', a) -> count t' = 2.
Proof.
  intros Hm. unfold upsert. rewrite Hm.
  destruct (smallest l) as [ls|]; [|discriminate]. cbn [bind].
  destruct (smallest r) as [rs|]; [|discriminate]. cbn [bind].
  destruct (ltb k rs).
  - destruct (ins_loop ltb _ order k f l) as [[l' a']|]; cbn [bind]; [|discriminate]. intros E; inversion E; reflexivity.
  - destruct (ins_loop ltb _ order k f r) as [[r' a']|]; cbn [bind]; [|discriminate]. intros E; inversion E; reflexivity.
Qed.

Theorem upsert_spec : forall (order : nat) (k : K) (f : option V -> V) (t : tree),
  2 <= order -> Nat.even order = true -> Inv ltb order t ->
  exists t', upsert ltb order k f t = Ok (t', lookup ltb k (entries t))
          /\ entries t' = put ltb k f (entries t)
          /\ Inv ltb order t'.
Proof.
  intros order k f t H2 Hev (Ho & Hb & Hocc). apply occ_unfold in Hocc. destruct Hocc as (Hc & Hrm & Hk).
  pose proof (div2_ge1 order H2) as Hh1. pose proof (even_div2 order Hev) as Hhh.
  destruct (maybe_split order t) as [[l r]|] eqn:Hm.
  - (* full root *)
    destruct (split_facts K V ltb HS order (height t) t l r H2 Hev Hc Hm Ho Hb Hk)
      as (Hen & Hak & Hol & Hor & Hbl & Hbr & Hkl & Hkr & Hcl & Hcr & Hsl & rs & Hrs & Hlrs).
    destruct (smallest_ok K V l) as [ls Hls]; [lia|].
    assert (Hst : smallest t = Ok ls) by congruence.
    pose proof (maybe_split_some_count K V order t l r Hm) as Hfull.
    destruct (ins_loop_spec order k f H2 Hev (S (S (S (height t)))) (S (height t)) (Node [(ls, t)]))
      as (t' & Hrun & Hpost); try lia.
    + cbn [ordered]. simpl. repeat split; auto. apply (smallest_le K V ltb HS); auto.
    + cbn [bal]. simpl. split; [discriminate|tauto].
    + cbn [occ_kids]. simpl. split; [|exact I]. apply occ_unfold. repeat split; auto; lia.
    + simpl. lia.
    + rewrite <- (upsert_as_ins_loop order k f t l r ls Hm Hst Hls) in Hrun.
      cbn [entries flat_map snd] in Hrun. rewrite app_nil_r in Hrun.
      exists t'. split; [exact Hrun|].
      destruct Hpost as (Pe & Po & Pb & Pk & Pc & Pf).
      cbn [entries flat_map snd] in Pe. rewrite app_nil_r in Pe.
      split; [exact Pe|].
      pose proof (upsert_split_count order k f t l r t' _ Hm Hrun) as Hc2.
      unfold Inv. split; [exact Po|]. split.
      * rewrite (bal_height K V _ _ Pb). exact Pb.
      * apply occ_unfold. split; [lia|]. split; [|exact Pk].
        destruct t'; [exact I|]. rewrite Hc2. unfold root_min. destruct (4 <=? order); lia.
  - (* root with room *)
    pose proof (maybe_split_none K V order t Hm) as Hlt.
    destruct (ins_loop_spec order k f H2 Hev (S (S (height t))) (height t) t) as (t' & Hrun & Hpost); auto; try lia.
    unfold upsert. rewrite Hm. exists t'. split; [exact Hrun|].
    destruct Hpost as (Pe & Po & Pb & Pk & Pc & Pf).
    split; [exact Pe|]. unfold Inv. split; [exact Po|]. split.
    + rewrite (bal_height K V _ _ Pb). exact Pb.
    + apply occ_unfold. split; [lia|]. split; [|exact Pk].
      destruct t' as [es'|cs']; [exact I|]. destruct t as [es|cs].
      * simpl in Hb, Pb. simpl in Pb. tauto.
      * lia.
Qed.

End U.

Print Assumptions upsert_spec.

(* O2_NoDel.v — the invariant "no client ever calls Delete": no thread's remaining program contains a CDelete.
   It is inductive with no other hypothesis (programs only shrink), and together with LINb_Prog.prog_ok (the
   operation recorded in a pc is the head of the program; also inductive with no hypothesis) it says that no thread
   is at a Delete pc. *)
From Coq Require Import List Bool PeanoNat Lia.
From GB Require Import Base Model Conc LockInv LockProof CInv SoloBase PCb1_Proof OCCc_Base LINb_Prog LINb_Proof.
Import ListNotations.

Section NoDel.
Variables (K V : Type) (ltb : K -> K -> bool).
Notation st := (st K V).
Notation thread := (thread K V).
Notation pc := (pc K V).

Definition no_delete_prog (p : list (cop K V)) : Prop := forall o, In o p -> forall k, o <> CDelete k.

Definition no_delete_progs (progs : list (tid * list (cop K V))) : Prop :=
  forall t p o, In (t, p) progs -> In o p -> forall k, o <> CDelete k.

Definition nodel (s : st) : Prop := Forall (fun e : tid * thread => no_delete_prog (prog (snd e))) (ths s).

(* every pc that belongs to a Delete, including the two "generic" pcs carrying a CDelete *)
Definition del_pc_b (p : pc) : bool :=
  match p with
  | WantT (CDelete _) | WantRoot (CDelete _) _ | DelWantLeft _ _ | DelWantChild _ _ | DelWantRight _ _ => true
  | _ => false
  end.

Lemma nodel_init progs : no_delete_progs progs -> nodel (init_st progs).
Proof.
  intros H. unfold nodel, init_st. cbn [ths]. apply Forall_forall. intros e He.
  apply in_map_iff in He. destruct He as [[t p] [<- Hin]]. cbn [snd prog fst]. intros o Ho k. exact (H t p o Hin Ho k).
Qed.

Lemma no_delete_tl p : no_delete_prog p -> no_delete_prog (tl p).
Proof. intros H o Ho k. apply H. destruct p; [destruct Ho|right; exact Ho]. Qed.

Lemma nodel_step order (s s' : st) me acq ev :
  nodel s -> cstep ltb order s me = Stepped s' acq ev -> nodel s'.
Proof.
  intros Hn Hs. destruct (cstep_out K V ltb order s s' me acq ev Hs) as (th & o & Hme & _ & _ & _ & ->).
  unfold nodel in *. rewrite Forall_forall in *. unfold commit. cbn [ths]. intros e He.
  unfold set_thread in He. apply in_map_iff in He. destruct He as [e0 [E Hin]].
  destruct (fst e0 =? me); [|subst e; apply Hn; exact Hin]. subst e. cbn [snd].
  pose proof (Hn (me, th) (PCb1_Proof.get_thread_in K V _ _ _ Hme)) as Hp. cbn [snd] in Hp.
  destruct (returned (oev o)); cbn [prog]; [apply no_delete_tl|]; exact Hp.
Qed.

Lemma nodel_get (s : st) t th : nodel s -> get_thread t (ths s) = Some th -> no_delete_prog (prog th).
Proof.
  intros Hn Hg. unfold nodel in Hn. rewrite Forall_forall in Hn.
  exact (Hn (t, th) (PCb1_Proof.get_thread_in K V _ _ _ Hg)).
Qed.

Lemma nd_head (p : list (cop K V)) k r : no_delete_prog p -> p = CDelete k :: r -> False.
Proof. intros H ->. apply (H (CDelete k) (or_introl eq_refl) k). reflexivity. Qed.

(* with prog_ok: nobody is at a Delete pc *)
Lemma nodel_pc (s : st) t th :
  nodel s -> LINb_Prog.prog_ok K V s -> get_thread t (ths s) = Some th -> del_pc_b (tpc th) = false.
Proof.
  intros Hn Hp Hg. pose proof (nodel_get s t th Hn Hg) as Hnd. pose proof (Hp t th Hg) as Hpp.
  unfold pc_prog_ok in Hpp.
  destruct (tpc th) as [ |o|o r|o lft rgt|o p c index|o p c r|o leaf mode index|o p c|o stk|o stk|o stk|leaf i n acc|leaf nxt n acc];
    try reflexivity.
  - destruct Hpp as [r E]. destruct o; try reflexivity. exfalso. exact (nd_head _ _ _ Hnd E).
  - destruct Hpp as [r0 E]. destruct o; try reflexivity. exfalso. exact (nd_head _ _ _ Hnd E).
  - destruct Hpp as (k & r & -> & E). exfalso. exact (nd_head _ _ _ Hnd E).
  - destruct Hpp as (k & r & -> & E). exfalso. exact (nd_head _ _ _ Hnd E).
  - destruct Hpp as (k & r & -> & E). exfalso. exact (nd_head _ _ _ Hnd E).
Qed.

Lemma del_pc_is_delete (p : pc) : del_pc_b p = false -> LINb_Proof.is_delete_pc K V p = false.
Proof. destruct p as [ |o|o r| | | | | | | | | | ]; try reflexivity; try discriminate. destruct o; try reflexivity; discriminate. Qed.

Lemma del_pc_exempt (p : pc) : del_pc_b p = false -> exempt_of p = None.
Proof. destruct p; try reflexivity; discriminate. Qed.

(* the combined invariant *)
Definition ND (s : st) : Prop := nodel s /\ LINb_Prog.prog_ok K V s.

Lemma ND_init progs : no_delete_progs progs -> ND (init_st progs).
Proof. intros H. split; [apply nodel_init; exact H|apply LINb_Prog.prog_ok_init]. Qed.

Lemma ND_step order (s s' : st) me acq ev : ND s -> cstep ltb order s me = Stepped s' acq ev -> ND s'.
Proof. intros [A B] Hs. split; [eapply nodel_step; eauto|eapply LINb_Prog.prog_ok_step; eauto]. Qed.

Lemma ND_exec order : forall sched (s : st), ND s -> ND (fst (exec ltb order s sched)).
Proof.
  induction sched as [|t r IH]; intros s H; simpl; [exact H|].
  destruct (cstep ltb order s t) as [ | | |s' acq ev|p] eqn:Hc; try exact H.
  specialize (IH s' (ND_step order _ _ _ _ _ H Hc)). destruct (exec ltb order s' r) as [s'' h]. exact IH.
Qed.

Theorem ND_reachable order progs sched : no_delete_progs progs -> ND (fst (exec ltb order (init_st progs) sched)).
Proof. intros H. apply ND_exec. apply ND_init. exact H. Qed.

Lemma ND_pc (s : st) t th : ND s -> get_thread t (ths s) = Some th -> del_pc_b (tpc th) = false.
Proof. intros [A B]. apply nodel_pc; assumption. Qed.

Lemma ND_exempt (s : st) : NoDup (map fst (ths s)) -> ND s -> exempt_node s = None.
Proof.
  intros Hnd H. rewrite exempt_node_exl. apply exl_none. intros u th Hin.
  apply del_pc_exempt. eapply ND_pc; [exact H|]. apply in_get_thread; eassumption.
Qed.

End NoDel.

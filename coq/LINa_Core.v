(* LINa_Core.v — the abstraction function commutes with every step of a thread that is not executing Delete
   (abs_step_ok of LinDef.v), and a Search that is decided "absent" stays so and answers "absent" (promise_own).
   Files: LINa_Lists.v, LINa_Ctx.v, LINa_Abs.v, LINa_Prog.v, LINa_Blocks.v, this one, LINa_Exact.v, LINa_Proof.v (summary), LINa_Cex.v. *)
From Coq Require Import List Bool Lia PeanoNat Permutation Sorted.
From GB Require Import Model Spec Inv ListLemmas SearchProof TreeLemmas Conc GI LockInv LockProof CInv CIDef CInv3
  Frame FrameInv FrameProof EraseLemmas EraseOps SoloBase SoloSearch Lin LinDef GIa1_Ctx GIa1_Local GIa1_Blocks
  LINa_Lists LINa_Ctx LINa_Abs LINa_Prog LINa_Blocks.
From GB Require GIa1_Proof.
Import ListNotations.

Section Main.
Variables (K V : Type) (ltb : K -> K -> bool).
Hypothesis HS : SWO ltb.
Notation itree := (itree K V).
Notation st := (st K V).
Notation out := (out K V).
Notation pc := (pc K V).
Notation cop := (cop K V).
Notation thread := (thread K V).
Notation cframe := (cframe K V).
Notation SS := (StronglySorted (fun a b => ltb a b = true)).
Notation shape := (shape ltb).
Notation FAR := (FAR ltb).
Notation absP := (absP ltb).
Notation ltle := (ltle K ltb HS).

Definition is_delete_pc (p : pc) : bool :=
  match p with
  | DelWantLeft _ _ | DelWantChild _ _ | DelWantRight _ _ => true
  | WantRoot (CDelete _) _ => true
  | _ => false end.

(* ------------------------------------------------------------------------------------------------ *)
(* a step, cut into pieces                                                                            *)
(* ------------------------------------------------------------------------------------------------ *)
Lemma cstep_inv order (s s' : st) me acq ev :
  cstep ltb order s me = Stepped s' acq ev ->
  exists th o, get_thread me (ths s) = Some th /\ target s (tpc th) = Ok acq /\ is_free s acq = true /\
    blk ltb order s me th acq = Ok (Some o) /\ s' = commit s me th o /\ ev = oev o.
Proof.
  intros H. rewrite cstep_eq in H.
  destruct (get_thread me (ths s)) as [th|] eqn:Hg; [|discriminate].
  destruct (target s (tpc th)) as [tg|] eqn:Htg; [|discriminate].
  destruct (is_free s tg) eqn:Hfree; [|discriminate]. cbn [negb] in H.
  destruct (blk ltb order s me th tg) as [[o|]|] eqn:Hb; try discriminate.
  inversion H; subst. exists th, o. repeat split; auto.
Qed.

Lemma acquired_free (s : st) x : is_free s (Some (Some x)) = true -> holder x (lk s) = None.
Proof. unfold is_free. destruct (holder x (lk s)); [discriminate|reflexivity]. Qed.

Lemma pc_ok3_me (s : st) me th :
  all_pc_ok3_b ltb s = true -> get_thread me (ths s) = Some th -> pc_ok3_b ltb (tr s) (tpc th) = true.
Proof.
  intros Hall Hg. destruct (GIa1_Proof.get_thread_in K V me _ th Hg) as (e & Hin & <-).
  unfold all_pc_ok3_b in Hall. rewrite forallb_forall in Hall. apply Hall. exact Hin.
Qed.

(* ------------------------------------------------------------------------------------------------ *)
(* lp_of in the situations that occur                                                                 *)
(* ------------------------------------------------------------------------------------------------ *)
Definition ins_pc_of (p : pc) : option cop :=
  match p with
  | WantRoot o _ | InsWantRootRight o _ _ | InsWantChild o _ _ _ | InsWantSplitRight o _ _ _ => Some o
  | _ => None end.

Lemma ins_pc_ph (p : pc) o : ins_pc_of p = Some o -> ph p = [].
Proof. destruct p; try discriminate; reflexivity. Qed.

Lemma lp_of_ins_none (p : pc) o rest tg t (p' : pc) t' :
  ins_pc_of p = Some o -> is_delete_pc p = false -> (forall o' a b, p' <> SeaWantChild o' a b) ->
  lp_of ltb p (o :: rest) tg [] t p' t' = None.
Proof.
  destruct p; try discriminate; intros E; inversion E; subst; intros Hd Hp'; destruct o; try discriminate Hd;
    cbn; try reflexivity; destruct p'; try reflexivity; exfalso; eapply Hp'; reflexivity.
Qed.

Lemma lp_of_ins_ret (p : pc) k v rest tg r t (p' : pc) t' :
  ins_pc_of p = Some (CInsert k v) ->
  lp_of ltb p (CInsert k v :: rest) tg [EReturn r] t p' t' = Some (OInsert k v).
Proof. destruct p; try discriminate; reflexivity. Qed.

Lemma lp_of_scan (p : pc) k n rest tg ev t (p' : pc) t' : lp_of ltb p (CScan k n :: rest) tg ev t p' t' = None.
Proof. destruct p; reflexivity. Qed.

(* ------------------------------------------------------------------------------------------------ *)
(* where a Search resting on p and waiting for c stands                                               *)
(* ------------------------------------------------------------------------------------------------ *)
Lemma sea_geom order (t : itree) fr (o : cop) p c :
  shape order t -> NoDup (ids t) -> Forall (fun i => i < fr) (ids t) ->
  pc_ok_b ltb order t (SeaWantChild o p c) = true -> pc_ok3_b ltb t (SeaWantChild o p c) = true ->
  exists (C' : list cframe) (nd : itree), t = plug C' nd /\ nid nd = c /\ wfc C' nd fr /\
    Forall (fun e => ltb (key_of o) (fst e) = true) (Rents C') /\
    (below_lo ltb (key_of o) p t = false -> Forall (fun e => ltb (fst e) (key_of o) = true) (Lents C')) /\
    (below_lo ltb (key_of o) c t = true -> Forall (fun e => ltb (key_of o) (fst e) = true) (ents nd)) /\
    (below_lo ltb (key_of o) p t = true -> below_lo ltb (key_of o) c t = true).
Proof.
  intros Hsh Hnd Hlt Hpc Hpc3. cbn [pc_ok_b] in Hpc. cbn [pc_ok3_b] in Hpc3.
  destruct (Conc.find p t) as [[?|pi cs]|] eqn:Hfp; try discriminate Hpc.
  apply andb_true_iff in Hpc3. destruct Hpc3 as [Hhi Hpc3].
  destruct (search_le ltb (key_of o) (map fst cs)) as [idx|] eqn:Hse; [|discriminate].
  destruct (nth_error cs idx) as [[s ch]|] eqn:Hn; [|discriminate]. apply Nat.eqb_eq in Hpc3.
  destruct (find_decompose K V p t _ fr Hnd Hlt Hfp) as (C & -> & Hw & Hp). cbn [nid] in Hp. subst pi.
  pose proof (bounds_plug_self K V C _ fr Hw) as Hbp. cbn [nid] in Hbp.
  unfold below_hi in Hhi. rewrite Hbp in Hhi.
  assert (Hhi' : lt_hi ltb (key_of o) (snd (cbounds C)) = true) by (destruct (cbounds C); exact Hhi).
  clear Hhi. rename Hhi' into Hhi.
  destruct (child_sides K V ltb HS order C p cs (key_of o) idx s ch fr Hsh Hw Hse Hn Hhi)
    as (pre & post & -> & Hw' & Hpl & HR & HL & Hpre & Hslo & Hch).
  pose proof (bounds_plug_self K V _ _ fr Hw') as Hbc. rewrite Hpl, Hpc3 in Hbc.
  exists (mkcf p pre s post :: C), ch. split; [symmetry; exact Hpl|]. split; [exact Hpc3|]. split; [exact Hw'|].
  split; [exact HR|].
  unfold below_lo. rewrite Hbp, Hbc. cbn [cbounds]. split; [|split].
  - intros Hlo. apply HL. destruct (cbounds C) as [[l|] hi]; cbn [fst ge_lo] in *; [rewrite Hlo|]; reflexivity.
  - intros Hks. eapply Forall_impl; [|exact Hch]. intros e He. exact (ltle _ _ _ Hks He).
  - destruct (cbounds C) as [[l|] hi]; cbn [fst ge_lo] in *; [|discriminate].
    intros Hkl. apply negb_true_iff in Hslo. exact (ltle _ _ _ Hkl Hslo).
Qed.

(* ------------------------------------------------------------------------------------------------ *)
(* one step of thread me                                                                              *)
(* ------------------------------------------------------------------------------------------------ *)
Section Step.
Variables (order : nat) (s : st) (me : tid) (PO : list K).
Hypothesis Hsh : shape order (tr s).
Hypothesis Hli : lock_inv s.
Hypothesis Hpcs : all_pc_ok_b ltb order s = true.
Hypothesis HPO : forall k', In k' PO -> exists t tht, t <> me /\ get_thread t (ths s) = Some tht /\ In k' (ph (tpc tht)).

(* the statement of abs_step_ok for this step, with the abstraction split *)
Definition GOAL (p : pc) (pr : list cop) (tg : option (option id)) (out : out) : Prop :=
  let A0 := absP PO (absP (ph p) (ents (tr s))) in
  let A1 := absP PO (absP (ph (opc out)) (ents (otr out))) in
  match lp_of ltb p pr tg (oev out) (tr s) (opc out) (otr out) with
  | None => A1 = A0
  | Some po => A1 = fst (step_spec ltb A0 po) /\ lp_result_ok po (snd (step_spec ltb A0 po)) (returns (oev out))
  end.

Lemma fresh_x x k : (holder x (lk s) = None \/ In (x, me) (lk s)) -> FAR x k (tr s) -> fresh_for ltb k PO.
Proof. intros Hx Hf. eapply (others_fresh K V ltb HS order s me x k PO); eauto. Qed.

Lemma ents_SS : SS (map fst (ents (tr s))).
Proof. apply (shape_entries_SS K V ltb HS order). exact Hsh. Qed.

(* nothing happens to the tree or to my placeholder *)
Lemma quiet_case p pr tg (out : out) :
  lp_of ltb p pr tg (oev out) (tr s) (opc out) (otr out) = None ->
  otr out = tr s -> ph (opc out) = ph p -> GOAL p pr tg out.
Proof. intros Hlp Ht Hp. unfold GOAL. rewrite Hlp, Ht, Hp. reflexivity. Qed.

Lemma ins_case p o rest x (out : out) :
  ins_pc_of p = Some o -> is_delete_pc p = false -> holder x (lk s) = None ->
  ins_eff K V ltb o x (tr s) out -> GOAL p (o :: rest) (Some (Some x)) out.
Proof.
  intros Hp Hd Hx Heff. unfold GOAL. rewrite (ins_pc_ph p o Hp), absP_nil.
  destruct Heff as [A1 A2 A3 A4|k v A1 A2 A3 A4 A5|v' A1 A2 A3 A4].
  - rewrite A3, (lp_of_ins_none p o rest _ _ _ _ Hp Hd A4), A2, absP_nil, A1. reflexivity.
  - subst o. rewrite A4, (lp_of_ins_ret p k v rest _ _ _ _ _ Hp), A3. cbn [ph step_spec fst snd]. rewrite absP_nil, A2.
    split; [|reflexivity].
    apply (absP_put K V ltb HS); [apply ents_SS|]. eapply fresh_x; eauto.
  - assert (Hns : forall o' a b, opc out <> SeaWantChild o' a b).
    { intros o' a b E. rewrite E in A3. discriminate A3. }
    rewrite A4, (lp_of_ins_none p o rest _ _ _ _ Hp Hd Hns), A3, A1.
    rewrite (placeholder_insert K V ltb HS _ _ _ ents_SS A2). reflexivity.
Qed.

Lemma cb_case o leaf mode index rest tg (out : out) k f a :
  In (leaf, me) (lk s) ->
  o = CUpdate k f -> opc out = Idle -> oev out = [EReturn (RArg K a)] -> FAR leaf k (tr s) ->
  SS (map fst (absP (ph (UpdCallback o leaf mode index)) (ents (tr s)))) ->
  ents (otr out) = put ltb k f (absP (ph (UpdCallback o leaf mode index)) (ents (tr s))) ->
  lookup ltb k (absP (ph (UpdCallback o leaf mode index)) (ents (tr s))) = a ->
  GOAL (UpdCallback o leaf mode index) (o :: rest) tg out.
Proof.
  intros Hheld -> Hpc Hev Hfar Hss Hput Hlook. unfold GOAL. rewrite Hev, Hpc. cbn [lp_of returns flat_map app]. change (ph (@Idle K V)) with (@nil K).
  rewrite absP_nil, Hput. cbn [step_spec fst snd lp_result_ok].
  assert (Hfr : fresh_for ltb k PO) by (eapply fresh_x; eauto).
  split.
  - apply (absP_put K V ltb HS); assumption.
  - rewrite (absP_lookup K V ltb HS) by assumption. rewrite Hlook. reflexivity.
Qed.

(* Search at node x = nid nd, in its context *)
Lemma sea_case p k rest x (C' : list cframe) (nd : itree) fr0 l fr tmx (out : out) :
  (exists r, p = WantRoot (CSearch k) r) \/ (exists pn c, p = SeaWantChild (CSearch k) pn c) ->
  let dec := match p with SeaWantChild _ pn _ => below_lo ltb k pn (tr s) | _ => false end in
  tr s = plug C' nd -> nid nd = x -> wfc C' nd fr0 ->
  Forall (fun e => ltb k (fst e) = true) (Rents C') ->
  (dec = false -> Forall (fun e => ltb (fst e) k = true) (Lents C')) ->
  (below_lo ltb k x (tr s) = true -> Forall (fun e => ltb k (fst e) = true) (ents nd)) ->
  holder x (lk s) = None ->
  sea_descend ltb (CSearch k) x (tr s) l fr tmx = Ok out ->
  GOAL p (CSearch k :: rest) (Some (Some x)) out.
Proof.
  intros Hp dec Ht Hx Hw HR HL Hin Hfree Hb.
  assert (Hphp : ph p = []) by (destruct Hp as [[r ->]|(pn & c & ->)]; reflexivity).
  assert (Hf : Conc.find x (tr s) = Some nd) by (rewrite Ht, <- Hx; apply (find_plug_self K V C' nd fr0 Hw)).
  pose proof ents_SS as HssE.
  destruct nd as [i nx es|i cs].
  - destruct (sea_descend_leaf K V ltb HS _ _ _ _ _ _ _ _ _ _ Hf Hb) as (Ho & Hopc & r & Hev & Hr).
    cbn [key_of] in Hr. cbn [nid] in Hx. subst i.
    assert (Hss : SS (map fst es)).
    { rewrite Ht in Hsh. apply (leaf_sorted_ctx K V ltb HS order C' x nx es Hsh). }
    specialize (Hr Hss).
    assert (Hlp : lp_of ltb p (CSearch k :: rest) (Some (Some x)) (oev out) (tr s) (opc out) (otr out)
                  = if dec then None else Some (OSearch k)).
    { rewrite Hev. destruct Hp as [[r0 ->]|(pn & c & ->)]; reflexivity. }
    unfold GOAL. rewrite Hlp, Hphp, Hopc, Ho. cbn [ph].
    destruct dec eqn:Edec; [reflexivity|].
    specialize (HL eq_refl). cbn [step_spec fst snd]. split; [reflexivity|].
    rewrite Hev. cbn [returns flat_map app lp_result_ok]. f_equal.
    rewrite absP_nil.
    assert (Hfar : FAR x k (tr s)) by (rewrite Ht; apply far_of_sides; assumption).
    rewrite (absP_lookup K V ltb HS) by (try assumption; eapply fresh_x; eauto).
    rewrite Ht, (ents_plug_leaf K V), (lookup_in_ctx K V ltb HS) by assumption. symmetry. exact Hr.
  - destruct (sea_descend_node K V ltb _ _ _ _ _ _ _ _ _ Hf Hb) as (Ho & Hev & idx & s0 & ch & _ & _ & Hopc).
    assert (Hlp : lp_of ltb p (CSearch k :: rest) (Some (Some x)) (oev out) (tr s) (opc out) (otr out)
                  = if dec then None else if below_lo ltb k x (tr s) then Some (OSearch k) else None).
    { rewrite Hev, Hopc, Ho. destruct Hp as [[r0 ->]|(pn & c & ->)]; reflexivity. }
    unfold GOAL. rewrite Hlp, Hphp, Hopc, Ho. cbn [ph].
    destruct dec eqn:Edec; [reflexivity|]. destruct (below_lo ltb k x (tr s)) eqn:Elo; [|reflexivity].
    specialize (HL eq_refl). specialize (Hin eq_refl). cbn [step_spec fst snd]. split; [reflexivity|].
    rewrite Hev. cbn [returns flat_map lp_result_ok]. f_equal. rewrite absP_nil.
    assert (Hents : ents (tr s) = Lents C' ++ ents (INode i cs) ++ Rents C').
    { rewrite Ht. apply (entries_plug K V). }
    assert (Hall : Forall (far ltb k) (ents (tr s))).
    { rewrite Hents. apply Forall_app. split; [|apply Forall_app; split].
      - eapply Forall_impl; [|exact HL]. intros e He. left. exact He.
      - eapply Forall_impl; [|exact Hin]. intros e He. right. exact He.
      - eapply Forall_impl; [|exact HR]. intros e He. right. exact He. }
    rewrite (absP_lookup K V ltb HS); [|assumption|].
    + rewrite Hents, (lookup_app_below K V ltb HS) by assumption.
      apply (LINa_Lists.lookup_above K V ltb). apply Forall_app. split; assumption.
    + eapply (fresh_x x); [left; exact Hfree|]. apply (FAR_all K V ltb). exact Hall.
Qed.

End Step.

(* ------------------------------------------------------------------------------------------------ *)
(* the theorems                                                                                       *)
(* ------------------------------------------------------------------------------------------------ *)
Lemma CIall_facts order (s : st) : CIall ltb order s ->
  shape order (tr s) /\ NoDup (ids (tr s)) /\ Forall (fun i => i < fresh s) (ids (tr s)) /\ lock_inv s /\
  all_pc_ok_b ltb order s = true /\ all_pc_ok3_b ltb s = true.
Proof.
  intros (((HGI & Hli2 & Hpcs) & _) & (Hids & _ & _) & _ & _ & Hpc3).
  split; [apply (GIa1_Proof.GI_shape K V ltb order s HGI)|]. destruct Hids as [H1 H2].
  split; [exact H1|]. split; [exact H2|]. split; [apply lock_inv2_lock_inv; exact Hli2|]. split; assumption.
Qed.

Lemma sea_quiet (o : cop) x (t : itree) l fr tmx (out : out) :
  sea_descend ltb o x t l fr tmx = Ok out -> otr out = t /\ ph (opc out) = [].
Proof.
  intros H. unfold sea_descend, mk in H. crunch H; inversion H; subst; clear H; split; reflexivity.
Qed.

Lemma hd_error_cons {A} (l : list A) x : hd_error l = Some x -> exists rest, l = x :: rest.
Proof. destruct l; simpl; intros H; inversion H; eauto. Qed.

Lemma held_in (s : st) me th x : lock_inv s -> get_thread me (ths s) = Some th -> In x (pc_nodes (tpc th)) -> In (x, me) (lk s).
Proof.
  intros (_ & _ & _ & _ & Hth) Hg Hin. destruct (Hth me th Hg) as (_ & Hperm & _).
  apply In_held_by. eapply Permutation_in; [apply Permutation_sym; exact Hperm|exact Hin].
Qed.

(* abs_step_ok for every step of a thread that is not executing Delete.  Beyond CIall: prog_ok (the pc records the
   call at the head of the program; proved inductive in LINa_Prog.v) and, for the store of an Update's callback into
   a placeholder slot, that the placeholder key is the Update's key itself (pc_key_exact). *)
Theorem abs_step_nondelete_x : forall order (s : st) me th,
  Nat.even order = true -> 4 <= order ->
  CIall ltb order s -> prog_ok s -> pc_key_exact (tr s) (tpc th) ->
  get_thread me (ths s) = Some th -> is_delete_pc (tpc th) = false ->
  abs_step_ok ltb order s me.
Proof.
  intros order s me th Hev H4 HCI Hprog Hex Hget Hnd s' acq ev Hstep.
  assert (H2 : 2 <= order) by lia.
  destruct (CIall_facts order s HCI) as (Hsh & Hnodup & Hlt & Hli & Hpcs & Hpc3s).
  destruct (cstep_inv order s s' me acq ev Hstep) as (th0 & o & Hget0 & Htg & Hfree & Hb & -> & ->).
  rewrite Hget in Hget0. inversion Hget0; subst th0; clear Hget0.
  rewrite (lp_step_commit K V ltb s me th acq o Hget).
  pose proof Hli as (_ & Hndt & _).
  destruct (abs_decomp K V ltb s me th Hndt Hget) as (PO & HA0 & HA1 & HPO).
  destruct (commit_ths K V s me th o) as (th' & Hths' & Htpc').
  rewrite HA0, (HA1 _ th' Hths'), Htpc'. change (tr (commit s me th o)) with (otr o).
  change (GOAL s PO (tpc th) (prog th) acq o).
  pose proof (GIa1_Proof.pc_ok_me K V ltb order s me th Hpcs Hget) as Hpc.
  pose proof (pc_ok3_me s me th Hpc3s Hget) as Hpc3.
  pose proof (prog_ok_get K V s me th Hprog Hget) as Hpp.
  unfold blk in Hb. destruct (tpc th) eqn:Epc; cbv beta iota zeta in Hb; cbn [pc_prog] in Hpp.
  - (* Idle *)
    destruct (prog th) eqn:Epr; [discriminate|]. apply GIa1_Proof.bind_some_inv in Hb. unfold mk in Hb.
    inversion Hb; subst o. apply quiet_case; reflexivity.
  - (* WantT *)
    apply GIa1_Proof.bind_some_inv in Hb. unfold mk in Hb. inversion Hb; subst o. apply quiet_case; reflexivity.
  - (* WantRoot *)
    destruct (hd_error_cons _ _ Hpp) as [rest Epr]. rewrite Epr.
    apply GIa1_Proof.bind_some_inv in Hb. simpl in Htg. inversion Htg; subst acq; clear Htg.
    apply acquired_free in Hfree. cbn [pc_ok_b] in Hpc. apply Nat.eqb_eq in Hpc.
    destruct o0 as [k v|k f|k|k|k n].
    + destruct (root_prep K V ltb HS order (CInsert k v) r (tr s) _ _ _ o H2 Hev Hsh Hnodup Hlt Hpc Hb)
        as [(t' & fr' & Hprep & Hd)|Heff]; [pose proof (ins_eff_prep K V ltb HS order _ _ _ _ _ _ _ _ Hprep Hd) as Heff|];
        eapply (ins_case order s me PO); eauto.
    + destruct (root_prep K V ltb HS order (CUpdate k f) r (tr s) _ _ _ o H2 Hev Hsh Hnodup Hlt Hpc Hb)
        as [(t' & fr' & Hprep & Hd)|Heff]; [pose proof (ins_eff_prep K V ltb HS order _ _ _ _ _ _ _ _ Hprep Hd) as Heff|];
        eapply (ins_case order s me PO); eauto.
    + discriminate Hnd.
    + eapply (sea_case order s me PO Hsh Hli Hpcs HPO (WantRoot (CSearch k) r) k rest r [] (tr s) (fresh s)).
      * left. eauto.
      * reflexivity.
      * symmetry. exact Hpc.
      * apply wfc_nil. auto.
      * constructor.
      * intros _. constructor.
      * intros Hlo. exfalso. unfold below_lo, bounds in Hlo. subst r. rewrite (GIa1_Ctx.bounds_self K V) in Hlo. discriminate.
      * exact Hfree.
      * exact Hb.
    + destruct (sea_quiet _ _ _ _ _ _ _ Hb) as [Ht Hp]. apply quiet_case; [apply lp_of_scan|exact Ht|exact Hp].
  - (* InsWantRootRight *)
    destruct (hd_error_cons _ _ Hpp) as [rest Epr]. rewrite Epr.
    apply GIa1_Proof.bind_some_inv in Hb. simpl in Htg. inversion Htg; subst acq; clear Htg.
    apply acquired_free in Hfree. cbn [pc_ok_b] in Hpc.
    destruct (Conc.find r (tr s)) as [rt|] eqn:Hf; [|discriminate Hpc].
    apply andb_true_iff in Hpc. destruct Hpc as [_ Hr].
    pose proof (prep_refl K V ltb order o0 r (tr s) rt (fresh s) Hsh Hnodup Hlt Hf Hr) as Hprep.
    pose proof (ins_eff_prep K V ltb HS order _ _ _ _ _ _ _ _ Hprep Hb) as Heff.
    eapply (ins_case order s me PO); eauto.
  - (* InsWantChild *)
    destruct (hd_error_cons _ _ Hpp) as [rest Epr]. rewrite Epr.
    apply GIa1_Proof.bind_some_inv in Hb. simpl in Htg. inversion Htg; subst acq; clear Htg.
    apply acquired_free in Hfree.
    destruct (ins_child_prep_n K V ltb HS order o0 p c index (tr s) _ _ _ o H2 Hev Hsh Hnodup Hlt Hpc Hb)
      as [(t' & fr' & Hprep & Hd)|Heff]; [pose proof (ins_eff_prep K V ltb HS order _ _ _ _ _ _ _ _ Hprep Hd) as Heff|];
      eapply (ins_case order s me PO); eauto.
  - (* InsWantSplitRight *)
    destruct (hd_error_cons _ _ Hpp) as [rest Epr]. rewrite Epr.
    apply GIa1_Proof.bind_some_inv in Hb. simpl in Htg. inversion Htg; subst acq; clear Htg.
    apply acquired_free in Hfree. cbn [pc_ok_b] in Hpc.
    destruct (Conc.find p (tr s)) as [[?|pi cs]|] eqn:Hfp; try discriminate Hpc.
    destruct (Conc.find r (tr s)) as [rt|] eqn:Hf; [|discriminate Hpc].
    apply andb_true_iff in Hpc. destruct Hpc as [Hpc _].
    apply andb_true_iff in Hpc. destruct Hpc as [Hpc _].
    apply andb_true_iff in Hpc. destruct Hpc as [_ Hr].
    pose proof (prep_refl K V ltb order o0 r (tr s) rt (fresh s) Hsh Hnodup Hlt Hf Hr) as Hprep.
    pose proof (ins_eff_prep K V ltb HS order _ _ _ _ _ _ _ _ Hprep Hb) as Heff.
    eapply (ins_case order s me PO); eauto.
  - (* UpdCallback *)
    destruct (hd_error_cons _ _ Hpp) as [rest Epr]. rewrite Epr.
    apply GIa1_Proof.bind_some_inv in Hb.
    assert (Hheld : In (leaf, me) (lk s)).
    { eapply held_in; eauto. rewrite Epc. simpl. now left. }
    destruct (upd_cb_eff K V ltb HS order o0 leaf mode index (tr s) _ _ _ o Hsh Hnodup Hlt Hpc Hex Hb)
      as (k & f & a & Ho & Hopc & Hoev & Hfar & Hss & Hput & Hlook).
    eapply (cb_case order s me PO); eauto.
  - (* SeaWantChild *)
    destruct Hpp as [Hpp Hsea]. destruct (hd_error_cons _ _ Hpp) as [rest Epr]. rewrite Epr.
    apply GIa1_Proof.bind_some_inv in Hb. simpl in Htg. inversion Htg; subst acq; clear Htg.
    apply acquired_free in Hfree.
    destruct o0 as [k v|k f|k|k|k n]; try discriminate Hsea.
    + destruct (sea_geom order (tr s) (fresh s) (CSearch k) p c Hsh Hnodup Hlt Hpc Hpc3)
        as (C' & nd & Ht & Hn & Hw & HR & HL & Hin & _). cbn [key_of] in *.
      eapply (sea_case order s me PO Hsh Hli Hpcs HPO (SeaWantChild (CSearch k) p c) k rest c C' nd (fresh s)); eauto.
    + destruct (sea_quiet _ _ _ _ _ _ _ Hb) as [Ht Hp]. apply quiet_case; [apply lp_of_scan|exact Ht|exact Hp].
  - discriminate Hnd.
  - discriminate Hnd.
  - discriminate Hnd.
  - (* CurRest *)
    destruct Hpp as (k & cnt & Hpp). destruct (hd_error_cons _ _ Hpp) as [rest Epr]. rewrite Epr.
    apply GIa1_Proof.bind_some_inv in Hb. unfold mk in Hb.
    crunch Hb; inversion Hb; subst; apply quiet_case; try apply lp_of_scan; reflexivity.
  - (* CurWantNext *)
    destruct Hpp as (k & cnt & Hpp). destruct (hd_error_cons _ _ Hpp) as [rest Epr]. rewrite Epr.
    apply GIa1_Proof.bind_some_inv in Hb. unfold mk in Hb.
    crunch Hb; inversion Hb; subst; apply quiet_case; try apply lp_of_scan; reflexivity.
Qed.

(* a Search decided "absent" (routed below the separator of the node it rests on) stays decided, and answers
   "absent" when it reaches the leaf.  No hypothesis beyond CIall. *)
Theorem promise_own : forall order (s s' : st) me acq ev,
  Nat.even order = true -> 4 <= order -> CIall ltb order s ->
  cstep ltb order s me = Stepped s' acq ev -> decided ltb s me = true ->
  match returns ev with Some r => r = RFound K None | None => decided ltb s' me = true end.
Proof.
  intros order s s' me acq ev Hev H4 HCI Hstep Hdec.
  destruct (CIall_facts order s HCI) as (Hsh & Hnodup & Hlt & Hli & Hpcs & Hpc3s).
  destruct (cstep_inv order s s' me acq ev Hstep) as (th & o & Hget & Htg & Hfree & Hb & -> & ->).
  unfold decided in Hdec. rewrite Hget in Hdec.
  destruct (tpc th) as [ |o0|o0 r0|o0 lft rgt|o0 p c index|o0 p c r0|o0 leaf mode index|o0 p c|o0 stk|o0 stk|o0 stk|leaf i n acc|leaf nxt n acc] eqn:Epc;
    try discriminate Hdec.
  destruct o0 as [k v|k f|k|k|k n]; try discriminate Hdec.
  pose proof (GIa1_Proof.pc_ok_me K V ltb order s me th Hpcs Hget) as Hpc.
  pose proof (pc_ok3_me s me th Hpc3s Hget) as Hpc3. rewrite Epc in Hpc, Hpc3.
  unfold blk in Hb. rewrite Epc in Hb. cbv beta iota zeta in Hb. apply GIa1_Proof.bind_some_inv in Hb.
  destruct (sea_geom order (tr s) (fresh s) (CSearch k) p c Hsh Hnodup Hlt Hpc Hpc3)
    as (C' & nd & Ht & Hn & Hw & _ & _ & Hin & Hprom). cbn [key_of] in *.
  specialize (Hprom Hdec). specialize (Hin Hprom).
  assert (Hf : Conc.find c (tr s) = Some nd) by (rewrite Ht, <- Hn; apply (find_plug_self K V C' nd _ Hw)).
  destruct nd as [i nx es|i cs].
  - destruct (sea_descend_leaf K V ltb HS _ _ _ _ _ _ _ _ _ _ Hf Hb) as (Ho & Hopc & r & Hoev & Hr).
    cbn [key_of] in Hr. rewrite Hoev. cbn [returns flat_map app]. f_equal.
    assert (Hss : SS (map fst es)).
    { rewrite Ht in Hsh. apply (leaf_sorted_ctx K V ltb HS order C' i nx es Hsh). }
    rewrite (Hr Hss). apply (LINa_Lists.lookup_above K V ltb). exact Hin.
  - destruct (sea_descend_node K V ltb _ _ _ _ _ _ _ _ _ Hf Hb) as (Ho & Hoev & idx & s0 & ch & _ & _ & Hopc).
    rewrite Hoev. cbn [returns flat_map].
    destruct (commit_ths K V s me th o) as (th' & Hths' & Htpc').
    unfold decided. rewrite Hths', (get_set_same K V me th th' _ Hget), Htpc', Hopc.
    change (tr (commit s me th o)) with (otr o). rewrite Ho. exact Hprom.
Qed.

End Main.

Print Assumptions abs_step_nondelete_x.
Print Assumptions promise_own.


(* OCCc_Total.v — the building blocks of Conc.v do not panic: binary searches (no ordering needed), leaf
   operations, upd, the descent blocks. *)
From Coq Require Import List Permutation Lia Bool PeanoNat.
From GB Require Import ListLemmas TreeLemmas Frame LockProof UpdLemmas FrameRel FrameInv FrameBlocks CInv OCCc_Base OCCc_Blocks.
Import ListNotations.

Section Total.
Variables (K V : Type) (ltb : K -> K -> bool).
Notation itree := (itree K V).
Notation pc := (pc K V).
Notation st := (st K V).
Notation out := (out K V).

(* ---- the binary searches: in range, enough fuel, whatever the order of the keys ---- *)
Lemma ge_loop_total key (vs : list K) : forall fuel lo hi,
  lo < hi -> hi < length vs -> hi - lo < fuel ->
  exists r, ge_loop ltb fuel key vs lo hi = Ok r /\ lo <= r <= hi.
Proof.
  induction fuel as [|f IH]; intros lo hi Hle Hhi Hf; [lia|].
  cbn [ge_loop].
  assert (Hm : Nat.div2 (lo + hi) = (lo + hi) / 2) by (rewrite Nat.div2_div; reflexivity).
  set (m := Nat.div2 (lo + hi)).
  assert (Hmlo : lo <= m) by (subst m; rewrite Hm; apply Nat.div_le_lower_bound; lia).
  assert (Hmlt : m < hi) by (subst m; rewrite Hm; apply Nat.div_lt_upper_bound; lia).
  clearbody m. clear Hm.
  destruct (nth_error vs m) as [v|] eqn:Hn.
  2:{ apply nth_error_None in Hn. lia. }
  destruct (ltb key v).
  - destruct (lo <? m) eqn:Hlm.
    + apply Nat.ltb_lt in Hlm. destruct (IH lo m) as [r [Hr Hb]]; try lia. exists r. split; [exact Hr|lia].
    + exists lo. split; [reflexivity|lia].
  - destruct (ltb v key).
    + destruct (m + 1 <? hi) eqn:Hmh.
      * apply Nat.ltb_lt in Hmh. destruct (IH (m + 1) hi) as [r [Hr Hb]]; try lia. exists r. split; [exact Hr|lia].
      * exists (m + 1). split; [reflexivity|lia].
    + exists m. split; [reflexivity|lia].
Qed.

Lemma search_ge_total key (vs : list K) : exists r, search_ge ltb key vs = Ok r /\ r <= length vs - 1.
Proof.
  unfold search_ge. destruct (length vs <=? 1) eqn:E.
  - exists 0. split; [reflexivity|lia].
  - apply Nat.leb_gt in E. destruct (ge_loop_total key vs (length vs) 0 (length vs - 1)) as [r [Hr Hb]]; try lia.
    exists r. split; [exact Hr|lia].
Qed.

Lemma search_le_total key (vs : list K) : exists r, search_le ltb key vs = Ok r /\ r <= length vs - 1.
Proof.
  unfold search_le. destruct (search_ge_total key vs) as [i [Hi Hb]]. rewrite Hi. cbn [bind].
  destruct (i =? length vs) eqn:E.
  - apply Nat.eqb_eq in E. eexists. split; [reflexivity|]. destruct (0 <? i); lia.
  - apply Nat.eqb_neq in E. destruct (nth_error vs i) as [v|] eqn:Hn.
    + destruct (ltb key v); eexists; (split; [reflexivity|]); destruct (0 <? i); lia.
    + apply nth_error_None in Hn. lia.
Qed.

Lemma get_nth_total {A} i (l : list A) : i < length l -> exists a, get_nth i l = Ok a.
Proof.
  intros H. unfold get_nth. destruct (nth_error l i) eqn:E; [eauto|]. apply nth_error_None in E. lia.
Qed.

(* ---- leaves ---- *)
Lemma last_some_nonempty (es : list (K * V)) x : last (map (fun e => Some (fst e)) es) None = Some x -> es <> [].
Proof. intros H E. subst. discriminate. Qed.

Lemma leaf_upsert_total k f (es : list (K * V)) : exists r, leaf_upsert ltb k f es = Ok r.
Proof.
  unfold leaf_upsert. destruct (last (map (fun e => Some (fst e)) es) None) as [lastk|] eqn:El; [|eauto].
  destruct (ltb lastk k); [eauto|].
  destruct (search_ge_total k (map fst es)) as [i [Hi Hb]]. rewrite Hi. cbn [bind].
  apply last_some_nonempty in El. rewrite map_length in Hb.
  destruct (get_nth_total i es) as [[k' v'] Hg]; [destruct es; [congruence|simpl in *; lia]|].
  rewrite Hg. cbn [bind]. destruct (eqvb ltb k k'); eauto.
Qed.

Lemma leaf_delete_total m k (es : list (K * V)) : exists r, leaf_delete ltb m k es = Ok r.
Proof.
  unfold leaf_delete. destruct (search_ge_total k (map fst es)) as [i [Hi _]]. rewrite Hi. cbn [bind].
  destruct (nth_error es i) as [[k' v']|]; [|eauto]. destruct (eqvb ltb k k'); eauto.
Qed.

Lemma leaf_scan_pos_total k (es : list (K * V)) : exists r, leaf_scan_pos ltb k es = Ok r.
Proof.
  unfold leaf_scan_pos. destruct (search_ge_total k (map fst es)) as [i [Hi _]]. rewrite Hi. cbn [bind]. eauto.
Qed.

Lemma ismallest_total (t : itree) : 1 <= icount t -> exists k, ismallest t = Ok k.
Proof. destruct t as [i nx [|[k v] es]|i [|[k c] cs]]; simpl; intros H; try lia; eauto. Qed.

(* ---- upd ---- *)
Lemma upd_total x (n' : itree) : forall t : itree, exists t', upd x (fun _ => Ok n') t = Ok t'.
Proof.
  induction t as [i nx es|i cs IH] using itree_ind2; rewrite upd_eq; simpl nid.
  - destruct (i =? x); eauto.
  - destruct (i =? x); [eauto|].
    assert (H : exists cs', updl x (fun _ => Ok n') cs = Ok cs').
    { induction cs as [|[s c] r IHr]; [exists []; reflexivity|].
      inversion IH as [|? ? H1 H2]; subst. destruct H1 as [c' Hc]. destruct (IHr H2) as [r' Hr].
      rewrite updl_cons. simpl in Hc. rewrite Hc. cbn [bind]. rewrite Hr. cbn [bind]. eauto. }
    destruct H as [cs' ->]. cbn [bind]. eauto.
Qed.

(* ---- the descent blocks ---- *)
Lemma ins_descend_total o n (t : itree) l fr tmx nd :
  find n t = Some nd -> (forall i cs, nd = INode i cs -> cs <> []) ->
  exists out, ins_descend ltb o n t l fr tmx = Ok out.
Proof.
  intros Hf Hne. unfold ins_descend, mk. rewrite Hf. destruct nd as [i nx es|i cs].
  - assert (Hgen : forall oo : cop K V, exists out : out,
      match last (map (fun e => Some (fst e)) es) None with
      | Some lastk =>
          if ltb lastk (key_of oo)
          then Ok {| otr := t; olk := l; ofresh := fr; otm := tmx; opc := UpdCallback oo n 0 0; oev := [] |}
          else
           index <- search_ge ltb (key_of oo) (map fst es);;
           ' (k', v') <- get_nth index es;;
           (if eqvb ltb (key_of oo) k'
            then Ok {| otr := t; olk := l; ofresh := fr; otm := tmx; opc := UpdCallback oo n 1 index; oev := [] |}
            else
             t' <- upd n (fun _ : itree => Ok (ILeaf i nx (ins_nth index (key_of oo, v') es))) t;;
             Ok {| otr := t'; olk := l; ofresh := fr; otm := tmx; opc := UpdCallback oo n 2 index; oev := [] |})
      | None => Ok {| otr := t; olk := l; ofresh := fr; otm := tmx; opc := UpdCallback oo n 0 0; oev := [] |}
      end = Ok out).
    { intros oo. destruct (last (map (fun e => Some (fst e)) es) None) as [lastk|] eqn:El; [|eauto].
      destruct (ltb lastk (key_of oo)); [eauto|].
      destruct (search_ge_total (key_of oo) (map fst es)) as [j [Hj Hb]]. rewrite Hj. cbn [bind].
      apply last_some_nonempty in El. rewrite map_length in Hb.
      destruct (get_nth_total j es) as [[k' v'] Hg]; [destruct es; [congruence|simpl in *; lia]|].
      rewrite Hg. cbn [bind]. destruct (eqvb ltb (key_of oo) k'); [eauto|].
      destruct (upd_total n (ILeaf i nx (ins_nth j (key_of oo, v') es)) t) as [t' ->]. cbn [bind]. eauto. }
    destruct o as [k v|k f|k|k|k cnt]; try apply Hgen.
    destruct (leaf_upsert_total k (fun _ => v) es) as [[es' a] ->]. cbn [bind].
    destruct (upd_total n (ILeaf i nx es') t) as [t' ->]. cbn [bind]. eauto.
  - destruct (search_le_total (key_of o) (map fst cs)) as [j [Hj Hb]]. rewrite Hj. cbn [bind]. rewrite map_length in Hb.
    specialize (Hne i cs eq_refl).
    destruct (get_nth_total j cs) as [[k c] Hg]; [destruct cs; [congruence|simpl in *; lia]|].
    rewrite Hg. cbn [bind]. eauto.
Qed.

Lemma sea_descend_total o n (t : itree) l fr tmx nd :
  find n t = Some nd -> (forall i cs, nd = INode i cs -> cs <> []) ->
  exists out, sea_descend ltb o n t l fr tmx = Ok out.
Proof.
  intros Hf Hne. unfold sea_descend, mk. rewrite Hf. destruct nd as [i nx es|i cs].
  - assert (Hgen : forall oo : cop K V, exists out : out,
      r <- match es with
           | [] => Ok None
           | _ :: _ => i0 <- search_ge ltb (key_of oo) (map fst es);;
                       ' (k', v) <- get_nth i0 es;; Ok (if eqvb ltb (key_of oo) k' then Some v else None)
           end;;
      Ok {| otr := t; olk := unlock n l; ofresh := fr; otm := tmx; opc := Idle; oev := [EReturn (RFound K r)] |} = Ok out).
    { intros oo. destruct es as [|e es']; [cbn [bind]; eauto|].
      destruct (search_ge_total (key_of oo) (map fst (e :: es'))) as [j [Hj Hb]]. rewrite Hj. cbn [bind].
      rewrite map_length in Hb.
      destruct (get_nth_total j (e :: es')) as [[k' v'] Hg]; [simpl in *; lia|]. rewrite Hg. cbn [bind]. eauto. }
    destruct o as [k v|k f|k|k|k cnt]; try apply Hgen.
    destruct (leaf_scan_pos_total k es) as [j ->]. cbn [bind]. eauto.
  - destruct (search_le_total (key_of o) (map fst cs)) as [j [Hj Hb]]. rewrite Hj. cbn [bind]. rewrite map_length in Hb.
    specialize (Hne i cs eq_refl).
    destruct (get_nth_total j cs) as [[k c] Hg]; [destruct cs; [congruence|simpl in *; lia]|].
    rewrite Hg. cbn [bind]. eauto.
Qed.

Lemma del_descend_total o stk n (t : itree) i cs :
  find n t = Some (INode i cs) -> exists p, del_descend ltb o stk n t = Ok p.
Proof.
  intros Hf. unfold del_descend. rewrite Hf.
  destruct (search_le_total (key_of o) (map fst cs)) as [j [Hj _]]. rewrite Hj. cbn [bind]. eauto.
Qed.

End Total.

(* OCCc_Proof.v — minimum occupancy (with the one exempt node of a Delete in flight) is preserved by every step
   of the concurrent model.  See the summary at the end of the file. *)
From Coq Require Import List Permutation Lia Bool PeanoNat.
From GB Require Import ListLemmas TreeLemmas Frame LockProof ConcProps UpdLemmas FrameRel FrameInv FrameBlocks FrameProof
  CInv CIDef OCCc_Base OCCc_Blocks OCCc_Reb.
Import ListNotations.

Ltac blk_inv HB := unfold mk in HB; cbn [bind] in HB; crunch HB; try (inversion HB; subst; clear HB).
Ltac blk_top HB :=
  match type of HB with
  | bind ?e _ = Ok _ => let E := fresh "HE" in destruct e eqn:E; [cbn [bind] in HB; inversion HB; subst; clear HB | discriminate HB]
  end.
Ltac in_solve := simpl; rewrite ?in_app_iff; simpl; tauto.
Ltac incl_solve :=
  let x := fresh "x" in let Hx := fresh "Hx" in
  intros x Hx; simpl in Hx; repeat (destruct Hx as [Hx|Hx]; [subst; in_solve|]); try contradiction.

Section OccProof.
Variables (K V : Type) (ltb : K -> K -> bool).
Notation itree := (itree K V).
Notation pc := (pc K V).
Notation st := (st K V).
Notation out := (out K V).
Notation thread := (thread K V).

(* ---- Insert/Update at an internal node ---- *)
Lemma nosplit_kids_occ order e b pi (cs : list (K * itree)) index sep sep' child :
  nth_error cs index = Some (sep, child) ->
  iocc_b order e b (INode pi cs) = true -> iocc_b order e b (INode pi (set_nth index (sep', child) cs)) = true.
Proof.
  intros Hn Ho. destruct (nth_error_split cs index Hn) as [A [B [E L]]]. subst cs index.
  rewrite set_nth_app. eapply iocc_node_grow; [| |exact Ho].
  - rewrite !app_length. simpl. lia.
  - apply iocc_kids in Ho. cbn [kids_occ] in Ho. rewrite ioccl_app, ioccl_cons in *. exact Ho.
Qed.

Lemma split_kids_occ order e b pi (cs : list (K * itree)) index sep sep' rs child lft rgt fr :
  Nat.even order = true -> nth_error cs index = Some (sep, child) -> isplit order fr child = Some (lft, rgt) ->
  iocc_b order e b (INode pi cs) = true ->
  iocc_b order e b (INode pi (ins_nth (index + 1) (rs, rgt) (set_nth index (sep', lft) cs))) = true.
Proof.
  intros Hev Hn Hs Ho. destruct (nth_error_split cs index Hn) as [A [B [E L]]]. subst cs index.
  rewrite set_nth_app, ins_nth_app1. eapply iocc_node_grow; [| |exact Ho].
  - rewrite !app_length. simpl. lia.
  - apply iocc_kids in Ho. cbn [kids_occ] in Ho. rewrite ioccl_app, ioccl_cons in Ho.
    apply andb_prop in Ho. destruct Ho as [HA Ho]. apply andb_prop in Ho. destruct Ho as [Hc HB]. simpl in Hc.
    destruct (isplit_occ K V order e fr child lft rgt false Hev Hs Hc) as [Hl Hr].
    rewrite ioccl_app, !ioccl_cons. simpl. rewrite HA, Hl, Hr, HB. reflexivity.
Qed.

(* ---- what a block must establish ---- *)
Definition occ_res (order : nat) (e : option id) (p : pc) (o : out) : Prop :=
  ((exempt_of p = None /\ exempt_of (opc o) = None /\ iocc_b order e true (otr o) = true) \/
   (pc_holds_T p = true /\ iocc_b order (exempt_of (opc o)) true (otr o) = true)) /\
  pc_small_b order (otr o) (opc o) = true.

Lemma occ_res_same order e p (o : out) :
  exempt_of p = None -> exempt_of (opc o) = None -> iocc_b order e true (otr o) = true ->
  (forall t', pc_small_b order t' (opc o) = true) -> occ_res order e p o.
Proof. intros H1 H2 H3 H4. split; [left; auto | apply H4]. Qed.

Lemma occ_res_ins order e p o n (t : itree) l fr tmx (out : out) :
  ins_descend ltb o n t l fr tmx = Ok out -> NoDup (ids t) -> iocc_b order e true t = true ->
  exempt_of p = None -> occ_res order e p out.
Proof.
  intros H Hnd Ho Hp. destruct (ins_descend_occ K V ltb order e o n t l fr tmx out H Hnd Ho) as (A & B & C).
  apply occ_res_same; auto.
Qed.

Lemma occ_res_sea order e p o n (t : itree) l fr tmx (out : out) :
  sea_descend ltb o n t l fr tmx = Ok out -> iocc_b order e true t = true ->
  exempt_of p = None -> occ_res order e p out.
Proof.
  intros H Ho Hp. destruct (sea_descend_occ K V ltb order o n t l fr tmx out H) as (A & B & C).
  apply occ_res_same; auto. rewrite A. exact Ho.
Qed.

Opaque unwind.

Lemma cstep_occ : forall order (s s' : st) me acq ev,
  Nat.even order = true -> 4 <= order ->
  ids_ok s -> lock_inv2 K V s -> frame_inv s ->
  occ_ok_b order s = true -> all_small_b order s = true ->
  cstep ltb order s me = Stepped s' acq ev ->
  exists th th' o,
    get_thread me (ths s) = Some th /\ tpc th' = opc o /\
    s' = {| tr := otr o; tm := otm o; lk := olk o; fresh := ofresh o; ths := set_thread me th' (ths s) |} /\
    occ_res order (exempt_node s) (tpc th) o.
Proof.
  intros order s s' me acq ev Hev Ho4 [Hnd Hlt] Hinv Hfi Hocc Hsmall H.
  unfold cstep in H.
  destruct (get_thread me (ths s)) as [th|] eqn:Hme; [|discriminate H].
  destruct (target s (tpc th)) as [tg|] eqn:Htg; [|discriminate H].
  destruct (negb (is_free s tg)) eqn:Hfree; [discriminate H|].
  apply negb_false_iff in Hfree.
  destruct Hinv as [Hinv Hwf2].
  pose proof Hinv as [Hndl [Hndt [Hlk [Htm Hth]]]].
  destruct (Hth me th Hme) as [Hwf [HP HT]].
  pose proof (Hwf2 me th Hme) as Hw2.
  pose proof (Hfi me th Hme) as Hok.
  assert (Hsm_me : pc_small_b order (tr s) (tpc th) = true).
  { unfold all_small_b in Hsmall. rewrite forallb_forall in Hsmall.
    apply (Hsmall (me, th)). apply get_thread_in. exact Hme. }
  assert (Hexh : pc_holds_T (tpc th) = true -> exempt_node s = exempt_of (tpc th)).
  { intros X. eapply exempt_node_holder; eauto. }
  unfold occ_ok_b in Hocc. set (e := exempt_node s) in *.
  assert (Hfr1 : ~ In (fresh s) (ids (tr s))).
  { intro X. rewrite Forall_forall in Hlt. apply Hlt in X. lia. }
  assert (Hfr2 : ~ In (S (fresh s)) (ids (tr s))).
  { intro X. rewrite Forall_forall in Hlt. apply Hlt in X. lia. }
  assert (Hheld : forall x, In x (pc_nodes (tpc th)) -> In x (held_by me (lk s))).
  { intros x Hx. eapply Permutation_in; [apply Permutation_sym; exact HP | exact Hx]. }
  cbv zeta in H.
  assert (Hgen : forall o : out,
            occ_res order e (tpc th) o ->
            Stepped {| tr := otr o; tm := otm o; lk := olk o; fresh := ofresh o;
                       ths := set_thread me (if existsb (fun e => match e with EReturn _ => true | _ => false end) (oev o)
                                then {| prog := tl (prog th); tpc := opc o; results := flat_map (fun e => match e with EReturn r => [r] | _ => [] end) (oev o) ++ results th |}
                                else {| prog := prog th; tpc := opc o; results := results th |}) (ths s) |} tg (oev o) = Stepped s' acq ev ->
            exists th0 th' o0,
              Some th = Some th0 /\ tpc th' = opc o0 /\
              s' = {| tr := otr o0; tm := otm o0; lk := olk o0; fresh := ofresh o0; ths := set_thread me th' (ths s) |} /\
              occ_res order e (tpc th0) o0).
  { intros o Hb Hs. inversion Hs; subst. do 3 eexists. split; [reflexivity|].
    split; [|split; [reflexivity|exact Hb]].
    destruct (existsb _ (oev o)); reflexivity. }
  destruct (tpc th) as [ |o|o r|o lft rgt|o p c index|o p c r|o leaf mode index|o p c|o stk|o stk|o stk|leaf i n acc|leaf nxt n acc] eqn:Hpc.
  all: cbv beta iota in H; simpl in Htg; crunch Htg; inversion Htg; subst tg; clear Htg.
  all: match type of H with match ?B with _ => _ end = _ => destruct B as [[o1|]|] eqn:HB; try discriminate H end.
  all: match goal with o : out |- _ => apply (Hgen o); [clear H Hgen | exact H] end.
  all: simpl in Hw2, Hok, Hheld.
  - (* Idle *) blk_inv HB. apply occ_res_same; auto.
  - (* WantT *) blk_inv HB. apply occ_res_same; auto.
  - (* WantRoot *)
    subst r.
    blk_top HB.
    assert (Hins : forall o', (o' = o) -> match o' with CInsert _ _ | CUpdate _ _ => True | _ => False end ->
              match isplit order (fresh s) (tr s) with
              | Some (lft, rgt) =>
                ls <- ismallest lft ;; rs <- ismallest rgt ;;
                (if ltb (key_of o) rs
                 then ins_descend ltb o (nid (tr s)) (INode (S (fresh s)) [(if ltb (key_of o) ls then key_of o else ls, lft); (rs, rgt)])
                        ((nid (tr s), me) :: lk s) (S (S (fresh s))) None
                 else mk (INode (S (fresh s)) [(if ltb (key_of o) ls then key_of o else ls, lft); (rs, rgt)])
                        ((nid (tr s), me) :: lk s) (S (S (fresh s))) (tm s) (InsWantRootRight o (nid (tr s)) (fresh s)) [])
              | None => ins_descend ltb o (nid (tr s)) (tr s) ((nid (tr s), me) :: lk s) (fresh s) None
              end = Ok o1 -> occ_res order e (WantRoot o (nid (tr s))) o1).
    { intros o' _ _ HI. clear HE.
      destruct (isplit order (fresh s) (tr s)) as [[lft rgt]|] eqn:Hsp.
      - destruct (ismallest lft) as [ls|] eqn:Els; [cbn [bind] in HI|discriminate HI].
        destruct (ismallest rgt) as [rs|] eqn:Ers; [cbn [bind] in HI|discriminate HI].
        destruct (root_split_rel K V ltb False order [nid (tr s); fresh s; S (fresh s)] (fresh s)
                    (if ltb (key_of o) ls then key_of o else ls) rs lft rgt (tr s) Hnd Hsp Hfr1 Hfr2) as (A1 & A2 & A3);
          try in_solve.
        destruct (isplit_occ K V order e (fresh s) (tr s) lft rgt true Hev Hsp Hocc) as [Hl Hr].
        assert (Hnew : iocc_b order e true (INode (S (fresh s)) [(if ltb (key_of o) ls then key_of o else ls, lft); (rs, rgt)]) = true).
        { rewrite iocc_node. apply andb_true_intro. split.
          - unfold top_ok. simpl. apply orb_true_iff. right. apply Nat.leb_le. apply root_min_le2.
          - rewrite !ioccl_cons. simpl. rewrite Hl, Hr. reflexivity. }
        destruct (ltb (key_of o) rs).
        + eapply occ_res_ins; eauto.
        + unfold mk in HI. inversion HI; subst; clear HI. apply occ_res_same; auto.
      - eapply occ_res_ins; eauto. }
    destruct o as [k v|k f|k|k|k cnt].
    + apply (Hins _ eq_refl I HE).
    + apply (Hins _ eq_refl I HE).
    + (* CDelete *)
      clear Hins. destruct (tr s) as [i nx es|i cs] eqn:Et.
      * blk_inv HE. apply occ_res_same; auto; cbn [otr]; rewrite iocc_leaf; unfold top_ok; simpl; apply orb_true_r.
      * blk_inv HE. destruct (del_descend_occ K V ltb order _ _ _ _ _ E) as [D1 D2].
        apply occ_res_same; auto.
    + eapply occ_res_sea; eauto.
    + eapply occ_res_sea; eauto.
  - (* InsWantRootRight *)
    blk_top HB. eapply occ_res_ins; eauto.
  - (* InsWantChild *)
    blk_top HB.
    destruct Hok as [Hplt Hca].
    destruct (find p (tr s)) as [[?|pi cs]|] eqn:Hfp; try discriminate HE.
    destruct (find c (tr s)) as [child|] eqn:Hfc; [|discriminate HE].
    destruct (get_nth index cs) as [[sep ch0]|] eqn:Hg; [cbn [bind] in HE|discriminate HE].
    apply get_nth_Ok in Hg.
    assert (Hch : child = ch0).
    { pose proof (child_at_nth K V _ _ _ _ _ _ _ _ Hca Hfp Hg) as Hn.
      pose proof (find_child K V p pi cs sep ch0 (tr s) Hnd Hfp (nth_error_In _ _ Hg)) as Hf2.
      rewrite Hn in Hf2. congruence. }
    subst ch0.
    remember (if index =? 0 then (if ltb (key_of o) sep then key_of o else sep) else sep) as sep' eqn:Hsep.
    assert (Hnc : nid child = c) by (eapply find_nid; eauto).
    destruct (isplit order (fresh s) child) as [[lft rgt]|] eqn:Hsp.
    + destruct (ismallest rgt) as [rs|] eqn:Ers; [cbn [bind] in HE|discriminate HE].
      match type of HE with bind ?e _ = _ => destruct e as [t'|] eqn:Hu; [cbn [bind] in HE|discriminate HE] end.
      destruct (ins_split_rel K V ltb False order [p; c; fresh s] p pi cs index sep sep' rs child lft rgt
                  (fresh s) (tr s) t' Hnd Hfp Hg Hsp Hu Hfr1) as (A1 & A2 & A3 & A4); try in_solve.
      { rewrite Hnc. in_solve. }
      assert (Hnew : iocc_b order e true t' = true).
      { eapply iocc_upd_root with (e := e) (n := INode pi cs)
          (n' := INode pi (ins_nth (index + 1) (rs, rgt) (set_nth index (sep', lft) cs)));
          [reflexivity | exact Hnd | exact Hfp | exact Hu | left; reflexivity | | | exact Hocc];
          intros _; eapply split_kids_occ; eauto. }
      destruct (ltb (key_of o) rs).
      * eapply occ_res_ins; eauto.
      * unfold mk in HE. inversion HE; subst; clear HE. apply occ_res_same; auto.
    + match type of HE with bind ?e _ = _ => destruct e as [t'|] eqn:Hu; [cbn [bind] in HE|discriminate HE] end.
      destruct (ins_nosplit_rel K V False [p] p pi cs index sep sep' child (tr s) t' Hnd Hfp Hg Hu)
        as (A1 & A2 & A3 & A4); [in_solve|].
      assert (Hnew : iocc_b order e true t' = true).
      { eapply iocc_upd_root with (e := e) (n := INode pi cs) (n' := INode pi (set_nth index (sep', child) cs));
          [reflexivity | exact Hnd | exact Hfp | exact Hu | left; reflexivity | | | exact Hocc];
          intros _; eapply nosplit_kids_occ; eauto. }
      eapply occ_res_ins; eauto.
  - (* InsWantSplitRight *)
    blk_top HB. eapply occ_res_ins; eauto.
  - (* UpdCallback *)
    blk_top HB.
    destruct o as [| k f | | |]; try discriminate HE.
    destruct (find leaf (tr s)) as [[i nx es|?]|] eqn:Hfl; try discriminate HE.
    assert (Hfin : forall es' t' l' ev', upd leaf (fun _ => Ok (ILeaf i nx es')) (tr s) = Ok t' -> length es <= length es' ->
              occ_res order e (UpdCallback (CUpdate k f) leaf mode index)
                {| otr := t'; olk := l'; ofresh := fresh s; otm := tm s; opc := Idle; oev := ev' |}).
    { intros es' t' l' ev' Hu Hlen. apply occ_res_same; auto. cbn [otr]. eapply leaf_upd_occ; eauto. }
    blk_inv HE; eapply Hfin; try eassumption.
    + rewrite app_length. simpl. lia.
    + match goal with G : get_nth _ _ = Ok _ |- _ => apply get_nth_Ok in G end. erewrite set_nth_length; eauto.
    + match goal with G : get_nth _ _ = Ok _ |- _ => apply get_nth_Ok in G end. erewrite set_nth_length; eauto.
  - (* SeaWantChild *)
    blk_top HB. eapply occ_res_sea; eauto.
  - (* DelWantLeft *)
    blk_inv HB. apply occ_res_same; auto.
  - (* DelWantChild *)
    blk_top HB. destruct Hok as (O1 & O2 & O3 & O4). destruct Hw2 as [Hb Hfc].
    assert (Hex : e = None) by (apply (Hexh eq_refl)).
    assert (Hb1 : bottom_ok (nid (tr s)) (set_fc f a :: l)) by (eapply bottom_ok_replace; eauto).
    assert (Hs1 : stack_ok (tr s) (fresh s) (set_fc f a :: l)).
    { simpl. split; [exact O1|]. split; [exact O2|]. split; [|split; [exact O3|exact O4]].
      exists a. split; [reflexivity|]. apply child_id_at. exact E0. }
    assert (Hperm : Permutation (a :: held_by me (lk s)) (nid (tr s) :: flat_map fkids (set_fc f a :: l))).
    { rewrite HP. simpl pc_nodes. eapply perm_trans; [eapply frames_set_fc; eauto|].
      rewrite (frames_nodes_bottom (nid (tr s))); [reflexivity | discriminate | exact Hb1]. }
    assert (Hga : NoDup (a :: held_by me (lk s))) by (eapply granted_nodup; eauto).
    assert (Hnd1 : NoDup (nid (tr s) :: flat_map fkids (set_fc f a :: l))).
    { eapply Permutation_NoDup; [exact Hperm | exact Hga]. }
    destruct (find a (tr s)) as [[i nx es|i cs]|] eqn:Hfa; try discriminate HE.
    + destruct (leaf_delete ltb (Nat.div2 order) (key_of o) es) as [[es' small]|] eqn:Hld; [cbn [bind] in HE|discriminate HE].
      match type of HE with bind ?e _ = _ => destruct e as [t'|] eqn:Hu; [cbn [bind] in HE|discriminate HE] end.
      destruct (upd_leaf_rel K V False [a] a i nx nx es es' (tr s) t' Hnd Hfa Hu) as (A1 & A2 & A3 & A4);
        [in_solve|].
      assert (Hia : i = a) by (apply find_nid in Hfa; exact Hfa). subst i.
      assert (Hane : a <> nid (tr s)).
      { intros E. revert Hnd1. rewrite cnt_nodup. intros X. specialize (X a). simpl in X.
        rewrite <- E, Nat.eqb_refl, cnt_app in X.
        assert (Hin : In a (fkids (set_fc f a))) by (unfold fkids; simpl; rewrite in_app_iff; right; simpl; auto).
        apply cnt_in in Hin. lia. }
      rewrite Hex in Hocc.
      assert (HQ : UQ order (set_fc f a :: l) small t').
      { destruct (iocc_find K V order _ _ _ _ Hocc Hfa) as [[X _]|[_ Hle]]; [congruence|].
        apply iocc_elim_false in Hle. destruct Hle as [Hle _]. simpl in Hle.
        destruct (leaf_delete_facts K V ltb _ _ _ _ _ Hld) as [[-> ->]|[Hlen Hsm]].
        - unfold UQ. exact (leaf_upd_occ K V order None a a nx nx es es (tr s) t' Hnd Hfa Hu (le_n _) Hocc).
        - unfold UQ. subst small. destruct (length es' <? Nat.div2 order) eqn:Esm.
          + apply Nat.ltb_lt in Esm. exists a, (ILeaf a nx es'). split; [reflexivity|].
            split; [eapply find_upd_same with (n := ILeaf a nx es); [reflexivity|exact Hnd|exact Hfa|exact Hu]|].
            split; [simpl; lia|].
            eapply iocc_upd_root with (e := None) (n := ILeaf a nx es) (n' := ILeaf a nx es');
              [reflexivity | exact Hnd | exact Hfa | exact Hu | right; intros ? X; discriminate X | | | exact Hocc];
              intros _ _; rewrite iocc_leaf; unfold top_ok; simpl; rewrite Nat.eqb_refl; reflexivity.
          + apply Nat.ltb_ge in Esm.
            eapply iocc_upd_root with (e := None) (n := ILeaf a nx es) (n' := ILeaf a nx es');
              [reflexivity | exact Hnd | exact Hfa | exact Hu | left; reflexivity | | | exact Hocc]; intros X _.
            * congruence.
            * apply iocc_intro_false; [simpl; lia | reflexivity]. }
      assert (Hs' : stack_ok t' (fresh s) (set_fc f a :: l)).
      { eapply stack_ok_frm with (W := [a]); [exact A2 | apply le_n | | exact Hs1].
        intros g Hg [Ea|[]].
        assert (Hgh : In (fp g) (held_by me (lk s))).
        { apply Hheld.
          assert (Hlinks : links (f :: l)) by (split; [exact O3 | eapply stack_ok_links; eauto]).
          rewrite (frames_nodes_bottom (nid (tr s))); [ | discriminate | exact Hb].
          destruct Hg as [<-|Hg].
          - apply (fp_in_frames (nid (tr s)) (f :: l) Hlinks Hb f). left. reflexivity.
          - apply (fp_in_frames (nid (tr s)) (f :: l) Hlinks Hb g). right. exact Hg. }
        inversion Hga as [|? ? Hni _]. apply Hni. rewrite Ea. exact Hgh. }
      assert (Hb' : bottom_ok (nid t') (set_fc f a :: l)) by (rewrite A4; exact Hb1).
      assert (Hr' : set_fc f a :: l = [] -> @None id = None) by reflexivity.
      assert (Hh' : NoDup (nid t' :: opt_list None ++ flat_map fkids (set_fc f a :: l))) by (rewrite A4; exact Hnd1).
      assert (Hri' : forall x, @None id = Some x -> child_at t' (fp (set_fc f a)) (fidx (set_fc f a) + 1) x)
        by (intros x Hx; discriminate Hx).
      destruct (unwind_occ K V ltb order _ Ho4 _ _ _ _ _ _ _ _ _ HE A3 Hs' Hb' Hr' Hh' Hri' HQ) as [U1 U2].
      split; [right; auto | exact U2].
    + blk_inv HE. destruct (del_descend_occ K V ltb order _ _ _ _ _ E) as [D1 D2].
      apply occ_res_same; auto.
  - (* DelWantRight *)
    blk_top HB. destruct Hw2 as [Hb _].
    assert (Hex : e = fc f) by (apply (Hexh eq_refl)).
    assert (Hperm : Permutation (a :: held_by me (lk s)) (nid (tr s) :: a :: flat_map fkids (f :: l))).
    { rewrite HP. simpl pc_nodes. rewrite (frames_nodes_bottom (nid (tr s))); [apply perm_swap | discriminate | exact Hb]. }
    assert (HQ : UQ order (f :: l) true (tr s)).
    { destruct Hok as (_ & _ & [c [Hc _]] & _). unfold UQ. cbn [pc_small_b] in Hsm_me.
      apply andb_prop in Hsm_me. destruct Hsm_me as [Hsm_me _]. rewrite Hc in Hsm_me.
      destruct (find c (tr s)) as [ct|] eqn:Hfct; [|discriminate]. apply Nat.eqb_eq in Hsm_me.
      exists c, ct. rewrite Hex, Hc in Hocc. auto. }
    assert (Hr' : f :: l = [] -> Some a = None) by discriminate.
    assert (Hh' : NoDup (nid (tr s) :: opt_list (Some a) ++ flat_map fkids (f :: l))).
    { simpl opt_list. simpl app. eapply Permutation_NoDup; [exact Hperm | eapply granted_nodup; eauto]. }
    assert (Hri' : forall x, Some a = Some x -> child_at (tr s) (fp f) (fidx f + 1) x).
    { intros x Hx. inversion Hx; subst. apply child_id_at. exact E0. }
    destruct (unwind_occ K V ltb order _ Ho4 _ _ _ _ _ _ _ _ _ HE Hnd Hok Hb Hr' Hh' Hri' HQ) as [U1 U2].
    split; [right; auto | exact U2].
  - (* CurRest *) blk_top HB. unfold mk in HE. crunch HE; inversion HE; subst; clear HE; apply occ_res_same; auto.
  - (* CurWantNext *) blk_top HB. unfold mk in HE. crunch HE; inversion HE; subst; clear HE; apply occ_res_same; auto.
Qed.

Transparent unwind.

(* ------------------------------------------------------------------------------------------------ *)
(* the theorems                                                                                       *)
(* ------------------------------------------------------------------------------------------------ *)

(* (1) minimum occupancy is preserved by every step *)
Theorem occ_step : forall order (s s' : st) me acq ev,
  Nat.even order = true -> 4 <= order ->
  CIfull ltb order s -> all_inv K V s -> all_small_b order s = true ->
  cstep ltb order s me = Stepped s' acq ev ->
  occ_ok_b order s' = true.
Proof.
  intros order s s' me acq ev Hev Ho4 [[HGI [Hinv Hpc]] Hocc] (Hids & _ & Hfi) Hsmall Hs.
  destruct (cstep_occ order s s' me acq ev Hev Ho4 Hids Hinv Hfi Hocc Hsmall Hs)
    as (th & th' & o & Hme & Hth' & Hs' & [[(E1 & E2 & Ho)|(HT & Ho)] Hsm]).
  - subst s'. unfold occ_ok_b. cbn [tr]. rewrite exempt_node_exl. cbn [ths].
    pose proof (proj1 Hinv) as (_ & Hndt & _).
    rewrite (exl_set_same K V me th th' (ths s) Hndt Hme) by (rewrite Hth', E1, E2; reflexivity).
    exact Ho.
  - subst s'. unfold occ_ok_b. cbn [tr]. rewrite exempt_node_exl. cbn [ths].
    pose proof (proj1 Hinv) as Hli. pose proof Hli as (_ & Hndt & _).
    rewrite (exl_set_unique K V me th th' (ths s) Hndt Hme) by (eapply others_none; eauto).
    rewrite Hth'. exact Ho.
Qed.

(* the strengthened DelWantRight clause is re-established for the stepping thread ... *)
Theorem small_step_me : forall order (s s' : st) me acq ev,
  Nat.even order = true -> 4 <= order ->
  CIfull ltb order s -> all_inv K V s -> all_small_b order s = true ->
  cstep ltb order s me = Stepped s' acq ev ->
  forall th', get_thread me (ths s') = Some th' -> pc_small_b order (tr s') (tpc th') = true.
Proof.
  intros order s s' me acq ev Hev Ho4 [[HGI [Hinv Hpc]] Hocc] (Hids & _ & Hfi) Hsmall Hs th1 Hg.
  destruct (cstep_occ order s s' me acq ev Hev Ho4 Hids Hinv Hfi Hocc Hsmall Hs)
    as (th & th' & o & Hme & Hth' & Hs' & [_ Hsm]).
  subst s'. cbn [tr ths] in *. rewrite (get_set_same K V me th th' (ths s) Hme) in Hg. inversion Hg; subst th1.
  rewrite Hth'. exact Hsm.
Qed.

Lemma icount_view (a b : itree) : view_of a = view_of b -> icount a = icount b.
Proof.
  destruct a as [? ? es|? cs]; destruct b as [? ? es'|? cs']; simpl; intros H; inversion H; subst; try reflexivity.
  match goal with X : map _ cs = map _ cs' |- _ => apply (f_equal (@length _)) in X; rewrite !map_length in X; exact X end.
Qed.

Lemma fc_in_frames (g : frame) rest c : fc g = Some c -> In c (frames_nodes (g :: rest)).
Proof.
  intros H. unfold frames_nodes. destruct (rev (g :: rest)) as [|b tl] eqn:E.
  - apply rev_nil_inv in E. discriminate.
  - right. simpl. rewrite H. rewrite !in_app_iff. left. right. simpl. auto.
Qed.

(* ... and for all other threads: the strengthened invariant is inductive *)
Theorem small_step : forall order (s s' : st) me acq ev,
  Nat.even order = true -> 4 <= order ->
  CIfull ltb order s -> all_inv K V s -> all_small_b order s = true ->
  cstep ltb order s me = Stepped s' acq ev ->
  all_small_b order s' = true.
Proof.
  intros order s s' me acq ev Hev Ho4 HCI Hall Hsmall Hs.
  pose proof HCI as [[HGI [Hinv Hpc]] Hocc]. pose proof Hall as (Hids & _ & Hfi).
  pose proof (small_step_me order s s' me acq ev Hev Ho4 HCI Hall Hsmall Hs) as Hme'.
  destruct (cstep_occ order s s' me acq ev Hev Ho4 Hids Hinv Hfi Hocc Hsmall Hs)
    as (th & th' & o & Hme & Hth' & Hs' & _).
  pose proof (proj1 Hinv) as Hli. pose proof Hli as (_ & Hndt & _ & _ & Hth).
  unfold all_small_b. rewrite forallb_forall. intros [u thu] Hin. cbn [snd].
  assert (Hnd' : NoDup (map fst (ths s'))) by (subst s'; cbn [ths]; rewrite map_fst_set_thread; exact Hndt).
  apply in_get_thread in Hin; [|exact Hnd'].
  destruct (Nat.eq_dec u me) as [->|Hne]; [apply Hme'; exact Hin|].
  assert (Hgu : get_thread u (ths s) = Some thu).
  { subst s'. cbn [ths] in Hin. rewrite get_set_other in Hin by exact Hne. exact Hin. }
  assert (Hsu : pc_small_b order (tr s) (tpc thu) = true).
  { unfold all_small_b in Hsmall. rewrite forallb_forall in Hsmall. apply (Hsmall (u, thu)). apply get_thread_in. exact Hgu. }
  destruct (tpc thu) as [ | | | | | | | | | |oo stk| | ] eqn:Epc; try reflexivity.
  destruct stk as [|g rest]; [reflexivity|]. cbn [pc_small_b] in *.
  apply andb_prop in Hsu. destruct Hsu as [Hsu1 Hsu2].
  destruct (fc g) as [c|] eqn:Efc; [|discriminate].
  destruct (find c (tr s)) as [ct|] eqn:Hfct; [|discriminate].
  destruct (find (fp g) (tr s)) as [[?|pg cg]|] eqn:Hfpg; try discriminate.
  destruct (Hth u thu Hgu) as (_ & HPu & _). rewrite Epc in HPu. simpl pc_nodes in HPu.
  assert (Hfrm : forall x, In x (frames_nodes (g :: rest)) -> In x (ids (tr s)) -> node_view x (tr s') = node_view x (tr s)).
  { intros x Hx Hxi.
    assert (Hxu : In x (held_by u (lk s))) by (eapply Permutation_in; [apply Permutation_sym; exact HPu|exact Hx]).
    eapply step_frame; eauto.
    - eapply GI_lossless; eauto.
    - intros X. apply Hne. eapply (locks_exclusive K V s x u me); eauto.
    - intros X. subst acq. eapply (granted_was_free K V ltb order s s' me x ev u); eauto. }
  assert (Hv : node_view c (tr s') = node_view c (tr s)).
  { apply Hfrm; [apply fc_in_frames; exact Efc | eapply find_in_ids; eauto]. }
  assert (Hv2 : node_view (fp g) (tr s') = node_view (fp g) (tr s)).
  { apply Hfrm; [|eapply find_in_ids; eauto].
    pose proof (proj2 Hinv u thu Hgu) as Hw2. rewrite Epc in Hw2. simpl in Hw2. destruct Hw2 as [Hbo Hne2].
    pose proof (Hfi u thu Hgu) as Hoku. rewrite Epc in Hoku. simpl in Hoku.
    rewrite (frames_nodes_bottom (nid (tr s))); [|exact Hne2|exact Hbo].
    apply fp_in_frames; [eapply stack_ok_links; exact Hoku | exact Hbo | left; reflexivity]. }
  unfold node_view in Hv, Hv2. rewrite Hfct in Hv. rewrite Hfpg in Hv2.
  destruct (find c (tr s')) as [ct'|]; [|discriminate].
  simpl in Hv. inversion Hv as [Hv']. apply icount_view in Hv'. rewrite Hv'. rewrite Hsu1. simpl.
  destruct (find (fp g) (tr s')) as [n'|]; [|discriminate].
  simpl in Hv2. inversion Hv2 as [Hv2']. pose proof (icount_view n' (INode pg cg) Hv2') as Hc2.
  destruct n' as [?|pg' cg']; [discriminate Hv2'|]. simpl in Hc2. rewrite Hc2. exact Hsu2.
Qed.


End OccProof.

(* ------------------------------------------------------------------------------------------------
   SUMMARY (files OCCc_Base, OCCc_Blocks, OCCc_Reb, OCCc_Proof; compile in this order, then OCCc_Cex,
   OCCc_Total, OCCc_Chain, OCCc_Unwind, OCCc_Crash, OCCc_Op)

   Strengthened DelWantRight clause (OCCc_Blocks.v, executable):
     pc_small_b order t (DelWantRight _ (f :: _)) :=
        (fc f = Some c, find c t = Some ct, S (icount ct) =? div2 order)            -- exactly one short
        && (find (fp f) t = Some (INode _ cs), fidx f + 1 <? length cs)             -- the awaited sibling exists
     pc_small_b _ _ _ := true otherwise;       all_small_b order s := forallb over the threads.

   occ_step   : even order -> 4 <= order -> CIfull ltb order s -> all_inv K V s -> all_small_b order s = true ->
                cstep ltb order s me = Stepped s' acq ev -> occ_ok_b order s' = true
   small_step : same hypotheses -> all_small_b order s' = true          (the strengthening is inductive;
                uses step_frame for the other threads)
   OCCc_Cex.occ_step_needs_strengthening : occ_step is FALSE without all_small_b (machine-checked state).
   ------------------------------------------------------------------------------------------------ *)

Print Assumptions occ_step.
Print Assumptions small_step.

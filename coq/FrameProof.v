(* FrameProof.v — "writes only under lock": the model side of data-race freedom (C07, C05).
   See the summary at the end of the file for the exact statements and the two discrepancies found. *)
From Coq Require Import List Permutation Lia Bool PeanoNat.
From GB Require Import ListLemmas TreeLemmas Frame LockProof ConcProps UpdLemmas FrameRel FrameInv FrameBlocks.
Import ListNotations.

Section FrameProof.
Variables (K V : Type) (ltb : K -> K -> bool).
Notation itree := (itree K V).
Notation view := (view K V).
Notation pc := (pc K V).
Notation st := (st K V).
Notation out := (out K V).
Notation thread := (thread K V).

(* what one atomic block does to the tree, in terms of the lock footprint of the thread that runs it *)
Definition blk_ok (order : nat) (s : st) (me : tid) (tg : option (option id)) (o : out) : Prop :=
  fresh s <= ofresh o /\
  acct (seq (fresh s) (ofresh o - fresh s)) (tr s) (otr o) /\
  frm (lossless order (tr s)) ((held_by me (lk s) ++ granted tg) ++ seq (fresh s) (ofresh o - fresh s)) (tr s) (otr o) /\
  NoDup (ids (otr o)) /\
  (Forall (fun i => i < ofresh o) (ids (otr o)) -> pc_ok (otr o) (ofresh o) (opc o)).

Lemma blk_intro order (s : st) me tg (o : out) k W' :
  ofresh o = fresh s + k -> acct (seq (fresh s) k) (tr s) (otr o) ->
  frm (lossless order (tr s)) W' (tr s) (otr o) ->
  incl W' ((held_by me (lk s) ++ granted tg) ++ seq (fresh s) k) ->
  NoDup (ids (otr o)) ->
  (Forall (fun i => i < ofresh o) (ids (otr o)) -> pc_ok (otr o) (ofresh o) (opc o)) ->
  blk_ok order s me tg o.
Proof.
  intros Hf Ha Hfr Hi Hnd Hpc. unfold blk_ok. rewrite Hf.
  replace (fresh s + k - fresh s) with k by lia.
  split; [lia|]. split; [exact Ha|]. split; [eapply frm_mono; eauto|]. split; [exact Hnd|].
  rewrite <- Hf. exact Hpc.
Qed.

(* a block that ends with the descent of Insert/Update into node n of the tree t1 reached so far *)
Lemma blk_ins order (s : st) me tg o n (t1 : itree) l fr1 tmx (o1 : out) k W1 :
  ins_descend ltb o n t1 l fr1 tmx = Ok o1 ->
  fr1 = fresh s + k -> acct (seq (fresh s) k) (tr s) t1 -> frm (lossless order (tr s)) W1 (tr s) t1 -> NoDup (ids t1) ->
  incl (n :: W1) ((held_by me (lk s) ++ granted tg) ++ seq (fresh s) k) ->
  blk_ok order s me tg o1.
Proof.
  intros Hd Hfr Ha Hf Hnd Hi.
  destruct (ins_descend_rel K V ltb (lossless order (tr s)) (n :: W1) o n t1 l fr1 tmx o1 Hd Hnd (or_introl eq_refl))
    as (A1 & A2 & A3 & A4 & A5 & A6).
  eapply blk_intro with (k := k) (W' := n :: W1); auto.
  - congruence.
  - eapply acct_trans; eauto.
  - eapply frm_trans; [eapply frm_mono; [|exact Hf]; intros x Hx; right; exact Hx | exact A3].
Qed.

(* a block that ends with the unwinding of Delete from the tree t1 reached so far *)
Lemma blk_unwind order (s : st) me tg fuel o stk small right (t1 : itree) l tmx (o1 : out) W1 :
  unwind order fuel o stk small right t1 l (fresh s) tmx = Ok o1 ->
  acct [] (tr s) t1 -> frm (lossless order (tr s)) W1 (tr s) t1 -> NoDup (ids t1) ->
  stack_ok t1 (fresh s) stk -> bottom_ok (nid t1) stk -> (stk = [] -> right = None) ->
  NoDup (nid t1 :: opt_list right ++ flat_map fkids stk) ->
  incl (W1 ++ nid t1 :: opt_list right ++ flat_map fkids stk) (held_by me (lk s) ++ granted tg) ->
  (forall x, right = Some x -> match stk with f :: _ => child_at t1 (fp f) (fidx f + 1) x | [] => True end) ->
  blk_ok order s me tg o1.
Proof.
  intros Hu Ha Hf Hnd Hs Hb Hr Hheld Hi Hright.
  destruct (unwind_rel K V ltb (lossless order (tr s)) order (held_by me (lk s) ++ granted tg) fuel o stk small right t1 l
              (fresh s) tmx o1 Hu Hnd Hs Hb Hr Hheld) as (A1 & A2 & A3 & A4 & A5); auto.
  { intros x Hx. apply Hi. apply in_or_app. right. exact Hx. }
  eapply blk_intro with (k := 0) (W' := held_by me (lk s) ++ granted tg).
  - rewrite A1. lia.
  - simpl. eapply acct_trans; eauto.
  - eapply frm_trans; [eapply frm_mono; [|exact Hf]; intros x Hx; apply Hi; apply in_or_app; left; exact Hx | exact A3].
  - simpl. rewrite app_nil_r. apply incl_refl.
  - exact A4.
  - intros _. rewrite A1. exact A5.
Qed.

Lemma seq1 n : seq n 1 = [n]. Proof. reflexivity. Qed.
Lemma seq2 n : seq n 2 = [n; S n]. Proof. reflexivity. Qed.

Lemma lossless_root order (t : itree) : lossless order t -> icount t <= 2 * Nat.div2 order.
Proof. intros H. apply (H (nid t) t). rewrite find_eq, Nat.eqb_refl. reflexivity. Qed.

Lemma leaf_root_rel (G : Prop) W i nx nx' (es es' : list (K * V)) :
  In i W ->
  acct [] (ILeaf i nx es) (ILeaf i nx' es') /\ frm G W (ILeaf i nx es) (ILeaf i nx' es') /\ NoDup (ids (ILeaf i nx' es')).
Proof.
  intros Hi. split; [intros x; simpl; lia|]. split; [|simpl; repeat constructor; simpl; tauto].
  intros y Hy. left. unfold node_view. simpl. destruct (i =? y) eqn:E; [|reflexivity].
  apply Nat.eqb_eq in E. subst. tauto.
Qed.

Lemma granted_nodup (s : st) me x :
  NoDup (map fst (lk s)) -> is_free s (Some (Some x)) = true -> NoDup (x :: held_by me (lk s)).
Proof.
  intros Hnd Hfree. simpl in Hfree. destruct (holder x (lk s)) eqn:Hh; [discriminate|].
  apply holder_none in Hh. constructor; [|apply NoDup_held_by; exact Hnd].
  intro Hin. apply In_held_by in Hin. apply Hh. apply in_map_iff. exists (x, me). auto.
Qed.

Lemma in_ids_lt (s : st) x : Forall (fun i => i < fresh s) (ids (tr s)) -> In x (ids (tr s)) -> x < fresh s.
Proof. intros H Hin. rewrite Forall_forall in H. apply H. exact Hin. Qed.

Ltac blk_inv HB := unfold mk in HB; cbn [bind] in HB; crunch HB; try (inversion HB; subst; clear HB).
Ltac blk_top HB :=
  match type of HB with
  | bind ?e _ = Ok _ => let E := fresh "HE" in destruct e eqn:E; [cbn [bind] in HB; inversion HB; subst; clear HB | discriminate HB]
  end.
Ltac in_solve := simpl; rewrite ?in_app_iff; simpl; tauto.
Ltac incl_solve :=
  let x := fresh "x" in let Hx := fresh "Hx" in
  intros x Hx; simpl in Hx; repeat (destruct Hx as [Hx|Hx]; [subst; in_solve|]); try contradiction.
Ltac triv_blk :=
  eapply blk_intro with (k := 0) (W' := []); cbn [otr ofresh opc];
  [lia | apply acct_refl | apply frm_refl | intros ? [] | assumption | try (intros; exact I)].

Opaque unwind.

Lemma cstep_blk : forall order (s s' : st) me acq ev,
  ids_ok s -> lock_inv2 K V s -> frame_inv s -> cstep ltb order s me = Stepped s' acq ev ->
  exists th th' o,
    get_thread me (ths s) = Some th /\ tpc th' = opc o /\
    s' = {| tr := otr o; tm := otm o; lk := olk o; fresh := ofresh o; ths := set_thread me th' (ths s) |} /\
    blk_ok order s me acq o.
Proof.
  intros order s s' me acq ev [Hnd Hlt] Hinv Hfi H.
  unfold cstep in H.
  destruct (get_thread me (ths s)) as [th|] eqn:Hme; [|discriminate H].
  destruct (target s (tpc th)) as [tg|] eqn:Htg; [|discriminate H].
  destruct (negb (is_free s tg)) eqn:Hfree; [discriminate H|].
  apply negb_false_iff in Hfree.
  destruct Hinv as [Hinv Hwf2].
  pose proof Hinv as [Hndl [Hndt [Hlk [Htm Hth]]]].
  destruct (Hth me th Hme) as [Hwf [HP HT]].
  pose proof (Hwf2 me th Hme) as Hw2.
  pose proof (Hfi me th Hme) as Hok.
  assert (Hfr1 : ~ In (fresh s) (ids (tr s))).
  { intro X. rewrite Forall_forall in Hlt. apply Hlt in X. lia. }
  assert (Hfr2 : ~ In (S (fresh s)) (ids (tr s))).
  { intro X. rewrite Forall_forall in Hlt. apply Hlt in X. lia. }
  assert (Hheld : forall x, In x (pc_nodes (tpc th)) -> In x (held_by me (lk s))).
  { intros x Hx. eapply Permutation_in; [apply Permutation_sym; exact HP | exact Hx]. }
  cbv zeta in H.
  assert (Hgen : forall o : out,
            blk_ok order s me tg o ->
            Stepped {| tr := otr o; tm := otm o; lk := olk o; fresh := ofresh o;
                       ths := set_thread me (if existsb (fun e => match e with EReturn _ => true | _ => false end) (oev o)
                                then {| prog := tl (prog th); tpc := opc o; results := flat_map (fun e => match e with EReturn r => [r] | _ => [] end) (oev o) ++ results th |}
                                else {| prog := prog th; tpc := opc o; results := results th |}) (ths s) |} tg (oev o) = Stepped s' acq ev ->
            exists th0 th' o0,
              Some th = Some th0 /\ tpc th' = opc o0 /\
              s' = {| tr := otr o0; tm := otm o0; lk := olk o0; fresh := ofresh o0; ths := set_thread me th' (ths s) |} /\
              blk_ok order s me acq o0).
  { intros o Hb Hs. inversion Hs; subst. do 3 eexists. split; [reflexivity|].
    split; [|split; [reflexivity|exact Hb]].
    destruct (existsb _ (oev o)); reflexivity. }
  destruct (tpc th) as [ |o|o r|o lft rgt|o p c index|o p c r|o leaf mode index|o p c|o stk|o stk|o stk|leaf i n acc|leaf nxt n acc] eqn:Hpc.
  all: cbv beta iota in H; simpl in Htg; crunch Htg; inversion Htg; subst tg; clear Htg.
  all: match type of H with match ?B with _ => _ end = _ => destruct B as [[o1|]|] eqn:HB; try discriminate H end.
  all: match goal with o : out |- _ => apply (Hgen o); [clear H Hgen | exact H] end.
  all: simpl in Hw2, Hok, Hheld.
  - (* Idle *) blk_inv HB. triv_blk.
  - (* WantT *) blk_inv HB. triv_blk.
  - (* WantRoot *)
    subst r.
    assert (Hr : In (nid (tr s)) (ids (tr s))) by apply nid_in_ids.
    blk_top HB.
    assert (Hins : forall o', (o' = o) -> match o' with CInsert _ _ | CUpdate _ _ => True | _ => False end ->
              match isplit order (fresh s) (tr s) with
              | Some (lft, rgt) =>
                ls <- ismallest lft ;; rs <- ismallest rgt ;;
                (if ltb (key_of o) rs
                 then ins_descend ltb o (nid (tr s)) (INode (S (fresh s)) [(if ltb (key_of o) ls then key_of o else ls, lft); (rs, rgt)])
                        ((nid (tr s), me) :: lk s) (S (S (fresh s))) None
                 else mk (INode (S (fresh s)) [(if ltb (key_of o) ls then key_of o else ls, lft); (rs, rgt)])
                        ((nid (tr s), me) :: lk s) (S (S (fresh s))) (tm s) (InsWantRootRight o (nid (tr s)) (fresh s)) [])
              | None => ins_descend ltb o (nid (tr s)) (tr s) ((nid (tr s), me) :: lk s) (fresh s) None
              end = Ok o1 -> blk_ok order s me (Some (Some (nid (tr s)))) o1).
    { intros o' _ _ HI. clear HE.
      destruct (isplit order (fresh s) (tr s)) as [[lft rgt]|] eqn:Hsp.
      - destruct (ismallest lft) as [ls|] eqn:Els; [cbn [bind] in HI|discriminate HI].
        destruct (ismallest rgt) as [rs|] eqn:Ers; [cbn [bind] in HI|discriminate HI].
        destruct (root_split_rel K V ltb (lossless order (tr s)) order [nid (tr s); fresh s; S (fresh s)] (fresh s)
                    (if ltb (key_of o) ls then key_of o else ls) rs lft rgt (tr s) Hnd Hsp Hfr1 Hfr2) as (A1 & A2 & A3);
          try in_solve.
        { apply lossless_root. }
        destruct (ltb (key_of o) rs).
        + eapply blk_ins with (k := 2) (W1 := [nid (tr s); fresh s; S (fresh s)]);
            [exact HI | lia | exact A1 | exact A2 | exact A3 |].
          intros x Hx. simpl in Hx. in_solve.
        + unfold mk in HI. inversion HI; subst; clear HI.
          eapply blk_intro with (k := 2) (W' := [nid (tr s); fresh s; S (fresh s)]); cbn [otr ofresh opc];
            [lia | exact A1 | exact A2 | | exact A3 | intros; exact I].
          intros x Hx. simpl in Hx. in_solve.
      - eapply blk_ins with (k := 0) (W1 := []); [exact HI | lia | apply acct_refl | apply frm_refl | exact Hnd |].
        intros x Hx. simpl in Hx. in_solve. }
    destruct o as [k v|k f|k|k|k cnt].
    + apply (Hins _ eq_refl I HE).
    + apply (Hins _ eq_refl I HE).
    + (* CDelete *)
      clear Hins. destruct (tr s) as [i nx es|i cs] eqn:Et.
      * blk_inv HE.
        destruct (leaf_root_rel (lossless order (ILeaf i nx es)) [i] i nx nx es l) as (A1 & A2 & A3); [in_solve|].
        eapply blk_intro with (k := 0) (W' := [i]); cbn [otr ofresh opc]; rewrite ?Et;
          [lia | exact A1 | exact A2 | | exact A3 | intros; exact I].
        intros x Hx. simpl in Hx. in_solve.
      * blk_inv HE.
        eapply blk_intro with (k := 0) (W' := []); cbn [otr ofresh opc]; rewrite ?Et;
          [lia | apply acct_refl | apply frm_refl | intros ? [] | exact Hnd | intros _].
        eapply del_descend_ok; [eassumption | | exact I | exact I].
        rewrite Forall_forall in Hlt. apply Hlt. simpl. auto.
    + (* CSearch *)
      destruct (sea_descend_rel K V ltb _ _ _ _ _ _ _ HE) as (B1 & B2 & B3).
      eapply blk_intro with (k := 0) (W' := []); rewrite ?B1, ?B2;
        [lia | apply acct_refl | apply frm_refl | intros ? [] | exact Hnd | intros; apply B3].
    + (* CScan *)
      destruct (sea_descend_rel K V ltb _ _ _ _ _ _ _ HE) as (B1 & B2 & B3).
      eapply blk_intro with (k := 0) (W' := []); rewrite ?B1, ?B2;
        [lia | apply acct_refl | apply frm_refl | intros ? [] | exact Hnd | intros; apply B3].
  - (* InsWantRootRight *)
    blk_top HB.
    eapply blk_ins with (k := 0) (W1 := []); [exact HE | lia | apply acct_refl | apply frm_refl | exact Hnd |].
    intros x Hx. simpl in Hx. in_solve.
  - (* InsWantChild *)
    blk_top HB.
    destruct Hok as [Hplt Hca].
    assert (Hp : In p (held_by me (lk s))) by (apply Hheld; auto).
    destruct (find p (tr s)) as [[?|pi cs]|] eqn:Hfp; try discriminate HE.
    destruct (find c (tr s)) as [child|] eqn:Hfc; [|discriminate HE].
    destruct (get_nth index cs) as [[sep ch0]|] eqn:Hg; [cbn [bind] in HE|discriminate HE].
    apply get_nth_Ok in Hg.
    assert (Hch : child = ch0).
    { pose proof (child_at_nth K V _ _ _ _ _ _ _ _ Hca Hfp Hg) as Hn.
      pose proof (find_child K V p pi cs sep ch0 (tr s) Hnd Hfp (nth_error_In _ _ Hg)) as Hf2.
      rewrite Hn in Hf2. congruence. }
    subst ch0.
    cbn [bind] in HE. set (sep' := if index =? 0 then if ltb (key_of o) sep then key_of o else sep else sep) in HE.
    assert (Hnc : nid child = c) by (eapply find_nid; eauto).
    destruct (isplit order (fresh s) child) as [[lft rgt]|] eqn:Hsp.
    + destruct (ismallest rgt) as [rs|] eqn:Ers; [cbn [bind] in HE|discriminate HE].
      match type of HE with bind ?e _ = _ => destruct e as [t'|] eqn:Hu; [cbn [bind] in HE|discriminate HE] end.
      destruct (ins_split_rel K V ltb (lossless order (tr s)) order [p; c; fresh s] p pi cs index sep sep' rs child lft rgt
                  (fresh s) (tr s) t' Hnd Hfp Hg Hsp Hu Hfr1) as (A1 & A2 & A3 & A4); try in_solve.
      { rewrite Hnc. in_solve. }
      { intros HG. eapply HG; eauto. }
      destruct (ltb (key_of o) rs).
      * eapply blk_ins with (k := 1) (W1 := [p; c; fresh s]); [exact HE | lia | exact A1 | exact A2 | exact A3 |].
        incl_solve.
      * unfold mk in HE. inversion HE; subst; clear HE.
        eapply blk_intro with (k := 1) (W' := [p; nid child; fresh s]); cbn [otr ofresh opc];
          [lia | exact A1 | exact A2 | | exact A3 | intros; exact I].
        incl_solve.
    + match type of HE with bind ?e _ = _ => destruct e as [t'|] eqn:Hu; [cbn [bind] in HE|discriminate HE] end.
      destruct (ins_nosplit_rel K V (lossless order (tr s)) [p] p pi cs index sep sep' child (tr s) t' Hnd Hfp Hg Hu)
        as (A1 & A2 & A3 & A4); [in_solve|].
      eapply blk_ins with (k := 0) (W1 := [p]); [exact HE | lia | exact A1 | exact A2 | exact A3 |].
      incl_solve.
  - (* InsWantSplitRight *)
    blk_top HB.
    eapply blk_ins with (k := 0) (W1 := []); [exact HE | lia | apply acct_refl | apply frm_refl | exact Hnd |].
    incl_solve.
  - (* UpdCallback *)
    blk_top HB.
    assert (Hl : In leaf (held_by me (lk s))) by (apply Hheld; auto).
    destruct o as [| k f | | |]; try discriminate HE.
    destruct (find leaf (tr s)) as [[i nx es|?]|] eqn:Hfl; try discriminate HE.
    assert (Hfin : forall es' t' l' ev', upd leaf (fun _ => Ok (ILeaf i nx es')) (tr s) = Ok t' ->
              blk_ok order s me None {| otr := t'; olk := l'; ofresh := fresh s; otm := tm s; opc := Idle; oev := ev' |}).
    { intros es' t' l' ev' Hu.
      destruct (upd_leaf_rel K V (lossless order (tr s)) [leaf] leaf i nx nx es es' (tr s) t' Hnd Hfl Hu)
        as (A1 & A2 & A3 & A4); [in_solve|].
      eapply blk_intro with (k := 0) (W' := [leaf]); cbn [otr ofresh opc];
        [lia | exact A1 | exact A2 | incl_solve | exact A3 | intros; exact I]. }
    blk_inv HE; eapply Hfin; eassumption.
  - (* SeaWantChild *)
    blk_top HB.
    destruct (sea_descend_rel K V ltb _ _ _ _ _ _ _ HE) as (B1 & B2 & B3).
    eapply blk_intro with (k := 0) (W' := []); rewrite ?B1, ?B2;
      [lia | apply acct_refl | apply frm_refl | intros ? [] | exact Hnd | intros; apply B3].
  - (* DelWantLeft *)
    blk_inv HB. destruct Hok as (O1 & O2 & O3).
    eapply blk_intro with (k := 0) (W' := []); cbn [otr ofresh opc];
      [lia | apply acct_refl | apply frm_refl | intros ? [] | exact Hnd | intros _].
    simpl. split; [exact O1|]. split; [|split; [exact O2 | exact O3]].
    intros _. exists a. split; [reflexivity|]. apply child_id_at. exact E0.
  - (* DelWantChild *)
    blk_top HB. destruct Hok as (O1 & O2 & O3 & O4). destruct Hw2 as [Hb Hfc].
    assert (Hb1 : bottom_ok (nid (tr s)) (set_fc f a :: l)) by (eapply bottom_ok_replace; eauto).
    assert (Hs1 : stack_ok (tr s) (fresh s) (set_fc f a :: l)).
    { simpl. split; [exact O1|]. split; [exact O2|]. split; [|split; [exact O3|exact O4]].
      exists a. split; [reflexivity|]. apply child_id_at. exact E0. }
    assert (Hperm : Permutation (a :: held_by me (lk s)) (nid (tr s) :: flat_map fkids (set_fc f a :: l))).
    { rewrite HP. simpl pc_nodes. eapply perm_trans; [eapply frames_set_fc; eauto|].
      rewrite (frames_nodes_bottom (nid (tr s))); [reflexivity | discriminate | exact Hb1]. }
    assert (Hga : NoDup (a :: held_by me (lk s))) by (eapply granted_nodup; eauto).
    assert (Hnd1 : NoDup (nid (tr s) :: flat_map fkids (set_fc f a :: l))).
    { eapply Permutation_NoDup; [exact Hperm | exact Hga]. }
    assert (Hin1 : incl (nid (tr s) :: flat_map fkids (set_fc f a :: l)) (held_by me (lk s) ++ [a])).
    { intros x Hx. eapply Permutation_in in Hx; [|apply Permutation_sym; exact Hperm]. destruct Hx as [<-|Hx]; in_solve. }
    destruct (find a (tr s)) as [[i nx es|i cs]|] eqn:Hfa; try discriminate HE.
    + destruct (leaf_delete ltb (Nat.div2 order) (key_of o) es) as [[es' small]|] eqn:Hld; [cbn [bind] in HE|discriminate HE].
      match type of HE with bind ?e _ = _ => destruct e as [t'|] eqn:Hu; [cbn [bind] in HE|discriminate HE] end.
      destruct (upd_leaf_rel K V (lossless order (tr s)) [a] a i nx nx es es' (tr s) t' Hnd Hfa Hu) as (A1 & A2 & A3 & A4);
        [in_solve|].
      eapply blk_unwind with (W1 := [a]) (t1 := t'); [exact HE | exact A1 | exact A2 | exact A3 | | | | | |].
      * eapply stack_ok_frm with (W := [a]); [exact A2 | apply le_n | | exact Hs1].
        intros g Hg [Ea|[]].
        assert (Hgh : In (fp g) (held_by me (lk s))).
        { apply Hheld.
          assert (Hlinks : links (f :: l)) by (split; [exact O3 | eapply stack_ok_links; eauto]).
          rewrite (frames_nodes_bottom (nid (tr s))); [ | discriminate | exact Hb].
          destruct Hg as [<-|Hg].
          - apply (fp_in_frames (nid (tr s)) (f :: l) Hlinks Hb f). left. reflexivity.
          - apply (fp_in_frames (nid (tr s)) (f :: l) Hlinks Hb g). right. exact Hg. }
        inversion Hga as [|? ? Hni _]. apply Hni. rewrite Ea. exact Hgh.
      * rewrite A4. exact Hb1.
      * discriminate.
      * rewrite A4. exact Hnd1.
      * rewrite A4. intros x [<-|Hx]; [in_solve|]. simpl in Hx. apply Hin1. exact Hx.
      * intros x Hx. discriminate Hx.
    + blk_inv HE.
      eapply blk_intro with (k := 0) (W' := []); cbn [otr ofresh opc];
        [lia | apply acct_refl | apply frm_refl | intros ? [] | exact Hnd | intros _].
      eapply del_descend_ok; [eassumption | | simpl; reflexivity | exact Hs1].
      apply in_ids_lt; [exact Hlt|]. eapply find_in_ids; eauto.
  - (* DelWantRight *)
    blk_top HB. destruct Hw2 as [Hb _].
    assert (Hperm : Permutation (a :: held_by me (lk s)) (nid (tr s) :: a :: flat_map fkids (f :: l))).
    { rewrite HP. simpl pc_nodes. rewrite (frames_nodes_bottom (nid (tr s))); [apply perm_swap | discriminate | exact Hb]. }
    eapply blk_unwind with (W1 := []) (t1 := tr s);
      [exact HE | apply acct_refl | apply frm_refl | exact Hnd | exact Hok | exact Hb | discriminate | | | ].
    + simpl opt_list. simpl app. eapply Permutation_NoDup; [exact Hperm | eapply granted_nodup; eauto].
    + intros x Hx. change (In x (nid (tr s) :: a :: flat_map fkids (f :: l))) in Hx.
      eapply Permutation_in in Hx; [|apply Permutation_sym; exact Hperm].
      destruct Hx as [<-|Hx]; in_solve.
    + intros x Hx. inversion Hx; subst. simpl. apply child_id_at. exact E0.
  - (* CurRest *) blk_top HB. unfold mk in HE. crunch HE; inversion HE; subst; clear HE; triv_blk.
  - (* CurWantNext *) blk_top HB. unfold mk in HE. crunch HE; inversion HE; subst; clear HE; triv_blk.
Qed.

Transparent unwind.

(* ------------------------------------------------------------------------------------------------ *)
(* 1. identities                                                                                      *)
(* ------------------------------------------------------------------------------------------------ *)
Theorem ids_ok_init : forall progs, ids_ok (init_st (K:=K) (V:=V) progs).
Proof.
  intros progs. unfold ids_ok, init_st. simpl. split; repeat constructor. simpl. tauto.
Qed.

Lemma blk_ids_ok order (s : st) me tg (o : out) :
  ids_ok s -> blk_ok order s me tg o ->
  NoDup (ids (otr o)) /\ Forall (fun i => i < ofresh o) (ids (otr o)).
Proof.
  intros [Hnd Hlt] (B1 & B2 & B3 & B4 & B5). split; [exact B4|].
  apply Forall_forall. intros x Hx. destruct (acct_in K V _ _ _ x B2 Hx) as [Hin|Hin].
  - rewrite Forall_forall in Hlt. apply Hlt in Hin. lia.
  - apply in_seq in Hin. lia.
Qed.

(* needs the auxiliary invariant: see [ids_ok_step_needs_frame_inv] below *)
Theorem ids_ok_step : forall order (s s' : st) me acq ev,
  ids_ok s -> lock_inv2 K V s -> frame_inv s -> cstep ltb order s me = Stepped s' acq ev -> ids_ok s'.
Proof.
  intros order s s' me acq ev Hids Hinv Hfi Hs.
  destruct (cstep_blk order s s' me acq ev Hids Hinv Hfi Hs) as (th & th' & o & H1 & H2 & H3 & H4).
  subst s'. unfold ids_ok. simpl. eapply blk_ids_ok; eauto.
Qed.

(* ------------------------------------------------------------------------------------------------ *)
(* the auxiliary invariant is inductive                                                              *)
(* ------------------------------------------------------------------------------------------------ *)
Lemma stack_ok_frm2 (G : Prop) W0 N (t t' : itree) fr fr' stk :
  frm G (W0 ++ N) t t' -> (forall x, In x N -> fr <= x) -> fr <= fr' ->
  (forall f, In f stk -> ~ In (fp f) W0) -> stack_ok t fr stk -> stack_ok t' fr' stk.
Proof.
  intros Hfr HN Hle. induction stk as [|f rest IH]; simpl; intros HW H; [exact I|].
  destruct H as (H1 & H2 & H3 & H4 & H5).
  assert (Hp : ~ In (fp f) (W0 ++ N)).
  { rewrite in_app_iff. intros [X|X]; [eapply HW; eauto | apply HN in X; lia]. }
  split; [lia|]. split; [|split; [|split; [exact H4 | apply IH; auto]]].
  - eapply left_ok_frm; eauto.
  - destruct H3 as [c [A B]]. exists c. split; [exact A|]. eapply child_at_frm; eauto.
Qed.

Lemma pc_ok_frm (G : Prop) W0 N (t t' : itree) fr fr' root (p : pc) :
  frm G (W0 ++ N) t t' -> (forall x, In x N -> fr <= x) -> fr <= fr' ->
  pc_wf2 K V root p -> (forall x, In x (pc_nodes p) -> ~ In x W0) ->
  pc_ok t fr p -> pc_ok t' fr' p.
Proof.
  intros Hfr HN Hle Hw2 HW Hok.
  assert (Hex : forall x, x < fr -> ~ In x W0 -> ~ In x (W0 ++ N)).
  { intros x Hx Hn. rewrite in_app_iff. intros [X|X]; [tauto | apply HN in X; lia]. }
  destruct p as [ |o|o r|o lft rgt|o p c index|o p c r|o leaf mode index|o p c|o stk|o stk|o stk|leaf i n acc|leaf nxt n acc];
    simpl in *; try exact I.
  - destruct Hok as [H1 H2]. split; [lia|]. eapply child_at_frm; eauto.
  - destruct stk as [|f rest]; [exact I|]. destruct Hok as (H1 & H2 & H3). destruct Hw2 as [Hb _].
    assert (Hlinks : links (f :: rest)) by (split; [exact H2 | eapply stack_ok_links; eauto]).
    rewrite (frames_nodes_bottom root) in HW by (auto; discriminate).
    split; [lia|]. split; [exact H2|].
    eapply stack_ok_frm2; eauto. intros g Hg. apply HW. apply fp_in_frames; auto. right. exact Hg.
  - destruct stk as [|f rest]; [exact I|]. destruct Hok as (H1 & H2 & H3 & H4). destruct Hw2 as [Hb _].
    assert (Hlinks : links (f :: rest)) by (split; [exact H3 | eapply stack_ok_links; eauto]).
    rewrite (frames_nodes_bottom root) in HW by (auto; discriminate).
    assert (Hfp : forall g, In g (f :: rest) -> ~ In (fp g) W0).
    { intros g Hg. apply HW. apply fp_in_frames; auto. }
    split; [lia|]. split; [|split; [exact H3|]].
    + eapply left_ok_frm; eauto. apply Hex; auto. apply Hfp. left. reflexivity.
    + eapply stack_ok_frm2; eauto. intros g Hg. apply Hfp. right. exact Hg.
  - destruct Hw2 as [Hb Hne].
    rewrite (frames_nodes_bottom root) in HW by auto.
    eapply stack_ok_frm2; eauto. intros g Hg. apply HW. apply fp_in_frames; auto. eapply stack_ok_links; eauto.
Qed.

Theorem frame_inv_init : forall progs, frame_inv (init_st (K:=K) (V:=V) progs).
Proof.
  intros progs u th Hg. unfold init_st in Hg. simpl in Hg. apply get_thread_init in Hg. rewrite Hg. exact I.
Qed.

Theorem frame_inv_step : forall order (s s' : st) me acq ev,
  ids_ok s -> lock_inv2 K V s -> frame_inv s -> cstep ltb order s me = Stepped s' acq ev -> frame_inv s'.
Proof.
  intros order s s' me acq ev Hids Hinv Hfi Hs.
  destruct (cstep_blk order s s' me acq ev Hids Hinv Hfi Hs) as (th & th' & o & H1 & H2 & H3 & H4).
  destruct (blk_ids_ok order s me acq o Hids H4) as [Hnd' Hlt'].
  destruct H4 as (B1 & B2 & B3 & B4 & B5).
  intros u thu Hg. subst s'. simpl in *.
  destruct (Nat.eq_dec u me) as [->|Hne].
  - rewrite (get_set_same K V me th th' (ths s) H1) in Hg. inversion Hg; subst thu. rewrite H2. apply B5. exact Hlt'.
  - rewrite get_set_other in Hg by exact Hne.
    destruct Hinv as [Hli Hwf2]. pose proof Hli as (_ & _ & _ & _ & Hth).
    destruct (Hth u thu Hg) as (_ & HPu & _).
    eapply pc_ok_frm with (root := nid (tr s)) (N := seq (fresh s) (ofresh o - fresh s)); eauto.
    + intros x Hx. apply in_seq in Hx. lia.
    + intros x Hx.
      assert (Hxu : In x (held_by u (lk s))) by (eapply Permutation_in; [apply Permutation_sym; exact HPu | exact Hx]).
      rewrite in_app_iff. intros [X|X].
      * apply Hne. eapply (locks_exclusive K V s x u me); eauto.
      * destruct acq as [[y|]|]; simpl in X; try contradiction. destruct X as [<-|[]].
        eapply (granted_was_free K V ltb order s _ me y ev u); eauto.
Qed.

(* all three invariants together, along every execution *)
Definition all_inv (s : st) : Prop := ids_ok s /\ lock_inv2 K V s /\ frame_inv s.

Theorem all_inv_init : forall progs, NoDup (map fst progs) -> all_inv (init_st (K:=K) (V:=V) progs).
Proof.
  intros progs H. split; [apply ids_ok_init|]. split; [apply lock_inv2_init; exact H | apply frame_inv_init].
Qed.

Theorem all_inv_step : forall order (s s' : st) me acq ev,
  all_inv s -> cstep ltb order s me = Stepped s' acq ev -> all_inv s'.
Proof.
  intros order s s' me acq ev (H1 & H2 & H3) Hs.
  split; [eapply ids_ok_step; eauto|]. split; [eapply lock_inv2_step; eauto | eapply frame_inv_step; eauto].
Qed.

Theorem all_inv_exec : forall order sched (s : st), all_inv s -> all_inv (fst (exec ltb order s sched)).
Proof.
  intros order sched. induction sched as [|t rest IH]; intros s Hinv; simpl; [exact Hinv|].
  destruct (cstep ltb order s t) as [ | | |s1 acq ev| ] eqn:Hs; simpl; try exact Hinv.
  pose proof (IH s1 (all_inv_step order s s1 t acq ev Hinv Hs)) as H.
  destruct (exec ltb order s1 rest) as [s2 h]. simpl in *. exact H.
Qed.

Corollary all_inv_reachable : forall order sched (progs : list (tid * list (cop K V))),
  NoDup (map fst progs) -> all_inv (fst (exec ltb order (init_st progs) sched)).
Proof. intros. apply all_inv_exec. apply all_inv_init. assumption. Qed.

(* ------------------------------------------------------------------------------------------------ *)
(* 2. the frame theorem                                                                              *)
(* ------------------------------------------------------------------------------------------------ *)
Lemma step_frame_gen : forall order (s s' : st) me acq ev x,
  ids_ok s -> lock_inv2 K V s -> frame_inv s -> cstep ltb order s me = Stepped s' acq ev ->
  In x (ids (tr s)) -> ~ In x (held_by me (lk s)) -> acq <> Some (Some x) ->
  node_view x (tr s') = node_view x (tr s) \/ (~ lossless order (tr s) /\ node_view x (tr s') = None).
Proof.
  intros order s s' me acq ev x Hids Hinv Hfi Hs Hx Hnh Hna.
  destruct (cstep_blk order s s' me acq ev Hids Hinv Hfi Hs) as (th & th' & o & H1 & H2 & H3 & H4).
  destruct H4 as (B1 & B2 & B3 & B4 & B5). subst s'. simpl.
  apply B3. rewrite !in_app_iff. intros [[X|X]|X].
  - tauto.
  - destruct acq as [[y|]|]; simpl in X; try contradiction. destruct X as [<-|[]]. apply Hna. reflexivity.
  - apply in_seq in X. destruct Hids as [_ Hlt]. rewrite Forall_forall in Hlt. apply Hlt in Hx. lia.
Qed.

(* the frame theorem: the fields of a node that [me] does not hold are not changed by a step of [me] *)
Theorem step_frame : forall order (s s' : st) me acq ev x,
  ids_ok s -> lock_inv2 K V s -> frame_inv s -> lossless order (tr s) ->
  cstep ltb order s me = Stepped s' acq ev ->
  In x (ids (tr s)) -> ~ In x (held_by me (lk s)) -> acq <> Some (Some x) ->
  node_view x (tr s') = node_view x (tr s).
Proof.
  intros order s s' me acq ev x Hids Hinv Hfi Hl Hs Hx Hnh Hna.
  destruct (step_frame_gen order s s' me acq ev x Hids Hinv Hfi Hs Hx Hnh Hna) as [E|[E _]]; [exact E | tauto].
Qed.

(* without the capacity hypothesis: the fields are unchanged unless the node was dropped from the tree by a
   split of an over-full node (which never writes the node itself) *)
Theorem step_frame_weak : forall order (s s' : st) me acq ev x,
  ids_ok s -> lock_inv2 K V s -> frame_inv s ->
  cstep ltb order s me = Stepped s' acq ev ->
  In x (ids (tr s)) -> ~ In x (held_by me (lk s)) -> acq <> Some (Some x) ->
  node_view x (tr s') = node_view x (tr s) \/ node_view x (tr s') = None.
Proof.
  intros order s s' me acq ev x Hids Hinv Hfi Hs Hx Hnh Hna.
  destruct (step_frame_gen order s s' me acq ev x Hids Hinv Hfi Hs Hx Hnh Hna) as [E|[_ E]]; auto.
Qed.

(* ------------------------------------------------------------------------------------------------ *)
(* 3. the root pointer                                                                               *)
(* ------------------------------------------------------------------------------------------------ *)
(* slightly stronger than requested: the step that ACQUIRES the tree mutex (WantT) does not change the root,
   so the thread already held the mutex before the step *)
Theorem root_frame_strong : forall order (s s' : st) me acq ev,
  lock_inv2 K V s -> cstep ltb order s me = Stepped s' acq ev ->
  nid (tr s') <> nid (tr s) -> tm s = Some me.
Proof.
  intros order s s' me acq ev Hinv H Hne.
  unfold cstep in H.
  destruct (get_thread me (ths s)) as [th|] eqn:Hme; [|discriminate H].
  destruct (target s (tpc th)) as [tg|] eqn:Htg; [|discriminate H].
  destruct (negb (is_free s tg)) eqn:Hfree; [discriminate H|].
  destruct Hinv as [Hinv Hwf2]. pose proof Hinv as (_ & _ & _ & _ & Hth).
  destruct (Hth me th Hme) as [_ [_ HT]].
  destruct (pc_holds_T (tpc th)) eqn:EhT; [apply HT; reflexivity|]. exfalso. apply Hne. clear HT Hne.
  cbv zeta in H.
  assert (Hgen : forall o : out,
            nid (otr o) = nid (tr s) ->
            Stepped {| tr := otr o; tm := otm o; lk := olk o; fresh := ofresh o;
                       ths := set_thread me (if existsb (fun e => match e with EReturn _ => true | _ => false end) (oev o)
                                then {| prog := tl (prog th); tpc := opc o; results := flat_map (fun e => match e with EReturn r => [r] | _ => [] end) (oev o) ++ results th |}
                                else {| prog := prog th; tpc := opc o; results := results th |}) (ths s) |} tg (oev o) = Stepped s' acq ev ->
            nid (tr s') = nid (tr s)).
  { intros o Hn Hs. inversion Hs; subst. simpl. exact Hn. }
  destruct (tpc th) as [ |o|o r|o lft rgt|o p c index|o p c r|o leaf mode index|o p c|o stk|o stk|o stk|leaf i n acc|leaf nxt n acc] eqn:Hpc;
    try discriminate EhT.
  all: cbv beta iota in H; simpl in Htg; crunch Htg; inversion Htg; subst tg; clear Htg.
  all: match type of H with match ?B with _ => _ end = _ => destruct B as [[o1|]|] eqn:HB; try discriminate H end.
  all: apply (Hgen o1); [clear H Hgen | exact H].
  - blk_inv HB. reflexivity.
  - blk_inv HB. reflexivity.
  - (* InsWantChild *)
    blk_top HB. crunch HE.
    all: try (unfold mk in HE; inversion HE; subst; clear HE; cbn [otr]; eapply upd_nid; eauto; reflexivity).
    all: match goal with
         | E : ins_descend _ _ _ ?t' _ _ _ = Ok ?o |- nid (otr ?o) = _ =>
           apply ins_descend_shape in E; destruct E as (_ & S2 & _); rewrite S2; eapply upd_nid; eauto; reflexivity
         end.
  - blk_top HB. apply ins_descend_shape in HE. destruct HE as (_ & S2 & _). exact S2.
  - blk_top HB. unfold mk in HE. crunch HE; inversion HE; subst; clear HE; cbn [otr]; eapply upd_nid; eauto; reflexivity.
  - blk_top HB. apply sea_descend_shape in HE. destruct HE as (_ & S2 & _). exact S2.
  - blk_top HB. unfold mk in HE. crunch HE; inversion HE; subst; clear HE; reflexivity.
  - blk_top HB. unfold mk in HE. crunch HE; inversion HE; subst; clear HE; reflexivity.
Qed.

Theorem root_frame : forall order (s s' : st) me acq ev,
  lock_inv2 K V s -> cstep ltb order s me = Stepped s' acq ev ->
  nid (tr s') <> nid (tr s) -> (tm s = Some me \/ acq = Some None).
Proof. intros. left. eapply root_frame_strong; eauto. Qed.

(* ------------------------------------------------------------------------------------------------ *)
(* the capacity hypothesis of [step_frame] follows from the global invariant at even orders            *)
(* ------------------------------------------------------------------------------------------------ *)
Lemma icount_erase (n : itree) : icount n = count (erase_ids n).
Proof. destruct n; simpl; [reflexivity | rewrite map_length; reflexivity]. Qed.

Lemma cap_find order x : forall (t n : itree), cap order (erase_ids t) -> find x t = Some n -> cap order (erase_ids n).
Proof.
  induction t as [i nx es|i cs IH] using itree_ind2; intros n Hc Hf; rewrite find_eq in Hf; simpl nid in Hf.
  - destruct (i =? x); [|discriminate]. inversion Hf; subst. exact Hc.
  - destruct (i =? x); [inversion Hf; subst; exact Hc|].
    simpl in Hc. destruct Hc as [_ Hk].
    induction cs as [|[k c] r IHr]; [discriminate|].
    inversion IH as [|? ? H1 H2]; subst. rewrite findl_cons in Hf. simpl in Hk, H1. destruct Hk as [Hk1 Hk2].
    destruct (find x c) eqn:Ec.
    + inversion Hf; subst. apply H1; auto.
    + apply IHr; auto.
Qed.

Theorem GI_lossless : forall order (s : st),
  Nat.even order = true -> GI ltb order s -> lossless order (tr s).
Proof.
  intros order s Hev (_ & _ & _ & _ & Hcap & _) x n Hf.
  pose proof (cap_find order x _ _ Hcap Hf) as Hc.
  assert (Hcount : count (erase_ids n) <= order) by (destruct n; simpl in Hc; tauto).
  rewrite icount_erase. pose proof (even_div2 order Hev). lia.
Qed.

(* ------------------------------------------------------------------------------------------------ *)
(* restated for every state reachable under every schedule                                           *)
(* ------------------------------------------------------------------------------------------------ *)
Theorem reach_all_inv order (progs : list (tid * list (cop K V))) sched : NoDup (map fst progs) -> all_inv (reach ltb order progs sched).
Proof. intros H. apply all_inv_reachable. exact H. Qed.

Theorem reach_ids_ok order (progs : list (tid * list (cop K V))) sched : NoDup (map fst progs) -> ids_ok (reach ltb order progs sched).
Proof. intros H. apply reach_all_inv. exact H. Qed.

Theorem reach_step_frame order (progs : list (tid * list (cop K V))) sched me s' acq ev x :
  NoDup (map fst progs) ->
  let s := reach ltb order progs sched in
  lossless order (tr s) ->
  cstep ltb order s me = Stepped s' acq ev ->
  In x (ids (tr s)) -> ~ In x (held_by me (lk s)) -> acq <> Some (Some x) ->
  node_view x (tr s') = node_view x (tr s).
Proof.
  intros H s Hl Hs Hx Hh Ha. destruct (reach_all_inv order progs sched H) as (I1 & I2 & I3).
  eapply step_frame; eauto.
Qed.

Theorem reach_step_frame_weak order (progs : list (tid * list (cop K V))) sched me s' acq ev x :
  NoDup (map fst progs) ->
  let s := reach ltb order progs sched in
  cstep ltb order s me = Stepped s' acq ev ->
  In x (ids (tr s)) -> ~ In x (held_by me (lk s)) -> acq <> Some (Some x) ->
  node_view x (tr s') = node_view x (tr s) \/ node_view x (tr s') = None.
Proof.
  intros H s Hs Hx Hh Ha. destruct (reach_all_inv order progs sched H) as (I1 & I2 & I3).
  eapply step_frame_weak; eauto.
Qed.

Theorem reach_root_frame order (progs : list (tid * list (cop K V))) sched me s' acq ev :
  NoDup (map fst progs) ->
  let s := reach ltb order progs sched in
  cstep ltb order s me = Stepped s' acq ev -> nid (tr s') <> nid (tr s) -> tm s = Some me.
Proof.
  intros H s Hs Hn. destruct (reach_all_inv order progs sched H) as (I1 & I2 & I3).
  eapply root_frame_strong; eauto.
Qed.

End FrameProof.

(* ------------------------------------------------------------------------------------------------ *)
(* DISCREPANCIES: machine-checked counterexamples (K = V = nat)                                       *)
(* ------------------------------------------------------------------------------------------------ *)
Section Counterexamples.

Lemma one_thread (p : thread nat nat) t th : get_thread t [(0, p)] = Some th -> t = 0 /\ th = p.
Proof.
  unfold get_thread. simpl. destruct t; simpl; intros H; [inversion H; auto | discriminate H].
Qed.

(* (1) Without [frame_inv], neither [ids_ok_step] nor [step_frame] holds: thread 0 rests at
       InsWantChild _ 1 3 0, i.e. it claims that child 0 of node 1 is node 3, but child 0 is node 2.  The step
       overwrites child slot 0 with the subtree found under identity 3: node 2 (held by nobody) vanishes from
       the tree and identity 3 occurs twice.  The state satisfies ids_ok, lock_inv2 and lossless. *)
Definition cex1 : st nat nat :=
  {| tr := INode 1 [(0, ILeaf 2 (Some 3) [(0, 0)]); (5, ILeaf 3 None [(5, 5)])];
     tm := None; lk := [(1, 0)]; fresh := 4;
     ths := [(0, {| prog := [CInsert 7 7]; tpc := InsWantChild (CInsert 7 7) 1 3 0; results := [] |})] |}.

Lemma cex1_ids : ids_ok cex1.
Proof. unfold ids_ok, cex1. simpl. split; repeat constructor; simpl; intuition discriminate. Qed.

Lemma cex1_inv2 : lock_inv2 nat nat cex1.
Proof.
  split.
  - unfold lock_inv, cex1. simpl.
    split; [repeat constructor; simpl; tauto|].
    split; [repeat constructor; simpl; tauto|].
    split; [intros x t [H|[]]; inversion H; subst; eexists; reflexivity|].
    split; [intros t H; discriminate H|].
    intros t th H. apply one_thread in H. destruct H as [-> ->]. simpl.
    split; [exact I|]. split; [apply Permutation_refl | split; discriminate].
  - intros t th H. apply one_thread in H. destruct H as [-> ->]. exact I.
Qed.

Lemma cex1_lossless : lossless 4 (tr cex1).
Proof.
  intros x n Hf. pose proof (find_sub_ids nat nat x (tr cex1) n) as Hs.
  unfold cex1 in *. simpl tr in *.
  rewrite find_eq in Hf. simpl in Hf.
  repeat match type of Hf with
         | (if ?c then _ else _) = _ => destruct c; [inversion Hf; subst; simpl; lia|]
         | match (if ?c then _ else _) with _ => _ end = _ => destruct c; [inversion Hf; subst; simpl; lia|]
         end.
  discriminate Hf.
Qed.

Theorem ids_ok_step_needs_frame_inv :
  exists (s s' : st nat nat) acq ev,
    ids_ok s /\ lock_inv2 nat nat s /\ lossless 4 (tr s) /\
    cstep Nat.ltb 4 s 0 = Stepped s' acq ev /\
    ~ ids_ok s' /\
    In 2 (ids (tr s)) /\ ~ In 2 (held_by 0 (lk s)) /\ acq <> Some (Some 2) /\
    node_view 2 (tr s) <> None /\ node_view 2 (tr s') = None.
Proof.
  exists cex1. eexists. eexists. eexists.
  split; [exact cex1_ids|]. split; [exact cex1_inv2|]. split; [exact cex1_lossless|].
  split; [vm_compute; reflexivity|].
  split.
  { intros [Hnd _]. pose proof (proj1 (cnt_nodup _) Hnd 3) as X. vm_compute in X. lia. }
  split; [simpl; auto|]. split; [vm_compute; intuition discriminate|].
  split; [discriminate|]. split; [vm_compute; discriminate | vm_compute; reflexivity].
Qed.

(* (2) Without the capacity hypothesis [lossless], [step_frame] fails even with all three invariants: at the odd
       order 3 the root split keeps 1 + 1 of the 3 children and silently drops the third (Go's maybeSplit,
       "literally drops the rest" in Model.v).  Node 4, which the inserting thread neither holds nor is
       granted, leaves the tree.  Its own fields are not written ([step_frame_weak] still applies). *)
Definition cex2 : st nat nat :=
  {| tr := INode 1 [(0, ILeaf 2 (Some 3) [(0, 0)]); (5, ILeaf 3 (Some 4) [(5, 5)]); (9, ILeaf 4 None [(9, 9)])];
     tm := Some 0; lk := []; fresh := 5;
     ths := [(0, {| prog := [CInsert 1 1]; tpc := WantRoot (CInsert 1 1) 1; results := [] |})] |}.

Lemma cex2_inv : all_inv nat nat cex2.
Proof.
  split; [|split].
  - unfold ids_ok, cex2. simpl. split; repeat constructor; simpl; intuition discriminate.
  - split.
    + unfold lock_inv, cex2. simpl.
      split; [constructor|].
      split; [repeat constructor; simpl; tauto|].
      split; [intros x t []|].
      split; [intros t H; inversion H; subst; eexists; reflexivity|].
      intros t th H. apply one_thread in H. destruct H as [-> ->]. simpl.
      split; [exact I|]. split; [apply Permutation_refl | tauto].
    + intros t th H. apply one_thread in H. destruct H as [-> ->]. reflexivity.
  - intros t th H. apply one_thread in H. destruct H as [-> ->]. exact I.
Qed.

Theorem step_frame_needs_lossless :
  exists (s s' : st nat nat) acq ev,
    all_inv nat nat s /\
    cstep Nat.ltb 3 s 0 = Stepped s' acq ev /\
    In 4 (ids (tr s)) /\ ~ In 4 (held_by 0 (lk s)) /\ acq <> Some (Some 4) /\
    node_view 4 (tr s) <> None /\ node_view 4 (tr s') = None.
Proof.
  exists cex2. eexists. eexists. eexists.
  split; [exact cex2_inv|].
  split; [vm_compute; reflexivity|].
  split; [simpl; auto|]. split; [simpl; tauto|].
  split; [discriminate|]. split; [vm_compute; discriminate | vm_compute; reflexivity].
Qed.

End Counterexamples.

Print Assumptions ids_ok_init.
Print Assumptions ids_ok_step.
Print Assumptions frame_inv_init.
Print Assumptions frame_inv_step.
Print Assumptions all_inv_reachable.
Print Assumptions step_frame.
Print Assumptions step_frame_weak.
Print Assumptions root_frame.
Print Assumptions root_frame_strong.
Print Assumptions GI_lossless.
Print Assumptions reach_step_frame.
Print Assumptions reach_step_frame_weak.
Print Assumptions reach_root_frame.
Print Assumptions ids_ok_step_needs_frame_inv.
Print Assumptions step_frame_needs_lossless.


(* STATUS: everything above is proved; no axioms, nothing admitted.

   Proved exactly as requested:   ids_ok_init, root_frame (and the stronger root_frame_strong: tm s = Some me).

   Proved with additional hypotheses (both shown necessary by machine-checked counterexamples):
     ids_ok_step  : + frame_inv s
     step_frame   : + frame_inv s  + lossless order (tr s);     conclusion: node_view x (tr s') = node_view x (tr s)
     step_frame_weak : + frame_inv s;                            conclusion: ... = node_view x (tr s) \/ ... = None

   [frame_inv] (FrameInv.v) is the auxiliary invariant: the identities recorded in a program counter mean what the
   code assumes they mean — at InsWantChild o p c index, child slot [index] of p points to c; every Delete frame
   records its node's left sibling (fl) and child (fc) at the recorded index, frames are linked (fc of the frame
   below = fp of the frame above), and the recorded nodes were allocated (< fresh).  All facts are conditional on
   the node still being an internal node of the tree, which is what makes the invariant inductive without any
   capacity assumption.  It holds initially (frame_inv_init), is preserved by every step (frame_inv_step) and
   hence, with ids_ok and lock_inv2, holds in every reachable state (all_inv_reachable, reach_all_inv).
   Without it ids_ok_step and step_frame are false: ids_ok_step_needs_frame_inv.

   [lossless order t]: no node has more than 2 * (order / 2) entries, i.e. isplit drops nothing.  It follows from
   the capacity clause of GI at even orders (GI_lossless) but is NOT proved here to hold in reachable states (that
   is the capacity part of the global invariant, a separate proof).  It is necessary: at an odd order the split
   silently drops the last child/entry of a full node and the dropped subtree leaves the tree although the
   splitting thread holds none of its nodes (step_frame_needs_lossless, order 3).  What survives without it is
   step_frame_weak: a node outside the footprint is never WRITTEN; it can only become unreachable. *)
